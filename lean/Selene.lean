import Selene.Sexp
import Selene.Std.Basic
import Selene.Std.Codec
import Selene.Std.Extend
import Selene.Std.ExtendLemmas
