/-
`multiple_statements` (selene-lib/src/lints/multiple_statements.rs), default configuration
(`one_line_if = "break-return-only"`).  The one lint of this half that reads the layout, and only line numbers.
Hooks: `visit_stmt` (with `prepare_if` for `if`), `visit_last_stmt`; state = two line sets.
-/
import Selene.Lints.TraverseB
namespace Selene.LintsB.MultipleStatements
open Selene.Lua Selene.LintsB

structure St where
  ifLines : List Nat := []
  lines : List Nat := []
  diags : List Diag := []
deriving Repr

/-- line on which token `i` ends -/
def endLine (layout : Layout) (i : Nat) : Nat := (layout[i]?.map (·.stopLine)).getD 0

def msg : String := "only one statement per line is allowed"

/-- `prepare_if` under `BreakReturnOnly`: the `then` keyword is the token after the condition -/
def prepareIf (layout : Layout) (σ : St) (c : Expr) (b : Block) : St :=
  match b with
  | .mk _ .nil .none => σ                         -- no last statement
  | .mk _ .nil _ =>
    let line := endLine layout (c.span.last + 1)
    { σ with ifLines := if σ.ifLines.contains line then σ.ifLines else line :: σ.ifLines }
  | _ => σ                                        -- the block has a statement

/-- `lint_stmt` -/
def lintStmt (layout : Layout) (σ : St) (sp : Span) : St :=
  let line := endLine layout sp.last
  if σ.lines.contains line then { σ with diags := σ.diags ++ [{ code := "multiple_statements", primary := sp, msg := msg }] }
  else if σ.ifLines.contains line then { σ with ifLines := σ.ifLines.filter (· != line) }
  else { σ with lines := line :: σ.lines }

def step (layout : Layout) (σ : St) : Node → St
  | .stmt (.if_ sp c b e1 e2) => lintStmt layout (prepareIf layout σ c b) (stmtSpan (.if_ sp c b e1 e2))
  | .stmt s => lintStmt layout σ (stmtSpan s)
  | .last l => lintStmt layout σ (lastSpan l)
  | _ => σ

def run (layout : Layout) (b : Block) : List Diag := ((nBlock b).foldl (step layout) {}).diags

end Selene.LintsB.MultipleStatements
