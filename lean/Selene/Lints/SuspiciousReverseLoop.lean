/- `suspicious_reverse_loop` — selene-lib/src/lints/suspicious_reverse_loop.rs:49-68 -/
import Selene.Lints.TraverseA
import Selene.Lints.Value
namespace Selene.Lints.SuspiciousReverseLoop
open Selene.Lua Selene.Lints

def message : String := "this loop will only ever run once at most"

def isHashOp : Expr → Bool
  | .un _ op _ => op.text == "#"
  | _ => false

/-- `visit_numeric_for` (suspicious_reverse_loop.rs:50-67): no step, start is `#…`, end is a number
token for which `number_value` is `Some(end)` with `end <= 1.0`.  The label runs from the start of the start expression to the end of the
end expression. -/
def hook : Node → List Diag
  | .stmt (.numFor _ _ _ a e .none _) =>
    if isHashOp a then
      match e with
      | .num t =>
        if numberValueLeOne t.text then
          [{ code := "suspicious_reverse_loop", primary := ⟨a.span.first, t.idx⟩, msg := message }]
        else []
      | _ => []
    else []
  | _ => []

def lint (b : Block) : List Diag := runLint hook b
end Selene.Lints.SuspiciousReverseLoop
