/- `mixed_table` — selene-lib/src/lints/mixed_table.rs:50-78 -/
import Selene.Lints.TraverseA
import Selene.Lints.DuplicateKeys
namespace Selene.Lints.MixedTable
open Selene.Lua Selene.Lints

def message : String := "mixed tables should be avoided, as they can cause confusing and hard to debug issues such as during iteration or encoding"

def diag (a b : Nat) : Diag := { code := "mixed_table", primary := ⟨a, b⟩, msg := message }

/-- the loop of `visit_table_constructor` (rs:52-76).  The Rust keeps the byte offset of the last
keyed / un-keyed field and uses `> 0` for "seen one"; a field never starts at byte 0 (a `{` comes
first), so `Option` of the field's first token is the same state.  The first mixed pair ends the
loop (`return`). -/
def fields : FieldList → Option Nat → Option Nat → List Diag
  | .nil, _, _ => []
  | .cons (.noKey v) rest, lastKey, _ =>
    match lastKey with
    | some k => [diag k v.span.last]
    | none => fields rest lastKey (some v.span.first)
  | .cons f rest, _, lastNoKey =>
    match lastNoKey with
    | some k => [diag k (DuplicateKeys.fieldRange f).last]
    | none => fields rest (some (DuplicateKeys.fieldRange f).first) lastNoKey

def hook : Node → List Diag
  | .table _ fs => fields fs none none
  | _ => []

def lint (b : Block) : List Diag := runLint hook b
end Selene.Lints.MixedTable
