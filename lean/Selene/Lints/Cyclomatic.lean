/-
`high_cyclomatic_complexity` — selene-lib/src/lints/high_cyclomatic_complexity.rs.

The lint measures every function (function statements, local functions, function expressions) with
`count_block_complexity(body, 1)`: an accumulator threaded through statements and expressions that is
bumped at every `if` / `elseif` / `while` / `repeat` / `for` and at every `and` / `or`; nested function
bodies are measured on their own and do not count towards the enclosing function.  The Rust counts in
`u16`; the model counts in `Nat` (a function with more than 65 535 decision points is outside the model).

Transcribed as written, including what the walk does *not* descend into: the `else` block of an `if`,
the prefix expression of an indexed variable (`(a and b).x`), assignment targets' prefix expressions.
`Doc.points` is the independent reading "number of decision nodes the walk reaches"; `countBlock_eq`
proves the threaded accumulator equal to start + that number.
-/
import Selene.Lints.TraverseA
namespace Selene.Lints.Cyclomatic
open Selene.Lua Selene.Lints

def isAndOr (op : Tok) : Bool := op.text == "and" || op.text == "or"

mutual
/-- `count_expression_complexity` -/
def countE : Expr → Nat → Nat
  | .bin _ l op r, c => countE r (countE l (if isAndOr op then c + 1 else c))
  | .paren _ e, c => countE e c
  | .un _ _ e, c => countE e c
  | .func _ _ _, c => c
  | .call (.mk _ p ss), c => countSS ss (countPfx p c)
  | .tbl _ fs, c => countFL fs c
  | .var (.expr _ _ ss), c => countSS ss c
  | _, c => c
/-- the prefix of a call: `if let Prefix::Expression(e) = call.prefix()` -/
def countPfx : Prefix → Nat → Nat
  | .expr e, c => countE e c
  | .name _, c => c
/-- `count_suffix_complexity` over all suffixes -/
def countSS : SuffixList → Nat → Nat
  | .nil, c => c
  | .cons s rest, c => countSS rest (countSf s c)
def countSf : Suffix → Nat → Nat
  | .idx _ e, c => countE e c
  | .dot _ _, c => c
  | .args _ a, c => countA a c
  | .meth _ _ a, c => countA a c
  | .unsupported _, c => c
/-- `count_arguments_complexity` -/
def countA : Args → Nat → Nat
  | .parens _ es, c => countEL es c
  | .tbl _ fs, c => countFL fs c
  | .str _ _ _, c => c
def countEL : ExprList → Nat → Nat
  | .nil, c => c
  | .cons e rest, c => countEL rest (countE e c)
/-- `count_table_complexity` -/
def countFL : FieldList → Nat → Nat
  | .nil, c => c
  | .cons f rest, c => countFL rest (countF f c)
def countF : Field → Nat → Nat
  | .exprKey _ k v, c => countE v (countE k c)
  | .nameKey _ _ v, c => countE v c
  | .noKey v, c => countE v c
  | .unsupported _, c => c
end

/-- the suffixes of the indexed assignment targets -/
def countVL : VarList → Nat → Nat
  | .nil, c => c
  | .cons (.expr _ _ ss) rest, c => countVL rest (countSS ss c)
  | .cons (.name _) rest, c => countVL rest c

mutual
/-- `count_block_complexity` -/
def countB : Block → Nat → Nat
  | .mk _ stmts last, c =>
    let c := countSL stmts c
    match last with
    | .ret _ es => countEL es c
    | _ => c
def countSL : StmtList → Nat → Nat
  | .nil, c => c
  | .cons s rest, c => countSL rest (countS s c)
def countS : Stmt → Nat → Nat
  | .assign _ vs es, c => countEL es (countVL vs c)
  | .do_ _ b, c => countB b c
  | .call (.mk _ p ss), c => countSS ss (countPfx p c)
  | .func _ _ _, c => c
  | .genFor _ _ es b, c => countB b (countEL es (c + 1))
  | .if_ _ cond b elifs _els, c => countEIL elifs (countB b (countE cond (c + 1)))   -- the `else` block is not walked
  | .localAssign _ _ es, c => countEL es c
  | .localFunc _ _ _, c => c
  | .numFor _ _ _ a e st b, c =>
    let c := countE e (countE a (c + 1))
    let c := match st with | .some s => countE s c | .none => c
    countB b c
  | .repeat_ _ b cond, c => countB b (countE cond (c + 1))
  | .while_ _ cond b, c => countB b (countE cond (c + 1))
  | .unsupported _, c => c
def countEIL : ElseIfList → Nat → Nat
  | .nil, c => c
  | .cons (.mk _ cond b) rest, c => countEIL rest (countB b (countE cond (c + 1)))
end

/-- the complexity the lint attributes to a function body -/
def complexity : FuncBody → Nat
  | .mk _ _ b => countB b 1

/-- the token just after the parameter list's closing parenthesis is not stored; the `)` is the token after
the last parameter, or the one after `(` -/
def closeParen : FuncBody → Nat
  | .mk sp params _ =>
    match params.getLast? with
    | some (.name t) => t.idx + 1
    | some (.dots t) => t.idx + 1
    | none => sp.first + 1

def diagOf (max : Nat) (start : Nat) (body : FuncBody) : List Diag :=
  if complexity body > max then
    [{ code := "high_cyclomatic_complexity", primary := ⟨start, closeParen body⟩,
       msg := s!"cyclomatic complexity is too high ({complexity body} > {max})" }]
  else []

/-- the three `Visitor` hooks -/
def hook (max : Nat) : Node → List Diag
  | .stmt (.localFunc sp _ body) => diagOf max (sp.first + 1) body      -- `local function`: the `function` token
  | .stmt (.func sp _ body) => diagOf max sp.first body
  | .expr (.func sp _ body) => diagOf max sp.first body
  | _ => []

def lint (max : Nat) (b : Block) : List Diag := runLint (hook max) b

end Selene.Lints.Cyclomatic
