/-
`empty_loop` (selene-lib/src/lints/empty_loop.rs), default configuration (`comments_count = false`).
-/
import Selene.Lints.TraverseB
namespace Selene.LintsB.EmptyLoop
open Selene.Lua Selene.LintsB

def blockIsEmpty : Block → Bool
  | .mk _ .nil .none => true
  | _ => false

def msg : String := "empty loop block"

/-- the body of a loop statement (`none` for every other statement) -/
def loopBody : Stmt → Option Block
  | .genFor _ _ _ b => some b
  | .numFor _ _ _ _ _ _ b => some b
  | .while_ _ _ b => some b
  | .repeat_ _ b _ => some b
  | _ => none

/-- `visit_generic_for`, `visit_numeric_for`, `visit_while`, `visit_repeat` -/
def collect : Node → List Diag
  | .stmt s => match loopBody s with
    | some b => if blockIsEmpty b then [{ code := "empty_loop", primary := stmtSpan s, msg := msg }] else []
    | none => []
  | _ => []

def run (b : Block) : List Diag := (nBlock b).flatMap collect

namespace Doc
def noStatements (b : Block) : Prop := blockStmts b = .nil ∧ blockLast b = .none
end Doc

end Selene.LintsB.EmptyLoop
