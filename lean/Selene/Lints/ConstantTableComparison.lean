/- `constant_table_comparison` — selene-lib/src/lints/constant_table_comparison.rs:91-150 -/
import Selene.Lints.TraverseA
namespace Selene.Lints.ConstantTableComparison
open Selene.Lua Selene.Lints

def message : String := "comparing to a constant table will always fail"

inductive TableMatch where
  | empty | notEmpty
deriving DecidableEq, Repr

/-- `constant_table_match` (rs:91-100) -/
def constantTableMatch : Expr → Option TableMatch
  | .tbl _ .nil => some .empty
  | .tbl _ (.cons _ _) => some .notEmpty
  | _ => none

def isComparison (op : String) : Bool :=
  op == "==" || op == "~=" || op == ">" || op == "<" || op == ">=" || op == "<="

def diag (sp : Span) : Diag := { code := "constant_table_comparison", primary := sp, msg := message }

/-- `visit_expression` (rs:103-149), arm by arm; the arms differ only in the suggestion note -/
def hook : Node → List Diag
  | .expr (.bin sp l op r) =>
    if isComparison op.text then
      match constantTableMatch l, constantTableMatch r with
      | some _, some _ => [diag sp]
      | some .notEmpty, _ => [diag sp]
      | _, some .notEmpty => [diag sp]
      | some .empty, none => [diag sp]
      | none, some .empty => [diag sp]
      | none, none => []
    else []
  | _ => []

def lint (b : Block) : List Diag := runLint hook b
end Selene.Lints.ConstantTableComparison
