/-
Shared traversal of the expression-level C04 lints (half A).

full_moon's `Visitor` calls `visit_expression` for every `Expression` node, `visit_table_constructor`
for every `TableConstructor` (expression *and* call-argument position), `visit_function_call` for
every `FunctionCall` (expression and statement position) and the per-statement hooks (`visit_if`,
`visit_while`, `visit_repeat`, `visit_numeric_for`) for every statement, all in source pre-order.
`nodesB` enumerates exactly these hook invocations for a block; a lint is a function
`Node → List Diag` applied to every node (`runLint`).

`BCtx` is a one-hole statement context (any block position at any nesting depth, through every
block-carrying statement, function statements and function expressions in `local` initialisers);
`nodes_plug` shows that every node of a statement is still a node of the program the statement is
plugged into, so a lint that fires on a pattern fires on it in every context.
-/
import Selene.Lua.Ast
namespace Selene.Lints
open Selene.Lua

/-- A diagnostic in token space.  `sub = some (a, b)`: the label lies inside token `primary.first`,
at byte offsets `a … b` from the start of that token (bad_string_escape). -/
structure Diag where
  code : String
  primary : Span
  msg : String := ""
  secondary : List Span := []
  sub : Option (Nat × Nat) := none
deriving DecidableEq, Repr, Inhabited

inductive Node where
  | expr (e : Expr)
  | stmt (s : Stmt)
  | table (sp : Span) (fs : FieldList)
  | call (c : FCall)

mutual
def nodesE : Expr → List Node
  | .nil t => [.expr (.nil t)]
  | .true_ t => [.expr (.true_ t)]
  | .false_ t => [.expr (.false_ t)]
  | .dots t => [.expr (.dots t)]
  | .num t => [.expr (.num t)]
  | .str t q l => [.expr (.str t q l)]
  | .func sp kw body => .expr (.func sp kw body) :: nodesFB body
  | .paren sp e => .expr (.paren sp e) :: nodesE e
  | .un sp op e => .expr (.un sp op e) :: nodesE e
  | .bin sp l op r => .expr (.bin sp l op r) :: (nodesE l ++ nodesE r)
  | .tbl sp fs => .expr (.tbl sp fs) :: .table sp fs :: nodesFL fs
  | .var v => .expr (.var v) :: nodesV v
  | .call c => .expr (.call c) :: nodesC c
  | .unsupported sp => [.expr (.unsupported sp)]
def nodesEL : ExprList → List Node
  | .nil => []
  | .cons e rest => nodesE e ++ nodesEL rest
def nodesV : Var → List Node
  | .name _ => []
  | .expr _ p ss => nodesP p ++ nodesSS ss
def nodesVL : VarList → List Node
  | .nil => []
  | .cons v rest => nodesV v ++ nodesVL rest
def nodesP : Prefix → List Node
  | .name _ => []
  | .expr e => nodesE e
def nodesSf : Suffix → List Node
  | .dot _ _ => []
  | .idx _ e => nodesE e
  | .args _ a => nodesA a
  | .meth _ _ a => nodesA a
  | .unsupported _ => []
def nodesSS : SuffixList → List Node
  | .nil => []
  | .cons s rest => nodesSf s ++ nodesSS rest
def nodesA : Args → List Node
  | .parens _ es => nodesEL es
  | .str _ _ _ => []
  | .tbl sp fs => .table sp fs :: nodesFL fs
def nodesC : FCall → List Node
  | .mk sp p ss => .call (.mk sp p ss) :: (nodesP p ++ nodesSS ss)
def nodesF : Field → List Node
  | .exprKey _ k v => nodesE k ++ nodesE v
  | .nameKey _ _ v => nodesE v
  | .noKey v => nodesE v
  | .unsupported _ => []
def nodesFL : FieldList → List Node
  | .nil => []
  | .cons f rest => nodesF f ++ nodesFL rest
def nodesFB : FuncBody → List Node
  | .mk _ _ b => nodesB b
def nodesS : Stmt → List Node
  | .assign sp vs es => .stmt (.assign sp vs es) :: (nodesVL vs ++ nodesEL es)
  | .localAssign sp ns es => .stmt (.localAssign sp ns es) :: nodesEL es
  | .call c => .stmt (.call c) :: nodesC c
  | .do_ sp b => .stmt (.do_ sp b) :: nodesB b
  | .while_ sp c b => .stmt (.while_ sp c b) :: (nodesE c ++ nodesB b)
  | .repeat_ sp b c => .stmt (.repeat_ sp b c) :: (nodesB b ++ nodesE c)
  | .if_ sp c b elifs els => .stmt (.if_ sp c b elifs els) :: (nodesE c ++ nodesB b ++ nodesEIL elifs ++ nodesOB els)
  | .numFor sp v cm a e st b => .stmt (.numFor sp v cm a e st b) :: (nodesE a ++ nodesE e ++ nodesOE st ++ nodesB b)
  | .genFor sp ns es b => .stmt (.genFor sp ns es b) :: (nodesEL es ++ nodesB b)
  | .func sp n body => .stmt (.func sp n body) :: nodesFB body
  | .localFunc sp n body => .stmt (.localFunc sp n body) :: nodesFB body
  | .unsupported sp => [.stmt (.unsupported sp)]
def nodesSL : StmtList → List Node
  | .nil => []
  | .cons s rest => nodesS s ++ nodesSL rest
def nodesEI : ElseIf → List Node
  | .mk _ c b => nodesE c ++ nodesB b
def nodesEIL : ElseIfList → List Node
  | .nil => []
  | .cons e rest => nodesEI e ++ nodesEIL rest
def nodesOB : OptBlock → List Node
  | .none => []
  | .some b => nodesB b
def nodesOE : OptExpr → List Node
  | .none => []
  | .some e => nodesE e
def nodesLS : LastStmt → List Node
  | .none => []
  | .ret _ es => nodesEL es
  | .brk _ => []
def nodesB : Block → List Node
  | .mk _ stmts last => nodesSL stmts ++ nodesLS last
end

/-- a lint = one hook per visited node -/
def runLint (hook : Node → List Diag) (b : Block) : List Diag := (nodesB b).flatMap hook

theorem mem_runLint {hook : Node → List Diag} {b : Block} {g : Diag} :
    g ∈ runLint hook b ↔ ∃ n ∈ nodesB b, g ∈ hook n := by
  simp [runLint, List.mem_flatMap]

/-! ### one-hole statement contexts -/

def StmtList.append : StmtList → StmtList → StmtList
  | .nil, ys => ys
  | .cons s xs, ys => .cons s (StmtList.append xs ys)

def ElseIfList.append : ElseIfList → ElseIfList → ElseIfList
  | .nil, ys => ys
  | .cons s xs, ys => .cons s (ElseIfList.append xs ys)

def ExprList.append : ExprList → ExprList → ExprList
  | .nil, ys => ys
  | .cons s xs, ys => .cons s (ExprList.append xs ys)

/-- a statement with a block-shaped hole -/
inductive SFrame where
  | do_ (sp : Span)
  | while_ (sp : Span) (c : Expr)
  | repeat_ (sp : Span) (c : Expr)
  | ifThen (sp : Span) (c : Expr) (elifs : ElseIfList) (els : OptBlock)
  | ifElif (sp : Span) (c : Expr) (b : Block) (pre : ElseIfList) (esp : Span) (ec : Expr) (post : ElseIfList) (els : OptBlock)
  | ifElse (sp : Span) (c : Expr) (b : Block) (elifs : ElseIfList)
  | numFor (sp : Span) (v cm : Tok) (a e : Expr) (st : OptExpr)
  | genFor (sp : Span) (ns : List Tok) (es : ExprList)
  | func (sp : Span) (n : FuncName) (bsp : Span) (ps : List Param)
  | localFunc (sp : Span) (n : Tok) (bsp : Span) (ps : List Param)
  /-- `local ns = pre…, function(ps) □ end, post…` -/
  | localLambda (sp : Span) (ns : List Tok) (pre : ExprList) (fsp : Span) (kw : Tok) (bsp : Span) (ps : List Param) (post : ExprList)

def SFrame.fill : SFrame → Block → Stmt
  | .do_ sp, h => .do_ sp h
  | .while_ sp c, h => .while_ sp c h
  | .repeat_ sp c, h => .repeat_ sp h c
  | .ifThen sp c elifs els, h => .if_ sp c h elifs els
  | .ifElif sp c b pre esp ec post els, h => .if_ sp c b (ElseIfList.append pre (.cons (.mk esp ec h) post)) els
  | .ifElse sp c b elifs, h => .if_ sp c b elifs (.some h)
  | .numFor sp v cm a e st, h => .numFor sp v cm a e st h
  | .genFor sp ns es, h => .genFor sp ns es h
  | .func sp n bsp ps, h => .func sp n (.mk bsp ps h)
  | .localFunc sp n bsp ps, h => .localFunc sp n (.mk bsp ps h)
  | .localLambda sp ns pre fsp kw bsp ps post, h =>
    .localAssign sp ns (ExprList.append pre (.cons (.func fsp kw (.mk bsp ps h)) post))

/-- a block with a statement-shaped hole, at any depth -/
inductive BCtx where
  | hole (sp : Option Span) (pre post : StmtList) (last : LastStmt)
  | nest (sp : Option Span) (pre : StmtList) (f : SFrame) (inner : BCtx) (post : StmtList) (last : LastStmt)

def BCtx.plug : BCtx → Stmt → Block
  | .hole sp pre post last, s => .mk sp (StmtList.append pre (.cons s post)) last
  | .nest sp pre f inner post last, s => .mk sp (StmtList.append pre (.cons (f.fill (inner.plug s)) post)) last

def BCtx.depth : BCtx → Nat
  | .hole .. => 0
  | .nest _ _ _ inner _ _ => inner.depth + 1

theorem nodesSL_append : (xs ys : StmtList) → nodesSL (StmtList.append xs ys) = nodesSL xs ++ nodesSL ys
  | .nil, ys => by simp [StmtList.append, nodesSL]
  | .cons s xs, ys => by simp [StmtList.append, nodesSL, nodesSL_append xs ys]

theorem nodesEIL_append : (xs ys : ElseIfList) → nodesEIL (ElseIfList.append xs ys) = nodesEIL xs ++ nodesEIL ys
  | .nil, ys => by simp [ElseIfList.append, nodesEIL]
  | .cons s xs, ys => by simp [ElseIfList.append, nodesEIL, nodesEIL_append xs ys]

theorem nodesEL_append : (xs ys : ExprList) → nodesEL (ExprList.append xs ys) = nodesEL xs ++ nodesEL ys
  | .nil, ys => by simp [ExprList.append, nodesEL]
  | .cons s xs, ys => by simp [ExprList.append, nodesEL, nodesEL_append xs ys]

theorem nodes_fill (f : SFrame) (h : Block) : ∀ n, n ∈ nodesB h → n ∈ nodesS (f.fill h) := by
  intro n hn
  cases f <;>
    simp [SFrame.fill, nodesS, nodesFB, nodesOB, nodesEIL_append, nodesEL_append, nodesEIL, nodesEI, nodesEL, nodesE, hn]

/-- every node of `s` is a node of `ctx.plug s` -/
theorem nodes_plug (ctx : BCtx) (s : Stmt) : ∀ n, n ∈ nodesS s → n ∈ nodesB (ctx.plug s) := by
  induction ctx with
  | hole sp pre post last =>
    intro n hn
    simp [BCtx.plug, nodesB, nodesSL_append, nodesSL, hn]
  | nest sp pre f inner post last ih =>
    intro n hn
    have := nodes_fill f (inner.plug s) n (ih n hn)
    simp [BCtx.plug, nodesB, nodesSL_append, nodesSL, this]

/-- a lint that fires on a statement fires on it in every context -/
theorem runLint_plug (hook : Node → List Diag) (ctx : BCtx) (s : Stmt) (g : Diag)
    (h : ∃ n ∈ nodesS s, g ∈ hook n) : g ∈ runLint hook (ctx.plug s) := by
  obtain ⟨n, hn, hg⟩ := h
  exact mem_runLint.mpr ⟨n, nodes_plug ctx s n hn, hg⟩

end Selene.Lints
