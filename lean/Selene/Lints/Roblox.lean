/-
The three Roblox lints that look at `Color3.new(…)` / `UDim2.new(…)` calls
(lints/roblox_incorrect_color3_new_bounds.rs, roblox_suspicious_udim2_new.rs,
roblox_manual_fromscale_or_fromoffset.rs) and `ast_util::numeric_literal_value`.

A call is looked at when its prefix is the name `Color3` / `UDim2` and its suffixes are exactly `.new` and a
parenthesised argument list.  Arguments are judged by the value their text denotes once parsed as an `f32`
(Rust's float grammar on number tokens is `decimalValue`'s — no hexadecimal; the result is the correctly
rounded f32): in `0.0..=1.0` iff the exact value is ≤ 1 + 2^-24 (ties to even), equal to `0.0` iff it is
≤ 2^-150 (half the smallest subnormal); a negated literal is in range / zero iff it rounds to `-0.0`.
-/
import Selene.Lints.TraverseA
import Selene.Lints.Value
namespace Selene.Lints.Roblox
open Selene.Lua Selene.Lints

/-- the nearest f32 is `0` -/
def f32IsZero (v : NumVal) : Bool := v.num * 2 ^ 150 ≤ v.den

/-- `numeric_literal_value(e)` reduced to the two questions the lints ask: `some (inUnit, isZero)` for a numeric
literal, optionally negated, whose text Rust's float grammar accepts; `none` for everything else (a variable — whatever
it is called —, a hexadecimal literal, a parenthesised number) -/
def literalFacts : Expr → Option (Bool × Bool)
  | .num t => (decimalValue t.text.toList).map fun v => (v.f32LeOne, f32IsZero v)
  | .un _ op (.num t) =>
    if op.text = "-" then (decimalValue t.text.toList).map fun v => (f32IsZero v, f32IsZero v) else none
  | _ => none

/-- `purge_trivia(e).to_string().parse::<f32>() == Ok(0.0)`: the text of a whole expression parses as a float only when
it is a numeric literal or a negated one (`inf` / `nan` parse, but are not zero) -/
def textIsZero (e : Expr) : Bool :=
  match literalFacts e with
  | some (_, z) => z
  | none => false

/-- the argument list of `Name.new(…)` -/
def ctorArgs (name : String) : FCall → Option ExprList
  | .mk _ (.name t) (.cons (.dot _ n) (.cons (.args _ (.parens _ es)) .nil)) =>
    if t.text = name && n.text = "new" then some es else none
  | _ => none

def color3Args : ExprList → List Diag
  | .nil => []
  | .cons e rest =>
    (match literalFacts e with
     | some (false, _) => [{ code := "roblox_incorrect_color3_new_bounds", primary := Expr.span e, msg := "Color3.new only takes numbers from 0 to 1" }]
     | _ => []) ++ color3Args rest

def isNumberLit : Expr → Bool
  | .num _ => true
  | _ => false

def udim2Message (n : Nat) : String :=
  s!"UDim2.new takes 4 numbers, but {n} {if n = 1 then "was" else "were"} provided."

/-- `roblox_suspicious_udim2_new`: 1–3 arguments, except two arguments none of which is a number literal -/
def udim2Suspicious (sp : Span) (es : ExprList) : List Diag :=
  let n := es.length
  if n = 0 || n ≥ 4 then []
  else if n = 2 && (es.toList.filter isNumberLit).length = 0 then []
  else [{ code := "roblox_suspicious_udim2_new", primary := sp, msg := udim2Message n }]

/-- `roblox_manual_fromscale_or_fromoffset`: four arguments, the two scales (or the two offsets) zero, not all four -/
def udim2Manual (sp : Span) (es : ExprList) : List Diag :=
  match es.toList with
  | [xs, xo, ys, yo] =>
    let onlyOffset := textIsZero xs && textIsZero ys
    let onlyScale := textIsZero xo && textIsZero yo
    if onlyOffset && onlyScale then []
    else if onlyOffset then [{ code := "roblox_manual_fromscale_or_fromoffset", primary := sp, msg := "this UDim2.new call only sets offset, and can be simplified using UDim2.fromOffset" }]
    else if onlyScale then [{ code := "roblox_manual_fromscale_or_fromoffset", primary := sp, msg := "this UDim2.new call only sets scale, and can be simplified using UDim2.fromScale" }]
    else []
  | _ => []

def hook : Node → List Diag
  | .call c =>
    (match ctorArgs "Color3" c with | some es => color3Args es | none => []) ++
    (match ctorArgs "UDim2" c with | some es => udim2Suspicious c.span es ++ udim2Manual c.span es | none => [])
  | _ => []

/-- the three lints under a Roblox library -/
def lint (b : Block) : List Diag := runLint hook b

/-! ### what the reports mean -/

/-- **a `Color3.new` argument is reported only if it is a numeric literal (optionally negated) — never a variable, whatever
its name — whose value lies outside 0..1** -/
theorem color3_sound : (es : ExprList) → (g : Diag) → g ∈ color3Args es →
    ∃ e ∈ es.toList, g.primary = e.span ∧ ∃ z, literalFacts e = some (false, z)
  | .nil, g, h => by simp [color3Args] at h
  | .cons e rest, g, h => by
    simp only [color3Args, List.mem_append] at h
    rcases h with h | h
    · refine ⟨e, by simp [ExprList.toList], ?_⟩
      cases hl : literalFacts e with
      | none => simp [hl] at h
      | some p =>
        obtain ⟨u, z⟩ := p
        cases u with
        | true => simp [hl] at h
        | false => simp [hl] at h; exact ⟨by rw [h], z, rfl⟩
    · obtain ⟨e', he', hp⟩ := color3_sound rest g h
      exact ⟨e', by simp [ExprList.toList, he'], hp⟩

/-- a variable is never a number for these lints -/
theorem variable_has_no_value (v : Var) : literalFacts (.var v) = none := rfl

/-- two fractions with the same value stand on the same side of every threshold `m / k` -/
theorem cross_le (a b c d k m : Nat) (h : a * d = c * b) (hb : 0 < b) (hd : 0 < d) :
    a * k ≤ m * b ↔ c * k ≤ m * d := by
  constructor
  · intro hle
    have h1 : a * k * d ≤ m * b * d := Nat.mul_le_mul_right d hle
    have e1 : a * k * d = c * k * b := by rw [Nat.mul_right_comm a k d, h, Nat.mul_right_comm c b k]
    have e2 : m * b * d = m * d * b := Nat.mul_right_comm m b d
    rw [e1, e2] at h1
    exact Nat.le_of_mul_le_mul_right h1 hb
  · intro hle
    have h1 : c * k * b ≤ m * d * b := Nat.mul_le_mul_right b hle
    have e1 : c * k * b = a * k * d := by rw [Nat.mul_right_comm c k b, ← h, Nat.mul_right_comm a d k]
    have e2 : m * d * b = m * b * d := Nat.mul_right_comm m d b
    rw [e1, e2] at h1
    exact Nat.le_of_mul_le_mul_right h1 hd

/-- **by value**: two numerals that Rust's float grammar accepts and that denote the same rational are judged alike,
however they are spelled (`1`, `1.0`, `10e-1`, `0.1e1`) -/
theorem literalFacts_by_value (t₁ t₂ : Tok) (v₁ v₂ : NumVal)
    (h₁ : decimalValue t₁.text.toList = some v₁) (h₂ : decimalValue t₂.text.toList = some v₂)
    (he : v₁.num * v₂.den = v₂.num * v₁.den) (hd₁ : 0 < v₁.den) (hd₂ : 0 < v₂.den) :
    literalFacts (.num t₁) = literalFacts (.num t₂) := by
  have a := cross_le v₁.num v₁.den v₂.num v₂.den (2 ^ 24) (2 ^ 24 + 1) he hd₁ hd₂
  have b := cross_le v₁.num v₁.den v₂.num v₂.den (2 ^ 150) 1 he hd₁ hd₂
  simp only [literalFacts, h₁, h₂, Option.map_some, Option.some.injEq, Prod.mk.injEq, NumVal.f32LeOne, f32IsZero]
  simp only [Nat.one_mul] at b
  exact ⟨by simp [a], by simp [b]⟩

end Selene.Lints.Roblox
