/-
`empty_if` (selene-lib/src/lints/empty_if.rs), default configuration (`comments_count = false`:
the comment positions collected by `visit_token` are not consulted).
-/
import Selene.Lints.TraverseB
namespace Selene.LintsB.EmptyIf
open Selene.Lua Selene.LintsB

/-- `block_is_empty` -/
def blockIsEmpty : Block → Bool
  | .mk _ .nil .none => true
  | _ => false

/-- index of the `else` keyword.  The tree does not store it; with tokens numbered in source order it is the
    token before the else block's first token, or before `end` when the else block is empty. -/
def elseTok (sp : Span) : OptBlock → Nat
  | .some (.mk (some bsp) _ _) => bsp.first - 1
  | _ => sp.last - 1

def msgIf : String := "empty if block"
def msgElseIf : String := "empty elseif block"
def msgElse : String := "empty else block"

/-- the `while let Some(else_if) = else_ifs.next()` loop with its `peek()` -/
def emptyElseIfs (sp : Span) (els : OptBlock) : List ElseIf → List Diag
  | [] => []
  | (.mk esp _ b) :: rest =>
    (if blockIsEmpty b then
      let next := match rest with
        | (.mk nsp _ _) :: _ => nsp.first
        | [] => match els with
          | .some _ => elseTok sp els
          | .none => sp.last
      -- the label ends at the start of token `next`
      [{ code := "empty_if", primary := ⟨esp.first, next - 1⟩, msg := msgElseIf }]
     else []) ++ emptyElseIfs sp els rest

def emptyElse (sp : Span) : OptBlock → List Diag
  | .some eb => if blockIsEmpty eb then [{ code := "empty_if", primary := ⟨elseTok sp (.some eb), sp.last⟩, msg := msgElse }] else []
  | .none => []

def collect : Node → List Diag
  | .stmt (.if_ sp _ b elifs els) =>
    (if blockIsEmpty b then [{ code := "empty_if", primary := sp, msg := msgIf }] else [])
      ++ (emptyElseIfs sp els elifs.toList ++ emptyElse sp els)
  | _ => []

def run (b : Block) : List Diag := (nBlock b).flatMap collect

namespace Doc
/-- "empty": the branch contains no statement at all -/
def noStatements (b : Block) : Prop := blockStmts b = .nil ∧ blockLast b = .none
end Doc

end Selene.LintsB.EmptyIf
