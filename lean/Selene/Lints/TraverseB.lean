/-
Shared traversal of the statement-level lints of C04 (half B).

full_moon's `Visitor` calls `visit_x` for every node of kind `x` before the node's children, children
in source order.  The lints of this half only hook blocks, statements, last statements and function
calls, so the traversal flattens a chunk into the list of those nodes in visit order (`nBlock`);
every lint is a function of that list (stateless lints: `flatMap` of a per-node collector; the two
stateful ones: a left fold).

`Any` / `Any.children` / `Within` describe *syntactic position* independently of the traversal:
`Within a b` says `b` is `a` or a descendant of `a` through immediate-constituent steps, at any depth.
`Selene.LintsB.TraverseBLemmas` proves that the traversal reaches every such position.
-/
import Selene.Lua.Ast
namespace Selene.LintsB
open Selene.Lua

/-- a diagnostic in token space.  `primary = ⟨i, j⟩` runs from the start of token `i` to the end of
    token `j`.  (Two labels of these lints end at the *start* of the following token; token space cannot see the
    trivia in between, so they are given as ending with the token before it.) -/
structure Diag where
  code : String
  primary : Span
  msg : String := ""
  secondary : List Span := []
deriving DecidableEq, Repr, Inhabited

inductive Node where
  | block (b : Block)
  | stmt (s : Stmt)
  | last (l : LastStmt)
  | call (c : FCall)

mutual
def nExpr : Expr → List Node
  | .func _ _ body => nBody body
  | .paren _ e => nExpr e
  | .un _ _ e => nExpr e
  | .bin _ l _ r => nExpr l ++ nExpr r
  | .tbl _ fs => nFields fs
  | .var v => nVar v
  | .call c => nFCall c
  | .nil _ | .true_ _ | .false_ _ | .dots _ | .num _ | .str _ _ _ | .unsupported _ => []
def nExprs : ExprList → List Node
  | .nil => []
  | .cons e rest => nExpr e ++ nExprs rest
def nVar : Var → List Node
  | .name _ => []
  | .expr _ p ss => nPrefix p ++ nSuffixes ss
def nVars : VarList → List Node
  | .nil => []
  | .cons v rest => nVar v ++ nVars rest
def nPrefix : Prefix → List Node
  | .name _ => []
  | .expr e => nExpr e
def nSuffix : Suffix → List Node
  | .dot _ _ => []
  | .idx _ e => nExpr e
  | .args _ a => nArgs a
  | .meth _ _ a => nArgs a
  | .unsupported _ => []
def nSuffixes : SuffixList → List Node
  | .nil => []
  | .cons s rest => nSuffix s ++ nSuffixes rest
def nArgs : Args → List Node
  | .parens _ es => nExprs es
  | .str _ _ _ => []
  | .tbl _ fs => nFields fs
def nFCall : FCall → List Node
  | .mk sp p ss => .call (.mk sp p ss) :: (nPrefix p ++ nSuffixes ss)
def nField : Field → List Node
  | .exprKey _ k v => nExpr k ++ nExpr v
  | .nameKey _ _ v => nExpr v
  | .noKey v => nExpr v
  | .unsupported _ => []
def nFields : FieldList → List Node
  | .nil => []
  | .cons f rest => nField f ++ nFields rest
def nBody : FuncBody → List Node
  | .mk _ _ b => nBlock b
/-- the nodes *below* a statement (the statement's own node is added by `nStmts`) -/
def nStmt : Stmt → List Node
  | .assign _ vs es => nVars vs ++ nExprs es
  | .localAssign _ _ es => nExprs es
  | .call c => nFCall c
  | .do_ _ b => nBlock b
  | .while_ _ c b => nExpr c ++ nBlock b
  | .repeat_ _ b c => nBlock b ++ nExpr c
  | .if_ _ c b elifs els => nExpr c ++ (nBlock b ++ (nElseIfs elifs ++ nOptBlock els))
  | .numFor _ _ _ a e st b => nExpr a ++ (nExpr e ++ (nOptExpr st ++ nBlock b))
  | .genFor _ _ es b => nExprs es ++ nBlock b
  | .func _ _ body => nBody body
  | .localFunc _ _ body => nBody body
  | .unsupported _ => []
def nStmts : StmtList → List Node
  | .nil => []
  | .cons s rest => .stmt s :: (nStmt s ++ nStmts rest)
def nElseIf : ElseIf → List Node
  | .mk _ c b => nExpr c ++ nBlock b
def nElseIfs : ElseIfList → List Node
  | .nil => []
  | .cons e rest => nElseIf e ++ nElseIfs rest
def nOptBlock : OptBlock → List Node
  | .none => []
  | .some b => nBlock b
def nOptExpr : OptExpr → List Node
  | .none => []
  | .some e => nExpr e
def nLast : LastStmt → List Node
  | .none => []
  | .ret sp es => .last (.ret sp es) :: nExprs es
  | .brk t => [.last (.brk t)]
def nBlock : Block → List Node
  | .mk sp ss l => .block (.mk sp ss l) :: (nStmts ss ++ nLast l)
end

/-! ### syntactic position, independent of the traversal -/

inductive Any where
  | expr (e : Expr) | exprs (es : ExprList) | var (v : Var) | vars (vs : VarList) | pre (p : Prefix)
  | suffix (s : Suffix) | suffixes (ss : SuffixList) | args (a : Args) | fcall (c : FCall)
  | field (f : Field) | fields (fs : FieldList) | body (b : FuncBody) | stmt (s : Stmt)
  | stmts (ss : StmtList) | elif (e : ElseIf) | elifs (es : ElseIfList) | optb (o : OptBlock)
  | opte (o : OptExpr) | last (l : LastStmt) | block (b : Block)

/-- immediate constituents, constructor by constructor (no recursion) -/
def Any.children : Any → List Any
  | .expr (.func _ _ fb) => [.body fb]
  | .expr (.paren _ e) => [.expr e]
  | .expr (.un _ _ e) => [.expr e]
  | .expr (.bin _ l _ r) => [.expr l, .expr r]
  | .expr (.tbl _ fs) => [.fields fs]
  | .expr (.var v) => [.var v]
  | .expr (.call c) => [.fcall c]
  | .expr _ => []
  | .exprs .nil => []
  | .exprs (.cons e rest) => [.expr e, .exprs rest]
  | .var (.name _) => []
  | .var (.expr _ p ss) => [.pre p, .suffixes ss]
  | .vars .nil => []
  | .vars (.cons v rest) => [.var v, .vars rest]
  | .pre (.name _) => []
  | .pre (.expr e) => [.expr e]
  | .suffix (.idx _ e) => [.expr e]
  | .suffix (.args _ a) => [.args a]
  | .suffix (.meth _ _ a) => [.args a]
  | .suffix _ => []
  | .suffixes .nil => []
  | .suffixes (.cons s rest) => [.suffix s, .suffixes rest]
  | .args (.parens _ es) => [.exprs es]
  | .args (.str _ _ _) => []
  | .args (.tbl _ fs) => [.fields fs]
  | .fcall (.mk _ p ss) => [.pre p, .suffixes ss]
  | .field (.exprKey _ k v) => [.expr k, .expr v]
  | .field (.nameKey _ _ v) => [.expr v]
  | .field (.noKey v) => [.expr v]
  | .field (.unsupported _) => []
  | .fields .nil => []
  | .fields (.cons f rest) => [.field f, .fields rest]
  | .body (.mk _ _ b) => [.block b]
  | .stmt (.assign _ vs es) => [.vars vs, .exprs es]
  | .stmt (.localAssign _ _ es) => [.exprs es]
  | .stmt (.call c) => [.fcall c]
  | .stmt (.do_ _ b) => [.block b]
  | .stmt (.while_ _ c b) => [.expr c, .block b]
  | .stmt (.repeat_ _ b c) => [.block b, .expr c]
  | .stmt (.if_ _ c b eis els) => [.expr c, .block b, .elifs eis, .optb els]
  | .stmt (.numFor _ _ _ a e st b) => [.expr a, .expr e, .opte st, .block b]
  | .stmt (.genFor _ _ es b) => [.exprs es, .block b]
  | .stmt (.func _ _ fb) => [.body fb]
  | .stmt (.localFunc _ _ fb) => [.body fb]
  | .stmt (.unsupported _) => []
  | .stmts .nil => []
  | .stmts (.cons s rest) => [.stmt s, .stmts rest]
  | .elif (.mk _ c b) => [.expr c, .block b]
  | .elifs .nil => []
  | .elifs (.cons e rest) => [.elif e, .elifs rest]
  | .optb .none => []
  | .optb (.some b) => [.block b]
  | .opte .none => []
  | .opte (.some e) => [.expr e]
  | .last .none => []
  | .last (.ret _ es) => [.exprs es]
  | .last (.brk _) => []
  | .block (.mk _ ss l) => [.stmts ss, .last l]

/-- `b` occurs in `a` at some nesting depth (reflexive–transitive closure of "immediate constituent") -/
inductive Within : Any → Any → Prop
  | refl (a : Any) : Within a a
  | step {a b c : Any} : b ∈ a.children → Within b c → Within a c

/-- what the traversal emits for a piece of syntax -/
def Any.nodes : Any → List Node
  | .expr e => nExpr e
  | .exprs es => nExprs es
  | .var v => nVar v
  | .vars vs => nVars vs
  | .pre p => nPrefix p
  | .suffix s => nSuffix s
  | .suffixes ss => nSuffixes ss
  | .args a => nArgs a
  | .fcall c => nFCall c
  | .field f => nField f
  | .fields fs => nFields fs
  | .body b => nBody b
  | .stmt s => .stmt s :: nStmt s
  | .stmts ss => nStmts ss
  | .elif e => nElseIf e
  | .elifs es => nElseIfs es
  | .optb o => nOptBlock o
  | .opte o => nOptExpr o
  | .last l => nLast l
  | .block b => nBlock b

/-! ### spans and token slices -/

def stmtSpan : Stmt → Span
  | .assign sp _ _ | .localAssign sp _ _ | .do_ sp _ | .while_ sp _ _ | .repeat_ sp _ _ | .if_ sp _ _ _ _
  | .numFor sp _ _ _ _ _ _ | .genFor sp _ _ _ | .func sp _ _ | .localFunc sp _ _ | .unsupported sp => sp
  | .call c => c.span

def lastSpan : LastStmt → Span
  | .none => ⟨0, 0⟩
  | .ret sp _ => sp
  | .brk t => ⟨t.idx, t.idx⟩

def blockSpan : Block → Option Span
  | .mk sp _ _ => sp

def blockStmts : Block → StmtList
  | .mk _ ss _ => ss

def blockLast : Block → LastStmt
  | .mk _ _ l => l

def elifCond : ElseIf → Expr
  | .mk _ c _ => c
def elifBlock : ElseIf → Block
  | .mk _ _ b => b
def elifSpan : ElseIf → Span
  | .mk sp _ _ => sp

/-- texts of the tokens `sp.first … sp.last` of the program (`toks` = all token texts in source order) -/
def slice (toks : List String) (sp : Span) : List String :=
  (toks.drop sp.first).take (sp.last + 1 - sp.first)

/-- full_moon's `Index::Brackets` has no `full_range` hint: the range of a node that *ends* in `t[e]` stops at
    the end of `e`.  The node's tokens are its range plus the closing brackets still owed. -/
def nodeToks (toks : List String) (sp : Span) : List String :=
  let s := slice toks sp
  s ++ List.replicate (s.count "[" - s.count "]") "]"

/-- what `Node::similar` compares: the node's tokens, except the separators of table fields
    (`Punctuated::similar` compares the values only).  `seps` = token indices of those separators. -/
def simToks (toks : List String) (seps : List Nat) (sp : Span) : List String :=
  let marked := toks.zipIdx.map fun (t, i) => if seps.contains i then "" else t
  (nodeToks marked sp).filter (· != "")

def blockToks (toks : List String) (seps : List Nat) (b : Block) : List String :=
  match blockSpan b with
  | some sp => simToks toks seps sp
  | none => []

/-- `purge_trivia(node).to_string()`: the token texts glued together without any separator -/
def glue (toks : List String) (sp : Span) : String := String.join (nodeToks toks sp)

end Selene.LintsB
