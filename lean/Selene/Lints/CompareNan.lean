/- `compare_nan` — selene-lib/src/lints/compare_nan.rs:57-111 -/
import Selene.Lints.TraverseA
import Selene.Lints.Value
namespace Selene.Lints.CompareNan
open Selene.Lua Selene.Lints

def message : String := "comparing things to nan directly is not allowed"

/-- `value_is_zero` (compare_nan.rs:60-66) -/
def valueIsZero : Expr → Bool
  | .num t => numberIsZero t.text
  | _ => false

/-- `expression_is_nan` (compare_nan.rs:65-74) -/
def expressionIsNan : Expr → Bool
  | .bin _ l op r => op.text == "/" && (valueIsZero l && valueIsZero r)
  | _ => false

def isVar : Expr → Bool
  | .var _ => true
  | _ => false

/-- `visit_expression` (compare_nan.rs:77-111); the suggested operator only shows in the notes -/
def hook : Node → List Diag
  | .expr (.bin sp l op r) =>
    if isVar l then
      if op.text == "~=" then
        (if expressionIsNan r then [{ code := "compare_nan", primary := sp, msg := message }] else [])
      else if op.text == "==" then
        (if expressionIsNan r then [{ code := "compare_nan", primary := sp, msg := message }] else [])
      else []
    else []
  | _ => []

def lint (b : Block) : List Diag := runLint hook b
end Selene.Lints.CompareNan
