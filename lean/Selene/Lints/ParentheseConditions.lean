/- `parenthese_conditions` — selene-lib/src/lints/parenthese_conditions.rs:49-76 -/
import Selene.Lints.TraverseA
namespace Selene.Lints.ParentheseConditions
open Selene.Lua Selene.Lints

def message : String := "lua does not require parentheses around conditions"

/-- `lint_condition` (rs:50-54) -/
def lintCondition : Expr → List Diag
  | .paren sp _ => [{ code := "parenthese_conditions", primary := sp, msg := message }]
  | _ => []

def elseIfConditions : ElseIfList → List Diag
  | .nil => []
  | .cons (.mk _ c _) rest => lintCondition c ++ elseIfConditions rest

/-- `visit_if` / `visit_repeat` / `visit_while` (rs:58-76) -/
def hook : Node → List Diag
  | .stmt (.if_ _ c _ elifs _) => lintCondition c ++ elseIfConditions elifs
  | .stmt (.repeat_ _ _ c) => lintCondition c
  | .stmt (.while_ _ c _) => lintCondition c
  | _ => []

def lint (b : Block) : List Diag := runLint hook b
end Selene.Lints.ParentheseConditions
