/-
duplicate_keys, completeness: every field whose key — as the documentation spells keys (a name, a quoted
string without escapes, a plain decimal integer, an array item) — was already declared by an earlier field
of the same table is reported.  Needs (1) the converse invariant of `DuplicateKeys.fields_sound`: every
earlier canonical key is in `declared`, and (2) that two literal texts with the same UTF-8 bytes are the
same text.
-/
import Selene.Lints.LemmasA
namespace Selene.Lints
open Selene.Lua

/-! ### UTF-8 is injective -/

theorem charBytes_append_inj (c d : Char) (x y : List Nat) (h : charBytes c ++ x = charBytes d ++ y) :
    c = d ∧ x = y := by
  have hc : c.toNat < 0x110000 := by
    have := c.valid
    rcases this with h | ⟨_, h⟩
    · have : c.toNat < 0xd800 := h
      omega
    · exact h
  have hd : d.toNat < 0x110000 := by
    have := d.valid
    rcases this with h | ⟨_, h⟩
    · have : d.toNat < 0xd800 := h
      omega
    · exact h
  have key : c.toNat = d.toNat ∧ x = y := by
    unfold charBytes at h
    simp only at h
    split at h <;> split at h <;> try (split at h) <;> try (split at h) <;> try (split at h) <;> try (split at h)
    all_goals (simp only [List.cons_append, List.nil_append, List.cons.injEq] at h)
    all_goals (first | (obtain ⟨h1, h2⟩ := h; exact ⟨by omega, h2⟩)
                     | (obtain ⟨h1, h2, h3⟩ := h; exact ⟨by omega, h3⟩)
                     | (obtain ⟨h1, h2, h3, h4⟩ := h; exact ⟨by omega, h4⟩)
                     | (obtain ⟨h1, h2, h3, h4, h5⟩ := h; exact ⟨by omega, h5⟩)
                     | (exfalso; obtain ⟨h1, _⟩ := h; omega))
  refine ⟨?_, key.2⟩
  apply Char.ext
  apply UInt32.toNat_inj.mp
  exact key.1

theorem bytesOf_inj : (a b : List Char) → bytesOf a = bytesOf b → a = b
  | [], [], _ => rfl
  | [], d :: ds, h => by
    simp only [bytesOf] at h
    have : (charBytes d ++ bytesOf ds).length = 0 := by rw [← h]; rfl
    unfold charBytes at this
    simp only at this
    split at this <;> try (split at this) <;> try (split at this)
    all_goals simp at this
  | c :: cs, [], h => by
    simp only [bytesOf] at h
    have : (charBytes c ++ bytesOf cs).length = 0 := by rw [h]; rfl
    unfold charBytes at this
    simp only at this
    split at this <;> try (split at this) <;> try (split at this)
    all_goals simp at this
  | c :: cs, d :: ds, h => by
    simp only [bytesOf] at h
    obtain ⟨h1, h2⟩ := charBytes_append_inj c d _ _ h
    rw [h1, bytesOf_inj cs ds h2]

/-! ### the converse invariant -/

namespace DuplicateKeys

/-- a key of the implementation as the specification names it -/
def canonOfKey : Key → Doc.KeyVal
  | ⟨.string, s⟩ => .str (bytesOf s.toList)
  | ⟨.number, s⟩ => .num s

theorem canonSame_eq (k k' : Key) (h : Canon.canonSame (canonOfKey k') (canonOfKey k) = true) : k' = k := by
  obtain ⟨t, s⟩ := k
  obtain ⟨t', s'⟩ := k'
  cases t <;> cases t' <;> simp only [canonOfKey, Canon.canonSame] at h
  · simp at h; simp [h]
  · simp at h
  · simp at h
  · have := bytesOf_inj _ _ (by simpa using h)
    have : s' = s := String.ext this
    simp [this]

/-- what `canonKeys` lists for a field is the implementation's key for that field, renamed -/
theorem canonKeys_cons (f : Field) (rest : FieldList) (i : Nat) :
    ∃ ck, Canon.canonKeys (.cons f rest) i = (ck, fieldRange f) :: Canon.canonKeys rest (fieldKey f i).2 ∧
      ∀ kv, ck = some kv → ∃ key, (fieldKey f i).1 = some key ∧ canonOfKey key = kv := by
  cases f with
  | nameKey sp k v =>
    exact ⟨_, by simp only [Canon.canonKeys, fieldKey, fieldRange]; rfl, fun kv h => ⟨⟨.string, k.text⟩, rfl, by simpa [canonOfKey] using h⟩⟩
  | noKey v =>
    exact ⟨_, by simp only [Canon.canonKeys, fieldKey, fieldRange]; rfl, fun kv h => ⟨⟨.number, toString (i + 1)⟩, rfl, by simpa [canonOfKey] using h⟩⟩
  | unsupported sp =>
    exact ⟨none, by simp only [Canon.canonKeys, fieldKey, fieldRange], fun kv h => by simp at h⟩
  | exprKey sp k v =>
    cases k with
    | str t q lit =>
      refine ⟨_, by simp only [Canon.canonKeys, fieldKey, fieldRange]; rfl, fun kv h => ⟨⟨.string, lit⟩, rfl, ?_⟩⟩
      split at h
      · simpa [canonOfKey] using h
      · simp at h
    | num t =>
      refine ⟨_, by simp only [Canon.canonKeys, fieldKey, fieldRange]; rfl, fun kv h => ⟨⟨.number, t.text⟩, rfl, ?_⟩⟩
      split at h
      · simpa [canonOfKey] using h
      · simp at h
    | _ => exact ⟨none, by simp only [Canon.canonKeys, fieldKey, fieldRange, expressionToKey], fun kv h => by simp at h⟩

theorem lookupKey_cons_isSome (k key : Key) (sp : Span) (decl : List (Key × Span))
    (h : (lookupKey k decl).isSome = true) : (lookupKey k ((key, sp) :: decl)).isSome = true := by
  simp only [lookupKey]
  split
  · rfl
  · exact h

theorem lookupKey_head (key : Key) (sp : Span) (decl : List (Key × Span)) :
    (lookupKey key ((key, sp) :: decl)).isSome = true := by
  simp [lookupKey]

/-- every earlier field with a canonical key has its key in `declared` -/
def Covers (declared : List (Key × Span)) (earlier : List (Option Doc.KeyVal × Span)) : Prop :=
  ∀ kv s, (some kv, s) ∈ earlier → ∃ key, canonOfKey key = kv ∧ (lookupKey key declared).isSome = true

theorem fields_complete : (fs : FieldList) → (declared : List (Key × Span)) →
    (earlier : List (Option Doc.KeyVal × Span)) → (i : Nat) → Covers declared earlier →
    (x : Expect) → x ∈ Canon.dupExpected earlier (Canon.canonKeys fs i) →
    ∃ g ∈ fields fs declared i, g.primary = x.primary ∧ x.subStart = none
  | .nil, _, _, _, _, x, h => by simp [Canon.canonKeys, Canon.dupExpected] at h
  | .cons f rest, declared, earlier, i, hcov, x, h => by
    obtain ⟨ck, hck, hkey⟩ := canonKeys_cons f rest i
    rw [hck] at h
    simp only [Canon.dupExpected, List.mem_append] at h
    simp only [fields]
    cases hfk : fieldKey f i with
    | mk fk i' =>
      rw [hfk] at hkey h
      simp only at hkey h
      -- the tail, under whatever `declared` becomes
      have tail : ∀ declared', (∀ k, (lookupKey k declared).isSome = true → (lookupKey k declared').isSome = true) →
          (∀ kv key, ck = some kv → fk = some key → (lookupKey key declared').isSome = true) →
          x ∈ Canon.dupExpected (earlier ++ [(ck, fieldRange f)]) (Canon.canonKeys rest i') →
          ∃ g ∈ fields rest declared' i', g.primary = x.primary ∧ x.subStart = none := by
        intro declared' hmono hnew hx
        refine fields_complete rest declared' _ i' ?_ x hx
        intro kv s hm
        rcases List.mem_append.mp hm with hm | hm
        · obtain ⟨key, hk1, hk2⟩ := hcov kv s hm
          exact ⟨key, hk1, hmono key hk2⟩
        · simp only [List.mem_singleton, Prod.mk.injEq] at hm
          obtain ⟨key, hfk', hcan⟩ := hkey kv hm.1.symm
          exact ⟨key, hcan, hnew kv key hm.1.symm hfk'⟩
      rcases h with h | h
      · -- this field is expected to be reported
        cases ck with
        | none => simp at h
        | some kv =>
          simp only at h
          split at h
          · rename_i hany
            simp only [List.mem_singleton] at h
            obtain ⟨key, hfk', hcan⟩ := hkey kv rfl
            obtain ⟨⟨k', s'⟩, hmem, hsame⟩ := List.any_eq_true.mp hany
            cases k' with
            | none => simp at hsame
            | some kv' =>
              simp only at hsame
              obtain ⟨key', hcan', hlook⟩ := hcov kv' s' hmem
              have hkk : key' = key := canonSame_eq key key' (by rw [hcan', hcan]; exact hsame)
              subst hkk
              rw [hfk']
              simp only
              cases hl : lookupKey key' declared with
              | none => simp [hl] at hlook
              | some original =>
                simp only
                exact ⟨_, List.mem_cons_self, by simp [h], by simp [h]⟩
          · simp at h
      · -- a later field is expected
        cases fk with
        | none =>
          simp only
          exact tail declared (fun _ hk => hk) (fun kv key hc hf => by simp at hf) h
        | some key =>
          simp only
          cases hl : lookupKey key declared with
          | some original =>
            simp only
            obtain ⟨g, hg, hp⟩ := tail declared (fun _ hk => hk)
              (fun kv key' _ hf => by simp at hf; subst hf; simp [hl]) h
            exact ⟨g, List.mem_cons_of_mem _ hg, hp⟩
          | none =>
            simp only
            exact tail ((key, fieldRange f) :: declared) (fun k hk => lookupKey_cons_isSome k key _ declared hk)
              (fun kv key' _ hf => by simp at hf; subst hf; exact lookupKey_head _ _ _) h

theorem hook_canon (n : Node) (x : Expect) (hx : x ∈ Canon.duplicateKeys n) :
    ∃ g ∈ hook n, x.matches g = true := by
  cases n with
  | table sp fs =>
    simp only [Canon.duplicateKeys] at hx
    obtain ⟨g, hg, hp, hs⟩ := fields_complete fs [] [] 0 (fun kv s hm => by simp at hm) x hx
    exact ⟨g, hg, by simp [Expect.matches, hp, hs]⟩
  | expr e => simp [Canon.duplicateKeys] at hx
  | stmt s => simp [Canon.duplicateKeys] at hx
  | call c => simp [Canon.duplicateKeys] at hx

end DuplicateKeys
end Selene.Lints
