/-
`if_same_then_else` (selene-lib/src/lints/if_same_then_else.rs).
`Node::similar` (structural equality of trivia-free trees) is modelled as equality of the blocks' token texts
(`simToks`: table-field separators excluded, as `Punctuated::similar` compares values only).
-/
import Selene.Lints.TraverseB
namespace Selene.LintsB.IfSameThenElse
open Selene.Lua Selene.LintsB

def hasNoStmts : Block → Bool
  | .mk _ .nil _ => true
  | _ => false

def similar (toks : List String) (seps : List Nat) (a b : Block) : Bool := blockToks toks seps a == blockToks toks seps b

def msg : String := "this has the same block as a previous if"

/-- the `'blocks:` loop; `seen` = the `blocks` vector -/
def scan (toks : List String) (seps : List Nat) : List Block → List Block → List Diag
  | _, [] => []
  | seen, b :: rest =>
    if hasNoStmts b then scan toks seps seen rest
    else match seen.find? (fun o => similar toks seps o b) with
      | some o =>
        { code := "if_same_then_else", primary := (blockSpan b).getD ⟨0, 0⟩, msg := msg,
          secondary := [(blockSpan o).getD ⟨0, 0⟩] } :: scan toks seps seen rest
      | none => scan toks seps (seen ++ [b]) rest

def laterBlocks (elifs : ElseIfList) (els : OptBlock) : List Block :=
  elifs.toList.map elifBlock ++ (match els with | .some b => [b] | .none => [])

def collect (toks : List String) (seps : List Nat) : Node → List Diag
  | .stmt (.if_ _ _ b elifs els) => scan toks seps [b] (laterBlocks elifs els)
  | _ => []

def run (toks : List String) (seps : List Nat) (b : Block) : List Diag := (nBlock b).flatMap (collect toks seps)

end Selene.LintsB.IfSameThenElse
