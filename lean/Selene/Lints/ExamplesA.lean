/- Small concrete programs used by the witnesses and non-vacuity examples of Selene.Props.C04A.
Token indices are those of the source text given in each comment. -/
import Selene.Lints.LemmasA
namespace Selene.Lints.Ex
open Selene.Lua Selene.Lints

/-- `x = <e>` where `e` starts at token 2 and ends at token `last` -/
def assignTo (last : Nat) (e : Expr) : Stmt :=
  .assign ⟨0, last⟩ (.cons (.name ⟨0, "x"⟩) .nil) (.cons e .nil)

def prog (s : Stmt) : Block := .mk none (.cons s .nil) .none

/-- `<l> / 0` at tokens 2..4 -/
def divBy0 (l : String) : Expr := .bin ⟨2, 4⟩ (.num ⟨2, l⟩) ⟨3, "/"⟩ (.num ⟨4, "0"⟩)

/-- `x = 1 / 0` -/
def divCanon : Stmt := assignTo 4 (divBy0 "1")
/-- `x = 0.0 / 0` -/
def divDefect : Stmt := assignTo 4 (divBy0 "0.0")

/-- `y == 0/0` at tokens 2..6 -/
def nanExpr : Expr :=
  .bin ⟨2, 6⟩ (.var (.name ⟨2, "y"⟩)) ⟨3, "=="⟩ (.bin ⟨4, 6⟩ (.num ⟨4, "0"⟩) ⟨5, "/"⟩ (.num ⟨6, "0"⟩))
def nanCanon : Stmt := assignTo 6 nanExpr

/-- `for i = #t, <bound> do end` (tokens: for i = # t , bound do end) -/
def loop (bound : String) : Stmt :=
  .numFor ⟨0, 8⟩ ⟨1, "i"⟩ ⟨5, ","⟩ (.un ⟨3, 4⟩ ⟨3, "#"⟩ (.var (.name ⟨4, "t"⟩))) (.num ⟨6, bound⟩) .none (.mk none .nil .none)

/-- `x = y == {}` -/
def ctcExpr : Expr := .bin ⟨2, 5⟩ (.var (.name ⟨2, "y"⟩)) ⟨3, "=="⟩ (.tbl ⟨4, 5⟩ .nil)
def ctcCanon : Stmt := assignTo 5 ctcExpr

/-- `type(foo == "number")` as a statement (tokens: type ( foo == "number" )) -/
def typeCall : FCall :=
  .mk ⟨0, 5⟩ (.name ⟨0, "type"⟩)
    (.cons (.args ⟨1, 5⟩ (.parens ⟨1, 5⟩ (.cons (.bin ⟨2, 4⟩ (.var (.name ⟨2, "foo"⟩)) ⟨3, "=="⟩ (.str ⟨4, "\"number\""⟩ .double "number")) .nil))) .nil)
def typeCanon : Stmt := .call typeCall

/-- `while (x) do end` -/
def whileParen : Stmt := .while_ ⟨0, 5⟩ (.paren ⟨1, 3⟩ (.var (.name ⟨2, "x"⟩))) (.mk none .nil .none)

/-- `{ "array field", bar = "dictionary field" }` at tokens 2..8 -/
def mixedTbl : Expr :=
  .tbl ⟨2, 8⟩ (.cons (.noKey (.str ⟨3, "\"array field\""⟩ .double "array field"))
    (.cons (.nameKey ⟨5, 7⟩ ⟨5, "bar"⟩ (.str ⟨7, "\"dictionary field\""⟩ .double "dictionary field")) .nil))
def mixedCanon : Stmt := assignTo 8 mixedTbl

/-- `{ ["\n"] = 1, [ [[\n]] ] = 2 }` at tokens 2..14: a line feed and a backslash followed by `n` -/
def dupQuoteKinds : Expr :=
  .tbl ⟨2, 14⟩ (.cons (.exprKey ⟨3, 7⟩ (.str ⟨4, "\"\\n\""⟩ .double "\\n") (.num ⟨7, "1"⟩))
    (.cons (.exprKey ⟨9, 13⟩ (.str ⟨10, "[[\\n]]"⟩ .brackets "\\n") (.num ⟨13, "2"⟩)) .nil))
def dupDefect : Stmt := assignTo 14 dupQuoteKinds

/-- `{ a = 1, ["a"] = 3 }` at tokens 2..12 -/
def dupCanonTbl : Expr :=
  .tbl ⟨2, 12⟩ (.cons (.nameKey ⟨3, 5⟩ ⟨3, "a"⟩ (.num ⟨5, "1"⟩))
    (.cons (.exprKey ⟨7, 11⟩ (.str ⟨8, "\"a\""⟩ .double "a") (.num ⟨11, "3"⟩)) .nil))
def dupCanon : Stmt := assignTo 12 dupCanonTbl

/-- `x = "<literal>"` -/
def strAssign (literal : String) : Stmt := assignTo 2 (.str ⟨2, "\"" ++ literal ++ "\""⟩ .double literal)

/-- a context three blocks deep: `do while c do local f = function() □ end end end` -/
def deepCtx : BCtx :=
  .nest none .nil (.do_ ⟨0, 0⟩)
    (.nest none .nil (.while_ ⟨0, 0⟩ (.var (.name ⟨0, "c"⟩)))
      (.nest none .nil (.localLambda ⟨0, 0⟩ [⟨0, "f"⟩] .nil ⟨0, 0⟩ ⟨0, "function"⟩ ⟨0, 0⟩ [] .nil)
        (.hole none .nil .nil .none) .nil .none) .nil .none) .nil .none

end Selene.Lints.Ex
