/-
`ifs_same_cond` (selene-lib/src/lints/ifs_same_cond.rs) with `HasSideEffects`
(selene-lib/src/ast_util/side_effects.rs).
-/
import Selene.Lints.SideEffects
namespace Selene.LintsB.IfsSameCond
open Selene.Lua Selene.LintsB Selene.LintsB.SideEffects

def similar (toks : List String) (seps : List Nat) (a b : Expr) : Bool := simToks toks seps a.span == simToks toks seps b.span

def msg : String := "this `elseif` has the same condition as a previous if"

/-- the `'else_ifs:` loop -/
def scan (toks : List String) (seps : List Nat) : List Expr → List Expr → List Diag
  | _, [] => []
  | seen, c :: rest =>
    if exprSE c then scan toks seps seen rest
    else match seen.find? (fun o => similar toks seps o c) with
      | some o => { code := "ifs_same_cond", primary := c.span, msg := msg, secondary := [o.span] } :: scan toks seps seen rest
      | none => scan toks seps (seen ++ [c]) rest

def collect (toks : List String) (seps : List Nat) : Node → List Diag
  | .stmt (.if_ _ c _ elifs _) => scan toks seps (if exprSE c then [] else [c]) (elifs.toList.map elifCond)
  | _ => []

def run (toks : List String) (seps : List Nat) (b : Block) : List Diag := (nBlock b).flatMap (collect toks seps)

/-! ### documented condition: "This ignores conditions that could have side effects, such as function calls" -/
namespace Doc
mutual
/-- evaluating the expression performs a function call (function *bodies* are not evaluated).
    `idx = true` is the documented notion; `idx = false` (what the code did before 7d0e4db) does not look inside
    bracket indices. -/
def calls (idx : Bool) : Expr → Bool
  | .bin _ l _ r => calls idx l || calls idx r
  | .paren _ e => calls idx e
  | .un _ _ e => calls idx e
  | .call _ => true
  | .tbl _ fs => callsFs idx fs
  | .var v => callsV idx v
  | .unsupported _ => true
  | .func _ _ _ | .num _ | .str _ _ _ | .nil _ | .true_ _ | .false_ _ | .dots _ => false
def callsFs (idx : Bool) : FieldList → Bool
  | .nil => false
  | .cons f rest => callsF idx f || callsFs idx rest
def callsF (idx : Bool) : Field → Bool
  | .exprKey _ k v => calls idx k || calls idx v
  | .nameKey _ _ v => calls idx v
  | .noKey v => calls idx v
  | .unsupported _ => true
def callsV (idx : Bool) : Var → Bool
  | .name _ => false
  | .expr _ p ss => callsP idx p || callsSs idx ss
def callsP (idx : Bool) : Prefix → Bool
  | .expr e => calls idx e
  | .name _ => false
def callsSs (idx : Bool) : SuffixList → Bool
  | .nil => false
  | .cons s rest => callsS idx s || callsSs idx rest
def callsS (idx : Bool) : Suffix → Bool
  | .args _ _ | .meth _ _ _ => true
  | .dot _ _ => false
  | .idx _ e => idx && calls idx e
  | .unsupported _ => true
end
/-- the documented side-effect test -/
def callsE (e : Expr) : Bool := calls true e
end Doc

end Selene.LintsB.IfsSameCond
