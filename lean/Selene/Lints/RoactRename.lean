/-
`roblox_incorrect_roact_usage` under a consistent renaming of variables: where a report is made and what its message says
depends on two variable spellings only — `Roact` and `React`.  (The note of the `Name` report quotes source text, the local
name of `createElement` included; ranges and messages mention classes, properties and events, which are not variables.)
-/
import Selene.Lints.Roact
import Selene.Lints.TraverseBRename
namespace Selene.Lints.Roact
open Selene.Lua Selene.LintsB Selene.Std.Roblox

structure Respectful (ρ : String → String) : Prop where
  inj : ∀ a b, ρ a = ρ b → a = b
  roact : ρ "Roact" = "Roact"
  react : ρ "React" = "React"

theorem Respectful.eq_roact {ρ} (h : Respectful ρ) (n : String) : ρ n = "Roact" ↔ n = "Roact" :=
  ⟨fun e => h.inj _ _ (e.trans h.roact.symm), fun e => e ▸ h.roact⟩
theorem Respectful.eq_react {ρ} (h : Respectful ρ) (n : String) : ρ n = "React" ↔ n = "React" :=
  ⟨fun e => h.inj _ _ (e.trans h.react.symm), fun e => e ▸ h.react⟩

theorem libOfName_ren {ρ} (h : Respectful ρ) (n : String) : libOfName (ρ n) = libOfName n := by
  unfold libOfName
  simp only [h.eq_roact, h.eq_react]

theorem suffixes_toList_ren (ρ : String → String) : (ss : SuffixList) → (ss.ren ρ).toList = ss.toList.map (Suffix.ren ρ)
  | .nil => by simp [SuffixList.ren, SuffixList.toList]
  | .cons s rest => by simp [SuffixList.ren, SuffixList.toList, suffixes_toList_ren ρ rest]
theorem exprs_toList_ren (ρ : String → String) : (es : ExprList) → (es.ren ρ).toList = es.toList.map (Expr.ren ρ)
  | .nil => by simp [ExprList.ren, ExprList.toList]
  | .cons e rest => by simp [ExprList.ren, ExprList.toList, exprs_toList_ren ρ rest]
theorem fields_toList_ren (ρ : String → String) : (fs : FieldList) → (fs.ren ρ).toList = fs.toList.map (Field.ren ρ)
  | .nil => by simp [FieldList.ren, FieldList.toList]
  | .cons f rest => by simp [FieldList.ren, FieldList.toList, fields_toList_ren ρ rest]

theorem isCreateElement_ren {ρ} (h : Respectful ρ) (p : Prefix) (ss : List Suffix) :
    isCreateElement (p.ren ρ) (ss.map (Suffix.ren ρ)) = isCreateElement p ss := by
  cases p with
  | expr e => simp [Prefix.ren, isCreateElement]
  | name t =>
    match ss with
    | [] => simp [Prefix.ren, isCreateElement]
    | [s] =>
      cases s <;> simp [Prefix.ren, Suffix.ren, isCreateElement, Tok.ren, libOfName_ren h]
    | _ :: _ :: _ => simp [Prefix.ren, isCreateElement]

theorem strip_ren (ρ : String → String) : (e : Expr) → eventKey.strip (e.ren ρ) = (eventKey.strip e).ren ρ
  | .paren _ e => by simp only [Expr.ren, eventKey.strip]; exact strip_ren ρ e
  | .nil _ | .true_ _ | .false_ _ | .dots _ | .num _ | .str _ _ _ | .func _ _ _ | .un _ _ _ | .bin _ _ _ _ | .tbl _ _
  | .var _ | .call _ | .unsupported _ => by simp [Expr.ren, eventKey.strip]

theorem eventKey_ren {ρ} (h : Respectful ρ) (k : Expr) : eventKey (k.ren ρ) = eventKey k := by
  unfold eventKey
  rw [strip_ren]
  cases eventKey.strip k with
  | var v =>
    cases v with
    | name t => simp [Expr.ren, Var.ren]
    | expr sp p ss =>
      cases p with
      | expr e => simp [Expr.ren, Var.ren, Prefix.ren]
      | name lib =>
        simp only [Expr.ren, Var.ren, Prefix.ren, Tok.ren, h.eq_roact, h.eq_react, suffixes_toList_ren]
        by_cases hl : lib.text = "Roact" ∨ lib.text = "React"
        · simp only [hl, ↓reduceIte]
          match ss.toList with
          | [] => simp
          | [s] => cases s <;> simp [Suffix.ren]
          | s1 :: s2 :: rest =>
            cases s1 <;> cases s2 <;> simp [Suffix.ren]
        · simp [hl]
  | nil _ | true_ _ | false_ _ | dots _ | num _ | str _ _ _ | func _ _ _ | un _ _ _ | bin _ _ _ _ | tbl _ _
  | paren _ _ | call _ | unsupported _ => simp [Expr.ren]

/-- what a report says apart from its note and the end of its range -/
def Diag.core (d : Diag) : Nat × String := (d.range.first, d.message)

/-- the states of the lint on a program and on its renaming -/
def Rel (ρ : String → String) (σ σ' : St) : Prop :=
  σ'.defs = σ.defs.map (fun d => (ρ d.1, d.2)) ∧ σ'.events.map Diag.core = σ.events.map Diag.core ∧
  σ'.properties.map Diag.core = σ.properties.map Diag.core ∧ σ'.unknown.map Diag.core = σ.unknown.map Diag.core

theorem checkField_rel {ρ} (h : Respectful ρ) (toks toks' : List String) (cs : Classes) (lib : Lib) (cn : String) (cls : Class)
    (ce ce' : String) (σ σ' : St) (hR : Rel ρ σ σ') (f : Field) :
    Rel ρ (checkField toks cs lib cn cls ce σ f) (checkField toks' cs lib cn cls ce' σ' (f.ren ρ)) := by
  obtain ⟨hd, he, hp, hu⟩ := hR
  cases f with
  | nameKey sp key value =>
    simp only [Field.ren, checkField]
    split
    · exact ⟨hd, he, hp, hu⟩
    · split
      · refine ⟨hd, he, ?_, hu⟩
        simp only [List.map_append, hp, List.map_cons, List.map_nil]
        congr 1
        split <;> rfl
      · exact ⟨hd, he, hp, hu⟩
  | exprKey sp k v =>
    simp only [Field.ren, checkField, eventKey_ren h]
    cases eventKey k with
    | none => exact ⟨hd, he, hp, hu⟩
    | some ev =>
      simp only
      split
      · refine ⟨hd, ?_, hp, hu⟩
        simp only [List.map_append, he, List.map_cons, List.map_nil, Diag.core]
      · exact ⟨hd, he, hp, hu⟩
  | noKey v => exact ⟨hd, he, hp, hu⟩
  | unsupported sp => exact ⟨hd, he, hp, hu⟩

theorem foldFields_rel {ρ} (h : Respectful ρ) (toks toks' : List String) (cs : Classes) (lib : Lib) (cn : String) (cls : Class)
    (ce ce' : String) : ∀ (fs : List Field) (σ σ' : St), Rel ρ σ σ' →
      Rel ρ (fs.foldl (checkField toks cs lib cn cls ce) σ) ((fs.map (Field.ren ρ)).foldl (checkField toks' cs lib cn cls ce') σ')
  | [], _, _, hR => hR
  | f :: rest, σ, σ', hR => by
    simp only [List.foldl_cons, List.map_cons]
    exact foldFields_rel h toks toks' cs lib cn cls ce ce' rest _ _ (checkField_rel h toks toks' cs lib cn cls ce ce' σ σ' hR f)

theorem find_defs_ren {ρ} (h : Respectful ρ) (defs : List (String × Lib)) (n : String) :
    (defs.map (fun d => (ρ d.1, d.2))).find? (fun d => d.1 = ρ n) = (defs.find? (fun d => d.1 = n)).map (fun d => (ρ d.1, d.2)) := by
  induction defs with
  | nil => simp
  | cons d rest ih =>
    simp only [List.map_cons, List.find?_cons]
    by_cases hd : d.1 = n
    · simp [hd]
    · have : ρ d.1 ≠ ρ n := fun e => hd (h.inj _ _ e)
      simp [hd, this, ih]

theorem targetOf_ren {ρ} (h : Respectful ρ) (defs : List (String × Lib)) (p : Prefix) (before : List Suffix) :
    (targetOf (defs.map (fun d => (ρ d.1, d.2))) (p.ren ρ) (before.map (Suffix.ren ρ))).map Prod.fst =
      (targetOf defs p before).map Prod.fst := by
  cases p with
  | expr e =>
    match before with
    | [] => simp [Prefix.ren, targetOf]
    | [_] => simp [Prefix.ren, targetOf]
    | _ :: _ :: _ => simp [Prefix.ren, targetOf]
  | name n =>
    match before with
    | [] =>
      simp only [Prefix.ren, targetOf, List.map_nil, Tok.ren, find_defs_ren h, Option.map_map]
      cases defs.find? (fun d => d.1 = n.text) <;> simp
    | [s] =>
      have := isCreateElement_ren h (.name n) [s]
      simp only [Prefix.ren, List.map_cons, List.map_nil] at this
      simp only [Prefix.ren, targetOf, List.map_cons, List.map_nil, this, Option.map_map]
      cases isCreateElement (.name n) [s] <;> simp
    | _ :: _ :: _ => simp [Prefix.ren, targetOf]

theorem checkArgs_rel {ρ} (h : Respectful ρ) (toks toks' : List String) (cs : Classes) (lib : Lib) (ce ce' : String)
    (σ σ' : St) (hR : Rel ρ σ σ') (args : List Expr) :
    Rel ρ (checkArgs toks cs σ lib ce args) (checkArgs toks' cs σ' lib ce' (args.map (Expr.ren ρ))) := by
  match args with
  | [] => simpa [checkArgs] using hR
  | a :: rest =>
    cases a with
    | str t q literal =>
      simp only [List.map_cons, Expr.ren, checkArgs]
      cases get cs literal with
      | none =>
        obtain ⟨hd, he, hp, hu⟩ := hR
        exact ⟨hd, he, hp, by simp only [List.map_append, hu, List.map_cons, List.map_nil, Diag.core]⟩
      | some cls =>
        match rest with
        | [] => simpa using hR
        | r :: more =>
          cases r with
          | tbl sp fields =>
            simp only [List.map_cons, Expr.ren, fields_toList_ren]
            exact foldFields_rel h toks toks' cs lib literal cls ce ce' fields.toList σ σ' hR
          | nil _ | true_ _ | false_ _ | dots _ | num _ | str _ _ _ | func _ _ _ | un _ _ _ | bin _ _ _ _ | paren _ _
          | var _ | call _ | unsupported _ => simpa [Expr.ren] using hR
    | nil _ | true_ _ | false_ _ | dots _ | num _ | tbl _ _ | func _ _ _ | un _ _ _ | bin _ _ _ _ | paren _ _
    | var _ | call _ | unsupported _ => simpa [Expr.ren, checkArgs] using hR

theorem visitCall_rel {ρ} (h : Respectful ρ) (toks toks' : List String) (cs : Classes) (σ σ' : St) (hR : Rel ρ σ σ') (c : FCall) :
    Rel ρ (visitCall toks cs σ c) (visitCall toks' cs σ' (c.ren ρ)) := by
  cases c with
  | mk sp p ss =>
    simp only [FCall.ren, visitCall, suffixes_toList_ren, List.getLast?_map]
    rw [← List.map_dropLast]
    have ht := targetOf_ren h σ.defs p ss.toList.dropLast
    rw [← hR.1] at ht
    cases hT : targetOf σ.defs p ss.toList.dropLast with
    | none =>
      rw [hT] at ht
      have : targetOf σ'.defs (p.ren ρ) (ss.toList.dropLast.map (Suffix.ren ρ)) = none := by
        cases hx : targetOf σ'.defs (p.ren ρ) (ss.toList.dropLast.map (Suffix.ren ρ)) with
        | none => rfl
        | some _ => rw [hx] at ht; simp at ht
      simp only [this]
      exact hR
    | some t =>
      obtain ⟨lib, ce⟩ := t
      rw [hT] at ht
      cases hx : targetOf σ'.defs (p.ren ρ) (ss.toList.dropLast.map (Suffix.ren ρ)) with
      | none => rw [hx] at ht; simp at ht
      | some t' =>
        obtain ⟨lib', ce'⟩ := t'
        rw [hx] at ht
        simp only [Option.map_some, Option.some.injEq] at ht
        subst ht
        cases ss.toList.getLast? with
        | none => simpa using hR
        | some last =>
          cases last with
          | args sp2 a =>
            cases a with
            | parens sp3 es =>
              simp only [Option.map_some, Suffix.ren, Args.ren, exprs_toList_ren]
              exact checkArgs_rel h toks toks' cs lib' ce ce' σ σ' hR es.toList
            | str _ _ _ => simpa [Suffix.ren, Args.ren] using hR
            | tbl _ _ => simpa [Suffix.ren, Args.ren] using hR
          | dot _ _ => simpa [Suffix.ren] using hR
          | idx _ _ => simpa [Suffix.ren] using hR
          | meth _ _ _ => simpa [Suffix.ren] using hR
          | unsupported _ => simpa [Suffix.ren] using hR

theorem visitLocal_rel {ρ} (h : Respectful ρ) : ∀ (names : List Tok) (es : List Expr) (σ σ' : St), Rel ρ σ σ' →
    Rel ρ ((names.zip es).foldl (fun σ (ne : Tok × Expr) =>
        match ne.2 with
        | .var (.expr _ p ss) =>
          match isCreateElement p ss.toList with
          | some lib => { σ with defs := (ne.1.text, lib) :: σ.defs }
          | none => σ
        | _ => σ) σ)
      (((names.map (Tok.ren ρ)).zip (es.map (Expr.ren ρ))).foldl (fun σ (ne : Tok × Expr) =>
        match ne.2 with
        | .var (.expr _ p ss) =>
          match isCreateElement p ss.toList with
          | some lib => { σ with defs := (ne.1.text, lib) :: σ.defs }
          | none => σ
        | _ => σ) σ')
  | [], _, _, _, hR => by simpa using hR
  | _ :: _, [], _, _, hR => by simpa using hR
  | n :: names, e :: es, σ, σ', hR => by
    simp only [List.map_cons, List.zip_cons_cons, List.foldl_cons]
    apply visitLocal_rel h names es
    cases e with
    | var v =>
      cases v with
      | name t => simpa [Expr.ren, Var.ren] using hR
      | expr sp p ss =>
        have hc := isCreateElement_ren h p ss.toList
        simp only [Expr.ren, Var.ren, suffixes_toList_ren, hc]
        cases isCreateElement p ss.toList with
        | none => exact hR
        | some lib =>
          obtain ⟨hd, he, hp, hu⟩ := hR
          exact ⟨by simp [hd, Tok.ren], he, hp, hu⟩
    | nil _ | true_ _ | false_ _ | dots _ | num _ | str _ _ _ | func _ _ _ | un _ _ _ | bin _ _ _ _ | paren _ _
    | tbl _ _ | call _ | unsupported _ => simpa [Expr.ren] using hR

theorem step_rel {ρ} (h : Respectful ρ) (toks toks' : List String) (cs : Classes) (σ σ' : St) (hR : Rel ρ σ σ') (n : Node) :
    Rel ρ (step toks cs σ n) (step toks' cs σ' (n.ren ρ)) := by
  cases n with
  | call c => exact visitCall_rel h toks toks' cs σ σ' hR c
  | block b => exact hR
  | last l => exact hR
  | stmt s =>
    cases s with
    | localAssign sp names es =>
      simp only [Node.ren, Stmt.ren, step, visitLocal, exprs_toList_ren]
      exact visitLocal_rel h names es.toList σ σ' hR
    | assign _ _ _ | call _ | do_ _ _ | while_ _ _ _ | repeat_ _ _ _ | if_ _ _ _ _ _ | numFor _ _ _ _ _ _ _
    | genFor _ _ _ _ | func _ _ _ | localFunc _ _ _ | unsupported _ => exact hR

theorem fold_rel {ρ} (h : Respectful ρ) (toks toks' : List String) (cs : Classes) : ∀ (ns : List Node) (σ σ' : St), Rel ρ σ σ' →
    Rel ρ (ns.foldl (step toks cs) σ) ((ns.map (Node.ren ρ)).foldl (step toks' cs) σ')
  | [], _, _, hR => hR
  | n :: rest, σ, σ', hR => by
    simp only [List.foldl_cons, List.map_cons]
    exact fold_rel h toks toks' cs rest _ _ (step_rel h toks toks' cs σ σ' hR n)

/-- **The lint's reports — where they are made and what their messages say — do not depend on how the script spells its
variables**, `Roact` and `React` aside: the renamed program gets the same reports in the same order (a note may quote the
renamed text). -/
theorem run_ren {ρ} (h : Respectful ρ) (enabled : Bool) (toks toks' : List String) (cs : Classes) (b : Block) :
    (run enabled toks' cs (b.ren ρ)).map Diag.core = (run enabled toks cs b).map Diag.core := by
  unfold run
  split
  · rfl
  · rw [nBlock_ren]
    obtain ⟨_, he, hp, hu⟩ := fold_rel h toks toks' cs (nBlock b) {} {} ⟨rfl, rfl, rfl, rfl⟩
    simp only [List.map_append, he, hp, hu]

end Selene.Lints.Roact
