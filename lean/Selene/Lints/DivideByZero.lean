/- `divide_by_zero` — selene-lib/src/lints/divide_by_zero.rs:46-67 -/
import Selene.Lints.TraverseA
import Selene.Lints.Value
namespace Selene.Lints.DivideByZero
open Selene.Lua Selene.Lints

def message : String := "dividing by zero is not allowed, use math.huge instead"

/-- `value_is_zero` (divide_by_zero.rs:46-52): a number token for which `ast_util::number_is_zero` holds -/
def valueIsZero : Expr → Bool
  | .num t => numberIsZero t.text
  | _ => false

/-- `visit_expression` (divide_by_zero.rs:55-66) -/
def hook : Node → List Diag
  | .expr (.bin sp l op r) =>
    if op.text == "/" && (valueIsZero r && !valueIsZero l) then
      [{ code := "divide_by_zero", primary := sp, msg := message }]
    else []
  | _ => []

def lint (b : Block) : List Diag := runLint hook b
end Selene.Lints.DivideByZero
