/- `duplicate_keys` — selene-lib/src/lints/duplicate_keys.rs:48-150 -/
import Selene.Lints.TraverseA
namespace Selene.Lints.DuplicateKeys
open Selene.Lua Selene.Lints

inductive KeyType where
  | number | string
deriving DecidableEq, Repr

/-- `Key` (rs:57-61): the key type and the *raw text* of the key -/
structure Key where
  ty : KeyType
  name : String
deriving DecidableEq, Repr

/-- `expression_to_key` (rs:75-91): string literal ↦ its text between the delimiters (whatever the
quote kind, escapes uninterpreted); number ↦ its spelling -/
def expressionToKey : Expr → Option Key
  | .str _ _ literal => some ⟨.string, literal⟩
  | .num t => some ⟨.number, t.text⟩
  | _ => none

/-- `range(field)` -/
def fieldRange : Field → Span
  | .exprKey sp _ _ => sp
  | .nameKey sp _ _ => sp
  | .noKey v => v.span
  | .unsupported sp => sp

/-- the key a field declares and the array index counter after it (rs:119-143) -/
def fieldKey : Field → Nat → Option Key × Nat
  | .nameKey _ k _, idx => (some ⟨.string, k.text⟩, idx)
  | .exprKey _ k _, idx => (expressionToKey k, idx)
  | .noKey _, idx => (some ⟨.number, toString (idx + 1)⟩, idx + 1)
  | .unsupported _, idx => (none, idx)

def message (name : String) : String := "key `" ++ name ++ "` is already declared"

def lookupKey (k : Key) : List (Key × Span) → Option Span
  | [] => none
  | (k', sp) :: rest => if k' = k then some sp else lookupKey k rest

/-- the loop of `visit_table_constructor` with `check_field` inlined (rs:94-109, 113-146):
`declared` is the HashMap (first declaration wins, a duplicate does not overwrite it) -/
def fields : FieldList → List (Key × Span) → Nat → List Diag
  | .nil, _, _ => []
  | .cons f rest, declared, idx =>
    match fieldKey f idx with
    | (some key, idx') =>
      match lookupKey key declared with
      | some original =>
        { code := "duplicate_keys", primary := fieldRange f, msg := message key.name, secondary := [original] }
          :: fields rest declared idx'
      | none => fields rest ((key, fieldRange f) :: declared) idx'
    | (none, idx') => fields rest declared idx'

def hook : Node → List Diag
  | .table _ fs => fields fs [] 0
  | _ => []

def lint (b : Block) : List Diag := runLint hook b
end Selene.Lints.DuplicateKeys
