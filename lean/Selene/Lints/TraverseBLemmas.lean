/-
The traversal reaches every syntactic position: if `b` occurs in `a` at any depth (`Within a b`), the nodes the
traversal emits for `b` form a contiguous segment of the nodes it emits for `a`.
-/
import Selene.Lints.TraverseB
namespace Selene.LintsB
open Selene.Lua

theorem inf_l {α : Type} {x a b : List α} (h : x <:+: a) : x <:+: a ++ b := by
  obtain ⟨p, q, rfl⟩ := h
  exact ⟨p, q ++ b, by simp⟩

theorem inf_r {α : Type} {x a b : List α} (h : x <:+: b) : x <:+: a ++ b := by
  obtain ⟨p, q, rfl⟩ := h
  exact ⟨a ++ p, q, by simp⟩

theorem inf_c {α : Type} {x b : List α} {n : α} (h : x <:+: b) : x <:+: n :: b := by
  obtain ⟨p, q, rfl⟩ := h
  exact ⟨n :: p, q, by simp⟩

syntax "solve_inf" : tactic
macro_rules
  | `(tactic| solve_inf) =>
    `(tactic| first
      | exact List.infix_refl _
      | (apply inf_c; solve_inf)
      | (apply inf_l; solve_inf)
      | (apply inf_r; solve_inf))

/-- one step: the nodes of an immediate constituent are a segment of the nodes of the whole -/
theorem children_nodes_infix (a b : Any) (h : b ∈ a.children) : b.nodes <:+: a.nodes := by
  cases a with
  | expr e =>
    cases e <;> simp [Any.children] at h
    case func sp kw body => subst h; simp only [Any.nodes, nExpr]; solve_inf
    case paren sp e => subst h; simp only [Any.nodes, nExpr]; solve_inf
    case un sp op e => subst h; simp only [Any.nodes, nExpr]; solve_inf
    case bin sp l op r => rcases h with rfl | rfl <;> simp only [Any.nodes, nExpr] <;> solve_inf
    case tbl sp fs => subst h; simp only [Any.nodes, nExpr]; solve_inf
    case var v => subst h; simp only [Any.nodes, nExpr]; solve_inf
    case call c => subst h; simp only [Any.nodes, nExpr]; solve_inf
  | exprs es =>
    cases es <;> simp [Any.children] at h
    case cons e rest => rcases h with rfl | rfl <;> simp only [Any.nodes, nExprs] <;> solve_inf
  | var v =>
    cases v <;> simp [Any.children] at h
    case expr sp p ss => rcases h with rfl | rfl <;> simp only [Any.nodes, nVar] <;> solve_inf
  | vars vs =>
    cases vs <;> simp [Any.children] at h
    case cons v rest => rcases h with rfl | rfl <;> simp only [Any.nodes, nVars] <;> solve_inf
  | pre p =>
    cases p <;> simp [Any.children] at h
    case expr e => subst h; simp only [Any.nodes, nPrefix]; solve_inf
  | suffix s =>
    cases s <;> simp [Any.children] at h
    case idx sp e => subst h; simp only [Any.nodes, nSuffix]; solve_inf
    case args sp a => subst h; simp only [Any.nodes, nSuffix]; solve_inf
    case meth sp n a => subst h; simp only [Any.nodes, nSuffix]; solve_inf
  | suffixes ss =>
    cases ss <;> simp [Any.children] at h
    case cons s rest => rcases h with rfl | rfl <;> simp only [Any.nodes, nSuffixes] <;> solve_inf
  | args a =>
    cases a <;> simp [Any.children] at h
    case parens sp es => subst h; simp only [Any.nodes, nArgs]; solve_inf
    case tbl sp fs => subst h; simp only [Any.nodes, nArgs]; solve_inf
  | fcall c =>
    cases c with
    | mk sp p ss =>
      simp [Any.children] at h
      rcases h with rfl | rfl <;> simp only [Any.nodes, nFCall] <;> solve_inf
  | field f =>
    cases f <;> simp [Any.children] at h
    case exprKey sp k v => rcases h with rfl | rfl <;> simp only [Any.nodes, nField] <;> solve_inf
    case nameKey sp k v => subst h; simp only [Any.nodes, nField]; solve_inf
    case noKey v => subst h; simp only [Any.nodes, nField]; solve_inf
  | fields fs =>
    cases fs <;> simp [Any.children] at h
    case cons f rest => rcases h with rfl | rfl <;> simp only [Any.nodes, nFields] <;> solve_inf
  | body fb =>
    cases fb with
    | mk sp ps blk => simp [Any.children] at h; subst h; simp only [Any.nodes, nBody]; solve_inf
  | stmt s =>
    cases s <;> simp [Any.children] at h
    case assign sp vs es => rcases h with rfl | rfl <;> simp only [Any.nodes, nStmt] <;> solve_inf
    case localAssign sp ns es => subst h; simp only [Any.nodes, nStmt]; solve_inf
    case call c => subst h; simp only [Any.nodes, nStmt]; solve_inf
    case do_ sp blk => subst h; simp only [Any.nodes, nStmt]; solve_inf
    case while_ sp c blk => rcases h with rfl | rfl <;> simp only [Any.nodes, nStmt] <;> solve_inf
    case repeat_ sp blk c => rcases h with rfl | rfl <;> simp only [Any.nodes, nStmt] <;> solve_inf
    case if_ sp c blk eis els => rcases h with rfl | rfl | rfl | rfl <;> simp only [Any.nodes, nStmt] <;> solve_inf
    case numFor sp v comma a e st blk => rcases h with rfl | rfl | rfl | rfl <;> simp only [Any.nodes, nStmt] <;> solve_inf
    case genFor sp ns es blk => rcases h with rfl | rfl <;> simp only [Any.nodes, nStmt] <;> solve_inf
    case func sp n fb => subst h; simp only [Any.nodes, nStmt]; solve_inf
    case localFunc sp n fb => subst h; simp only [Any.nodes, nStmt]; solve_inf
  | stmts ss =>
    cases ss <;> simp [Any.children] at h
    case cons s rest =>
      rcases h with rfl | rfl
      · simp only [Any.nodes, nStmts]; exact ⟨[], nStmts rest, by simp⟩
      · simp only [Any.nodes, nStmts]; solve_inf
  | elif e =>
    cases e with
    | mk sp c blk => simp [Any.children] at h; rcases h with rfl | rfl <;> simp only [Any.nodes, nElseIf] <;> solve_inf
  | elifs es =>
    cases es <;> simp [Any.children] at h
    case cons e rest => rcases h with rfl | rfl <;> simp only [Any.nodes, nElseIfs] <;> solve_inf
  | optb o =>
    cases o <;> simp [Any.children] at h
    case some blk => subst h; simp only [Any.nodes, nOptBlock]; solve_inf
  | opte o =>
    cases o <;> simp [Any.children] at h
    case some e => subst h; simp only [Any.nodes, nOptExpr]; solve_inf
  | last l =>
    cases l <;> simp [Any.children] at h
    case ret sp es => subst h; simp only [Any.nodes, nLast]; solve_inf
  | block blk =>
    cases blk with
    | mk sp ss l => simp [Any.children] at h; rcases h with rfl | rfl <;> simp only [Any.nodes, nBlock] <;> solve_inf

/-- any depth -/
theorem within_nodes_infix {a b : Any} (h : Within a b) : b.nodes <:+: a.nodes := by
  induction h with
  | refl => exact List.infix_refl _
  | step hc _ ih => exact ih.trans (children_nodes_infix _ _ hc)

theorem Within.trans {a b c : Any} (h1 : Within a b) (h2 : Within b c) : Within a c := by
  induction h1 with
  | refl => exact h2
  | step hc _ ih => exact Within.step hc (ih h2)

theorem mem_of_infix {α : Type} {x l : List α} {a : α} (h : x <:+: l) (ha : a ∈ x) : a ∈ l := by
  obtain ⟨p, q, rfl⟩ := h
  simp [ha]

/-- every statement of the program, wherever it stands, is visited -/
theorem within_stmt_mem {P : Block} {s : Stmt} (h : Within (.block P) (.stmt s)) : Node.stmt s ∈ nBlock P :=
  mem_of_infix (within_nodes_infix h) (by simp [Any.nodes])

/-- every block of the program is visited -/
theorem within_block_mem {P b : Block} (h : Within (.block P) (.block b)) : Node.block b ∈ nBlock P := by
  refine mem_of_infix (within_nodes_infix h) ?_
  cases b with
  | mk sp ss l => simp [Any.nodes, nBlock]

/-- every function call of the program (statement or expression) is visited -/
theorem within_fcall_mem {P : Block} {c : FCall} (h : Within (.block P) (.fcall c)) : Node.call c ∈ nBlock P := by
  refine mem_of_infix (within_nodes_infix h) ?_
  cases c with
  | mk sp p ss => simp [Any.nodes, nFCall]

/-- the statements of a list, with the nodes below each -/
def stmtNodes (l : List Stmt) : List Node := l.flatMap fun s => Node.stmt s :: nStmt s

theorem nStmts_eq : ∀ ss : StmtList, nStmts ss = stmtNodes ss.toList
  | .nil => by simp [nStmts, stmtNodes, StmtList.toList]
  | .cons s rest => by simp [nStmts, stmtNodes, StmtList.toList, nStmts_eq rest]

theorem within_stmts_suffix : ∀ (ss : StmtList) (before : List Stmt) (rest : StmtList),
    ss.toList = before ++ rest.toList → Within (.stmts ss) (.stmts rest)
  | ss, [], rest, h => by
    have : ss = rest := by
      clear within_stmts_suffix
      simp at h
      exact toList_inj ss rest h
    subst this; exact Within.refl _
  | .nil, b :: before, rest, h => by simp [StmtList.toList] at h
  | .cons s ss', b :: before, rest, h => by
    simp [StmtList.toList] at h
    exact Within.step (b := .stmts ss') (by simp [Any.children]) (within_stmts_suffix ss' before rest h.2)
where
  toList_inj : ∀ (a b : StmtList), a.toList = b.toList → a = b
    | .nil, .nil, _ => rfl
    | .nil, .cons _ _, h => by simp [StmtList.toList] at h
    | .cons _ _, .nil, h => by simp [StmtList.toList] at h
    | .cons s a, .cons t b, h => by
      simp [StmtList.toList] at h
      rw [h.1, toList_inj a b h.2]

end Selene.LintsB
