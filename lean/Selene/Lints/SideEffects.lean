/-
`HasSideEffects` (selene-lib/src/ast_util/side_effects.rs), used by `ifs_same_cond` and `almost_swapped`.
-/
import Selene.Lints.TraverseB
namespace Selene.LintsB.SideEffects
open Selene.Lua Selene.LintsB

/-! ### `side_effects.rs`, arm by arm -/
mutual
def exprSE : Expr → Bool
  | .bin _ l _ r => exprSE l || exprSE r
  | .paren _ e => exprSE e
  | .un _ _ e => exprSE e
  | .func _ _ _ | .num _ | .str _ _ _ | .nil _ | .true_ _ | .false_ _ | .dots _ => false
  | .call _ => true
  | .tbl _ fs => fieldsSE fs
  | .var v => varSE v
  | .unsupported _ => true
def fieldsSE : FieldList → Bool
  | .nil => false
  | .cons f rest => fieldSE f || fieldsSE rest
def fieldSE : Field → Bool
  | .exprKey _ k v => exprSE k || exprSE v
  | .nameKey _ _ v => exprSE v
  | .noKey v => exprSE v
  | .unsupported _ => true
def varSE : Var → Bool
  | .name _ => false
  | .expr _ p ss => prefixSE p || suffixesSE ss
def prefixSE : Prefix → Bool
  | .expr e => exprSE e
  | .name _ => false
/-- `self.suffixes().any(HasSideEffects::has_side_effects)` -/
def suffixesSE : SuffixList → Bool
  | .nil => false
  | .cons s rest => suffixSE s || suffixesSE rest
/-- `impl HasSideEffects for ast::Suffix`: a call has side effects, a bracket index those of its expression -/
def suffixSE : Suffix → Bool
  | .args _ _ | .meth _ _ _ => true
  | .idx _ e => exprSE e
  | .dot _ _ => false
  | .unsupported _ => true
end

end Selene.LintsB.SideEffects
