/-
Specifications of the nine expression-level C04 lints, written from docs/src/lints/<lint>.md and the
Lua 5.1 reference manual, not from the Rust.  Literals are judged by the value they denote
(`Selene.Lints.Value`).

For every lint:
* `Doc.<lint> n g : Bool`     — diagnostic `g` is justified by node `n`: the documented condition
                                 holds at `n` (by value) and `g` points at it.
* `Canon.<lint> n : List Expect` — the diagnostics the documented canonical pattern (spelled as in
                                 the documentation) requires at node `n`.
* `ByValue.<lint> n : List Expect` — the same pattern with every literal re-spelled in any
                                 equivalent form (a superset of `Canon`).
-/
import Selene.Lints.TraverseA
import Selene.Lints.Value
namespace Selene.Lints
open Selene.Lua

/-- an expected diagnostic: its token span and, for labels inside a token, the byte offset of the
label's start from the start of that token -/
structure Expect where
  primary : Span
  subStart : Option Nat := none
deriving DecidableEq, Repr

def Expect.matches (x : Expect) (g : Diag) : Bool :=
  g.primary == x.primary && (match x.subStart with
    | none => true
    | some a => (match g.sub with | some (a', _) => a == a' | none => false))

/-- a numeral that denotes zero -/
def zeroLit : Expr → Bool
  | .num t => (match numValue t.text with | some v => v.denotesZero | none => false)
  | _ => false

def isNumLit : Expr → Bool
  | .num _ => true
  | _ => false

def spelled (s : String) : Expr → Bool
  | .num t => t.text == s
  | _ => false

namespace Doc

/-- "Checks for division by zero. Allows `0 / 0`" -/
def divideByZero : Node → Diag → Bool
  | .expr (.bin sp l op r), g => op.text == "/" && zeroLit r && !zeroLit l && g.primary == sp
  | _, _ => false

/-- "Checks for comparison to `0/0`" -/
def compareNan : Node → Diag → Bool
  | .expr (.bin sp _ op (.bin _ a dv b)), g =>
    (op.text == "==" || op.text == "~=") && dv.text == "/" && zeroLit a && zeroLit b && g.primary == sp
  | _, _ => false

/-- "`for _ = #x, 1 do` sequences without specifying a negative step … will only run at most once":
no step, the start is a length expression, the end is a numeral denoting a value `≤ 1`.
A numeral outside Lua 5.1 (`numValue = none`) is not judged. -/
def suspiciousReverseLoop : Node → Diag → Bool
  | .stmt (.numFor _ _ _ (.un usp op _) (.num t) .none _), g =>
    op.text == "#" && g.primary == ⟨usp.first, t.idx⟩ &&
      (match numValue t.text with | some v => v.denotesLeOne | none => true)
  | _, _ => false

inductive KeyVal where
  | str (bytes : List Nat)
  | num (text : String)
deriving DecidableEq, Repr

/-- two constant keys denote the same Lua value -/
def sameKey : KeyVal → KeyVal → Bool
  | .str a, .str b => a == b
  | .num a, .num b => a == b || (match numValue a, numValue b with
      | some x, some y => x.eqv y
      | _, _ => false)
  | _, _ => false

def fieldSpan : Field → Span
  | .exprKey sp _ _ => sp
  | .nameKey sp _ _ => sp
  | .noKey v => v.span
  | .unsupported sp => sp

/-- the constant key of each field (array items count from 1), with the field's span -/
def keyVals : FieldList → Nat → List (Option KeyVal × Span)
  | .nil, _ => []
  | .cons (.nameKey sp k _) rest, i => (some (.str (bytesOf k.text.toList)), sp) :: keyVals rest i
  | .cons (.exprKey sp (.str _ q lit) _) rest, i => (some (.str (strValue (q == .brackets) lit)), sp) :: keyVals rest i
  | .cons (.exprKey sp (.num t) _) rest, i => (some (.num t.text), sp) :: keyVals rest i
  | .cons (.exprKey sp _ _) rest, i => (none, sp) :: keyVals rest i
  | .cons (.noKey v) rest, i => (some (.num (toString (i + 1))), v.span) :: keyVals rest (i + 1)
  | .cons (.unsupported sp) rest, i => (none, sp) :: keyVals rest i

/-- is there an earlier entry with the same key value (and this span)? -/
def earlierSame (k : KeyVal) (earlier : List (Option KeyVal × Span)) (sp : Option Span) : Bool :=
  earlier.any fun (k', s) => (match k' with | some k' => sameKey k' k | none => false) &&
    (match sp with | some sp => s == sp | none => true)

/-- `g` reports the field `(k, s)` and points back to an earlier field with the same key value -/
def dupHere (earlier : List (Option KeyVal × Span)) (k : Option KeyVal) (s : Span) (g : Diag) : Bool :=
  match k with
  | some k => g.primary == s && (match g.secondary with
      | [o] => earlierSame k earlier (some o)
      | _ => false)
  | none => false

def dupPairs : List (Option KeyVal × Span) → List (Option KeyVal × Span) → Diag → Bool
  | _, [], _ => false
  | earlier, (k, s) :: rest, g => dupHere earlier k s g || dupPairs (earlier ++ [(k, s)]) rest g

/-- "Checks for duplicate keys being defined inside of tables": the reported field and the field it
points back to have constant keys denoting the same value -/
def duplicateKeys : Node → Diag → Bool
  | .table _ fs, g => dupPairs [] (keyVals fs 0) g
  | _, _ => false

def isNoKey : Field → Bool
  | .noKey _ => true
  | _ => false

def mixedPairs : List Field → Diag → Bool
  | [], _ => false
  | f :: rest, g => rest.any (fun f' => isNoKey f != isNoKey f' && g.primary == ⟨(fieldSpan f).first, (fieldSpan f').last⟩) || mixedPairs rest g

/-- "tables that act as both an array and dictionary": the label runs from a field of one kind to a
later field of the other kind of the same table -/
def mixedTable : Node → Diag → Bool
  | .table _ fs, g => mixedPairs fs.toList g
  | _, _ => false

def isTable : Expr → Bool
  | .tbl _ _ => true
  | _ => false

def isComparisonOp (op : String) : Bool :=
  op == "==" || op == "~=" || op == "<" || op == ">" || op == "<=" || op == ">="

/-- "Checks for direct comparisons with constant tables" -/
def constantTableComparison : Node → Diag → Bool
  | .expr (.bin sp l op r), g => isComparisonOp op.text && (isTable l || isTable r) && g.primary == sp
  | _, _ => false

/-- "Checks for `type(foo == "type")`" (and `typeof` with the Roblox library): the first argument
of the call is an equality test against a string literal; the label is the argument list -/
def typeCheckInsideCall (roblox : Bool) : Node → Diag → Bool
  | .call (.mk _ (.name f) (.cons (.args asp (.parens _ (.cons (.bin _ _ op (.str _ _ _)) _))) _)), g =>
    (f.text == "type" || (roblox && f.text == "typeof")) && op.text == "==" && g.primary == asp
  | _, _ => false

def parenSpan : Expr → Option Span
  | .paren sp _ => some sp
  | _ => none

def elifConds : ElseIfList → List Expr
  | .nil => []
  | .cons (.mk _ c _) rest => c :: elifConds rest

def conditions : Node → List Expr
  | .stmt (.if_ _ c _ elifs _) => c :: elifConds elifs
  | .stmt (.while_ _ c _) => [c]
  | .stmt (.repeat_ _ _ c) => [c]
  | _ => []

/-- "Checks for conditions in the form of `(expression)`" -/
def parentheseConditions (n : Node) (g : Diag) : Bool :=
  (conditions n).any fun c => parenSpan c == some g.primary

/-! #### string escapes (Lua 5.1 manual §2.1; Luau adds `\z`, `\xXX`, `\u{XXX}`) -/

inductive EscClass where
  | ok (c : Char)          -- a valid escape; `c` = the character after the backslash
  | invalid
  | decimalTooHigh
  | malformed
  | codepointTooHigh
deriving DecidableEq, Repr

def hexRun : List Char → List Char × List Char
  | [] => ([], [])
  | c :: cs => if isHex c then let (h, r) := hexRun cs; (c :: h, r) else ([], c :: cs)

def hexNum : List Char → Nat → Nat
  | [], acc => acc
  | c :: cs, acc => hexNum cs (acc * 16 + hexVal c)

/-- the escape sequences of a quoted literal, as a Lua lexer reads them: `(byte offset of the
backslash from the opening quote, class)`.  `off` starts at 1 (the opening quote is one byte). -/
def luaEscapes (roblox : Bool) : Nat → List Char → Nat → List (Nat × EscClass)
  | 0, _, _ => []
  | _ + 1, [], _ => []
  | fuel + 1, c :: cs, off =>
    if c = '\\' then
      match cs with
      | [] => []
      | d :: r =>
        if d = 'a' || d = 'b' || d = 'f' || d = 'n' || d = 'r' || d = 't' || d = 'v' || d = '\\' || d = '"' || d = '\''
            || d = '\n' || d = '\r' then
          (off, .ok d) :: luaEscapes roblox fuel r (off + 1 + d.utf8Size)
        else if isDec d then
          -- up to three decimal digits
          match r with
          | d2 :: r2 =>
            if isDec d2 then
              match r2 with
              | d3 :: r3 =>
                if isDec d3 then
                  (off, if decVal d * 100 + decVal d2 * 10 + decVal d3 > 255 then .decimalTooHigh else .ok d) :: luaEscapes roblox fuel r3 (off + 4)
                else (off, .ok d) :: luaEscapes roblox fuel r2 (off + 3)
              | [] => [(off, .ok d)]
            else (off, .ok d) :: luaEscapes roblox fuel r (off + 2)
          | [] => [(off, .ok d)]
        else if roblox && d = 'z' then (off, .ok d) :: luaEscapes roblox fuel r (off + 2)
        else if roblox && d = 'x' then
          match r with
          | h1 :: h2 :: r2 =>
            if isHex h1 && isHex h2 then (off, .ok d) :: luaEscapes roblox fuel r2 (off + 4)
            else (off, .malformed) :: luaEscapes roblox fuel r (off + 2)
          | _ => (off, .malformed) :: luaEscapes roblox fuel r (off + 2)
        else if roblox && d = 'u' then
          match r with
          | '{' :: r2 =>
            let hr := hexRun r2
            match hr.2 with
            | '}' :: r3 =>
              if hr.1.isEmpty then (off, .malformed) :: luaEscapes roblox fuel r3 (off + 4)
              else (off, if hexNum hr.1 0 > 0x10ffff then .codepointTooHigh else .ok d) :: luaEscapes roblox fuel r3 (off + 4 + hr.1.length)
            | rest => (off, .malformed) :: luaEscapes roblox fuel rest (off + 3 + hr.1.length)
          | _ => (off, .malformed) :: luaEscapes roblox fuel r (off + 2)
        else (off, .invalid) :: luaEscapes roblox fuel r (off + 1 + d.utf8Size)
    else luaEscapes roblox fuel cs (off + c.utf8Size)

def escapesOf (roblox : Bool) (literal : String) : List (Nat × EscClass) :=
  luaEscapes roblox (literal.toList.length + 1) literal.toList 1

/-- which documented complaint (by its message) an escape of this class in this kind of string earns -/
def complaint (q : QuoteKind) : EscClass → Option String
  | .invalid => some "string escape sequence doesn't exist"
  | .malformed => some "string escape sequence is malformed"
  | .decimalTooHigh => some "decimal escape is too high"
  | .codepointTooHigh => some "unicode codepoint is too high for this escape sequence"
  | .ok c =>
    if c = '"' && q == .single then some "double quotes do not have to be escaped when inside single quoted strings"
    else if c = '\'' && q == .double then some "single quotes do not have to be escaped when inside double quoted strings"
    else none

def broken : EscClass → Bool
  | .ok _ => false
  | _ => true

/-- the three complaints about an escape that cannot be read (`\u{}` is "malformed" to a Luau lexer and
"too high" to selene: which of the three words is used for a broken escape is not judged) -/
def brokenMessages : List String :=
  ["string escape sequence doesn't exist", "string escape sequence is malformed", "unicode codepoint is too high for this escape sequence"]

/-- "invalid, malformed, or unnecessary string escape sequences": the label starts at the backslash
of an escape sequence of the literal that earns exactly this complaint -/
def badStringEscape (roblox : Bool) : Node → Diag → Bool
  | .expr (.str t q lit), g =>
    q != .brackets && g.primary == ⟨t.idx, t.idx⟩ &&
      (match g.sub with
       | some (a, b) => a < b && (escapesOf roblox lit).any fun (o, cl) => o == a &&
           (complaint q cl == some g.msg || (broken cl && brokenMessages.contains g.msg && cl != .decimalTooHigh && g.msg != "decimal escape is too high"))
       | none => false)
  | _, _ => false

end Doc

namespace ByValue

def divideByZero : Node → List Expect
  | .expr (.bin sp l op r) => if op.text == "/" && zeroLit r && !zeroLit l then [{ primary := sp }] else []
  | _ => []

def isVar : Expr → Bool
  | .var _ => true
  | _ => false

def compareNan : Node → List Expect
  | .expr (.bin sp l op (.bin _ a dv b)) =>
    if isVar l && (op.text == "==" || op.text == "~=") && dv.text == "/" && zeroLit a && zeroLit b then [{ primary := sp }] else []
  | _ => []

def suspiciousReverseLoop : Node → List Expect
  | .stmt (.numFor _ _ _ (.un usp op _) (.num t) .none _) =>
    if op.text == "#" && (match numValue t.text with | some v => v.denotesLeOne | none => false) then [{ primary := ⟨usp.first, t.idx⟩ }] else []
  | _ => []

def dupExpected : List (Option Doc.KeyVal × Span) → List (Option Doc.KeyVal × Span) → List Expect
  | _, [] => []
  | earlier, (k, s) :: rest =>
    (match k with
     | some k => if Doc.earlierSame k earlier none then [{ primary := s }] else []
     | none => []) ++ dupExpected (earlier ++ [(k, s)]) rest

def duplicateKeys : Node → List Expect
  | .table _ fs => dupExpected [] (Doc.keyVals fs 0)
  | _ => []

/-- the first field whose kind differs from its predecessor's: from the predecessor's start to its end -/
def firstMixed : List Field → List Expect
  | f :: f' :: rest =>
    if Doc.isNoKey f != Doc.isNoKey f' then [{ primary := ⟨(Doc.fieldSpan f).first, (Doc.fieldSpan f').last⟩ }]
    else firstMixed (f' :: rest)
  | _ => []

def mixedTable : Node → List Expect
  | .table _ fs => firstMixed fs.toList
  | _ => []

def constantTableComparison : Node → List Expect
  | .expr (.bin sp l op r) =>
    if (op.text == "==" || op.text == "~=") && (Doc.isTable l || Doc.isTable r) then [{ primary := sp }] else []
  | _ => []

def typeCheckInsideCall (roblox : Bool) : Node → List Expect
  | .call (.mk _ (.name f) (.cons (.args asp (.parens _ (.cons (.bin _ _ op (.str _ _ _)) _))) _)) =>
    if (f.text == "type" || (roblox && f.text == "typeof")) && op.text == "==" then [{ primary := asp }] else []
  | _ => []

def parentheseConditions (n : Node) : List Expect :=
  (Doc.conditions n).filterMap fun c => (Doc.parenSpan c).map fun sp => { primary := sp }

def badStringEscape (roblox : Bool) : Node → List Expect
  | .expr (.str t q lit) =>
    if q == .brackets then []
    else (Doc.escapesOf roblox lit).filterMap fun (o, cl) =>
      (Doc.complaint q cl).map fun _ => { primary := ⟨t.idx, t.idx⟩, subStart := some o }
  | _ => []

end ByValue

namespace Canon

/-- `n / 0` with the zero spelled `0` -/
def divideByZero : Node → List Expect
  | .expr (.bin sp l op r) => if op.text == "/" && spelled "0" r && !zeroLit l then [{ primary := sp }] else []
  | _ => []

/-- `x == 0/0`, `x ~= 0/0` -/
def compareNan : Node → List Expect
  | .expr (.bin sp l op (.bin _ a dv b)) =>
    if ByValue.isVar l && (op.text == "==" || op.text == "~=") && dv.text == "/" && spelled "0" a && spelled "0" b then [{ primary := sp }] else []
  | _ => []

/-- `for _ = #x, 1 do` -/
def suspiciousReverseLoop : Node → List Expect
  | .stmt (.numFor _ _ _ (.un usp op _) (.num t) .none _) =>
    if op.text == "#" && t.text == "1" then [{ primary := ⟨usp.first, t.idx⟩ }] else []
  | _ => []

def plainDecimal (s : String) : Bool :=
  !s.toList.isEmpty && s.toList.all isDec && (s.toList.head? != some '0' || s.toList.length == 1)

/-- keys as the documentation spells them: names, quoted strings without escapes, plain decimal
integers, array items -/
def canonKeys : FieldList → Nat → List (Option Doc.KeyVal × Span)
  | .nil, _ => []
  | .cons (.nameKey sp k _) rest, i => (some (.str (bytesOf k.text.toList)), sp) :: canonKeys rest i
  | .cons (.exprKey sp (.str _ q lit) _) rest, i =>
    (if (q == .single || q == .double) && !lit.toList.contains '\\' then some (Doc.KeyVal.str (bytesOf lit.toList)) else none, sp) :: canonKeys rest i
  | .cons (.exprKey sp (.num t) _) rest, i => (if plainDecimal t.text then some (.num t.text) else none, sp) :: canonKeys rest i
  | .cons (.exprKey sp _ _) rest, i => (none, sp) :: canonKeys rest i
  | .cons (.noKey v) rest, i => (some (.num (toString (i + 1))), v.span) :: canonKeys rest (i + 1)
  | .cons (.unsupported sp) rest, i => (none, sp) :: canonKeys rest i

def canonSame : Doc.KeyVal → Doc.KeyVal → Bool
  | .str a, .str b => a == b
  | .num a, .num b => a == b
  | _, _ => false

def dupExpected : List (Option Doc.KeyVal × Span) → List (Option Doc.KeyVal × Span) → List Expect
  | _, [] => []
  | earlier, (k, s) :: rest =>
    (match k with
     | some k => if earlier.any (fun (k', _) => match k' with | some k' => canonSame k' k | none => false) then [{ primary := s }] else []
     | none => []) ++ dupExpected (earlier ++ [(k, s)]) rest

def duplicateKeys : Node → List Expect
  | .table _ fs => dupExpected [] (canonKeys fs 0)
  | _ => []

def mixedTable : Node → List Expect := ByValue.mixedTable
def constantTableComparison : Node → List Expect := ByValue.constantTableComparison
def typeCheckInsideCall : Bool → Node → List Expect := ByValue.typeCheckInsideCall
def parentheseConditions : Node → List Expect := ByValue.parentheseConditions

/-- the documented examples: an escape that does not exist, an unnecessarily escaped quote, and (Roblox)
malformed `\x` / `\u` and a code point above `10ffff`; decimal escapes above 255 are by-value only -/
def badStringEscape (roblox : Bool) : Node → List Expect
  | .expr (.str t q lit) =>
    if q == .brackets then []
    else (Doc.escapesOf roblox lit).filterMap fun (o, cl) =>
      if cl == .decimalTooHigh then none
      else (Doc.complaint q cl).map fun _ => { primary := ⟨t.idx, t.idx⟩, subStart := some o }
  | _ => []

end Canon
end Selene.Lints
