/-
`bad_string_escape`: the regular-expression scanner of the lint (`BadStringEscape.scan`, a model of
`captures_iter` over `\\(u\{|.)([\da-fA-F]*)(\}?)`) and the Lua lexer of the specification
(`Doc.luaEscapes`) find their escape sequences at the same backslashes, for every string.  Both are
related to `escStarts`: the backslashes at which an escape begins when the text is read from left to
right, the character after a backslash being consumed with it.  What either scanner skips after an
escape (hex digits, a brace, decimal digits) never contains a backslash.
-/
import Selene.Lints.BadStringEscape
import Selene.Lints.DocA
namespace Selene.Lints.EscapeProof
open Selene.Lua Selene.Lints Selene.Lints.BadStringEscape

/-- (offset of the backslash, the text after it) for every escape of the text; `off` = offset of the
    first character -/
def escStarts : List Char → Nat → List (Nat × List Char)
  | [], _ => []
  | [_], _ => []
  | c :: d :: r, off =>
    if c = '\\' then (off, d :: r) :: escStarts r (off + 1 + d.utf8Size)
    else escStarts (d :: r) (off + c.utf8Size)

def bytes (p : List Char) : Nat := (p.map Char.utf8Size).sum

def NoBS (p : List Char) : Prop := ∀ c ∈ p, c ≠ '\\'

theorem escStarts_cons_ne (c : Char) (cs : List Char) (off : Nat) (h : c ≠ '\\') :
    escStarts (c :: cs) off = escStarts cs (off + c.utf8Size) := by
  cases cs with
  | nil => simp [escStarts]
  | cons d r => simp [escStarts, h]

theorem escStarts_skip (p rest : List Char) (off : Nat) (h : NoBS p) :
    escStarts (p ++ rest) off = escStarts rest (off + bytes p) := by
  induction p generalizing off with
  | nil => simp [bytes]
  | cons c p ih =>
    have hc : c ≠ '\\' := h c (by simp)
    have hp : NoBS p := fun x hx => h x (by simp [hx])
    rw [List.cons_append, escStarts_cons_ne _ _ _ hc, ih _ hp]
    simp [bytes, Nat.add_assoc]

theorem escStarts_bs (d : Char) (r : List Char) (off : Nat) :
    escStarts ('\\' :: d :: r) off = (off, d :: r) :: escStarts r (off + 1 + d.utf8Size) := by
  simp [escStarts]

/-! ### hex runs -/

theorem isHex_ne_bs (c : Char) (h : isHex c = true) : c ≠ '\\' := by
  intro e; subst e; revert h; decide

theorem size_one_of_le (c : Char) (n : Nat) (h : c.val.toNat ≤ n) (hn : n ≤ 127) : c.utf8Size = 1 := by
  have : c.val ≤ 0x7F := UInt32.le_iff_toNat_le.mpr (by show c.val.toNat ≤ 127; omega)
  simp [Char.utf8Size, this]

theorem isHex_size (c : Char) (h : isHex c = true) : c.utf8Size = 1 := by
  simp only [isHex, isDec, Bool.or_eq_true, Bool.and_eq_true, decide_eq_true_eq] at h
  rcases h with (⟨_, h⟩ | ⟨_, h⟩) | ⟨_, h⟩
  · exact size_one_of_le c 57 (UInt32.le_iff_toNat_le.mp h) (by omega)
  · exact size_one_of_le c 102 (UInt32.le_iff_toNat_le.mp h) (by omega)
  · exact size_one_of_le c 70 (UInt32.le_iff_toNat_le.mp h) (by omega)

theorem takeHexRun_spec (r : List Char) :
    r = (takeHexRun r).1 ++ (takeHexRun r).2 ∧ (∀ c ∈ (takeHexRun r).1, isHex c = true) := by
  induction r with
  | nil => simp [takeHexRun]
  | cons c cs ih =>
    unfold takeHexRun
    by_cases h : isHex c = true
    · simp only [h, if_true]
      refine ⟨by simp [← ih.1], ?_⟩
      intro x hx
      rcases List.mem_cons.mp hx with e | e
      · rw [e]; exact h
      · exact ih.2 x e
    · simp [h]

theorem hexRun_noBS (p : List Char) (h : ∀ c ∈ p, isHex c = true) : NoBS p :=
  fun c hc => isHex_ne_bs c (h c hc)

theorem hexRun_bytes (p : List Char) (h : ∀ c ∈ p, isHex c = true) : bytes p = p.length := by
  induction p with
  | nil => rfl
  | cons c p ih =>
    have := isHex_size c (h c (by simp))
    have ih' := ih (fun x hx => h x (by simp [hx]))
    simp only [bytes, List.map_cons, List.sum_cons, List.length_cons] at ih' ⊢
    omega

/-! ### the regular-expression scanner -/

/-- the capture made at the escape whose backslash is at `o - 1` and which is followed by `d :: r` -/
def capOf (o : Nat) (d : Char) (r : List Char) : Cap :=
  match d, r with
  | 'u', '{' :: r' => ⟨o, ['u', '{'], (takeHexRun r').1, (closing (takeHexRun r').2).1⟩
  | _, _ => ⟨o, [d], (takeHexRun r).1, (closing (takeHexRun r).2).1⟩

theorem closing_spec (l : List Char) :
    l = (if (closing l).1 then ['}'] else []) ++ (closing l).2 := by
  unfold closing
  split <;> simp

/-- what the match consumes after group 1: hex digits and possibly a closing brace — no backslash, one byte each -/
theorem tail_skip (r : List Char) :
    ∃ p, r = p ++ (closing (takeHexRun r).2).2 ∧ NoBS p ∧
      bytes p = (takeHexRun r).1.length + (if (closing (takeHexRun r).2).1 then 1 else 0) := by
  obtain ⟨h1, h2⟩ := takeHexRun_spec r
  have h3 := closing_spec (takeHexRun r).2
  refine ⟨(takeHexRun r).1 ++ (if (closing (takeHexRun r).2).1 then ['}'] else []), ?_, ?_, ?_⟩
  · rw [List.append_assoc, ← h3]; exact h1
  · intro c hc
    rcases List.mem_append.mp hc with h | h
    · exact hexRun_noBS _ h2 c h
    · split at h
      · simp only [List.mem_singleton] at h; subst h; decide
      · cases h
  · simp only [bytes, List.map_append, List.sum_append]
    have := hexRun_bytes _ h2
    simp only [bytes] at this
    rw [this]
    have hb : ('}' : Char).utf8Size = 1 := by decide
    split <;> simp [hb]

/-- an escape found where a scanner resumes is an escape of the whole text -/
theorem mem_of_resume (d : Char) (r rest p : List Char) (X Y : Nat)
    (hr : r = p ++ rest) (hp : NoBS p) (hY : Y = X + 1 + d.utf8Size + bytes p)
    (x : Nat × List Char) (hx : x ∈ escStarts rest Y) : x ∈ escStarts ('\\' :: d :: r) X := by
  rw [escStarts_bs, hr, escStarts_skip _ _ _ hp, ← hY]
  exact List.mem_cons_of_mem _ hx

theorem scan_mem (fuel : Nat) (cs : List Char) (off : Nat) (hf : cs.length < fuel) (c : Cap)
    (hc : c ∈ scan fuel cs off) :
    ∃ o d r, (o, d :: r) ∈ escStarts cs (off + 1) ∧ d ≠ '\n' ∧ c = capOf o d r := by
  induction fuel generalizing cs off with
  | zero => omega
  | succ fuel ih =>
    cases cs with
    | nil => simp [scan] at hc
    | cons c0 cs' =>
      unfold scan at hc
      by_cases hb : c0 = '\\'
      · subst hb
        simp only [if_true] at hc
        cases cs' with
        | nil => simp at hc
        | cons d r =>
          have hlen : ∀ rest p : List Char, r = p ++ rest → rest.length < fuel := by
            intro rest p h
            have : r.length = p.length + rest.length := by rw [h]; simp
            simp at hf; omega
          split at hc
          · rename_i heq; cases heq
          · rename_i r' heq
            injection heq with h1 h2
            subst h1 h2
            obtain ⟨p, hp1, hp2, hp3⟩ := tail_skip r'
            rcases List.mem_cons.mp hc with h | h
            · exact ⟨off + 1, 'u', '{' :: r', by rw [escStarts_bs]; exact List.mem_cons_self .., by decide, by rw [h]; rfl⟩
            · have hr : ('{' :: r') = ('{' :: p) ++ (closing (takeHexRun r').2).2 := by rw [List.cons_append, ← hp1]
              obtain ⟨o, d, r, g1, g2, g3⟩ := ih _ _ (hlen _ _ hr) h
              refine ⟨o, d, r, mem_of_resume 'u' _ _ ('{' :: p) (off + 1) _ hr ?_ ?_ _ g1, g2, g3⟩
              · intro x hx
                rcases List.mem_cons.mp hx with e | e
                · rw [e]; decide
                · exact hp2 x e
              · have h1 : ('u' : Char).utf8Size = 1 := by decide
                have h2 : ('{' : Char).utf8Size = 1 := by decide
                have : bytes ('{' :: p) = 1 + bytes p := by simp [bytes, h2]
                rw [this, hp3, h1]; omega
          · rename_i d1 r1 hne heq
            injection heq with h1 h2
            subst h1 h2
            by_cases hn : d = '\n'
            · subst hn
              simp only [if_true] at hc
              -- no match at a backslash before a line feed: the search resumes at the line feed
              obtain ⟨o, d, r', g1, g2, g3⟩ := ih ('\n' :: r) (off + 1) (by simp at hf ⊢; omega) hc
              refine ⟨o, d, r', ?_, g2, g3⟩
              rw [escStarts_bs]
              rw [escStarts_cons_ne _ _ _ (by decide)] at g1
              have h1 : ('\n' : Char).utf8Size = 1 := by decide
              rw [h1] at g1 ⊢
              exact List.mem_cons_of_mem _ g1
            · simp only [hn, if_false] at hc
              obtain ⟨p, hp1, hp2, hp3⟩ := tail_skip r
              rcases List.mem_cons.mp hc with h | h
              · refine ⟨off + 1, d, r, by rw [escStarts_bs]; exact List.mem_cons_self .., hn, ?_⟩
                rw [h]
                unfold capOf
                split
                · exact (hne _ rfl rfl).elim
                · rfl
              · obtain ⟨o, d', r', g1, g2, g3⟩ := ih _ _ (hlen _ _ hp1) h
                exact ⟨o, d', r', mem_of_resume d _ _ p (off + 1) _ hp1 hp2 (by rw [hp3]; omega) _ g1, g2, g3⟩
      · simp only [hb, if_false] at hc
        obtain ⟨o, d, r, h1, h2, h3⟩ := ih cs' (off + c0.utf8Size) (by simp at hf; omega) hc
        refine ⟨o, d, r, ?_, h2, h3⟩
        rw [escStarts_cons_ne _ _ _ hb]
        have : off + 1 + c0.utf8Size = off + c0.utf8Size + 1 := by omega
        rw [this]; exact h1

/-! ### the Lua lexer of the specification -/

/-- how a Lua (Luau, when `roblox`) lexer classifies the escape `\\d…` followed by `r` -/
def classOf (roblox : Bool) (d : Char) (r : List Char) : Doc.EscClass :=
  if d = 'a' || d = 'b' || d = 'f' || d = 'n' || d = 'r' || d = 't' || d = 'v' || d = '\\' || d = '"' || d = '\''
      || d = '\n' || d = '\r' then .ok d
  else if isDec d then
    match r with
    | d2 :: d3 :: _ =>
      if isDec d2 && isDec d3 then
        (if decVal d * 100 + decVal d2 * 10 + decVal d3 > 255 then .decimalTooHigh else .ok d)
      else .ok d
    | _ => .ok d
  else if roblox && d = 'z' then .ok d
  else if roblox && d = 'x' then
    match r with
    | h1 :: h2 :: _ => if isHex h1 && isHex h2 then .ok d else .malformed
    | _ => .malformed
  else if roblox && d = 'u' then
    match r with
    | '{' :: r2 =>
      match (Doc.hexRun r2).2 with
      | '}' :: _ =>
        if (Doc.hexRun r2).1.isEmpty then .malformed
        else if Doc.hexNum (Doc.hexRun r2).1 0 > 0x10ffff then .codepointTooHigh else .ok d
      | _ => .malformed
    | _ => .malformed
  else .invalid

theorem lua_nil (roblox : Bool) (f off : Nat) : Doc.luaEscapes roblox f [] off = [] := by
  cases f <;> rfl

theorem lua_ne (roblox : Bool) (f : Nat) (c : Char) (cs : List Char) (off : Nat) (h : c ≠ '\\') :
    Doc.luaEscapes roblox (f + 1) (c :: cs) off = Doc.luaEscapes roblox f cs (off + c.utf8Size) := by
  simp [Doc.luaEscapes, h]

theorem isDec_isHex (c : Char) (h : isDec c = true) : isHex c = true := by simp [isHex, h]

theorem docHexRun_spec (r : List Char) :
    r = (Doc.hexRun r).1 ++ (Doc.hexRun r).2 ∧ (∀ c ∈ (Doc.hexRun r).1, isHex c = true) := by
  induction r with
  | nil => simp [Doc.hexRun]
  | cons c cs ih =>
    unfold Doc.hexRun
    by_cases h : isHex c = true
    · simp only [h, if_true]
      refine ⟨by simp [← ih.1], ?_⟩
      intro x hx
      rcases List.mem_cons.mp hx with e | e
      · rw [e]; exact h
      · exact ih.2 x e
    · simp [h]

theorem isDec_size (c : Char) (h : isDec c = true) : c.utf8Size = 1 := isHex_size c (isDec_isHex c h)
theorem isDec_ne_bs (c : Char) (h : isDec c = true) : c ≠ '\\' := isHex_ne_bs c (isDec_isHex c h)

/-- one escape of the lexer: its class, and where the lexer goes on — after a stretch without backslashes -/
theorem lua_step (roblox : Bool) (f : Nat) (d : Char) (r : List Char) (off : Nat) :
    ∃ p rest, r = p ++ rest ∧ NoBS p ∧
      Doc.luaEscapes roblox (f + 1) ('\\' :: d :: r) off =
        (off, classOf roblox d r) :: Doc.luaEscapes roblox f rest (off + 1 + d.utf8Size + bytes p) := by
  have nobs0 : NoBS [] := fun _ h => by cases h
  conv => enter [1, p, 1, rest, 2, 2, 1]; unfold Doc.luaEscapes
  rw [if_pos rfl]
  unfold classOf
  dsimp only
  by_cases h1 : (decide (d = 'a') || decide (d = 'b') || decide (d = 'f') || decide (d = 'n') || decide (d = 'r') ||
      decide (d = 't') || decide (d = 'v') || decide (d = '\\') || decide (d = '"') || decide (d = '\'') ||
      decide (d = '\n') || decide (d = '\r')) = true
  · rw [if_pos h1, if_pos h1]
    exact ⟨[], r, rfl, nobs0, by simp [bytes]⟩
  rw [if_neg h1, if_neg h1]
  by_cases h2 : isDec d = true
  · rw [if_pos h2, if_pos h2]
    have hs := isDec_size d h2
    cases r with
    | nil => exact ⟨[], [], rfl, nobs0, by simp [lua_nil]⟩
    | cons d2 r2 =>
      by_cases h3 : isDec d2 = true
      · have hs2 := isDec_size d2 h3
        have nb2 : NoBS [d2] := by
          intro c hc; simp only [List.mem_singleton] at hc; subst hc; exact isDec_ne_bs _ h3
        cases r2 with
        | nil => exact ⟨[d2], [], rfl, nb2, by simp [h3, lua_nil]⟩
        | cons d3 r3 =>
          by_cases h4 : isDec d3 = true
          · have hs3 := isDec_size d3 h4
            refine ⟨[d2, d3], r3, rfl, ?_, ?_⟩
            · intro c hc
              simp only [List.mem_cons, List.not_mem_nil, or_false] at hc
              rcases hc with e | e <;> subst e
              · exact isDec_ne_bs _ h3
              · exact isDec_ne_bs _ h4
            · have : off + 1 + d.utf8Size + bytes [d2, d3] = off + 4 := by simp [bytes, hs, hs2, hs3]
              rw [this]; simp [h3, h4]
          · refine ⟨[d2], d3 :: r3, rfl, nb2, ?_⟩
            have : off + 1 + d.utf8Size + bytes [d2] = off + 3 := by simp [bytes, hs, hs2]
            rw [this]; simp [h3, h4]
      · refine ⟨[], d2 :: r2, rfl, nobs0, ?_⟩
        have : off + 1 + d.utf8Size + bytes [] = off + 2 := by simp [bytes, hs]
        rw [this]
        cases r2 <;> simp [h3]
  rw [if_neg h2, if_neg h2]
  by_cases h3 : (roblox && decide (d = 'z')) = true
  · rw [if_pos h3, if_pos h3]
    have hz : d = 'z' := by
      have := (Bool.and_eq_true _ _ ▸ h3).2
      exact of_decide_eq_true this
    subst hz
    refine ⟨[], r, rfl, nobs0, ?_⟩
    have : off + 1 + ('z' : Char).utf8Size + bytes [] = off + 2 := by simp [bytes]; rfl
    rw [this]
  rw [if_neg h3, if_neg h3]
  by_cases h4 : (roblox && decide (d = 'x')) = true
  · rw [if_pos h4, if_pos h4]
    have hx : d = 'x' := of_decide_eq_true (Bool.and_eq_true _ _ ▸ h4).2
    subst hx
    have sx : ('x' : Char).utf8Size = 1 := by decide
    cases r with
    | nil => exact ⟨[], [], rfl, nobs0, by simp [bytes, sx]⟩
    | cons c1 r1 =>
      cases r1 with
      | nil => exact ⟨[], [c1], rfl, nobs0, by simp [bytes, sx]⟩
      | cons c2 r2 =>
        by_cases h5 : (isHex c1 && isHex c2) = true
        · have hh : isHex c1 = true ∧ isHex c2 = true := by simpa using h5
          refine ⟨[c1, c2], r2, rfl, ?_, ?_⟩
          · intro c hc
            simp only [List.mem_cons, List.not_mem_nil, or_false] at hc
            rcases hc with e | e <;> subst e
            · exact isHex_ne_bs _ hh.1
            · exact isHex_ne_bs _ hh.2
          · simp [h5, bytes, sx, isHex_size _ hh.1, isHex_size _ hh.2]
        · exact ⟨[], c1 :: c2 :: r2, rfl, nobs0, by simp [h5, bytes, sx]⟩
  rw [if_neg h4, if_neg h4]
  by_cases h5 : (roblox && decide (d = 'u')) = true
  · rw [if_pos h5, if_pos h5]
    have hu : d = 'u' := of_decide_eq_true (Bool.and_eq_true _ _ ▸ h5).2
    subst hu
    have su : ('u' : Char).utf8Size = 1 := by decide
    cases r with
    | nil => exact ⟨[], [], rfl, nobs0, by simp [bytes, su]⟩
    | cons c1 r1 =>
      by_cases hb : c1 = '{'
      · subst hb
        obtain ⟨hsplit, hhex⟩ := docHexRun_spec r1
        have sb : ('{' : Char).utf8Size = 1 := by decide
        have sc : ('}' : Char).utf8Size = 1 := by decide
        have hbytes := hexRun_bytes _ hhex
        have hno : NoBS ('{' :: (Doc.hexRun r1).1) := by
          intro c hc
          rcases List.mem_cons.mp hc with e | e
          · rw [e]; decide
          · exact hexRun_noBS _ hhex c e
        have hno2 : NoBS ('{' :: ((Doc.hexRun r1).1 ++ ['}'])) := by
          intro c hc
          rcases List.mem_cons.mp hc with e | e
          · rw [e]; decide
          · rcases List.mem_append.mp e with e | e
            · exact hexRun_noBS _ hhex c e
            · simp only [List.mem_singleton] at e; rw [e]; decide
        cases h6 : (Doc.hexRun r1).2 with
        | nil =>
          refine ⟨'{' :: (Doc.hexRun r1).1, [], ?_, hno, ?_⟩
          · rw [List.append_nil]; congr 1
            conv => lhs; rw [hsplit, h6, List.append_nil]
          · have : off + 1 + ('u' : Char).utf8Size + bytes ('{' :: (Doc.hexRun r1).1) = off + 3 + (Doc.hexRun r1).1.length := by
              simp only [bytes] at hbytes
              simp [bytes, su, sb, hbytes]; omega
            rw [this]
            simp only [h6]
        | cons c2 r2 =>
          by_cases hc : c2 = '}'
          · subst hc
            have hsp : '{' :: r1 = '{' :: ((Doc.hexRun r1).1 ++ ['}']) ++ r2 := by
              rw [List.cons_append, List.append_assoc]; congr 1
              conv => lhs; rw [hsplit, h6]
              simp
            have hb2 : off + 1 + ('u' : Char).utf8Size + bytes ('{' :: ((Doc.hexRun r1).1 ++ ['}'])) = off + 4 + (Doc.hexRun r1).1.length := by
              simp only [bytes] at hbytes
              simp [bytes, su, sb, sc, hbytes]; omega
            refine ⟨'{' :: ((Doc.hexRun r1).1 ++ ['}']), r2, hsp, hno2, ?_⟩
            rw [hb2]
            simp only [h6]
            by_cases he : (Doc.hexRun r1).1.isEmpty = true
            · have hnil : (Doc.hexRun r1).1 = [] := by simpa using he
              simp [hnil]
            · simp [he]
          · refine ⟨'{' :: (Doc.hexRun r1).1, c2 :: r2, ?_, hno, ?_⟩
            · rw [List.cons_append]; congr 1; conv => lhs; rw [hsplit, h6]
            · have : off + 1 + ('u' : Char).utf8Size + bytes ('{' :: (Doc.hexRun r1).1) = off + 3 + (Doc.hexRun r1).1.length := by
                simp only [bytes] at hbytes
                simp [bytes, su, sb, hbytes]; omega
              rw [this]
              simp only [h6]
              split
              · rename_i heq; injection heq with e1 _; exact absurd e1 hc
              · split
                · rename_i heq; injection heq with e1 _; exact absurd e1 hc
                · rfl
      · refine ⟨[], c1 :: r1, rfl, nobs0, ?_⟩
        have : off + 1 + ('u' : Char).utf8Size + bytes [] = off + 2 := by simp [bytes, su]
        rw [this]
        simp [hb]
  rw [if_neg h5, if_neg h5]
  exact ⟨[], r, rfl, nobs0, by simp [bytes]⟩

/-- **every escape of the text is an escape for the lexer**, with the class `classOf` gives it -/
theorem lua_mem (roblox : Bool) (fuel : Nat) (cs : List Char) (off : Nat) (hf : cs.length < fuel)
    (o : Nat) (d : Char) (r : List Char) (h : (o, d :: r) ∈ escStarts cs off) :
    (o, classOf roblox d r) ∈ Doc.luaEscapes roblox fuel cs off := by
  induction fuel generalizing cs off with
  | zero => omega
  | succ f ih =>
    cases cs with
    | nil => simp [escStarts] at h
    | cons c cs' =>
      by_cases hb : c = '\\'
      · subst hb
        cases cs' with
        | nil => simp [escStarts] at h
        | cons d0 r0 =>
          rw [escStarts_bs] at h
          obtain ⟨p, rest, hr, hp, hl⟩ := lua_step roblox f d0 r0 off
          rw [hl]
          rcases List.mem_cons.mp h with e | e
          · injection e with e1 e2
            injection e2 with e3 e4
            subst e1 e3 e4
            exact List.mem_cons_self ..
          · rw [hr, escStarts_skip _ _ _ hp] at e
            have hlen : rest.length < f := by
              have : r0.length = p.length + rest.length := by rw [hr]; simp
              simp at hf; omega
            exact List.mem_cons_of_mem _ (ih rest _ hlen e)
      · rw [escStarts_cons_ne _ _ _ hb] at h
        rw [lua_ne _ _ _ _ _ hb]
        exact ih cs' _ (by simp at hf; omega) h

/-! ### what is said about one escape -/

theorem takeHexRun_eq (r : List Char) : takeHexRun r = Doc.hexRun r := by
  induction r with
  | nil => rfl
  | cons c cs ih => unfold takeHexRun Doc.hexRun; rw [ih]

theorem hexNat_eq (l : List Char) (acc : Nat) : hexNat l acc = Doc.hexNum l acc := by
  induction l generalizing acc with
  | nil => rfl
  | cons c cs ih => unfold hexNat Doc.hexNum; exact ih _

/-- the verdict of the specification on a complaint `msg` about an escape of class `cl` -/
def Compat (q : QuoteKind) (cl : Doc.EscClass) (msg : String) : Prop :=
  Doc.complaint q cl = some msg ∨
    (Doc.broken cl = true ∧ Doc.brokenMessages.contains msg = true ∧ cl ≠ .decimalTooHigh ∧ msg ≠ "decimal escape is too high")

theorem compat_invalid (q : QuoteKind) (cl : Doc.EscClass) (h : cl = .invalid ∨ cl = .malformed) :
    Compat q cl msgInvalid := by
  rcases h with h | h <;> subst h
  · exact Or.inl rfl
  · exact Or.inr ⟨rfl, by decide, by decide, by decide⟩

theorem capOf_brace (o : Nat) (r' : List Char) :
    capOf o 'u' ('{' :: r') = ⟨o, ['u', '{'], (takeHexRun r').1, (closing (takeHexRun r').2).1⟩ := rfl

theorem capOf_plain (o : Nat) (d : Char) (r : List Char) (h : ¬ (d = 'u' ∧ ∃ r', r = '{' :: r')) :
    capOf o d r = ⟨o, [d], (takeHexRun r).1, (closing (takeHexRun r).2).1⟩ := by
  unfold capOf
  split
  · exact absurd ⟨rfl, _, rfl⟩ h
  · rfl

theorem closing_true (l : List Char) : (closing l).1 = true ↔ ∃ t, l = '}' :: t := by
  unfold closing
  split
  · rename_i t; simp
  · rename_i hne
    simp only [Bool.false_eq_true, false_iff]
    rintro ⟨t, ht⟩
    exact hne t ht

theorem capDiag_brace (roblox : Bool) (q : QuoteKind) (start : Nat) (g2 : List Char) (g3 : Bool) :
    capDiag roblox q ⟨start, ['u', '{'], g2, g3⟩ =
      (if !roblox then some (start, start + 2, msgInvalid)
       else if !g3 then some (start, start + g2.length + 3, msgMalformed)
       else if g2.isEmpty || hexNat g2 0 > 0x10ffff then some (start, start + g2.length + 4, msgCodepoint)
       else none) := by
  unfold capDiag
  rw [if_pos rfl]

theorem classOf_u (roblox : Bool) (r : List Char) :
    classOf roblox 'u' r =
      if roblox then
        (match r with
          | '{' :: r2 =>
            match (Doc.hexRun r2).2 with
            | '}' :: _ =>
              if (Doc.hexRun r2).1.isEmpty then .malformed
              else if Doc.hexNum (Doc.hexRun r2).1 0 > 0x10ffff then .codepointTooHigh else .ok 'u'
            | _ => .malformed
          | _ => .malformed)
      else .invalid := by
  unfold classOf
  rw [if_neg (by decide), if_neg (by decide)]
  have hz : decide (('u' : Char) = 'z') = false := by decide
  have hx : decide (('u' : Char) = 'x') = false := by decide
  have hu : decide (('u' : Char) = 'u') = true := by decide
  rw [hz, hx, hu]
  cases roblox <;> simp

/-- the escape `\\u{…` -/
theorem compat_brace (roblox : Bool) (q : QuoteKind) (o : Nat) (r' : List Char) (a b : Nat) (msg : String)
    (h : capDiag roblox q (capOf o 'u' ('{' :: r')) = some (a, b, msg)) :
    a = o ∧ a < b ∧ Compat q (classOf roblox 'u' ('{' :: r')) msg := by
  rw [capOf_brace, capDiag_brace] at h
  rw [classOf_u]
  cases roblox with
  | false =>
    simp only [Bool.not_false, if_true, Option.some.injEq, Prod.mk.injEq] at h
    obtain ⟨h1, h2, h3⟩ := h
    subst h1 h2 h3
    exact ⟨rfl, by omega, compat_invalid q _ (Or.inl rfl)⟩
  | true =>
    simp only [Bool.not_true, Bool.false_eq_true, if_false, if_true] at h ⊢
    rw [← takeHexRun_eq]
    by_cases hg3 : (closing (takeHexRun r').2).1 = true
    · obtain ⟨t, ht⟩ := (closing_true _).mp hg3
      simp only [hg3, Bool.not_true, Bool.false_eq_true, if_false] at h
      rw [ht]
      simp only
      by_cases hbad : ((takeHexRun r').1.isEmpty || decide (hexNat (takeHexRun r').1 0 > 0x10ffff)) = true
      · simp only [hbad, if_true, Option.some.injEq, Prod.mk.injEq] at h
        obtain ⟨h1, h2, h3⟩ := h
        subst h1 h2 h3
        refine ⟨rfl, by omega, ?_⟩
        by_cases he : (takeHexRun r').1.isEmpty = true
        · simp only [he, if_true]
          exact Or.inr ⟨rfl, by decide, by decide, by decide⟩
        · have hgt : hexNat (takeHexRun r').1 0 > 0x10ffff := by simpa [he] using hbad
          rw [hexNat_eq] at hgt
          simp only [he, Bool.false_eq_true, if_false, hgt, if_true]
          exact Or.inl rfl
      · simp [hbad] at h
    · simp only [hg3, Bool.not_false, if_true, Option.some.injEq, Prod.mk.injEq] at h
      obtain ⟨h1, h2, h3⟩ := h
      subst h1 h2 h3
      refine ⟨rfl, by omega, ?_⟩
      have hnb : ∀ t, (takeHexRun r').2 ≠ '}' :: t := fun t ht => hg3 ((closing_true _).mpr ⟨t, ht⟩)
      have : (match (takeHexRun r').2 with
          | '}' :: _ =>
            if (takeHexRun r').1.isEmpty then Doc.EscClass.malformed
            else if Doc.hexNum (takeHexRun r').1 0 > 0x10ffff then .codepointTooHigh else .ok 'u'
          | _ => Doc.EscClass.malformed) = .malformed := by
        split
        · rename_i t ht; exact absurd ht (hnb t)
        · rfl
      rw [this]
      exact Or.inl rfl

/-! #### one-character escapes -/

theorem capDiag_plain (roblox : Bool) (q : QuoteKind) (start : Nat) (d : Char) (g2 : List Char) (g3 : Bool) :
    capDiag roblox q ⟨start, [d], g2, g3⟩ =
      (if d = 'a' || d = 'b' || d = 'f' || d = 'n' || d = 'r' || d = 't' || d = 'v' || d = '\\' || d = '\r' then none
       else if isDec d then
         (if (d :: leadingDecimals g2 2).length == 3 && decNat (d :: leadingDecimals g2 2) 0 > 0xff
          then some (start, start + 4, msgDecimal) else none)
       else if d = '"' then (if q = .single then some (start, start + 2, msgDoubleInSingle) else none)
       else if d = '\'' then (if q = .double then some (start, start + 2, msgSingleInDouble) else none)
       else if d = 'z' then (if !roblox then some (start, start + 2, msgInvalid) else none)
       else if d = 'x' then
         (if !roblox then some (start, start + 2, msgInvalid)
          else if g2.length < 2 then some (start, start + g2.length + 2, msgMalformed)
          else none)
       else some (start, start + 1 + d.utf8Size, msgInvalid)) := by
  unfold capDiag
  rw [if_neg (by simp)]

/-- a decimal digit is none of the characters that are escapes of their own -/
theorem dec_not_simple (d : Char) (h : isDec d = true) :
    (decide (d = 'a') || decide (d = 'b') || decide (d = 'f') || decide (d = 'n') || decide (d = 'r') ||
      decide (d = 't') || decide (d = 'v') || decide (d = '\\') || decide (d = '"') || decide (d = '\'') ||
      decide (d = '\n') || decide (d = '\r')) = false := by
  apply Bool.eq_false_iff.mpr
  intro hc
  simp only [Bool.or_eq_true, decide_eq_true_eq] at hc
  rcases hc with ((((((((((( e | e) | e) | e) | e) | e) | e) | e) | e) | e) | e) | e) <;>
    (subst e; revert h; decide)

theorem leadingDecimals_two (r : List Char)
    (h : (leadingDecimals (takeHexRun r).1 2).length = 2) :
    ∃ d2 d3 r3, r = d2 :: d3 :: r3 ∧ isDec d2 = true ∧ isDec d3 = true ∧ leadingDecimals (takeHexRun r).1 2 = [d2, d3] := by
  cases r with
  | nil => simp [takeHexRun, leadingDecimals] at h
  | cons d2 r2 =>
    unfold takeHexRun at h ⊢
    by_cases h2 : isHex d2 = true
    · simp only [h2, if_true] at h ⊢
      unfold leadingDecimals at h ⊢
      by_cases hd2 : isDec d2 = true
      · simp only [hd2, if_true] at h ⊢
        cases r2 with
        | nil => simp [takeHexRun, leadingDecimals] at h
        | cons d3 r3 =>
          unfold takeHexRun at h ⊢
          by_cases h3 : isHex d3 = true
          · simp only [h3, if_true] at h ⊢
            unfold leadingDecimals at h ⊢
            by_cases hd3 : isDec d3 = true
            · simp only [hd3, if_true] at h ⊢
              exact ⟨d2, d3, r3, rfl, hd2, hd3, by simp [leadingDecimals]⟩
            · simp [hd3] at h
          · simp [h3, leadingDecimals] at h
      · simp [hd2] at h
    · simp [h2, leadingDecimals] at h

theorem hexRun_short (r : List Char) (h : (takeHexRun r).1.length < 2) :
    ¬ ∃ h1 h2 r2, r = h1 :: h2 :: r2 ∧ isHex h1 = true ∧ isHex h2 = true := by
  rintro ⟨h1, h2, r2, hr, a, b⟩
  subst hr
  unfold takeHexRun at h
  simp only [a, if_true] at h
  unfold takeHexRun at h
  simp only [b, if_true, List.length_cons] at h
  omega

theorem classOf_dec (roblox : Bool) (d : Char) (r : List Char) (h : isDec d = true) :
    classOf roblox d r =
      (match r with
        | d2 :: d3 :: _ =>
          if isDec d2 && isDec d3 then
            (if decVal d * 100 + decVal d2 * 10 + decVal d3 > 255 then .decimalTooHigh else .ok d)
          else .ok d
        | _ => .ok d) := by
  unfold classOf
  rw [if_neg (by rw [dec_not_simple d h]; simp), if_pos h]

theorem classOf_dquote (roblox : Bool) (r : List Char) : classOf roblox '"' r = .ok '"' := by
  unfold classOf; rw [if_pos (by decide)]
theorem classOf_squote (roblox : Bool) (r : List Char) : classOf roblox '\'' r = .ok '\'' := by
  unfold classOf; rw [if_pos (by decide)]

theorem classOf_z (r : List Char) : classOf false 'z' r = .invalid := by
  unfold classOf; rw [if_neg (by decide), if_neg (by decide)]; simp
theorem classOf_x_false (r : List Char) : classOf false 'x' r = .invalid := by
  unfold classOf; rw [if_neg (by decide), if_neg (by decide)]; simp
theorem classOf_x_true (r : List Char) :
    classOf true 'x' r =
      (match r with
        | h1 :: h2 :: _ => if isHex h1 && isHex h2 then .ok 'x' else .malformed
        | _ => .malformed) := by
  unfold classOf
  rw [if_neg (by decide), if_neg (by decide)]
  have hz : decide (('x' : Char) = 'z') = false := by decide
  have hx : decide (('x' : Char) = 'x') = true := by decide
  rw [hz, hx]
  simp

/-- an escape character that is none of the known ones: the lexer calls it invalid, or — `\\u` without a
    brace in Luau — malformed -/
theorem classOf_other (roblox : Bool) (d : Char) (r : List Char)
    (hs : (decide (d = 'a') || decide (d = 'b') || decide (d = 'f') || decide (d = 'n') || decide (d = 'r') ||
      decide (d = 't') || decide (d = 'v') || decide (d = '\\') || decide (d = '"') || decide (d = '\'') ||
      decide (d = '\n') || decide (d = '\r')) = false)
    (hdec : isDec d = false) (hz : d ≠ 'z') (hx : d ≠ 'x') (hnb : ¬ (d = 'u' ∧ ∃ r', r = '{' :: r')) :
    classOf roblox d r = .invalid ∨ classOf roblox d r = .malformed := by
  unfold classOf
  rw [if_neg (by rw [hs]; simp), if_neg (by rw [hdec]; simp)]
  have h1 : decide (d = 'z') = false := by simpa using hz
  have h2 : decide (d = 'x') = false := by simpa using hx
  rw [h1, h2]
  simp only [Bool.and_false, Bool.false_eq_true, if_false]
  by_cases hu : (roblox && decide (d = 'u')) = true
  · rw [if_pos hu]
    have hdu : d = 'u' := of_decide_eq_true (Bool.and_eq_true _ _ ▸ hu).2
    right
    split
    · rename_i r2; exact absurd ⟨hdu, r2, rfl⟩ hnb
    · rfl
  · rw [if_neg hu]; exact Or.inl rfl

theorem compat_plain (roblox : Bool) (q : QuoteKind) (o : Nat) (d : Char) (r : List Char) (a b : Nat) (msg : String)
    (hd : d ≠ '\n') (hnb : ¬ (d = 'u' ∧ ∃ r', r = '{' :: r'))
    (h : capDiag roblox q (capOf o d r) = some (a, b, msg)) :
    a = o ∧ a < b ∧ Compat q (classOf roblox d r) msg := by
  rw [capOf_plain o d r hnb, capDiag_plain] at h
  by_cases c1 : (d = 'a' || d = 'b' || d = 'f' || d = 'n' || d = 'r' || d = 't' || d = 'v' || d = '\\' || d = '\r') = true
  · rw [if_pos c1] at h; cases h
  rw [if_neg c1] at h
  by_cases c2 : isDec d = true
  · rw [if_pos c2] at h
    by_cases c3 : ((d :: leadingDecimals (takeHexRun r).1 2).length == 3 && decNat (d :: leadingDecimals (takeHexRun r).1 2) 0 > 0xff) = true
    · rw [if_pos c3] at h
      simp only [Option.some.injEq, Prod.mk.injEq] at h
      obtain ⟨h1, h2, h3⟩ := h
      subst h1 h2 h3
      refine ⟨rfl, by omega, Or.inl ?_⟩
      simp only [Bool.and_eq_true, beq_iff_eq, List.length_cons, decide_eq_true_eq] at c3
      obtain ⟨hlen, hgt⟩ := c3
      obtain ⟨d2, d3, r3, hr, hd2, hd3, hl⟩ := leadingDecimals_two r (by omega)
      rw [classOf_dec roblox d r c2, hr]
      simp only [hd2, hd3, Bool.and_self, if_true]
      rw [hl] at hgt
      have : decNat [d, d2, d3] 0 = decVal d * 100 + decVal d2 * 10 + decVal d3 := by
        simp only [decNat]; omega
      rw [this] at hgt
      rw [if_pos hgt]; rfl
    · rw [if_neg c3] at h; cases h
  rw [if_neg c2] at h
  have hdec : isDec d = false := by simpa using c2
  by_cases c4 : d = '"'
  · subst c4
    rw [if_pos rfl] at h
    by_cases cq : q = .single
    · rw [if_pos cq] at h
      simp only [Option.some.injEq, Prod.mk.injEq] at h
      obtain ⟨h1, h2, h3⟩ := h
      subst h1 h2 h3 cq
      exact ⟨rfl, by omega, Or.inl (by rw [classOf_dquote]; rfl)⟩
    · rw [if_neg cq] at h; cases h
  rw [if_neg c4] at h
  by_cases c5 : d = '\''
  · subst c5
    rw [if_pos rfl] at h
    by_cases cq : q = .double
    · rw [if_pos cq] at h
      simp only [Option.some.injEq, Prod.mk.injEq] at h
      obtain ⟨h1, h2, h3⟩ := h
      subst h1 h2 h3 cq
      exact ⟨rfl, by omega, Or.inl (by rw [classOf_squote]; rfl)⟩
    · rw [if_neg cq] at h; cases h
  rw [if_neg c5] at h
  by_cases c6 : d = 'z'
  · subst c6
    rw [if_pos rfl] at h
    cases roblox with
    | true => simp at h
    | false =>
      simp only [Bool.not_false, if_true, Option.some.injEq, Prod.mk.injEq] at h
      obtain ⟨h1, h2, h3⟩ := h
      subst h1 h2 h3
      exact ⟨rfl, by omega, compat_invalid q _ (Or.inl (classOf_z r))⟩
  rw [if_neg c6] at h
  by_cases c7 : d = 'x'
  · subst c7
    rw [if_pos rfl] at h
    cases roblox with
    | false =>
      simp only [Bool.not_false, if_true, Option.some.injEq, Prod.mk.injEq] at h
      obtain ⟨h1, h2, h3⟩ := h
      subst h1 h2 h3
      exact ⟨rfl, by omega, compat_invalid q _ (Or.inl (classOf_x_false r))⟩
    | true =>
      simp only [Bool.not_true, Bool.false_eq_true, if_false] at h
      by_cases c8 : (takeHexRun r).1.length < 2
      · rw [if_pos c8] at h
        simp only [Option.some.injEq, Prod.mk.injEq] at h
        obtain ⟨h1, h2, h3⟩ := h
        subst h1 h2 h3
        refine ⟨rfl, by omega, Or.inl ?_⟩
        have hno := hexRun_short r c8
        rw [classOf_x_true]
        have : (match r with
            | h1 :: h2 :: _ => if isHex h1 && isHex h2 then Doc.EscClass.ok 'x' else .malformed
            | _ => Doc.EscClass.malformed) = .malformed := by
          split
          · rename_i h1 h2 r2
            by_cases hh : (isHex h1 && isHex h2) = true
            · have : isHex h1 = true ∧ isHex h2 = true := by simpa using hh
              exact absurd ⟨h1, h2, r2, rfl, this.1, this.2⟩ hno
            · rw [if_neg hh]
          · rfl
        rw [this]; rfl
      · rw [if_neg c8] at h; cases h
  rw [if_neg c7] at h
  simp only [Option.some.injEq, Prod.mk.injEq] at h
  obtain ⟨h1, h2, h3⟩ := h
  subst h1 h2 h3
  refine ⟨rfl, by have := Char.utf8Size_pos d; omega, compat_invalid q _ ?_⟩
  apply classOf_other roblox d r ?_ hdec c6 c7 hnb
  apply Bool.eq_false_iff.mpr
  intro hc
  apply c1
  simp only [Bool.or_eq_true, decide_eq_true_eq] at hc ⊢
  rcases hc with ((((((((((( e | e) | e) | e) | e) | e) | e) | e) | e) | e) | e) | e)
  all_goals first
    | exact absurd e c4
    | exact absurd e c5
    | exact absurd e hd
    | (subst e; decide)

/-! ### the lint -/

/-- **soundness of `bad_string_escape`, for every program**: every diagnostic sits on a quoted string
literal, its label starts at the backslash of an escape sequence of that literal — as a Lua (Luau) lexer
reads the literal — and that escape earns the complaint: it does not exist, is malformed, is a decimal
escape above 255, a code point above 10FFFF, or escapes a quote that needs no escaping. -/
theorem bad_string_escape_sound (roblox : Bool) (b : Block) (g : Diag) (h : g ∈ BadStringEscape.lint roblox b) :
    ∃ n ∈ nodesB b, Doc.badStringEscape roblox n g = true := by
  obtain ⟨n, hn, hg⟩ := mem_runLint.mp h
  refine ⟨n, hn, ?_⟩
  cases n with
  | expr e =>
    cases e with
    | str t q literal =>
      simp only [hook] at hg
      by_cases hq : q = .brackets
      · simp [hq] at hg
      · simp only [hq, if_false, List.mem_map, List.mem_filterMap] at hg
        obtain ⟨x, ⟨c, hc, hx⟩, hgx⟩ := hg
        obtain ⟨o, d, r, hstart, hdn, hcap⟩ := scan_mem _ _ 0 (Nat.lt_succ_self _) c hc
        subst hcap
        obtain ⟨a, b', msg⟩ := x
        have hcompat : a = o ∧ a < b' ∧ Compat q (classOf roblox d r) msg := by
          by_cases hb : d = 'u' ∧ ∃ r', r = '{' :: r'
          · obtain ⟨hd, r', hr⟩ := hb
            subst hd hr
            exact compat_brace roblox q o r' a b' msg hx
          · exact compat_plain roblox q o d r a b' msg hdn hb hx
        obtain ⟨ha, hlt, hcmp⟩ := hcompat
        have hlua := lua_mem roblox (literal.toList.length + 1) literal.toList 1 (Nat.lt_succ_self _) o d r hstart
        subst hgx
        simp only [Doc.badStringEscape, mkDiag, Bool.and_eq_true, bne_iff_ne, ne_eq, beq_iff_eq, decide_eq_true_eq,
          List.any_eq_true]
        refine ⟨⟨hq, trivial⟩, hlt, (o, classOf roblox d r), hlua, ?_⟩
        simp only [ha, true_and, Bool.or_eq_true, beq_iff_eq, Bool.and_eq_true, bne_iff_ne, ne_eq]
        rcases hcmp with h1 | ⟨h1, h2, h3, h4⟩
        · exact Or.inl h1
        · exact Or.inr ⟨⟨⟨h1, h2⟩, h3⟩, h4⟩
    | _ => simp [hook] at hg
  | _ => simp [hook] at hg

end Selene.Lints.EscapeProof
