/-
`roblox_incorrect_roact_usage.rs`: properties and events passed to `Roact.createElement` / `React.createElement`
(or to a local that was initialised with one of them) that the named Roblox class does not have.

The lint is a `Visitor` with one piece of state — which local *names* stand for `createElement` (a name, not a
variable: the lint knows nothing of scopes) — filled at `local` statements and read at calls, in visit order.  It
collects three lists and reports them one after the other: events, properties, unknown classes.

The lint runs only under a library named `roblox` that has a class table (`enabled`).
-/
import Selene.Lints.TraverseB
import Selene.Std.RobloxClass
namespace Selene.Lints.Roact
open Selene.Lua Selene.LintsB Selene.Std.Roblox

inductive Lib where
  | roact | react
deriving DecidableEq, Repr, Inhabited

def libOfName (n : String) : Option Lib :=
  if n = "Roact" then some .roact else if n = "React" then some .react else none

/-- `is_roact_or_react_create_element`: `Roact.createElement` / `React.createElement`, nothing before or after -/
def isCreateElement (p : Prefix) (ss : List Suffix) : Option Lib :=
  match p, ss with
  | .name t, [.dot _ name] => if name.text = "createElement" then libOfName t.text else none
  | _, _ => none

structure Diag where
  range : Span
  message : String
  notes : List String := []
deriving DecidableEq, Repr, Inhabited

structure St where
  defs : List (String × Lib) := []        -- most recent first (`HashMap::insert` overwrites)
  events : List Diag := []
  properties : List Diag := []
  unknown : List Diag := []
deriving Repr, Inhabited

/-- `is_lua_valid_table_key_identifier` on the text of a string token (quotes included): the second character starts an
identifier and the `len - 2` characters after the first are identifier characters, `len` counted in bytes.  The Rust tests
are Unicode-aware (`is_alphabetic`), these are ASCII: a token with a non-ASCII character has more bytes than characters,
so the Rust loop runs on into the closing quote and fails too. -/
def validKeyIdentifier (s : String) : Bool :=
  let cs := s.toList
  match cs[1]? with
  | none => false
  | some first =>
    (first.isAlpha || first = '_') &&
    ((cs.drop 1).take (s.utf8ByteSize - 2)).all fun c => c.isAlphanum || c = '_'

/-- `get_lua_table_key_format`, on the value with its trivia purged: a string that is an identifier is written bare,
anything else in brackets -/
def keyFormat (toks : List String) (value : Expr) : String :=
  match value with
  | .str t _ _ =>
    let s := toks.getD t.idx ""
    if validKeyIdentifier s then String.ofList ((s.toList.drop 1).take (s.length - 2)) else "[" ++ s ++ "]"
  | e => "[" ++ glue toks e.span ++ "]"

/-- the token that closes the bracket opened at token `i` -/
def closingBracket (toks : List String) (i : Nat) : Nat :=
  let rec go (rest : List String) (j depth : Nat) : Nat :=
    match rest with
    | [] => j
    | t :: more =>
      if t = "[" then go more (j + 1) (depth + 1)
      else if t = "]" then (if depth ≤ 1 then j else go more (j + 1) (depth - 1))
      else go more (j + 1) depth
  go (toks.drop i) i 0

/-- the event named by a key `[Roact.Event.X]` (parentheses around the key are looked through; anything after `X` is not
looked at) -/
def eventKey (k : Expr) : Option String :=
  let rec strip : Expr → Expr
    | .paren _ e => strip e
    | e => e
  match strip k with
  | .var (.expr _ (.name lib) ss) =>
    if lib.text = "Roact" ∨ lib.text = "React" then
      match ss.toList with
      | .dot _ ev :: .dot _ name :: _ => if ev.text = "Event" then some name.text else none
      | _ => none
    else none
  | _ => none

/-- one field of the property table -/
def checkField (toks : List String) (cs : Classes) (lib : Lib) (className : String) (cls : Class) (createExpr : String)
    (σ : St) (f : Field) : St :=
  match f with
  | .nameKey _ key value =>
    let prop := key.text
    if lib = .react ∧ (prop = "ref" ∨ prop = "key" ∨ prop = "children") then σ
    else if !hasProperty cs cls prop || prop = "Name" then
      let d : Diag :=
        if prop = "Name" then
          { range := ⟨key.idx, key.idx⟩, message := "`Name` is assigned through the element's key for Roblox instances",
            notes := ["try: " ++ keyFormat toks value ++ " = " ++ createExpr ++ "(...)"] }
        else { range := ⟨key.idx, key.idx⟩, message := "`" ++ prop ++ "` is not a property of `" ++ className ++ "`" }
      { σ with properties := σ.properties ++ [d] }
    else σ
  | .exprKey sp k _ =>
    match eventKey k with
    | some ev =>
      if !hasEvent cs cls ev then
        { σ with events := σ.events ++ [{ range := ⟨sp.first, closingBracket toks sp.first⟩,
                                           message := "`" ++ ev ++ "` is not a valid event for `" ++ className ++ "`" }] }
      else σ
    | none => σ
  | _ => σ

/-- which library's `createElement` a call goes to, and how the callee is written: `e(…)` for a local that stands for it,
`Roact.createElement(…)` itself; `before` = the suffixes in front of the call suffix -/
def targetOf (defs : List (String × Lib)) (p : Prefix) (before : List Suffix) : Option (Lib × String) :=
  match before, p with
  | [], .name n => (defs.find? (·.1 = n.text)).map fun d => (d.2, n.text)
  | [s], .name n => (isCreateElement p [s]).map fun l => (l, n.text ++ ".createElement")
  | _, _ => none

/-- the arguments of a recognised call: a class name, then (if the class is known) a table of properties -/
def checkArgs (toks : List String) (cs : Classes) (σ : St) (lib : Lib) (createExpr : String) (args : List Expr) : St :=
  match args with
  | .str t _ literal :: rest =>
    match get cs literal with
    | none => { σ with unknown := σ.unknown ++ [{ range := ⟨t.idx, t.idx⟩, message := "`" ++ literal ++ "` is not a valid class" }] }
    | some cls =>
      match rest with
      | .tbl _ fields :: _ => fields.toList.foldl (checkField toks cs lib literal cls createExpr) σ
      | _ => σ
  | _ => σ

/-- `visit_function_call` -/
def visitCall (toks : List String) (cs : Classes) (σ : St) (c : FCall) : St :=
  match c with
  | .mk _ p ss =>
    match targetOf σ.defs p ss.toList.dropLast, ss.toList.getLast? with
    | some (lib, createExpr), some (.args _ (.parens _ args)) => checkArgs toks cs σ lib createExpr args.toList
    | _, _ => σ

/-- `visit_local_assignment`: names initialised with `Roact.createElement` / `React.createElement` -/
def visitLocal (σ : St) (names : List Tok) (es : ExprList) : St :=
  (names.zip es.toList).foldl (fun σ (ne : Tok × Expr) =>
    match ne.2 with
    | .var (.expr _ p ss) =>
      match isCreateElement p ss.toList with
      | some lib => { σ with defs := (ne.1.text, lib) :: σ.defs }
      | none => σ
    | _ => σ) σ

def step (toks : List String) (cs : Classes) (σ : St) : Node → St
  | .stmt (.localAssign _ names es) => visitLocal σ names es
  | .call c => visitCall toks cs σ c
  | _ => σ

/-- `pass`: nothing unless the library is named `roblox` and has classes; the three lists one after the other -/
def run (enabled : Bool) (toks : List String) (cs : Classes) (b : Block) : List Diag :=
  if !enabled || cs.isEmpty then []
  else
    let σ := (nBlock b).foldl (step toks cs) {}
    σ.events ++ σ.properties ++ σ.unknown

/-! ### what a report means -/

/-- a field adds at most one report, about that field -/
theorem checkField_events (toks : List String) (cs : Classes) (lib : Lib) (cn : String) (cls : Class) (ce : String) (σ : St) (f : Field)
    (d : Diag) (h : d ∈ (checkField toks cs lib cn cls ce σ f).events) :
    d ∈ σ.events ∨ ∃ sp k v ev, f = .exprKey sp k v ∧ eventKey k = some ev ∧ hasEvent cs cls ev = false ∧ d.range.first = sp.first := by
  cases f with
  | nameKey sp key value =>
    simp only [checkField] at h
    split at h
    · exact Or.inl h
    · split at h
      · exact Or.inl h
      · exact Or.inl h
  | exprKey sp k v =>
    simp only [checkField] at h
    split at h
    · rename_i ev hev
      split at h
      · rename_i hne
        rcases List.mem_append.mp h with h | h
        · exact Or.inl h
        · simp only [List.mem_singleton] at h
          exact Or.inr ⟨sp, k, v, ev, rfl, hev, by simpa using hne, by rw [h]⟩
      · exact Or.inl h
    · exact Or.inl h
  | noKey v => exact Or.inl h
  | unsupported sp => exact Or.inl h

/-- **An event report names an event the class does not have**: it comes from a field `[Roact.Event.X] = …` (or `React`)
of a table passed to a recognised `createElement` call whose class — a class of the library's table — has no event `X`
anywhere along its superclass chain. -/
theorem fold_events (toks : List String) (cs : Classes) (lib : Lib) (cn : String) (cls : Class) (ce : String) :
    ∀ (fs : List Field) (σ : St) (d : Diag), d ∈ (fs.foldl (checkField toks cs lib cn cls ce) σ).events →
      d ∈ σ.events ∨ ∃ f ∈ fs, ∃ sp k v ev, f = .exprKey sp k v ∧ eventKey k = some ev ∧ hasEvent cs cls ev = false ∧ d.range.first = sp.first
  | [], σ, d, h => Or.inl h
  | f :: rest, σ, d, h => by
    simp only [List.foldl_cons] at h
    rcases fold_events toks cs lib cn cls ce rest _ d h with h | ⟨f', hf', w⟩
    · rcases checkField_events toks cs lib cn cls ce σ f d h with h | w
      · exact Or.inl h
      · exact Or.inr ⟨f, by simp, w⟩
    · exact Or.inr ⟨f', by simp [hf'], w⟩

end Selene.Lints.Roact
