/-
`mismatched_arg_count` (selene-lib/src/lints/mismatched_arg_count.rs).
Two passes over the tree: `MapFunctionDefinitionVisitor` builds `definitions : variable ↦ ParameterCount`
(joining several definitions of one variable with `overlap_with_other_parameter_count`), then
`MismatchedArgCountVisitor` checks every `name(args…)` call whose name resolves to a variable with an entry.
Both read the scope tables (`Selene.Scope.St`, the model of `ScopeManager`).
-/
import Selene.Lints.TraverseB
import Selene.Scope.Model
namespace Selene.LintsB.MismatchedArgCount
open Selene.Lua Selene.LintsB Selene.Scope

/-- `ParameterCount` -/
inductive PCount where
  | fixed (n : Nat)
  | minimum (n : Nat)
  | variable
deriving DecidableEq, Repr, Inhabited

/-- `PassedArgumentCount` -/
inductive Passed where
  | fixed (n : Nat)
  | variable (n : Nat)
deriving DecidableEq, Repr, Inhabited

/-- the loop of `from_function_body`; second argument = `necessary_params` -/
def fromParams : List Param → Nat → PCount
  | [], n => .fixed n
  | .name _ :: rest, n => fromParams rest (n + 1)
  | .dots _ :: _, n => if n = 0 then .variable else .minimum n

def ofBody : FuncBody → PCount
  | .mk _ ps _ => fromParams ps 0

/-- `correct_num_args_provided` -/
def accepts : PCount → Passed → Bool
  | .fixed r, .fixed p => decide (p ≤ r)
  | .fixed r, .variable p => decide (p ≤ r)
  | .minimum _, _ => true
  | .variable, _ => true

/-- `overlap_with_other_parameter_count` -/
def overlap : PCount → PCount → PCount
  | .variable, _ => .variable
  | _, .variable => .variable
  | .fixed f, .minimum m => .minimum (min m f)
  | .minimum m, .fixed f => .minimum (min m f)
  | .fixed a, .fixed b => if a = b then .fixed a else .fixed (max a b)
  | .minimum a, .minimum b => .minimum (min a b)

def isCallOrDots : Expr → Bool
  | .call _ => true
  | .dots _ => true
  | _ => false

/-- the loop of `from_function_args` over `arguments.pairs()` -/
def countArgs : List Expr → Nat → Passed
  | [], n => .fixed n
  | [e], n => if isCallOrDots e then .variable (n + 1) else .fixed (n + 1)
  | _ :: rest, n => countArgs rest (n + 1)

/-- `PassedArgumentCount::from_function_args` -/
def passedOf : Args → Passed
  | .parens _ es => countArgs es.toList 0
  | .str _ _ _ => .fixed 1
  | .tbl _ _ => .fixed 1

/-! ### first pass: the definition map -/

/-- one update of the map: `insert` (local function / `local f = function`) or `verify_assignment` (join) -/
structure Ev where
  var : Nat
  count : PCount
  insert : Bool
deriving DecidableEq, Repr

/-- `find_variable`: first variable (arena order) whose identifier is this token -/
def findVariable (σ : St) (tok : Nat) : Option Nat := σ.vars.toList.findIdx? (fun v => v.ident = tok)

/-- `find_reference`: first reference whose identifier range is exactly this node's range; reference identifiers
    are single tokens, so the node must be one token -/
def findReference (σ : St) (sp : Span) : Option Ref := σ.refs.toList.find? (fun r => r.ident = sp.first && r.ident = sp.last)

/-- `names.zip(expressions)` restricted to `Expression::Function` -/
def zipFuncs {α : Type} : List α → List Expr → List (α × FuncBody)
  | a :: as, (.func _ _ body) :: es => (a, body) :: zipFuncs as es
  | _ :: as, _ :: es => zipFuncs as es
  | _, _ => []

def eventsAt (σ : St) : Node → List Ev
  | .stmt (.localFunc _ name body) =>
    match findVariable σ name.idx with
    | some id => [{ var := id, count := ofBody body, insert := true }]
    | none => []
  | .stmt (.func _ fname body) =>
    match (findReference σ fname.span).bind (·.resolved) with
    | some v => [{ var := v, count := ofBody body, insert := false }]
    | none => []
  | .stmt (.localAssign _ names es) =>
    (zipFuncs names es.toList).filterMap fun (t, body) =>
      (findVariable σ t.idx).map fun id => { var := id, count := ofBody body, insert := true }
  | .stmt (.assign _ vars es) =>
    (zipFuncs vars.toList es.toList).filterMap fun (v, body) =>
      ((findReference σ v.span).bind (·.resolved)).map fun id => { var := id, count := ofBody body, insert := false }
  | _ => []

abbrev Defs := Nat → Option PCount

def Defs.set (m : Defs) (v : Nat) (c : PCount) : Defs := fun x => if x = v then some c else m x

/-- `insert`, or `entry().and_modify(|older| *older = new.overlap(*older)).or_insert(new)` -/
def applyEv (m : Defs) (ev : Ev) : Defs :=
  if ev.insert then m.set ev.var ev.count
  else match m ev.var with
    | some older => m.set ev.var (overlap ev.count older)
    | none => m.set ev.var ev.count

def build (evs : List Ev) : Defs := evs.foldl applyEv (fun _ => none)

def events (σ : St) (ns : List Node) : List Ev := ns.flatMap (eventsAt σ)

/-! ### second pass -/

def plural (n : Nat) : String := if n = 1 then "argument" else "arguments"

def Passed.show : Passed → String
  | .fixed n => s!"{n} arguments"
  | .variable n => s!"at least {n} arguments"

/-- `to_message` (only the `Fixed` arm can be reached: the others accept every call) -/
def toMessage : PCount → Passed → String
  | .fixed r, p => s!"this function takes {r} {plural r} but {p.show} were supplied"
  | .minimum r, p => s!"this function takes at least {r} {plural r} but {p.show} were supplied"
  | .variable, _ => "a variable amount of arguments"

/-- the scope model keeps only the identifier of a loop variable; the definition range `visit_numeric_for` records
    runs from the variable to the start of the comma after the first bound -/
def numForDefSpan (ns : List Node) (ident : Nat) : Option Span :=
  ns.findSome? fun n => match n with
    | .stmt (.numFor _ v comma _ _ _ _) => if v.idx = ident then some ⟨v.idx, comma.idx - 1⟩ else none
    | _ => none

/-- `get_function_definiton_ranges` -/
def definitionRanges (σ : St) (ns : List Node) (v : Nat) : List Span :=
  match σ.vars[v]? with
  | none => []
  | some var =>
    ((numForDefSpan ns var.ident).getD var.defSpan) :: var.references.filterMap fun id =>
      (σ.refs[id]?).bind fun r => if r.write.isSome then some ⟨r.ident, r.ident⟩ else none

/-- the `if_chain!` of `visit_function_call` up to the definition lookup: (variable, its count, the arguments) -/
def callee (σ : St) (defs : Defs) : FCall → Option (Nat × PCount × Args)
  | .mk _ (.name t) (.cons (.args _ a) _) =>
    match (σ.refs.toList.find? (fun r => r.ident = t.idx)).bind (·.resolved) with
    | some v => (defs v).map fun pc => (v, pc, a)
    | none => none
  | _ => none

def checkCall (σ : St) (ns : List Node) (defs : Defs) : Node → List Diag
  | .call c =>
    match callee σ defs c with
    | some (v, pc, a) =>
      if accepts pc (passedOf a) then []
      else [{ code := "mismatched_arg_count", primary := c.span, msg := toMessage pc (passedOf a),
              secondary := definitionRanges σ ns v }]
    | none => []
  | _ => []

def runWith (σ : St) (b : Block) : List Diag :=
  let ns := nBlock b
  ns.flatMap (checkCall σ ns (build (events σ ns)))

def run (b : Block) : List Diag := runWith (analyse b) b

/-- the parameter counts the first pass recorded for variable `v` since its last (re-)declaration
    (`insert` events belong to `local function` / `local f = function`, which create the variable) -/
def recorded (v : Nat) (evs : List Ev) : List PCount :=
  evs.foldl (fun acc ev => if ev.var = v then (if ev.insert then [ev.count] else acc ++ [ev.count]) else acc) []

end Selene.LintsB.MismatchedArgCount
