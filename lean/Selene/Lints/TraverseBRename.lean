/-
The statement-level traversal commutes with a renaming of identifiers: the nodes of the renamed tree are the renamed nodes
of the tree, in the same order.
-/
import Selene.Lints.TraverseB
import Selene.Lua.Rename
namespace Selene.LintsB
open Selene.Lua

def Node.ren (ρ : String → String) : Node → Node
  | .block b => .block (b.ren ρ)
  | .stmt s => .stmt (s.ren ρ)
  | .last l => .last (l.ren ρ)
  | .call c => .call (c.ren ρ)

mutual
theorem nExpr_ren (ρ : String → String) : (e : Expr) → nExpr (e.ren ρ) = (nExpr e).map (Node.ren ρ)
  | .func _ _ body => by simp only [Expr.ren, nExpr]; exact nBody_ren ρ body
  | .paren _ e => by simp only [Expr.ren, nExpr]; exact nExpr_ren ρ e
  | .un _ _ e => by simp only [Expr.ren, nExpr]; exact nExpr_ren ρ e
  | .bin _ l _ r => by simp only [Expr.ren, nExpr, List.map_append, nExpr_ren ρ l, nExpr_ren ρ r]
  | .tbl _ fs => by simp only [Expr.ren, nExpr]; exact nFields_ren ρ fs
  | .var v => by simp only [Expr.ren, nExpr]; exact nVar_ren ρ v
  | .call c => by simp only [Expr.ren, nExpr]; exact nFCall_ren ρ c
  | .nil _ => by simp [Expr.ren, nExpr]
  | .true_ _ => by simp [Expr.ren, nExpr]
  | .false_ _ => by simp [Expr.ren, nExpr]
  | .dots _ => by simp [Expr.ren, nExpr]
  | .num _ => by simp [Expr.ren, nExpr]
  | .str _ _ _ => by simp [Expr.ren, nExpr]
  | .unsupported _ => by simp [Expr.ren, nExpr]
theorem nExprs_ren (ρ : String → String) : (es : ExprList) → nExprs (es.ren ρ) = (nExprs es).map (Node.ren ρ)
  | .nil => by simp [ExprList.ren, nExprs]
  | .cons e rest => by simp only [ExprList.ren, nExprs, List.map_append, nExpr_ren ρ e, nExprs_ren ρ rest]
theorem nVar_ren (ρ : String → String) : (v : Var) → nVar (v.ren ρ) = (nVar v).map (Node.ren ρ)
  | .name _ => by simp [Var.ren, nVar]
  | .expr _ p ss => by simp only [Var.ren, nVar, List.map_append, nPrefix_ren ρ p, nSuffixes_ren ρ ss]
theorem nVars_ren (ρ : String → String) : (vs : VarList) → nVars (vs.ren ρ) = (nVars vs).map (Node.ren ρ)
  | .nil => by simp [VarList.ren, nVars]
  | .cons v rest => by simp only [VarList.ren, nVars, List.map_append, nVar_ren ρ v, nVars_ren ρ rest]
theorem nPrefix_ren (ρ : String → String) : (p : Prefix) → nPrefix (p.ren ρ) = (nPrefix p).map (Node.ren ρ)
  | .name _ => by simp [Prefix.ren, nPrefix]
  | .expr e => by simp only [Prefix.ren, nPrefix]; exact nExpr_ren ρ e
theorem nSuffix_ren (ρ : String → String) : (s : Suffix) → nSuffix (s.ren ρ) = (nSuffix s).map (Node.ren ρ)
  | .dot _ _ => by simp [Suffix.ren, nSuffix]
  | .idx _ e => by simp only [Suffix.ren, nSuffix]; exact nExpr_ren ρ e
  | .args _ a => by simp only [Suffix.ren, nSuffix]; exact nArgs_ren ρ a
  | .meth _ _ a => by simp only [Suffix.ren, nSuffix]; exact nArgs_ren ρ a
  | .unsupported _ => by simp [Suffix.ren, nSuffix]
theorem nSuffixes_ren (ρ : String → String) : (ss : SuffixList) → nSuffixes (ss.ren ρ) = (nSuffixes ss).map (Node.ren ρ)
  | .nil => by simp [SuffixList.ren, nSuffixes]
  | .cons s rest => by simp only [SuffixList.ren, nSuffixes, List.map_append, nSuffix_ren ρ s, nSuffixes_ren ρ rest]
theorem nArgs_ren (ρ : String → String) : (a : Args) → nArgs (a.ren ρ) = (nArgs a).map (Node.ren ρ)
  | .parens _ es => by simp only [Args.ren, nArgs]; exact nExprs_ren ρ es
  | .str _ _ _ => by simp [Args.ren, nArgs]
  | .tbl _ fs => by simp only [Args.ren, nArgs]; exact nFields_ren ρ fs
theorem nFCall_ren (ρ : String → String) : (c : FCall) → nFCall (c.ren ρ) = (nFCall c).map (Node.ren ρ)
  | .mk sp p ss => by
    simp only [FCall.ren, nFCall, List.map_cons, List.map_append, nPrefix_ren ρ p, nSuffixes_ren ρ ss, Node.ren]
theorem nField_ren (ρ : String → String) : (f : Field) → nField (f.ren ρ) = (nField f).map (Node.ren ρ)
  | .exprKey _ k v => by simp only [Field.ren, nField, List.map_append, nExpr_ren ρ k, nExpr_ren ρ v]
  | .nameKey _ _ v => by simp only [Field.ren, nField]; exact nExpr_ren ρ v
  | .noKey v => by simp only [Field.ren, nField]; exact nExpr_ren ρ v
  | .unsupported _ => by simp [Field.ren, nField]
theorem nFields_ren (ρ : String → String) : (fs : FieldList) → nFields (fs.ren ρ) = (nFields fs).map (Node.ren ρ)
  | .nil => by simp [FieldList.ren, nFields]
  | .cons f rest => by simp only [FieldList.ren, nFields, List.map_append, nField_ren ρ f, nFields_ren ρ rest]
theorem nBody_ren (ρ : String → String) : (b : FuncBody) → nBody (b.ren ρ) = (nBody b).map (Node.ren ρ)
  | .mk _ _ b => by simp only [FuncBody.ren, nBody]; exact nBlock_ren ρ b
theorem nStmt_ren (ρ : String → String) : (s : Stmt) → nStmt (s.ren ρ) = (nStmt s).map (Node.ren ρ)
  | .assign _ vs es => by simp only [Stmt.ren, nStmt, List.map_append, nVars_ren ρ vs, nExprs_ren ρ es]
  | .localAssign _ _ es => by simp only [Stmt.ren, nStmt]; exact nExprs_ren ρ es
  | .call c => by simp only [Stmt.ren, nStmt]; exact nFCall_ren ρ c
  | .do_ _ b => by simp only [Stmt.ren, nStmt]; exact nBlock_ren ρ b
  | .while_ _ c b => by simp only [Stmt.ren, nStmt, List.map_append, nExpr_ren ρ c, nBlock_ren ρ b]
  | .repeat_ _ b c => by simp only [Stmt.ren, nStmt, List.map_append, nExpr_ren ρ c, nBlock_ren ρ b]
  | .if_ _ c b elifs els => by
    simp only [Stmt.ren, nStmt, List.map_append, nExpr_ren ρ c, nBlock_ren ρ b, nElseIfs_ren ρ elifs, nOptBlock_ren ρ els]
  | .numFor _ _ _ a e st b => by
    simp only [Stmt.ren, nStmt, List.map_append, nExpr_ren ρ a, nExpr_ren ρ e, nOptExpr_ren ρ st, nBlock_ren ρ b]
  | .genFor _ _ es b => by simp only [Stmt.ren, nStmt, List.map_append, nExprs_ren ρ es, nBlock_ren ρ b]
  | .func _ _ body => by simp only [Stmt.ren, nStmt]; exact nBody_ren ρ body
  | .localFunc _ _ body => by simp only [Stmt.ren, nStmt]; exact nBody_ren ρ body
  | .unsupported _ => by simp [Stmt.ren, nStmt]
theorem nStmts_ren (ρ : String → String) : (ss : StmtList) → nStmts (ss.ren ρ) = (nStmts ss).map (Node.ren ρ)
  | .nil => by simp [StmtList.ren, nStmts]
  | .cons s rest => by
    simp only [StmtList.ren, nStmts, List.map_cons, List.map_append, nStmt_ren ρ s, nStmts_ren ρ rest, Node.ren]
theorem nElseIf_ren (ρ : String → String) : (e : ElseIf) → nElseIf (e.ren ρ) = (nElseIf e).map (Node.ren ρ)
  | .mk _ c b => by simp only [ElseIf.ren, nElseIf, List.map_append, nExpr_ren ρ c, nBlock_ren ρ b]
theorem nElseIfs_ren (ρ : String → String) : (es : ElseIfList) → nElseIfs (es.ren ρ) = (nElseIfs es).map (Node.ren ρ)
  | .nil => by simp [ElseIfList.ren, nElseIfs]
  | .cons e rest => by simp only [ElseIfList.ren, nElseIfs, List.map_append, nElseIf_ren ρ e, nElseIfs_ren ρ rest]
theorem nOptBlock_ren (ρ : String → String) : (o : OptBlock) → nOptBlock (o.ren ρ) = (nOptBlock o).map (Node.ren ρ)
  | .none => by simp [OptBlock.ren, nOptBlock]
  | .some b => by simp only [OptBlock.ren, nOptBlock]; exact nBlock_ren ρ b
theorem nOptExpr_ren (ρ : String → String) : (o : OptExpr) → nOptExpr (o.ren ρ) = (nOptExpr o).map (Node.ren ρ)
  | .none => by simp [OptExpr.ren, nOptExpr]
  | .some e => by simp only [OptExpr.ren, nOptExpr]; exact nExpr_ren ρ e
theorem nLast_ren (ρ : String → String) : (l : LastStmt) → nLast (l.ren ρ) = (nLast l).map (Node.ren ρ)
  | .none => by simp [LastStmt.ren, nLast]
  | .ret sp es => by simp only [LastStmt.ren, nLast, List.map_cons, nExprs_ren ρ es, Node.ren]
  | .brk t => by simp [LastStmt.ren, nLast, Node.ren]
theorem nBlock_ren (ρ : String → String) : (b : Block) → nBlock (b.ren ρ) = (nBlock b).map (Node.ren ρ)
  | .mk sp ss l => by
    simp only [Block.ren, nBlock, List.map_cons, List.map_append, nStmts_ren ρ ss, nLast_ren ρ l, Node.ren]
end

end Selene.LintsB
