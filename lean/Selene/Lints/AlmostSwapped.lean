/-
`almost_swapped` (selene-lib/src/lints/almost_swapped.rs).  Hook: `visit_block`, a scan over the block's
statements with one slot of state (`last_swap`).  The texts compared are `purge_trivia(node).to_string()`,
i.e. the node's token texts glued together without separators (`glue`).
-/
import Selene.Lints.SideEffects
namespace Selene.LintsB.AlmostSwapped
open Selene.Lua Selene.LintsB Selene.LintsB.SideEffects

structure Swap where
  names : String × String
  start : Nat
deriving DecidableEq, Repr

/-- a statement the loop body treats as a swap half: a single-target single-value assignment whose target
    "has no side effects"; yields (target, value) -/
def candidate : Stmt → Option (Var × Expr)
  | .assign _ (.cons v .nil) (.cons e .nil) => if varSE v then none else some (v, e)
  | _ => none

def msg (n : String × String) : String := "this looks like you are trying to swap `" ++ n.1 ++ "` and `" ++ n.2 ++ "`"

/-- the `for stmt in block.stmts()` loop; first argument = `last_swap` -/
def scan (toks : List String) : Option Swap → List Stmt → List Diag
  | _, [] => []
  | st, s :: rest =>
    match candidate s with
    | some (v, e) =>
      let exprText := glue toks e.span
      let varText := glue toks v.span
      match st with
      | some ls =>
        -- `last_swap.take()`: the slot is empty afterwards whether or not the texts matched
        (if ls.names.1 == exprText && ls.names.2 == varText then
          [{ code := "almost_swapped", primary := ⟨ls.start, e.span.last⟩, msg := msg ls.names }] else [])
          ++ scan toks none rest
      | none => scan toks (some { names := (varText, exprText), start := (stmtSpan s).first }) rest
    | none => scan toks none rest

def collect (toks : List String) : Node → List Diag
  | .block b => scan toks none (blockStmts b).toList
  | _ => []

def run (toks : List String) (b : Block) : List Diag := (nBlock b).flatMap (collect toks)

/-! ### documented condition: a `foo = bar; bar = foo` sequence -/
namespace Doc
/-- two adjacent statements `v₁ = e₁` `v₂ = e₂` where `e₂` is written exactly like `v₁` and `v₂` exactly like `e₁`
    (same token sequences) -/
def swapPair (toks : List String) (s1 s2 : Stmt) : Prop :=
  ∃ v1 e1 v2 e2 sp1 sp2, s1 = .assign sp1 (.cons v1 .nil) (.cons e1 .nil) ∧ s2 = .assign sp2 (.cons v2 .nil) (.cons e2 .nil) ∧
    nodeToks toks e2.span = nodeToks toks v1.span ∧ nodeToks toks v2.span = nodeToks toks e1.span
end Doc

end Selene.LintsB.AlmostSwapped
