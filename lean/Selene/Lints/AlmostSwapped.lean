/-
`almost_swapped` (selene-lib/src/lints/almost_swapped.rs).  Hook: `visit_block`, a scan over the block's
statements with one slot of state (`last_swap`).  Two assignments are compared by the token texts of their
variable and value (`token_texts`, here `nodeToks`); the names shown in the message are
`purge_trivia(node).to_string()`, the token texts glued together without separators (`glue`).
-/
import Selene.Lints.SideEffects
namespace Selene.LintsB.AlmostSwapped
open Selene.Lua Selene.LintsB Selene.LintsB.SideEffects

structure Swap where
  names : String × String
  start : Nat
  varToks : List String
  exprToks : List String
deriving DecidableEq, Repr

/-- a statement the loop body treats as a swap half: a single-target single-value assignment whose target
    "has no side effects"; yields (target, value) -/
def candidate : Stmt → Option (Var × Expr)
  | .assign _ (.cons v .nil) (.cons e .nil) => if varSE v then none else some (v, e)
  | _ => none

def msg (n : String × String) : String := "this looks like you are trying to swap `" ++ n.1 ++ "` and `" ++ n.2 ++ "`"

/-- the remembered form of a candidate statement -/
def remember (toks : List String) (s : Stmt) (v : Var) (e : Expr) : Swap :=
  { names := (glue toks v.span, glue toks e.span), start := (stmtSpan s).first,
    varToks := nodeToks toks v.span, exprToks := nodeToks toks e.span }

/-- the guard of the first `match last_swap.take()` arm -/
def completes (toks : List String) (ls : Swap) (v : Var) (e : Expr) : Bool :=
  ls.varToks == nodeToks toks e.span && ls.exprToks == nodeToks toks v.span

/-- the `for stmt in block.stmts()` loop; first argument = `last_swap` -/
def scan (toks : List String) : Option Swap → List Stmt → List Diag
  | _, [] => []
  | st, s :: rest =>
    match candidate s with
    | some (v, e) =>
      match st with
      | some ls =>
        if completes toks ls v e then
          -- `last_swap.take()` left the slot empty
          { code := "almost_swapped", primary := ⟨ls.start, e.span.last⟩, msg := msg ls.names } :: scan toks none rest
        else
          -- not the second half of a swap, but possibly the first half of the next one
          scan toks (some (remember toks s v e)) rest
      | none => scan toks (some (remember toks s v e)) rest
    | none => scan toks none rest

def collect (toks : List String) : Node → List Diag
  | .block b => scan toks none (blockStmts b).toList
  | _ => []

def run (toks : List String) (b : Block) : List Diag := (nBlock b).flatMap (collect toks)

/-! ### documented condition: a `foo = bar; bar = foo` sequence -/
namespace Doc
/-- two adjacent statements `v₁ = e₁` `v₂ = e₂` where `e₂` is written exactly like `v₁` and `v₂` exactly like `e₁`
    (same token sequences) -/
def swapPair (toks : List String) (s1 s2 : Stmt) : Prop :=
  ∃ v1 e1 v2 e2 sp1 sp2, s1 = .assign sp1 (.cons v1 .nil) (.cons e1 .nil) ∧ s2 = .assign sp2 (.cons v2 .nil) (.cons e2 .nil) ∧
    nodeToks toks e2.span = nodeToks toks v1.span ∧ nodeToks toks v2.span = nodeToks toks e1.span
end Doc

end Selene.LintsB.AlmostSwapped
