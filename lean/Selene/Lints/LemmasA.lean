/- Node-level lemmas behind the C04A property theorems: for each lint, `hook` (the transcription of
the Rust) against `Doc` / `Canon` (the specification). -/
import Selene.Lints.DocA
import Selene.Lints.DivideByZero
import Selene.Lints.CompareNan
import Selene.Lints.SuspiciousReverseLoop
import Selene.Lints.DuplicateKeys
import Selene.Lints.MixedTable
import Selene.Lints.ConstantTableComparison
import Selene.Lints.TypeCheckInsideCall
import Selene.Lints.BadStringEscape
import Selene.Lints.ParentheseConditions
namespace Selene.Lints
open Selene.Lua

/-- soundness of a hook lifts to programs -/
theorem sound_lift {hook : Node → List Diag} {doc : Node → Diag → Bool} {ok : Node → Bool}
    (hnode : ∀ n g, g ∈ hook n → ok n = true → doc n g = true)
    {b : Block} {g : Diag} (h : g ∈ runLint hook b) (hok : (nodesB b).all ok = true) :
    ∃ n ∈ nodesB b, doc n g = true := by
  obtain ⟨n, hn, hg⟩ := mem_runLint.mp h
  exact ⟨n, hn, hnode n g hg (List.all_eq_true.mp hok n hn)⟩

/-- a hook that reports a pattern reports it in every context -/
theorem canon_lift {hook : Node → List Diag} {canon : Node → List Expect}
    (hnode : ∀ n x, x ∈ canon n → ∃ g ∈ hook n, x.matches g = true)
    {n : Node} {x : Expect} (hx : x ∈ canon n) {s : Stmt} (hn : n ∈ nodesS s) (ctx : BCtx) :
    ∃ g ∈ runLint hook (ctx.plug s), x.matches g = true := by
  obtain ⟨g, hg, hm⟩ := hnode n x hx
  exact ⟨g, runLint_plug hook ctx s g ⟨n, hn, hg⟩, hm⟩

theorem matches_self (sp : Span) (g : Diag) (h : g.primary = sp) : ({ primary := sp } : Expect).matches g = true := by
  simp [Expect.matches, h]

/-! ### numerals: the Rust predicates against the values -/

theorem decimalValue_hexPrefix (x : Char) (hx : x = 'x' ∨ x = 'X') (r : List Char) : decimalValue ('0' :: x :: r) = none := by
  rcases hx with rfl | rfl <;> simp [decimalValue, readDigits, isDec, decVal] <;> decide

theorem hexVal_eq_zero (c : Char) (hc : isHex c = true) (h : hexVal c = 0) : c = '0' := by
  have key : c.toNat = 48 → c = '0' := by
    intro h48
    have := Char.ofNat_toNat c
    rw [h48] at this
    exact this.symm
  simp only [isHex, isDec, hexVal, Bool.or_eq_true, Bool.and_eq_true, decide_eq_true_eq] at hc h
  simp only [Char.le_def, UInt32.le_iff_toNat_le] at hc h
  have e0 : ('0' : Char).val.toNat = 48 := by decide
  have e9 : ('9' : Char).val.toNat = 57 := by decide
  have ea : ('a' : Char).val.toNat = 97 := by decide
  have ef : ('f' : Char).val.toNat = 102 := by decide
  have eA : ('A' : Char).val.toNat = 65 := by decide
  have eF : ('F' : Char).val.toNat = 70 := by decide
  rw [e0, e9, ea, ef] at h
  rw [e0, e9, ea, ef, eA, eF] at hc
  have hn : c.toNat = c.val.toNat := rfl
  apply key
  split at h
  · omega
  · split at h <;> omega

/-- the by-value reading of a numeral's text: it denotes zero -/
def zeroText (text : String) : Bool :=
  match numValue text with
  | some v => v.denotesZero
  | none => false

theorem readHex_zeros : (r : List Char) → (n : Nat) → r.all (· == '0') = true →
    readHexDigits r 0 n = (0, n + r.length, [])
  | [], n, _ => by simp [readHexDigits]
  | c :: cs, n, h => by
    simp only [List.all_cons, Bool.and_eq_true, beq_iff_eq] at h
    obtain ⟨rfl, h2⟩ := h
    have h1 : isHex '0' = true := by decide
    have hv : hexVal '0' = 0 := by decide
    simp [readHexDigits, h1, hv, readHex_zeros cs (n + 1) h2]
    omega

theorem readHex_zero_inv : (r : List Char) → (acc n : Nat) → (readHexDigits r acc n).2.2 = [] →
    (readHexDigits r acc n).1 = 0 → acc = 0 ∧ r.all (· == '0') = true
  | [], acc, n, _, hv => by simpa [readHexDigits] using hv
  | c :: cs, acc, n, hr, hv => by
    simp only [readHexDigits] at hr hv
    cases hc : isHex c with
    | false => simp [hc] at hr
    | true =>
      simp only [hc, if_true] at hr hv
      obtain ⟨hacc, hall⟩ := readHex_zero_inv cs _ _ hr hv
      have h0 : hexVal c = 0 := by omega
      have := hexVal_eq_zero c hc h0
      subst this
      exact ⟨by omega, by simp [hall]⟩

theorem readHex_count : (r : List Char) → (acc n : Nat) → n ≤ (readHexDigits r acc n).2.1
  | [], _, _ => by simp [readHexDigits]
  | c :: cs, acc, n => by
    simp only [readHexDigits]
    split
    · exact Nat.le_trans (Nat.le_succ n) (readHex_count cs _ _)
    · simp

theorem denotesZero_int (v : Nat) : (⟨v, 1⟩ : NumVal).denotesZero = decide (v = 0) := by
  simp only [NumVal.denotesZero]
  cases v with
  | zero => simp
  | succ k =>
    have : 2 ≤ 2 ^ 1075 := Nat.le_self_pow (by omega) 2
    have h2 : ¬ ((k + 1) * 2 ^ 1075 ≤ 1) := by
      intro h
      have : 2 ^ 1075 ≤ (k + 1) * 2 ^ 1075 := Nat.le_mul_of_pos_left _ (by omega)
      omega
    simp [h2]

theorem hexValue_zero (hex : List Char) (x : Char) (hx : x = 'x' ∨ x = 'X') :
    (match hexValue ('0' :: x :: hex) with | some v => v.denotesZero | none => false) = (!hex.isEmpty && hex.all (· == '0')) := by
  have hxb : (x = 'x' || x = 'X') = true := by rcases hx with rfl | rfl <;> decide
  simp only [hexValue, hxb, if_true]
  cases hex with
  | nil => simp [readHexDigits]
  | cons c cs =>
    generalize hrd : readHexDigits (c :: cs) 0 0 = res
    obtain ⟨v, n, rest⟩ := res
    simp only [List.isEmpty_cons, Bool.not_false, Bool.true_and]
    cases hall : (c :: cs).all (· == '0') with
    | true =>
      rw [readHex_zeros (c :: cs) 0 hall] at hrd
      simp only [Prod.mk.injEq] at hrd
      obtain ⟨rfl, rfl, rfl⟩ := hrd
      have : (decide (0 + (c :: cs).length = 0) || !([] : List Char).isEmpty) = false := by simp
      rw [this]
      simp only [Bool.false_eq_true, if_false, denotesZero_int, decide_true]
    | false =>
      by_cases hcond : (decide (n = 0) || !rest.isEmpty) = true
      · rw [if_pos hcond]
      · rw [if_neg hcond]
        simp only [Bool.or_eq_true, decide_eq_true_eq, Bool.not_eq_true', not_or, Bool.not_eq_false] at hcond
        have hrest : rest = [] := by simpa using hcond.2
        have := readHex_zero_inv (c :: cs) 0 0 (by rw [hrd]; exact hrest)
        rw [hrd] at this
        simp only [denotesZero_int]
        cases v with
        | zero => have := (this rfl).2; rw [hall] at this; cases this
        | succ k => simp

theorem numberIsZero_eq (text : String) : numberIsZero text = zeroText text := by
  unfold numberIsZero zeroText numValue
  split
  · rename_i x hex hcs
    rw [hcs]
    by_cases hx : x = 'x' ∨ x = 'X'
    · have hxb : (x = 'x' || x = 'X') = true := by rcases hx with rfl | rfl <;> decide
      rw [if_pos hxb, ← hexValue_zero hex x hx]
      cases hh : hexValue ('0' :: x :: hex) with
      | some v => rfl
      | none => simp [decimalValue_hexPrefix x hx hex]
    · have hxb : (x = 'x' || x = 'X') = false := by
        simp only [not_or] at hx
        simp [hx.1, hx.2]
      have hnone : hexValue ('0' :: x :: hex) = none := by simp [hexValue, hxb]
      rw [if_neg (by simp [hxb]), hnone]
      simp only [rustF64IsZero]
      cases decimalValue ('0' :: x :: hex) <;> rfl
  · rename_i hne
    have hnone : hexValue text.toList = none := by
      unfold hexValue
      split
      · rename_i x r hcs
        exact absurd hcs (hne x r)
      · rfl
    rw [hnone]
    simp only [rustF64IsZero]
    cases decimalValue text.toList <;> rfl

theorem decimal_none_of_hex (cs : List Char) (w : NumVal) (h : hexValue cs = some w) : decimalValue cs = none := by
  unfold hexValue at h
  split at h
  · rename_i x r
    split at h
    · rename_i hx
      exact decimalValue_hexPrefix x (by simpa using hx) r
    · cases h
  · cases h

theorem numValue_of_decimal (text : String) (v : NumVal) (h : decimalValue text.toList = some v) : numValue text = some v := by
  unfold numValue
  cases hh : hexValue text.toList with
  | none => exact h
  | some w => rw [decimal_none_of_hex _ w hh] at h; cases h

theorem numValue_zero : numValue "0" = some ⟨0, 1⟩ := by decide

theorem zeroLit_of_spelled {e : Expr} (h : spelled "0" e = true) : zeroLit e = true := by
  cases e <;> simp [spelled] at h
  case num t =>
    simp [zeroLit, h, numValue_zero, NumVal.denotesZero]

theorem zeroLit_num (t : Tok) : zeroLit (.num t) = zeroText t.text := rfl

/-! ### divide_by_zero -/

/-- since /repo 1da8247 the lint's `value_is_zero` IS the by-value test -/
theorem DivideByZero.valueIsZero_eq (e : Expr) : DivideByZero.valueIsZero e = zeroLit e := by
  cases e <;> try rfl
  case num t => simp [DivideByZero.valueIsZero, zeroLit_num, numberIsZero_eq]

theorem DivideByZero.hook_sound (n : Node) (g : Diag) (h : g ∈ DivideByZero.hook n) :
    Doc.divideByZero n g = true := by
  cases n with
  | expr e =>
    cases e <;> simp [DivideByZero.hook] at h
    case bin sp l op r =>
      obtain ⟨⟨hop, hr, hl⟩, hg⟩ := h
      rw [DivideByZero.valueIsZero_eq] at hr hl
      simp [Doc.divideByZero, hop, hr, hl, hg]
  | stmt s => simp [DivideByZero.hook] at h
  | table sp fs => simp [DivideByZero.hook] at h
  | call c => simp [DivideByZero.hook] at h

/-- the lint reports the documented pattern however the zero is spelled -/
theorem DivideByZero.hook_byValue (n : Node) (x : Expect) (hx : x ∈ ByValue.divideByZero n) :
    ∃ g ∈ DivideByZero.hook n, x.matches g = true := by
  cases n with
  | expr e =>
    cases e <;> simp [ByValue.divideByZero] at hx
    case bin sp l op r =>
      obtain ⟨⟨⟨hop, hr⟩, hl⟩, rfl⟩ := hx
      refine ⟨{ code := "divide_by_zero", primary := sp, msg := DivideByZero.message }, ?_, matches_self _ _ rfl⟩
      simp [DivideByZero.hook, DivideByZero.valueIsZero_eq, hop, hr, hl]
  | stmt s => simp [ByValue.divideByZero] at hx
  | table sp fs => simp [ByValue.divideByZero] at hx
  | call c => simp [ByValue.divideByZero] at hx

theorem Canon.divideByZero_sub (n : Node) (x : Expect) (hx : x ∈ Canon.divideByZero n) : x ∈ ByValue.divideByZero n := by
  cases n with
  | expr e =>
    cases e <;> simp [Canon.divideByZero] at hx
    case bin sp l op r =>
      obtain ⟨⟨⟨hop, hr⟩, hl⟩, rfl⟩ := hx
      simp [ByValue.divideByZero, hop, zeroLit_of_spelled hr, hl]
  | stmt s => simp [Canon.divideByZero] at hx
  | table sp fs => simp [Canon.divideByZero] at hx
  | call c => simp [Canon.divideByZero] at hx

theorem DivideByZero.hook_canon (n : Node) (x : Expect) (hx : x ∈ Canon.divideByZero n) :
    ∃ g ∈ DivideByZero.hook n, x.matches g = true :=
  DivideByZero.hook_byValue n x (Canon.divideByZero_sub n x hx)

/-! ### compare_nan -/

theorem CompareNan.valueIsZero_eq (e : Expr) : CompareNan.valueIsZero e = zeroLit e := by
  cases e <;> try rfl
  case num t => simp [CompareNan.valueIsZero, zeroLit_num, numberIsZero_eq]

theorem CompareNan.isVar_eq (e : Expr) : CompareNan.isVar e = ByValue.isVar e := by
  cases e <;> rfl

theorem CompareNan.hook_sound (n : Node) (g : Diag) (h : g ∈ CompareNan.hook n) : Doc.compareNan n g = true := by
  cases n with
  | expr e =>
    cases e <;> simp [CompareNan.hook] at h
    case bin sp l op r =>
      obtain ⟨_, h⟩ := h
      cases r <;> simp [CompareNan.expressionIsNan] at h
      case bin sp2 a dv b =>
        simp only [CompareNan.valueIsZero_eq] at h
        split at h
        · rename_i hop
          simp at h
          obtain ⟨⟨hdv, ha, hb⟩, hg⟩ := h
          simp [Doc.compareNan, hop, hdv, ha, hb, hg]
        · split at h
          · rename_i hop
            simp at h
            obtain ⟨⟨hdv, ha, hb⟩, hg⟩ := h
            simp [Doc.compareNan, hop, hdv, ha, hb, hg]
          · simp at h
  | stmt s => simp [CompareNan.hook] at h
  | table sp fs => simp [CompareNan.hook] at h
  | call c => simp [CompareNan.hook] at h

/-- `x == <zero>/<zero>` is reported however the zeros are spelled -/
theorem CompareNan.hook_byValue (n : Node) (x : Expect) (hx : x ∈ ByValue.compareNan n) :
    ∃ g ∈ CompareNan.hook n, x.matches g = true := by
  cases n with
  | expr e =>
    cases e <;> simp [ByValue.compareNan] at hx
    case bin sp l op r =>
      cases r <;> simp [ByValue.compareNan] at hx
      case bin sp2 a dv b =>
        obtain ⟨⟨⟨⟨⟨hv, hop⟩, hdv⟩, ha⟩, hb⟩, rfl⟩ := hx
        refine ⟨{ code := "compare_nan", primary := sp, msg := CompareNan.message }, ?_, matches_self _ _ rfl⟩
        rcases hop with hop | hop <;>
          simp [CompareNan.hook, CompareNan.isVar_eq, CompareNan.expressionIsNan, CompareNan.valueIsZero_eq, hv, hop, hdv, ha, hb]
  | stmt s => simp [ByValue.compareNan] at hx
  | table sp fs => simp [ByValue.compareNan] at hx
  | call c => simp [ByValue.compareNan] at hx

theorem Canon.compareNan_sub (n : Node) (x : Expect) (hx : x ∈ Canon.compareNan n) : x ∈ ByValue.compareNan n := by
  cases n with
  | expr e =>
    cases e <;> simp [Canon.compareNan] at hx
    case bin sp l op r =>
      cases r <;> simp [Canon.compareNan] at hx
      case bin sp2 a dv b =>
        obtain ⟨⟨⟨⟨⟨hv, hop⟩, hdv⟩, ha⟩, hb⟩, rfl⟩ := hx
        simp [ByValue.compareNan, hv, hop, hdv, zeroLit_of_spelled ha, zeroLit_of_spelled hb]
  | stmt s => simp [Canon.compareNan] at hx
  | table sp fs => simp [Canon.compareNan] at hx
  | call c => simp [Canon.compareNan] at hx

theorem CompareNan.hook_canon (n : Node) (x : Expect) (hx : x ∈ Canon.compareNan n) :
    ∃ g ∈ CompareNan.hook n, x.matches g = true :=
  CompareNan.hook_byValue n x (Canon.compareNan_sub n x hx)

/-! ### suspicious_reverse_loop -/

/-- the by-value reading of a bound's text: it denotes a value `≤ 1` -/
def leOneText (text : String) : Bool :=
  match numValue text with
  | some v => v.denotesLeOne
  | none => false

theorem denotesLeOne_int (v : Nat) : (⟨v, 1⟩ : NumVal).denotesLeOne = decide (v ≤ 1) := by
  simp only [NumVal.denotesLeOne]
  have h53 : (2 : Nat) ^ 53 = 9007199254740992 := by decide
  rw [h53]
  by_cases h : v ≤ 1
  · have : v * 9007199254740992 ≤ (9007199254740992 + 1) * 1 := by omega
    simp [h, this]
  · have : ¬ (v * 9007199254740992 ≤ (9007199254740992 + 1) * 1) := by omega
    simp [h, this]

/-- since /repo fe466a6 the lint's bound test IS the by-value test, for every spelling -/
theorem numberValueLeOne_eq (text : String) : numberValueLeOne text = leOneText text := by
  unfold numberValueLeOne leOneText numValue
  split
  · rename_i x hex hcs
    rw [hcs]
    by_cases hx : x = 'x' ∨ x = 'X'
    · have hxb : (x = 'x' || x = 'X') = true := by rcases hx with rfl | rfl <;> decide
      rw [if_pos hxb]
      simp only [hexValue, hxb, if_true]
      generalize readHexDigits hex 0 0 = rd
      obtain ⟨v, n, rest⟩ := rd
      by_cases hcond : (decide (n = 0) || !rest.isEmpty) = true
      · rw [if_pos hcond]
        simp only [decimalValue_hexPrefix x hx hex]
        simp only [Bool.or_eq_true, decide_eq_true_eq, Bool.not_eq_true'] at hcond
        rcases hcond with h | h <;> simp [h]
      · rw [if_neg hcond]
        simp only [Bool.or_eq_true, decide_eq_true_eq, Bool.not_eq_true', not_or, Bool.not_eq_false] at hcond
        simp only [denotesLeOne_int]
        by_cases hv : v ≤ 1
        · have : v < 2 ^ 64 := Nat.lt_of_le_of_lt hv (by decide)
          simp [hcond.1, hcond.2, hv, this]
        · simp [hv]
    · have hxb : (x = 'x' || x = 'X') = false := by
        simp only [not_or] at hx
        simp [hx.1, hx.2]
      have hnone : hexValue ('0' :: x :: hex) = none := by simp [hexValue, hxb]
      rw [if_neg (by simp [hxb]), hnone]
      simp only [rustF64LeOne, hcs]
      cases decimalValue ('0' :: x :: hex) <;> rfl
  · rename_i hne
    have hnone : hexValue text.toList = none := by
      unfold hexValue
      split
      · rename_i x r hcs
        exact absurd hcs (hne x r)
      · rfl
    rw [hnone]
    simp only [rustF64LeOne]
    cases decimalValue text.toList <;> rfl

theorem SuspiciousReverseLoop.hook_sound (n : Node) (g : Diag) (h : g ∈ SuspiciousReverseLoop.hook n) :
    Doc.suspiciousReverseLoop n g = true := by
  cases n with
  | stmt s =>
    cases s <;> simp [SuspiciousReverseLoop.hook] at h
    case numFor sp v cm a e st b =>
      cases st <;> simp [SuspiciousReverseLoop.hook] at h
      obtain ⟨ha, h⟩ := h
      cases e <;> simp at h
      case num t =>
        obtain ⟨hle, hg⟩ := h
        cases a <;> simp [SuspiciousReverseLoop.isHashOp] at ha
        case un usp op inner =>
          rw [numberValueLeOne_eq] at hle
          simp only [leOneText] at hle
          cases hn : numValue t.text with
          | none => simp [hn] at hle
          | some w =>
            simp [hn] at hle
            simp [Doc.suspiciousReverseLoop, ha, hn, hle, hg, Expr.span]
  | expr e => simp [SuspiciousReverseLoop.hook] at h
  | table sp fs => simp [SuspiciousReverseLoop.hook] at h
  | call c => simp [SuspiciousReverseLoop.hook] at h

/-- a bound denoting a value `≤ 1` is reported however it is spelled (decimal, fraction, exponent, hexadecimal) -/
theorem SuspiciousReverseLoop.hook_byValue (n : Node) (x : Expect) (hx : x ∈ ByValue.suspiciousReverseLoop n) :
    ∃ g ∈ SuspiciousReverseLoop.hook n, x.matches g = true := by
  unfold ByValue.suspiciousReverseLoop at hx
  split at hx
  · rename_i sp v cm usp op inner t b
    simp at hx
    obtain ⟨⟨hop, hle⟩, rfl⟩ := hx
    refine ⟨{ code := "suspicious_reverse_loop", primary := ⟨usp.first, t.idx⟩, msg := SuspiciousReverseLoop.message }, ?_, matches_self _ _ rfl⟩
    have : numberValueLeOne t.text = true := by
      rw [numberValueLeOne_eq]
      simp only [leOneText]
      exact hle
    simp [SuspiciousReverseLoop.hook, SuspiciousReverseLoop.isHashOp, hop, this, Expr.span]
  · simp at hx

theorem numValue_one : numValue "1" = some ⟨1, 1⟩ := by decide

theorem Canon.suspiciousReverseLoop_sub (n : Node) (x : Expect) (hx : x ∈ Canon.suspiciousReverseLoop n) :
    x ∈ ByValue.suspiciousReverseLoop n := by
  unfold Canon.suspiciousReverseLoop at hx
  split at hx
  · rename_i sp v cm usp op inner t b
    simp at hx
    obtain ⟨⟨hop, ht⟩, rfl⟩ := hx
    simp [ByValue.suspiciousReverseLoop, hop, ht, numValue_one, denotesLeOne_int]
  · simp at hx

theorem SuspiciousReverseLoop.hook_canon (n : Node) (x : Expect) (hx : x ∈ Canon.suspiciousReverseLoop n) :
    ∃ g ∈ SuspiciousReverseLoop.hook n, x.matches g = true :=
  SuspiciousReverseLoop.hook_byValue n x (Canon.suspiciousReverseLoop_sub n x hx)

/-! ### constant_table_comparison -/

theorem ConstantTableComparison.isSome_match (e : Expr) :
    (ConstantTableComparison.constantTableMatch e).isSome = Doc.isTable e := by
  cases e <;> try rfl
  case tbl sp fs => cases fs <;> rfl

theorem ConstantTableComparison.isComparison_eq (s : String) :
    ConstantTableComparison.isComparison s = Doc.isComparisonOp s := by
  simp only [ConstantTableComparison.isComparison, Doc.isComparisonOp]
  cases (s == "==") <;> cases (s == "~=") <;> cases (s == ">") <;> cases (s == "<") <;> cases (s == ">=") <;> cases (s == "<=") <;> rfl

theorem ConstantTableComparison.hook_bin (sp : Span) (l r : Expr) (op : Tok) :
    ConstantTableComparison.hook (.expr (.bin sp l op r)) =
      if Doc.isComparisonOp op.text && (Doc.isTable l || Doc.isTable r) then [ConstantTableComparison.diag sp] else [] := by
  rw [← ConstantTableComparison.isSome_match l, ← ConstantTableComparison.isSome_match r, ← ConstantTableComparison.isComparison_eq]
  simp only [ConstantTableComparison.hook]
  cases ConstantTableComparison.isComparison op.text <;> simp
  cases hl : ConstantTableComparison.constantTableMatch l with
  | none =>
    cases hr : ConstantTableComparison.constantTableMatch r with
    | none => simp
    | some y => cases y <;> simp
  | some x =>
    cases hr : ConstantTableComparison.constantTableMatch r with
    | none => cases x <;> simp
    | some y => simp

theorem ConstantTableComparison.hook_sound (n : Node) (g : Diag) (h : g ∈ ConstantTableComparison.hook n) :
    Doc.constantTableComparison n g = true := by
  cases n with
  | expr e =>
    cases e <;> try (simp [ConstantTableComparison.hook] at h; done)
    case bin sp l op r =>
      rw [ConstantTableComparison.hook_bin] at h
      split at h
      · rename_i hc
        simp [ConstantTableComparison.diag] at h
        simp only [Doc.constantTableComparison]
        simp [h] at hc ⊢
        exact hc
      · simp at h
  | stmt s => simp [ConstantTableComparison.hook] at h
  | table sp fs => simp [ConstantTableComparison.hook] at h
  | call c => simp [ConstantTableComparison.hook] at h

theorem ConstantTableComparison.hook_canon (n : Node) (x : Expect) (hx : x ∈ Canon.constantTableComparison n) :
    ∃ g ∈ ConstantTableComparison.hook n, x.matches g = true := by
  cases n with
  | expr e =>
    cases e <;> simp [Canon.constantTableComparison, ByValue.constantTableComparison] at hx
    case bin sp l op r =>
      obtain ⟨⟨hop, ht⟩, rfl⟩ := hx
      refine ⟨ConstantTableComparison.diag sp, ?_, matches_self _ _ rfl⟩
      rw [ConstantTableComparison.hook_bin]
      have : Doc.isComparisonOp op.text = true := by
        rcases hop with hop | hop <;> simp [Doc.isComparisonOp, hop]
      rcases ht with ht | ht <;> simp [this, ht]
  | stmt s => simp [Canon.constantTableComparison, ByValue.constantTableComparison] at hx
  | table sp fs => simp [Canon.constantTableComparison, ByValue.constantTableComparison] at hx
  | call c => simp [Canon.constantTableComparison, ByValue.constantTableComparison] at hx

/-! ### type_check_inside_call -/

theorem TypeCheckInsideCall.hook_sound (roblox : Bool) (n : Node) (g : Diag)
    (h : g ∈ TypeCheckInsideCall.hook roblox n) : Doc.typeCheckInsideCall roblox n g = true := by
  unfold TypeCheckInsideCall.hook at h
  split at h
  · rename_i csp name asp psp bsp lhs op rhs es ss
    split at h
    · rename_i hc
      simp at h hc
      obtain ⟨⟨hf, hop⟩, hs⟩ := hc
      cases rhs <;> simp [TypeCheckInsideCall.isStringLit] at hs
      case str t q lit =>
        simp only [TypeCheckInsideCall.isTypeFunction] at hf
        simp [Doc.typeCheckInsideCall, hop, h]
        simp at hf
        rcases hf with hf | ⟨hf, hr⟩
        · exact Or.inl hf
        · exact Or.inr ⟨hr, hf⟩
    · simp at h
  · simp at h

theorem TypeCheckInsideCall.hook_canon (roblox : Bool) (n : Node) (x : Expect)
    (hx : x ∈ Canon.typeCheckInsideCall roblox n) : ∃ g ∈ TypeCheckInsideCall.hook roblox n, x.matches g = true := by
  unfold Canon.typeCheckInsideCall ByValue.typeCheckInsideCall at hx
  split at hx
  · rename_i csp name asp psp bsp lhs op t q lit es ss
    simp at hx
    obtain ⟨⟨hf, hop⟩, rfl⟩ := hx
    refine ⟨{ code := "type_check_inside_call", primary := asp, msg := TypeCheckInsideCall.message }, ?_, matches_self _ _ rfl⟩
    have : TypeCheckInsideCall.isTypeFunction name.text roblox = true := by
      simp [TypeCheckInsideCall.isTypeFunction]
      rcases hf with hf | ⟨hr, hf⟩
      · exact Or.inl hf
      · exact Or.inr ⟨hf, hr⟩
    simp [TypeCheckInsideCall.hook, TypeCheckInsideCall.isStringLit, this, hop]
  · simp at hx

/-! ### parenthese_conditions -/

theorem ParentheseConditions.lintCondition_sound (c : Expr) (g : Diag) (h : g ∈ ParentheseConditions.lintCondition c) :
    Doc.parenSpan c = some g.primary := by
  cases c <;> simp [ParentheseConditions.lintCondition] at h
  case paren sp e => simp [Doc.parenSpan, h]

theorem ParentheseConditions.elseIf_sound : (elifs : ElseIfList) → (g : Diag) → g ∈ ParentheseConditions.elseIfConditions elifs →
    ∃ c ∈ Doc.elifConds elifs, Doc.parenSpan c = some g.primary
  | .nil, g, h => by simp [ParentheseConditions.elseIfConditions] at h
  | .cons (.mk sp c b) rest, g, h => by
    simp [ParentheseConditions.elseIfConditions] at h
    rcases h with h | h
    · exact ⟨c, by simp [Doc.elifConds], ParentheseConditions.lintCondition_sound c g h⟩
    · obtain ⟨c', hc', hp⟩ := ParentheseConditions.elseIf_sound rest g h
      exact ⟨c', by simp [Doc.elifConds, hc'], hp⟩

theorem ParentheseConditions.hook_sound (n : Node) (g : Diag) (h : g ∈ ParentheseConditions.hook n) :
    Doc.parentheseConditions n g = true := by
  simp only [Doc.parentheseConditions, List.any_eq_true]
  cases n with
  | stmt s =>
    cases s <;> simp [ParentheseConditions.hook] at h
    case while_ sp c b => exact ⟨c, by simp [Doc.conditions], by simp [ParentheseConditions.lintCondition_sound c g h]⟩
    case repeat_ sp b c => exact ⟨c, by simp [Doc.conditions], by simp [ParentheseConditions.lintCondition_sound c g h]⟩
    case if_ sp c b elifs els =>
      rcases h with h | h
      · exact ⟨c, by simp [Doc.conditions], by simp [ParentheseConditions.lintCondition_sound c g h]⟩
      · obtain ⟨c', hc', hp⟩ := ParentheseConditions.elseIf_sound elifs g h
        exact ⟨c', by simp [Doc.conditions, hc'], by simp [hp]⟩
  | expr e => simp [ParentheseConditions.hook] at h
  | table sp fs => simp [ParentheseConditions.hook] at h
  | call c => simp [ParentheseConditions.hook] at h

theorem ParentheseConditions.lintCondition_canon (c : Expr) (sp : Span) (h : Doc.parenSpan c = some sp) :
    ∃ g ∈ ParentheseConditions.lintCondition c, g.primary = sp := by
  cases c <;> simp [Doc.parenSpan] at h
  case paren sp' e => exact ⟨{ code := "parenthese_conditions", primary := sp', msg := ParentheseConditions.message }, by simp [ParentheseConditions.lintCondition], h⟩

theorem ParentheseConditions.elseIf_canon : (elifs : ElseIfList) → (c : Expr) → c ∈ Doc.elifConds elifs → (sp : Span) →
    Doc.parenSpan c = some sp → ∃ g ∈ ParentheseConditions.elseIfConditions elifs, g.primary = sp
  | .nil, c, h, _, _ => by simp [Doc.elifConds] at h
  | .cons (.mk esp c' b) rest, c, h, sp, hp => by
    simp [Doc.elifConds] at h
    rcases h with h | h
    · subst h
      obtain ⟨g, hg, hs⟩ := ParentheseConditions.lintCondition_canon c sp hp
      exact ⟨g, by simp [ParentheseConditions.elseIfConditions, hg], hs⟩
    · obtain ⟨g, hg, hs⟩ := ParentheseConditions.elseIf_canon rest c h sp hp
      exact ⟨g, by simp [ParentheseConditions.elseIfConditions, hg], hs⟩

theorem ParentheseConditions.hook_canon (n : Node) (x : Expect) (hx : x ∈ Canon.parentheseConditions n) :
    ∃ g ∈ ParentheseConditions.hook n, x.matches g = true := by
  simp only [Canon.parentheseConditions, ByValue.parentheseConditions, List.mem_filterMap] at hx
  obtain ⟨c, hc, hx⟩ := hx
  cases hp : Doc.parenSpan c with
  | none => simp [hp] at hx
  | some sp =>
    simp [hp] at hx
    subst hx
    suffices ∃ g ∈ ParentheseConditions.hook n, g.primary = sp by
      obtain ⟨g, hg, hs⟩ := this
      exact ⟨g, hg, matches_self _ _ hs⟩
    cases n with
    | stmt s =>
      cases s <;> simp [Doc.conditions] at hc
      case while_ ssp c' b => subst hc; simpa [ParentheseConditions.hook] using ParentheseConditions.lintCondition_canon c sp hp
      case repeat_ ssp b c' => subst hc; simpa [ParentheseConditions.hook] using ParentheseConditions.lintCondition_canon c sp hp
      case if_ ssp c' b elifs els =>
        rcases hc with hc | hc
        · subst hc
          obtain ⟨g, hg, hs⟩ := ParentheseConditions.lintCondition_canon c sp hp
          exact ⟨g, by simp [ParentheseConditions.hook, hg], hs⟩
        · obtain ⟨g, hg, hs⟩ := ParentheseConditions.elseIf_canon elifs c hc sp hp
          exact ⟨g, by simp [ParentheseConditions.hook, hg], hs⟩
    | expr e => simp [Doc.conditions] at hc
    | table tsp fs => simp [Doc.conditions] at hc
    | call c => simp [Doc.conditions] at hc

/-! ### mixed_table -/

theorem fieldRange_eq (f : Field) : DuplicateKeys.fieldRange f = Doc.fieldSpan f := by
  cases f <;> rfl

theorem Doc.mixedPairs_intro (f f' : Field) (g : Diag) (hk : Doc.isNoKey f ≠ Doc.isNoKey f')
    (hg : g.primary = ⟨(Doc.fieldSpan f).first, (Doc.fieldSpan f').last⟩) :
    (seen rest : List Field) → f ∈ seen → Doc.mixedPairs (seen ++ f' :: rest) g = true
  | [], _, h => by simp at h
  | a :: seen', rest, h => by
    simp only [List.cons_append, Doc.mixedPairs, Bool.or_eq_true, List.any_eq_true]
    rcases List.mem_cons.mp h with h | h
    · subst h
      exact Or.inl ⟨f', by simp, by simp [hk, hg]⟩
    · exact Or.inr (Doc.mixedPairs_intro f f' g hk hg seen' rest h)

theorem MixedTable.fields_sound : (fs : FieldList) → (seen : List Field) → (lk lnk : Option Nat) →
    (∀ k, lk = some k → ∃ f ∈ seen, Doc.isNoKey f = false ∧ (Doc.fieldSpan f).first = k) →
    (∀ k, lnk = some k → ∃ f ∈ seen, Doc.isNoKey f = true ∧ (Doc.fieldSpan f).first = k) →
    (g : Diag) → g ∈ MixedTable.fields fs lk lnk → Doc.mixedPairs (seen ++ fs.toList) g = true
  | .nil, _, _, _, _, _, g, h => by simp [MixedTable.fields] at h
  | .cons f rest, seen, lk, lnk, hk, hnk, g, h => by
    have step : ∀ (lk' lnk' : Option Nat),
        (∀ k, lk' = some k → ∃ f0 ∈ seen ++ [f], Doc.isNoKey f0 = false ∧ (Doc.fieldSpan f0).first = k) →
        (∀ k, lnk' = some k → ∃ f0 ∈ seen ++ [f], Doc.isNoKey f0 = true ∧ (Doc.fieldSpan f0).first = k) →
        g ∈ MixedTable.fields rest lk' lnk' → Doc.mixedPairs (seen ++ (FieldList.cons f rest).toList) g = true := by
      intro lk' lnk' h1 h2 hg
      have := MixedTable.fields_sound rest (seen ++ [f]) lk' lnk' h1 h2 g hg
      simpa [FieldList.toList] using this
    have weaken : ∀ (o : Option Nat) (b : Bool),
        (∀ k, o = some k → ∃ f0 ∈ seen, Doc.isNoKey f0 = b ∧ (Doc.fieldSpan f0).first = k) →
        (∀ k, o = some k → ∃ f0 ∈ seen ++ [f], Doc.isNoKey f0 = b ∧ (Doc.fieldSpan f0).first = k) := by
      intro o b h0 k hk0
      obtain ⟨f0, hm, hp⟩ := h0 k hk0
      exact ⟨f0, by simp [hm], hp⟩
    cases f with
    | noKey v =>
      simp only [MixedTable.fields] at h
      cases lk with
      | some k =>
        simp [MixedTable.diag] at h
        obtain ⟨f0, hm, hf0, hfirst⟩ := hk k rfl
        simp only [FieldList.toList]
        exact Doc.mixedPairs_intro f0 (.noKey v) g (by rw [hf0]; simp [Doc.isNoKey]) (by subst hfirst; rw [h]; rfl) seen _ hm
      | none =>
        simp at h
        exact step none (some v.span.first) (by simp) (by
          intro k hk0
          simp at hk0
          exact ⟨.noKey v, by simp, by simp [Doc.isNoKey], by simp [Doc.fieldSpan, hk0]⟩) h
    | exprKey sp kx vx =>
      simp only [MixedTable.fields] at h
      cases lnk with
      | some k =>
        simp [MixedTable.diag] at h
        obtain ⟨f0, hm, hf0, hfirst⟩ := hnk k rfl
        simp only [FieldList.toList]
        exact Doc.mixedPairs_intro f0 _ g (by rw [hf0]; simp [Doc.isNoKey]) (by simp [h, hfirst, fieldRange_eq]) seen _ hm
      | none =>
        simp at h
        exact step (some (DuplicateKeys.fieldRange (.exprKey sp kx vx)).first) none (by
          intro k hk0
          simp at hk0
          exact ⟨.exprKey sp kx vx, by simp, by simp [Doc.isNoKey], by simp [← fieldRange_eq, hk0]⟩) (by simp) h
    | nameKey sp kx vx =>
      simp only [MixedTable.fields] at h
      cases lnk with
      | some k =>
        simp [MixedTable.diag] at h
        obtain ⟨f0, hm, hf0, hfirst⟩ := hnk k rfl
        simp only [FieldList.toList]
        exact Doc.mixedPairs_intro f0 _ g (by rw [hf0]; simp [Doc.isNoKey]) (by simp [h, hfirst, fieldRange_eq]) seen _ hm
      | none =>
        simp at h
        exact step (some (DuplicateKeys.fieldRange (.nameKey sp kx vx)).first) none (by
          intro k hk0
          simp at hk0
          exact ⟨.nameKey sp kx vx, by simp, by simp [Doc.isNoKey], by simp [← fieldRange_eq, hk0]⟩) (by simp) h
    | unsupported sp =>
      simp only [MixedTable.fields] at h
      cases lnk with
      | some k =>
        simp [MixedTable.diag] at h
        obtain ⟨f0, hm, hf0, hfirst⟩ := hnk k rfl
        simp only [FieldList.toList]
        exact Doc.mixedPairs_intro f0 _ g (by rw [hf0]; simp [Doc.isNoKey]) (by simp [h, hfirst, fieldRange_eq]) seen _ hm
      | none =>
        simp at h
        exact step (some (DuplicateKeys.fieldRange (.unsupported sp)).first) none (by
          intro k hk0
          simp at hk0
          exact ⟨.unsupported sp, by simp, by simp [Doc.isNoKey], by simp [← fieldRange_eq, hk0]⟩) (by simp) h

theorem MixedTable.hook_sound (n : Node) (g : Diag) (h : g ∈ MixedTable.hook n) : Doc.mixedTable n g = true := by
  cases n with
  | table sp fs =>
    simp only [MixedTable.hook] at h
    have := MixedTable.fields_sound fs [] none none (by simp) (by simp) g h
    simpa [Doc.mixedTable] using this
  | expr e => simp [MixedTable.hook] at h
  | stmt s => simp [MixedTable.hook] at h
  | call c => simp [MixedTable.hook] at h

/-- the loop state after a run of fields of one kind that ends with `f` -/
def MixedTable.after (f : Field) : Option Nat × Option Nat :=
  if Doc.isNoKey f then (none, some (Doc.fieldSpan f).first) else (some (Doc.fieldSpan f).first, none)

def MixedTable.ofExpect (x : Expect) : Diag := MixedTable.diag x.primary.first x.primary.last

theorem MixedTable.fields_canon : (rest : FieldList) → (f : Field) →
    MixedTable.fields rest (MixedTable.after f).1 (MixedTable.after f).2 =
      (ByValue.firstMixed (f :: rest.toList)).map MixedTable.ofExpect
  | .nil, f => by simp [MixedTable.fields, FieldList.toList, ByValue.firstMixed]
  | .cons f' rest, f => by
    have ih := MixedTable.fields_canon rest f'
    cases f <;> cases f' <;>
      simp [MixedTable.fields, MixedTable.after, Doc.isNoKey, Doc.fieldSpan, fieldRange_eq, FieldList.toList,
        ByValue.firstMixed, MixedTable.ofExpect, MixedTable.diag] at ih ⊢ <;> exact ih

theorem MixedTable.hook_canon (n : Node) (x : Expect) (hx : x ∈ Canon.mixedTable n) :
    ∃ g ∈ MixedTable.hook n, x.matches g = true := by
  cases n with
  | table sp fs =>
    simp only [Canon.mixedTable, ByValue.mixedTable] at hx
    cases fs with
    | nil => simp [FieldList.toList, ByValue.firstMixed] at hx
    | cons f rest =>
      have h1 : MixedTable.fields (.cons f rest) none none = MixedTable.fields rest (MixedTable.after f).1 (MixedTable.after f).2 := by
        cases f <;> simp [MixedTable.fields, MixedTable.after, Doc.isNoKey, Doc.fieldSpan, fieldRange_eq]
      refine ⟨MixedTable.ofExpect x, ?_, ?_⟩
      · simp only [MixedTable.hook, h1, MixedTable.fields_canon]
        exact List.mem_map.mpr ⟨x, by simpa [FieldList.toList] using hx, rfl⟩
      · have hsub : x.subStart = none := by
          have : ∀ (l : List Field) (y : Expect), y ∈ ByValue.firstMixed l → y.subStart = none := by
            intro l
            induction l with
            | nil => intro y hy; simp [ByValue.firstMixed] at hy
            | cons a l ih =>
              intro y hy
              cases l with
              | nil => simp [ByValue.firstMixed] at hy
              | cons b l =>
                simp only [ByValue.firstMixed] at hy
                split at hy
                · simp at hy; simp [hy]
                · exact ih y hy
          exact this _ x hx
        simp [Expect.matches, MixedTable.ofExpect, MixedTable.diag, hsub]
  | expr e => simp [Canon.mixedTable, ByValue.mixedTable] at hx
  | stmt s => simp [Canon.mixedTable, ByValue.mixedTable] at hx
  | call c => simp [Canon.mixedTable, ByValue.mixedTable] at hx

/-! ### duplicate_keys -/

/-- the hypothesis that excludes the defect (raw text compared across quote kinds): a long-bracket
string key contains no backslash and does not start with a line break, so that its raw text is its
value; names contain no backslash (true of every identifier) -/
def plainKey : Field → Bool
  | .nameKey _ k _ => !k.text.toList.contains '\\'
  | .exprKey _ (.str _ q lit) _ =>
    q != .brackets || (!lit.toList.contains '\\' && lit.toList.head? != some '\n' && lit.toList.head? != some '\r')
  | _ => true

def plainKeys : Node → Bool
  | .table _ fs => fs.toList.all plainKey
  | _ => true

theorem unesc_plain : (cs : List Char) → cs.contains '\\' = false → unesc .normal cs = bytesOf cs
  | [], _ => by simp [unesc, bytesOf]
  | c :: cs, h => by
    simp only [List.contains_cons, Bool.or_eq_false_iff] at h
    have hc : c ≠ '\\' := by
      intro hc
      simp [hc] at h
    simp [unesc, bytesOf, hc, unesc_plain cs h.2]

theorem dropLeadingNewline_plain (cs : List Char) (h1 : cs.head? ≠ some '\n') (h2 : cs.head? ≠ some '\r') :
    dropLeadingNewline cs = cs := by
  unfold dropLeadingNewline
  split <;> simp_all

/-- the value the key text denotes when it is read as a quoted string / as a numeral -/
def DuplicateKeys.valOf : DuplicateKeys.Key → Doc.KeyVal
  | ⟨.string, s⟩ => .str (unescape s.toList)
  | ⟨.number, s⟩ => .num s

theorem Doc.sameKey_valOf (k : DuplicateKeys.Key) : Doc.sameKey (DuplicateKeys.valOf k) (DuplicateKeys.valOf k) = true := by
  obtain ⟨ty, s⟩ := k
  cases ty <;> simp [DuplicateKeys.valOf, Doc.sameKey]

theorem DuplicateKeys.keyVals_cons (f : Field) (rest : FieldList) (i : Nat) (hp : plainKey f = true) :
    Doc.keyVals (.cons f rest) i =
      ((DuplicateKeys.fieldKey f i).1.map DuplicateKeys.valOf, DuplicateKeys.fieldRange f) :: Doc.keyVals rest (DuplicateKeys.fieldKey f i).2 := by
  cases f with
  | nameKey sp k v =>
    simp [plainKey] at hp
    simp [Doc.keyVals, DuplicateKeys.fieldKey, DuplicateKeys.valOf, DuplicateKeys.fieldRange, unescape, unesc_plain _ (by simpa using hp)]
  | noKey v => simp [Doc.keyVals, DuplicateKeys.fieldKey, DuplicateKeys.valOf, DuplicateKeys.fieldRange]
  | unsupported sp => simp [Doc.keyVals, DuplicateKeys.fieldKey, DuplicateKeys.fieldRange]
  | exprKey sp k v =>
    cases k <;> try (simp [Doc.keyVals, DuplicateKeys.fieldKey, DuplicateKeys.expressionToKey, DuplicateKeys.valOf, DuplicateKeys.fieldRange]; done)
    case str t q lit =>
      simp only [Doc.keyVals, DuplicateKeys.fieldKey, DuplicateKeys.expressionToKey, DuplicateKeys.valOf, DuplicateKeys.fieldRange,
        Option.map, strValue]
      cases hq : (q == QuoteKind.brackets)
      · simp [unescape]
      · simp only [plainKey, bne, hq, Bool.not_true, Bool.false_or, Bool.and_eq_true, Bool.not_eq_true'] at hp
        obtain ⟨⟨h1, h2⟩, h3⟩ := hp
        have h2' : lit.toList.head? ≠ some '\n' := by simpa using h2
        have h3' : lit.toList.head? ≠ some '\r' := by simpa using h3
        simp [unescape, dropLeadingNewline_plain _ h2' h3', unesc_plain _ h1]

theorem DuplicateKeys.lookup_mem (k : DuplicateKeys.Key) : (decl : List (DuplicateKeys.Key × Span)) → (sp : Span) →
    DuplicateKeys.lookupKey k decl = some sp → (k, sp) ∈ decl
  | [], _, h => by simp [DuplicateKeys.lookupKey] at h
  | (k', s) :: rest, sp, h => by
    simp only [DuplicateKeys.lookupKey] at h
    split at h
    · rename_i hk
      simp at h
      simp [hk, h]
    · exact List.mem_cons_of_mem _ (DuplicateKeys.lookup_mem k rest sp h)

theorem Doc.dupPairs_cons (earlier : List (Option Doc.KeyVal × Span)) (k : Option Doc.KeyVal) (s : Span)
    (rest : List (Option Doc.KeyVal × Span)) (g : Diag) :
    Doc.dupPairs earlier ((k, s) :: rest) g = (Doc.dupHere earlier k s g || Doc.dupPairs (earlier ++ [(k, s)]) rest g) := by
  simp [Doc.dupPairs]

theorem DuplicateKeys.fields_sound : (fs : FieldList) → (declared : List (DuplicateKeys.Key × Span)) →
    (earlier : List (Option Doc.KeyVal × Span)) → (i : Nat) →
    (∀ k sp, (k, sp) ∈ declared → (some (DuplicateKeys.valOf k), sp) ∈ earlier) →
    fs.toList.all plainKey = true → (g : Diag) → g ∈ DuplicateKeys.fields fs declared i →
    Doc.dupPairs earlier (Doc.keyVals fs i) g = true
  | .nil, _, _, _, _, _, g, h => by simp [DuplicateKeys.fields] at h
  | .cons f rest, declared, earlier, i, hinv, hplain, g, h => by
    simp only [FieldList.toList, List.all_cons, Bool.and_eq_true] at hplain
    rw [DuplicateKeys.keyVals_cons f rest i hplain.1, Doc.dupPairs_cons]
    simp only [DuplicateKeys.fields] at h
    have weaken : ∀ (e : Option Doc.KeyVal × Span) k sp, (k, sp) ∈ declared → (some (DuplicateKeys.valOf k), sp) ∈ earlier ++ [e] := by
      intro e k sp hm
      exact List.mem_append_left _ (hinv k sp hm)
    cases hfk : DuplicateKeys.fieldKey f i with
    | mk mk i' =>
      simp only [hfk] at h ⊢
      cases mk with
      | none =>
        simp only at h
        simp only [Option.map, Doc.dupHere, Bool.false_or]
        exact DuplicateKeys.fields_sound rest declared _ i' (weaken _) hplain.2 g h
      | some key =>
        simp only at h
        cases hl : DuplicateKeys.lookupKey key declared with
        | some original =>
          simp only [hl, List.mem_cons] at h
          rcases h with h | h
          · have hm := hinv key original (DuplicateKeys.lookup_mem key declared original hl)
            simp only [Option.map, Bool.or_eq_true]
            left
            simp only [Doc.dupHere, h, beq_self_eq_true, Bool.true_and, Doc.earlierSame, List.any_eq_true]
            exact ⟨_, hm, by simp [Doc.sameKey_valOf]⟩
          · simp only [Option.map, Bool.or_eq_true]
            right
            exact DuplicateKeys.fields_sound rest declared _ i' (weaken _) hplain.2 g h
        | none =>
          simp only [hl] at h
          simp only [Option.map, Bool.or_eq_true]
          right
          refine DuplicateKeys.fields_sound rest _ _ i' ?_ hplain.2 g h
          intro k sp hm
          rcases List.mem_cons.mp hm with hm | hm
          · simp at hm
            simp [hm.1, hm.2]
          · exact weaken _ k sp hm

theorem DuplicateKeys.hook_sound (n : Node) (g : Diag) (h : g ∈ DuplicateKeys.hook n) (hp : plainKeys n = true) :
    Doc.duplicateKeys n g = true := by
  cases n with
  | table sp fs =>
    simp only [DuplicateKeys.hook] at h
    simp only [plainKeys] at hp
    exact DuplicateKeys.fields_sound fs [] [] 0 (by simp) hp g h
  | expr e => simp [DuplicateKeys.hook] at h
  | stmt s => simp [DuplicateKeys.hook] at h
  | call c => simp [DuplicateKeys.hook] at h

end Selene.Lints
