/- `bad_string_escape` — selene-lib/src/lints/bad_string_escape.rs:12-14, 98-225 -/
import Selene.Lints.TraverseA
import Selene.Lints.Value
namespace Selene.Lints.BadStringEscape
open Selene.Lua Selene.Lints

/-- one match of `\\(u\{|.)([\da-fA-F]*)(\}?)` (rs:13).  `start` = byte offset of group 1 in the
literal.  ASCII reading of `\d` (the regex crate's `\d` also accepts other Unicode decimal digits;
those are outside the generated inputs). -/
structure Cap where
  start : Nat
  g1 : List Char
  g2 : List Char
  g3 : Bool
deriving Repr, DecidableEq

def takeHexRun : List Char → List Char × List Char
  | [] => ([], [])
  | c :: cs => if isHex c then let (h, r) := takeHexRun cs; (c :: h, r) else ([], c :: cs)

def closing : List Char → Bool × List Char
  | '}' :: r => (true, r)
  | r => (false, r)

/-- `captures_iter`: leftmost, non-overlapping matches.  A backslash followed by a line feed or by
nothing does not match (`.` excludes `\n`) and the search resumes after the backslash. -/
def scan : Nat → List Char → Nat → List Cap
  | 0, _, _ => []
  | _ + 1, [], _ => []
  | fuel + 1, c :: cs, off =>
    if c = '\\' then
      match cs with
      | [] => []
      | 'u' :: '{' :: r =>
        let hr := takeHexRun r
        let cl := closing hr.2
        ⟨off + 1, ['u', '{'], hr.1, cl.1⟩ :: scan fuel cl.2 (off + 3 + hr.1.length + (if cl.1 then 1 else 0))
      | d :: r =>
        if d = '\n' then scan fuel cs (off + 1)
        else
          let hr := takeHexRun r
          let cl := closing hr.2
          ⟨off + 1, [d], hr.1, cl.1⟩ :: scan fuel cl.2 (off + 1 + d.utf8Size + hr.1.length + (if cl.1 then 1 else 0))
    else scan fuel cs (off + c.utf8Size)

def hexNat : List Char → Nat → Nat
  | [], acc => acc
  | c :: cs, acc => hexNat cs (acc * 16 + hexVal c)

def msgInvalid : String := "string escape sequence doesn't exist"
def msgMalformed : String := "string escape sequence is malformed"
def msgDecimal : String := "decimal escape is too high"
def msgCodepoint : String := "unicode codepoint is too high for this escape sequence"
def msgDoubleInSingle : String := "double quotes do not have to be escaped when inside single quoted strings"
def msgSingleInDouble : String := "single quotes do not have to be escaped when inside double quoted strings"

/-- `captures[2].chars().take_while(char::is_ascii_digit).take(2)` -/
def leadingDecimals : List Char → Nat → List Char
  | _, 0 => []
  | [], _ => []
  | c :: cs, n + 1 => if isDec c then c :: leadingDecimals cs n else []

def decNat : List Char → Nat → Nat
  | [], acc => acc
  | c :: cs, acc => decNat cs (acc * 10 + decVal c)

/-- the `match &captures[1]` (rs:108-221): `(start, end, message)` relative to the literal's token -/
def capDiag (roblox : Bool) (q : QuoteKind) (c : Cap) : Option (Nat × Nat × String) :=
  let start := c.start
  if c.g1 = ['u', '{'] then
    if !roblox then some (start, start + 2, msgInvalid)
    else if !c.g3 then some (start, start + c.g2.length + 3, msgMalformed)
    else
      -- `u32::from_str_radix(..).unwrap_or(0x110000)`: empty or overflowing digits are "too high"
      if c.g2.isEmpty || hexNat c.g2 0 > 0x10ffff then some (start, start + c.g2.length + 4, msgCodepoint)
      else none
  else match c.g1 with
  | [d] =>
    if d = 'a' || d = 'b' || d = 'f' || d = 'n' || d = 'r' || d = 't' || d = 'v' || d = '\\' || d = '\r' then none
    else if isDec d then
      -- the first digit plus at most two more decimal digits; reported iff three digits above 255
      let digits := d :: leadingDecimals c.g2 2
      if digits.length == 3 && decNat digits 0 > 0xff then some (start, start + 4, msgDecimal) else none
    else if d = '"' then
      (if q = .single then some (start, start + 2, msgDoubleInSingle) else none)
    else if d = '\'' then
      (if q = .double then some (start, start + 2, msgSingleInDouble) else none)
    else if d = 'z' then
      (if !roblox then some (start, start + 2, msgInvalid) else none)
    else if d = 'x' then
      if !roblox then some (start, start + 2, msgInvalid)
      else if c.g2.length < 2 then some (start, start + c.g2.length + 2, msgMalformed)
      else none
    else some (start, start + 1 + d.utf8Size, msgInvalid)
  | _ => none

def mkDiag (t : Tok) (x : Nat × Nat × String) : Diag :=
  { code := "bad_string_escape", primary := ⟨t.idx, t.idx⟩, msg := x.2.2, sub := some (x.1, x.2.1) }

/-- `visit_expression` (rs:99-224): only `Expression::String` nodes, not long-bracket strings -/
def hook (roblox : Bool) : Node → List Diag
  | .expr (.str t q literal) =>
    if q = .brackets then []
    else ((scan (literal.toList.length + 1) literal.toList 0).filterMap (capDiag roblox q)).map (mkDiag t)
  | _ => []

def lint (roblox : Bool) (b : Block) : List Diag := runLint (hook roblox) b
end Selene.Lints.BadStringEscape
