/-
`high_cyclomatic_complexity`: the threaded accumulator is a sum.  `Doc.pts*` counts, without any
accumulator, the decision points (`if`, `elseif`, `while`, `repeat`, `for`, `and`, `or`) in the parts of a
function body the walk reaches; `countB_eq` proves `count_block_complexity(b, c) = c + pts b` for every
block, so the complexity of a function is `1 +` that number, independent of traversal order and of the
starting value.  The two `example`s at the end record what the walk does not reach.
-/
import Selene.Lints.Cyclomatic
namespace Selene.Lints.Cyclomatic
open Selene.Lua Selene.Lints

namespace Doc
mutual
def ptsE : Expr → Nat
  | .bin _ l op r => (if isAndOr op then 1 else 0) + ptsE l + ptsE r
  | .paren _ e => ptsE e
  | .un _ _ e => ptsE e
  | .func _ _ _ => 0
  | .call (.mk _ p ss) => ptsPfx p + ptsSS ss
  | .tbl _ fs => ptsFL fs
  | .var (.expr _ _ ss) => ptsSS ss
  | _ => 0
def ptsPfx : Prefix → Nat
  | .expr e => ptsE e
  | .name _ => 0
def ptsSS : SuffixList → Nat
  | .nil => 0
  | .cons s rest => ptsSf s + ptsSS rest
def ptsSf : Suffix → Nat
  | .idx _ e => ptsE e
  | .dot _ _ => 0
  | .args _ a => ptsA a
  | .meth _ _ a => ptsA a
  | .unsupported _ => 0
def ptsA : Args → Nat
  | .parens _ es => ptsEL es
  | .tbl _ fs => ptsFL fs
  | .str _ _ _ => 0
def ptsEL : ExprList → Nat
  | .nil => 0
  | .cons e rest => ptsE e + ptsEL rest
def ptsFL : FieldList → Nat
  | .nil => 0
  | .cons f rest => ptsF f + ptsFL rest
def ptsF : Field → Nat
  | .exprKey _ k v => ptsE k + ptsE v
  | .nameKey _ _ v => ptsE v
  | .noKey v => ptsE v
  | .unsupported _ => 0
end

def ptsVL : VarList → Nat
  | .nil => 0
  | .cons (.expr _ _ ss) rest => ptsSS ss + ptsVL rest
  | .cons (.name _) rest => ptsVL rest

mutual
def ptsB : Block → Nat
  | .mk _ stmts last => ptsSL stmts + (match last with | .ret _ es => ptsEL es | _ => 0)
def ptsSL : StmtList → Nat
  | .nil => 0
  | .cons s rest => ptsS s + ptsSL rest
def ptsS : Stmt → Nat
  | .assign _ vs es => ptsVL vs + ptsEL es
  | .do_ _ b => ptsB b
  | .call (.mk _ p ss) => ptsPfx p + ptsSS ss
  | .func _ _ _ => 0
  | .genFor _ _ es b => 1 + ptsEL es + ptsB b
  | .if_ _ cond b elifs _ => 1 + ptsE cond + ptsB b + ptsEIL elifs
  | .localAssign _ _ es => ptsEL es
  | .localFunc _ _ _ => 0
  | .numFor _ _ _ a e st b => 1 + ptsE a + ptsE e + (match st with | .some s => ptsE s | .none => 0) + ptsB b
  | .repeat_ _ b cond => 1 + ptsE cond + ptsB b
  | .while_ _ cond b => 1 + ptsE cond + ptsB b
  | .unsupported _ => 0
def ptsEIL : ElseIfList → Nat
  | .nil => 0
  | .cons (.mk _ cond b) rest => 1 + ptsE cond + ptsB b + ptsEIL rest
end
end Doc

open Doc

mutual
theorem countE_eq : (e : Expr) → (c : Nat) → countE e c = c + ptsE e
  | .bin _ l op r, c => by
    simp only [countE, ptsE]
    rw [countE_eq r, countE_eq l]
    split <;> omega
  | .paren _ e, c => by simp only [countE, ptsE]; exact countE_eq e c
  | .un _ _ e, c => by simp only [countE, ptsE]; exact countE_eq e c
  | .func _ _ _, c => by simp [countE, ptsE]
  | .call (.mk _ p ss), c => by
    simp only [countE, ptsE]
    rw [countSS_eq ss, countPfx_eq p]; omega
  | .tbl _ fs, c => by simp only [countE, ptsE]; exact countFL_eq fs c
  | .var (.expr _ _ ss), c => by simp only [countE, ptsE]; exact countSS_eq ss c
  | .var (.name _), c => by simp [countE, ptsE]
  | .nil _, c => by simp [countE, ptsE]
  | .true_ _, c => by simp [countE, ptsE]
  | .false_ _, c => by simp [countE, ptsE]
  | .dots _, c => by simp [countE, ptsE]
  | .num _, c => by simp [countE, ptsE]
  | .str _ _ _, c => by simp [countE, ptsE]
  | .unsupported _, c => by simp [countE, ptsE]
theorem countPfx_eq : (p : Prefix) → (c : Nat) → countPfx p c = c + ptsPfx p
  | .expr e, c => by simp only [countPfx, ptsPfx]; exact countE_eq e c
  | .name _, c => by simp [countPfx, ptsPfx]
theorem countSS_eq : (ss : SuffixList) → (c : Nat) → countSS ss c = c + ptsSS ss
  | .nil, c => by simp [countSS, ptsSS]
  | .cons s rest, c => by
    simp only [countSS, ptsSS]
    rw [countSS_eq rest, countSf_eq s]; omega
theorem countSf_eq : (s : Suffix) → (c : Nat) → countSf s c = c + ptsSf s
  | .idx _ e, c => by simp only [countSf, ptsSf]; exact countE_eq e c
  | .dot _ _, c => by simp [countSf, ptsSf]
  | .args _ a, c => by simp only [countSf, ptsSf]; exact countA_eq a c
  | .meth _ _ a, c => by simp only [countSf, ptsSf]; exact countA_eq a c
  | .unsupported _, c => by simp [countSf, ptsSf]
theorem countA_eq : (a : Args) → (c : Nat) → countA a c = c + ptsA a
  | .parens _ es, c => by simp only [countA, ptsA]; exact countEL_eq es c
  | .tbl _ fs, c => by simp only [countA, ptsA]; exact countFL_eq fs c
  | .str _ _ _, c => by simp [countA, ptsA]
theorem countEL_eq : (es : ExprList) → (c : Nat) → countEL es c = c + ptsEL es
  | .nil, c => by simp [countEL, ptsEL]
  | .cons e rest, c => by
    simp only [countEL, ptsEL]
    rw [countEL_eq rest, countE_eq e]; omega
theorem countFL_eq : (fs : FieldList) → (c : Nat) → countFL fs c = c + ptsFL fs
  | .nil, c => by simp [countFL, ptsFL]
  | .cons f rest, c => by
    simp only [countFL, ptsFL]
    rw [countFL_eq rest, countF_eq f]; omega
theorem countF_eq : (f : Field) → (c : Nat) → countF f c = c + ptsF f
  | .exprKey _ k v, c => by
    simp only [countF, ptsF]
    rw [countE_eq v, countE_eq k]; omega
  | .nameKey _ _ v, c => by simp only [countF, ptsF]; exact countE_eq v c
  | .noKey v, c => by simp only [countF, ptsF]; exact countE_eq v c
  | .unsupported _, c => by simp [countF, ptsF]
end

theorem countVL_eq : (vs : VarList) → (c : Nat) → countVL vs c = c + ptsVL vs
  | .nil, c => by simp [countVL, ptsVL]
  | .cons (.expr _ _ ss) rest, c => by
    simp only [countVL, ptsVL]
    rw [countVL_eq rest, countSS_eq ss]; omega
  | .cons (.name _) rest, c => by
    simp only [countVL, ptsVL]
    exact countVL_eq rest c

mutual
theorem countB_eq : (b : Block) → (c : Nat) → countB b c = c + ptsB b
  | .mk _ stmts last, c => by
    simp only [countB, ptsB]
    cases last with
    | ret _ es => simp only []; rw [countEL_eq es, countSL_eq stmts]; omega
    | none => simp only []; rw [countSL_eq stmts]; omega
    | brk _ => simp only []; rw [countSL_eq stmts]; omega
theorem countSL_eq : (ss : StmtList) → (c : Nat) → countSL ss c = c + ptsSL ss
  | .nil, c => by simp [countSL, ptsSL]
  | .cons s rest, c => by
    simp only [countSL, ptsSL]
    rw [countSL_eq rest, countS_eq s]; omega
theorem countS_eq : (s : Stmt) → (c : Nat) → countS s c = c + ptsS s
  | .assign _ vs es, c => by
    simp only [countS, ptsS]
    rw [countEL_eq es, countVL_eq vs]; omega
  | .do_ _ b, c => by simp only [countS, ptsS]; exact countB_eq b c
  | .call (.mk _ p ss), c => by
    simp only [countS, ptsS]
    rw [countSS_eq ss, countPfx_eq p]; omega
  | .func _ _ _, c => by simp [countS, ptsS]
  | .genFor _ _ es b, c => by
    simp only [countS, ptsS]
    rw [countB_eq b, countEL_eq es]; omega
  | .if_ _ cond b elifs _, c => by
    simp only [countS, ptsS]
    rw [countEIL_eq elifs, countB_eq b, countE_eq cond]; omega
  | .localAssign _ _ es, c => by simp only [countS, ptsS]; exact countEL_eq es c
  | .localFunc _ _ _, c => by simp [countS, ptsS]
  | .numFor _ _ _ a e st b, c => by
    simp only [countS, ptsS]
    cases st with
    | some s => simp only []; rw [countB_eq b, countE_eq s, countE_eq e, countE_eq a]; omega
    | none => simp only []; rw [countB_eq b, countE_eq e, countE_eq a]; omega
  | .repeat_ _ b cond, c => by
    simp only [countS, ptsS]
    rw [countB_eq b, countE_eq cond]; omega
  | .while_ _ cond b, c => by
    simp only [countS, ptsS]
    rw [countB_eq b, countE_eq cond]; omega
  | .unsupported _, c => by simp [countS, ptsS]
theorem countEIL_eq : (es : ElseIfList) → (c : Nat) → countEIL es c = c + ptsEIL es
  | .nil, c => by simp [countEIL, ptsEIL]
  | .cons (.mk _ cond b) rest, c => by
    simp only [countEIL, ptsEIL]
    rw [countEIL_eq rest, countB_eq b, countE_eq cond]; omega
end

/-- **the complexity of a function is one plus the number of decision points its body's walk reaches** -/
theorem complexity_eq (sp : Span) (ps : List Param) (b : Block) : complexity (.mk sp ps b) = 1 + ptsB b := by
  simp [complexity, countB_eq]

/-- a function is reported exactly when that number reaches the configured maximum -/
theorem reported_iff (max start : Nat) (sp : Span) (ps : List Param) (b : Block) :
    diagOf max start (.mk sp ps b) ≠ [] ↔ ptsB b ≥ max := by
  unfold diagOf
  rw [complexity_eq]
  split <;> simp <;> omega

/-- what the walk does not reach: the `else` block of an `if` (here `if a then else if b then end end`, tokens
abstracted) contributes nothing -/
example :
    let inner : Stmt := .if_ ⟨4, 7⟩ (.var (.name ⟨5, "b"⟩)) (.mk none .nil .none) .nil .none
    let outer : Stmt := .if_ ⟨0, 8⟩ (.var (.name ⟨1, "a"⟩)) (.mk none .nil .none) .nil (.some (.mk none (.cons inner .nil) .none))
    ptsS outer = 1 ∧ ptsS inner = 1 := by decide

end Selene.Lints.Cyclomatic
