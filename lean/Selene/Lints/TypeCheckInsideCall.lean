/- `type_check_inside_call` — selene-lib/src/lints/type_check_inside_call.rs:52-72 -/
import Selene.Lints.TraverseA
namespace Selene.Lints.TypeCheckInsideCall
open Selene.Lua Selene.Lints

def message : String := "you are checking the type inside the call, not outside"

/-- `is_type_function` (ast_util/mod.rs:23-25) -/
def isTypeFunction (name : String) (roblox : Bool) : Bool :=
  name == "type" || (name == "typeof" && roblox)

def isStringLit : Expr → Bool
  | .str _ _ _ => true
  | _ => false

/-- `visit_function_call` (rs:53-71).  The label is the range of the *first call suffix* (the inner
`call` binding shadows the function call), i.e. the parenthesised argument list. -/
def hook (roblox : Bool) : Node → List Diag
  | .call (.mk _ (.name name) (.cons (.args asp (.parens _ (.cons (.bin _ _ op rhs) _))) _)) =>
    if isTypeFunction name.text roblox && op.text == "==" && isStringLit rhs then
      [{ code := "type_check_inside_call", primary := asp, msg := message }]
    else []
  | _ => []

def lint (roblox : Bool) (b : Block) : List Diag := runLint (hook roblox) b
end Selene.Lints.TypeCheckInsideCall
