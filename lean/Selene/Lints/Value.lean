/-
Values denoted by Lua 5.1 literals, used by the C04 specifications ("literals are judged by the
value they denote, not by how they are spelled").

* `numValue : String → Option NumVal` — the exact non-negative rational a Lua 5.1 numeral spells
  (decimal, fraction, exponent, `0x` hexadecimal integer).  `none` = not a Lua 5.1 numeral (Luau
  underscores, binary, LuaJIT suffixes, hex floats): the specifications then say nothing.
  Lua stores the numeral as the nearest IEEE double (ties to even); the three questions the lints
  ask are decided exactly on the rational:
    `denotesZero v`  ⇔ the double nearest to v is 0        ⇔ v ≤ 2^-1075
    `denotesLeOne v` ⇔ the double nearest to v is ≤ 1      ⇔ v ≤ 1 + 2^-53
    `NumVal.eqv`     — equality of the exact rationals (implies equality of the doubles; the
                        converse direction is only needed for by-value misses, which are notes).
* `rustF64LeOne`, `numberIsZero` — the Rust predicates of the current code (see their docstrings).
* `rustF32LeOne` — what `str::parse::<f32>(text).ok() <= Some(1.0)` computes
  (suspicious_reverse_loop.rs:59): Rust's float grammar accepts exactly the decimal forms below
  (no hex, no underscores); a parse failure is `None`, and `None <= Some(_)` is true; a success is
  the correctly rounded f32, which is ≤ 1.0 iff the exact value is ≤ 1 + 2^-24 (ties to even).
* `unescape` / `strValue` — the byte string a Lua 5.1 string literal denotes (escapes `\a \b \f \n
  \r \t \v \\ \" \' \<newline> \ddd`; Lua 5.1 maps any other `\c` to `c`; long brackets take no
  escapes and drop one leading newline).  A decimal escape above 255 is a lexical error in Lua;
  `unescape` keeps the number so that it stays total.
-/
namespace Selene.Lints

structure NumVal where
  num : Nat
  den : Nat
deriving Repr, DecidableEq, Inhabited

def NumVal.le (a b : NumVal) : Bool := a.num * b.den ≤ b.num * a.den
def NumVal.eqv (a b : NumVal) : Bool := a.num * b.den == b.num * a.den

/-- the nearest double is `0` -/
def NumVal.denotesZero (v : NumVal) : Bool := v.num * 2 ^ 1075 ≤ v.den
/-- the nearest double is `≤ 1` -/
def NumVal.denotesLeOne (v : NumVal) : Bool := v.num * 2 ^ 53 ≤ (2 ^ 53 + 1) * v.den
/-- the nearest f32 is `≤ 1` -/
def NumVal.f32LeOne (v : NumVal) : Bool := v.num * 2 ^ 24 ≤ (2 ^ 24 + 1) * v.den

def isDec (c : Char) : Bool := '0' ≤ c && c ≤ '9'
def decVal (c : Char) : Nat := c.toNat - 48
def isHex (c : Char) : Bool := isDec c || ('a' ≤ c && c ≤ 'f') || ('A' ≤ c && c ≤ 'F')
def hexVal (c : Char) : Nat :=
  if isDec c then c.toNat - 48 else if 'a' ≤ c && c ≤ 'f' then c.toNat - 87 else c.toNat - 55

/-- greedy run of decimal digits: (accumulated value, number of digits, rest) -/
def readDigits : List Char → Nat → Nat → Nat × Nat × List Char
  | [], acc, n => (acc, n, [])
  | c :: cs, acc, n => if isDec c then readDigits cs (acc * 10 + decVal c) (n + 1) else (acc, n, c :: cs)

def readHexDigits : List Char → Nat → Nat → Nat × Nat × List Char
  | [], acc, n => (acc, n, [])
  | c :: cs, acc, n => if isHex c then readHexDigits cs (acc * 16 + hexVal c) (n + 1) else (acc, n, c :: cs)

def mkVal (m : Nat) (e : Int) : NumVal :=
  if e ≥ 0 then ⟨m * 10 ^ e.toNat, 1⟩ else ⟨m, 10 ^ (-e).toNat⟩

/-- `digits [. digits] [(e|E) [+|-] digits]` with at least one mantissa digit: the grammar shared by
Lua 5.1 decimal numerals and Rust's `f32::from_str` (without sign / inf / nan, which no number
token spells) -/
def decimalValue (cs : List Char) : Option NumVal :=
  let (ip, ni, r1) := readDigits cs 0 0
  let (m, nf, r2) := match r1 with
    | '.' :: r => readDigits r ip 0
    | _ => (ip, 0, r1)
  if ni + nf = 0 then none
  else match r2 with
    | [] => some (mkVal m (-(nf : Int)))
    | e :: r =>
      if e = 'e' || e = 'E' then
        let (neg, r3) := match r with
          | '-' :: r' => (true, r')
          | '+' :: r' => (false, r')
          | _ => (false, r)
        let (ev, ne, r4) := readDigits r3 0 0
        if ne = 0 || !r4.isEmpty then none
        else some (mkVal m ((if neg then -(ev : Int) else (ev : Int)) - (nf : Int)))
      else none

def hexValue (cs : List Char) : Option NumVal :=
  match cs with
  | '0' :: x :: r =>
    if x = 'x' || x = 'X' then
      let (v, n, rest) := readHexDigits r 0 0
      if n = 0 || !rest.isEmpty then none else some ⟨v, 1⟩
    else none
  | _ => none

/-- the value a Lua 5.1 numeral denotes -/
def numValue (text : String) : Option NumVal :=
  match hexValue text.toList with
  | some v => some v
  | none => decimalValue text.toList

/-- `str::parse::<f32>(text).ok() <= Some(1.0)` (suspicious_reverse_loop before /repo 9a12c1a; kept for reference) -/
def rustF32LeOne (text : String) : Bool :=
  match decimalValue text.toList with
  | none => true
  | some v => v.f32LeOne

/-- `if let Ok(end) = str::parse::<f64>(text); if end <= 1.0` (suspicious_reverse_loop.rs:59-60): Rust's
float grammar on number tokens is `decimalValue`'s; the result is the correctly rounded double, which is
`<= 1.0` iff the exact value is `≤ 1 + 2^-53` -/
def rustF64LeOne (text : String) : Bool :=
  match decimalValue text.toList with
  | none => false
  | some v => v.denotesLeOne

/-- `number_value(text)` is `Some(end)` with `end <= 1.0` (suspicious_reverse_loop.rs:59-60, 71-77, since
/repo fe466a6): after a `0x` / `0X` prefix `u64::from_str_radix(rest, 16)` (a non-empty run of hexadecimal
digits below 2^64; a number token never carries the `+` sign that function would also accept), converted to
a double, which is `<= 1.0` iff the integer is `≤ 1`; otherwise `parse::<f64>().ok()` as in `rustF64LeOne`. -/
def numberValueLeOne (text : String) : Bool :=
  match text.toList with
  | '0' :: x :: hex =>
    if x = 'x' || x = 'X' then
      let rd := readHexDigits hex 0 0
      rd.2.1 != 0 && rd.2.2.isEmpty && decide (rd.1 < 2 ^ 64) && decide (rd.1 ≤ 1)
    else rustF64LeOne text
  | _ => rustF64LeOne text

/-- `text.parse::<f64>() == Ok(0.0)` -/
def rustF64IsZero (cs : List Char) : Bool :=
  match decimalValue cs with
  | none => false
  | some v => v.denotesZero

/-- `ast_util::number_is_zero` (ast_util/mod.rs:51-56): after a `0x` / `0X` prefix, a non-empty run of
`0`s; otherwise a text that parses as the double `0.0` -/
def numberIsZero (text : String) : Bool :=
  match text.toList with
  | '0' :: x :: hex =>
    if x = 'x' || x = 'X' then !hex.isEmpty && hex.all (· == '0')
    else rustF64IsZero ('0' :: x :: hex)
  | cs => rustF64IsZero cs

/-- UTF-8 encoding of one character -/
def charBytes (c : Char) : List Nat :=
  let n := c.toNat
  if n < 0x80 then [n]
  else if n < 0x800 then [0xC0 + n / 64, 0x80 + n % 64]
  else if n < 0x10000 then [0xE0 + n / 4096, 0x80 + (n / 64) % 64, 0x80 + n % 64]
  else [0xF0 + n / 262144, 0x80 + (n / 4096) % 64, 0x80 + (n / 64) % 64, 0x80 + n % 64]

def bytesOf : List Char → List Nat
  | [] => []
  | c :: cs => charBytes c ++ bytesOf cs

inductive EscSt where
  | normal
  | esc                 -- just after a backslash
  | d1 (v : Nat)        -- after `\d`
  | d2 (v : Nat)        -- after `\dd`
deriving Repr, DecidableEq

def simpleEscape (c : Char) : Option Nat :=
  if c = 'a' then some 7 else if c = 'b' then some 8 else if c = 'f' then some 12
  else if c = 'n' then some 10 else if c = 'r' then some 13 else if c = 't' then some 9
  else if c = 'v' then some 11 else none

/-- Lua 5.1 `read_string` escapes (llex.c:283-330), on the text between the quotes, as a one-pass
state machine (so that it is structurally recursive) -/
def unesc : EscSt → List Char → List Nat
  | .normal, [] => []
  | .esc, [] => [92]
  | .d1 v, [] => [v]
  | .d2 v, [] => [v]
  | .normal, c :: cs => if c = '\\' then unesc .esc cs else charBytes c ++ unesc .normal cs
  | .esc, c :: cs =>
    match simpleEscape c with
    | some b => b :: unesc .normal cs
    | none =>
      if isDec c then unesc (.d1 (decVal c)) cs
      else charBytes c ++ unesc .normal cs      -- `\\`, `\"`, `\'`, `\<newline>`, and any other `\c` ↦ `c`
  | .d1 v, c :: cs =>
    if isDec c then unesc (.d2 (v * 10 + decVal c)) cs
    else if c = '\\' then v :: unesc .esc cs else v :: (charBytes c ++ unesc .normal cs)
  | .d2 v, c :: cs =>
    if isDec c then (v * 10 + decVal c) :: unesc .normal cs
    else if c = '\\' then v :: unesc .esc cs else v :: (charBytes c ++ unesc .normal cs)

def unescape (cs : List Char) : List Nat := unesc .normal cs

def dropLeadingNewline : List Char → List Char
  | '\r' :: '\n' :: r => r
  | '\n' :: '\r' :: r => r
  | '\n' :: r => r
  | '\r' :: r => r
  | r => r

/-- `brackets = true`: long-bracket literal (no escapes) -/
def strValue (brackets : Bool) (literal : String) : List Nat :=
  if brackets then bytesOf (dropLeadingNewline literal.toList) else unescape literal.toList

end Selene.Lints
