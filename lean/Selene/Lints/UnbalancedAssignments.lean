/-
`unbalanced_assignments` (selene-lib/src/lints/unbalanced_assignments.rs).
Hooks: `visit_assignment`, `visit_local_assignment` → `lint_assignment(lhs count, rhs)`.
-/
import Selene.Lints.TraverseB
namespace Selene.LintsB.UnbalancedAssignments
open Selene.Lua Selene.LintsB

/-- `expression_is_call` -/
def exprIsCall : Expr → Bool
  | .paren _ e => exprIsCall e
  | .call _ => true
  | _ => false

/-- `expression_is_nil` -/
def exprIsNil : Expr → Bool
  | .paren _ e => exprIsNil e
  | .nil _ => true
  | _ => false

/-- `expression_is_ellipsis` -/
def exprIsEllipsis : Expr → Bool
  | .dots _ => true
  | _ => false

def msgMore : String := "too many values on the right side of the assignment"
def msgLess : String := "values on right side don't match up to the left side of the assignment"

/-- `lint_assignment` -/
def lintAssignment (lhs : Nat) (rhs : List Expr) : List Diag :=
  match rhs.getLast?, rhs.head? with
  | some last, some first =>
    if rhs.length > lhs then
      match rhs[lhs]? with
      | some e => [{ code := "unbalanced_assignments", primary := ⟨e.span.first, last.span.last⟩, msg := msgMore }]
      | none => []
    else if rhs.length < lhs && !exprIsEllipsis last && !exprIsCall last && !exprIsNil last then
      [{ code := "unbalanced_assignments", primary := ⟨first.span.first, last.span.last⟩, msg := msgLess,
         secondary := ((rhs.find? exprIsCall).map Expr.span).toList }]
    else []
  | _, _ => []

/-- the two hooks: (number of targets, values) of an assignment statement -/
def assignShape : Stmt → Option (Nat × List Expr)
  | .assign _ vars es => some (vars.toList.length, es.toList)
  | .localAssign _ names es => some (names.length, es.toList)
  | _ => none

def collect : Node → List Diag
  | .stmt s => match assignShape s with
    | some (lhs, rhs) => lintAssignment lhs rhs
    | none => []
  | _ => []

def run (b : Block) : List Diag := (nBlock b).flatMap collect

/-! ### documented condition (docs/src/lints/unbalanced_assignments.md), values judged by what they denote -/
namespace Doc

/-- parentheses do not change which value a `nil` literal denotes -/
def denotesNil : Expr → Bool
  | .paren _ e => denotesNil e
  | .nil _ => true
  | _ => false

/-- "`a, b, c = call()` will not lint, as `call()` could return multiple values": only an unparenthesised
    call or `...` in last position is multi-valued -/
def multiValued : Expr → Bool
  | .call _ => true
  | .dots _ => true
  | _ => false

/-- the statement is an unbalanced assignment in the documented sense: there is a right-hand side, the counts
    differ, and when values are missing the last one is neither multi-valued nor `nil` -/
def unbalanced (lhs : Nat) (rhs : List Expr) : Prop :=
  ∃ last, rhs.getLast? = some last ∧
    (rhs.length > lhs ∨ (rhs.length < lhs ∧ multiValued last = false ∧ denotesNil last = false))

end Doc

/-- where the code is *more* lenient than the documented condition: a parenthesised call in last position is
    treated like a call, although the parentheses truncate it to one value (never a false positive) -/
def parenthesisedCall : Expr → Bool
  | .paren _ e => exprIsCall e
  | _ => false

end Selene.LintsB.UnbalancedAssignments
