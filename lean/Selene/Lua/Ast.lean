/-
Syntax tree of the modelled Lua 5.1 subset, mirroring full_moon's node structure
(`Expression`, `Var`, `Prefix`, `Suffix`, `FunctionArgs`, `FunctionCall`, `Field`, `FunctionBody`,
`Stmt`, `LastStmt`, `Block`).  Tokens are identified by their index in source order; every node that
can be the range of a diagnostic carries the indices of its first and last token.  Byte offsets
live only in the separate `Layout`, which model functions do not receive unless a lint is
documented to look at line structure.  Lists inside the mutual block are explicit `nil/cons`
types so that every model function is structurally recursive.
-/
namespace Selene.Lua

structure Tok where
  idx : Nat
  text : String
deriving DecidableEq, Repr, Inhabited

structure Span where
  first : Nat
  last : Nat
deriving DecidableEq, Repr, Inhabited

inductive Param where
  | name (t : Tok)
  | dots (t : Tok)
deriving DecidableEq, Repr, Inhabited

inductive QuoteKind where
  | single | double | brackets | other
deriving DecidableEq, Repr, Inhabited

structure FuncName where
  span : Span
  names : List Tok
  method : Option Tok
deriving DecidableEq, Repr, Inhabited

mutual
inductive Expr where
  | nil (t : Tok)
  | true_ (t : Tok)
  | false_ (t : Tok)
  | dots (t : Tok)
  | num (t : Tok)
  | str (t : Tok) (q : QuoteKind) (literal : String)
  | func (sp : Span) (kw : Tok) (body : FuncBody)
  | paren (sp : Span) (e : Expr)
  | un (sp : Span) (op : Tok) (e : Expr)
  | bin (sp : Span) (l : Expr) (op : Tok) (r : Expr)
  | tbl (sp : Span) (fields : FieldList)
  | var (v : Var)
  | call (c : FCall)
  | unsupported (sp : Span)
inductive ExprList where
  | nil
  | cons (e : Expr) (rest : ExprList)
inductive Var where
  | name (t : Tok)
  | expr (sp : Span) (p : Prefix) (ss : SuffixList)
inductive VarList where
  | nil
  | cons (v : Var) (rest : VarList)
inductive Prefix where
  | name (t : Tok)
  | expr (e : Expr)
inductive Suffix where
  | dot (sp : Span) (name : Tok)
  | idx (sp : Span) (e : Expr)
  | args (sp : Span) (a : Args)
  | meth (sp : Span) (name : Tok) (a : Args)
  | unsupported (sp : Span)
inductive SuffixList where
  | nil
  | cons (s : Suffix) (rest : SuffixList)
inductive Args where
  | parens (sp : Span) (es : ExprList)
  | str (t : Tok) (q : QuoteKind) (literal : String)
  | tbl (sp : Span) (fields : FieldList)
inductive FCall where
  | mk (sp : Span) (p : Prefix) (ss : SuffixList)
inductive Field where
  | exprKey (sp : Span) (k v : Expr)
  | nameKey (sp : Span) (k : Tok) (v : Expr)
  | noKey (v : Expr)
  | unsupported (sp : Span)
inductive FieldList where
  | nil
  | cons (f : Field) (rest : FieldList)
inductive FuncBody where
  | mk (sp : Span) (params : List Param) (b : Block)
inductive Stmt where
  | assign (sp : Span) (vars : VarList) (es : ExprList)
  | localAssign (sp : Span) (names : List Tok) (es : ExprList)
  | call (c : FCall)
  | do_ (sp : Span) (b : Block)
  | while_ (sp : Span) (c : Expr) (b : Block)
  | repeat_ (sp : Span) (b : Block) (c : Expr)
  | if_ (sp : Span) (c : Expr) (b : Block) (elifs : ElseIfList) (els : OptBlock)
  | numFor (sp : Span) (v : Tok) (comma : Tok) (start stop : Expr) (step : OptExpr) (b : Block)
  | genFor (sp : Span) (names : List Tok) (es : ExprList) (b : Block)
  | func (sp : Span) (name : FuncName) (body : FuncBody)
  | localFunc (sp : Span) (name : Tok) (body : FuncBody)
  | unsupported (sp : Span)
inductive StmtList where
  | nil
  | cons (s : Stmt) (rest : StmtList)
inductive ElseIf where
  | mk (sp : Span) (c : Expr) (b : Block)
inductive ElseIfList where
  | nil
  | cons (e : ElseIf) (rest : ElseIfList)
inductive OptBlock where
  | none
  | some (b : Block)
inductive OptExpr where
  | none
  | some (e : Expr)
inductive LastStmt where
  | none
  | ret (sp : Span) (es : ExprList)
  | brk (t : Tok)
inductive Block where
  | mk (sp : Option Span) (stmts : StmtList) (last : LastStmt)
end

structure TokLayout where
  start : Nat
  stop : Nat
  startLine : Nat
  stopLine : Nat
deriving DecidableEq, Repr, Inhabited

abbrev Layout := Array TokLayout

structure Chunk where
  block : Block
  layout : Layout

def ExprList.toList : ExprList → List Expr
  | .nil => []
  | .cons e rest => e :: rest.toList

def ExprList.length : ExprList → Nat
  | .nil => 0
  | .cons _ rest => rest.length + 1

def SuffixList.toList : SuffixList → List Suffix
  | .nil => []
  | .cons s rest => s :: rest.toList

def VarList.toList : VarList → List Var
  | .nil => []
  | .cons v rest => v :: rest.toList

def FieldList.toList : FieldList → List Field
  | .nil => []
  | .cons f rest => f :: rest.toList

def StmtList.toList : StmtList → List Stmt
  | .nil => []
  | .cons s rest => s :: rest.toList

def ElseIfList.toList : ElseIfList → List ElseIf
  | .nil => []
  | .cons e rest => e :: rest.toList

def ExprList.ofList : List Expr → ExprList
  | [] => .nil
  | e :: rest => .cons e (ExprList.ofList rest)
def SuffixList.ofList : List Suffix → SuffixList
  | [] => .nil
  | e :: rest => .cons e (SuffixList.ofList rest)
def VarList.ofList : List Var → VarList
  | [] => .nil
  | e :: rest => .cons e (VarList.ofList rest)
def FieldList.ofList : List Field → FieldList
  | [] => .nil
  | e :: rest => .cons e (FieldList.ofList rest)
def StmtList.ofList : List Stmt → StmtList
  | [] => .nil
  | e :: rest => .cons e (StmtList.ofList rest)
def ElseIfList.ofList : List ElseIf → ElseIfList
  | [] => .nil
  | e :: rest => .cons e (ElseIfList.ofList rest)

/-- first / last token of an expression (its range) -/
def Expr.span : Expr → Span
  | .nil t | .true_ t | .false_ t | .dots t | .num t | .str t _ _ => ⟨t.idx, t.idx⟩
  | .func sp _ _ | .paren sp _ | .un sp _ _ | .bin sp _ _ _ | .tbl sp _ | .unsupported sp => sp
  | .var (.name t) => ⟨t.idx, t.idx⟩
  | .var (.expr sp _ _) => sp
  | .call (.mk sp _ _) => sp

def Var.span : Var → Span
  | .name t => ⟨t.idx, t.idx⟩
  | .expr sp _ _ => sp

def Suffix.span : Suffix → Span
  | .dot sp _ | .idx sp _ | .args sp _ | .meth sp _ _ | .unsupported sp => sp

def Suffix.isCall : Suffix → Bool
  | .args _ _ | .meth _ _ _ => true
  | _ => false

def FCall.span : FCall → Span
  | .mk sp _ _ => sp

end Selene.Lua
