/-
Consistent renaming of every identifier token of a syntax tree (`ρ` applied to the text of every
name in a variable / parameter / declaration position; keys of table fields, method names and field
names after `.` are not variables and are left alone, as are literals and operators).
-/
import Selene.Lua.Ast
namespace Selene.Lua

def Tok.ren (ρ : String → String) (t : Tok) : Tok := { t with text := ρ t.text }

def Param.ren (ρ : String → String) : Param → Param
  | .name t => .name (t.ren ρ)
  | .dots t => .dots t

def FuncName.ren (ρ : String → String) (n : FuncName) : FuncName :=
  { n with names := match n.names with
      | [] => []
      | base :: more => base.ren ρ :: more }

mutual
def Expr.ren (ρ : String → String) : Expr → Expr
  | .func sp kw body => .func sp kw (body.ren ρ)
  | .paren sp e => .paren sp (e.ren ρ)
  | .un sp op e => .un sp op (e.ren ρ)
  | .bin sp l op r => .bin sp (l.ren ρ) op (r.ren ρ)
  | .tbl sp fs => .tbl sp (fs.ren ρ)
  | .var v => .var (v.ren ρ)
  | .call c => .call (c.ren ρ)
  | .dots t => .dots (t.ren ρ)
  | e => e
def ExprList.ren (ρ : String → String) : ExprList → ExprList
  | .nil => .nil
  | .cons e rest => .cons (e.ren ρ) (rest.ren ρ)
def Var.ren (ρ : String → String) : Var → Var
  | .name t => .name (t.ren ρ)
  | .expr sp p ss => .expr sp (p.ren ρ) (ss.ren ρ)
def VarList.ren (ρ : String → String) : VarList → VarList
  | .nil => .nil
  | .cons v rest => .cons (v.ren ρ) (rest.ren ρ)
def Prefix.ren (ρ : String → String) : Prefix → Prefix
  | .name t => .name (t.ren ρ)
  | .expr e => .expr (e.ren ρ)
def Suffix.ren (ρ : String → String) : Suffix → Suffix
  | .idx sp e => .idx sp (e.ren ρ)
  | .args sp a => .args sp (a.ren ρ)
  | .meth sp n a => .meth sp n (a.ren ρ)
  | s => s
def SuffixList.ren (ρ : String → String) : SuffixList → SuffixList
  | .nil => .nil
  | .cons s rest => .cons (s.ren ρ) (rest.ren ρ)
def Args.ren (ρ : String → String) : Args → Args
  | .parens sp es => .parens sp (es.ren ρ)
  | .tbl sp fs => .tbl sp (fs.ren ρ)
  | a => a
def FCall.ren (ρ : String → String) : FCall → FCall
  | .mk sp p ss => .mk sp (p.ren ρ) (ss.ren ρ)
def Field.ren (ρ : String → String) : Field → Field
  | .exprKey sp k v => .exprKey sp (k.ren ρ) (v.ren ρ)
  | .nameKey sp k v => .nameKey sp k (v.ren ρ)
  | .noKey v => .noKey (v.ren ρ)
  | f => f
def FieldList.ren (ρ : String → String) : FieldList → FieldList
  | .nil => .nil
  | .cons f rest => .cons (f.ren ρ) (rest.ren ρ)
def FuncBody.ren (ρ : String → String) : FuncBody → FuncBody
  | .mk sp params b => .mk sp (params.map (Param.ren ρ)) (b.ren ρ)
def Stmt.ren (ρ : String → String) : Stmt → Stmt
  | .assign sp vars es => .assign sp (vars.ren ρ) (es.ren ρ)
  | .localAssign sp names es => .localAssign sp (names.map (Tok.ren ρ)) (es.ren ρ)
  | .call c => .call (c.ren ρ)
  | .do_ sp b => .do_ sp (b.ren ρ)
  | .while_ sp c b => .while_ sp (c.ren ρ) (b.ren ρ)
  | .repeat_ sp b c => .repeat_ sp (b.ren ρ) (c.ren ρ)
  | .if_ sp c b elifs els => .if_ sp (c.ren ρ) (b.ren ρ) (elifs.ren ρ) (els.ren ρ)
  | .numFor sp v comma start stop step b => .numFor sp (v.ren ρ) comma (start.ren ρ) (stop.ren ρ) (step.ren ρ) (b.ren ρ)
  | .genFor sp names es b => .genFor sp (names.map (Tok.ren ρ)) (es.ren ρ) (b.ren ρ)
  | .func sp name body => .func sp (name.ren ρ) (body.ren ρ)
  | .localFunc sp name body => .localFunc sp (name.ren ρ) (body.ren ρ)
  | .unsupported sp => .unsupported sp
def StmtList.ren (ρ : String → String) : StmtList → StmtList
  | .nil => .nil
  | .cons s rest => .cons (s.ren ρ) (rest.ren ρ)
def ElseIf.ren (ρ : String → String) : ElseIf → ElseIf
  | .mk sp c b => .mk sp (c.ren ρ) (b.ren ρ)
def ElseIfList.ren (ρ : String → String) : ElseIfList → ElseIfList
  | .nil => .nil
  | .cons e rest => .cons (e.ren ρ) (rest.ren ρ)
def OptBlock.ren (ρ : String → String) : OptBlock → OptBlock
  | .none => .none
  | .some b => .some (b.ren ρ)
def OptExpr.ren (ρ : String → String) : OptExpr → OptExpr
  | .none => .none
  | .some e => .some (e.ren ρ)
def LastStmt.ren (ρ : String → String) : LastStmt → LastStmt
  | .ret sp es => .ret sp (es.ren ρ)
  | l => l
def Block.ren (ρ : String → String) : Block → Block
  | .mk sp stmts last => .mk sp (stmts.ren ρ) (last.ren ρ)
end

end Selene.Lua
