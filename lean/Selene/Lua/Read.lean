/- Reader for the AST exchange format (driver glue, trusted; exercised on every program). -/
import Selene.Sexp
import Selene.Lua.Ast
namespace Selene.Lua
open Selene

def readTok : Sexp → Option Tok
  | .list [i, t] => do some { idx := ← i.asNat?, text := ← t.asString? }
  | _ => none

def readQuote : Sexp → QuoteKind
  | .atom "Single" => .single
  | .atom "Double" => .double
  | .atom "Brackets" => .brackets
  | _ => .other

def mkSpan (a b : Sexp) : Option Span := do some { first := ← a.asNat?, last := ← b.asNat? }

mutual
partial def readExpr : Sexp → Option Expr
  | .list [.atom "nil", t] => do some (.nil (← readTok t))
  | .list [.atom "true", t] => do some (.true_ (← readTok t))
  | .list [.atom "false", t] => do some (.false_ (← readTok t))
  | .list [.atom "dots", t] => do some (.dots (← readTok t))
  | .list [.atom "num", t] => do some (.num (← readTok t))
  | .list [.atom "str", t, q, l] => do some (.str (← readTok t) (readQuote q) (← l.asString?))
  | .list [.atom "func", a, b, kw, body] => do some (.func (← mkSpan a b) (← readTok kw) (← readBody body))
  | .list [.atom "paren", a, b, e] => do some (.paren (← mkSpan a b) (← readExpr e))
  | .list [.atom "un", a, b, op, e] => do some (.un (← mkSpan a b) (← readTok op) (← readExpr e))
  | .list [.atom "bin", a, b, l, op, r] => do some (.bin (← mkSpan a b) (← readExpr l) (← readTok op) (← readExpr r))
  | .list (.atom "tbl" :: a :: b :: fs) => do some (.tbl (← mkSpan a b) (FieldList.ofList (← fs.mapM readField)))
  | .list [.atom "var", v] => do some (.var (← readVar v))
  | .list [.atom "call", c] => do some (.call (← readFCall c))
  | .list [.atom "unsupported", a, b] => do some (.unsupported (← mkSpan a b))
  | _ => none
partial def readField : Sexp → Option Field
  | .list [.atom "fexpr", a, b, k, v] => do some (.exprKey (← mkSpan a b) (← readExpr k) (← readExpr v))
  | .list [.atom "fname", a, b, k, v] => do some (.nameKey (← mkSpan a b) (← readTok k) (← readExpr v))
  | .list [.atom "fval", v] => do some (.noKey (← readExpr v))
  | .list [.atom "unsupported", a, b] => do some (.unsupported (← mkSpan a b))
  | _ => none
partial def readVar : Sexp → Option Var
  | .list [.atom "vname", t] => do some (.name (← readTok t))
  | .list (.atom "vexpr" :: a :: b :: p :: ss) => do
    some (.expr (← mkSpan a b) (← readPrefix p) (SuffixList.ofList (← ss.mapM readSuffix)))
  | _ => none
partial def readPrefix : Sexp → Option Prefix
  | .list [.atom "pname", t] => do some (.name (← readTok t))
  | .list [.atom "pexpr", e] => do some (.expr (← readExpr e))
  | _ => none
partial def readArgs : Sexp → Option Args
  | .list (.atom "parens" :: a :: b :: es) => do some (.parens (← mkSpan a b) (ExprList.ofList (← es.mapM readExpr)))
  | .list [.atom "sarg", t, q, l] => do some (.str (← readTok t) (readQuote q) (← l.asString?))
  | .list (.atom "targ" :: a :: b :: fs) => do some (.tbl (← mkSpan a b) (FieldList.ofList (← fs.mapM readField)))
  | _ => none
partial def readSuffix : Sexp → Option Suffix
  | .list [.atom "dot", a, b, t] => do some (.dot (← mkSpan a b) (← readTok t))
  | .list [.atom "idx", a, b, e] => do some (.idx (← mkSpan a b) (← readExpr e))
  | .list [.atom "args", a, b, x] => do some (.args (← mkSpan a b) (← readArgs x))
  | .list [.atom "meth", a, b, t, x] => do some (.meth (← mkSpan a b) (← readTok t) (← readArgs x))
  | .list [.atom "unsupported", a, b] => do some (.unsupported (← mkSpan a b))
  | _ => none
partial def readFCall : Sexp → Option FCall
  | .list (.atom "fcall" :: a :: b :: p :: ss) => do
    some (.mk (← mkSpan a b) (← readPrefix p) (SuffixList.ofList (← ss.mapM readSuffix)))
  | _ => none
partial def readBody : Sexp → Option FuncBody
  | .list [.atom "body", a, b, .list ps, blk] => do
    let params ← ps.mapM fun p => match p with
      | .list [.atom "pn", t] => (readTok t).map Param.name
      | .list [.atom "pd", t] => (readTok t).map Param.dots
      | _ => none
    some (.mk (← mkSpan a b) params (← readBlock blk))
  | _ => none
partial def readBlock : Sexp → Option Block
  | .list [.atom "block", sp, .list stmts, last] => do
    let span ← match sp with
      | .atom "none" => some none
      | .list [a, b] => (mkSpan a b).map some
      | _ => none
    let l ← match last with
      | .atom "none" => some LastStmt.none
      | .list (.atom "ret" :: a :: b :: es) => do some (LastStmt.ret (← mkSpan a b) (ExprList.ofList (← es.mapM readExpr)))
      | .list [.atom "break", t] => do some (LastStmt.brk (← readTok t))
      | _ => none
    some (.mk span (StmtList.ofList (← stmts.mapM readStmt)) l)
  | _ => none
partial def readStmt : Sexp → Option Stmt
  | .list [.atom "assign", a, b, .list vs, .list es] => do
    some (.assign (← mkSpan a b) (VarList.ofList (← vs.mapM readVar)) (ExprList.ofList (← es.mapM readExpr)))
  | .list [.atom "local", a, b, .list ns, .list es] => do
    some (.localAssign (← mkSpan a b) (← ns.mapM readTok) (ExprList.ofList (← es.mapM readExpr)))
  | .list [.atom "scall", c] => do some (.call (← readFCall c))
  | .list [.atom "do", a, b, blk] => do some (.do_ (← mkSpan a b) (← readBlock blk))
  | .list [.atom "while", a, b, c, blk] => do some (.while_ (← mkSpan a b) (← readExpr c) (← readBlock blk))
  | .list [.atom "repeat", a, b, blk, c] => do some (.repeat_ (← mkSpan a b) (← readBlock blk) (← readExpr c))
  | .list [.atom "if", a, b, c, blk, .list elifs, els] => do
    let eis ← elifs.mapM fun e => match e with
      | .list [.atom "elif", a, b, c, blk] => do some (ElseIf.mk (← mkSpan a b) (← readExpr c) (← readBlock blk))
      | _ => none
    let e ← match els with
      | .atom "none" => some OptBlock.none
      | x => (readBlock x).map OptBlock.some
    some (.if_ (← mkSpan a b) (← readExpr c) (← readBlock blk) (ElseIfList.ofList eis) e)
  | .list [.atom "nfor", a, b, v, comma, s, e, st, blk] => do
    let step ← match st with
      | .atom "none" => some OptExpr.none
      | x => (readExpr x).map OptExpr.some
    some (.numFor (← mkSpan a b) (← readTok v) (← readTok comma) (← readExpr s) (← readExpr e) step (← readBlock blk))
  | .list [.atom "gfor", a, b, .list ns, .list es, blk] => do
    some (.genFor (← mkSpan a b) (← ns.mapM readTok) (ExprList.ofList (← es.mapM readExpr)) (← readBlock blk))
  | .list [.atom "func", a, b, .list [.atom "fname", na, nb, .list ns, m], body] => do
    let meth ← match m with
      | .atom "none" => some none
      | x => (readTok x).map some
    some (.func (← mkSpan a b) { span := ← mkSpan na nb, names := ← ns.mapM readTok, method := meth } (← readBody body))
  | .list [.atom "lfunc", a, b, t, body] => do some (.localFunc (← mkSpan a b) (← readTok t) (← readBody body))
  | .list [.atom "unsupported", a, b] => do some (.unsupported (← mkSpan a b))
  | _ => none
end

def readLayout : Sexp → Option Layout
  | .list xs => do
    let l ← xs.mapM fun x => match x with
      | .list [a, b, c, d] => do some ({ start := ← a.asNat?, stop := ← b.asNat?, startLine := ← c.asNat?, stopLine := ← d.asNat? } : TokLayout)
      | _ => none
    some l.toArray
  | _ => none

def readChunk : Sexp → Option Chunk
  | .list [.atom "chunk", b, l] => do some { block := ← readBlock b, layout := ← readLayout l }
  | _ => none

end Selene.Lua
