/-
S-expressions: the exchange format between the Rust harness (which runs the real selene code)
and the Lean model driver.  Reader and printer are driver glue (trusted, exercised by the
correspondence run), not part of any theorem.
-/
namespace Selene

inductive Sexp where
  | atom (s : String)
  | str (s : String)
  | list (xs : List Sexp)
deriving Repr, Inhabited, BEq

namespace Sexp

private def isAtomChar (c : Char) : Bool :=
  !(c == '(' || c == ')' || c == '"' || c == ' ' || c == '\n' || c == '\t' || c == '\r')

private def hexVal (c : Char) : Nat :=
  if '0' ≤ c ∧ c ≤ '9' then c.toNat - '0'.toNat
  else if 'a' ≤ c ∧ c ≤ 'f' then c.toNat - 'a'.toNat + 10
  else if 'A' ≤ c ∧ c ≤ 'F' then c.toNat - 'A'.toNat + 10
  else 0

/-- parse a quoted string starting *after* the opening quote -/
private partial def parseStr (a : Array Char) (i : Nat) (acc : String) : Option (String × Nat) :=
  if h : i < a.size then
    let c := a[i]
    if c == '"' then some (acc, i + 1)
    else if c == '\\' then
      if h2 : i + 1 < a.size then
        let d := a[i+1]
        if d == 'n' then parseStr a (i + 2) (acc.push '\n')
        else if d == 't' then parseStr a (i + 2) (acc.push '\t')
        else if d == 'r' then parseStr a (i + 2) (acc.push '\r')
        else if d == 'u' then
          -- \u{HEX}
          let rec go (j : Nat) (v : Nat) : Nat × Nat :=
            if h3 : j < a.size then
              if a[j] == '}' then (v, j + 1) else go (j + 1) (v * 16 + hexVal a[j])
            else (v, j)
          let (v, j) := go (i + 3) 0
          parseStr a j (acc.push (Char.ofNat v))
        else parseStr a (i + 2) (acc.push d)
      else none
    else parseStr a (i + 1) (acc.push c)
  else none

private partial def skipWs (a : Array Char) (i : Nat) : Nat :=
  if h : i < a.size then
    let c := a[i]
    if c == ' ' || c == '\n' || c == '\t' || c == '\r' then skipWs a (i + 1) else i
  else i

private partial def parseAtom (a : Array Char) (i : Nat) (acc : String) : String × Nat :=
  if h : i < a.size then
    if isAtomChar a[i] then parseAtom a (i + 1) (acc.push a[i]) else (acc, i)
  else (acc, i)

mutual
private partial def parseOne (a : Array Char) (i : Nat) : Option (Sexp × Nat) :=
  let i := skipWs a i
  if h : i < a.size then
    let c := a[i]
    if c == '(' then parseList a (i + 1) #[]
    else if c == '"' then
      match parseStr a (i + 1) "" with
      | some (s, j) => some (.str s, j)
      | none => none
    else if c == ')' then none
    else
      let (s, j) := parseAtom a i ""
      some (.atom s, j)
  else none
private partial def parseList (a : Array Char) (i : Nat) (acc : Array Sexp) : Option (Sexp × Nat) :=
  let i := skipWs a i
  if h : i < a.size then
    if a[i] == ')' then some (.list acc.toList, i + 1)
    else match parseOne a i with
      | some (x, j) => parseList a j (acc.push x)
      | none => none
  else none
end

def parse (s : String) : Option Sexp :=
  match parseOne s.toList.toArray 0 with
  | some (x, _) => some x
  | none => none

/-- all top-level expressions on a line -/
partial def parseMany (s : String) : List Sexp :=
  let a := s.toList.toArray
  let rec go (i : Nat) (acc : Array Sexp) : List Sexp :=
    match parseOne a i with
    | some (x, j) => go j (acc.push x)
    | none => acc.toList
  go 0 #[]

def quote (s : String) : String :=
  let body := s.foldl (fun acc c =>
    if c == '"' then acc ++ "\\\""
    else if c == '\\' then acc ++ "\\\\"
    else if c == '\n' then acc ++ "\\n"
    else if c == '\t' then acc ++ "\\t"
    else if c == '\r' then acc ++ "\\r"
    else if c.toNat < 0x20 || c.toNat == 0x7f || c.toNat == 0x85 || c.toNat == 0x2028 || c.toNat == 0x2029 then
      acc ++ "\\u{" ++ String.ofList (Nat.toDigits 16 c.toNat) ++ "}"
    else acc.push c) ""
  "\"" ++ body ++ "\""

partial def toString : Sexp → String
  | .atom s => s
  | .str s => quote s
  | .list xs => "(" ++ " ".intercalate (xs.map toString) ++ ")"

instance : ToString Sexp := ⟨Sexp.toString⟩

def asNat? : Sexp → Option Nat
  | .atom s => s.toNat?
  | _ => none

def asInt? : Sexp → Option Int
  | .atom s => s.toInt?
  | _ => none

def asString? : Sexp → Option String
  | .atom s => some s
  | .str s => some s
  | _ => none

def asList? : Sexp → Option (List Sexp)
  | .list xs => some xs
  | _ => none

def asBool? : Sexp → Option Bool
  | .atom "true" => some true
  | .atom "false" => some false
  | .atom "1" => some true
  | .atom "0" => some false
  | _ => none

/-- `(tag a b c)` → `some (tag, [a,b,c])` -/
def tagged? : Sexp → Option (String × List Sexp)
  | .list (.atom t :: rest) => some (t, rest)
  | _ => none

end Sexp
end Selene
