/-
The Lua resolver of `Scope/Spec.lean` restated as *pure functions of the environment* that list the
counted identifier reads in the order in which the ScopeVisitor meets them (eager reads of a
statement first, closures afterwards).  It is the bridge between the two ends:

* `Scope/CoreProof.lean` proves that the scope-stack machine of `Scope/Core.lean` produces exactly
  these lists;
* `Scope/SpecProof.lean` proves that `Spec.resolve` (source order, `Out` accumulator) produces a
  permutation of them.

Environments are `Spec.Env` itself, built with the same constructors as `Spec.declare`.
-/
import Selene.Scope.Core
import Selene.Scope.Spec
namespace Selene.Scope.Ordered
open Selene.Lua Selene.Scope.Spec

-- an answer (`Core.Ans`): `.read tok decl` — the read at `tok` denotes the local declaration `decl`;
-- `.decl tok shadows` — the name declared at `tok` denoted the local declaration `shadows` just before
open Selene.Scope.Core (Ans)

def look (env : Env) (n : String) : Option Nat := (env.lookup n).map (·.1)

def bindTok (env : Env) (t : Tok) (name : String) (k : DeclKind) : Env := (name, some (t.idx, k)) :: env

def bindAll (env : Env) (k : DeclKind) : List Tok → Env
  | [] => env
  | t :: rest => bindAll (bindTok env t t.text k) k rest

def bindParams (env : Env) : List Param → Env
  | [] => env
  | .name t :: rest => bindParams (bindTok env t t.text .param) rest
  | .dots t :: rest => bindParams (bindTok env t "..." .varargParam) rest

variable [Core.NameFilter]

/-- one counted read; `...` of the main chunk is not an occurrence the lints speak about -/
def sRead (inF : Bool) (env : Env) (t : Tok) (root : Bool := false) : List Ans :=
  if inF = false ∧ t.text = "..." then []
  else if Core.NameFilter.read t.text then
    [if root then .root t.idx (look env t.text) else .read t.idx (look env t.text)]
  else []

/-- a plain-name assignment target: it assigns a global when the name denotes no local -/
def sAssign (env : Env) (t : Tok) : List Ans :=
  if Core.NameFilter.assign t.text && (look env t.text).isNone then [.gassign t.idx] else []

/-- one declaration: what its name denotes in the environment it is added to -/
def sDecl (env : Env) (t : Tok) (name : String) : List Ans :=
  if Core.NameFilter.keep name then [.decl t.idx (look env name)] else []

def sDeclAll (env : Env) (k : DeclKind) : List Tok → List Ans
  | [] => []
  | t :: rest => sDecl env t t.text ++ sDeclAll (bindTok env t t.text k) k rest

def sDeclParams (env : Env) : List Param → List Ans
  | [] => []
  | .name t :: rest => sDecl env t t.text ++ sDeclParams (bindTok env t t.text .param) rest
  | .dots t :: rest => sDeclParams (bindTok env t "..." .varargParam) rest

/-! ### eager reads -/
mutual
def eE (inF : Bool) (env : Env) : Expr → List Ans
  | .paren _ e => eE inF env e
  | .un _ _ e => eE inF env e
  | .bin _ l _ r => eE inF env l ++ eE inF env r
  | .func _ _ _ => []
  | .call c => eC inF env c
  | .tbl _ fs => eFs inF env fs
  | .dots t => sRead inF env t
  | .var v => eV inF env v
  | _ => []
def eEs (inF : Bool) (env : Env) : ExprList → List Ans
  | .nil => []
  | .cons e rest => eE inF env e ++ eEs inF env rest
def eC (inF : Bool) (env : Env) : FCall → List Ans
  | .mk _ p ss => eP inF env p ++ eSs inF env ss
def eP (inF : Bool) (env : Env) : Prefix → List Ans
  | .name t => sRead inF env t
  | .expr e => eE inF env e
def eSs (inF : Bool) (env : Env) : SuffixList → List Ans
  | .nil => []
  | .cons s rest => eS inF env s ++ eSs inF env rest
def eS (inF : Bool) (env : Env) : Suffix → List Ans
  | .dot _ _ => []
  | .idx _ e => eE inF env e
  | .args _ a => eA inF env a
  | .meth _ _ a => eA inF env a
  | .unsupported _ => []
def eA (inF : Bool) (env : Env) : Args → List Ans
  | .parens _ es => eEs inF env es
  | .tbl _ fs => eFs inF env fs
  | .str _ _ _ => []
def eFs (inF : Bool) (env : Env) : FieldList → List Ans
  | .nil => []
  | .cons f rest =>
    (match f with
      | .exprKey _ k v => eE inF env k ++ eE inF env v
      | .nameKey _ _ v => eE inF env v
      | .noKey v => eE inF env v
      | .unsupported _ => []) ++ eFs inF env rest
def eV (inF : Bool) (env : Env) : Var → List Ans
  | .name t => sRead inF env t
  | .expr _ p ss => eP inF env p ++ eSs inF env ss
end

/-- indexed assignment targets: the root name is read as the table being indexed -/
def ePT (inF : Bool) (env : Env) : Prefix → List Ans
  | .name t => sRead inF env t true
  | .expr e => eE inF env e
def eVT (inF : Bool) (env : Env) : Var → List Ans
  | .name t => sRead inF env t true
  | .expr _ p ss => ePT inF env p ++ eSs inF env ss

/-! ### closures inside expressions, statements, blocks -/
-- what is still to be read of an `until` condition after it has been walked (`Core.restE`)
mutual
def rE (inF : Bool) (env : Env) : Expr → List Ans
  | .paren _ e => rE inF env e
  | .un _ _ e => rE inF env e
  | .bin _ l _ r => rE inF env l ++ rE inF env r
  | .func _ _ _ => []
  | .call _ => []
  | .tbl _ fs => rFs inF env fs
  | .dots t => sRead inF env t
  | .var (.name t) => sRead inF env t
  | .var (.expr _ p _) => rP inF env p
  | .nil _ => []
  | .true_ _ => []
  | .false_ _ => []
  | .num _ => []
  | .str _ _ _ => []
  | .unsupported _ => []
def rP (inF : Bool) (env : Env) : Prefix → List Ans
  | .name t => sRead inF env t
  | .expr e => rE inF env e
def rF (inF : Bool) (env : Env) : Field → List Ans
  | .exprKey _ k v => rE inF env k ++ rE inF env v
  | .nameKey _ _ v => rE inF env v
  | .noKey v => rE inF env v
  | .unsupported _ => []
def rFs (inF : Bool) (env : Env) : FieldList → List Ans
  | .nil => []
  | .cons f rest => rF inF env f ++ rFs inF env rest
end

mutual
def dE (inF : Bool) (env : Env) : Expr → List Ans
  | .paren _ e => dE inF env e
  | .un _ _ e => dE inF env e
  | .bin _ l _ r => dE inF env l ++ dE inF env r
  | .func _ _ body => sBody env none body
  | .call c => dC inF env c
  | .tbl _ fs => dFs inF env fs
  | .var v => dV inF env v
  | _ => []
def dEs (inF : Bool) (env : Env) : ExprList → List Ans
  | .nil => []
  | .cons e rest => dE inF env e ++ dEs inF env rest
def dC (inF : Bool) (env : Env) : FCall → List Ans
  | .mk _ p ss => dP inF env p ++ dSs inF env ss
def dP (inF : Bool) (env : Env) : Prefix → List Ans
  | .name _ => []
  | .expr e => dE inF env e
def dSs (inF : Bool) (env : Env) : SuffixList → List Ans
  | .nil => []
  | .cons s rest => dS inF env s ++ dSs inF env rest
def dS (inF : Bool) (env : Env) : Suffix → List Ans
  | .dot _ _ => []
  | .idx _ e => dE inF env e
  | .args _ a => dA inF env a
  | .meth _ _ a => dA inF env a
  | .unsupported _ => []
def dA (inF : Bool) (env : Env) : Args → List Ans
  | .parens _ es => dEs inF env es
  | .tbl _ fs => dFs inF env fs
  | .str _ _ _ => []
def dFs (inF : Bool) (env : Env) : FieldList → List Ans
  | .nil => []
  | .cons f rest =>
    (match f with
      | .exprKey _ k v => dE inF env k ++ dE inF env v
      | .nameKey _ _ v => dE inF env v
      | .noKey v => dE inF env v
      | .unsupported _ => []) ++ dFs inF env rest
def dV (inF : Bool) (env : Env) : Var → List Ans
  | .name _ => []
  | .expr _ p ss => dP inF env p ++ dSs inF env ss
def dVs (inF : Bool) (env : Env) : VarList → List Ans
  | .nil => []
  | .cons v rest => dV inF env v ++ dVs inF env rest
/-- the walk of an `until` condition (`Core.topE`) -/
def tE (inF : Bool) (env : Env) : Expr → List Ans
  | .paren _ e => tE inF env e
  | .un _ _ e => tE inF env e
  | .bin _ l _ r => tE inF env l ++ tE inF env r
  | .func _ _ body => sBody env none body
  | .call (.mk _ p ss) => eP inF env p ++ dP inF env p ++ sSs inF env ss
  | .tbl _ fs => tFs inF env fs
  | .var (.name _) => []
  | .var (.expr _ p ss) => tP inF env p ++ sSs inF env ss
  | .nil _ => []
  | .true_ _ => []
  | .false_ _ => []
  | .dots _ => []
  | .num _ => []
  | .str _ _ _ => []
  | .unsupported _ => []
def tP (inF : Bool) (env : Env) : Prefix → List Ans
  | .name _ => []
  | .expr e => tE inF env e
def tF (inF : Bool) (env : Env) : Field → List Ans
  | .exprKey _ k v => tE inF env k ++ tE inF env v
  | .nameKey _ _ v => tE inF env v
  | .noKey v => tE inF env v
  | .unsupported _ => []
def tFs (inF : Bool) (env : Env) : FieldList → List Ans
  | .nil => []
  | .cons f rest => tF inF env f ++ tFs inF env rest
/-- suffixes of a call statement: each is read, then entered -/
def sSs (inF : Bool) (env : Env) : SuffixList → List Ans
  | .nil => []
  | .cons s rest => eS inF env s ++ dS inF env s ++ sSs inF env rest
def sBody (env : Env) (selfTok : Option Tok) : FuncBody → List Ans
  | .mk _ params b =>
    let ds := match selfTok with
      | some m => sDecl env m "self"
      | none => []
    let env := match selfTok with
      | some m => bindTok env m "self" .self_
      | none => env
    let env : Env := ("...", none) :: env
    ds ++ sDeclParams env params ++ (sBlock true (bindParams env params) b).1
def sBlock (inF : Bool) (env : Env) : Block → List Ans × Env
  | .mk _ stmts last =>
    let r := sStmts inF env stmts
    match last with
    | .ret _ es => (r.1 ++ eEs inF r.2 es ++ dEs inF r.2 es, r.2)
    | _ => r
def sStmts (inF : Bool) (env : Env) : StmtList → List Ans × Env
  | .nil => ([], env)
  | .cons s rest =>
    let r := sStmt inF env s
    let r' := sStmts inF r.2 rest
    (r.1 ++ r'.1, r'.2)
/-- reads made while the targets are processed: per target its paired value, then the target -/
def sTargets (inF : Bool) (env : Env) : VarList → ExprList → List Ans
  | .nil, es => eEs inF env es
  | .cons v rest, es =>
    (match es with
      | .cons e _ => eE inF env e
      | .nil => []) ++
    (match v with
      | .name t => sAssign env t
      | .expr _ _ _ => eVT inF env v) ++
    sTargets inF env rest (match es with | .cons _ es' => es' | .nil => .nil)
def sElifs (inF : Bool) (env : Env) : ElseIfList → List Ans
  | .nil => []
  | .cons (.mk _ c b) rest =>
    eE inF env c ++ dE inF env c ++ (sBlock inF env b).1 ++ sElifs inF env rest
def sStmt (inF : Bool) (env : Env) : Stmt → List Ans × Env
  | .assign _ vars es => (sTargets inF env vars es ++ dVs inF env vars ++ dEs inF env es, env)
  | .localAssign _ names es => (eEs inF env es ++ dEs inF env es ++ sDeclAll env .local_ names, bindAll env .local_ names)
  | .call (.mk _ p ss) => (eP inF env p ++ dP inF env p ++ sSs inF env ss, env)
  | .do_ _ b => ((sBlock inF env b).1, env)
  | .while_ _ c b => (eE inF env c ++ dE inF env c ++ (sBlock inF env b).1, env)
  | .repeat_ _ b c =>
    let r := sBlock inF env b
    (r.1 ++ tE inF r.2 c ++ rE inF r.2 c, env)
  | .if_ _ c b elifs els =>
    (eE inF env c ++ dE inF env c ++ (sBlock inF env b).1 ++ sElifs inF env elifs ++
      (match els with
        | .some eb => (sBlock inF env eb).1
        | .none => []), env)
  | .numFor _ v _ start stop step b =>
    let envIn := bindTok env v v.text .loopVar
    (eE inF env start ++ eE inF env stop ++ (match step with | .some e => eE inF env e | .none => []) ++
      dE inF env start ++ dE inF env stop ++ (match step with | .some e => dE inF env e | .none => []) ++
      sDecl env v v.text ++ (sBlock inF envIn b).1, env)
  | .genFor _ names es b =>
    let envIn := bindAll env .loopVar names
    (eEs inF env es ++ dEs inF env es ++ sDeclAll env .loopVar names ++ (sBlock inF envIn b).1, env)
  | .func _ name body =>
    match name.names with
    | [] => ([], env)
    | base :: more =>
      ((if (!more.isEmpty || name.method.isSome) = true then sRead inF env base true else sAssign env base) ++
        sBody env name.method body, env)
  | .localFunc _ name body =>
    let env' := bindTok env name name.text .localFunc
    (sDecl env name name.text ++ sBody env' none body, env')
  | .unsupported _ => ([], env)
end

/-- the whole chunk -/
def chunk (b : Block) : List Ans := (sBlock false [] b).1

end Selene.Scope.Ordered
