/-
`Spec.resolve` (Lua's scoping rules, source order, `Out` accumulator) and `Ordered.chunk`
(visitor order, pure) list the same counted reads with the same bindings: for every answer the two
lists contain it equally often, hence one is a permutation of the other.  Proved by one mutual
structural recursion over the syntax tree, every case closed by rewriting with the induction
hypotheses and linear arithmetic over `List.count`.
-/
import Selene.Scope.Ordered
namespace Selene.Scope.SpecProof
open Selene.Lua Selene.Scope.Spec Selene.Scope.Ordered
open Selene.Scope.Core (Ans)

/-- the occurrences the resolution property speaks about: identifier reads (not plain assignment
    targets), `...` of the main chunk excluded -/
def counted (oc : Occ) : Bool := oc.kind != .target && !(oc.name == "..." && !oc.inFunction)

/-- a plain-name assignment target (or `function name`) that assigns a global: the name denotes no local there -/
def assignsGlobal (oc : Occ) : Bool := oc.kind == .target && oc.binding.isNone

set_option linter.unusedSectionVars false
variable [Core.NameFilter]

/-- the declarations the shadowing property speaks about (`...` is no declaration of interest, nor
    are names the filter drops), each with the local declaration its name denoted just before -/

def shadows (o : Out) : List (Nat × Option Nat) :=
  (o.decls.filter fun d => d.kind != .varargParam && Core.NameFilter.keep d.name).map fun d => (d.tok, d.visibleSameName.map (·.1))

def reads (o : Out) : List (Nat × Option Nat) :=
  (o.occs.filter fun oc => counted oc && Core.NameFilter.read oc.name).map fun oc => (oc.tok, oc.binding.map (·.1))

/-- tokens of the assignment targets that assign a global -/
def globalAssigns (o : Out) : List Nat :=
  (o.occs.filter fun oc => assignsGlobal oc && Core.NameFilter.assign oc.name).map (·.tok)

/-- occurrences that use the value of the name: expression positions other than the root of an indexed
    assignment target -/
def valueUses (o : Out) : List (Nat × Option Nat) :=
  (o.occs.filter fun oc => counted oc && Core.NameFilter.read oc.name && oc.kind == .value).map fun oc => (oc.tok, oc.binding.map (·.1))

def occAns (oc : Occ) : Ans :=
  if oc.kind == .indexedTarget then .root oc.tok (oc.binding.map (·.1)) else .read oc.tok (oc.binding.map (·.1))

def readsOf (o : Out) : List Ans :=
  (o.occs.filter fun oc => counted oc && Core.NameFilter.read oc.name).map occAns
def assignsOf (o : Out) : List Ans :=
  (o.occs.filter fun oc => assignsGlobal oc && Core.NameFilter.assign oc.name).map fun oc => .gassign oc.tok
def declsOf (o : Out) : List Ans :=
  (o.decls.filter fun d => d.kind != .varargParam && Core.NameFilter.keep d.name).map fun d => .decl d.tok (d.visibleSameName.map (·.1))

/-- everything the resolver answers: reads and declarations -/
def log (o : Out) : List Ans := readsOf o ++ declsOf o ++ assignsOf o

variable (a : Ans)

theorem log_occ (o : Out) (c : Ctx) (env : Env) (t : Tok) (k : OccKind) (hk : k ≠ .target) :
    (log (o.occ c env t k)).count a = (log o).count a + (sRead c.inFunction env t (k == .indexedTarget)).count a := by
  have hc : counted { tok := t.idx, name := t.text, kind := k, binding := env.lookup t.text, inFunction := c.inFunction } =
      !(t.text == "..." && !c.inFunction) := by
    cases k <;> simp_all [counted]
  have : readsOf (o.occ c env t k) = readsOf o ++ sRead c.inFunction env t (k == .indexedTarget) := by
    unfold readsOf Out.occ sRead
    simp only [List.filter_append, List.map_append, List.filter_cons, List.filter_nil, hc]
    by_cases h3 : Core.NameFilter.read t.text = true <;> by_cases h1 : t.text = "..." <;> cases h2 : c.inFunction <;>
      cases k <;> simp_all [look, occAns]
  have hd : declsOf (o.occ c env t k) = declsOf o := rfl
  have ha : assignsOf (o.occ c env t k) = assignsOf o := by
    unfold assignsOf Out.occ
    have : assignsGlobal { tok := t.idx, name := t.text, kind := k, binding := env.lookup t.text, inFunction := c.inFunction } = false := by
      cases k <;> simp_all [assignsGlobal]
    simp [List.filter_append, this]
  unfold log
  rw [this, hd, ha]
  simp only [List.count_append]; omega

theorem log_occ_target (o : Out) (c : Ctx) (env : Env) (t : Tok) :
    (log (o.occ c env t .target)).count a = (log o).count a + (sAssign env t).count a := by
  have h1 : readsOf (o.occ c env t .target) = readsOf o := by
    unfold readsOf Out.occ
    simp [counted]
  have hd : declsOf (o.occ c env t .target) = declsOf o := rfl
  have ha : assignsOf (o.occ c env t .target) = assignsOf o ++ sAssign env t := by
    unfold assignsOf Out.occ sAssign
    simp only [List.filter_append, List.map_append, List.filter_cons, List.filter_nil]
    have hl : (look env t.text).isNone = (env.lookup t.text).isNone := by simp [look]
    by_cases h3 : Core.NameFilter.assign t.text = true <;> cases h4 : env.lookup t.text <;>
      simp [assignsGlobal, h3, h4, hl]
  unfold log
  rw [h1, hd, ha]
  simp only [List.count_append]; omega

theorem log_congr {o o' : Out} (h : o'.occs = o.occs) (h2 : o'.decls = o.decls) : log o' = log o := by
  unfold log readsOf declsOf assignsOf; rw [h, h2]

theorem log_declare (o : Out) (env : Env) (t : Tok) (name : String) (k : DeclKind) (acc : List Nat)
    (hk : k ≠ .varargParam) :
    (log (declare o env t name k acc).1).count a = (log o).count a + (sDecl env t name).count a := by
  have h1 : readsOf (declare o env t name k acc).1 = readsOf o := rfl
  have h3 : assignsOf (declare o env t name k acc).1 = assignsOf o := rfl
  have h2 : declsOf (declare o env t name k acc).1 = declsOf o ++ sDecl env t name := by
    unfold declsOf declare sDecl
    simp only [List.filter_append, List.map_append, List.filter_cons, List.filter_nil]
    have : (k != DeclKind.varargParam) = true := by cases k <;> simp_all
    by_cases hkeep : Core.NameFilter.keep name = true <;> simp [this, look, hkeep]
  unfold log
  rw [h1, h2, h3]; simp only [List.count_append]; omega

theorem log_declare' (o o' : Out) (env : Env) (t : Tok) (name : String) (k : DeclKind) (acc : List Nat)
    (hk : k ≠ .varargParam) (h1 : o'.occs = o.occs) (h2 : o'.decls = o.decls) :
    (log (declare o' env t name k acc).1).count a = (log o).count a + (sDecl env t name).count a := by
  rw [log_declare a o' env t name k acc hk, log_congr h1 h2]

theorem log_declare_vararg (o : Out) (env : Env) (t : Tok) (name : String) (acc : List Nat) :
    log (declare o env t name .varargParam acc).1 = log o := by
  have h2 : declsOf (declare o env t name .varargParam acc).1 = declsOf o := by
    unfold declsOf declare
    simp [List.filter_append]
  unfold log; rw [h2]; rfl

theorem declare_env (o : Out) (env : Env) (t : Tok) (name : String) (k : DeclKind) (acc : List Nat) :
    (declare o env t name k acc).2 = bindTok env t name k := rfl

theorem declareAll_spec (k : DeclKind) (hk : k ≠ .varargParam) (names : List Tok) (o : Out) (env : Env) (acc : List Nat) :
    (log (declareAll o env k names acc).1).count a = (log o).count a + (sDeclAll env k names).count a ∧
    (declareAll o env k names acc).2 = bindAll env k names := by
  induction names generalizing o env acc with
  | nil => exact ⟨by simp [declareAll, sDeclAll], rfl⟩
  | cons t rest ih =>
    obtain ⟨h1, h2⟩ := ih (declare o env t t.text k acc).1 (declare o env t t.text k acc).2 (t.idx :: acc)
    refine ⟨?_, h2⟩
    show (log (declareAll (declare o env t t.text k acc).1 (declare o env t t.text k acc).2 k rest (t.idx :: acc)).1).count a = _
    rw [h1, log_declare a o env t t.text k acc hk]
    show _ = _ + (sDecl env t t.text ++ sDeclAll (bindTok env t t.text k) k rest).count a
    simp only [List.count_append, declare_env]; omega

theorem declareParams_spec (ps : List Param) (o : Out) (env : Env) (acc : List Nat) :
    (log (declareParams o env ps acc).1).count a = (log o).count a + (sDeclParams env ps).count a ∧
    (declareParams o env ps acc).2 = bindParams env ps := by
  induction ps generalizing o env acc with
  | nil => exact ⟨by simp [declareParams, sDeclParams], rfl⟩
  | cons p rest ih =>
    cases p with
    | name t =>
      obtain ⟨h1, h2⟩ := ih (declare o env t t.text .param acc).1 (declare o env t t.text .param acc).2 (t.idx :: acc)
      refine ⟨?_, h2⟩
      show (log (declareParams (declare o env t t.text .param acc).1 (declare o env t t.text .param acc).2 rest (t.idx :: acc)).1).count a = _
      rw [h1, log_declare a o env t t.text .param acc (by simp)]
      show _ = _ + (sDecl env t t.text ++ sDeclParams (bindTok env t t.text .param) rest).count a
      simp only [List.count_append, declare_env]; omega
    | dots t =>
      obtain ⟨h1, h2⟩ := ih (declare o env t "..." .varargParam acc).1 (declare o env t "..." .varargParam acc).2 (t.idx :: acc)
      refine ⟨?_, h2⟩
      show (log (declareParams (declare o env t "..." .varargParam acc).1 (declare o env t "..." .varargParam acc).2 rest (t.idx :: acc)).1).count a = _
      rw [h1, log_declare_vararg]
      show _ = _ + (sDeclParams (bindTok env t "..." .varargParam) rest).count a
      simp only [declare_env]

/-- eager reads of a variable / prefix whose root name occurs with kind `k` -/
def eVk (k : OccKind) (inF : Bool) (env : Env) (v : Var) : List Ans :=
  if k = .indexedTarget then eVT inF env v else eV inF env v
def ePk (k : OccKind) (inF : Bool) (env : Env) (p : Prefix) : List Ans :=
  if k = .indexedTarget then ePT inF env p else eP inF env p

theorem sRead_kind (k : OccKind) (hk : k ≠ .target) (inF : Bool) (env : Env) (t : Tok) :
    sRead inF env t (k == .indexedTarget) = ePk k inF env (.name t) ∧
    sRead inF env t (k == .indexedTarget) = eVk k inF env (.name t) := by
  cases k with
  | value => exact ⟨rfl, rfl⟩
  | target => exact absurd rfl hk
  | indexedTarget => exact ⟨rfl, rfl⟩

theorem ePk_value (inF : Bool) (env : Env) (p : Prefix) : ePk .value inF env p = eP inF env p := rfl
theorem eVk_value (inF : Bool) (env : Env) (v : Var) : eVk .value inF env v = eV inF env v := rfl
theorem eVk_indexed (inF : Bool) (env : Env) (v : Var) : eVk .indexedTarget inF env v = eVT inF env v := rfl

/-- eager reads of the indexed targets of an assignment -/
def tV (inF : Bool) (env : Env) : VarList → List Ans
  | .nil => []
  | .cons v rest =>
    (match v with
      | .name t => sAssign env t
      | .expr _ _ _ => eVT inF env v) ++ tV inF env rest

theorem sTargets_count (a : Ans) (inF : Bool) (env : Env) (vars : VarList) (es : ExprList) :
    (sTargets inF env vars es).count a = (eEs inF env es).count a + (tV inF env vars).count a := by
  cases vars with
  | nil => show (eEs inF env es).count a = _ + ([] : List Ans).count a; simp
  | cons v rest =>
    cases es with
    | nil =>
      have ih := sTargets_count a inF env rest .nil
      cases v with
      | name n =>
        show (([] : List Ans) ++ sAssign env n ++ sTargets inF env rest .nil).count a = ([] : List Ans).count a + (sAssign env n ++ tV inF env rest).count a
        simp only [List.count_append, ih]; simp [eEs]
      | expr vsp p ss =>
        show (([] : List Ans) ++ eVT inF env (.expr vsp p ss) ++ sTargets inF env rest .nil).count a =
          ([] : List Ans).count a + (eVT inF env (.expr vsp p ss) ++ tV inF env rest).count a
        simp only [List.count_append, ih]; simp [eEs]
    | cons e es' =>
      have ih := sTargets_count a inF env rest es'
      cases v with
      | name n =>
        show (eE inF env e ++ sAssign env n ++ sTargets inF env rest es').count a =
          (eE inF env e ++ eEs inF env es').count a + (sAssign env n ++ tV inF env rest).count a
        simp only [List.count_append, ih]; omega
      | expr vsp p ss =>
        show (eE inF env e ++ eVT inF env (.expr vsp p ss) ++ sTargets inF env rest es').count a =
          (eE inF env e ++ eEs inF env es').count a + (eVT inF env (.expr vsp p ss) ++ tV inF env rest).count a
        simp only [List.count_append, ih]; omega

theorem sSs_count (a : Ans) (inF : Bool) (env : Env) (ss : SuffixList) :
    (sSs inF env ss).count a = (eSs inF env ss).count a + (dSs inF env ss).count a := by
  cases ss with
  | nil => show ([] : List Ans).count a = ([] : List Ans).count a + ([] : List Ans).count a; simp
  | cons s rest =>
    show (eS inF env s ++ dS inF env s ++ sSs inF env rest).count a =
      (eS inF env s ++ eSs inF env rest).count a + (dS inF env s ++ dSs inF env rest).count a
    simp only [List.count_append, sSs_count a inF env rest]; omega


/-! the walk of an `until` condition and what is read afterwards list the same answers as the eager read and the descent -/
mutual
theorem tr_count (a : Ans) (inF : Bool) (env : Env) : (e : Expr) →
    (tE inF env e).count a + (rE inF env e).count a = (eE inF env e).count a + (dE inF env e).count a
  | .paren _ e => tr_count a inF env e
  | .un _ _ e => tr_count a inF env e
  | .bin _ l _ r => by
    show (tE inF env l ++ tE inF env r).count a + (rE inF env l ++ rE inF env r).count a =
      (eE inF env l ++ eE inF env r).count a + (dE inF env l ++ dE inF env r).count a
    have h1 := tr_count a inF env l
    have h2 := tr_count a inF env r
    simp only [List.count_append]; omega
  | .func _ _ body => by
    show (sBody env none body).count a + ([] : List Ans).count a = ([] : List Ans).count a + (sBody env none body).count a
    omega
  | .call (.mk _ p ss) => by
    show (eP inF env p ++ dP inF env p ++ sSs inF env ss).count a + ([] : List Ans).count a =
      (eP inF env p ++ eSs inF env ss).count a + (dP inF env p ++ dSs inF env ss).count a
    simp only [List.count_append, List.count_nil, sSs_count]; omega
  | .tbl _ fs => trFs_count a inF env fs
  | .var (.name t) => by
    show ([] : List Ans).count a + (sRead inF env t).count a = (sRead inF env t).count a + ([] : List Ans).count a
    omega
  | .var (.expr _ p ss) => by
    show (tP inF env p ++ sSs inF env ss).count a + (rP inF env p).count a =
      (eP inF env p ++ eSs inF env ss).count a + (dP inF env p ++ dSs inF env ss).count a
    have h := trP_count a inF env p
    simp only [List.count_append, sSs_count]; omega
  | .dots t => by
    show ([] : List Ans).count a + (sRead inF env t).count a = (sRead inF env t).count a + ([] : List Ans).count a
    omega
  | .nil _ => rfl
  | .true_ _ => rfl
  | .false_ _ => rfl
  | .num _ => rfl
  | .str _ _ _ => rfl
  | .unsupported _ => rfl
theorem trP_count (a : Ans) (inF : Bool) (env : Env) : (p : Prefix) →
    (tP inF env p).count a + (rP inF env p).count a = (eP inF env p).count a + (dP inF env p).count a
  | .name t => by
    show ([] : List Ans).count a + (sRead inF env t).count a = (sRead inF env t).count a + ([] : List Ans).count a
    omega
  | .expr e => tr_count a inF env e
theorem trFs_count (a : Ans) (inF : Bool) (env : Env) : (fs : FieldList) →
    (tFs inF env fs).count a + (rFs inF env fs).count a = (eFs inF env fs).count a + (dFs inF env fs).count a
  | .nil => rfl
  | .cons (.exprKey _ k v) rest => by
    show ((tE inF env k ++ tE inF env v) ++ tFs inF env rest).count a + ((rE inF env k ++ rE inF env v) ++ rFs inF env rest).count a =
      ((eE inF env k ++ eE inF env v) ++ eFs inF env rest).count a + ((dE inF env k ++ dE inF env v) ++ dFs inF env rest).count a
    have h1 := tr_count a inF env k
    have h2 := tr_count a inF env v
    have h3 := trFs_count a inF env rest
    simp only [List.count_append]; omega
  | .cons (.nameKey _ _ v) rest => by
    show (tE inF env v ++ tFs inF env rest).count a + (rE inF env v ++ rFs inF env rest).count a =
      (eE inF env v ++ eFs inF env rest).count a + (dE inF env v ++ dFs inF env rest).count a
    have h2 := tr_count a inF env v
    have h3 := trFs_count a inF env rest
    simp only [List.count_append]; omega
  | .cons (.noKey v) rest => by
    show (tE inF env v ++ tFs inF env rest).count a + (rE inF env v ++ rFs inF env rest).count a =
      (eE inF env v ++ eFs inF env rest).count a + (dE inF env v ++ dFs inF env rest).count a
    have h2 := tr_count a inF env v
    have h3 := trFs_count a inF env rest
    simp only [List.count_append]; omega
  | .cons (.unsupported _) rest => by
    show (([] : List Ans) ++ tFs inF env rest).count a + (([] : List Ans) ++ rFs inF env rest).count a =
      (([] : List Ans) ++ eFs inF env rest).count a + (([] : List Ans) ++ dFs inF env rest).count a
    have h3 := trFs_count a inF env rest
    simp only [List.count_append, List.count_nil]; omega
end

section

mutual
theorem rExpr_count (e : Expr) (o : Out) (c : Ctx) (env : Env) :
    (log (rExpr o c env e)).count a =
      (log o).count a + (eE c.inFunction env e).count a + (dE c.inFunction env e).count a := by
  cases e with
  | paren _ e => exact rExpr_count e o c env
  | un _ _ e => exact rExpr_count e o c env
  | bin _ l _ r =>
    show (log (rExpr (rExpr o c env l) c env r)).count a = (log o).count a +
      (eE c.inFunction env l ++ eE c.inFunction env r).count a + (dE c.inFunction env l ++ dE c.inFunction env r).count a
    rw [rExpr_count r, rExpr_count l]; simp only [List.count_append]; omega
  | func _ _ body =>
    show (log (rBody o c env none body)).count a = (log o).count a + ([] : List Ans).count a + (sBody env none body).count a
    rw [rBody_count body]; simp
  | call f => exact rFCall_count f o c env
  | tbl _ fs => exact rFields_count fs o c env
  | dots t =>
    show (log (o.occ c env t .value)).count a = (log o).count a + (sRead c.inFunction env t).count a + ([] : List Ans).count a
    rw [log_occ a _ _ _ _ _ (by simp)]
    have : (OccKind.value == OccKind.indexedTarget) = false := rfl
    rw [this]; simp
  | var v =>
    have := rVar_count v o c env .value (by simp)
    rw [eVk_value] at this
    exact this
  | nil _ => show (log o).count a = (log o).count a + ([] : List Ans).count a + ([] : List Ans).count a; simp
  | true_ _ => show (log o).count a = (log o).count a + ([] : List Ans).count a + ([] : List Ans).count a; simp
  | false_ _ => show (log o).count a = (log o).count a + ([] : List Ans).count a + ([] : List Ans).count a; simp
  | num _ => show (log o).count a = (log o).count a + ([] : List Ans).count a + ([] : List Ans).count a; simp
  | str _ _ _ => show (log o).count a = (log o).count a + ([] : List Ans).count a + ([] : List Ans).count a; simp
  | unsupported _ => show (log o).count a = (log o).count a + ([] : List Ans).count a + ([] : List Ans).count a; simp
theorem rExprs_count (es : ExprList) (o : Out) (c : Ctx) (env : Env) :
    (log (rExprs o c env es)).count a =
      (log o).count a + (eEs c.inFunction env es).count a + (dEs c.inFunction env es).count a := by
  cases es with
  | nil => show (log o).count a = (log o).count a + ([] : List Ans).count a + ([] : List Ans).count a; simp
  | cons e rest =>
    show (log (rExprs (rExpr o c env e) c env rest)).count a = (log o).count a +
      (eE c.inFunction env e ++ eEs c.inFunction env rest).count a + (dE c.inFunction env e ++ dEs c.inFunction env rest).count a
    rw [rExprs_count rest, rExpr_count e]; simp only [List.count_append]; omega
theorem rFields_count (fs : FieldList) (o : Out) (c : Ctx) (env : Env) :
    (log (rFields o c env fs)).count a =
      (log o).count a + (eFs c.inFunction env fs).count a + (dFs c.inFunction env fs).count a := by
  cases fs with
  | nil => show (log o).count a = (log o).count a + ([] : List Ans).count a + ([] : List Ans).count a; simp
  | cons f rest =>
    cases f with
    | exprKey _ k v =>
      show (log (rFields (rExpr (rExpr o c env k) c env v) c env rest)).count a = (log o).count a +
        ((eE c.inFunction env k ++ eE c.inFunction env v) ++ eFs c.inFunction env rest).count a +
        ((dE c.inFunction env k ++ dE c.inFunction env v) ++ dFs c.inFunction env rest).count a
      rw [rFields_count rest, rExpr_count v, rExpr_count k]; simp only [List.count_append]; omega
    | nameKey _ _ v =>
      show (log (rFields (rExpr o c env v) c env rest)).count a = (log o).count a +
        (eE c.inFunction env v ++ eFs c.inFunction env rest).count a +
        (dE c.inFunction env v ++ dFs c.inFunction env rest).count a
      rw [rFields_count rest, rExpr_count v]; simp only [List.count_append]; omega
    | noKey v =>
      show (log (rFields (rExpr o c env v) c env rest)).count a = (log o).count a +
        (eE c.inFunction env v ++ eFs c.inFunction env rest).count a +
        (dE c.inFunction env v ++ dFs c.inFunction env rest).count a
      rw [rFields_count rest, rExpr_count v]; simp only [List.count_append]; omega
    | unsupported _ =>
      show (log (rFields o c env rest)).count a = (log o).count a +
        (([] : List Ans) ++ eFs c.inFunction env rest).count a + (([] : List Ans) ++ dFs c.inFunction env rest).count a
      rw [rFields_count rest]; simp
theorem rVar_count (v : Var) (o : Out) (c : Ctx) (env : Env) (k : OccKind) (hk : k ≠ .target) :
    (log (rVar o c env v k)).count a =
      (log o).count a + (eVk k c.inFunction env v).count a + (dV c.inFunction env v).count a := by
  cases v with
  | name t =>
    show (log (o.occ c env t k)).count a = (log o).count a + (eVk k c.inFunction env (.name t)).count a + ([] : List Ans).count a
    rw [log_occ a _ _ _ _ _ hk, (sRead_kind k hk _ _ _).2]; simp
  | expr sp p ss =>
    have he : eVk k c.inFunction env (.expr sp p ss) = ePk k c.inFunction env p ++ eSs c.inFunction env ss := by
      unfold eVk ePk; split <;> rfl
    show (log (rSuffixes (rPrefix o c env p k) c env ss)).count a = (log o).count a +
      (eVk k c.inFunction env (.expr sp p ss)).count a + (dP c.inFunction env p ++ dSs c.inFunction env ss).count a
    rw [he, rSuffixes_count ss, rPrefix_count p o c env k hk]; simp only [List.count_append]; omega
theorem rPrefix_count (p : Prefix) (o : Out) (c : Ctx) (env : Env) (k : OccKind) (hk : k ≠ .target) :
    (log (rPrefix o c env p k)).count a =
      (log o).count a + (ePk k c.inFunction env p).count a + (dP c.inFunction env p).count a := by
  cases p with
  | name t =>
    show (log (o.occ c env t k)).count a = (log o).count a + (ePk k c.inFunction env (.name t)).count a + ([] : List Ans).count a
    rw [log_occ a _ _ _ _ _ hk, (sRead_kind k hk _ _ _).1]; simp
  | expr e =>
    have he : ePk k c.inFunction env (.expr e) = eE c.inFunction env e := by unfold ePk; split <;> rfl
    rw [he]; exact rExpr_count e o c env
theorem rSuffixes_count (ss : SuffixList) (o : Out) (c : Ctx) (env : Env) :
    (log (rSuffixes o c env ss)).count a =
      (log o).count a + (eSs c.inFunction env ss).count a + (dSs c.inFunction env ss).count a := by
  cases ss with
  | nil => show (log o).count a = (log o).count a + ([] : List Ans).count a + ([] : List Ans).count a; simp
  | cons s rest =>
    cases s with
    | dot _ _ =>
      show (log (rSuffixes o c env rest)).count a = (log o).count a +
        (([] : List Ans) ++ eSs c.inFunction env rest).count a + (([] : List Ans) ++ dSs c.inFunction env rest).count a
      rw [rSuffixes_count rest]; simp
    | idx _ e =>
      show (log (rSuffixes (rExpr o c env e) c env rest)).count a = (log o).count a +
        (eE c.inFunction env e ++ eSs c.inFunction env rest).count a + (dE c.inFunction env e ++ dSs c.inFunction env rest).count a
      rw [rSuffixes_count rest, rExpr_count e]; simp only [List.count_append]; omega
    | args _ ar =>
      show (log (rSuffixes (rArgs o c env ar) c env rest)).count a = (log o).count a +
        (eA c.inFunction env ar ++ eSs c.inFunction env rest).count a + (dA c.inFunction env ar ++ dSs c.inFunction env rest).count a
      rw [rSuffixes_count rest, rArgs_count ar]; simp only [List.count_append]; omega
    | meth _ _ ar =>
      show (log (rSuffixes (rArgs o c env ar) c env rest)).count a = (log o).count a +
        (eA c.inFunction env ar ++ eSs c.inFunction env rest).count a + (dA c.inFunction env ar ++ dSs c.inFunction env rest).count a
      rw [rSuffixes_count rest, rArgs_count ar]; simp only [List.count_append]; omega
    | unsupported _ =>
      show (log (rSuffixes o c env rest)).count a = (log o).count a +
        (([] : List Ans) ++ eSs c.inFunction env rest).count a + (([] : List Ans) ++ dSs c.inFunction env rest).count a
      rw [rSuffixes_count rest]; simp
theorem rArgs_count (ar : Args) (o : Out) (c : Ctx) (env : Env) :
    (log (rArgs o c env ar)).count a =
      (log o).count a + (eA c.inFunction env ar).count a + (dA c.inFunction env ar).count a := by
  cases ar with
  | parens _ es => exact rExprs_count es o c env
  | str _ _ _ => show (log o).count a = (log o).count a + ([] : List Ans).count a + ([] : List Ans).count a; simp
  | tbl _ fs => exact rFields_count fs o c env
theorem rFCall_count (f : FCall) (o : Out) (c : Ctx) (env : Env) :
    (log (rFCall o c env f)).count a =
      (log o).count a + (eC c.inFunction env f).count a + (dC c.inFunction env f).count a := by
  cases f with
  | mk _ p ss =>
    show (log (rSuffixes (rPrefix o c env p .value) c env ss)).count a = (log o).count a +
      (eP c.inFunction env p ++ eSs c.inFunction env ss).count a + (dP c.inFunction env p ++ dSs c.inFunction env ss).count a
    rw [rSuffixes_count ss, rPrefix_count p o c env .value (by simp), ePk_value]; simp only [List.count_append]; omega
theorem rBody_count (body : FuncBody) (o : Out) (c : Ctx) (env : Env) (selfTok : Option Tok) :
    (log (rBody o c env selfTok body)).count a = (log o).count a + (sBody env selfTok body).count a := by
  cases body with
  | mk _ params b =>
    cases selfTok with
    | none =>
      show (log (rBlock (declareParams o (("...", none) :: env) params []).1
          { inFunction := true, depth := c.depth + 1 }
          (declareParams o (("...", none) :: env) params []).2 b).1).count a =
        (log o).count a + ([] ++ sDeclParams (("...", none) :: env) params ++
          (sBlock true (bindParams (("...", none) :: env) params) b).1).count a
      obtain ⟨h1, h2⟩ := declareParams_spec a params o (("...", none) :: env) []
      rw [(rBlock_count b _ _ _).1, h1, h2]
      simp only [List.count_append, List.nil_append]; omega
    | some m =>
      show (log (rBlock (declareParams (declare o env m "self" .self_ []).1
            (("...", none) :: bindTok env m "self" .self_) params []).1
          { inFunction := true, depth := c.depth + 1 }
          (declareParams (declare o env m "self" .self_ []).1
            (("...", none) :: bindTok env m "self" .self_) params []).2 b).1).count a =
        (log o).count a + (sDecl env m "self" ++ sDeclParams (("...", none) :: bindTok env m "self" .self_) params ++
          (sBlock true (bindParams (("...", none) :: bindTok env m "self" .self_) params) b).1).count a
      obtain ⟨h1, h2⟩ := declareParams_spec a params (declare o env m "self" .self_ []).1
        (("...", none) :: bindTok env m "self" .self_) []
      rw [(rBlock_count b _ _ _).1, h1, h2, log_declare a o env m "self" .self_ [] (by simp)]
      simp only [List.count_append]; omega
theorem rBlock_count (b : Block) (o : Out) (c : Ctx) (env : Env) :
    (log (rBlock o c env b).1).count a = (log o).count a + (sBlock c.inFunction env b).1.count a ∧
    (rBlock o c env b).2 = (sBlock c.inFunction env b).2 := by
  cases b with
  | mk _ stmts last =>
    obtain ⟨h1, h2⟩ := rStmts_count stmts o c env
    cases last with
    | none => exact ⟨h1, h2⟩
    | brk _ => exact ⟨h1, h2⟩
    | ret _ es =>
      refine ⟨?_, h2⟩
      show (log (rExprs (rStmts o c env stmts).1 c (rStmts o c env stmts).2 es)).count a = (log o).count a +
        ((sStmts c.inFunction env stmts).1 ++ eEs c.inFunction (sStmts c.inFunction env stmts).2 es ++
          dEs c.inFunction (sStmts c.inFunction env stmts).2 es).count a
      rw [rExprs_count es, h1, h2]; simp only [List.count_append]; omega
theorem rStmts_count (l : StmtList) (o : Out) (c : Ctx) (env : Env) :
    (log (rStmts o c env l).1).count a = (log o).count a + (sStmts c.inFunction env l).1.count a ∧
    (rStmts o c env l).2 = (sStmts c.inFunction env l).2 := by
  cases l with
  | nil => exact ⟨by show (log o).count a = (log o).count a + ([] : List Ans).count a; simp, rfl⟩
  | cons s rest =>
    obtain ⟨h1, h2⟩ := rStmt_count s o c env
    obtain ⟨h3, h4⟩ := rStmts_count rest (rStmt o c env s).1 c (rStmt o c env s).2
    refine ⟨?_, ?_⟩
    · show (log (rStmts (rStmt o c env s).1 c (rStmt o c env s).2 rest).1).count a = (log o).count a +
        ((sStmt c.inFunction env s).1 ++ (sStmts c.inFunction (sStmt c.inFunction env s).2 rest).1).count a
      rw [h3, h1, h2]; simp only [List.count_append]; omega
    · show (rStmts (rStmt o c env s).1 c (rStmt o c env s).2 rest).2 = (sStmts c.inFunction (sStmt c.inFunction env s).2 rest).2
      rw [h4, h2]
theorem rTargets_count (vars : VarList) (o : Out) (c : Ctx) (env : Env) :
    (log (rTargets o c env vars)).count a =
      (log o).count a + (tV c.inFunction env vars).count a + (dVs c.inFunction env vars).count a := by
  cases vars with
  | nil => show (log o).count a = (log o).count a + ([] : List Ans).count a + ([] : List Ans).count a; simp
  | cons v rest =>
    cases v with
    | name t =>
      have hr : ∀ o' : Out, (o'.occs = (o.occ c env t .target).occs ∧ o'.decls = (o.occ c env t .target).decls) → (log (rTargets o' c env rest)).count a =
          (log o).count a + ((sAssign env t).count a + (tV c.inFunction env rest).count a) + (dVs c.inFunction env rest).count a := by
        intro o' ho
        rw [rTargets_count rest, log_congr ho.1 ho.2, log_occ_target]; omega
      show (log (rTargets (if (env.lookup t.text).isNone then _ else _) c env rest)).count a = (log o).count a +
        (sAssign env t ++ tV c.inFunction env rest).count a + (([] : List Ans) ++ dVs c.inFunction env rest).count a
      simp only [List.nil_append, List.count_append]
      split
      · exact hr _ ⟨rfl, rfl⟩
      · exact hr _ ⟨rfl, rfl⟩
    | expr vsp p ss =>
      show (log (rTargets (rVar o c env (.expr vsp p ss) .indexedTarget) c env rest)).count a = (log o).count a +
        (eVT c.inFunction env (.expr vsp p ss) ++ tV c.inFunction env rest).count a +
        (dV c.inFunction env (.expr vsp p ss) ++ dVs c.inFunction env rest).count a
      rw [rTargets_count rest, rVar_count (.expr vsp p ss) o c env .indexedTarget (by simp), eVk_indexed]
      simp only [List.count_append]; omega
theorem rElseIfs_count (l : ElseIfList) (o : Out) (c : Ctx) (env : Env) :
    (log (rElseIfs o c env l)).count a = (log o).count a + (sElifs c.inFunction env l).count a := by
  cases l with
  | nil => show (log o).count a = (log o).count a + ([] : List Ans).count a; simp
  | cons e rest =>
    cases e with
    | mk _ cond b =>
      show (log (rElseIfs (rBlock (rExpr o c env cond) { c with depth := c.depth + 1 } env b).1 c env rest)).count a =
        (log o).count a + (eE c.inFunction env cond ++ dE c.inFunction env cond ++
          (sBlock c.inFunction env b).1 ++ sElifs c.inFunction env rest).count a
      rw [rElseIfs_count rest, (rBlock_count b _ _ _).1, rExpr_count cond]
      simp only [List.count_append]; omega
theorem rStmt_count (s : Stmt) (o : Out) (c : Ctx) (env : Env) :
    (log (rStmt o c env s).1).count a = (log o).count a + (sStmt c.inFunction env s).1.count a ∧
    (rStmt o c env s).2 = (sStmt c.inFunction env s).2 := by
  cases s with
  | assign _ vars es =>
    refine ⟨?_, rfl⟩
    show (log (rTargets (rExprs o c env es) c env vars)).count a = (log o).count a +
      (sTargets c.inFunction env vars es ++ dVs c.inFunction env vars ++ dEs c.inFunction env es).count a
    rw [rTargets_count vars, rExprs_count es]
    simp only [List.count_append, sTargets_count]; omega
  | localAssign _ names es =>
    obtain ⟨h1, h2⟩ := declareAll_spec a .local_ (by simp) names (rExprs o c env es) env []
    refine ⟨?_, h2⟩
    show (log (declareAll (rExprs o c env es) env .local_ names []).1).count a = (log o).count a +
      (eEs c.inFunction env es ++ dEs c.inFunction env es ++ sDeclAll env .local_ names).count a
    rw [h1, rExprs_count es]; simp only [List.count_append]; omega
  | call f =>
    cases f with
    | mk fsp p ss =>
      refine ⟨?_, rfl⟩
      show (log (rSuffixes (rPrefix o c env p .value) c env ss)).count a = (log o).count a +
        (eP c.inFunction env p ++ dP c.inFunction env p ++ sSs c.inFunction env ss).count a
      rw [rSuffixes_count ss, rPrefix_count p o c env .value (by simp), ePk_value]
      simp only [List.count_append, sSs_count]; omega
  | do_ _ b => exact ⟨(rBlock_count b o { c with depth := c.depth + 1 } env).1, rfl⟩
  | while_ _ cond b =>
    refine ⟨?_, rfl⟩
    show (log (rBlock (rExpr o c env cond) { c with depth := c.depth + 1 } env b).1).count a = (log o).count a +
      (eE c.inFunction env cond ++ dE c.inFunction env cond ++ (sBlock c.inFunction env b).1).count a
    rw [(rBlock_count b _ _ _).1, rExpr_count cond]; simp only [List.count_append]; omega
  | repeat_ _ b cond =>
    refine ⟨?_, rfl⟩
    obtain ⟨h1, h2⟩ := rBlock_count b o { c with depth := c.depth + 1 } env
    show (log (rExpr (rBlock o { c with depth := c.depth + 1 } env b).1 c (rBlock o { c with depth := c.depth + 1 } env b).2 cond)).count a =
      (log o).count a + ((sBlock c.inFunction env b).1 ++ tE c.inFunction (sBlock c.inFunction env b).2 cond ++
        rE c.inFunction (sBlock c.inFunction env b).2 cond).count a
    have htr := tr_count a c.inFunction (sBlock c.inFunction env b).2 cond
    rw [rExpr_count cond, h1, h2]; simp only [List.count_append]; omega
  | if_ _ cond b elifs els =>
    refine ⟨?_, rfl⟩
    cases els with
    | none =>
      show (log (rElseIfs (rBlock (rExpr o c env cond) { c with depth := c.depth + 1 } env b).1 c env elifs)).count a =
        (log o).count a + (eE c.inFunction env cond ++ dE c.inFunction env cond ++ (sBlock c.inFunction env b).1 ++
          sElifs c.inFunction env elifs ++ []).count a
      rw [rElseIfs_count elifs, (rBlock_count b _ _ _).1, rExpr_count cond]; simp only [List.count_append, List.count_nil]; omega
    | some eb =>
      show (log (rBlock (rElseIfs (rBlock (rExpr o c env cond) { c with depth := c.depth + 1 } env b).1 c env elifs)
          { c with depth := c.depth + 1 } env eb).1).count a =
        (log o).count a + (eE c.inFunction env cond ++ dE c.inFunction env cond ++ (sBlock c.inFunction env b).1 ++
          sElifs c.inFunction env elifs ++ (sBlock c.inFunction env eb).1).count a
      rw [(rBlock_count eb _ _ _).1, rElseIfs_count elifs, (rBlock_count b _ _ _).1, rExpr_count cond]
      simp only [List.count_append]; omega
  | numFor _ v _ start stop step b =>
    refine ⟨?_, rfl⟩
    cases step with
    | none =>
      show (log (rBlock _ { c with depth := c.depth + 1 } (bindTok env v v.text .loopVar) b).1).count a =
        (log o).count a + (eE c.inFunction env start ++ eE c.inFunction env stop ++ [] ++
          dE c.inFunction env start ++ dE c.inFunction env stop ++ [] ++
          sDecl env v v.text ++ (sBlock c.inFunction (bindTok env v v.text .loopVar) b).1).count a
      refine Eq.trans (rBlock_count b _ _ _).1 ?_
      refine Eq.trans (congrArg (· + _) (log_declare' a (rExpr (rExpr o c env start) c env stop) _ env v v.text .loopVar [] (by simp) rfl rfl)) ?_
      rw [rExpr_count stop, rExpr_count start]
      simp only [List.count_append, List.count_nil]; omega
    | some st =>
      show (log (rBlock _ { c with depth := c.depth + 1 } (bindTok env v v.text .loopVar) b).1).count a =
        (log o).count a + (eE c.inFunction env start ++ eE c.inFunction env stop ++ eE c.inFunction env st ++
          dE c.inFunction env start ++ dE c.inFunction env stop ++ dE c.inFunction env st ++
          sDecl env v v.text ++ (sBlock c.inFunction (bindTok env v v.text .loopVar) b).1).count a
      refine Eq.trans (rBlock_count b _ _ _).1 ?_
      refine Eq.trans (congrArg (· + _) (log_declare' a (rExpr (rExpr (rExpr o c env start) c env stop) c env st) _ env v v.text .loopVar [] (by simp) rfl rfl)) ?_
      rw [rExpr_count st, rExpr_count stop, rExpr_count start]
      simp only [List.count_append]; omega
  | genFor _ names es b =>
    refine ⟨?_, rfl⟩
    have key : ∀ o' : Out, (o'.occs = (rExprs o c env es).occs ∧ o'.decls = (rExprs o c env es).decls) →
        (log (rBlock (declareAll o' env .loopVar names []).1 { c with depth := c.depth + 1 }
          (declareAll o' env .loopVar names []).2 b).1).count a =
        (log o).count a + (eEs c.inFunction env es ++ dEs c.inFunction env es ++ sDeclAll env .loopVar names ++
          (sBlock c.inFunction (bindAll env .loopVar names) b).1).count a := by
      intro o' ho
      obtain ⟨h1, h2⟩ := declareAll_spec a .loopVar (by simp) names o' env []
      rw [(rBlock_count b _ _ _).1, h1, log_congr ho.1 ho.2, h2, rExprs_count es]
      simp only [List.count_append]; omega
    refine key (match es.toList with
      | [] => rExprs o c env es
      | e :: rest => { rExprs o c env es with loopHeaders := (⟨e.span.first, (rest.getLast?.getD e).span.last⟩, names.map (·.idx)) :: (rExprs o c env es).loopHeaders }) ?_
    split <;> exact ⟨rfl, rfl⟩
  | func _ name body =>
    obtain ⟨nsp, names, method⟩ := name
    cases names with
    | nil => exact ⟨by show (log o).count a = (log o).count a + ([] : List Ans).count a; simp, rfl⟩
    | cons base more =>
      refine ⟨?_, rfl⟩
      show (log (rBody (if (!more.isEmpty || method.isSome) = true then o.occ c env base .indexedTarget
          else if (env.lookup base.text).isNone = true then _ else o.occ c env base .target) c env method body)).count a =
        (log o).count a + ((if (!more.isEmpty || method.isSome) = true then sRead c.inFunction env base true else sAssign env base) ++
          sBody env method body).count a
      rw [rBody_count body]
      cases hl : (!more.isEmpty || method.isSome)
      · simp only [Bool.false_eq_true, if_false]
        have hr : (log (if (env.lookup base.text).isNone = true then
            { o.occ c env base .target with
              anyAssigned := base.text :: (o.occ c env base .target).anyAssigned,
              topAssigned := if c.depth = 0 then base.text :: (o.occ c env base .target).topAssigned
                else (o.occ c env base .target).topAssigned }
          else o.occ c env base .target)).count a = (log o).count a + (sAssign env base).count a := by
          split
          · exact (congrArg (List.count a) (log_congr rfl rfl)).trans (log_occ_target a o c env base)
          · exact log_occ_target a o c env base
        rw [hr]; simp only [List.count_append]; omega
      · simp only [if_true]
        rw [log_occ a _ _ _ _ _ (by simp)]
        have : (OccKind.indexedTarget == OccKind.indexedTarget) = true := rfl
        rw [this]; simp only [List.count_append]; omega
  | localFunc _ name body =>
    refine ⟨?_, rfl⟩
    show (log (rBody (declare o env name name.text .localFunc []).1 c (bindTok env name name.text .localFunc) none body)).count a =
      (log o).count a + (sDecl env name name.text ++ sBody (bindTok env name name.text .localFunc) none body).count a
    rw [rBody_count body, log_declare a o env name name.text .localFunc [] (by simp)]
    simp only [List.count_append]; omega
  | unsupported _ => exact ⟨by show (log o).count a = (log o).count a + ([] : List Ans).count a; simp, rfl⟩
end
end

/-- everything the resolver answers about the whole chunk, as a multiset -/
theorem resolve_count (a : Ans) (b : Block) : (log (resolve b)).count a = (chunk b).count a := by
  have := (rBlock_count a b {} { inFunction := false, depth := 0 } []).1
  simpa [resolve, chunk, log, readsOf, declsOf, assignsOf] using this

theorem resolve_perm (b : Block) : (log (resolve b)).Perm (chunk b) :=
  List.perm_iff_count.mpr fun a => resolve_count a b

/-! ### projections of the log -/

theorem filterMap_none {α β : Type} (l : List α) : l.filterMap (fun _ => (none : Option β)) = [] := by
  induction l with
  | nil => rfl
  | cons _ _ ih => simp [List.filterMap_cons, ih]

theorem occAns_readOf (oc : Occ) : Core.Ans.readOf (occAns oc) = some (oc.tok, oc.binding.map (·.1)) := by
  unfold occAns; split <;> rfl
theorem occAns_declOf (oc : Occ) : Core.Ans.declOf (occAns oc) = none := by
  unfold occAns; split <;> rfl
theorem occAns_assignOf (oc : Occ) : Core.Ans.assignOf (occAns oc) = none := by
  unfold occAns; split <;> rfl
theorem occAns_valueOf (oc : Occ) (hk : oc.kind ≠ .target) :
    Core.Ans.valueOf (occAns oc) = if oc.kind == .value then some (oc.tok, oc.binding.map (·.1)) else none := by
  unfold occAns
  cases h : oc.kind <;> simp_all [Core.Ans.valueOf]

theorem fm_map_some {α β γ : Type} (l : List α) (g : α → β) (f : β → Option γ) (h : α → γ)
    (hh : ∀ x, f (g x) = some (h x)) : (l.map g).filterMap f = l.map h := by
  induction l with
  | nil => rfl
  | cons x rest ih => simp [List.filterMap_cons, hh, ih]

theorem fm_map_none {α β γ : Type} (l : List α) (g : α → β) (f : β → Option γ)
    (hh : ∀ x, f (g x) = none) : (l.map g).filterMap f = [] := by
  induction l with
  | nil => rfl
  | cons x rest ih => simp [List.filterMap_cons, hh, ih]

theorem reads_fm (o : Out) : (readsOf o).filterMap Core.Ans.readOf = reads o := by
  unfold readsOf reads
  exact fm_map_some _ occAns Core.Ans.readOf (fun oc => (oc.tok, oc.binding.map (·.1))) occAns_readOf
theorem decls_fm (o : Out) : (declsOf o).filterMap Core.Ans.declOf = shadows o := by
  unfold declsOf shadows
  exact fm_map_some _ (fun d : Decl => Ans.decl d.tok (d.visibleSameName.map (·.1))) Core.Ans.declOf
    (fun d => (d.tok, d.visibleSameName.map (·.1))) (fun _ => rfl)
theorem assigns_fm (o : Out) : (assignsOf o).filterMap Core.Ans.assignOf = globalAssigns o := by
  unfold assignsOf globalAssigns
  exact fm_map_some _ (fun oc : Occ => Ans.gassign oc.tok) Core.Ans.assignOf (fun oc => oc.tok) (fun _ => rfl)
theorem decls_none {γ : Type} (o : Out) (f : Ans → Option γ) (hf : ∀ t d, f (.decl t d) = none) :
    (declsOf o).filterMap f = [] := by
  unfold declsOf
  exact fm_map_none _ (fun d : Decl => Ans.decl d.tok (d.visibleSameName.map (·.1))) f (fun _ => hf _ _)
theorem assigns_none {γ : Type} (o : Out) (f : Ans → Option γ) (hf : ∀ t, f (.gassign t) = none) :
    (assignsOf o).filterMap f = [] := by
  unfold assignsOf
  exact fm_map_none _ (fun oc : Occ => Ans.gassign oc.tok) f (fun _ => hf _)
theorem reads_none {γ : Type} (o : Out) (f : Ans → Option γ) (hf : ∀ oc, f (occAns oc) = none) :
    (readsOf o).filterMap f = [] := by
  unfold readsOf
  exact fm_map_none _ occAns f hf

theorem log_reads (o : Out) : (log o).filterMap Core.Ans.readOf = reads o := by
  unfold log
  rw [List.filterMap_append, List.filterMap_append, reads_fm, decls_none o _ (fun _ _ => rfl), assigns_none o _ (fun _ => rfl)]
  simp

theorem log_shadows (o : Out) : (log o).filterMap Core.Ans.declOf = shadows o := by
  unfold log
  rw [List.filterMap_append, List.filterMap_append, decls_fm, reads_none o _ occAns_declOf, assigns_none o _ (fun _ => rfl)]
  simp

theorem log_globalAssigns (o : Out) : (log o).filterMap Core.Ans.assignOf = globalAssigns o := by
  unfold log
  rw [List.filterMap_append, List.filterMap_append, assigns_fm, reads_none o _ occAns_assignOf, decls_none o _ (fun _ _ => rfl)]
  simp

theorem log_valueUses (o : Out) : (log o).filterMap Core.Ans.valueOf = valueUses o := by
  have h1 : (readsOf o).filterMap Core.Ans.valueOf = valueUses o := by
    unfold readsOf valueUses
    induction o.occs with
    | nil => rfl
    | cons oc rest ih =>
      simp only [List.filter_cons]
      cases hc : counted oc with
      | false => simpa using ih
      | true =>
        cases hr : Core.NameFilter.read oc.name with
        | false => simpa using ih
        | true =>
          have hk : oc.kind ≠ .target := by
            intro h; simp [counted, h] at hc
          simp only [Bool.and_self, Bool.true_and, if_true, List.map_cons, List.filterMap_cons, occAns_valueOf oc hk]
          cases hv : (oc.kind == OccKind.value) <;> simpa using ih
  unfold log
  rw [List.filterMap_append, List.filterMap_append, h1, decls_none o _ (fun _ _ => rfl), assigns_none o _ (fun _ => rfl)]
  simp

theorem mem_globalAssigns (o : Out) (t : Nat) :
    t ∈ globalAssigns o ↔ ∃ oc ∈ o.occs, assignsGlobal oc = true ∧ Core.NameFilter.assign oc.name = true ∧ oc.tok = t := by
  simp only [globalAssigns, List.mem_map, List.mem_filter, Bool.and_eq_true]
  constructor
  · rintro ⟨oc, ⟨h1, h2, h3⟩, h4⟩; exact ⟨oc, h1, h2, h3, h4⟩
  · rintro ⟨oc, h1, h2, h3, h4⟩; exact ⟨oc, ⟨h1, h2, h3⟩, h4⟩

end Selene.Scope.SpecProof
