import Selene.Scope.Ordered
import Selene.Lua.Rename
namespace Selene.Scope.RenameProof
set_option linter.unusedSectionVars false
open Selene.Lua Selene.Scope.Spec Selene.Scope.Ordered
open Selene.Scope.Core (Ans)

variable [Core.NameFilter]

/-- a renaming of identifiers that can be undone, leaves the two names the language itself introduces
    alone, and does not move a name into or out of the set the name filter keeps (the property's "does
    not match an ignore pattern before or after") -/
structure Renaming (ρ : String → String) : Prop where
  inj : ∀ a b, ρ a = ρ b → a = b
  dots : ρ "..." = "..."
  self : ρ "self" = "self"
  keep : ∀ n, Core.NameFilter.keep (ρ n) = Core.NameFilter.keep n
  read : ∀ n, Core.NameFilter.read (ρ n) = Core.NameFilter.read n
  assign : ∀ n, Core.NameFilter.assign (ρ n) = Core.NameFilter.assign n

def renEnv (ρ : String → String) (env : Env) : Env := env.map fun e => (ρ e.1, e.2)

section
variable {ρ : String → String} (hρ : Renaming ρ)
include hρ

theorem look_ren (env : Env) (n : String) : look (renEnv ρ env) (ρ n) = look env n := by
  unfold look Env.lookup renEnv
  induction env with
  | nil => rfl
  | cons e rest ih =>
    simp only [List.map_cons, List.find?_cons]
    by_cases h : e.1 = n
    · simp [h]
    · have : ¬ (ρ e.1 = ρ n) := fun hh => h (hρ.inj _ _ hh)
      simp only [h, this, decide_false]
      exact ih

theorem sRead_ren (inF : Bool) (env : Env) (t : Tok) (root : Bool := false) :
    sRead inF (renEnv ρ env) (t.ren ρ) root = sRead inF env t root := by
  unfold sRead
  have : (t.ren ρ).text = "..." ↔ t.text = "..." := by
    simp only [Tok.ren]
    constructor
    · intro h; rw [← hρ.dots] at h; exact hρ.inj _ _ h
    · intro h; rw [h, hρ.dots]
  by_cases h : inF = false ∧ t.text = "..."
  · have h' : inF = false ∧ (t.ren ρ).text = "..." := ⟨h.1, this.mpr h.2⟩
    simp [h, h']
  · have h' : ¬ (inF = false ∧ (t.ren ρ).text = "...") := fun hh => h ⟨hh.1, this.mp hh.2⟩
    simp only [h, h', if_false]
    simp only [Tok.ren, look_ren hρ, hρ.read]

theorem sAssign_ren (env : Env) (t : Tok) : sAssign (renEnv ρ env) (t.ren ρ) = sAssign env t := by
  simp only [sAssign, Tok.ren, look_ren hρ, hρ.assign]

theorem bindTok_ren (env : Env) (t : Tok) (name : String) (k : DeclKind) :
    renEnv ρ (bindTok env t name k) = bindTok (renEnv ρ env) (t.ren ρ) (ρ name) k := rfl

theorem bindAll_ren (k : DeclKind) (names : List Tok) (env : Env) :
    renEnv ρ (bindAll env k names) = bindAll (renEnv ρ env) k (names.map (Tok.ren ρ)) := by
  induction names generalizing env with
  | nil => rfl
  | cons t rest ih => simp only [bindAll, List.map_cons]; rw [ih]; rfl

theorem bindParams_ren (ps : List Param) (env : Env) :
    renEnv ρ (bindParams env ps) = bindParams (renEnv ρ env) (ps.map (Param.ren ρ)) := by
  induction ps generalizing env with
  | nil => rfl
  | cons p rest ih =>
    cases p with
    | name t => simp only [bindParams, List.map_cons, Param.ren]; rw [ih]; rfl
    | dots t =>
      simp only [bindParams, List.map_cons, Param.ren]; rw [ih]
      congr 1
      show (ρ "...", _) :: renEnv ρ env = _
      rw [hρ.dots]; rfl

theorem sDecl_ren (env : Env) (t : Tok) (name : String) :
    sDecl (renEnv ρ env) (t.ren ρ) (ρ name) = sDecl env t name := by
  simp only [sDecl, Tok.ren, look_ren hρ, hρ.keep]

theorem sDeclAll_ren (k : DeclKind) (names : List Tok) (env : Env) :
    sDeclAll (renEnv ρ env) k (names.map (Tok.ren ρ)) = sDeclAll env k names := by
  induction names generalizing env with
  | nil => rfl
  | cons t rest ih =>
    simp only [sDeclAll, List.map_cons]
    rw [show (t.ren ρ).text = ρ t.text from rfl, sDecl_ren hρ, ← bindTok_ren hρ, ih]

theorem sDeclParams_ren (ps : List Param) (env : Env) :
    sDeclParams (renEnv ρ env) (ps.map (Param.ren ρ)) = sDeclParams env ps := by
  induction ps generalizing env with
  | nil => rfl
  | cons p rest ih =>
    cases p with
    | name t =>
      simp only [sDeclParams, List.map_cons, Param.ren]
      rw [show (t.ren ρ).text = ρ t.text from rfl, sDecl_ren hρ, ← bindTok_ren hρ, ih]
    | dots t =>
      simp only [sDeclParams, List.map_cons, Param.ren]
      have : bindTok (renEnv ρ env) t "..." .varargParam = renEnv ρ (bindTok env t "..." .varargParam) := by
        show _ = (ρ "...", _) :: renEnv ρ env
        rw [hρ.dots]; rfl
      rw [this, ih]

omit hρ in
theorem hasDots_ren (ps : List Param) : hasDots (ps.map (Param.ren ρ)) = hasDots ps := by
  induction ps with
  | nil => rfl
  | cons p rest ih => cases p <;> simp [hasDots, Param.ren, ih]

mutual
theorem eE_ren (inF : Bool) (env : Env) (e : Expr) : eE inF (renEnv ρ env) (e.ren ρ) = eE inF env e := by
  cases e with
  | paren sp e => exact eE_ren inF env e
  | un sp op e => exact eE_ren inF env e
  | bin sp l op r =>
    show eE inF (renEnv ρ env) (l.ren ρ) ++ eE inF (renEnv ρ env) (r.ren ρ) = eE inF env l ++ eE inF env r
    rw [eE_ren inF env l, eE_ren inF env r]
  | func _ _ _ => rfl
  | call c => exact eC_ren inF env c
  | tbl sp fs => exact eFs_ren inF env fs
  | dots t => exact sRead_ren hρ inF env t
  | var v => exact eV_ren inF env v
  | nil _ => rfl
  | true_ _ => rfl
  | false_ _ => rfl
  | num _ => rfl
  | str _ _ _ => rfl
  | unsupported _ => rfl
theorem eEs_ren (inF : Bool) (env : Env) (es : ExprList) : eEs inF (renEnv ρ env) (es.ren ρ) = eEs inF env es := by
  cases es with
  | nil => rfl
  | cons e rest =>
    show eE inF (renEnv ρ env) (e.ren ρ) ++ eEs inF (renEnv ρ env) (rest.ren ρ) = eE inF env e ++ eEs inF env rest
    rw [eE_ren inF env e, eEs_ren inF env rest]
theorem eC_ren (inF : Bool) (env : Env) (c : FCall) : eC inF (renEnv ρ env) (c.ren ρ) = eC inF env c := by
  cases c with
  | mk sp p ss =>
    show eP inF (renEnv ρ env) (p.ren ρ) ++ eSs inF (renEnv ρ env) (ss.ren ρ) = eP inF env p ++ eSs inF env ss
    rw [eP_ren inF env p, eSs_ren inF env ss]
theorem eP_ren (inF : Bool) (env : Env) (p : Prefix) : eP inF (renEnv ρ env) (p.ren ρ) = eP inF env p := by
  cases p with
  | name t => exact sRead_ren hρ inF env t
  | expr e => exact eE_ren inF env e
theorem eSs_ren (inF : Bool) (env : Env) (ss : SuffixList) : eSs inF (renEnv ρ env) (ss.ren ρ) = eSs inF env ss := by
  cases ss with
  | nil => rfl
  | cons s rest =>
    show eS inF (renEnv ρ env) (s.ren ρ) ++ eSs inF (renEnv ρ env) (rest.ren ρ) = eS inF env s ++ eSs inF env rest
    rw [eS_ren inF env s, eSs_ren inF env rest]
theorem eS_ren (inF : Bool) (env : Env) (s : Suffix) : eS inF (renEnv ρ env) (s.ren ρ) = eS inF env s := by
  cases s with
  | dot _ _ => rfl
  | idx sp e => exact eE_ren inF env e
  | args sp a => exact eA_ren inF env a
  | meth sp n a => exact eA_ren inF env a
  | unsupported _ => rfl
theorem eA_ren (inF : Bool) (env : Env) (a : Args) : eA inF (renEnv ρ env) (a.ren ρ) = eA inF env a := by
  cases a with
  | parens sp es => exact eEs_ren inF env es
  | tbl sp fs => exact eFs_ren inF env fs
  | str _ _ _ => rfl
theorem eFs_ren (inF : Bool) (env : Env) (fs : FieldList) : eFs inF (renEnv ρ env) (fs.ren ρ) = eFs inF env fs := by
  cases fs with
  | nil => rfl
  | cons f rest =>
    cases f with
    | exprKey sp k v =>
      show (eE inF (renEnv ρ env) (k.ren ρ) ++ eE inF (renEnv ρ env) (v.ren ρ)) ++ eFs inF (renEnv ρ env) (rest.ren ρ) =
        (eE inF env k ++ eE inF env v) ++ eFs inF env rest
      rw [eE_ren inF env k, eE_ren inF env v, eFs_ren inF env rest]
    | nameKey sp k v =>
      show eE inF (renEnv ρ env) (v.ren ρ) ++ eFs inF (renEnv ρ env) (rest.ren ρ) = eE inF env v ++ eFs inF env rest
      rw [eE_ren inF env v, eFs_ren inF env rest]
    | noKey v =>
      show eE inF (renEnv ρ env) (v.ren ρ) ++ eFs inF (renEnv ρ env) (rest.ren ρ) = eE inF env v ++ eFs inF env rest
      rw [eE_ren inF env v, eFs_ren inF env rest]
    | unsupported sp =>
      show [] ++ eFs inF (renEnv ρ env) (rest.ren ρ) = [] ++ eFs inF env rest
      rw [eFs_ren inF env rest]
theorem eV_ren (inF : Bool) (env : Env) (v : Var) : eV inF (renEnv ρ env) (v.ren ρ) = eV inF env v := by
  cases v with
  | name t => exact sRead_ren hρ inF env t
  | expr sp p ss =>
    show eP inF (renEnv ρ env) (p.ren ρ) ++ eSs inF (renEnv ρ env) (ss.ren ρ) = eP inF env p ++ eSs inF env ss
    rw [eP_ren inF env p, eSs_ren inF env ss]
end

theorem ePT_ren (inF : Bool) (env : Env) (p : Prefix) : ePT inF (renEnv ρ env) (p.ren ρ) = ePT inF env p := by
  cases p with
  | name t => exact sRead_ren hρ inF env t true
  | expr e => exact eE_ren hρ inF env e

theorem eVT_ren (inF : Bool) (env : Env) (v : Var) : eVT inF (renEnv ρ env) (v.ren ρ) = eVT inF env v := by
  cases v with
  | name t => exact sRead_ren hρ inF env t true
  | expr sp p ss =>
    show ePT inF (renEnv ρ env) (p.ren ρ) ++ eSs inF (renEnv ρ env) (ss.ren ρ) = ePT inF env p ++ eSs inF env ss
    rw [ePT_ren hρ inF env p, eSs_ren hρ inF env ss]

theorem sTargets_ren (inF : Bool) (env : Env) (vars : VarList) (es : ExprList) :
    sTargets inF (renEnv ρ env) (vars.ren ρ) (es.ren ρ) = sTargets inF env vars es := by
  cases vars with
  | nil => exact eEs_ren hρ inF env es
  | cons v rest =>
    cases es with
    | nil =>
      have ih := sTargets_ren inF env rest .nil
      cases v with
      | name n =>
        show ([] : List Ans) ++ sAssign (renEnv ρ env) (n.ren ρ) ++ sTargets inF (renEnv ρ env) (rest.ren ρ) (ExprList.nil.ren ρ) = [] ++ sAssign env n ++ sTargets inF env rest .nil
        rw [ih, sAssign_ren hρ]
      | expr vsp p ss =>
        show ([] : List Ans) ++ eVT inF (renEnv ρ env) ((Var.expr vsp p ss).ren ρ) ++ sTargets inF (renEnv ρ env) (rest.ren ρ) (ExprList.nil.ren ρ) =
          [] ++ eVT inF env (.expr vsp p ss) ++ sTargets inF env rest .nil
        rw [ih, eVT_ren hρ]
    | cons e es' =>
      have ih := sTargets_ren inF env rest es'
      cases v with
      | name n =>
        show eE inF (renEnv ρ env) (e.ren ρ) ++ sAssign (renEnv ρ env) (n.ren ρ) ++ sTargets inF (renEnv ρ env) (rest.ren ρ) (es'.ren ρ) =
          eE inF env e ++ sAssign env n ++ sTargets inF env rest es'
        rw [ih, eE_ren hρ, sAssign_ren hρ]
      | expr vsp p ss =>
        show eE inF (renEnv ρ env) (e.ren ρ) ++ eVT inF (renEnv ρ env) ((Var.expr vsp p ss).ren ρ) ++
            sTargets inF (renEnv ρ env) (rest.ren ρ) (es'.ren ρ) =
          eE inF env e ++ eVT inF env (.expr vsp p ss) ++ sTargets inF env rest es'
        rw [ih, eE_ren hρ, eVT_ren hρ]

mutual
theorem rE_ren (inF : Bool) (env : Env) (e : Expr) : rE inF (renEnv ρ env) (e.ren ρ) = rE inF env e := by
  cases e with
  | paren sp e => exact rE_ren inF env e
  | un sp op e => exact rE_ren inF env e
  | bin sp l op r =>
    show rE inF (renEnv ρ env) (l.ren ρ) ++ rE inF (renEnv ρ env) (r.ren ρ) = rE inF env l ++ rE inF env r
    rw [rE_ren inF env l, rE_ren inF env r]
  | func _ _ _ => rfl
  | call c => cases c; rfl
  | tbl sp fs => exact rFs_ren inF env fs
  | dots t => exact sRead_ren hρ inF env t
  | var v =>
    cases v with
    | name t => exact sRead_ren hρ inF env t
    | expr sp p ss => exact rP_ren inF env p
  | nil _ => rfl
  | true_ _ => rfl
  | false_ _ => rfl
  | num _ => rfl
  | str _ _ _ => rfl
  | unsupported _ => rfl
theorem rP_ren (inF : Bool) (env : Env) (p : Prefix) : rP inF (renEnv ρ env) (p.ren ρ) = rP inF env p := by
  cases p with
  | name t => exact sRead_ren hρ inF env t
  | expr e => exact rE_ren inF env e
theorem rFs_ren (inF : Bool) (env : Env) (fs : FieldList) : rFs inF (renEnv ρ env) (fs.ren ρ) = rFs inF env fs := by
  cases fs with
  | nil => rfl
  | cons f rest =>
    cases f with
    | exprKey sp k v =>
      show (rE inF (renEnv ρ env) (k.ren ρ) ++ rE inF (renEnv ρ env) (v.ren ρ)) ++ rFs inF (renEnv ρ env) (rest.ren ρ) =
        (rE inF env k ++ rE inF env v) ++ rFs inF env rest
      rw [rE_ren inF env k, rE_ren inF env v, rFs_ren inF env rest]
    | nameKey sp k v =>
      show rE inF (renEnv ρ env) (v.ren ρ) ++ rFs inF (renEnv ρ env) (rest.ren ρ) = rE inF env v ++ rFs inF env rest
      rw [rE_ren inF env v, rFs_ren inF env rest]
    | noKey v =>
      show rE inF (renEnv ρ env) (v.ren ρ) ++ rFs inF (renEnv ρ env) (rest.ren ρ) = rE inF env v ++ rFs inF env rest
      rw [rE_ren inF env v, rFs_ren inF env rest]
    | unsupported sp =>
      show [] ++ rFs inF (renEnv ρ env) (rest.ren ρ) = [] ++ rFs inF env rest
      rw [rFs_ren inF env rest]
end

mutual
theorem dE_ren (inF : Bool) (env : Env) (e : Expr) : dE inF (renEnv ρ env) (e.ren ρ) = dE inF env e := by
  cases e with
  | paren sp e => exact dE_ren inF env e
  | un sp op e => exact dE_ren inF env e
  | bin sp l op r =>
    show dE inF (renEnv ρ env) (l.ren ρ) ++ dE inF (renEnv ρ env) (r.ren ρ) = dE inF env l ++ dE inF env r
    rw [dE_ren inF env l, dE_ren inF env r]
  | func sp kw body => exact sBody_ren env none body
  | call c => exact dC_ren inF env c
  | tbl sp fs => exact dFs_ren inF env fs
  | dots t => rfl
  | var v => exact dV_ren inF env v
  | nil _ => rfl
  | true_ _ => rfl
  | false_ _ => rfl
  | num _ => rfl
  | str _ _ _ => rfl
  | unsupported _ => rfl
theorem dEs_ren (inF : Bool) (env : Env) (es : ExprList) : dEs inF (renEnv ρ env) (es.ren ρ) = dEs inF env es := by
  cases es with
  | nil => rfl
  | cons e rest =>
    show dE inF (renEnv ρ env) (e.ren ρ) ++ dEs inF (renEnv ρ env) (rest.ren ρ) = dE inF env e ++ dEs inF env rest
    rw [dE_ren inF env e, dEs_ren inF env rest]
theorem dC_ren (inF : Bool) (env : Env) (c : FCall) : dC inF (renEnv ρ env) (c.ren ρ) = dC inF env c := by
  cases c with
  | mk sp p ss =>
    show dP inF (renEnv ρ env) (p.ren ρ) ++ dSs inF (renEnv ρ env) (ss.ren ρ) = dP inF env p ++ dSs inF env ss
    rw [dP_ren inF env p, dSs_ren inF env ss]
theorem dP_ren (inF : Bool) (env : Env) (p : Prefix) : dP inF (renEnv ρ env) (p.ren ρ) = dP inF env p := by
  cases p with
  | name t => rfl
  | expr e => exact dE_ren inF env e
theorem dSs_ren (inF : Bool) (env : Env) (ss : SuffixList) : dSs inF (renEnv ρ env) (ss.ren ρ) = dSs inF env ss := by
  cases ss with
  | nil => rfl
  | cons s rest =>
    show dS inF (renEnv ρ env) (s.ren ρ) ++ dSs inF (renEnv ρ env) (rest.ren ρ) = dS inF env s ++ dSs inF env rest
    rw [dS_ren inF env s, dSs_ren inF env rest]
theorem dS_ren (inF : Bool) (env : Env) (s : Suffix) : dS inF (renEnv ρ env) (s.ren ρ) = dS inF env s := by
  cases s with
  | dot _ _ => rfl
  | idx sp e => exact dE_ren inF env e
  | args sp a => exact dA_ren inF env a
  | meth sp n a => exact dA_ren inF env a
  | unsupported _ => rfl
theorem dA_ren (inF : Bool) (env : Env) (a : Args) : dA inF (renEnv ρ env) (a.ren ρ) = dA inF env a := by
  cases a with
  | parens sp es => exact dEs_ren inF env es
  | tbl sp fs => exact dFs_ren inF env fs
  | str _ _ _ => rfl
theorem dFs_ren (inF : Bool) (env : Env) (fs : FieldList) : dFs inF (renEnv ρ env) (fs.ren ρ) = dFs inF env fs := by
  cases fs with
  | nil => rfl
  | cons f rest =>
    cases f with
    | exprKey sp k v =>
      show (dE inF (renEnv ρ env) (k.ren ρ) ++ dE inF (renEnv ρ env) (v.ren ρ)) ++ dFs inF (renEnv ρ env) (rest.ren ρ) =
        (dE inF env k ++ dE inF env v) ++ dFs inF env rest
      rw [dE_ren inF env k, dE_ren inF env v, dFs_ren inF env rest]
    | nameKey sp k v =>
      show dE inF (renEnv ρ env) (v.ren ρ) ++ dFs inF (renEnv ρ env) (rest.ren ρ) = dE inF env v ++ dFs inF env rest
      rw [dE_ren inF env v, dFs_ren inF env rest]
    | noKey v =>
      show dE inF (renEnv ρ env) (v.ren ρ) ++ dFs inF (renEnv ρ env) (rest.ren ρ) = dE inF env v ++ dFs inF env rest
      rw [dE_ren inF env v, dFs_ren inF env rest]
    | unsupported sp =>
      show [] ++ dFs inF (renEnv ρ env) (rest.ren ρ) = [] ++ dFs inF env rest
      rw [dFs_ren inF env rest]
theorem dV_ren (inF : Bool) (env : Env) (v : Var) : dV inF (renEnv ρ env) (v.ren ρ) = dV inF env v := by
  cases v with
  | name t => rfl
  | expr sp p ss =>
    show dP inF (renEnv ρ env) (p.ren ρ) ++ dSs inF (renEnv ρ env) (ss.ren ρ) = dP inF env p ++ dSs inF env ss
    rw [dP_ren inF env p, dSs_ren inF env ss]
theorem dVs_ren (inF : Bool) (env : Env) (vs : VarList) : dVs inF (renEnv ρ env) (vs.ren ρ) = dVs inF env vs := by
  cases vs with
  | nil => rfl
  | cons v rest =>
    show dV inF (renEnv ρ env) (v.ren ρ) ++ dVs inF (renEnv ρ env) (rest.ren ρ) = dV inF env v ++ dVs inF env rest
    rw [dV_ren inF env v, dVs_ren inF env rest]
theorem sSs_ren (inF : Bool) (env : Env) (ss : SuffixList) : sSs inF (renEnv ρ env) (ss.ren ρ) = sSs inF env ss := by
  cases ss with
  | nil => rfl
  | cons s rest =>
    show eS inF (renEnv ρ env) (s.ren ρ) ++ dS inF (renEnv ρ env) (s.ren ρ) ++ sSs inF (renEnv ρ env) (rest.ren ρ) =
      eS inF env s ++ dS inF env s ++ sSs inF env rest
    rw [eS_ren hρ, dS_ren inF env s, sSs_ren inF env rest]
theorem tE_ren (inF : Bool) (env : Env) (e : Expr) : tE inF (renEnv ρ env) (e.ren ρ) = tE inF env e := by
  cases e with
  | paren sp e => exact tE_ren inF env e
  | un sp op e => exact tE_ren inF env e
  | bin sp l op r =>
    show tE inF (renEnv ρ env) (l.ren ρ) ++ tE inF (renEnv ρ env) (r.ren ρ) = tE inF env l ++ tE inF env r
    rw [tE_ren inF env l, tE_ren inF env r]
  | func sp kw body => exact sBody_ren env none body
  | call c =>
    cases c with
    | mk sp p ss =>
      show eP inF (renEnv ρ env) (p.ren ρ) ++ dP inF (renEnv ρ env) (p.ren ρ) ++ sSs inF (renEnv ρ env) (ss.ren ρ) =
        eP inF env p ++ dP inF env p ++ sSs inF env ss
      rw [eP_ren hρ, dP_ren inF env p, sSs_ren inF env ss]
  | tbl sp fs => exact tFs_ren inF env fs
  | dots t => rfl
  | var v =>
    cases v with
    | name t => rfl
    | expr sp p ss =>
      show tP inF (renEnv ρ env) (p.ren ρ) ++ sSs inF (renEnv ρ env) (ss.ren ρ) = tP inF env p ++ sSs inF env ss
      rw [tP_ren inF env p, sSs_ren inF env ss]
  | nil _ => rfl
  | true_ _ => rfl
  | false_ _ => rfl
  | num _ => rfl
  | str _ _ _ => rfl
  | unsupported _ => rfl
theorem tP_ren (inF : Bool) (env : Env) (p : Prefix) : tP inF (renEnv ρ env) (p.ren ρ) = tP inF env p := by
  cases p with
  | name t => rfl
  | expr e => exact tE_ren inF env e
theorem tFs_ren (inF : Bool) (env : Env) (fs : FieldList) : tFs inF (renEnv ρ env) (fs.ren ρ) = tFs inF env fs := by
  cases fs with
  | nil => rfl
  | cons f rest =>
    cases f with
    | exprKey sp k v =>
      show (tE inF (renEnv ρ env) (k.ren ρ) ++ tE inF (renEnv ρ env) (v.ren ρ)) ++ tFs inF (renEnv ρ env) (rest.ren ρ) =
        (tE inF env k ++ tE inF env v) ++ tFs inF env rest
      rw [tE_ren inF env k, tE_ren inF env v, tFs_ren inF env rest]
    | nameKey sp k v =>
      show tE inF (renEnv ρ env) (v.ren ρ) ++ tFs inF (renEnv ρ env) (rest.ren ρ) = tE inF env v ++ tFs inF env rest
      rw [tE_ren inF env v, tFs_ren inF env rest]
    | noKey v =>
      show tE inF (renEnv ρ env) (v.ren ρ) ++ tFs inF (renEnv ρ env) (rest.ren ρ) = tE inF env v ++ tFs inF env rest
      rw [tE_ren inF env v, tFs_ren inF env rest]
    | unsupported sp =>
      show [] ++ tFs inF (renEnv ρ env) (rest.ren ρ) = [] ++ tFs inF env rest
      rw [tFs_ren inF env rest]
theorem sBody_ren (env : Env) (selfTok : Option Tok) (body : FuncBody) :
    sBody (renEnv ρ env) selfTok (body.ren ρ) = sBody env selfTok body := by
  cases body with
  | mk sp params b =>
    have key : ∀ env₀ : Env,
        sDeclParams (("...", none) :: renEnv ρ env₀) (params.map (Param.ren ρ)) ++
        (sBlock true (bindParams (("...", none) :: renEnv ρ env₀) (params.map (Param.ren ρ))) (b.ren ρ)).1 =
        sDeclParams (("...", none) :: env₀) params ++
        (sBlock true (bindParams (("...", none) :: env₀) params) b).1 := by
      intro env₀
      have hb : (("...", none) :: renEnv ρ env₀ : Env) = renEnv ρ (("...", none) :: env₀) := by
        show _ = (ρ "...", none) :: renEnv ρ env₀
        rw [hρ.dots]
      rw [hb, ← bindParams_ren hρ, sDeclParams_ren hρ]
      rw [(sBlock_ren true _ b).1]
    cases selfTok with
    | none =>
      show [] ++ _ ++ _ = [] ++ _ ++ _
      simpa using key env
    | some m =>
      have := key (bindTok env m "self" .self_)
      have e : renEnv ρ (bindTok env m "self" .self_) = bindTok (renEnv ρ env) m "self" .self_ := by
        show (ρ "self", _) :: renEnv ρ env = _
        rw [hρ.self]; rfl
      rw [e] at this
      have hd : sDecl (renEnv ρ env) m "self" = sDecl env m "self" := by
        have := sDecl_ren hρ env m "self"
        rw [hρ.self] at this
        exact this
      show sDecl (renEnv ρ env) m "self" ++ _ ++ _ = sDecl env m "self" ++ _ ++ _
      rw [hd, List.append_assoc, List.append_assoc, this]
theorem sBlock_ren (inF : Bool) (env : Env) (b : Block) :
    (sBlock inF (renEnv ρ env) (b.ren ρ)).1 = (sBlock inF env b).1 ∧
    (sBlock inF (renEnv ρ env) (b.ren ρ)).2 = renEnv ρ (sBlock inF env b).2 := by
  cases b with
  | mk sp stmts last =>
    obtain ⟨h1, h2⟩ := sStmts_ren inF env stmts
    cases last with
    | none => exact ⟨h1, h2⟩
    | brk _ => exact ⟨h1, h2⟩
    | ret rsp es =>
      refine ⟨?_, h2⟩
      show (sStmts inF (renEnv ρ env) (stmts.ren ρ)).1 ++ eEs inF (sStmts inF (renEnv ρ env) (stmts.ren ρ)).2 (es.ren ρ) ++
          dEs inF (sStmts inF (renEnv ρ env) (stmts.ren ρ)).2 (es.ren ρ) =
        (sStmts inF env stmts).1 ++ eEs inF (sStmts inF env stmts).2 es ++ dEs inF (sStmts inF env stmts).2 es
      rw [h1, h2, eEs_ren hρ, dEs_ren inF _ es]
theorem sStmts_ren (inF : Bool) (env : Env) (l : StmtList) :
    (sStmts inF (renEnv ρ env) (l.ren ρ)).1 = (sStmts inF env l).1 ∧
    (sStmts inF (renEnv ρ env) (l.ren ρ)).2 = renEnv ρ (sStmts inF env l).2 := by
  cases l with
  | nil => exact ⟨rfl, rfl⟩
  | cons s rest =>
    obtain ⟨h1, h2⟩ := sStmt_ren inF env s
    obtain ⟨h3, h4⟩ := sStmts_ren inF (sStmt inF env s).2 rest
    refine ⟨?_, ?_⟩
    · show (sStmt inF (renEnv ρ env) (s.ren ρ)).1 ++ (sStmts inF (sStmt inF (renEnv ρ env) (s.ren ρ)).2 (rest.ren ρ)).1 =
        (sStmt inF env s).1 ++ (sStmts inF (sStmt inF env s).2 rest).1
      rw [h1, h2, h3]
    · show (sStmts inF (sStmt inF (renEnv ρ env) (s.ren ρ)).2 (rest.ren ρ)).2 = renEnv ρ (sStmts inF (sStmt inF env s).2 rest).2
      rw [h2, h4]
theorem sElifs_ren (inF : Bool) (env : Env) (l : ElseIfList) : sElifs inF (renEnv ρ env) (l.ren ρ) = sElifs inF env l := by
  cases l with
  | nil => rfl
  | cons e rest =>
    cases e with
    | mk sp c b =>
      show eE inF (renEnv ρ env) (c.ren ρ) ++ dE inF (renEnv ρ env) (c.ren ρ) ++ (sBlock inF (renEnv ρ env) (b.ren ρ)).1 ++
          sElifs inF (renEnv ρ env) (rest.ren ρ) =
        eE inF env c ++ dE inF env c ++ (sBlock inF env b).1 ++ sElifs inF env rest
      rw [eE_ren hρ, dE_ren inF env c, (sBlock_ren inF env b).1, sElifs_ren inF env rest]
theorem sStmt_ren (inF : Bool) (env : Env) (s : Stmt) :
    (sStmt inF (renEnv ρ env) (s.ren ρ)).1 = (sStmt inF env s).1 ∧
    (sStmt inF (renEnv ρ env) (s.ren ρ)).2 = renEnv ρ (sStmt inF env s).2 := by
  cases s with
  | assign sp vars es =>
    refine ⟨?_, rfl⟩
    show sTargets inF (renEnv ρ env) (vars.ren ρ) (es.ren ρ) ++ dVs inF (renEnv ρ env) (vars.ren ρ) ++ dEs inF (renEnv ρ env) (es.ren ρ) =
      sTargets inF env vars es ++ dVs inF env vars ++ dEs inF env es
    rw [sTargets_ren hρ, dVs_ren inF env vars, dEs_ren inF env es]
  | localAssign sp names es =>
    refine ⟨?_, (bindAll_ren hρ .local_ names env).symm⟩
    show eEs inF (renEnv ρ env) (es.ren ρ) ++ dEs inF (renEnv ρ env) (es.ren ρ) ++
        sDeclAll (renEnv ρ env) .local_ (names.map (Tok.ren ρ)) =
      eEs inF env es ++ dEs inF env es ++ sDeclAll env .local_ names
    rw [eEs_ren hρ, dEs_ren inF env es, sDeclAll_ren hρ]
  | call c =>
    cases c with
    | mk sp p ss =>
      refine ⟨?_, rfl⟩
      show eP inF (renEnv ρ env) (p.ren ρ) ++ dP inF (renEnv ρ env) (p.ren ρ) ++ sSs inF (renEnv ρ env) (ss.ren ρ) =
        eP inF env p ++ dP inF env p ++ sSs inF env ss
      rw [eP_ren hρ, dP_ren inF env p, sSs_ren inF env ss]
  | do_ sp b => exact ⟨(sBlock_ren inF env b).1, rfl⟩
  | while_ sp c b =>
    refine ⟨?_, rfl⟩
    show eE inF (renEnv ρ env) (c.ren ρ) ++ dE inF (renEnv ρ env) (c.ren ρ) ++ (sBlock inF (renEnv ρ env) (b.ren ρ)).1 =
      eE inF env c ++ dE inF env c ++ (sBlock inF env b).1
    rw [eE_ren hρ, dE_ren inF env c, (sBlock_ren inF env b).1]
  | repeat_ sp b c =>
    refine ⟨?_, rfl⟩
    obtain ⟨h1, h2⟩ := sBlock_ren inF env b
    show (sBlock inF (renEnv ρ env) (b.ren ρ)).1 ++ tE inF (sBlock inF (renEnv ρ env) (b.ren ρ)).2 (c.ren ρ) ++
        rE inF (sBlock inF (renEnv ρ env) (b.ren ρ)).2 (c.ren ρ) =
      (sBlock inF env b).1 ++ tE inF (sBlock inF env b).2 c ++ rE inF (sBlock inF env b).2 c
    rw [h1, h2, tE_ren inF _ c, rE_ren hρ]
  | if_ sp c b elifs els =>
    refine ⟨?_, rfl⟩
    cases els with
    | none =>
      show eE inF (renEnv ρ env) (c.ren ρ) ++ dE inF (renEnv ρ env) (c.ren ρ) ++ (sBlock inF (renEnv ρ env) (b.ren ρ)).1 ++
          sElifs inF (renEnv ρ env) (elifs.ren ρ) ++ [] =
        eE inF env c ++ dE inF env c ++ (sBlock inF env b).1 ++ sElifs inF env elifs ++ []
      rw [eE_ren hρ, dE_ren inF env c, (sBlock_ren inF env b).1, sElifs_ren inF env elifs]
    | some eb =>
      show eE inF (renEnv ρ env) (c.ren ρ) ++ dE inF (renEnv ρ env) (c.ren ρ) ++ (sBlock inF (renEnv ρ env) (b.ren ρ)).1 ++
          sElifs inF (renEnv ρ env) (elifs.ren ρ) ++ (sBlock inF (renEnv ρ env) (eb.ren ρ)).1 =
        eE inF env c ++ dE inF env c ++ (sBlock inF env b).1 ++ sElifs inF env elifs ++ (sBlock inF env eb).1
      rw [eE_ren hρ, dE_ren inF env c, (sBlock_ren inF env b).1, sElifs_ren inF env elifs, (sBlock_ren inF env eb).1]
  | numFor sp v comma start stop step b =>
    refine ⟨?_, rfl⟩
    have hb := (sBlock_ren inF (bindTok env v v.text .loopVar) b).1
    rw [bindTok_ren hρ] at hb
    cases step with
    | none =>
      show eE inF (renEnv ρ env) (start.ren ρ) ++ eE inF (renEnv ρ env) (stop.ren ρ) ++ [] ++
          dE inF (renEnv ρ env) (start.ren ρ) ++ dE inF (renEnv ρ env) (stop.ren ρ) ++ [] ++
          sDecl (renEnv ρ env) (v.ren ρ) (v.ren ρ).text ++
          (sBlock inF (bindTok (renEnv ρ env) (v.ren ρ) (v.ren ρ).text .loopVar) (b.ren ρ)).1 =
        eE inF env start ++ eE inF env stop ++ [] ++ dE inF env start ++ dE inF env stop ++ [] ++
          sDecl env v v.text ++ (sBlock inF (bindTok env v v.text .loopVar) b).1
      rw [eE_ren hρ, eE_ren hρ, dE_ren inF env start, dE_ren inF env stop]
      rw [show (v.ren ρ).text = ρ v.text from rfl, hb, sDecl_ren hρ]
    | some st =>
      show eE inF (renEnv ρ env) (start.ren ρ) ++ eE inF (renEnv ρ env) (stop.ren ρ) ++ eE inF (renEnv ρ env) (st.ren ρ) ++
          dE inF (renEnv ρ env) (start.ren ρ) ++ dE inF (renEnv ρ env) (stop.ren ρ) ++ dE inF (renEnv ρ env) (st.ren ρ) ++
          sDecl (renEnv ρ env) (v.ren ρ) (v.ren ρ).text ++
          (sBlock inF (bindTok (renEnv ρ env) (v.ren ρ) (v.ren ρ).text .loopVar) (b.ren ρ)).1 =
        eE inF env start ++ eE inF env stop ++ eE inF env st ++ dE inF env start ++ dE inF env stop ++ dE inF env st ++
          sDecl env v v.text ++ (sBlock inF (bindTok env v v.text .loopVar) b).1
      rw [eE_ren hρ, eE_ren hρ, eE_ren hρ, dE_ren inF env start, dE_ren inF env stop, dE_ren inF env st]
      rw [show (v.ren ρ).text = ρ v.text from rfl, hb, sDecl_ren hρ]
  | genFor sp names es b =>
    refine ⟨?_, rfl⟩
    have hb := (sBlock_ren inF (bindAll env .loopVar names) b).1
    rw [bindAll_ren hρ] at hb
    show eEs inF (renEnv ρ env) (es.ren ρ) ++ dEs inF (renEnv ρ env) (es.ren ρ) ++
        sDeclAll (renEnv ρ env) .loopVar (names.map (Tok.ren ρ)) ++
        (sBlock inF (bindAll (renEnv ρ env) .loopVar (names.map (Tok.ren ρ))) (b.ren ρ)).1 =
      eEs inF env es ++ dEs inF env es ++ sDeclAll env .loopVar names ++ (sBlock inF (bindAll env .loopVar names) b).1
    rw [eEs_ren hρ, dEs_ren inF env es, hb, sDeclAll_ren hρ]
  | func sp name body =>
    obtain ⟨nsp, names, method⟩ := name
    cases names with
    | nil => exact ⟨rfl, rfl⟩
    | cons base more =>
      refine ⟨?_, rfl⟩
      show (if (!more.isEmpty || method.isSome) = true then sRead inF (renEnv ρ env) (base.ren ρ) true else sAssign (renEnv ρ env) (base.ren ρ)) ++
          sBody (renEnv ρ env) method (body.ren ρ) =
        (if (!more.isEmpty || method.isSome) = true then sRead inF env base true else sAssign env base) ++ sBody env method body
      rw [sRead_ren hρ inF env base true, sBody_ren env method body, sAssign_ren hρ]
  | localFunc sp name body =>
    refine ⟨?_, ?_⟩
    · show sDecl (renEnv ρ env) (name.ren ρ) (name.ren ρ).text ++
          sBody (bindTok (renEnv ρ env) (name.ren ρ) (name.ren ρ).text .localFunc) none (body.ren ρ) =
        sDecl env name name.text ++ sBody (bindTok env name name.text .localFunc) none body
      have := sBody_ren (bindTok env name name.text .localFunc) none body
      rw [bindTok_ren hρ] at this
      rw [show (name.ren ρ).text = ρ name.text from rfl, sDecl_ren hρ, this]
    · exact (bindTok_ren hρ env name name.text .localFunc).symm
  | unsupported _ => exact ⟨rfl, rfl⟩
end

/-- **resolution does not depend on how names are spelled**: the ordered answers of a chunk and of its
    consistently renamed twin coincide -/
theorem chunk_ren (b : Block) : chunk (b.ren ρ) = chunk b := by
  have := (sBlock_ren hρ false [] b).1
  simpa [chunk, renEnv] using this
end
end Selene.Scope.RenameProof
