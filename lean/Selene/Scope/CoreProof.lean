/-
The scope-stack machine of `Scope/Core.lean` computes, for every chunk, exactly the answers listed by
`Ordered.chunk true`: `Core.analyse b |>.answers = Ordered.chunk b`.

Method (validated on a toy language first, DESIGN Appendix A): a relation `Rel` between the scope
stack and the specification's environment (every name looks up to the same local declaration,
hoisted globals and `...` barriers counting as "no local"), preserved by every primitive; `Pure`
(stack and function depth unchanged, answers extended) for expression traversals and `Grow` (only the
innermost scope changed) for statements; one mutual structural recursion over the syntax tree.
-/
import Selene.Scope.Ordered
import Selene.Scope.Safe
namespace Selene.Scope.CoreProof
open Selene.Lua Selene.Scope.Spec Selene.Scope.Core Selene.Scope.Ordered
open Selene.Scope.Safe (Step)

set_option linter.unusedSectionVars false

/-- the local declaration a stack lookup denotes: hoisted globals and barriers are not locals -/
def lb : Option (Nat × Bool) → Option Nat
  | some (d, false) => some d
  | _ => none

theorem localBinding_eq (r : Ref) : localBinding r = lb r.resolved := by
  unfold localBinding lb
  rcases r.resolved with _ | ⟨d, b⟩
  · rfl
  · cases b <;> rfl

structure Rel (st : Stack) (fd : Nat) (inF : Bool) (env : Env) : Prop where
  ne : st ≠ []
  fd : fd = 0 ↔ inF = false
  env : ∀ n, lb (stackFind st n) = look env n

/-! ### lookups -/

theorem stackFind_open (st : Stack) (n : String) : stackFind ([] :: st) n = stackFind st n := by
  simp [stackFind, scopeFind]

theorem stackFind_define (e : Entry) (hd : Scope) (tl : Stack) (n : String) :
    stackFind ((e :: hd) :: tl) n = if e.name = n then e.info else stackFind (hd :: tl) n := by
  by_cases h : e.name = n
  · simp [stackFind, scopeFind, h]
  · simp [stackFind, scopeFind, h]

theorem look_cons (env : Env) (name : String) (d : Option (Nat × DeclKind)) (n : String) :
    look ((name, d) :: env) n = if name = n then d.map (·.1) else look env n := by
  by_cases h : name = n
  · simp [look, Env.lookup, h]
  · simp [look, Env.lookup, h]

theorem look_bind (env : Env) (t : Tok) (name : String) (k : DeclKind) (n : String) :
    look (bindTok env t name k) n = if name = n then some t.idx else look env n := by
  unfold bindTok; rw [look_cons]; rfl

/-! ### answers -/

variable [NameFilter]

theorem log_push (σ : St) (r : Ref) :
    St.log { σ with refs := σ.refs ++ [r] } =
      σ.log ++ (if (r.counted && r.kept) = true then [r.ans] else []) := by
  simp only [St.log, List.filter_append, List.map_append]
  by_cases h : (r.counted && r.kept) = true <;> simp [h]

theorem ans_rewrite (name : String) (d : Nat) (r : Ref) : (rewrite name (d, true) r).ans = r.ans := by
  unfold rewrite; split
  · rename_i h; simp [Ref.ans, localBinding, h.2.1, h.2.2.1, h.2.2.2]
  · rfl

theorem log_rewrite (σ : St) (name : String) (d : Nat) :
    St.log { σ with refs := σ.refs.map (rewrite name (d, true)) } = σ.log := by
  simp only [St.log]
  induction σ.refs with
  | nil => simp
  | cons r rest ih =>
    have hc : (rewrite name (d, true) r).counted = r.counted := by unfold rewrite; split <;> rfl
    have hk : (rewrite name (d, true) r).kept = r.kept := by unfold rewrite; split <;> rfl
    simp only [List.map_cons, List.filter_cons, hc, hk]
    split <;> simp [ih, ans_rewrite]

/-! ### how a traversal relates its start and end states -/

structure Pure (σ σ' : St) (out : List Ans) : Prop where
  stack : σ'.stack = σ.stack
  fd : σ'.fdepth = σ.fdepth
  ans : σ'.log = σ.log ++ out
  safe : Step σ σ'          -- the hoisting invariants of `Scope/Safe.lean` are carried along

structure Grow (σ σ' : St) (out : List Ans) : Prop where
  stack : ∃ hd hd' tl, σ.stack = hd :: tl ∧ σ'.stack = hd' :: tl
  fd : σ'.fdepth = σ.fdepth
  ans : σ'.log = σ.log ++ out
  safe : Step σ σ'

theorem Pure.refl (σ : St) : Pure σ σ [] := ⟨rfl, rfl, by simp, Step.refl σ⟩

theorem Pure.trans {σ₁ σ₂ σ₃ : St} {o₁ o₂ : List Ans} (h₁ : Pure σ₁ σ₂ o₁) (h₂ : Pure σ₂ σ₃ o₂) :
    Pure σ₁ σ₃ (o₁ ++ o₂) :=
  ⟨h₂.stack.trans h₁.stack, h₂.fd.trans h₁.fd, by rw [h₂.ans, h₁.ans, List.append_assoc], h₁.safe.trans h₂.safe⟩

theorem Pure.rel {σ σ' : St} {o : List Ans} {inF : Bool} {env : Env} (h : Pure σ σ' o)
    (r : Rel σ.stack σ.fdepth inF env) : Rel σ'.stack σ'.fdepth inF env := by
  rw [h.stack, h.fd]; exact r

theorem Pure.grow {σ σ' : St} {o : List Ans} (h : Pure σ σ' o) (ne : σ.stack ≠ []) : Grow σ σ' o := by
  refine ⟨?_, h.fd, h.ans, h.safe⟩
  cases hs : σ.stack with
  | nil => exact absurd hs ne
  | cons hd tl => exact ⟨hd, hd, tl, rfl, by rw [h.stack, hs]⟩

theorem Grow.trans {σ₁ σ₂ σ₃ : St} {o₁ o₂ : List Ans} (h₁ : Grow σ₁ σ₂ o₁) (h₂ : Grow σ₂ σ₃ o₂) :
    Grow σ₁ σ₃ (o₁ ++ o₂) := by
  obtain ⟨hd, hd', tl, e1, e2⟩ := h₁.stack
  obtain ⟨hd2, hd2', tl2, e3, e4⟩ := h₂.stack
  rw [e2] at e3
  injection e3 with e5 e6
  subst e6
  exact ⟨⟨hd, hd2', tl, e1, e4⟩, h₂.fd.trans h₁.fd, by rw [h₂.ans, h₁.ans, List.append_assoc], h₁.safe.trans h₂.safe⟩

theorem Grow.pure {σ₁ σ₂ σ₃ : St} {o₁ o₂ : List Ans} (h₁ : Grow σ₁ σ₂ o₁) (h₂ : Pure σ₂ σ₃ o₂) :
    Grow σ₁ σ₃ (o₁ ++ o₂) := by
  obtain ⟨hd, hd', tl, e1, e2⟩ := h₁.stack
  exact ⟨⟨hd, hd', tl, e1, by rw [h₂.stack, e2]⟩, h₂.fd.trans h₁.fd, by rw [h₂.ans, h₁.ans, List.append_assoc], h₁.safe.trans h₂.safe⟩

theorem Pure.thenGrow {σ₁ σ₂ σ₃ : St} {o₁ o₂ : List Ans} (h₁ : Pure σ₁ σ₂ o₁) (h₂ : Grow σ₂ σ₃ o₂) :
    Grow σ₁ σ₃ (o₁ ++ o₂) := by
  obtain ⟨hd, hd', tl, e1, e2⟩ := h₂.stack
  exact ⟨⟨hd, hd', tl, by rw [← h₁.stack, e1], e2⟩, h₂.fd.trans h₁.fd, by rw [h₂.ans, h₁.ans, List.append_assoc], h₁.safe.trans h₂.safe⟩

/-- a traversal that ran inside a scope opened on top of `σ` and whose scope is closed again -/
theorem closed_step {σ σ₁ σ₂ : St} (hs : Step σ σ₁) (h : Step σ₁ σ₂) (hst : σ₂.close.stack = σ.stack) :
    Step σ σ₂.close :=
  ⟨fun i => Safe.close_inv _ (h.inv (hs.inv i)),
   fun n hn i g => ⟨by rw [hst]; exact g.1, (h.good n hn (hs.inv i) (hs.good n hn i g)).2⟩⟩

theorem Grow.closed {σ σ₁ σ₂ : St} {o₁ o : List Ans} {hd : Scope}
    (hopen : σ₁.stack = hd :: σ.stack) (hfd : σ₁.fdepth = σ.fdepth) (hans : σ₁.log = σ.log ++ o₁)
    (hsafe : Step σ σ₁) (h : Grow σ₁ σ₂ o) : Pure σ σ₂.close (o₁ ++ o) := by
  obtain ⟨h1, h2, tl, e1, e2⟩ := h.stack
  rw [hopen] at e1
  injection e1 with _ e3
  subst e3
  refine ⟨by simp [St.close, e2], by simp [St.close, h.fd, hfd], ?_, closed_step hsafe h.safe (by simp [St.close, e2])⟩
  have : σ₂.close.log = σ₂.log := rfl
  rw [this, h.ans, hans, List.append_assoc]

/-! ### primitives -/

theorem read_pure (σ : St) (t : Tok) {inF : Bool} {env : Env} (r : Rel σ.stack σ.fdepth inF env)
    (root : Bool := false) : Pure σ (σ.read t true root) (sRead inF env t root) := by
  unfold St.read sRead
  by_cases h : σ.fdepth = 0 ∧ t.text = "..."
  · have h' : inF = false ∧ t.text = "..." := ⟨r.fd.mp h.1, h.2⟩
    simp only [h, h', and_self, if_true]
    exact Pure.refl σ
  · have h' : ¬ (inF = false ∧ t.text = "...") := fun hh => h ⟨r.fd.mpr hh.1, hh.2⟩
    have hs : Step σ (σ.read t true root) := Safe.read_step σ t root
    unfold St.read at hs
    simp only [h, if_false] at hs
    simp only [h, h', if_false]
    refine ⟨rfl, rfl, ?_, hs⟩
    rw [log_push]
    by_cases hk : NameFilter.read t.text = true <;> cases root <;> simp [Ref.ans, Ref.kept, localBinding_eq, r.env, hk]

theorem define_grow (σ : St) (e : Entry) (ne : σ.stack ≠ [])
    (hbar : e.info = none → e.name = "...") (hnh : ∀ d, e.info ≠ some (d, true)) :
    Grow σ (σ.define e) [] ∧ ∃ hd tl, σ.stack = hd :: tl ∧ (σ.define e).stack = (e :: hd) :: tl := by
  cases hs : σ.stack with
  | nil => exact absurd hs ne
  | cons hd tl =>
    have hst : (σ.define e).stack = (e :: hd) :: tl := by simp [St.define, hs]
    refine ⟨⟨⟨hd, e :: hd, tl, hs, hst⟩, by simp [St.define, hs], by simp [St.define, hs, St.log],
      Safe.define_step σ e ne hbar hnh⟩, hd, tl, rfl, hst⟩

theorem logDecl_pure (σ : St) (t : Tok) (name : String) {inF : Bool} {env : Env}
    (r : Rel σ.stack σ.fdepth inF env) : Pure σ (σ.logDecl t name) (sDecl env t name) := by
  refine ⟨rfl, rfl, ?_, Safe.logDecl_step σ t name⟩
  unfold St.logDecl
  simp only
  rw [log_push]
  by_cases hk : NameFilter.keep name = true <;> simp [Ref.ans, Ref.kept, sDecl, localBinding_eq, r.env, hk]

theorem local_grow (σ : St) (t : Tok) (name : String) (k : DeclKind) {inF : Bool} {env : Env}
    (r : Rel σ.stack σ.fdepth inF env) :
    Grow σ (σ.declare t name) (sDecl env t name) ∧
    Rel (σ.declare t name).stack (σ.declare t name).fdepth inF (bindTok env t name k) := by
  have p := logDecl_pure σ t name r
  have r0 := p.rel r
  obtain ⟨g, hd, tl, e1, e2⟩ := define_grow (σ.logDecl t name) { name := name, info := some (t.idx, false) } r0.ne (by simp) (by simp)
  refine ⟨by simpa [St.declare, sDecl] using p.thenGrow g, ⟨by show (St.define _ _).stack ≠ []; rw [e2]; simp, by show (St.define _ _).fdepth = 0 ↔ _; rw [g.fd]; exact r0.fd, ?_⟩⟩
  intro n
  show lb (stackFind (St.define _ _).stack n) = _
  rw [e2, stackFind_define, look_bind]
  by_cases h : name = n
  · simp [h, lb]
  · simp only [h, if_false]; rw [← e1]; exact r0.env n

/-- the `...` barrier of a function that declares no `...` -/
theorem barrier_grow (σ : St) {inF : Bool} {env : Env} (r : Rel σ.stack σ.fdepth inF env) :
    Grow σ (σ.define { name := "...", info := none }) [] ∧
    Rel (σ.define { name := "...", info := none }).stack
        (σ.define { name := "...", info := none }).fdepth inF (("...", none) :: env) := by
  obtain ⟨g, hd, tl, e1, e2⟩ := define_grow σ { name := "...", info := none } r.ne (by simp) (by simp)
  refine ⟨g, ⟨by rw [e2]; simp, by rw [g.fd]; exact r.fd, ?_⟩⟩
  intro n
  rw [e2, stackFind_define, look_cons]
  by_cases h : "..." = n
  · simp [h, lb]
  · simp only [h, if_false]; rw [← e1]; exact r.env n

theorem logWrite_pure (σ : St) (t : Tok) {inF : Bool} {env : Env} (r : Rel σ.stack σ.fdepth inF env) :
    Pure σ (σ.logWrite t) (sAssign env t) := by
  refine ⟨rfl, rfl, ?_, Safe.logWrite_step σ t⟩
  unfold St.logWrite
  simp only
  rw [log_push]
  have : localOf (stackFind σ.stack t.text) = look env t.text := r.env t.text
  by_cases hk : NameFilter.assign t.text = true <;> cases hl : look env t.text <;>
    simp [Ref.ans, Ref.kept, sAssign, this, hk, hl]

/-- hoisting: a global definition is not a local binding, the environment is unchanged -/
theorem hoist_grow (σ : St) (t : Tok) {inF : Bool} {env : Env} (r : Rel σ.stack σ.fdepth inF env) :
    Grow σ (σ.hoist t) (sAssign env t) ∧ Rel (σ.hoist t).stack (σ.hoist t).fdepth inF env := by
  have p := logWrite_pure σ t r
  have r0 := p.rel r
  have hstep := Safe.hoist_step σ t r.ne
  rw [Safe.hoist_eq] at hstep ⊢
  cases hf : stackFind σ.stack t.text with
  | some v => exact ⟨p.grow r.ne, r0⟩
  | none =>
    simp only [hf] at hstep
    show Grow σ (Safe.hoisted (σ.logWrite t) t) _ ∧ Rel (Safe.hoisted (σ.logWrite t) t).stack (Safe.hoisted (σ.logWrite t) t).fdepth inF env
    have ne' : (σ.logWrite t).stack ≠ [] := r.ne
    obtain ⟨hd, tl, e1, e2, e3⟩ := Safe.hoisted_facts (σ.logWrite t) t ne'
    have e1' : σ.stack = hd :: tl := e1
    have hfd : (Safe.hoisted (σ.logWrite t) t).fdepth = σ.fdepth := Safe.hoisted_fdepth (σ.logWrite t) t
    refine ⟨⟨⟨hd, _, tl, e1', e2⟩, hfd, ?_, hstep⟩, ⟨by rw [e2]; simp, by rw [hfd]; exact r.fd, ?_⟩⟩
    · have := log_rewrite (σ.logWrite t) t.text t.idx
      have hl : (Safe.hoisted (σ.logWrite t) t).log = St.log { (σ.logWrite t) with refs := (σ.logWrite t).refs.map (rewrite t.text (t.idx, true)) } := by
        simp only [St.log, e3]
      rw [hl, this, p.ans]
    · intro n
      rw [e2, stackFind_define]
      by_cases h : t.text = n
      · subst h
        have := r.env t.text
        rw [hf] at this
        simp only [if_true, lb]
        simpa [lb] using this
      · simp only [h, if_false]; rw [← e1']; exact r.env n

/-- `function f … end`: the name is read (not an occurrence the specification counts), then written -/
theorem readHoist_grow (σ : St) (t : Tok) {inF : Bool} {env : Env} (r : Rel σ.stack σ.fdepth inF env) :
    Grow σ ((σ.read t false).hoist t) (sAssign env t) ∧
    Rel ((σ.read t false).hoist t).stack ((σ.read t false).hoist t).fdepth inF env := by
  have hstep := Safe.readHoist_step σ t r.ne
  -- the read: stack and depth unchanged, nothing counted
  have hp : (σ.read t false).stack = σ.stack ∧ (σ.read t false).fdepth = σ.fdepth ∧ (σ.read t false).log = σ.log := by
    unfold St.read
    split
    · exact ⟨rfl, rfl, rfl⟩
    · refine ⟨rfl, rfl, ?_⟩
      rw [log_push]; simp
  have r1 : Rel (σ.read t false).stack (σ.read t false).fdepth inF env := by rw [hp.1, hp.2.1]; exact r
  obtain ⟨g, rg⟩ := hoist_grow (σ.read t false) t r1
  obtain ⟨hd, hd', tl, e1, e2⟩ := g.stack
  exact ⟨⟨⟨hd, hd', tl, by rw [← hp.1]; exact e1, e2⟩, g.fd.trans hp.2.1, by rw [g.ans, hp.2.2], hstep⟩, rg⟩

theorem open_rel (σ : St) {inF : Bool} {env : Env} (r : Rel σ.stack σ.fdepth inF env) :
    Rel σ.open.stack σ.open.fdepth inF env :=
  ⟨by simp [St.open], r.fd, fun n => by simp only [St.open]; rw [stackFind_open]; exact r.env n⟩

/-! ### equation lemmas (by `rfl`; `simp` cannot generate them for the functions with a nested match) -/
theorem eagerFields_nil (σ : St) : eagerFields σ .nil = σ := rfl
theorem eagerFields_exprKey (σ : St) (sp k v rest) :
    eagerFields σ (.cons (.exprKey sp k v) rest) = eagerFields (eagerE (eagerE σ k) v) rest := rfl
theorem eagerFields_nameKey (σ : St) (sp k v rest) :
    eagerFields σ (.cons (.nameKey sp k v) rest) = eagerFields (eagerE σ v) rest := rfl
theorem eagerFields_noKey (σ : St) (v rest) :
    eagerFields σ (.cons (.noKey v) rest) = eagerFields (eagerE σ v) rest := rfl
theorem eagerFields_unsupported (σ : St) (sp rest) :
    eagerFields σ (.cons (.unsupported sp) rest) = eagerFields σ rest := rfl
theorem eFs_nil (inF env) : eFs inF env .nil = [] := rfl
theorem eFs_exprKey (inF env) (sp k v rest) :
    eFs inF env (.cons (.exprKey sp k v) rest) = (eE inF env k ++ eE inF env v) ++ eFs inF env rest := rfl
theorem eFs_nameKey (inF env) (sp k v rest) :
    eFs inF env (.cons (.nameKey sp k v) rest) = eE inF env v ++ eFs inF env rest := rfl
theorem eFs_noKey (inF env) (v rest) :
    eFs inF env (.cons (.noKey v) rest) = eE inF env v ++ eFs inF env rest := rfl
theorem eFs_unsupported (inF env) (sp rest) :
    eFs inF env (.cons (.unsupported sp) rest) = eFs inF env rest := rfl

/-! ### eager reads -/
section Eager
variable {inF : Bool} {env : Env}

mutual
theorem eagerE_pure (σ : St) (e : Expr) (r : Rel σ.stack σ.fdepth inF env) :
    Pure σ (eagerE σ e) (eE inF env e) := by
  cases e with
  | paren _ e => simpa [eagerE, eE] using eagerE_pure σ e r
  | un _ _ e => simpa [eagerE, eE] using eagerE_pure σ e r
  | bin _ l _ rr =>
    have h1 := eagerE_pure σ l r
    have h2 := eagerE_pure _ rr (h1.rel r)
    simpa [eagerE, eE] using h1.trans h2
  | func _ _ _ => simpa [eagerE, eE] using Pure.refl σ
  | call c => simpa [eagerE, eE] using eagerC_pure σ c r
  | tbl _ fs => simpa [eagerE, eE] using eagerFields_pure σ fs r
  | dots t => simpa [eagerE, eE] using read_pure σ t r
  | var v => simpa [eagerE, eE] using eagerV_pure σ v r
  | nil _ => simpa [eagerE, eE] using Pure.refl σ
  | true_ _ => simpa [eagerE, eE] using Pure.refl σ
  | false_ _ => simpa [eagerE, eE] using Pure.refl σ
  | num _ => simpa [eagerE, eE] using Pure.refl σ
  | str _ _ _ => simpa [eagerE, eE] using Pure.refl σ
  | unsupported _ => simpa [eagerE, eE] using Pure.refl σ
theorem eagerEs_pure (σ : St) (es : ExprList) (r : Rel σ.stack σ.fdepth inF env) :
    Pure σ (eagerEs σ es) (eEs inF env es) := by
  cases es with
  | nil => simpa [eagerEs, eEs] using Pure.refl σ
  | cons e rest =>
    have h1 := eagerE_pure σ e r
    have h2 := eagerEs_pure _ rest (h1.rel r)
    simpa [eagerEs, eEs] using h1.trans h2
theorem eagerC_pure (σ : St) (c : FCall) (r : Rel σ.stack σ.fdepth inF env) :
    Pure σ (eagerC σ c) (eC inF env c) := by
  cases c with
  | mk _ p ss =>
    have h1 := eagerP_pure σ p r
    have h2 := eagerSs_pure _ ss (h1.rel r)
    simpa [eagerC, eC] using h1.trans h2
theorem eagerP_pure (σ : St) (p : Prefix) (r : Rel σ.stack σ.fdepth inF env) :
    Pure σ (eagerP σ p) (eP inF env p) := by
  cases p with
  | name t => simpa [eagerP, eP] using read_pure σ t r
  | expr e => simpa [eagerP, eP] using eagerE_pure σ e r
theorem eagerSs_pure (σ : St) (ss : SuffixList) (r : Rel σ.stack σ.fdepth inF env) :
    Pure σ (eagerSs σ ss) (eSs inF env ss) := by
  cases ss with
  | nil => simpa [eagerSs, eSs] using Pure.refl σ
  | cons s rest =>
    have h1 := eagerS_pure σ s r
    have h2 := eagerSs_pure _ rest (h1.rel r)
    simpa [eagerSs, eSs] using h1.trans h2
theorem eagerS_pure (σ : St) (s : Suffix) (r : Rel σ.stack σ.fdepth inF env) :
    Pure σ (eagerS σ s) (eS inF env s) := by
  cases s with
  | dot _ _ => simpa [eagerS, eS] using Pure.refl σ
  | idx _ e => simpa [eagerS, eS] using eagerE_pure σ e r
  | args _ a => simpa [eagerS, eS] using eagerA_pure σ a r
  | meth _ _ a => simpa [eagerS, eS] using eagerA_pure σ a r
  | unsupported _ => simpa [eagerS, eS] using Pure.refl σ
theorem eagerA_pure (σ : St) (a : Args) (r : Rel σ.stack σ.fdepth inF env) :
    Pure σ (eagerA σ a) (eA inF env a) := by
  cases a with
  | parens _ es => simpa [eagerA, eA] using eagerEs_pure σ es r
  | tbl _ fs => simpa [eagerA, eA] using eagerFields_pure σ fs r
  | str _ _ _ => simpa [eagerA, eA] using Pure.refl σ
theorem eagerFields_pure (σ : St) (fs : FieldList) (r : Rel σ.stack σ.fdepth inF env) :
    Pure σ (eagerFields σ fs) (eFs inF env fs) := by
  cases fs with
  | nil => rw [eagerFields_nil, eFs_nil]; exact Pure.refl σ
  | cons f rest =>
    cases f with
    | exprKey _ k v =>
      have h1 := eagerE_pure σ k r
      have h2 := eagerE_pure _ v (h1.rel r)
      have h3 := eagerFields_pure _ rest ((h1.trans h2).rel r)
      rw [eagerFields_exprKey, eFs_exprKey]
      exact (h1.trans h2).trans h3
    | nameKey _ _ v =>
      have h1 := eagerE_pure σ v r
      have h3 := eagerFields_pure _ rest (h1.rel r)
      rw [eagerFields_nameKey, eFs_nameKey]
      exact h1.trans h3
    | noKey v =>
      have h1 := eagerE_pure σ v r
      have h3 := eagerFields_pure _ rest (h1.rel r)
      rw [eagerFields_noKey, eFs_noKey]
      exact h1.trans h3
    | unsupported _ =>
      rw [eagerFields_unsupported, eFs_unsupported]
      exact eagerFields_pure σ rest r
theorem eagerV_pure (σ : St) (v : Var) (r : Rel σ.stack σ.fdepth inF env) :
    Pure σ (eagerV σ v) (eV inF env v) := by
  cases v with
  | name t => simpa [eagerV, eV] using read_pure σ t r
  | expr _ p ss =>
    have h1 := eagerP_pure σ p r
    have h2 := eagerSs_pure _ ss (h1.rel r)
    simpa [eagerV, eV] using h1.trans h2
end
end Eager

theorem eagerPT_pure {inF : Bool} {env : Env} (σ : St) (p : Prefix) (r : Rel σ.stack σ.fdepth inF env) :
    Pure σ (eagerPT σ p) (ePT inF env p) := by
  cases p with
  | name t => exact read_pure σ t r true
  | expr e => exact eagerE_pure σ e r

theorem eagerVT_pure {inF : Bool} {env : Env} (σ : St) (v : Var) (r : Rel σ.stack σ.fdepth inF env) :
    Pure σ (eagerVT σ v) (eVT inF env v) := by
  cases v with
  | name t => exact read_pure σ t r true
  | expr _ p ss =>
    have h1 := eagerPT_pure σ p r
    have h2 := eagerSs_pure _ ss (h1.rel r)
    exact h1.trans h2

mutual
theorem restE_pure {inF : Bool} {env : Env} (σ : St) (e : Expr) (r : Rel σ.stack σ.fdepth inF env) :
    Pure σ (restE σ e) (rE inF env e) := by
  cases e with
  | paren _ e => simpa [restE, rE] using restE_pure σ e r
  | un _ _ e => simpa [restE, rE] using restE_pure σ e r
  | bin _ l _ rr =>
    have h1 := restE_pure σ l r
    have h2 := restE_pure _ rr (h1.rel r)
    simpa [restE, rE] using h1.trans h2
  | func _ _ _ => simpa [restE, rE] using Pure.refl σ
  | call c => simpa [restE, rE] using Pure.refl σ
  | tbl _ fs => simpa [restE, rE] using restFields_pure σ fs r
  | dots t => simpa [restE, rE] using read_pure σ t r
  | var v =>
    cases v with
    | name t => simpa [restE, rE] using read_pure σ t r
    | expr _ p _ => simpa [restE, rE] using restP_pure σ p r
  | nil _ => simpa [restE, rE] using Pure.refl σ
  | true_ _ => simpa [restE, rE] using Pure.refl σ
  | false_ _ => simpa [restE, rE] using Pure.refl σ
  | num _ => simpa [restE, rE] using Pure.refl σ
  | str _ _ _ => simpa [restE, rE] using Pure.refl σ
  | unsupported _ => simpa [restE, rE] using Pure.refl σ
theorem restP_pure {inF : Bool} {env : Env} (σ : St) (p : Prefix) (r : Rel σ.stack σ.fdepth inF env) :
    Pure σ (restP σ p) (rP inF env p) := by
  cases p with
  | name t => simpa [restP, rP] using read_pure σ t r
  | expr e => simpa [restP, rP] using restE_pure σ e r
theorem restF_pure {inF : Bool} {env : Env} (σ : St) (f : Field) (r : Rel σ.stack σ.fdepth inF env) :
    Pure σ (restF σ f) (rF inF env f) := by
  cases f with
  | exprKey _ k v =>
    have h1 := restE_pure σ k r
    have h2 := restE_pure _ v (h1.rel r)
    simpa [restF, rF] using h1.trans h2
  | nameKey _ _ v => simpa [restF, rF] using restE_pure σ v r
  | noKey v => simpa [restF, rF] using restE_pure σ v r
  | unsupported _ => simpa [restF, rF] using Pure.refl σ
theorem restFields_pure {inF : Bool} {env : Env} (σ : St) (fs : FieldList) (r : Rel σ.stack σ.fdepth inF env) :
    Pure σ (restFields σ fs) (rFs inF env fs) := by
  cases fs with
  | nil => simpa [restFields, rFs] using Pure.refl σ
  | cons f rest =>
    have h1 := restF_pure σ f r
    have h2 := restFields_pure _ rest (h1.rel r)
    simpa [restFields, rFs] using h1.trans h2
end

/-! ### what the induction carries -/

/-- an expression-like traversal: stack unchanged, answers as listed -/
def DescOK (f : St → St) (g : Bool → Env → List Ans) : Prop :=
  ∀ (σ : St) (inF : Bool) (env : Env), Rel σ.stack σ.fdepth inF env → Pure σ (f σ) (g inF env)

/-- a statement-like traversal: only the innermost scope grows, the environment follows the specification -/
def BlockOK (f : St → St) (g : Bool → Env → List Ans × Env) : Prop :=
  ∀ (σ : St) (inF : Bool) (env : Env), Rel σ.stack σ.fdepth inF env →
    Grow σ (f σ) (g inF env).1 ∧ Rel (f σ).stack (f σ).fdepth inF (g inF env).2

theorem Pure.block {σ σ' : St} {o o' : List Ans} {inF : Bool} {env : Env} (h : Pure σ σ' o)
    (r : Rel σ.stack σ.fdepth inF env) (e : o = o') :
    Grow σ σ' o' ∧ Rel σ'.stack σ'.fdepth inF env := by
  subst e; exact ⟨h.grow r.ne, h.rel r⟩

/-- generalised `Grow.closed`: the scope was opened by a function body that also raised the depth by `k` -/
theorem Grow.closedK {σ σ₁ σ₂ : St} {o₁ o : List Ans} {hd : Scope} (k : Nat)
    (hopen : σ₁.stack = hd :: σ.stack) (hfd : σ₁.fdepth = σ.fdepth + k) (hans : σ₁.log = σ.log ++ o₁)
    (h : Grow σ₁ σ₂ o) :
    σ₂.close.stack = σ.stack ∧ σ₂.close.fdepth = σ.fdepth + k ∧ σ₂.close.log = σ.log ++ (o₁ ++ o) := by
  obtain ⟨h1, h2, tl, e1, e2⟩ := h.stack
  rw [hopen] at e1
  injection e1 with _ e3
  subst e3
  refine ⟨by simp [St.close, e2], by simp [St.close, h.fd, hfd], ?_⟩
  have : σ₂.close.log = σ₂.log := rfl
  rw [this, h.ans, hans, List.append_assoc]

theorem defineAll_grow (k : DeclKind) (names : List Tok) (σ : St) (inF : Bool) (env : Env)
    (r : Rel σ.stack σ.fdepth inF env) :
    Grow σ (defineAll σ names) (sDeclAll env k names) ∧
    Rel (defineAll σ names).stack (defineAll σ names).fdepth inF (bindAll env k names) := by
  induction names generalizing σ env with
  | nil => exact ⟨(Pure.refl σ).grow r.ne, r⟩
  | cons t rest ih =>
    obtain ⟨g1, r1⟩ := local_grow σ t t.text k r
    obtain ⟨g2, r2⟩ := ih _ _ r1
    exact ⟨by simpa [defineAll, St.local_, sDeclAll] using g1.trans g2, by simpa [defineAll, St.local_, bindAll] using r2⟩

/-- parameters on top of the `...` barrier -/
theorem defineParams_grow (ps : List Param) (σ : St) (inF : Bool) (env : Env)
    (r : Rel σ.stack σ.fdepth inF env) :
    Grow σ (defineParams σ ps) (sDeclParams env ps) ∧
    Rel (defineParams σ ps).stack (defineParams σ ps).fdepth inF (bindParams env ps) := by
  induction ps generalizing σ env with
  | nil => exact ⟨(Pure.refl σ).grow r.ne, r⟩
  | cons p rest ih =>
    cases p with
    | name t =>
      obtain ⟨g1, r1⟩ := local_grow σ t t.text .param r
      obtain ⟨g2, r2⟩ := ih _ _ r1
      exact ⟨by simpa [defineParams, St.local_, sDeclParams] using g1.trans g2,
        by simpa [defineParams, St.local_, bindParams] using r2⟩
    | dots t =>
      obtain ⟨g, hd0, tl, e1, e2⟩ := define_grow σ { name := "...", info := some (t.idx, false) } r.ne (by simp) (by simp)
      have r1 : Rel (σ.define { name := "...", info := some (t.idx, false) }).stack
          (σ.define { name := "...", info := some (t.idx, false) }).fdepth inF (bindTok env t "..." .varargParam) := by
        refine ⟨by rw [e2]; simp, by rw [g.fd]; exact r.fd, ?_⟩
        intro n
        rw [e2, stackFind_define, look_bind]
        by_cases h : "..." = n
        · simp [h, lb]
        · simp only [h, if_false]; rw [← e1]; exact r.env n
      obtain ⟨g2, r2⟩ := ih _ _ r1
      exact ⟨by simpa [defineParams, sDeclParams] using g.trans g2, by simpa [defineParams, bindParams] using r2⟩

theorem body_case (sp : Span) (params : List Param) (b : Block)
    (hb : BlockOK (fun σ => block σ b) (fun inF env => sBlock inF env b)) :
    DescOK (fun σ => body_ σ (.mk sp params b)) (fun _ env => sBody env none (.mk sp params b)) := by
  intro σ inF env r
  let σ₀ : St := { σ.open with fdepth := σ.fdepth + 1 }
  have hs0 : σ₀.stack = [] :: σ.stack := rfl
  have r0 : Rel σ₀.stack σ₀.fdepth true env :=
    ⟨by simp [hs0], by simp [σ₀], fun n => by rw [hs0, stackFind_open]; exact r.env n⟩
  obtain ⟨g1, r1⟩ := barrier_grow σ₀ r0
  obtain ⟨g2, r2⟩ := defineParams_grow params _ true _ r1
  obtain ⟨g3, r3⟩ := hb _ true _ r2
  have hc := Grow.closedK (σ := σ) (σ₁ := σ₀) 1 hs0 rfl (by simp [σ₀, St.open, St.log] : σ₀.log = σ.log ++ [])
    ((g1.trans g2).trans g3)
  obtain ⟨c1, c2, c3⟩ := hc
  have hsafe : Step σ σ₀ := (Safe.open_step σ).trans (Safe.fdepth_step _ _)
  have hcl := closed_step hsafe ((g1.trans g2).trans g3).safe c1
  refine ⟨c1, ?_, ?_, hcl.trans (Safe.fdepth_step _ _)⟩
  · show (block (defineParams (σ₀.define { name := "...", info := none }) params) b).close.fdepth - 1 = σ.fdepth
    rw [c2]; simp
  · show (block (defineParams (σ₀.define { name := "...", info := none }) params) b).close.log = _
    rw [c3]; simp [sBody]



theorem Grow.cast {σ σ' : St} {o o' : List Ans} (h : Grow σ σ' o) (e : o = o') : Grow σ σ' o' := e ▸ h

theorem open_answers (σ : St) : σ.open.log = σ.log ++ [] := by simp [St.open, St.log]

/-- run something inside a fresh scope on top of `σ`, then close it -/
theorem inScope {σ σ₂ : St} {o : List Ans} (g : Grow σ.open σ₂ o) : Pure σ σ₂.close o := by
  have := Grow.closed (σ := σ) (σ₁ := σ.open) (hd := []) rfl rfl (open_answers σ) (Safe.open_step σ) g
  simpa using this

def ElifOK (l : ElseIfList) : Prop :=
  ∀ (σ : St) (inF : Bool) (env : Env), Rel σ.close.stack σ.close.fdepth inF env →
    Pure σ.close (elseifs σ l).close (sElifs inF env l)

abbrev EOK (e : Expr) : Prop := DescOK (fun σ => descE σ e) (fun inF env => dE inF env e)
abbrev EsOK (es : ExprList) : Prop := DescOK (fun σ => descEs σ es) (fun inF env => dEs inF env es)
abbrev BOK (b : Block) : Prop := BlockOK (fun σ => block σ b) (fun inF env => sBlock inF env b)
abbrev BodyOK (body : FuncBody) : Prop := DescOK (fun σ => body_ σ body) (fun _ env => sBody env none body)

theorem do_case (sp : Span) (b : Block) (hb : BOK b) :
    BlockOK (fun σ => stmt σ (.do_ sp b)) (fun inF env => sStmt inF env (.do_ sp b)) := by
  intro σ inF env r
  obtain ⟨g, _⟩ := hb σ.open inF env (open_rel σ r)
  exact (inScope g).block r rfl

theorem while_case (sp : Span) (c : Expr) (b : Block) (hc : EOK c) (hb : BOK b) :
    BlockOK (fun σ => stmt σ (.while_ sp c b)) (fun inF env => sStmt inF env (.while_ sp c b)) := by
  intro σ inF env r
  have h1 := eagerE_pure σ c r
  have r1 := open_rel _ (h1.rel r)
  have h2 := hc _ inF env r1
  obtain ⟨g3, _⟩ := hb _ inF env (h2.rel r1)
  exact (h1.trans (inScope (h2.thenGrow g3))).block r
    (by show _ = eE inF env c ++ dE inF env c ++ (sBlock inF env b).1; simp [List.append_assoc])

/-- the walk of an `until` condition -/
abbrev TOK (e : Expr) : Prop := DescOK (fun σ => topE σ e) (fun inF env => tE inF env e)

theorem repeat_case (sp : Span) (b : Block) (c : Expr) (hb : BOK b) (hc : TOK c) :
    BlockOK (fun σ => stmt σ (.repeat_ sp b c)) (fun inF env => sStmt inF env (.repeat_ sp b c)) := by
  intro σ inF env r
  obtain ⟨g, rb⟩ := hb σ.open inF env (open_rel σ r)
  have h2 := hc _ inF _ rb
  have h3 := restE_pure _ c (h2.rel rb)
  exact (inScope ((g.pure h2).pure h3)).block r rfl

theorem if_case (sp : Span) (c : Expr) (b : Block) (elifs : ElseIfList) (els : OptBlock)
    (hc : EOK c) (hb : BOK b) (hel : ElifOK elifs) (hels : ∀ eb, els = .some eb → BOK eb) :
    BlockOK (fun σ => stmt σ (.if_ sp c b elifs els)) (fun inF env => sStmt inF env (.if_ sp c b elifs els)) := by
  intro σ inF env r
  have h1 := eagerE_pure σ c r
  have r1 := h1.rel r
  have h2 := hc _ inF env (open_rel _ r1)
  obtain ⟨g3, _⟩ := hb _ inF env (h2.rel (open_rel _ r1))
  have h3 := inScope (h2.thenGrow g3)
  have r3 := h3.rel r1
  have h4 := hel _ inF env r3
  have r4 := h4.rel r3
  cases els with
  | none =>
    exact ((h1.trans h3).trans h4).block r
      (by show _ = eE inF env c ++ dE inF env c ++ (sBlock inF env b).1 ++ sElifs inF env elifs ++ []
          simp [List.append_assoc])
  | some eb =>
    obtain ⟨g5, _⟩ := hels eb rfl _ inF env (open_rel _ r4)
    exact (((h1.trans h3).trans h4).trans (inScope g5)).block r
      (by show _ = eE inF env c ++ dE inF env c ++ (sBlock inF env b).1 ++ sElifs inF env elifs ++ (sBlock inF env eb).1
          simp [List.append_assoc])

theorem elif_case (sp : Span) (c : Expr) (b : Block) (rest : ElseIfList)
    (hc : EOK c) (hb : BOK b) (hrest : ElifOK rest) : ElifOK (.cons (.mk sp c b) rest) := by
  intro σ inF env r
  have h1 := eagerE_pure σ.close c r
  have r1 := h1.rel r
  have h2 := hc _ inF env (open_rel _ r1)
  obtain ⟨g3, _⟩ := hb _ inF env (h2.rel (open_rel _ r1))
  have h3 := inScope (h2.thenGrow g3)
  have h4 := hrest _ inF env (h3.rel r1)
  have := (h1.trans h3).trans h4
  show Pure σ.close (elseifs (block (descE (eagerE σ.close c).open c) b) rest).close
    (eE inF env c ++ dE inF env c ++ (sBlock inF env b).1 ++ sElifs inF env rest)
  simpa [List.append_assoc] using this


abbrev OEOK (e : OptExpr) : Prop := ∀ x, e = .some x → EOK x

theorem numFor_case (sp : Span) (v comma : Tok) (start stop : Expr) (step : OptExpr) (b : Block)
    (h1 : EOK start) (h2 : EOK stop) (h3 : OEOK step) (hb : BOK b) :
    BlockOK (fun σ => stmt σ (.numFor sp v comma start stop step b))
      (fun inF env => sStmt inF env (.numFor sp v comma start stop step b)) := by
  intro σ inF env r
  have e1 := eagerE_pure σ start r
  have e2 := eagerE_pure _ stop (e1.rel r)
  cases step with
  | none =>
    have ro := open_rel _ ((e1.trans e2).rel r)
    have d1 := h1 _ inF _ ro
    have d2 := h2 _ inF _ (d1.rel ro)
    obtain ⟨gl, rl⟩ := local_grow _ v v.text .loopVar ((d1.trans d2).rel ro)
    obtain ⟨gb, _⟩ := hb _ inF _ (open_rel _ rl)
    have inner := inScope gb
    have outer := inScope (((d1.trans d2).thenGrow gl).pure inner)
    exact ((e1.trans e2).trans outer).block r
      (by show _ = eE inF env start ++ eE inF env stop ++ [] ++
              dE inF env start ++ dE inF env stop ++ [] ++
              sDecl env v v.text ++ (sBlock inF (bindTok env v v.text .loopVar) b).1
          simp [List.append_assoc])
  | some st =>
    have e3 := eagerE_pure _ st ((e1.trans e2).rel r)
    have ro := open_rel _ (((e1.trans e2).trans e3).rel r)
    have d1 := h1 _ inF _ ro
    have d2 := h2 _ inF _ (d1.rel ro)
    have d3 := h3 st rfl _ inF _ ((d1.trans d2).rel ro)
    obtain ⟨gl, rl⟩ := local_grow _ v v.text .loopVar (((d1.trans d2).trans d3).rel ro)
    obtain ⟨gb, _⟩ := hb _ inF _ (open_rel _ rl)
    have inner := inScope gb
    have outer := inScope ((((d1.trans d2).trans d3).thenGrow gl).pure inner)
    exact (((e1.trans e2).trans e3).trans outer).block r
      (by show _ = eE inF env start ++ eE inF env stop ++ eE inF env st ++
              dE inF env start ++ dE inF env stop ++ dE inF env st ++
              sDecl env v v.text ++ (sBlock inF (bindTok env v v.text .loopVar) b).1
          simp [List.append_assoc])

theorem genFor_case (sp : Span) (names : List Tok) (es : ExprList) (b : Block) (hes : EsOK es) (hb : BOK b) :
    BlockOK (fun σ => stmt σ (.genFor sp names es b)) (fun inF env => sStmt inF env (.genFor sp names es b)) := by
  intro σ inF env r
  have e1 := eagerEs_pure σ es r
  have ro := open_rel _ (e1.rel r)
  have d1 := hes _ inF _ ro
  obtain ⟨gl, rl⟩ := defineAll_grow .loopVar names _ inF env (d1.rel ro)
  obtain ⟨gb, _⟩ := hb _ inF _ rl
  have inner := inScope ((d1.thenGrow gl).trans gb)
  exact (e1.trans inner).block r
    (by show _ = eEs inF env es ++ dEs inF env es ++ sDeclAll env .loopVar names ++ (sBlock inF (bindAll env .loopVar names) b).1
        simp [List.append_assoc])

theorem localAssign_case (sp : Span) (names : List Tok) (es : ExprList) (hes : EsOK es) :
    BlockOK (fun σ => stmt σ (.localAssign sp names es)) (fun inF env => sStmt inF env (.localAssign sp names es)) := by
  intro σ inF env r
  have e1 := eagerEs_pure σ es r
  have d1 := hes _ inF env (e1.rel r)
  obtain ⟨gl, rl⟩ := defineAll_grow .local_ names _ inF env ((e1.trans d1).rel r)
  refine ⟨?_, rl⟩
  have := (e1.trans d1).thenGrow gl
  show Grow σ (defineAll (descEs (eagerEs σ es) es) names) (eEs inF env es ++ dEs inF env es ++ sDeclAll env .local_ names)
  simpa using this

theorem localFunc_case (sp : Span) (name : Tok) (body : FuncBody) (hbody : BodyOK body) :
    BlockOK (fun σ => stmt σ (.localFunc sp name body)) (fun inF env => sStmt inF env (.localFunc sp name body)) := by
  intro σ inF env r
  obtain ⟨gl, rl⟩ := local_grow σ name name.text .localFunc r
  have hb := hbody _ inF _ (open_rel _ rl)
  have inner := inScope (hb.grow (by simp [St.open]))
  refine ⟨?_, inner.rel rl⟩
  have := gl.pure inner
  exact this

theorem sBody_self (env : Env) (m : Tok) (body : FuncBody) :
    sBody env (some m) body = sDecl env m "self" ++ sBody (bindTok env m "self" .self_) none body := by
  cases body; simp [sBody]

theorem func_case (sp : Span) (name : FuncName) (body : FuncBody) (hbody : BodyOK body) :
    BlockOK (fun σ => stmt σ (.func sp name body)) (fun inF env => sStmt inF env (.func sp name body)) := by
  intro σ inF env r
  obtain ⟨nsp, names, method⟩ := name
  cases names with
  | nil => exact (Pure.refl σ).block r rfl
  | cons base more =>
    -- the name itself
    have hname : ∃ σ₁, σ₁ = (if (!more.isEmpty || method.isSome) = true then σ.read base true true else (σ.read base false).hoist base) ∧
        Grow σ σ₁ (if (!more.isEmpty || method.isSome) = true then sRead inF env base true else sAssign env base) ∧
        Rel σ₁.stack σ₁.fdepth inF env := by
      refine ⟨_, rfl, ?_⟩
      by_cases hl : (!more.isEmpty || method.isSome) = true
      · simp only [hl, if_true]
        exact (read_pure σ base r true).block r rfl
      · simp only [hl]
        exact readHoist_grow σ base r
    obtain ⟨σ₁, hσ₁, g1, r1⟩ := hname
    subst hσ₁
    cases method with
    | none =>
      have hb := hbody _ inF env r1
      exact ⟨g1.pure hb, hb.rel r1⟩
    | some m =>
      obtain ⟨gs, rs⟩ := local_grow _ m "self" .self_ (open_rel _ r1)
      have hb := hbody _ inF _ rs
      have inner := inScope (gs.pure hb)
      refine ⟨?_, inner.rel r1⟩
      have := g1.pure inner
      exact this.cast (by
        show _ = (if (!more.isEmpty || (some m).isSome) = true then sRead inF env base true else sAssign env base) ++ sBody env (some m) body
        rw [sBody_self])


theorem assignTargets_grow (vars : VarList) (es : ExprList) (σ : St) (inF : Bool) (env : Env)
    (r : Rel σ.stack σ.fdepth inF env) :
    Grow σ (assignTargets σ vars es) (sTargets inF env vars es) ∧
    Rel (assignTargets σ vars es).stack (assignTargets σ vars es).fdepth inF env := by
  cases vars with
  | nil => exact (eagerEs_pure σ es r).block r rfl
  | cons v rest =>
    cases es with
    | nil =>
      cases v with
      | name n =>
        obtain ⟨g, rg⟩ := hoist_grow σ n r
        obtain ⟨g2, r2⟩ := assignTargets_grow rest .nil _ inF env rg
        exact ⟨(g.trans g2).cast (by show _ = [] ++ sAssign env n ++ sTargets inF env rest .nil; simp), r2⟩
      | expr vsp p ss =>
        have h := eagerVT_pure σ (.expr vsp p ss) r
        obtain ⟨g2, r2⟩ := assignTargets_grow rest .nil _ inF env (h.rel r)
        exact ⟨(h.thenGrow g2).cast (by show _ = [] ++ eVT inF env (.expr vsp p ss) ++ sTargets inF env rest .nil; simp), r2⟩
    | cons e es' =>
      have he := eagerE_pure σ e r
      cases v with
      | name n =>
        obtain ⟨g, rg⟩ := hoist_grow _ n (he.rel r)
        obtain ⟨g2, r2⟩ := assignTargets_grow rest es' _ inF env rg
        exact ⟨((he.thenGrow g).trans g2).cast (by show _ = eE inF env e ++ sAssign env n ++ sTargets inF env rest es'; simp), r2⟩
      | expr vsp p ss =>
        have h := eagerVT_pure _ (.expr vsp p ss) (he.rel r)
        obtain ⟨g2, r2⟩ := assignTargets_grow rest es' _ inF env ((he.trans h).rel r)
        exact ⟨((he.trans h).thenGrow g2).cast (by show _ = eE inF env e ++ eVT inF env (.expr vsp p ss) ++ sTargets inF env rest es'; simp), r2⟩

abbrev VsOK (vs : VarList) : Prop := DescOK (fun σ => descVs σ vs) (fun inF env => dVs inF env vs)

theorem assign_case (sp : Span) (vars : VarList) (es : ExprList) (hvs : VsOK vars) (hes : EsOK es) :
    BlockOK (fun σ => stmt σ (.assign sp vars es)) (fun inF env => sStmt inF env (.assign sp vars es)) := by
  intro σ inF env r
  obtain ⟨g, rg⟩ := assignTargets_grow vars es σ inF env r
  have d1 := hvs _ inF env rg
  have d2 := hes _ inF env (d1.rel rg)
  exact ⟨(g.pure d1).pure d2, d2.rel (d1.rel rg)⟩

theorem call_case (sp : Span) (p : Prefix) (ss : SuffixList)
    (hp : DescOK (fun σ => descP σ p) (fun inF env => dP inF env p))
    (hss : DescOK (fun σ => stmtSs σ ss) (fun inF env => sSs inF env ss)) :
    BlockOK (fun σ => stmt σ (.call (.mk sp p ss))) (fun inF env => sStmt inF env (.call (.mk sp p ss))) := by
  intro σ inF env r
  have h1 := eagerP_pure σ p r
  have h2 := hp _ inF env (h1.rel r)
  have h3 := hss _ inF env ((h1.trans h2).rel r)
  exact ((h1.trans h2).trans h3).block r rfl

theorem block_case (sp : Option Span) (stmts : StmtList) (last : LastStmt)
    (hs : BlockOK (fun σ => stmts_ σ stmts) (fun inF env => sStmts inF env stmts))
    (hl : ∀ rsp es, last = .ret rsp es → EsOK es) : BOK (.mk sp stmts last) := by
  intro σ inF env r
  obtain ⟨g, rg⟩ := hs σ inF env r
  cases last with
  | none => exact ⟨g, rg⟩
  | brk t => exact ⟨g, rg⟩
  | ret rsp es =>
    have e1 := eagerEs_pure _ es rg
    have d1 := hl rsp es rfl _ inF _ (e1.rel rg)
    exact ⟨(g.pure e1).pure d1, d1.rel (e1.rel rg)⟩

theorem stmts_cons_case (s : Stmt) (rest : StmtList)
    (hs : BlockOK (fun σ => stmt σ s) (fun inF env => sStmt inF env s))
    (hr : BlockOK (fun σ => stmts_ σ rest) (fun inF env => sStmts inF env rest)) :
    BlockOK (fun σ => stmts_ σ (.cons s rest)) (fun inF env => sStmts inF env (.cons s rest)) := by
  intro σ inF env r
  obtain ⟨g, rg⟩ := hs σ inF env r
  obtain ⟨g2, r2⟩ := hr _ inF _ rg
  exact ⟨g.trans g2, r2⟩


/-! ### the induction over the syntax tree -/
mutual
theorem descE_ok (e : Expr) : EOK e := by
  cases e with
  | paren _ e => exact fun σ inF env r => descE_ok e σ inF env r
  | un _ _ e => exact fun σ inF env r => descE_ok e σ inF env r
  | bin _ l _ rr =>
    intro σ inF env r
    have h1 := descE_ok l σ inF env r
    have h2 := descE_ok rr _ inF env (h1.rel r)
    exact h1.trans h2
  | func _ _ body => exact fun σ inF env r => body_ok body σ inF env r
  | call c => exact fun σ inF env r => descC_ok c σ inF env r
  | tbl _ fs => exact fun σ inF env r => descFields_ok fs σ inF env r
  | var v => exact fun σ inF env r => descV_ok v σ inF env r
  | nil _ => exact fun σ _ _ _ => Pure.refl σ
  | true_ _ => exact fun σ _ _ _ => Pure.refl σ
  | false_ _ => exact fun σ _ _ _ => Pure.refl σ
  | dots _ => exact fun σ _ _ _ => Pure.refl σ
  | num _ => exact fun σ _ _ _ => Pure.refl σ
  | str _ _ _ => exact fun σ _ _ _ => Pure.refl σ
  | unsupported _ => exact fun σ _ _ _ => Pure.refl σ
theorem descEs_ok (es : ExprList) : EsOK es := by
  cases es with
  | nil => exact fun σ _ _ _ => Pure.refl σ
  | cons e rest =>
    intro σ inF env r
    have h1 := descE_ok e σ inF env r
    have h2 := descEs_ok rest _ inF env (h1.rel r)
    exact h1.trans h2
theorem descC_ok (c : FCall) : DescOK (fun σ => descC σ c) (fun inF env => dC inF env c) := by
  cases c with
  | mk _ p ss =>
    intro σ inF env r
    have h1 := descP_ok p σ inF env r
    have h2 := descSs_ok ss _ inF env (h1.rel r)
    exact h1.trans h2
theorem descP_ok (p : Prefix) : DescOK (fun σ => descP σ p) (fun inF env => dP inF env p) := by
  cases p with
  | name _ => exact fun σ _ _ _ => Pure.refl σ
  | expr e => exact fun σ inF env r => descE_ok e σ inF env r
theorem descSs_ok (ss : SuffixList) : DescOK (fun σ => descSs σ ss) (fun inF env => dSs inF env ss) := by
  cases ss with
  | nil => exact fun σ _ _ _ => Pure.refl σ
  | cons s rest =>
    intro σ inF env r
    have h1 := descS_ok s σ inF env r
    have h2 := descSs_ok rest _ inF env (h1.rel r)
    exact h1.trans h2
theorem descS_ok (s : Suffix) : DescOK (fun σ => descS σ s) (fun inF env => dS inF env s) := by
  cases s with
  | dot _ _ => exact fun σ _ _ _ => Pure.refl σ
  | idx _ e => exact fun σ inF env r => descE_ok e σ inF env r
  | args _ a => exact fun σ inF env r => descA_ok a σ inF env r
  | meth _ _ a => exact fun σ inF env r => descA_ok a σ inF env r
  | unsupported _ => exact fun σ _ _ _ => Pure.refl σ
theorem descA_ok (a : Args) : DescOK (fun σ => descA σ a) (fun inF env => dA inF env a) := by
  cases a with
  | parens _ es => exact fun σ inF env r => descEs_ok es σ inF env r
  | tbl _ fs => exact fun σ inF env r => descFields_ok fs σ inF env r
  | str _ _ _ => exact fun σ _ _ _ => Pure.refl σ
theorem descFields_ok (fs : FieldList) : DescOK (fun σ => descFields σ fs) (fun inF env => dFs inF env fs) := by
  cases fs with
  | nil => exact fun σ _ _ _ => Pure.refl σ
  | cons f rest =>
    cases f with
    | exprKey _ k v =>
      intro σ inF env r
      have h1 := descE_ok k σ inF env r
      have h2 := descE_ok v _ inF env (h1.rel r)
      have h3 := descFields_ok rest _ inF env ((h1.trans h2).rel r)
      exact (h1.trans h2).trans h3
    | nameKey _ _ v =>
      intro σ inF env r
      have h1 := descE_ok v σ inF env r
      have h3 := descFields_ok rest _ inF env (h1.rel r)
      exact h1.trans h3
    | noKey v =>
      intro σ inF env r
      have h1 := descE_ok v σ inF env r
      have h3 := descFields_ok rest _ inF env (h1.rel r)
      exact h1.trans h3
    | unsupported _ =>
      intro σ inF env r
      have h3 := descFields_ok rest σ inF env r
      exact (Pure.refl σ).trans h3
theorem descV_ok (v : Var) : DescOK (fun σ => descV σ v) (fun inF env => dV inF env v) := by
  cases v with
  | name _ => exact fun σ _ _ _ => Pure.refl σ
  | expr _ p ss =>
    intro σ inF env r
    have h1 := descP_ok p σ inF env r
    have h2 := descSs_ok ss _ inF env (h1.rel r)
    exact h1.trans h2
theorem descVs_ok (vs : VarList) : VsOK vs := by
  cases vs with
  | nil => exact fun σ _ _ _ => Pure.refl σ
  | cons v rest =>
    intro σ inF env r
    have h1 := descV_ok v σ inF env r
    have h2 := descVs_ok rest _ inF env (h1.rel r)
    exact h1.trans h2
theorem stmtSs_ok (ss : SuffixList) : DescOK (fun σ => stmtSs σ ss) (fun inF env => sSs inF env ss) := by
  cases ss with
  | nil => exact fun σ _ _ _ => Pure.refl σ
  | cons s rest =>
    intro σ inF env r
    have h1 := eagerS_pure σ s r
    have h2 := descS_ok s _ inF env (h1.rel r)
    have h3 := stmtSs_ok rest _ inF env ((h1.trans h2).rel r)
    exact (h1.trans h2).trans h3
theorem topE_ok (e : Expr) : TOK e := by
  cases e with
  | paren _ e => intro σ inF env r; simpa [topE, tE] using topE_ok e σ inF env r
  | un _ _ e => intro σ inF env r; simpa [topE, tE] using topE_ok e σ inF env r
  | bin _ l _ rr =>
    intro σ inF env r
    have h1 := topE_ok l σ inF env r
    have h2 := topE_ok rr _ inF env (h1.rel r)
    simpa [topE, tE] using h1.trans h2
  | func _ _ body => intro σ inF env r; simpa [topE, tE] using body_ok body σ inF env r
  | call c =>
    cases c with
    | mk _ p ss =>
      intro σ inF env r
      have h1 := eagerP_pure σ p r
      have h2 := descP_ok p _ inF env (h1.rel r)
      have h3 := stmtSs_ok ss _ inF env ((h1.trans h2).rel r)
      simpa [topE, tE, List.append_assoc] using (h1.trans h2).trans h3
  | tbl _ fs => intro σ inF env r; simpa [topE, tE] using topFields_ok fs σ inF env r
  | var v =>
    cases v with
    | name _ => intro σ inF env r; simpa [topE, tE] using Pure.refl σ
    | expr _ p ss =>
      intro σ inF env r
      have h1 := topP_ok p σ inF env r
      have h2 := stmtSs_ok ss _ inF env (h1.rel r)
      simpa [topE, tE] using h1.trans h2
  | nil _ => intro σ inF env r; simpa [topE, tE] using Pure.refl σ
  | true_ _ => intro σ inF env r; simpa [topE, tE] using Pure.refl σ
  | false_ _ => intro σ inF env r; simpa [topE, tE] using Pure.refl σ
  | dots _ => intro σ inF env r; simpa [topE, tE] using Pure.refl σ
  | num _ => intro σ inF env r; simpa [topE, tE] using Pure.refl σ
  | str _ _ _ => intro σ inF env r; simpa [topE, tE] using Pure.refl σ
  | unsupported _ => intro σ inF env r; simpa [topE, tE] using Pure.refl σ
theorem topP_ok (p : Prefix) : DescOK (fun σ => topP σ p) (fun inF env => tP inF env p) := by
  cases p with
  | name _ => intro σ inF env r; simpa [topP, tP] using Pure.refl σ
  | expr e => intro σ inF env r; simpa [topP, tP] using topE_ok e σ inF env r
theorem topF_ok (f : Field) : DescOK (fun σ => topF σ f) (fun inF env => tF inF env f) := by
  cases f with
  | exprKey _ k v =>
    intro σ inF env r
    have h1 := topE_ok k σ inF env r
    have h2 := topE_ok v _ inF env (h1.rel r)
    simpa [topF, tF] using h1.trans h2
  | nameKey _ _ v => intro σ inF env r; simpa [topF, tF] using topE_ok v σ inF env r
  | noKey v => intro σ inF env r; simpa [topF, tF] using topE_ok v σ inF env r
  | unsupported _ => intro σ inF env r; simpa [topF, tF] using Pure.refl σ
theorem topFields_ok (fs : FieldList) : DescOK (fun σ => topFields σ fs) (fun inF env => tFs inF env fs) := by
  cases fs with
  | nil => intro σ inF env r; simpa [topFields, tFs] using Pure.refl σ
  | cons f rest =>
    intro σ inF env r
    have h1 := topF_ok f σ inF env r
    have h2 := topFields_ok rest _ inF env (h1.rel r)
    simpa [topFields, tFs] using h1.trans h2
theorem body_ok (body : FuncBody) : BodyOK body := by
  cases body with
  | mk sp params b => exact body_case sp params b (block_ok b)
theorem block_ok (b : Block) : BOK b := by
  cases b with
  | mk sp stmts last =>
    refine block_case sp stmts last (stmts_ok stmts) ?_
    intro rsp es h
    cases last with
    | ret rsp' es' =>
      injection h with h1 h2
      subst h2
      exact descEs_ok es'
    | none => cases h
    | brk _ => cases h
theorem stmts_ok (l : StmtList) : BlockOK (fun σ => stmts_ σ l) (fun inF env => sStmts inF env l) := by
  cases l with
  | nil => exact fun σ inF env r => ⟨(Pure.refl σ).grow r.ne, r⟩
  | cons s rest => exact stmts_cons_case s rest (stmt_ok s) (stmts_ok rest)
theorem elseifs_ok (l : ElseIfList) : ElifOK l := by
  cases l with
  | nil => exact fun σ _ _ _ => Pure.refl σ.close
  | cons e rest =>
    cases e with
    | mk sp c b => exact elif_case sp c b rest (descE_ok c) (block_ok b) (elseifs_ok rest)
theorem stmt_ok (s : Stmt) : BlockOK (fun σ => stmt σ s) (fun inF env => sStmt inF env s) := by
  cases s with
  | assign sp vars es => exact assign_case sp vars es (descVs_ok vars) (descEs_ok es)
  | localAssign sp names es => exact localAssign_case sp names es (descEs_ok es)
  | call c =>
    cases c with
    | mk sp p ss => exact call_case sp p ss (descP_ok p) (stmtSs_ok ss)
  | do_ sp b => exact do_case sp b (block_ok b)
  | while_ sp c b => exact while_case sp c b (descE_ok c) (block_ok b)
  | repeat_ sp b c => exact repeat_case sp b c (block_ok b) (topE_ok c)
  | if_ sp c b elifs els =>
    refine if_case sp c b elifs els (descE_ok c) (block_ok b) (elseifs_ok elifs) ?_
    intro eb h
    cases els with
    | some eb' => injection h with h1; subst h1; exact block_ok eb'
    | none => cases h
  | numFor sp v comma start stop step b =>
    refine numFor_case sp v comma start stop step b (descE_ok start) (descE_ok stop) ?_ (block_ok b)
    intro x h
    cases step with
    | some x' => injection h with h1; subst h1; exact descE_ok x'
    | none => cases h
  | genFor sp names es b => exact genFor_case sp names es b (descEs_ok es) (block_ok b)
  | func sp name body => exact func_case sp name body (body_ok body)
  | localFunc sp name body => exact localFunc_case sp name body (body_ok body)
  | unsupported _ => exact fun σ inF env r => ⟨(Pure.refl σ).grow r.ne, r⟩
end

/-- **The scope-stack machine computes the ordered specification**, for every chunk. -/
theorem analyse_eq (b : Block) : (analyse b).log = chunk b := by
  have r : Rel ({} : St).stack ({} : St).fdepth false [] :=
    ⟨by simp, by simp, fun n => by simp [stackFind, scopeFind, look, Env.lookup, lb]⟩
  obtain ⟨g, _⟩ := block_ok b {} false [] r
  have := g.ans
  simpa [analyse, chunk, St.log] using this

/-- the reads among the answers -/
theorem log_answers (σ : St) : σ.log.filterMap Ans.readOf = σ.answers := by
  simp only [St.log, St.answers]
  induction σ.refs with
  | nil => rfl
  | cons r rest ih =>
    simp only [List.filter_cons]
    cases hc : r.counted <;> cases hk : r.kept <;> cases hd : r.decl <;> cases hw : r.write <;> cases hr : r.root <;>
      simp [List.filterMap_cons, ih, Ref.ans, Ans.readOf, hd, hw, hr]

/-- the declarations among the answers -/
theorem log_shadows (σ : St) : σ.log.filterMap Ans.declOf = σ.shadows := by
  simp only [St.log, St.shadows]
  induction σ.refs with
  | nil => rfl
  | cons r rest ih =>
    simp only [List.filter_cons]
    cases hc : r.counted <;> cases hk : r.kept <;> cases hd : r.decl <;> cases hw : r.write <;> cases hr : r.root <;>
      simp [List.filterMap_cons, ih, Ref.ans, Ans.declOf, hd, hw, hr]

/-- the global assignments among the answers -/
theorem log_globalAssigns (σ : St) : σ.log.filterMap Ans.assignOf = σ.globalAssigns := by
  simp only [St.log, St.globalAssigns]
  induction σ.refs with
  | nil => rfl
  | cons r rest ih =>
    simp only [List.filter_cons]
    cases hc : r.counted <;> cases hk : r.kept <;> cases hd : r.decl <;> cases hw : r.write <;> cases hr : r.root <;>
      simp [List.filterMap_cons, ih, Ref.ans, Ans.assignOf, hd, hw, hr]

/-- the value uses among the answers -/
theorem log_valueUses (σ : St) : σ.log.filterMap Ans.valueOf = σ.valueUses := by
  simp only [St.log, St.valueUses]
  induction σ.refs with
  | nil => rfl
  | cons r rest ih =>
    simp only [List.filter_cons]
    cases hc : r.counted <;> cases hk : r.kept <;> cases hd : r.decl <;> cases hw : r.write <;> cases hr : r.root <;>
      simp [List.filterMap_cons, ih, Ref.ans, Ans.valueOf, hd, hw, hr]

theorem mem_answers (σ : St) (t : Nat) (d : Option Nat) :
    (t, d) ∈ σ.answers ↔ ∃ r ∈ σ.refs, r.counted = true ∧ r.kept = true ∧ r.decl = false ∧ r.write = false ∧
      r.tok = t ∧ localBinding r = d := by
  simp only [St.answers, List.mem_map, List.mem_filter, Prod.mk.injEq, Bool.and_eq_true, Bool.not_eq_true']
  constructor
  · rintro ⟨r, ⟨hr, ⟨⟨h1, h2⟩, h3⟩, h4⟩, h5, h6⟩; exact ⟨r, hr, h1, h2, h3, h4, h5, h6⟩
  · rintro ⟨r, hr, h1, h2, h3, h4, h5, h6⟩; exact ⟨r, ⟨hr, ⟨⟨h1, h2⟩, h3⟩, h4⟩, h5, h6⟩

theorem mem_globalAssigns (σ : St) (t : Nat) :
    t ∈ σ.globalAssigns ↔ ∃ r ∈ σ.refs, r.counted = true ∧ r.kept = true ∧ r.decl = false ∧ r.write = true ∧ r.tok = t := by
  simp only [St.globalAssigns, List.mem_map, List.mem_filter, Bool.and_eq_true, Bool.not_eq_true']
  constructor
  · rintro ⟨r, ⟨hr, ⟨⟨h1, h2⟩, h3⟩, h4⟩, h5⟩; exact ⟨r, hr, h1, h2, h3, h4, h5⟩
  · rintro ⟨r, hr, h1, h2, h3, h4, h5⟩; exact ⟨r, ⟨hr, ⟨⟨h1, h2⟩, h3⟩, h4⟩, h5⟩

end Selene.Scope.CoreProof
