/-
`ScopeManager::reference_at_byte` as the library lints use it: the first reference recorded at a token,
and whether it is resolved.  Declarations are logged by the machine of `Scope/Core.lean` but are no
references of the real tables, so they are skipped.
-/
import Selene.Scope.Core
namespace Selene.Scope.Core

/-- the first reference the machine recorded at token `t` -/
def St.refAt (σ : St) (t : Nat) : Option Ref := σ.refs.find? fun r => r.tok = t && !r.decl

/-- "`reference_at_byte(start)` is some reference and it is resolved": the gate of every library lint -/
def St.resolvedAt (σ : St) (t : Nat) : Bool :=
  match σ.refAt t with
  | some r => r.resolved.isSome
  | none => false

/-- every read agrees, on being resolved, with the first reference recorded at its token (an identifier
token is read once; `function f` reads `f` and then writes it, the read comes first).  Evaluated by the
driver on every program of the run. -/
def St.firstRefCoherent (σ : St) : Bool :=
  σ.refs.all fun r => r.decl || r.write || σ.resolvedAt r.tok == r.resolved.isSome

end Selene.Scope.Core
