/-
Every read the machine of `Scope/Core.lean` records is the *first* reference recorded at its token — provided
the identifier tokens of the tree are pairwise distinct (they are indices of tokens in source order).  Hence
`St.firstRefCoherent`, the hypothesis of `C07_std_inside` / `C07_std_outside`, holds for every such chunk.

The log is followed through the traversal only up to what matters here: the token of every entry and whether
it is a declaration, a write or a read (`tokLog`); hoisting rewrites earlier entries without touching either.
-/
import Selene.Scope.RefAt
namespace Selene.Scope.Core
open Selene.Lua

inductive K where
  | decl | write | read
deriving DecidableEq, Repr

def Ref.k (r : Ref) : K := if r.decl then .decl else if r.write then .write else .read

def St.tokLog (σ : St) : List (Nat × K) := σ.refs.map fun r => (r.tok, r.k)

/-- no read is preceded by a reference (declarations apart) at the same token -/
def NoEarlier (L : List (Nat × K)) : Prop :=
  ∀ pre t post, L = pre ++ (t, K.read) :: post → ∀ e ∈ pre, e.2 ≠ K.decl → e.1 ≠ t

/-- the tokens of the entries that are references -/
def refToks (L : List (Nat × K)) : List Nat := (L.filter fun e => e.2 != K.decl).map (·.1)

theorem NoEarlier.nil : NoEarlier [] := by
  intro pre t post h; simp at h

theorem mem_refToks {L : List (Nat × K)} {e : Nat × K} (h : e ∈ L) (hk : e.2 ≠ K.decl) : e.1 ∈ refToks L := by
  simp only [refToks, List.mem_map, List.mem_filter]
  exact ⟨e, ⟨h, by simpa using hk⟩, rfl⟩

theorem refToks_append (A B : List (Nat × K)) : refToks (A ++ B) = refToks A ++ refToks B := by
  simp [refToks, List.filter_append]

/-- two logs over disjoint sets of tokens compose -/
theorem NoEarlier.append {A B : List (Nat × K)} (hA : NoEarlier A) (hB : NoEarlier B)
    (hd : ∀ t, t ∈ refToks A → t ∈ refToks B → False) : NoEarlier (A ++ B) := by
  intro pre t post h e he hk heq
  rcases List.append_eq_append_iff.mp h with ⟨a', rfl, hB'⟩ | ⟨c', hpre, hA'⟩
  · -- the read lies in B: pre = A ++ a'
    rcases List.mem_append.mp he with he | he
    · exact hd t (heq ▸ mem_refToks he hk) (by
        have : (t, K.read) ∈ B := by rw [hB']; simp
        exact mem_refToks (e := (t, K.read)) this (by simp))
    · exact hB a' t post hB' e he hk heq
  · -- the read lies in A
    cases c' with
    | nil =>
      simp only [List.append_nil] at hpre
      simp only [List.nil_append] at hA'
      subst hpre
      exact hd t (heq ▸ mem_refToks he hk) (by
        have : (t, K.read) ∈ B := by rw [← hA']; simp
        exact mem_refToks (e := (t, K.read)) this (by simp))
    | cons c cs =>
      simp only [List.cons_append, List.cons.injEq] at hA'
      obtain ⟨rfl, hA''⟩ := hA'
      exact hA pre t cs hpre e he hk heq

end Selene.Scope.Core

namespace Selene.Scope.Core
open Selene.Lua

/-! ### extensions of the log -/

/-- `σ'` extends the log of `σ` by entries whose references sit at tokens of `T`, none of whose reads is
preceded, among the new entries, by a reference at the same token -/
def Ext (T : List Nat) (σ σ' : St) : Prop :=
  ∃ N, σ'.tokLog = σ.tokLog ++ N ∧ NoEarlier N ∧ ∀ t ∈ refToks N, t ∈ T

theorem Ext.refl (T : List Nat) (σ : St) : Ext T σ σ := ⟨[], by simp, NoEarlier.nil, by simp [refToks]⟩

theorem Ext.of_eq {T : List Nat} {σ σ' : St} (h : σ'.tokLog = σ.tokLog) : Ext T σ σ' :=
  ⟨[], by simp [h], NoEarlier.nil, by simp [refToks]⟩

theorem Ext.mono {T T' : List Nat} {σ σ' : St} (h : Ext T σ σ') (hs : ∀ t ∈ T, t ∈ T') : Ext T' σ σ' := by
  obtain ⟨N, h1, h2, h3⟩ := h
  exact ⟨N, h1, h2, fun t ht => hs t (h3 t ht)⟩

/-- the state after is replaced by one with the same log -/
theorem Ext.right {T : List Nat} {σ σ' σ'' : St} (h : Ext T σ σ') (he : σ''.tokLog = σ'.tokLog) : Ext T σ σ'' := by
  obtain ⟨N, h1, h2, h3⟩ := h
  exact ⟨N, by rw [he, h1], h2, h3⟩

/-- the state before is replaced by one with the same log -/
theorem Ext.left {T : List Nat} {σ σ₀ σ' : St} (h : Ext T σ σ') (he : σ₀.tokLog = σ.tokLog) : Ext T σ₀ σ' := by
  obtain ⟨N, h1, h2, h3⟩ := h
  exact ⟨N, by rw [he, h1], h2, h3⟩

theorem Ext.seq' {T₁ T₂ : List Nat} {σ σ' σ'' : St} (h₁ : Ext T₁ σ σ') (h₂ : Ext T₂ σ' σ'')
    (hd : ∀ t, t ∈ T₁ → t ∈ T₂ → False) : Ext (T₁ ++ T₂) σ σ'' := by
  obtain ⟨N₁, a1, a2, a3⟩ := h₁
  obtain ⟨N₂, b1, b2, b3⟩ := h₂
  refine ⟨N₁ ++ N₂, by rw [b1, a1, List.append_assoc], ?_, ?_⟩
  · apply NoEarlier.append a2 b2
    intro t h1 h2
    exact hd t (a3 t h1) (b3 t h2)
  · intro t ht
    rw [refToks_append] at ht
    rcases List.mem_append.mp ht with ht | ht
    · exact List.mem_append_left _ (a3 t ht)
    · exact List.mem_append_right _ (b3 t ht)

theorem Ext.seq {T₁ T₂ : List Nat} {σ σ' σ'' : St} (h₁ : Ext T₁ σ σ') (h₂ : Ext T₂ σ' σ'')
    (hn : (T₁ ++ T₂).Nodup) : Ext (T₁ ++ T₂) σ σ'' :=
  Ext.seq' h₁ h₂ fun t h1 h2 => (List.nodup_append.mp hn).2.2 t h1 t h2 rfl

/-- a step that adds no reference, before or after -/
theorem Ext.nil_then {T : List Nat} {σ σ' σ'' : St} (h₁ : Ext [] σ σ') (h₂ : Ext T σ' σ'') : Ext T σ σ'' := by
  simpa using Ext.seq' h₁ h₂ (fun t h _ => by simp at h)

theorem Ext.then_nil {T : List Nat} {σ σ' σ'' : St} (h₁ : Ext T σ σ') (h₂ : Ext [] σ' σ'') : Ext T σ σ'' := by
  simpa using Ext.seq' h₁ h₂ (fun t _ h => by simp at h)

theorem nodup_left {A B : List Nat} (h : (A ++ B).Nodup) : A.Nodup := (List.nodup_append.mp h).1
theorem nodup_right {A B : List Nat} (h : (A ++ B).Nodup) : B.Nodup := (List.nodup_append.mp h).2.1

/-! ### primitives -/

@[simp] theorem tokLog_define (σ : St) (e : Entry) : (σ.define e).tokLog = σ.tokLog := by
  unfold St.define; split <;> rfl
@[simp] theorem tokLog_open (σ : St) : σ.open.tokLog = σ.tokLog := rfl
@[simp] theorem tokLog_close (σ : St) : σ.close.tokLog = σ.tokLog := rfl
@[simp] theorem tokLog_fdepth (σ : St) (n : Nat) : ({ σ with fdepth := n } : St).tokLog = σ.tokLog := rfl

theorem rewrite_k (name : String) (v : Nat × Bool) (r : Ref) : (rewrite name v r).tok = r.tok ∧ (rewrite name v r).k = r.k := by
  unfold rewrite; split <;> simp [Ref.k]

theorem tokLog_map_rewrite (σ : St) (name : String) (v : Nat × Bool) :
    ({ σ with refs := σ.refs.map (rewrite name v) } : St).tokLog = σ.tokLog := by
  simp only [St.tokLog, List.map_map]
  apply List.map_congr_left
  intro r _
  simp [(rewrite_k name v r).1, (rewrite_k name v r).2]

theorem noEarlier_single (e : Nat × K) : NoEarlier [e] := by
  intro pre t post h x hx
  cases pre with
  | nil => simp at hx
  | cons a as => simp at h

theorem read_ext (σ : St) (t : Tok) (c r : Bool) : Ext [t.idx] σ (σ.read t c r) := by
  unfold St.read
  split
  · exact Ext.refl _ _
  · refine ⟨[(t.idx, K.read)], by simp [St.tokLog, Ref.k], noEarlier_single _, by simp [refToks]⟩

theorem logWrite_tokLog (σ : St) (t : Tok) : (σ.logWrite t).tokLog = σ.tokLog ++ [(t.idx, K.write)] := by
  simp [St.logWrite, St.tokLog, Ref.k]

theorem hoist_tokLog (σ : St) (t : Tok) : (σ.hoist t).tokLog = σ.tokLog ++ [(t.idx, K.write)] := by
  unfold St.hoist
  simp only
  split
  · exact logWrite_tokLog σ t
  · rw [tokLog_map_rewrite, tokLog_define, logWrite_tokLog]

theorem hoist_ext (σ : St) (t : Tok) : Ext [t.idx] σ (σ.hoist t) :=
  ⟨[(t.idx, K.write)], hoist_tokLog σ t, noEarlier_single _, by simp [refToks]⟩

/-- `function f`: the read of `f`, then the write of `f`, at one token -/
theorem read_hoist_ext (σ : St) (t : Tok) : Ext [t.idx] σ ((σ.read t false).hoist t) := by
  rw [Ext]
  unfold St.read
  split
  · exact ⟨[(t.idx, K.write)], hoist_tokLog σ t, noEarlier_single _, by simp [refToks]⟩
  · refine ⟨[(t.idx, K.read), (t.idx, K.write)], ?_, ?_, by simp [refToks]⟩
    · rw [hoist_tokLog]; simp [St.tokLog, Ref.k]
    · intro pre t' post h e he
      cases pre with
      | nil => simp at he
      | cons a as =>
        simp only [List.cons_append, List.cons.injEq] at h
        cases as with
        | nil => simp at h
        | cons b bs => simp at h

theorem logDecl_tokLog (σ : St) (t : Tok) (n : String) : (σ.logDecl t n).tokLog = σ.tokLog ++ [(t.idx, K.decl)] := by
  simp [St.logDecl, St.tokLog, Ref.k]

theorem noEarlier_decl (t : Nat) : NoEarlier [(t, K.decl)] := noEarlier_single _

theorem declare_ext (T : List Nat) (σ : St) (t : Tok) (n : String) : Ext T σ (σ.declare t n) := by
  refine ⟨[(t.idx, K.decl)], ?_, noEarlier_single _, by simp [refToks]⟩
  unfold St.declare
  rw [tokLog_define, logDecl_tokLog]

end Selene.Scope.Core
