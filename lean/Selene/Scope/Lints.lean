/-
Models of the three lints that read the scope tables:
`undefined_variable.rs:27-63`, `unused_variable.rs:54-215`, `shadowing.rs:38-84`.
The standard library enters only through two functions (both modelled in C06):
`hasFields : String → Bool` (`global_has_fields`) and `argObserves : path → index → Option Bool`
("the argument at this index of the library function at this path is `observes: write`").
-/
import Selene.Scope.Model
namespace Selene.Scope
open Selene.Lua

structure Diag where
  code : String
  primary : Span
  secondary : List Span := []
  detail : String := ""
deriving DecidableEq, Repr, Inhabited

/-- `undefined_variable` -/
def undefinedVariable (hasFields : String → Bool) (σ : St) : List Diag :=
  let step := fun (acc : List Nat × List Diag) (r : Ref) =>
    if r.resolved.isNone && r.read && !acc.1.contains r.ident
        && !(r.scopeId = 0 && r.name = "...") && !hasFields r.name then
      (r.ident :: acc.1, acc.2 ++ [{ code := "undefined_variable", primary := ⟨r.ident, r.ident⟩, detail := r.name }])
    else acc
  (σ.refs.toList.foldl step ([], [])).2

inductive Analyzed where
  | read
  | plainWrite
  | observedWrite (at_ : Nat)
deriving DecidableEq, Repr

def analyzeRef (σ : St) (argObserves : List String → Nat → Option Bool) (v : Variable) (r : Ref) : Analyzed :=
  let isStatic := v.staticTable.isSome
  let w1 : Option Analyzed :=
    if r.write.isSome then
      match r.indexing with
      | some ix =>
        if isStatic && ix.length = 1 && ix.any (fun e => e.staticName.isSome) then some (.observedWrite r.ident)
        else if !r.read then some .plainWrite else none
      | none => if !r.read then some .plainWrite else none
    else none
  match w1 with
  | some a => a
  | none =>
    if !isStatic then .read
    else match r.within with
      | none => .read
      | some (callId, argIdx) =>
        match σ.calls[callId]? with
        | none => .read
        | some call =>
          match σ.refs[call.initialRef]? with
          | none => .read
          | some ir =>
            if ir.resolved.isSome then .read
            else match argObserves call.namePath argIdx with
              | some true => .observedWrite r.ident
              | _ => .read

/-- `unused_variable` -/
def unusedVariable (hasFields : String → Bool) (argObserves : List String → Nat → Option Bool)
    (ignore : String → Bool) (allowUnusedSelf : Bool) (σ : St) : List Diag :=
  σ.vars.toList.filterMap fun v =>
    if ignore v.name then none
    else if v.hoisted && hasFields v.name then none
    else
      let analyzed := v.references.filterMap fun id => (σ.refs[id]?).map (analyzeRef σ argObserves v)
      if analyzed.any (· == .read) then none
      else if v.isSelf && allowUnusedSelf then none
      else some { code := "unused_variable", primary := ⟨v.ident, v.ident⟩,
                  secondary := analyzed.filterMap fun a => match a with | .observedWrite t => some ⟨t, t⟩ | _ => none,
                  detail := if analyzed.isEmpty then "defined" else "assigned" }

/-- `shadowing` -/
def shadowing (ignore : String → Bool) (σ : St) : List Diag :=
  σ.vars.toList.filterMap fun v =>
    match v.shadowed with
    | none => none
    | some s =>
      match σ.vars[s]? with
      | none => none
      | some sv =>
        if sv.hoisted then none             -- a global the file assigns is not a declaration
        else if ignore v.name || v.name = "..." then none
        else some { code := "shadowing", primary := ⟨v.ident, v.ident⟩, secondary := [⟨sv.ident, sv.ident⟩], detail := v.name }

/-- `must_use` (must_use.rs): one diagnostic per call *statement* whose name path is a `must_use`
library function — unless the called name is bound by the script -/
def mustUse (isMustUse : List String → Bool) (σ : St) : List Diag :=
  σ.calls.toList.filterMap fun c =>
    match σ.refs[c.initialRef]? with
    | none => none
    | some r =>
      if r.resolved.isSome then none
      else if isMustUse c.namePath then some { code := "must_use", primary := c.prefixSpan, detail := ".".intercalate c.namePath }
      else none

end Selene.Scope
