/-
`firstRefCoherent` for every chunk whose reference tokens are pairwise distinct.
-/
import Selene.Scope.TokTraverse
namespace Selene.Scope.Core
open Selene.Lua

/-- the reference tokens of a chunk, in the order the machine reaches them: every identifier in an expression
position, every plain-name assignment target, the base name of every `function name…` statement, every `...` -/
def refTokens (b : Block) : List Nat := dtBlock b

theorem analyse_ext (b : Block) (h : (refTokens b).Nodup) : NoEarlier (analyse b).tokLog := by
  obtain ⟨N, h1, h2, _⟩ := block_ext b {} h
  have : (analyse b).tokLog = N := by
    unfold analyse
    rw [h1]
    rfl
  rw [this]
  exact h2

theorem NoEarlier.tail {a : Nat × K} {L : List (Nat × K)} (h : NoEarlier (a :: L)) : NoEarlier L := by
  intro pre t post hL e he hk
  exact h (a :: pre) t post (by rw [hL]; rfl) e (List.mem_cons_of_mem _ he) hk

theorem Ref.k_read {r : Ref} (hd : r.decl = false) (hw : r.write = false) : r.k = K.read := by
  simp [Ref.k, hd, hw]

theorem Ref.k_ne_decl {r : Ref} (hd : r.decl = false) : r.k ≠ K.decl := by
  unfold Ref.k
  rw [hd]
  by_cases hw : r.write = true <;> simp [hw]

/-- the first reference at the token of a read is that read -/
theorem find_first_read : (refs : List Ref) → NoEarlier (refs.map fun r => (r.tok, r.k)) →
    (r : Ref) → r ∈ refs → r.decl = false → r.write = false →
    ∃ r0, refs.find? (fun r' => r'.tok = r.tok && !r'.decl) = some r0 ∧ r0.resolved = r.resolved
  | [], _, r, hr, _, _ => by simp at hr
  | x :: xs, hne, r, hr, hd, hw => by
    by_cases hp : (x.tok = r.tok && !x.decl) = true
    · refine ⟨x, by simp [List.find?, hp], ?_⟩
      rcases List.mem_cons.mp hr with rfl | hr'
      · rfl
      · exfalso
        obtain ⟨pre, post, rfl⟩ := List.append_of_mem hr'
        simp only [Bool.and_eq_true, decide_eq_true_eq, Bool.not_eq_true'] at hp
        have := hne ((x.tok, x.k) :: pre.map fun r => (r.tok, r.k)) r.tok (post.map fun r => (r.tok, r.k))
          (by simp [Ref.k_read hd hw]) (x.tok, x.k) (by simp) (Ref.k_ne_decl hp.2)
        exact this hp.1
    · have hx : r ≠ x := by
        intro h
        subst h
        simp [hd] at hp
      have hr' : r ∈ xs := by
        rcases List.mem_cons.mp hr with h | h
        · exact absurd h hx
        · exact h
      obtain ⟨r0, h0, h1⟩ := find_first_read xs (NoEarlier.tail hne) r hr' hd hw
      refine ⟨r0, ?_, h1⟩
      simp only [List.find?]
      simp only [Bool.not_eq_true] at hp
      rw [hp]
      exact h0

/-- **every chunk with pairwise distinct reference tokens is coherent**: each read agrees, on being resolved,
with the first reference recorded at its token -/
theorem analyse_firstRefCoherent (b : Block) (h : (refTokens b).Nodup) : (analyse b).firstRefCoherent = true := by
  unfold St.firstRefCoherent
  rw [List.all_eq_true]
  intro r hr
  by_cases hd : r.decl = true
  · simp [hd]
  · by_cases hw : r.write = true
    · simp [hw]
    · have hd' : r.decl = false := by simpa using hd
      have hw' : r.write = false := by simpa using hw
      obtain ⟨r0, h0, h1⟩ := find_first_read (analyse b).refs (analyse_ext b h) r hr hd' hw'
      simp only [hd', hw', Bool.false_or, beq_iff_eq]
      unfold St.resolvedAt St.refAt
      rw [h0]
      simp [h1]

end Selene.Scope.Core

namespace Selene.Scope.Core
open Selene.Lua

/-- two reads never share a token (among entries in log order: a read is not preceded by any reference at its token) -/
theorem reads_pairwise : (refs : List Ref) → NoEarlier (refs.map fun r => (r.tok, r.k)) →
    refs.Pairwise fun a b => a.decl = false → b.decl = false → b.write = false → a.tok ≠ b.tok
  | [], _ => List.Pairwise.nil
  | x :: xs, hne => by
    refine List.Pairwise.cons ?_ (reads_pairwise xs (NoEarlier.tail hne))
    intro y hy hxd hyd hyw
    obtain ⟨pre, post, rfl⟩ := List.append_of_mem hy
    exact hne ((x.tok, x.k) :: pre.map fun r => (r.tok, r.k)) y.tok (post.map fun r => (r.tok, r.k))
      (by simp [Ref.k_read hyd hyw]) (x.tok, x.k) (by simp) (Ref.k_ne_decl hxd)

/-- **`undefined_variable` over the machine's log reports no token twice** — for every chunk with pairwise
distinct reference tokens and every library predicate -/
theorem undefinedReports_nodup (hasFields : String → Bool) (b : Block) (h : (refTokens b).Nodup) :
    (undefinedReports hasFields (analyse b)).Nodup := by
  unfold undefinedReports
  have hp := reads_pairwise (analyse b).refs (analyse_ext b h)
  rw [List.Nodup, List.pairwise_map]
  refine (hp.filter _).imp_of_mem ?_
  intro a c ha hc hR
  simp only [List.mem_filter, Bool.and_eq_true, Bool.not_eq_true', Option.isNone_iff_eq_none] at ha hc
  exact hR ha.2.1.1.1 hc.2.1.1.1 hc.2.1.1.2

end Selene.Scope.Core
