/-
The *resolution core* of the ScopeVisitor: exactly the part of `Scope/Model.lean` that decides which
declaration an identifier read denotes — scope stack with the `...` barrier, the reference log,
hoisting with its rewrite of earlier unresolved reads, and the order of events (eager reads in the
hooks, closures entered during the descent) — with the bookkeeping that cannot influence a
resolution removed (arena ids, write kinds, indexing, call metadata, `captured_references`: a
token is read exactly once, by the first hook that reaches it, so the de-duplication is built into
the two traversals `eager*` / `desc*`).

It is an executable model in its own right: the driver compares its answers with the real
`ScopeManager` on every program (correspondence), and `Props/C01.lean` proves them equal to the Lua
resolver for every chunk.
-/
import Selene.Lua.Ast
namespace Selene.Scope.Core
open Selene.Lua

/-- a stack entry: a variable (declaration token, hoisted?) or the `...` barrier of a function scope -/
structure Entry where
  name : String
  info : Option (Nat × Bool)        -- `none` = barrier (only ever for "...")
deriving DecidableEq, Repr, Inhabited

abbrev Scope := List Entry          -- latest first
abbrev Stack := List Scope          -- innermost first

structure Ref where
  tok : Nat
  name : String
  resolved : Option (Nat × Bool)    -- the variable found: (declaration token, hoisted?)
  counted : Bool                    -- an identifier in an expression position (a read the specification speaks about)
  decl : Bool := false              -- not a read: the entry logged when `tok` *declares* `name`; `resolved` is then
                                    -- what the name denoted just before (`Variable.shadowed` of the real tables)
  write : Bool := false             -- not a read: `tok` is a plain-name assignment target / `function name`;
                                    -- `resolved` is what the name denoted when the write was recorded
  expr : Bool := true               -- a read in an expression position (false only for the read that
                                    -- `function f … end` makes of `f` just before writing it)
  root : Bool := false              -- a read, but of the table being indexed in an assignment target
                                    -- (`a` in `a.b = 1`, in `function a.b()`): the value of `a` is not "used"
deriving DecidableEq, Repr, Inhabited

structure St where
  stack : Stack := [[]]
  refs : List Ref := []
  fdepth : Nat := 0
deriving Repr, Inhabited

def scopeFind (s : Scope) (n : String) : Option Entry := s.find? (·.name = n)

/-- `find_variable`: innermost scope first; a barrier for the name ends the search -/
def stackFind : Stack → String → Option (Nat × Bool)
  | [], _ => none
  | s :: rest, n =>
    match scopeFind s n with
    | some e => e.info
    | none => stackFind rest n

def St.define (σ : St) (e : Entry) : St :=
  match σ.stack with
  | [] => { σ with stack := [[e]] }
  | s :: rest => { σ with stack := (e :: s) :: rest }

def St.open (σ : St) : St := { σ with stack := [] :: σ.stack }
def St.close (σ : St) : St := { σ with stack := σ.stack.tail }

/-- Which entries of the log are looked at: name filters, one per kind of entry, applied when the log is
    *read* (`St.log`, `answers`, `shadows`, `globalAssigns`) — the machine itself does not know them.
    Every theorem holds for every choice; the filters that keep everything give the raw tables.  `keep`: declarations (the `shadowing` lint's filter: not matched by the ignore pattern, not
    `...`); `read`: identifier reads (e.g. "is not a standard-library global"); `assign`: plain-name
    assignment targets that are not locally bound. -/
class NameFilter where
  keep : String → Bool
  read : String → Bool := fun _ => true
  assign : String → Bool := fun _ => true

/-- the filter that keeps everything: the raw tables -/
def NameFilter.all : NameFilter := { keep := fun _ => true }

/-- `read_name` (main-chunk `...` is not recorded) -/
def St.read (σ : St) (t : Tok) (counted : Bool := true) (root : Bool := false) : St :=
  if σ.fdepth = 0 ∧ t.text = "..." then σ
  else
    let r : Ref := { tok := t.idx, name := t.text, resolved := stackFind σ.stack t.text,
                     counted := counted, expr := counted, root := root }
    { σ with refs := σ.refs ++ [r] }

def rewrite (name : String) (v : Nat × Bool) (r : Ref) : Ref :=
  if r.name = name ∧ r.resolved = none ∧ r.decl = false ∧ r.write = false then { r with resolved := some v } else r

/-- the local declaration a lookup result denotes, hoisted globals (and the barrier) not counting -/
def localOf : Option (Nat × Bool) → Option Nat
  | some (d, false) => some d
  | _ => none

/-- `write_name`: the write is recorded with what the name denotes at that moment; it counts (for the
    specification) when that is no local declaration, i.e. when the statement assigns a global -/
def St.logWrite (σ : St) (t : Tok) : St :=
  let r : Ref := { tok := t.idx, name := t.text, resolved := stackFind σ.stack t.text,
                   counted := (localOf (stackFind σ.stack t.text)).isNone,
                   write := true, expr := false }
  { σ with refs := σ.refs ++ [r] }

/-- `write_name` + `try_hoist` for a plain-name target -/
def St.hoist (σ : St) (t : Tok) : St :=
  let σ := σ.logWrite t
  match stackFind σ.stack t.text with
  | some _ => σ
  | none =>
    let σ' := σ.define { name := t.text, info := some (t.idx, true) }
    { σ' with refs := σ'.refs.map (rewrite t.text (t.idx, true)) }

/-- `define_name_full_with_variable`: `shadowed := find_variable(name)` is taken first, then the variable
    enters the innermost scope -/
def St.logDecl (σ : St) (t : Tok) (name : String) : St :=
  let r : Ref := { tok := t.idx, name := name, resolved := stackFind σ.stack name, counted := true, decl := true }
  { σ with refs := σ.refs ++ [r] }

def St.declare (σ : St) (t : Tok) (name : String) : St :=
  (σ.logDecl t name).define { name := name, info := some (t.idx, false) }

def St.local_ (σ : St) (t : Tok) : St := σ.declare t t.text

def defineAll (σ : St) : List Tok → St
  | [] => σ
  | t :: rest => defineAll (σ.local_ t) rest

def defineParams (σ : St) : List Param → St
  | [] => σ
  | .name t :: rest => defineParams (σ.local_ t) rest
  -- `...` is defined like a variable but is of no interest as a declaration (the shadowing lint skips it)
  | .dots t :: rest => defineParams (σ.define { name := "...", info := some (t.idx, false) }) rest

/-! ### eager reads: every identifier of an expression that is not inside a function body -/
mutual
def eagerE (σ : St) : Expr → St
  | .paren _ e => eagerE σ e
  | .un _ _ e => eagerE σ e
  | .bin _ l _ r => eagerE (eagerE σ l) r
  | .func _ _ _ => σ
  | .call c => eagerC σ c
  | .tbl _ fs => eagerFields σ fs
  | .dots t => σ.read t
  | .var v => eagerV σ v
  | _ => σ
def eagerEs (σ : St) : ExprList → St
  | .nil => σ
  | .cons e rest => eagerEs (eagerE σ e) rest
def eagerC (σ : St) : FCall → St
  | .mk _ p ss => eagerSs (eagerP σ p) ss
def eagerP (σ : St) : Prefix → St
  | .name t => σ.read t
  | .expr e => eagerE σ e
def eagerSs (σ : St) : SuffixList → St
  | .nil => σ
  | .cons s rest => eagerSs (eagerS σ s) rest
def eagerS (σ : St) : Suffix → St
  | .dot _ _ => σ
  | .idx _ e => eagerE σ e
  | .args _ a => eagerA σ a
  | .meth _ _ a => eagerA σ a
  | .unsupported _ => σ
def eagerA (σ : St) : Args → St
  | .parens _ es => eagerEs σ es
  | .tbl _ fs => eagerFields σ fs
  | .str _ _ _ => σ
def eagerFields (σ : St) : FieldList → St
  | .nil => σ
  | .cons f rest =>
    let σ := match f with
      | .exprKey _ k v => eagerE (eagerE σ k) v
      | .nameKey _ _ v => eagerE σ v
      | .noKey v => eagerE σ v
      | .unsupported _ => σ
    eagerFields σ rest
def eagerV (σ : St) : Var → St
  | .name t => σ.read t
  | .expr _ p ss => eagerSs (eagerP σ p) ss
end

/-- an indexed assignment target `p.s… = …`: everything is read as usual, except that the name at the root
    is read as the table being indexed, not for its value -/
def eagerPT (σ : St) : Prefix → St
  | .name t => σ.read t true true
  | .expr e => eagerE σ e
def eagerVT (σ : St) : Var → St
  | .name t => σ.read t true true
  | .expr _ p ss => eagerSs (eagerPT σ p) ss

/-! ### what `read_expression` still has to read of an `until` condition after the visitor has walked it (`topE` below):
bare names, the prefix name of an indexed variable, `...` — everything inside a call, and every index, has been read -/
mutual
def restE (σ : St) : Expr → St
  | .paren _ e => restE σ e
  | .un _ _ e => restE σ e
  | .bin _ l _ r => restE (restE σ l) r
  | .func _ _ _ => σ
  | .call _ => σ
  | .tbl _ fs => restFields σ fs
  | .dots t => σ.read t
  | .var (.name t) => σ.read t
  | .var (.expr _ p _) => restP σ p
  | .nil _ => σ
  | .true_ _ => σ
  | .false_ _ => σ
  | .num _ => σ
  | .str _ _ _ => σ
  | .unsupported _ => σ
def restP (σ : St) : Prefix → St
  | .name t => σ.read t
  | .expr e => restE σ e
def restF (σ : St) : Field → St
  | .exprKey _ k v => restE (restE σ k) v
  | .nameKey _ _ v => restE σ v
  | .noKey v => restE σ v
  | .unsupported _ => σ
def restFields (σ : St) : FieldList → St
  | .nil => σ
  | .cons f rest => restFields (restF σ f) rest
end

/-! ### the descent: function bodies inside expressions, statements, blocks -/
mutual
def descE (σ : St) : Expr → St
  | .paren _ e => descE σ e
  | .un _ _ e => descE σ e
  | .bin _ l _ r => descE (descE σ l) r
  | .func _ _ body => body_ σ body
  | .call c => descC σ c
  | .tbl _ fs => descFields σ fs
  | .var v => descV σ v
  | _ => σ
def descEs (σ : St) : ExprList → St
  | .nil => σ
  | .cons e rest => descEs (descE σ e) rest
def descC (σ : St) : FCall → St
  | .mk _ p ss => descSs (descP σ p) ss
def descP (σ : St) : Prefix → St
  | .name _ => σ
  | .expr e => descE σ e
def descSs (σ : St) : SuffixList → St
  | .nil => σ
  | .cons s rest => descSs (descS σ s) rest
def descS (σ : St) : Suffix → St
  | .dot _ _ => σ
  | .idx _ e => descE σ e
  | .args _ a => descA σ a
  | .meth _ _ a => descA σ a
  | .unsupported _ => σ
def descA (σ : St) : Args → St
  | .parens _ es => descEs σ es
  | .tbl _ fs => descFields σ fs
  | .str _ _ _ => σ
def descFields (σ : St) : FieldList → St
  | .nil => σ
  | .cons f rest =>
    let σ := match f with
      | .exprKey _ k v => descE (descE σ k) v
      | .nameKey _ _ v => descE σ v
      | .noKey v => descE σ v
      | .unsupported _ => σ
    descFields σ rest
def descV (σ : St) : Var → St
  | .name _ => σ
  | .expr _ p ss => descSs (descP σ p) ss
def descVs (σ : St) : VarList → St
  | .nil => σ
  | .cons v rest => descVs (descV σ v) rest
/-- the condition of `repeat … until`: `visit_repeat_end` reads it only after the visitor has walked it, so the reads the
    visitor's own hooks make on the way come first, interleaved with the closures it enters — a call is read like a call
    statement (prefix, then every suffix in turn: `visit_call` / `visit_index` read the arguments / the index before their
    children are visited); an indexed variable's suffixes likewise, its prefix not yet; a bare name not yet -/
def topE (σ : St) : Expr → St
  | .paren _ e => topE σ e
  | .un _ _ e => topE σ e
  | .bin _ l _ r => topE (topE σ l) r
  | .func _ _ body => body_ σ body
  | .call (.mk _ p ss) => stmtSs (descP (eagerP σ p) p) ss
  | .tbl _ fs => topFields σ fs
  | .var (.name _) => σ
  | .var (.expr _ p ss) => stmtSs (topP σ p) ss
  | .nil _ => σ
  | .true_ _ => σ
  | .false_ _ => σ
  | .dots _ => σ
  | .num _ => σ
  | .str _ _ _ => σ
  | .unsupported _ => σ
def topP (σ : St) : Prefix → St
  | .name _ => σ
  | .expr e => topE σ e
def topF (σ : St) : Field → St
  | .exprKey _ k v => topE (topE σ k) v
  | .nameKey _ _ v => topE σ v
  | .noKey v => topE σ v
  | .unsupported _ => σ
def topFields (σ : St) : FieldList → St
  | .nil => σ
  | .cons f rest => topFields (topF σ f) rest
/-- a call in statement position: no hook reads the whole call first — the prefix is read, its closures
    are entered, then each suffix is read and entered in turn -/
def stmtSs (σ : St) : SuffixList → St
  | .nil => σ
  | .cons s rest => stmtSs (descS (eagerS σ s) s) rest
/-- function body: fresh scope with the `...` barrier and the parameters -/
def body_ (σ : St) : FuncBody → St
  | .mk _ params b =>
    let σ := { σ.open with fdepth := σ.fdepth + 1 }
    let σ := σ.define { name := "...", info := none }
    let σ := defineParams σ params
    let σ := (block σ b).close
    { σ with fdepth := σ.fdepth - 1 }
def block (σ : St) : Block → St
  | .mk _ stmts last =>
    let σ := stmts_ σ stmts
    match last with
    | .ret _ es => descEs (eagerEs σ es) es
    | _ => σ
def stmts_ (σ : St) : StmtList → St
  | .nil => σ
  | .cons s rest => stmts_ (stmt σ s) rest
/-- `visit_assignment`: per target — its paired expression, then the target -/
def assignTargets (σ : St) : VarList → ExprList → St
  | .nil, es => eagerEs σ es
  | .cons v rest, es =>
    let (σ, es') := match es with
      | .cons e es' => (eagerE σ e, es')
      | .nil => (σ, ExprList.nil)
    match v with
    | .name n => assignTargets (σ.hoist n) rest es'
    | .expr _ _ _ => assignTargets (eagerVT σ v) rest es'
def elseifs (σ : St) : ElseIfList → St
  | .nil => σ
  | .cons (.mk _ c b) rest =>
    let σ := σ.close
    let σ := eagerE σ c
    let σ := σ.open
    let σ := descE σ c
    let σ := block σ b
    elseifs σ rest
def stmt (σ : St) : Stmt → St
  | .assign _ vars es => descEs (descVs (assignTargets σ vars es) vars) es
  | .localAssign _ names es => defineAll (descEs (eagerEs σ es) es) names
  | .call (.mk _ p ss) => stmtSs (descP (eagerP σ p) p) ss
  | .do_ _ b => (block σ.open b).close
  | .while_ _ c b => (block (descE (eagerE σ c).open c) b).close
  | .repeat_ _ b c => (restE (topE (block σ.open b) c) c).close
  | .if_ _ c b elifs els =>
    let σ := (eagerE σ c).open
    let σ := descE σ c
    let σ := block σ b
    let σ := elseifs σ elifs
    match els with
    | .some eb => (block σ.close.open eb).close
    | .none => σ.close
  | .numFor _ v _ start stop step b =>
    let σ := eagerE (eagerE σ start) stop
    let σ := match step with | .some e => eagerE σ e | .none => σ
    -- the loop variable is defined when the body is entered, after the closures of the control expressions
    let σ := σ.open
    let σ := descE (descE σ start) stop
    let σ := match step with | .some e => descE σ e | .none => σ
    let σ := (σ.local_ v).open
    (block σ b).close.close
  | .genFor _ names es b =>
    let σ := eagerEs σ es
    let σ := descEs σ.open es
    let σ := defineAll σ names
    (block σ b).close
  | .func _ name body =>
    match name.names with
    | [] => σ
    | base :: more =>
      let longer := !more.isEmpty || name.method.isSome
      let σ := if longer then σ.read base true true else (σ.read base false).hoist base
      match name.method with
      | some m => (body_ (σ.open.declare m "self") body).close
      | none => body_ σ body
  | .localFunc _ name body => (body_ (σ.local_ name).open body).close
  | .unsupported _ => σ
end

def analyse (b : Block) : St := block {} b

/-- the declaration a recorded read denotes, hoisted globals not counting as declarations -/
def localBinding (r : Ref) : Option Nat :=
  match r.resolved with
  | some (d, false) => some d
  | _ => none

/-- `undefined_variable` over the machine's log (undefined_variable.rs:27-63): every read reference
that is unresolved and whose name is no standard-library global.  (`...` of the main chunk is never
recorded by the machine.) -/
def undefinedReports (hasFields : String → Bool) (σ : St) : List Nat :=
  (σ.refs.filter fun r => !r.decl && !r.write && r.resolved.isNone && !hasFields r.name).map (·.tok)

/-- what the machine answers: the declaration an identifier read denotes / the declaration a newly
    declared name denoted just before -/
inductive Ans where
  | read (tok : Nat) (binding : Option Nat)
  | decl (tok : Nat) (shadows : Option Nat)
  | gassign (tok : Nat)                       -- a plain-name assignment target that denotes no local: a global is assigned
  | root (tok : Nat) (binding : Option Nat)   -- a read of the table indexed in an assignment target
deriving DecidableEq, Repr, Inhabited

def Ref.ans (r : Ref) : Ans :=
  if r.decl then .decl r.tok (localBinding r)
  else if r.write then .gassign r.tok
  else if r.root then .root r.tok (localBinding r)
  else .read r.tok (localBinding r)

variable [NameFilter]

/-- does the name filter for the entry's kind keep it? -/
def Ref.kept (r : Ref) : Bool :=
  if r.decl then NameFilter.keep r.name else if r.write then NameFilter.assign r.name else NameFilter.read r.name

/-- every counted entry of the log that the filters keep — reads, declarations, global assignments — in
    the order the visitor records them -/
def St.log (σ : St) : List Ans := (σ.refs.filter fun r => r.counted && r.kept).map Ref.ans

def Ans.readOf : Ans → Option (Nat × Option Nat)
  | .read t d => some (t, d)
  | .root t d => some (t, d)
  | _ => none
def Ans.valueOf : Ans → Option (Nat × Option Nat)
  | .read t d => some (t, d)
  | _ => none
def Ans.declOf : Ans → Option (Nat × Option Nat)
  | .decl t d => some (t, d)
  | _ => none
def Ans.assignOf : Ans → Option Nat
  | .gassign t => some t
  | _ => none

/-- token ↦ binding for every counted read, in the order the visitor records them -/
def St.answers (σ : St) : List (Nat × Option Nat) :=
  (σ.refs.filter fun r => r.counted && r.kept && !r.decl && !r.write).map fun r => (r.tok, localBinding r)

/-- declaration token ↦ the local declaration its name denoted just before (`Variable.shadowed`, a
    global the file assigns not counting), in the order the visitor defines them -/
def St.shadows (σ : St) : List (Nat × Option Nat) :=
  (σ.refs.filter fun r => r.counted && r.kept && r.decl).map fun r => (r.tok, localBinding r)

/-- token ↦ binding for every read that uses the *value* of the name: an occurrence in an expression
    position other than the root of an indexed assignment target -/
def St.valueUses (σ : St) : List (Nat × Option Nat) :=
  (σ.refs.filter fun r => r.counted && r.kept && !r.decl && !r.write && !r.root).map fun r => (r.tok, localBinding r)

/-- tokens of the plain-name assignment targets (and `function name` statements) that assign a global -/
def St.globalAssigns (σ : St) : List Nat :=
  (σ.refs.filter fun r => r.counted && r.kept && !r.decl && r.write).map (·.tok)

end Selene.Scope.Core
