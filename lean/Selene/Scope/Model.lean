/-
Model of `ScopeVisitor` / `ScopeManager` (selene-lib/src/ast_util/scopes.rs) for the Lua 5.1 subset.

The Rust visitor is driven by full_moon's `Visitor`: for every node `visit_x` runs before the
node's children are visited (in source order) and `visit_x_end` after.  The hooks *eagerly* read
whole expressions (`read_expression`), later visits of the same identifiers are de-duplicated by
`captured_references`.  Function bodies are only entered during the descent.  The traversal below
reproduces that order hook by hook; identifiers are token indices (the Rust uses the token's byte
range, which is in bijection with the index).
-/
import Selene.Lua.Ast
namespace Selene.Scope
open Selene.Lua

inductive WriteKind where
  | assign | extend
deriving DecidableEq, Repr, Inhabited

structure IndexEntry where
  span : Span
  staticName : Option String
deriving DecidableEq, Repr, Inhabited

structure Ref where
  ident : Nat
  name : String
  resolved : Option Nat := none
  scopeId : Nat
  read : Bool
  write : Option WriteKind := none
  within : Option (Nat × Nat) := none          -- (function call stmt id, argument index)
  indexing : Option (List IndexEntry) := none
deriving DecidableEq, Repr, Inhabited

structure Variable where
  name : String
  ident : Nat                     -- identifiers[0]
  defSpan : Span                  -- definitions[0]
  references : List Nat := []
  shadowed : Option Nat := none
  isSelf : Bool := false
  staticTable : Option Bool := none   -- `AssignedValue::StaticTable { has_fields }`
  hoisted : Bool := false         -- bookkeeping of the model only: created by `try_hoist`
deriving DecidableEq, Repr, Inhabited

structure ScopeRec where
  variables : List Nat := []
  references : List Nat := []
  blocked : List String := []
deriving DecidableEq, Repr, Inhabited

structure CallStmt where
  namePath : List String
  initialRef : Nat
  prefixSpan : Span
deriving DecidableEq, Repr, Inhabited

structure St where
  scopes : Array ScopeRec := #[{}]
  refs : Array Ref := #[]
  vars : Array Variable := #[]
  calls : Array CallStmt := #[]
  stack : List Nat := [0]             -- head = innermost
  captured : List Nat := []
  elseBlocks : List Span := []
  functionDepth : Nat := 0
  panic : Option String := none
deriving Repr, Inhabited

def St.fail (σ : St) (why : String) : St :=
  match σ.panic with
  | some _ => σ
  | none => { σ with panic := some why }

def St.cur (σ : St) : Nat := σ.stack.headD 0

inductive InScope where
  | found (id : Nat)
  | notFound
  | blocked

/-- `variable_in_scope`: latest definition first, then the `blocked` names -/
def variableInScope (σ : St) (scope : Nat) (name : String) : InScope :=
  match σ.scopes[scope]? with
  | none => .notFound
  | some sc =>
    match sc.variables.reverse.find? (fun id => match σ.vars[id]? with | some v => v.name = name | none => false) with
    | some id => .found id
    | none => if sc.blocked.contains name then .blocked else .notFound

def findVariableIn (σ : St) (name : String) : List Nat → Option Nat
  | [] => none
  | s :: rest =>
    match variableInScope σ s name with
    | .found id => some id
    | .blocked => none
    | .notFound => findVariableIn σ name rest

/-- `find_variable` -/
def findVariable (σ : St) (name : String) : Option Nat := findVariableIn σ name σ.stack

def pushScopeRef (σ : St) (refId : Nat) : St :=
  { σ with scopes := σ.scopes.modify σ.cur fun sc => { sc with references := sc.references ++ [refId] } }

/-- `Reference::merge` -/
def mergeRef (old new : Ref) : Ref :=
  { old with read := old.read || new.read,
             write := match new.write with | some w => some w | none => old.write,
             indexing := match new.indexing with | some i => some i | none => old.indexing,
             within := match new.within with | some w => some w | none => old.within }

/-- `reference_variable` -/
def referenceVariable (σ : St) (r : Ref) : St :=
  match σ.refs.findIdx? (fun e => e.name = r.name ∧ e.ident = r.ident ∧ e.scopeId = r.scopeId) with
  | some i => { σ with refs := σ.refs.modify i fun e => mergeRef e r }
  | none =>
    let id := σ.refs.size
    match findVariable σ r.name with
    | some v =>
      let σ := { σ with refs := σ.refs.push { r with resolved := some v },
                        vars := σ.vars.modify v fun x => { x with references := x.references ++ [id] } }
      pushScopeRef σ id
    | none => pushScopeRef { σ with refs := σ.refs.push r } id

/-- `read_name` on an identifier or `...` token -/
def readName (σ : St) (t : Tok) : St :=
  if σ.captured.contains t.idx then σ
  else if σ.functionDepth = 0 ∧ t.text = "..." then σ      -- main-chunk vararg: always valid, not recorded
  else
    let σ := { σ with captured := t.idx :: σ.captured }
    referenceVariable σ { ident := t.idx, name := t.text, scopeId := σ.cur, read := true }

/-- `write_name_with` -/
def writeName (σ : St) (t : Tok) (kind : WriteKind := .assign) : St :=
  referenceVariable σ { ident := t.idx, name := t.text, scopeId := σ.cur, read := false, write := some kind }

/-- `define_name_full_with_variable` -/
def defineVar (σ : St) (v : Variable) : St :=
  let id := σ.vars.size
  let v := { v with shadowed := findVariable σ v.name }
  { σ with vars := σ.vars.push v,
           scopes := σ.scopes.modify σ.cur fun sc => { sc with variables := sc.variables ++ [id] } }

def defineName (σ : St) (t : Tok) (defSpan : Span) : St :=
  defineVar σ { name := t.text, ident := t.idx, defSpan }

/-- `try_hoist` -/
def tryHoist (σ : St) : St :=
  match σ.scopes[σ.cur]? with
  | none => σ.fail "current scope missing"
  | some sc =>
    match sc.references.getLast? with
    | none => σ.fail "try_hoist: current scope has no references (unwrap on None)"
    | some latest =>
      match σ.refs[latest]? with
      | none => σ.fail "try_hoist: dangling reference id"
      | some r =>
        match findVariable σ r.name with
        | some _ => σ
        | none =>
          let id := σ.vars.size
          let σ := defineVar σ { name := r.name, ident := r.ident, defSpan := ⟨r.ident, r.ident⟩, hoisted := true }
          { σ with refs := σ.refs.map fun e =>
              if e.read ∧ e.name = r.name ∧ e.resolved.isNone then { e with resolved := some id } else e }

def openScope (σ : St) : St :=
  { σ with scopes := σ.scopes.push {}, stack := σ.scopes.size :: σ.stack }

def closeScope (σ : St) : St :=
  match σ.stack with
  | _ :: b :: rest => { σ with stack := b :: rest }
  | _ => σ.fail "close_scope popped off the last of the stack"

/-- first reference (arena order) whose identifier is this token: `reference_at_byte` -/
def refAtTok (σ : St) (tok : Nat) : Option Nat := σ.refs.findIdx? (fun r => r.ident = tok)

/-! ### eager reads (`read_expression` and friends) -/

/-- `extract_static_token`: a single number / string / symbol token, possibly parenthesised -/
def extractStaticName : Expr → Option String
  | .paren _ e => extractStaticName e
  | .str t _ _ => some t.text
  | .num t => some t.text
  | .nil t | .true_ t | .false_ t | .dots t => some t.text
  | _ => none

/-- `adjust_indexing` entry list; `none` when a call suffix is met -/
def indexEntries : SuffixList → Option (List IndexEntry)
  | .nil => some []
  | .cons s rest =>
    match s with
    | .dot sp name => (indexEntries rest).map fun l => { span := sp, staticName := some name.text } :: l
    | .idx sp e => (indexEntries rest).map fun l => { span := sp, staticName := extractStaticName e } :: l
    | _ => none

def firstTokOfPrefix : Prefix → Nat
  | .name t => t.idx
  | .expr e => e.span.first

mutual
def readExpr (σ : St) : Expr → St
  | .paren _ e => readExpr σ e
  | .un _ _ e => readExpr σ e
  | .bin _ l _ r => readExpr (readExpr σ l) r
  | .func _ _ _ => σ                          -- `read_name(function keyword)`: not an identifier
  | .call c => readFCallEager σ c
  | .tbl _ fs => readFields σ fs
  | .dots t => readName σ t
  | .var v => readVar σ v
  | _ => σ
def readExprs (σ : St) : ExprList → St
  | .nil => σ
  | .cons e rest => readExprs (readExpr σ e) rest
def readFCallEager (σ : St) : FCall → St
  | .mk _ p ss => readSuffixes (readPrefix σ p) ss
def readPrefix (σ : St) : Prefix → St
  | .name t => readName σ t
  | .expr e => readExpr σ e
def readSuffixes (σ : St) : SuffixList → St
  | .nil => σ
  | .cons s rest => readSuffixes (readSuffix σ s) rest
/-- `read_suffix` = the visitor's own `visit_call` / `visit_index` -/
def readSuffix (σ : St) : Suffix → St
  | .dot _ _ => σ
  | .idx _ e => readExpr σ e
  | .args _ a => readArgs σ a
  | .meth _ _ a => readArgs σ a
  | .unsupported _ => σ
/-- `visit_call`'s argument handling -/
def readArgs (σ : St) : Args → St
  | .parens _ es => readExprs σ es
  | .tbl _ fs => readFields σ fs
  | .str _ _ _ => σ
def readFields (σ : St) : FieldList → St
  | .nil => σ
  | .cons f rest =>
    let σ := match f with
      | .exprKey _ k v => readExpr (readExpr σ k) v
      | .nameKey _ _ v => readExpr σ v
      | .noKey v => readExpr σ v
      | .unsupported _ => σ
    readFields σ rest
/-- `read_var` -/
def readVar (σ : St) : Var → St
  | .name t => readName σ t
  | .expr sp p ss =>
    let σ := readPrefix σ p
    -- adjust_indexing
    let σ := match indexEntries ss with
      | some (e :: es) =>
        match refAtTok σ sp.first with
        | some i => { σ with refs := σ.refs.modify i fun r => { r with indexing := some (e :: es) } }
        | none => σ
      | _ => σ
    readSuffixes σ ss
end

/-! ### `process_function_call_finish` -/

def suffixNamePath : List Suffix → List String → Option (List String)
  | [], acc => some acc
  | s :: rest, acc =>
    match s with
    | .dot _ n => suffixNamePath rest (acc ++ [n.text])
    | .idx _ _ => none
    | .args _ _ | .meth _ _ _ => if rest.isEmpty then some acc else none
    | .unsupported _ => suffixNamePath rest acc

/-- `get_name_path_from_call` -/
def namePathFromCall : FCall → Option (List String)
  | .mk _ p ss =>
    match p with
    | .name t => suffixNamePath ss.toList [t.text]
    | .expr (.var (.name t)) => suffixNamePath ss.toList [t.text]
    | .expr (.var (.expr _ (.name t) vss)) => suffixNamePath (vss.toList ++ ss.toList) [t.text]
    | _ => none

def lastCallArgs : List Suffix → Option Args
  | [] => none
  | [.args _ a] => some a
  | [.meth _ _ a] => some a
  | [_] => none
  | _ :: rest => lastCallArgs rest

def markArgs (σ : St) (callId : Nat) : List Expr → Nat → St
  | [], _ => σ
  | e :: rest, i =>
    let σ := match e with
      | .var (.name t) =>
        match refAtTok σ t.idx with
        | some r => { σ with refs := σ.refs.modify r fun x => { x with within := some (callId, i) } }
        | none => σ
      | _ => σ
    markArgs σ callId rest (i + 1)

def processCallFinish (σ : St) (c : FCall) : St :=
  match namePathFromCall c with
  | none => σ
  | some path =>
    match c with
    | .mk sp p ss =>
      match refAtTok σ sp.first with
      | none => σ.fail "function call stmt has no reference"
      | some initial =>
        let sl := ss.toList
        let prefixSpan : Span :=
          match sl.dropLast.getLast? with
          | some s => ⟨sp.first, s.span.last⟩
          | none => ⟨sp.first, match p with | .name t => t.idx | .expr e => e.span.last⟩
        let callId := σ.calls.size
        let σ := { σ with calls := σ.calls.push { namePath := path, initialRef := initial, prefixSpan } }
        match lastCallArgs sl with
        | some (.parens _ es) => markArgs σ callId es.toList 0
        | _ => σ

/-! ### the traversal -/

def defineParams (σ : St) : List Param → St
  | [] => σ
  | p :: rest =>
    let t := match p with | .name t => t | .dots t => t
    defineParams (defineName σ t ⟨t.idx, t.idx⟩) rest

def defineAndWrite (σ : St) : List Tok → St
  | [] => σ
  | t :: rest => defineAndWrite (writeName (defineName σ t ⟨t.idx, t.idx⟩) t) rest

def staticTableOf : Expr → Option Bool
  | .tbl _ fs => some (match fs with | .nil => false | _ => true)
  | _ => none

/-- `visit_local_assignment_end`: the names are defined (and written, when they have an initialiser)
    after the statement's children were visited; `visit_local_assignment` itself reads every initialiser -/
def localAssignEnd (σ : St) (sp : Span) : List Tok → ExprList → St
  | [], _ => σ
  | t :: rest, es =>
    match es with
    | .cons e es' =>
      let σ := defineVar σ { name := t.text, ident := t.idx, defSpan := sp, staticTable := staticTableOf e }
      let σ := writeName σ t
      localAssignEnd σ sp rest es'
    | .nil =>
      let σ := defineVar σ { name := t.text, ident := t.idx, defSpan := sp }
      localAssignEnd σ sp rest .nil

/-- `visit_assignment` -/
def assignHook (σ : St) : VarList → ExprList → St
  | .nil, es => readExprs σ es                 -- surplus right-hand sides are still evaluated
  | .cons v rest, es =>
    let (σ, es') := match es with
      | .cons e es' => (readExpr σ e, es')
      | .nil => (σ, ExprList.nil)
    match v with
    | .expr _ (.expr _) _ => assignHook (readVar σ v) rest es'
    | .expr _ (.name n) ss =>
      let σ := match ss with
        | .nil => σ
        | _ => readName (readVar σ v) n
      assignHook (writeName σ n) rest es'
    | .name n => assignHook (tryHoist (writeName σ n)) rest es'

mutual
def visitExpr (σ : St) : Expr → St
  | .paren _ e => visitExpr σ e
  | .un _ _ e => visitExpr σ e
  | .bin _ l _ r => visitExpr (visitExpr σ l) r
  | .func _ _ body => visitBody σ body
  | .call c => visitFCall σ c
  | .tbl _ fs => visitFields σ fs
  | .var v => visitVar σ v
  | _ => σ
def visitExprs (σ : St) : ExprList → St
  | .nil => σ
  | .cons e rest => visitExprs (visitExpr σ e) rest
def visitFields (σ : St) : FieldList → St
  | .nil => σ
  | .cons f rest =>
    let σ := match f with
      | .exprKey _ k v => visitExpr (visitExpr σ k) v
      | .nameKey _ _ v => visitExpr σ v
      | .noKey v => visitExpr σ v
      | .unsupported _ => σ
    visitFields σ rest
def visitVar (σ : St) : Var → St
  | .name _ => σ
  | .expr _ p ss => visitSuffixes (visitPrefix σ p) ss
def visitVars (σ : St) : VarList → St
  | .nil => σ
  | .cons v rest => visitVars (visitVar σ v) rest
def visitPrefix (σ : St) : Prefix → St
  | .name _ => σ
  | .expr e => visitExpr σ e
def visitSuffixes (σ : St) : SuffixList → St
  | .nil => σ
  | .cons s rest => visitSuffixes (visitSuffix σ s) rest
def visitSuffix (σ : St) : Suffix → St
  | .dot _ _ => σ
  | .idx _ e => visitExpr (readExpr σ e) e                        -- visit_index, then the child
  | .args _ a => visitArgs (readArgs σ a) a                       -- visit_call, then FunctionArgs
  | .meth _ _ a => visitArgs (readArgs σ a) a
  | .unsupported _ => σ
def visitArgs (σ : St) : Args → St
  | .parens _ es => visitExprs (readExprs σ es) es                -- visit_function_args, then children
  | .str _ _ _ => σ
  | .tbl _ fs => visitFields σ fs
def visitFCall (σ : St) : FCall → St
  | .mk _ p ss => visitSuffixes (visitPrefix (readPrefix σ p) p) ss   -- visit_function_call: read_prefix
def visitBody (σ : St) : FuncBody → St
  | .mk _ params b =>
    let σ := openScope { σ with functionDepth := σ.functionDepth + 1 }
    let σ := { σ with scopes := σ.scopes.modify σ.cur fun sc => { sc with blocked := sc.blocked ++ ["..."] } }
    let σ := defineParams σ params
    let σ := closeScope (visitBlock σ b)
    { σ with functionDepth := σ.functionDepth - 1 }
def visitBlock (σ : St) : Block → St
  | .mk sp stmts last =>
    let isElse := match sp with | some s => σ.elseBlocks.contains s | none => false
    let σ := if isElse then openScope (closeScope σ) else σ
    let σ := visitStmts σ stmts
    let σ := match last with
      | .none => σ
      | .brk _ => σ
      | .ret _ es => visitExprs (readExprs σ es) es
    if isElse then closeScope σ else σ
def visitStmts (σ : St) : StmtList → St
  | .nil => σ
  | .cons s rest => visitStmts (visitStmt σ s) rest
def visitElseIfs (σ : St) : ElseIfList → St
  | .nil => σ
  | .cons (.mk _ c b) rest =>
    let σ := closeScope σ
    let σ := readExpr σ c
    let σ := openScope σ
    let σ := visitExpr σ c
    let σ := visitBlock σ b
    visitElseIfs σ rest
def visitStmt (σ : St) : Stmt → St
  | .assign _ vars es => visitExprs (visitVars (assignHook σ vars es) vars) es
  | .localAssign sp names es => localAssignEnd (visitExprs (readExprs σ es) es) sp names es
  | .call c => processCallFinish (visitFCall σ c) c
  | .do_ _ b => closeScope (visitBlock (openScope σ) b)
  | .while_ _ c b =>
    let σ := openScope (readExpr σ c)
    closeScope (visitBlock (visitExpr σ c) b)
  | .repeat_ _ b c =>
    let σ := openScope σ
    let σ := visitBlock σ b
    let σ := visitExpr σ c
    closeScope (readExpr σ c)
  | .if_ _ c b elifs els =>
    let σ := readExpr σ c
    let σ := openScope σ
    let σ := match els with
      | .some (.mk (some sp) _ _) => { σ with elseBlocks := sp :: σ.elseBlocks }
      | _ => σ
    let σ := visitExpr σ c
    let σ := visitBlock σ b
    let σ := visitElseIfs σ elifs
    match els with
    | .some (.mk (some sp) ss l) => visitBlock σ (.mk (some sp) ss l)     -- the else block cleans up itself
    | .some (.mk none ss l) => closeScope (visitBlock σ (.mk none ss l))
    | .none => closeScope σ
  | .numFor _ v _ start stop step b =>
    let σ := readExpr σ start
    let σ := readExpr σ stop
    let σ := match step with | .some e => readExpr σ e | .none => σ
    let σ := openScope σ
    -- the loop variable is defined when the body block is entered (`pending_loops`), after the
    -- closures of the control expressions have been visited
    let σ := visitExpr σ start
    let σ := visitExpr σ stop
    let σ := match step with | .some e => visitExpr σ e | .none => σ
    let σ := defineName σ v ⟨v.idx, v.idx⟩
    let σ := writeName σ v
    let σ := openScope σ
    closeScope (closeScope (visitBlock σ b))
  | .genFor _ names es b =>
    let σ := readExprs σ es
    let σ := openScope σ
    let σ := visitExprs σ es
    let σ := defineAndWrite σ names
    closeScope (visitBlock σ b)
  | .func _ name body =>
    match name.names with
    | [] => σ
    | base :: more =>
      let longer := !more.isEmpty || name.method.isSome
      let σ := if longer then writeName σ base .extend else σ
      let σ := readName σ base
      let σ := if longer then σ else tryHoist σ
      match name.method with
      | some m =>
        let σ := openScope σ
        let σ := defineVar σ { name := "self", ident := m.idx, defSpan := ⟨m.idx, m.idx⟩, isSelf := true }
        closeScope (visitBody σ body)
      | none => visitBody σ body
  | .localFunc _ name body =>
    let σ := defineName σ name ⟨name.idx, name.idx⟩
    closeScope (visitBody (openScope σ) body)
  | .unsupported _ => σ
end

/-- `ScopeVisitor::from_ast` -/
def analyse (b : Block) : St :=
  let σ := visitBlock {} b
  if σ.stack.length = 1 then σ else σ.fail "scopes not all popped"

end Selene.Scope
