/-
Lua 5.1 lexical scoping as an environment-passing resolver, written from the reference manual
(§2.4.7, §2.5.9, §2.6): a `local` is in scope after the whole statement; a numeric `for` evaluates
its three expressions outside the loop variable's scope; `repeat` locals are visible in `until`;
parameters, implicit `self` and `...` belong to the function body; `local function f` is visible
inside its own body; `...` of the main chunk is bound anywhere outside functions.

The resolver walks the tree in *source order* and records every identifier occurrence with the
declaration it denotes.  It shares nothing with the scope-stack model.
-/
import Selene.Lua.Ast
namespace Selene.Scope.Spec
open Selene.Lua

inductive DeclKind where
  | local_ | param | loopVar | localFunc | self_ | varargParam
deriving DecidableEq, Repr, Inhabited

/-- innermost first; `("...", none)` is the barrier a function without `...` puts up -/
abbrev Env := List (String × Option (Nat × DeclKind))

def Env.lookup (env : Env) (n : String) : Option (Nat × DeclKind) :=
  match env.find? (·.1 = n) with
  | some (_, d) => d
  | none => none

inductive OccKind where
  | value            -- operand, argument, callee, indexed value, returned value, condition, loop bound …
  | target           -- plain-name target of an assignment / `function name`
  | indexedTarget    -- root name of an indexed assignment target / of `function a.b.c`
deriving DecidableEq, Repr, Inhabited

structure Occ where
  tok : Nat
  name : String
  kind : OccKind
  binding : Option (Nat × DeclKind)      -- declaration token, if a local binding is visible
  inFunction : Bool                      -- lexically inside some function body
deriving DecidableEq, Repr, Inhabited

structure Decl where
  tok : Nat
  name : String
  kind : DeclKind
  visibleSameName : Option (Nat × DeclKind)   -- what the name denoted just before this declaration
  sameStatement : Bool                        -- … and that was introduced by the same statement / parameter list
deriving DecidableEq, Repr, Inhabited

structure Out where
  occs : List Occ := []
  decls : List Decl := []
  topAssigned : List String := []        -- names assigned / `function name` as a statement of the outermost block while not locally bound
  anyAssigned : List String := []        -- … anywhere in the file
  loopHeaders : List (Span × List Nat) := []   -- header expressions' token range of every `for`, with its loop variables
deriving Repr, Inhabited

structure Ctx where
  inFunction : Bool
  depth : Nat                            -- 0 = statements of the outermost block
deriving Repr, Inhabited

def Out.occ (o : Out) (c : Ctx) (env : Env) (t : Tok) (k : OccKind) : Out :=
  { o with occs := o.occs ++ [{ tok := t.idx, name := t.text, kind := k, binding := env.lookup t.text, inFunction := c.inFunction }] }

def declare (o : Out) (env : Env) (t : Tok) (name : String) (k : DeclKind) (stmtDecls : List Nat) : Out × Env :=
  let vis := env.lookup name
  let same := match vis with | some (d, _) => stmtDecls.contains d | none => false
  ({ o with decls := o.decls ++ [{ tok := t.idx, name, kind := k, visibleSameName := vis, sameStatement := same }] },
   (name, some (t.idx, k)) :: env)

def declareAll (o : Out) (env : Env) (k : DeclKind) : List Tok → List Nat → Out × Env
  | [], _ => (o, env)
  | t :: rest, acc =>
    let (o, env) := declare o env t t.text k acc
    declareAll o env k rest (t.idx :: acc)

def declareParams (o : Out) (env : Env) : List Param → List Nat → Out × Env
  | [], _ => (o, env)
  | p :: rest, acc =>
    match p with
    | .name t =>
      let (o, env) := declare o env t t.text .param acc
      declareParams o env rest (t.idx :: acc)
    | .dots t =>
      let (o, env) := declare o env t "..." .varargParam acc
      declareParams o env rest (t.idx :: acc)

def hasDots : List Param → Bool
  | [] => false
  | .dots _ :: _ => true
  | _ :: rest => hasDots rest

mutual
def rExpr (o : Out) (c : Ctx) (env : Env) : Expr → Out
  | .paren _ e => rExpr o c env e
  | .un _ _ e => rExpr o c env e
  | .bin _ l _ r => rExpr (rExpr o c env l) c env r
  | .func _ _ body => rBody o c env none body
  | .call f => rFCall o c env f
  | .tbl _ fs => rFields o c env fs
  | .dots t => o.occ c env t .value
  | .var v => rVar o c env v .value
  | _ => o
def rExprs (o : Out) (c : Ctx) (env : Env) : ExprList → Out
  | .nil => o
  | .cons e rest => rExprs (rExpr o c env e) c env rest
def rFields (o : Out) (c : Ctx) (env : Env) : FieldList → Out
  | .nil => o
  | .cons f rest =>
    let o := match f with
      | .exprKey _ k v => rExpr (rExpr o c env k) c env v
      | .nameKey _ _ v => rExpr o c env v
      | .noKey v => rExpr o c env v
      | .unsupported _ => o
    rFields o c env rest
/-- a variable: its root name occurs with kind `rootKind`, everything inside brackets / arguments is a value use -/
def rVar (o : Out) (c : Ctx) (env : Env) : Var → OccKind → Out
  | .name t, k => o.occ c env t k
  | .expr _ p ss, k => rSuffixes (rPrefix o c env p k) c env ss
def rPrefix (o : Out) (c : Ctx) (env : Env) : Prefix → OccKind → Out
  | .name t, k => o.occ c env t k
  | .expr e, _ => rExpr o c env e
def rSuffixes (o : Out) (c : Ctx) (env : Env) : SuffixList → Out
  | .nil => o
  | .cons s rest =>
    let o := match s with
      | .dot _ _ => o
      | .idx _ e => rExpr o c env e
      | .args _ a => rArgs o c env a
      | .meth _ _ a => rArgs o c env a
      | .unsupported _ => o
    rSuffixes o c env rest
def rArgs (o : Out) (c : Ctx) (env : Env) : Args → Out
  | .parens _ es => rExprs o c env es
  | .str _ _ _ => o
  | .tbl _ fs => rFields o c env fs
def rFCall (o : Out) (c : Ctx) (env : Env) : FCall → Out
  | .mk _ p ss => rSuffixes (rPrefix o c env p .value) c env ss
/-- function body: fresh parameter scope; `...` is the function's own or unavailable -/
def rBody (o : Out) (c : Ctx) (env : Env) (selfTok : Option Tok) : FuncBody → Out
  | .mk _ params b =>
    let (o, env) := match selfTok with
      | some m => declare o env m "self" .self_ []
      | none => (o, env)
    -- the enclosing function's `...` is never visible here: the body has its own (declared below) or none
    let env : Env := ("...", none) :: env
    let (o, env) := declareParams o env params []
    (rBlock o { inFunction := true, depth := c.depth + 1 } env b).1
/-- a block: statements extend the environment sequentially; returns the environment at its end
    (needed by `repeat … until`) -/
def rBlock (o : Out) (c : Ctx) (env : Env) : Block → Out × Env
  | .mk _ stmts last =>
    let (o, env) := rStmts o c env stmts
    match last with
    | .ret _ es => (rExprs o c env es, env)
    | _ => (o, env)
def rStmts (o : Out) (c : Ctx) (env : Env) : StmtList → Out × Env
  | .nil => (o, env)
  | .cons s rest =>
    let (o, env) := rStmt o c env s
    rStmts o c env rest
def rTargets (o : Out) (c : Ctx) (env : Env) : VarList → Out
  | .nil => o
  | .cons v rest =>
    let o := match v with
      | .name t =>
        let o := o.occ c env t .target
        if (env.lookup t.text).isNone then
          { o with anyAssigned := t.text :: o.anyAssigned,
                   topAssigned := if c.depth = 0 then t.text :: o.topAssigned else o.topAssigned }
        else o
      | .expr _ _ _ => rVar o c env v .indexedTarget
    rTargets o c env rest
def rElseIfs (o : Out) (c : Ctx) (env : Env) : ElseIfList → Out
  | .nil => o
  | .cons (.mk _ cond b) rest =>
    let o := rExpr o c env cond
    let o := (rBlock o { c with depth := c.depth + 1 } env b).1
    rElseIfs o c env rest
def rStmt (o : Out) (c : Ctx) (env : Env) : Stmt → Out × Env
  | .assign _ vars es =>
    -- right-hand sides are evaluated, then the targets are assigned
    (rTargets (rExprs o c env es) c env vars, env)
  | .localAssign _ names es =>
    let o := rExprs o c env es
    declareAll o env .local_ names []
  | .call f => (rFCall o c env f, env)
  | .do_ _ b => ((rBlock o { c with depth := c.depth + 1 } env b).1, env)
  | .while_ _ cond b =>
    let o := rExpr o c env cond
    ((rBlock o { c with depth := c.depth + 1 } env b).1, env)
  | .repeat_ _ b cond =>
    let (o, envIn) := rBlock o { c with depth := c.depth + 1 } env b
    (rExpr o c envIn cond, env)
  | .if_ _ cond b elifs els =>
    let o := rExpr o c env cond
    let o := (rBlock o { c with depth := c.depth + 1 } env b).1
    let o := rElseIfs o c env elifs
    let o := match els with
      | .some eb => (rBlock o { c with depth := c.depth + 1 } env eb).1
      | .none => o
    (o, env)
  | .numFor _ v _ start stop step b =>
    let o := rExpr (rExpr o c env start) c env stop
    let o := match step with | .some e => rExpr o c env e | .none => o
    let hdrLast := match step with | .some e => e.span.last | .none => stop.span.last
    let o := { o with loopHeaders := (⟨start.span.first, hdrLast⟩, [v.idx]) :: o.loopHeaders }
    let (o, envIn) := declare o env v v.text .loopVar []
    ((rBlock o { c with depth := c.depth + 1 } envIn b).1, env)
  | .genFor _ names es b =>
    let o := rExprs o c env es
    let o := match es.toList with
      | [] => o
      | e :: rest => { o with loopHeaders := (⟨e.span.first, (rest.getLast?.getD e).span.last⟩, names.map (·.idx)) :: o.loopHeaders }
    let (o, envIn) := declareAll o env .loopVar names []
    ((rBlock o { c with depth := c.depth + 1 } envIn b).1, env)
  | .func _ name body =>
    match name.names with
    | [] => (o, env)
    | base :: more =>
      let longer := !more.isEmpty || name.method.isSome
      let o :=
        if longer then o.occ c env base .indexedTarget
        else
          let o := o.occ c env base .target
          if (env.lookup base.text).isNone then
            { o with anyAssigned := base.text :: o.anyAssigned,
                     topAssigned := if c.depth = 0 then base.text :: o.topAssigned else o.topAssigned }
          else o
      (rBody o c env name.method body, env)
  | .localFunc _ name body =>
    let (o, env) := declare o env name name.text .localFunc []
    (rBody o c env none body, env)
  | .unsupported _ => (o, env)
end

/-- the whole chunk: `...` of the main chunk is available outside functions (no barrier) -/
def resolve (b : Block) : Out := (rBlock {} { inFunction := false, depth := 0 } [] b).1

end Selene.Scope.Spec
