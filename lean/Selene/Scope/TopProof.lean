/-
Globals the file assigns in its outermost block: once such a statement has run, the machine leaves no
read of that name unresolved — neither the earlier ones (rewritten by `try_hoist`) nor any later one
(the hoisted entry stays in the outermost scope, which is never closed).  Built on the invariants of
`Scope/Safe.lean`, which `CoreProof` carries through the whole traversal.
-/
import Selene.Scope.CoreProof
namespace Selene.Scope.TopProof
open Selene.Lua Selene.Scope.Spec Selene.Scope.Core Selene.Scope.Ordered Selene.Scope.CoreProof
open Selene.Scope.Safe (Step Inv Good)

/-! ### the documented notion, on the syntax tree -/

def varNames : VarList → List String
  | .nil => []
  | .cons (.name t) rest => t.text :: varNames rest
  | .cons (.expr _ _ _) rest => varNames rest

/-- names a statement assigns as plain names: targets `n = …`, and `function n … end` -/
def plainTargets : Stmt → List String
  | .assign _ vars _ => varNames vars
  | .func _ name _ =>
    match name.names with
    | [base] => if name.method.isSome then [] else [base.text]
    | _ => []
  | _ => []

/-- the environment after a statement of a block (only `local` statements extend it) -/
def envAfter (env : Env) : Stmt → Env
  | .localAssign _ names _ => bindAll env .local_ names
  | .localFunc _ name _ => bindTok env name name.text .localFunc
  | _ => env

/-- the globals the statements of a block assign: plain-name targets whose name denotes no local
    there (`...` is no assignable name) -/
def topGlobalsFrom (env : Env) : StmtList → List String
  | .nil => []
  | .cons s rest =>
    (plainTargets s).filter (fun n => (look env n).isNone && n != "...") ++ topGlobalsFrom (envAfter env s) rest

/-- **the globals the file assigns or defines with `function name` in its outermost block** -/
def topGlobals : Block → List String
  | .mk _ stmts _ => topGlobalsFrom [] stmts

set_option linter.unusedSectionVars false
variable [NameFilter]

theorem envAfter_eq (inF : Bool) (env : Env) (s : Stmt) : (sStmt inF env s).2 = envAfter env s := by
  cases s with
  | func _ name _ =>
    obtain ⟨_, names, _⟩ := name
    cases names <;> rfl
  | call c => cases c; rfl
  | _ => rfl

/-! ### a plain-name target that denotes no local establishes `Good` -/

theorem assignTargets_establish (vars : VarList) (es : ExprList) (σ : St) (inF : Bool) (env : Env)
    (r : Rel σ.stack σ.fdepth inF env) (i : Inv σ) (n : String) (hn : n ≠ "...")
    (hmem : n ∈ varNames vars) (hl : look env n = none) : Good n (assignTargets σ vars es) := by
  cases vars with
  | nil => simp [varNames] at hmem
  | cons v rest =>
    -- the state in which the target is processed: after the eager read of its paired expression
    have main : ∀ (σ₁ : St) (es' : ExprList), Rel σ₁.stack σ₁.fdepth inF env → Inv σ₁ →
        Good n (match v with
          | .name t => assignTargets (σ₁.hoist t) rest es'
          | .expr _ _ _ => assignTargets (eagerVT σ₁ v) rest es') := by
      intro σ₁ es' r1 i1
      cases v with
      | name t =>
        obtain ⟨g, rg⟩ := hoist_grow σ₁ t r1
        obtain ⟨g2, _⟩ := assignTargets_grow rest es' _ inF env rg
        by_cases ht : t.text = n
        · subst ht
          have hg : Good t.text (σ₁.hoist t) :=
            Safe.hoist_good σ₁ t r1.ne (i1.hoist t.text hn) (by rw [← hl]; exact r1.env t.text)
          exact g2.safe.good t.text hn (g.safe.inv i1) hg
        · have hm : n ∈ varNames rest := by
            simp only [varNames, List.mem_cons] at hmem
            rcases hmem with h | h
            · exact absurd h.symm ht
            · exact h
          exact assignTargets_establish rest es' _ inF env rg (g.safe.inv i1) n hn hm hl
      | expr vsp p ss =>
        have h := eagerVT_pure σ₁ (.expr vsp p ss) r1
        exact assignTargets_establish rest es' _ inF env (h.rel r1) (h.safe.inv i1) n hn (by simpa [varNames] using hmem) hl
    cases es with
    | nil =>
      cases v with
      | name t => exact main σ .nil r i
      | expr vsp p ss => exact main σ .nil r i
    | cons e es' =>
      have he := eagerE_pure σ e r
      cases v with
      | name t => exact main (eagerE σ e) es' (he.rel r) (he.safe.inv i)
      | expr vsp p ss => exact main (eagerE σ e) es' (he.rel r) (he.safe.inv i)

theorem stmt_establish (s : Stmt) (σ : St) (inF : Bool) (env : Env)
    (r : Rel σ.stack σ.fdepth inF env) (i : Inv σ) (n : String) (hn : n ≠ "...")
    (hmem : n ∈ plainTargets s) (hl : look env n = none) : Good n (stmt σ s) := by
  cases s with
  | assign sp vars es =>
    obtain ⟨g, rg⟩ := assignTargets_grow vars es σ inF env r
    have hg := assignTargets_establish vars es σ inF env r i n hn hmem hl
    have d1 := descVs_ok vars _ inF env rg
    have d2 := descEs_ok es _ inF env (d1.rel rg)
    have i1 := g.safe.inv i
    exact d2.safe.good n hn (d1.safe.inv i1) (d1.safe.good n hn i1 hg)
  | func sp name body =>
    obtain ⟨nsp, names, method⟩ := name
    cases names with
    | nil => simp [plainTargets] at hmem
    | cons base more =>
      cases more with
      | cons _ _ => simp [plainTargets] at hmem
      | nil =>
        cases method with
        | some m => simp [plainTargets] at hmem
        | none =>
          have hb : base.text = n := by
            have : n = base.text := by simpa [plainTargets] using hmem
            exact this.symm
          subst hb
          obtain ⟨g, rg⟩ := readHoist_grow σ base r
          have hg := Safe.readHoist_good σ base r.ne i hn (by rw [← hl]; exact r.env base.text)
          have hbody := body_ok body _ inF env rg
          exact hbody.safe.good base.text hn (g.safe.inv i) hg
  | localAssign _ _ _ => simp [plainTargets] at hmem
  | call _ => simp [plainTargets] at hmem
  | do_ _ _ => simp [plainTargets] at hmem
  | while_ _ _ _ => simp [plainTargets] at hmem
  | repeat_ _ _ _ => simp [plainTargets] at hmem
  | if_ _ _ _ _ _ => simp [plainTargets] at hmem
  | numFor _ _ _ _ _ _ _ => simp [plainTargets] at hmem
  | genFor _ _ _ _ => simp [plainTargets] at hmem
  | localFunc _ _ _ => simp [plainTargets] at hmem
  | unsupported _ => simp [plainTargets] at hmem

/-- `topGlobalsFrom` only lists names different from `...` -/
theorem topGlobalsFrom_ne (n : String) (env : Env) (l : StmtList) (h : n ∈ topGlobalsFrom env l) : n ≠ "..." := by
  cases l with
  | nil => simp [topGlobalsFrom] at h
  | cons s rest =>
    simp only [topGlobalsFrom, List.mem_append, List.mem_filter, Bool.and_eq_true, bne_iff_ne] at h
    rcases h with ⟨_, _, h⟩ | h
    · exact h
    · exact topGlobalsFrom_ne n _ rest h

/-- the statements of one block, in order -/
theorem stmts_top (l : StmtList) (σ : St) (inF : Bool) (env : Env)
    (r : Rel σ.stack σ.fdepth inF env) (i : Inv σ) (n : String) (hn : n ≠ "...")
    (h : Good n σ ∨ n ∈ topGlobalsFrom env l) : Good n (stmts_ σ l) := by
  cases l with
  | nil =>
    rcases h with h | h
    · exact h
    · simp [topGlobalsFrom] at h
  | cons s rest =>
    obtain ⟨g, rg⟩ := stmt_ok s σ inF env r
    rw [envAfter_eq] at rg
    have i1 := g.safe.inv i
    show Good n (stmts_ (stmt σ s) rest)
    rcases h with h | h
    · exact stmts_top rest _ inF _ rg i1 n hn (Or.inl (g.safe.good n hn i h))
    · simp only [topGlobalsFrom, List.mem_append, List.mem_filter, Bool.and_eq_true, Option.isNone_iff_eq_none] at h
      rcases h with ⟨hm, hl, _⟩ | h
      · exact stmts_top rest _ inF _ rg i1 n hn (Or.inl (stmt_establish s σ inF env r i n hn hm hl))
      · exact stmts_top rest _ inF _ rg i1 n hn (Or.inr h)

theorem init_rel : Rel ({} : St).stack ({} : St).fdepth false [] :=
  ⟨by simp, by simp, fun n => by simp [stackFind, scopeFind, look, Env.lookup, lb]⟩

theorem init_inv : Inv ({} : St) := by
  refine ⟨?_, ?_, ?_, ?_, ?_⟩
  · intro s hs e he; simp at hs; subst hs; cases he
  · intro n _ _ x hx; cases hx
  · intro x hx; cases hx
  · intro n _
    refine ⟨?_, fun x hx => by cases hx⟩
    rintro ⟨s, hs, e, he, _⟩
    simp at hs; subst hs; cases he
  · intro x hx; cases hx

/-- the invariants hold of the final state of every chunk -/
theorem analyse_inv (b : Block) : Inv (analyse b) :=
  (block_ok b {} false [] init_rel).1.safe.inv init_inv

/-- **a global the file assigns in its outermost block has no unresolved read**, anywhere in the file -/
theorem analyse_good (b : Block) (n : String) (h : n ∈ topGlobals b) : Good n (analyse b) := by
  cases b with
  | mk sp stmts last =>
    have hn : n ≠ "..." := topGlobalsFrom_ne n [] stmts h
    have hs := stmts_top stmts {} false [] init_rel init_inv n hn (Or.inr h)
    obtain ⟨g, rg⟩ := stmts_ok stmts {} false [] init_rel
    have i1 := g.safe.inv init_inv
    show Good n (block {} (.mk sp stmts last))
    cases last with
    | none => exact hs
    | brk _ => exact hs
    | ret rsp es =>
      have e1 := eagerEs_pure _ es rg
      have d1 := descEs_ok es _ false _ (e1.rel rg)
      exact d1.safe.good n hn (e1.safe.inv i1) (e1.safe.good n hn i1 hs)

end Selene.Scope.TopProof
