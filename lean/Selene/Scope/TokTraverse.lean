/-
The reference tokens of every syntactic form, in the order the machine of `Scope/Core.lean` reaches them
(`et*`: the eager reads; `dt*`: the descent into function bodies, statements, blocks), and the proof that
each traversal extends the log by a block over exactly those tokens in which no read is preceded by a
reference at the same token — given the tokens are pairwise distinct.
-/
import Selene.Scope.TokLog
namespace Selene.Scope.Core
open Selene.Lua

/-! ### eager reads -/
mutual
def etE : Expr → List Nat
  | .paren _ e => etE e
  | .un _ _ e => etE e
  | .bin _ l _ r => etE l ++ etE r
  | .func _ _ _ => []
  | .call c => etC c
  | .tbl _ fs => etFields fs
  | .dots t => [t.idx]
  | .var v => etV v
  | .nil _ => []
  | .true_ _ => []
  | .false_ _ => []
  | .num _ => []
  | .str _ _ _ => []
  | .unsupported _ => []
def etEs : ExprList → List Nat
  | .nil => []
  | .cons e rest => etE e ++ etEs rest
def etC : FCall → List Nat
  | .mk _ p ss => etP p ++ etSs ss
def etP : Prefix → List Nat
  | .name t => [t.idx]
  | .expr e => etE e
def etSs : SuffixList → List Nat
  | .nil => []
  | .cons s rest => etS s ++ etSs rest
def etS : Suffix → List Nat
  | .dot _ _ => []
  | .idx _ e => etE e
  | .args _ a => etA a
  | .meth _ _ a => etA a
  | .unsupported _ => []
def etA : Args → List Nat
  | .parens _ es => etEs es
  | .tbl _ fs => etFields fs
  | .str _ _ _ => []
def etF : Field → List Nat
  | .exprKey _ k v => etE k ++ etE v
  | .nameKey _ _ v => etE v
  | .noKey v => etE v
  | .unsupported _ => []
def etFields : FieldList → List Nat
  | .nil => []
  | .cons f rest => etF f ++ etFields rest
def etV : Var → List Nat
  | .name t => [t.idx]
  | .expr _ p ss => etP p ++ etSs ss
end

/-- the inlined `match f with …` of `eagerFields` -/
def eagerF (σ : St) : Field → St
  | .exprKey _ k v => eagerE (eagerE σ k) v
  | .nameKey _ _ v => eagerE σ v
  | .noKey v => eagerE σ v
  | .unsupported _ => σ

theorem eagerFields_cons (σ : St) (f : Field) (rest : FieldList) :
    eagerFields σ (.cons f rest) = eagerFields (eagerF σ f) rest := by
  cases f <;> rfl

mutual
theorem eagerE_ext : (e : Expr) → (σ : St) → (etE e).Nodup → Ext (etE e) σ (eagerE σ e)
  | .paren _ e, σ, h => by simp only [eagerE, etE] at *; exact eagerE_ext e σ h
  | .un _ _ e, σ, h => by simp only [eagerE, etE] at *; exact eagerE_ext e σ h
  | .bin _ l _ r, σ, h => by
    simp only [eagerE, etE] at *
    exact Ext.seq (eagerE_ext l σ (nodup_left h)) (eagerE_ext r _ (nodup_right h)) h
  | .func _ _ _, σ, _ => by simp only [eagerE, etE]; exact Ext.refl _ _
  | .call c, σ, h => by simp only [eagerE, etE] at *; exact eagerC_ext c σ h
  | .tbl _ fs, σ, h => by simp only [eagerE, etE] at *; exact eagerFields_ext fs σ h
  | .dots t, σ, _ => by simp only [eagerE, etE]; exact read_ext σ t true false
  | .var v, σ, h => by simp only [eagerE, etE] at *; exact eagerV_ext v σ h
  | .nil _, σ, _ => by simp only [eagerE, etE]; exact Ext.refl _ _
  | .true_ _, σ, _ => by simp only [eagerE, etE]; exact Ext.refl _ _
  | .false_ _, σ, _ => by simp only [eagerE, etE]; exact Ext.refl _ _
  | .num _, σ, _ => by simp only [eagerE, etE]; exact Ext.refl _ _
  | .str _ _ _, σ, _ => by simp only [eagerE, etE]; exact Ext.refl _ _
  | .unsupported _, σ, _ => by simp only [eagerE, etE]; exact Ext.refl _ _
theorem eagerEs_ext : (es : ExprList) → (σ : St) → (etEs es).Nodup → Ext (etEs es) σ (eagerEs σ es)
  | .nil, σ, _ => by simp only [eagerEs, etEs]; exact Ext.refl _ _
  | .cons e rest, σ, h => by
    simp only [eagerEs, etEs] at *
    exact Ext.seq (eagerE_ext e σ (nodup_left h)) (eagerEs_ext rest _ (nodup_right h)) h
theorem eagerC_ext : (c : FCall) → (σ : St) → (etC c).Nodup → Ext (etC c) σ (eagerC σ c)
  | .mk _ p ss, σ, h => by
    simp only [eagerC, etC] at *
    exact Ext.seq (eagerP_ext p σ (nodup_left h)) (eagerSs_ext ss _ (nodup_right h)) h
theorem eagerP_ext : (p : Prefix) → (σ : St) → (etP p).Nodup → Ext (etP p) σ (eagerP σ p)
  | .name t, σ, _ => by simp only [eagerP, etP]; exact read_ext σ t true false
  | .expr e, σ, h => by simp only [eagerP, etP] at *; exact eagerE_ext e σ h
theorem eagerSs_ext : (ss : SuffixList) → (σ : St) → (etSs ss).Nodup → Ext (etSs ss) σ (eagerSs σ ss)
  | .nil, σ, _ => by simp only [eagerSs, etSs]; exact Ext.refl _ _
  | .cons s rest, σ, h => by
    simp only [eagerSs, etSs] at *
    exact Ext.seq (eagerS_ext s σ (nodup_left h)) (eagerSs_ext rest _ (nodup_right h)) h
theorem eagerS_ext : (s : Suffix) → (σ : St) → (etS s).Nodup → Ext (etS s) σ (eagerS σ s)
  | .dot _ _, σ, _ => by simp only [eagerS, etS]; exact Ext.refl _ _
  | .idx _ e, σ, h => by simp only [eagerS, etS] at *; exact eagerE_ext e σ h
  | .args _ a, σ, h => by simp only [eagerS, etS] at *; exact eagerA_ext a σ h
  | .meth _ _ a, σ, h => by simp only [eagerS, etS] at *; exact eagerA_ext a σ h
  | .unsupported _, σ, _ => by simp only [eagerS, etS]; exact Ext.refl _ _
theorem eagerA_ext : (a : Args) → (σ : St) → (etA a).Nodup → Ext (etA a) σ (eagerA σ a)
  | .parens _ es, σ, h => by simp only [eagerA, etA] at *; exact eagerEs_ext es σ h
  | .tbl _ fs, σ, h => by simp only [eagerA, etA] at *; exact eagerFields_ext fs σ h
  | .str _ _ _, σ, _ => by simp only [eagerA, etA]; exact Ext.refl _ _
theorem eagerF_ext : (f : Field) → (σ : St) → (etF f).Nodup → Ext (etF f) σ (eagerF σ f)
  | .exprKey _ k v, σ, h => by
    simp only [eagerF, etF] at *
    exact Ext.seq (eagerE_ext k σ (nodup_left h)) (eagerE_ext v _ (nodup_right h)) h
  | .nameKey _ _ v, σ, h => by simp only [eagerF, etF] at *; exact eagerE_ext v σ h
  | .noKey v, σ, h => by simp only [eagerF, etF] at *; exact eagerE_ext v σ h
  | .unsupported _, σ, _ => by simp only [eagerF, etF]; exact Ext.refl _ _
theorem eagerFields_ext : (fs : FieldList) → (σ : St) → (etFields fs).Nodup → Ext (etFields fs) σ (eagerFields σ fs)
  | .nil, σ, _ => by
    have e : eagerFields σ .nil = σ := rfl
    rw [e]; simp only [etFields]; exact Ext.refl _ _
  | .cons f rest, σ, h => by
    rw [eagerFields_cons]
    simp only [etFields] at *
    exact Ext.seq (eagerF_ext f σ (nodup_left h)) (eagerFields_ext rest _ (nodup_right h)) h
theorem eagerV_ext : (v : Var) → (σ : St) → (etV v).Nodup → Ext (etV v) σ (eagerV σ v)
  | .name t, σ, _ => by simp only [eagerV, etV]; exact read_ext σ t true false
  | .expr _ p ss, σ, h => by
    simp only [eagerV, etV] at *
    exact Ext.seq (eagerP_ext p σ (nodup_left h)) (eagerSs_ext ss _ (nodup_right h)) h
end

theorem eagerPT_ext (p : Prefix) (σ : St) (h : (etP p).Nodup) : Ext (etP p) σ (eagerPT σ p) := by
  cases p with
  | name t => simp only [eagerPT, etP]; exact read_ext σ t true true
  | expr e => simp only [eagerPT, etP] at *; exact eagerE_ext e σ h

theorem eagerVT_ext (v : Var) (σ : St) (h : (etV v).Nodup) : Ext (etV v) σ (eagerVT σ v) := by
  cases v with
  | name t => simp only [eagerVT, etV]; exact read_ext σ t true true
  | expr _ p ss =>
    simp only [eagerVT, etV] at *
    exact Ext.seq (eagerPT_ext p σ (nodup_left h)) (eagerSs_ext ss _ (nodup_right h)) h


/-! ### what is read of an `until` condition after it has been walked -/
mutual
def rtE : Expr → List Nat
  | .paren _ e => rtE e
  | .un _ _ e => rtE e
  | .bin _ l _ r => rtE l ++ rtE r
  | .func _ _ _ => []
  | .call _ => []
  | .tbl _ fs => rtFs fs
  | .dots t => [t.idx]
  | .var (.name t) => [t.idx]
  | .var (.expr _ p _) => rtP p
  | .nil _ => []
  | .true_ _ => []
  | .false_ _ => []
  | .num _ => []
  | .str _ _ _ => []
  | .unsupported _ => []
def rtP : Prefix → List Nat
  | .name t => [t.idx]
  | .expr e => rtE e
def rtF : Field → List Nat
  | .exprKey _ k v => rtE k ++ rtE v
  | .nameKey _ _ v => rtE v
  | .noKey v => rtE v
  | .unsupported _ => []
def rtFs : FieldList → List Nat
  | .nil => []
  | .cons f rest => rtF f ++ rtFs rest
end

mutual
theorem restE_ext : (e : Expr) → (σ : St) → (rtE e).Nodup → Ext (rtE e) σ (restE σ e)
  | .paren _ e, σ, h => by simp only [restE, rtE] at *; exact restE_ext e σ h
  | .un _ _ e, σ, h => by simp only [restE, rtE] at *; exact restE_ext e σ h
  | .bin _ l _ r, σ, h => by
    simp only [restE, rtE] at *
    exact Ext.seq (restE_ext l σ (nodup_left h)) (restE_ext r _ (nodup_right h)) h
  | .func _ _ _, σ, _ => by simp only [restE, rtE]; exact Ext.refl _ _
  | .call _, σ, _ => by simp only [restE, rtE]; exact Ext.refl _ _
  | .tbl _ fs, σ, h => by simp only [restE, rtE] at *; exact restFields_ext fs σ h
  | .dots t, σ, _ => by simp only [restE, rtE]; exact read_ext σ t true false
  | .var (.name t), σ, _ => by simp only [restE, rtE]; exact read_ext σ t true false
  | .var (.expr _ p _), σ, h => by simp only [restE, rtE] at *; exact restP_ext p σ h
  | .nil _, σ, _ => by simp only [restE, rtE]; exact Ext.refl _ _
  | .true_ _, σ, _ => by simp only [restE, rtE]; exact Ext.refl _ _
  | .false_ _, σ, _ => by simp only [restE, rtE]; exact Ext.refl _ _
  | .num _, σ, _ => by simp only [restE, rtE]; exact Ext.refl _ _
  | .str _ _ _, σ, _ => by simp only [restE, rtE]; exact Ext.refl _ _
  | .unsupported _, σ, _ => by simp only [restE, rtE]; exact Ext.refl _ _
theorem restP_ext : (p : Prefix) → (σ : St) → (rtP p).Nodup → Ext (rtP p) σ (restP σ p)
  | .name t, σ, _ => by simp only [restP, rtP]; exact read_ext σ t true false
  | .expr e, σ, h => by simp only [restP, rtP] at *; exact restE_ext e σ h
theorem restF_ext : (f : Field) → (σ : St) → (rtF f).Nodup → Ext (rtF f) σ (restF σ f)
  | .exprKey _ k v, σ, h => by
    simp only [restF, rtF] at *
    exact Ext.seq (restE_ext k σ (nodup_left h)) (restE_ext v _ (nodup_right h)) h
  | .nameKey _ _ v, σ, h => by simp only [restF, rtF] at *; exact restE_ext v σ h
  | .noKey v, σ, h => by simp only [restF, rtF] at *; exact restE_ext v σ h
  | .unsupported _, σ, _ => by simp only [restF, rtF]; exact Ext.refl _ _
theorem restFields_ext : (fs : FieldList) → (σ : St) → (rtFs fs).Nodup → Ext (rtFs fs) σ (restFields σ fs)
  | .nil, σ, _ => by simp only [restFields, rtFs]; exact Ext.refl _ _
  | .cons f rest, σ, h => by
    simp only [restFields, rtFs] at *
    exact Ext.seq (restF_ext f σ (nodup_left h)) (restFields_ext rest _ (nodup_right h)) h
end

/-! ### the descent -/

/-- the reference token(s) of one assignment target, as `assignTargets` reaches them -/
def targetToks : Var → List Nat
  | .name n => [n.idx]
  | .expr sp p ss => etV (.expr sp p ss)

def optE (f : Expr → List Nat) : OptExpr → List Nat
  | .some e => f e
  | .none => []

mutual
def dtE : Expr → List Nat
  | .paren _ e => dtE e
  | .un _ _ e => dtE e
  | .bin _ l _ r => dtE l ++ dtE r
  | .func _ _ body => dtBody body
  | .call c => dtC c
  | .tbl _ fs => dtFields fs
  | .var v => dtV v
  | .dots _ => []
  | .nil _ => []
  | .true_ _ => []
  | .false_ _ => []
  | .num _ => []
  | .str _ _ _ => []
  | .unsupported _ => []
def dtEs : ExprList → List Nat
  | .nil => []
  | .cons e rest => dtE e ++ dtEs rest
def dtC : FCall → List Nat
  | .mk _ p ss => dtP p ++ dtSs ss
def dtP : Prefix → List Nat
  | .name _ => []
  | .expr e => dtE e
def dtSs : SuffixList → List Nat
  | .nil => []
  | .cons s rest => dtS s ++ dtSs rest
def dtS : Suffix → List Nat
  | .dot _ _ => []
  | .idx _ e => dtE e
  | .args _ a => dtA a
  | .meth _ _ a => dtA a
  | .unsupported _ => []
def dtA : Args → List Nat
  | .parens _ es => dtEs es
  | .tbl _ fs => dtFields fs
  | .str _ _ _ => []
def dtF : Field → List Nat
  | .exprKey _ k v => dtE k ++ dtE v
  | .nameKey _ _ v => dtE v
  | .noKey v => dtE v
  | .unsupported _ => []
def dtFields : FieldList → List Nat
  | .nil => []
  | .cons f rest => dtF f ++ dtFields rest
def dtV : Var → List Nat
  | .name _ => []
  | .expr _ p ss => dtP p ++ dtSs ss
def dtVs : VarList → List Nat
  | .nil => []
  | .cons v rest => dtV v ++ dtVs rest
/-- the walk of an `until` condition -/
def ttE : Expr → List Nat
  | .paren _ e => ttE e
  | .un _ _ e => ttE e
  | .bin _ l _ r => ttE l ++ ttE r
  | .func _ _ body => dtBody body
  | .call (.mk _ p ss) => etP p ++ (dtP p ++ stSs ss)
  | .tbl _ fs => ttFs fs
  | .var (.name _) => []
  | .var (.expr _ p ss) => ttP p ++ stSs ss
  | .nil _ => []
  | .true_ _ => []
  | .false_ _ => []
  | .dots _ => []
  | .num _ => []
  | .str _ _ _ => []
  | .unsupported _ => []
def ttP : Prefix → List Nat
  | .name _ => []
  | .expr e => ttE e
def ttF : Field → List Nat
  | .exprKey _ k v => ttE k ++ ttE v
  | .nameKey _ _ v => ttE v
  | .noKey v => ttE v
  | .unsupported _ => []
def ttFs : FieldList → List Nat
  | .nil => []
  | .cons f rest => ttF f ++ ttFs rest
/-- a call statement's suffixes: each is read, then entered -/
def stSs : SuffixList → List Nat
  | .nil => []
  | .cons s rest => (etS s ++ dtS s) ++ stSs rest
def dtBody : FuncBody → List Nat
  | .mk _ _ b => dtBlock b
def dtLast : LastStmt → List Nat
  | .ret _ es => etEs es ++ dtEs es
  | .none => []
  | .brk _ => []
def dtBlock : Block → List Nat
  | .mk _ stmts last => dtStmts stmts ++ dtLast last
def dtStmts : StmtList → List Nat
  | .nil => []
  | .cons s rest => dtStmt s ++ dtStmts rest
def dtElseifs : ElseIfList → List Nat
  | .nil => []
  | .cons (.mk _ c b) rest => (etE c ++ (dtE c ++ dtBlock b)) ++ dtElseifs rest
def dtOE : OptExpr → List Nat
  | .some e => dtE e
  | .none => []
def dtOptBlock : OptBlock → List Nat
  | .some b => dtBlock b
  | .none => []
def dtStmt : Stmt → List Nat
  | .assign _ vars es => atT vars es ++ (dtVs vars ++ dtEs es)
  | .localAssign _ _ es => etEs es ++ dtEs es
  | .call (.mk _ p ss) => etP p ++ (dtP p ++ stSs ss)
  | .do_ _ b => dtBlock b
  | .while_ _ c b => etE c ++ (dtE c ++ dtBlock b)
  | .repeat_ _ b c => dtBlock b ++ (ttE c ++ rtE c)
  | .if_ _ c b elifs els => etE c ++ (dtE c ++ (dtBlock b ++ (dtElseifs elifs ++ dtOptBlock els)))
  | .numFor _ _ _ start stop step b =>
    (etE start ++ (etE stop ++ optE etE step)) ++ ((dtE start ++ (dtE stop ++ dtOE step)) ++ dtBlock b)
  | .genFor _ _ es b => etEs es ++ (dtEs es ++ dtBlock b)
  | .func _ name body =>
    match name.names with
    | [] => []
    | base :: _ => [base.idx] ++ dtBody body
  | .localFunc _ _ body => dtBody body
  | .unsupported _ => []
/-- `assignTargets`: per target its paired expression, then the target -/
def atT : VarList → ExprList → List Nat
  | .nil, es => etEs es
  | .cons v rest, es =>
    (match es with | .cons e _ => etE e | .nil => []) ++
    (targetToks v ++
     atT rest (match es with | .cons _ es' => es' | .nil => .nil))
end


/-! ### declarations add no reference -/

theorem local_ext (T : List Nat) (σ : St) (t : Tok) : Ext T σ (σ.local_ t) := declare_ext T σ t t.text

theorem defineAll_ext (T : List Nat) : (ts : List Tok) → (σ : St) → Ext T σ (defineAll σ ts)
  | [], σ => by simp only [defineAll]; exact Ext.refl _ _
  | t :: rest, σ => by
    simp only [defineAll]
    exact Ext.nil_then (local_ext [] σ t) (defineAll_ext T rest _)

theorem defineParams_ext (T : List Nat) : (ps : List Param) → (σ : St) → Ext T σ (defineParams σ ps)
  | [], σ => by simp only [defineParams]; exact Ext.refl _ _
  | .name t :: rest, σ => by
    simp only [defineParams]
    exact Ext.nil_then (local_ext [] σ t) (defineParams_ext T rest _)
  | .dots t :: rest, σ => by
    simp only [defineParams]
    exact Ext.nil_then (Ext.of_eq (by simp)) (defineParams_ext T rest _)

/-! ### unfolding the functions with nested matches -/

def descF (σ : St) : Field → St
  | .exprKey _ k v => descE (descE σ k) v
  | .nameKey _ _ v => descE σ v
  | .noKey v => descE σ v
  | .unsupported _ => σ

theorem descFields_cons (σ : St) (f : Field) (rest : FieldList) :
    descFields σ (.cons f rest) = descFields (descF σ f) rest := by
  cases f <;> rfl

def lastStep (σ : St) : LastStmt → St
  | .ret _ es => descEs (eagerEs σ es) es
  | .none => σ
  | .brk _ => σ

theorem block_eq (σ : St) (sp : Option Span) (stmts : StmtList) (last : LastStmt) :
    block σ (.mk sp stmts last) = lastStep (stmts_ σ stmts) last := by
  cases last <;> rfl

theorem body_eq (σ : St) (sp : Span) (params : List Param) (b : Block) :
    body_ σ (.mk sp params b) =
      let σ₁ : St := { σ.open with fdepth := σ.fdepth + 1 }
      let σ₂ := defineParams (σ₁.define { name := "...", info := none }) params
      let σ₃ := (block σ₂ b).close
      { σ₃ with fdepth := σ₃.fdepth - 1 } := rfl

/-- one target of `assignTargets` -/
def targetStep (σ : St) : Var → St
  | .name n => σ.hoist n
  | .expr sp p ss => eagerVT σ (.expr sp p ss)

theorem assignTargets_cons_cons (σ : St) (v : Var) (rest : VarList) (e : Expr) (es : ExprList) :
    assignTargets σ (.cons v rest) (.cons e es) = assignTargets (targetStep (eagerE σ e) v) rest es := by
  cases v <;> rfl

theorem assignTargets_cons_nil (σ : St) (v : Var) (rest : VarList) :
    assignTargets σ (.cons v rest) .nil = assignTargets (targetStep σ v) rest .nil := by
  cases v <;> rfl

theorem targetStep_ext (v : Var) (σ : St) (h : (targetToks v).Nodup) : Ext (targetToks v) σ (targetStep σ v) := by
  cases v with
  | name n => exact hoist_ext σ n
  | expr sp p ss => exact eagerVT_ext _ σ h

def stepOE (f : St → Expr → St) (σ : St) : OptExpr → St
  | .some e => f σ e
  | .none => σ

theorem numFor_eq (σ : St) (sp : Span) (v c : Tok) (start stop : Expr) (step : OptExpr) (b : Block) :
    stmt σ (.numFor sp v c start stop step b) =
      (block ((stepOE descE (descE (descE (stepOE eagerE (eagerE (eagerE σ start) stop) step).open start) stop) step).local_ v).open b).close.close := by
  cases step <;> rfl

theorem if_eq (σ : St) (sp : Span) (c : Expr) (b : Block) (elifs : ElseIfList) (els : OptBlock) :
    stmt σ (.if_ sp c b elifs els) =
      (match els with
       | .some eb => (block (elseifs (block (descE (eagerE σ c).open c) b) elifs).close.open eb).close
       | .none => (elseifs (block (descE (eagerE σ c).open c) b) elifs).close) := by
  cases els <;> rfl

theorem elseifs_cons (σ : St) (sp : Span) (c : Expr) (b : Block) (rest : ElseIfList) :
    elseifs σ (.cons (.mk sp c b) rest) = elseifs (block (descE (eagerE σ.close c).open c) b) rest := rfl


/-! ### the descent extends the log over its own tokens -/

theorem wrap_open_close {T : List Nat} {σ σ' : St} (h : Ext T σ.open σ') : Ext T σ σ'.close :=
  Ext.right (Ext.left h (tokLog_open σ).symm) (tokLog_close _)

mutual
theorem descE_ext : (e : Expr) → (σ : St) → (dtE e).Nodup → Ext (dtE e) σ (descE σ e)
  | .paren _ e, σ, h => by simp only [descE, dtE] at *; exact descE_ext e σ h
  | .un _ _ e, σ, h => by simp only [descE, dtE] at *; exact descE_ext e σ h
  | .bin _ l _ r, σ, h => by
    simp only [descE, dtE] at *
    exact Ext.seq (descE_ext l σ (nodup_left h)) (descE_ext r _ (nodup_right h)) h
  | .func _ _ body, σ, h => by simp only [descE, dtE] at *; exact body_ext body σ h
  | .call c, σ, h => by simp only [descE, dtE] at *; exact descC_ext c σ h
  | .tbl _ fs, σ, h => by simp only [descE, dtE] at *; exact descFields_ext fs σ h
  | .var v, σ, h => by simp only [descE, dtE] at *; exact descV_ext v σ h
  | .dots _, σ, _ => by simp only [descE, dtE]; exact Ext.refl _ _
  | .nil _, σ, _ => by simp only [descE, dtE]; exact Ext.refl _ _
  | .true_ _, σ, _ => by simp only [descE, dtE]; exact Ext.refl _ _
  | .false_ _, σ, _ => by simp only [descE, dtE]; exact Ext.refl _ _
  | .num _, σ, _ => by simp only [descE, dtE]; exact Ext.refl _ _
  | .str _ _ _, σ, _ => by simp only [descE, dtE]; exact Ext.refl _ _
  | .unsupported _, σ, _ => by simp only [descE, dtE]; exact Ext.refl _ _
theorem descEs_ext : (es : ExprList) → (σ : St) → (dtEs es).Nodup → Ext (dtEs es) σ (descEs σ es)
  | .nil, σ, _ => by simp only [descEs, dtEs]; exact Ext.refl _ _
  | .cons e rest, σ, h => by
    simp only [descEs, dtEs] at *
    exact Ext.seq (descE_ext e σ (nodup_left h)) (descEs_ext rest _ (nodup_right h)) h
theorem descC_ext : (c : FCall) → (σ : St) → (dtC c).Nodup → Ext (dtC c) σ (descC σ c)
  | .mk _ p ss, σ, h => by
    simp only [descC, dtC] at *
    exact Ext.seq (descP_ext p σ (nodup_left h)) (descSs_ext ss _ (nodup_right h)) h
theorem descP_ext : (p : Prefix) → (σ : St) → (dtP p).Nodup → Ext (dtP p) σ (descP σ p)
  | .name _, σ, _ => by simp only [descP, dtP]; exact Ext.refl _ _
  | .expr e, σ, h => by simp only [descP, dtP] at *; exact descE_ext e σ h
theorem descSs_ext : (ss : SuffixList) → (σ : St) → (dtSs ss).Nodup → Ext (dtSs ss) σ (descSs σ ss)
  | .nil, σ, _ => by simp only [descSs, dtSs]; exact Ext.refl _ _
  | .cons s rest, σ, h => by
    simp only [descSs, dtSs] at *
    exact Ext.seq (descS_ext s σ (nodup_left h)) (descSs_ext rest _ (nodup_right h)) h
theorem descS_ext : (s : Suffix) → (σ : St) → (dtS s).Nodup → Ext (dtS s) σ (descS σ s)
  | .dot _ _, σ, _ => by simp only [descS, dtS]; exact Ext.refl _ _
  | .idx _ e, σ, h => by simp only [descS, dtS] at *; exact descE_ext e σ h
  | .args _ a, σ, h => by simp only [descS, dtS] at *; exact descA_ext a σ h
  | .meth _ _ a, σ, h => by simp only [descS, dtS] at *; exact descA_ext a σ h
  | .unsupported _, σ, _ => by simp only [descS, dtS]; exact Ext.refl _ _
theorem descA_ext : (a : Args) → (σ : St) → (dtA a).Nodup → Ext (dtA a) σ (descA σ a)
  | .parens _ es, σ, h => by simp only [descA, dtA] at *; exact descEs_ext es σ h
  | .tbl _ fs, σ, h => by simp only [descA, dtA] at *; exact descFields_ext fs σ h
  | .str _ _ _, σ, _ => by simp only [descA, dtA]; exact Ext.refl _ _
theorem descF_ext : (f : Field) → (σ : St) → (dtF f).Nodup → Ext (dtF f) σ (descF σ f)
  | .exprKey _ k v, σ, h => by
    simp only [descF, dtF] at *
    exact Ext.seq (descE_ext k σ (nodup_left h)) (descE_ext v _ (nodup_right h)) h
  | .nameKey _ _ v, σ, h => by simp only [descF, dtF] at *; exact descE_ext v σ h
  | .noKey v, σ, h => by simp only [descF, dtF] at *; exact descE_ext v σ h
  | .unsupported _, σ, _ => by simp only [descF, dtF]; exact Ext.refl _ _
theorem descFields_ext : (fs : FieldList) → (σ : St) → (dtFields fs).Nodup → Ext (dtFields fs) σ (descFields σ fs)
  | .nil, σ, _ => by
    have e : descFields σ .nil = σ := rfl
    rw [e]; simp only [dtFields]; exact Ext.refl _ _
  | .cons f rest, σ, h => by
    rw [descFields_cons]
    simp only [dtFields] at *
    exact Ext.seq (descF_ext f σ (nodup_left h)) (descFields_ext rest _ (nodup_right h)) h
theorem descV_ext : (v : Var) → (σ : St) → (dtV v).Nodup → Ext (dtV v) σ (descV σ v)
  | .name _, σ, _ => by simp only [descV, dtV]; exact Ext.refl _ _
  | .expr _ p ss, σ, h => by
    simp only [descV, dtV] at *
    exact Ext.seq (descP_ext p σ (nodup_left h)) (descSs_ext ss _ (nodup_right h)) h
theorem descVs_ext : (vs : VarList) → (σ : St) → (dtVs vs).Nodup → Ext (dtVs vs) σ (descVs σ vs)
  | .nil, σ, _ => by simp only [descVs, dtVs]; exact Ext.refl _ _
  | .cons v rest, σ, h => by
    simp only [descVs, dtVs] at *
    exact Ext.seq (descV_ext v σ (nodup_left h)) (descVs_ext rest _ (nodup_right h)) h
theorem stmtSs_ext : (ss : SuffixList) → (σ : St) → (stSs ss).Nodup → Ext (stSs ss) σ (stmtSs σ ss)
  | .nil, σ, _ => by simp only [stmtSs, stSs]; exact Ext.refl _ _
  | .cons s rest, σ, h => by
    simp only [stmtSs, stSs] at *
    have h1 := nodup_left h
    exact Ext.seq (Ext.seq (eagerS_ext s σ (nodup_left h1)) (descS_ext s _ (nodup_right h1)) h1)
      (stmtSs_ext rest _ (nodup_right h)) h
theorem topE_ext : (e : Expr) → (σ : St) → (ttE e).Nodup → Ext (ttE e) σ (topE σ e)
  | .paren _ e, σ, h => by simp only [topE, ttE] at *; exact topE_ext e σ h
  | .un _ _ e, σ, h => by simp only [topE, ttE] at *; exact topE_ext e σ h
  | .bin _ l _ r, σ, h => by
    simp only [topE, ttE] at *
    exact Ext.seq (topE_ext l σ (nodup_left h)) (topE_ext r _ (nodup_right h)) h
  | .func _ _ body, σ, h => by simp only [topE, ttE] at *; exact body_ext body σ h
  | .call (.mk _ p ss), σ, h => by
    simp only [topE, ttE] at *
    have h2 := nodup_right h
    exact Ext.seq (eagerP_ext p σ (nodup_left h))
      (Ext.seq (descP_ext p _ (nodup_left h2)) (stmtSs_ext ss _ (nodup_right h2)) h2) h
  | .tbl _ fs, σ, h => by simp only [topE, ttE] at *; exact topFields_ext fs σ h
  | .var (.name _), σ, _ => by simp only [topE, ttE]; exact Ext.refl _ _
  | .var (.expr _ p ss), σ, h => by
    simp only [topE, ttE] at *
    exact Ext.seq (topP_ext p σ (nodup_left h)) (stmtSs_ext ss _ (nodup_right h)) h
  | .nil _, σ, _ => by simp only [topE, ttE]; exact Ext.refl _ _
  | .true_ _, σ, _ => by simp only [topE, ttE]; exact Ext.refl _ _
  | .false_ _, σ, _ => by simp only [topE, ttE]; exact Ext.refl _ _
  | .dots _, σ, _ => by simp only [topE, ttE]; exact Ext.refl _ _
  | .num _, σ, _ => by simp only [topE, ttE]; exact Ext.refl _ _
  | .str _ _ _, σ, _ => by simp only [topE, ttE]; exact Ext.refl _ _
  | .unsupported _, σ, _ => by simp only [topE, ttE]; exact Ext.refl _ _
theorem topP_ext : (p : Prefix) → (σ : St) → (ttP p).Nodup → Ext (ttP p) σ (topP σ p)
  | .name _, σ, _ => by simp only [topP, ttP]; exact Ext.refl _ _
  | .expr e, σ, h => by simp only [topP, ttP] at *; exact topE_ext e σ h
theorem topF_ext : (f : Field) → (σ : St) → (ttF f).Nodup → Ext (ttF f) σ (topF σ f)
  | .exprKey _ k v, σ, h => by
    simp only [topF, ttF] at *
    exact Ext.seq (topE_ext k σ (nodup_left h)) (topE_ext v _ (nodup_right h)) h
  | .nameKey _ _ v, σ, h => by simp only [topF, ttF] at *; exact topE_ext v σ h
  | .noKey v, σ, h => by simp only [topF, ttF] at *; exact topE_ext v σ h
  | .unsupported _, σ, _ => by simp only [topF, ttF]; exact Ext.refl _ _
theorem topFields_ext : (fs : FieldList) → (σ : St) → (ttFs fs).Nodup → Ext (ttFs fs) σ (topFields σ fs)
  | .nil, σ, _ => by simp only [topFields, ttFs]; exact Ext.refl _ _
  | .cons f rest, σ, h => by
    simp only [topFields, ttFs] at *
    exact Ext.seq (topF_ext f σ (nodup_left h)) (topFields_ext rest _ (nodup_right h)) h
theorem body_ext : (body : FuncBody) → (σ : St) → (dtBody body).Nodup → Ext (dtBody body) σ (body_ σ body)
  | .mk sp params b, σ, h => by
    rw [body_eq]
    simp only [dtBody] at *
    have h1 : Ext [] σ (defineParams (({ σ.open with fdepth := σ.fdepth + 1 } : St).define { name := "...", info := none }) params) :=
      Ext.nil_then (Ext.of_eq (by simp)) (defineParams_ext [] params _)
    have h2 := Ext.nil_then h1 (block_ext b _ h)
    exact Ext.right h2 (by simp)
theorem lastStep_ext : (last : LastStmt) → (σ : St) → (dtLast last).Nodup → Ext (dtLast last) σ (lastStep σ last)
  | .ret _ es, σ, h => by
    simp only [lastStep, dtLast] at *
    exact Ext.seq (eagerEs_ext es σ (nodup_left h)) (descEs_ext es _ (nodup_right h)) h
  | .none, σ, _ => by simp only [lastStep, dtLast]; exact Ext.refl _ _
  | .brk _, σ, _ => by simp only [lastStep, dtLast]; exact Ext.refl _ _
theorem block_ext : (b : Block) → (σ : St) → (dtBlock b).Nodup → Ext (dtBlock b) σ (block σ b)
  | .mk sp stmts last, σ, h => by
    rw [block_eq]
    simp only [dtBlock] at *
    exact Ext.seq (stmts_ext stmts σ (nodup_left h)) (lastStep_ext last _ (nodup_right h)) h
theorem stmts_ext : (ss : StmtList) → (σ : St) → (dtStmts ss).Nodup → Ext (dtStmts ss) σ (stmts_ σ ss)
  | .nil, σ, _ => by simp only [stmts_, dtStmts]; exact Ext.refl _ _
  | .cons s rest, σ, h => by
    simp only [stmts_, dtStmts] at *
    exact Ext.seq (stmt_ext s σ (nodup_left h)) (stmts_ext rest _ (nodup_right h)) h
theorem assignTargets_ext : (vs : VarList) → (es : ExprList) → (σ : St) → (atT vs es).Nodup →
    Ext (atT vs es) σ (assignTargets σ vs es)
  | .nil, es, σ, h => by
    have e : assignTargets σ .nil es = eagerEs σ es := rfl
    rw [e]; simp only [atT] at *; exact eagerEs_ext es σ h
  | .cons v rest, .cons e es, σ, h => by
    rw [assignTargets_cons_cons]
    simp only [atT] at *
    have h2 := nodup_right h
    exact Ext.seq (eagerE_ext e σ (nodup_left h))
      (Ext.seq (targetStep_ext v _ (nodup_left h2)) (assignTargets_ext rest es _ (nodup_right h2)) h2) h
  | .cons v rest, .nil, σ, h => by
    rw [assignTargets_cons_nil]
    simp only [atT, List.nil_append] at *
    exact Ext.seq (targetStep_ext v σ (nodup_left h)) (assignTargets_ext rest .nil _ (nodup_right h)) h
theorem elseifs_ext : (es : ElseIfList) → (σ : St) → (dtElseifs es).Nodup → Ext (dtElseifs es) σ (elseifs σ es)
  | .nil, σ, _ => by simp only [elseifs, dtElseifs]; exact Ext.refl _ _
  | .cons (.mk sp c b) rest, σ, h => by
    rw [elseifs_cons]
    simp only [dtElseifs] at *
    have h1 := nodup_left h
    have h12 := nodup_right h1
    have a : Ext (etE c) σ (eagerE σ.close c).open :=
      Ext.right (Ext.left (eagerE_ext c σ.close (nodup_left h1)) (tokLog_close σ).symm) (tokLog_open _)
    have bq := Ext.seq (descE_ext c (eagerE σ.close c).open (nodup_left h12)) (block_ext b _ (nodup_right h12)) h12
    exact Ext.seq (Ext.seq a bq h1) (elseifs_ext rest _ (nodup_right h)) h
theorem stmt_ext : (s : Stmt) → (σ : St) → (dtStmt s).Nodup → Ext (dtStmt s) σ (stmt σ s)
  | .assign _ vars es, σ, h => by
    simp only [stmt, dtStmt] at *
    have h2 := nodup_right h
    exact Ext.seq (assignTargets_ext vars es σ (nodup_left h))
      (Ext.seq (descVs_ext vars _ (nodup_left h2)) (descEs_ext es _ (nodup_right h2)) h2) h
  | .localAssign _ names es, σ, h => by
    simp only [stmt, dtStmt] at *
    exact Ext.then_nil (Ext.seq (eagerEs_ext es σ (nodup_left h)) (descEs_ext es _ (nodup_right h)) h)
      (defineAll_ext [] names _)
  | .call (.mk _ p ss), σ, h => by
    simp only [stmt, dtStmt] at *
    have h2 := nodup_right h
    exact Ext.seq (eagerP_ext p σ (nodup_left h))
      (Ext.seq (descP_ext p _ (nodup_left h2)) (stmtSs_ext ss _ (nodup_right h2)) h2) h
  | .do_ _ b, σ, h => by
    simp only [stmt, dtStmt] at *
    exact wrap_open_close (block_ext b _ h)
  | .while_ _ c b, σ, h => by
    simp only [stmt, dtStmt] at *
    have h2 := nodup_right h
    have a : Ext (etE c) σ (eagerE σ c).open := Ext.right (eagerE_ext c σ (nodup_left h)) (tokLog_open _)
    exact Ext.right (Ext.seq a (Ext.seq (descE_ext c _ (nodup_left h2)) (block_ext b _ (nodup_right h2)) h2) h) (tokLog_close _)
  | .repeat_ _ b c, σ, h => by
    simp only [stmt, dtStmt] at *
    have h2 := nodup_right h
    have a : Ext (dtBlock b) σ (block σ.open b) := Ext.left (block_ext b σ.open (nodup_left h)) (tokLog_open σ).symm
    exact Ext.right (Ext.seq a (Ext.seq (topE_ext c _ (nodup_left h2)) (restE_ext c _ (nodup_right h2)) h2) h) (tokLog_close _)
  | .if_ sp c b elifs els, σ, h => by
    rw [if_eq]
    simp only [dtStmt] at *
    have h2 := nodup_right h
    have h3 := nodup_right h2
    have h4 := nodup_right h3
    have a : Ext (etE c) σ (eagerE σ c).open := Ext.right (eagerE_ext c σ (nodup_left h)) (tokLog_open _)
    have upto : Ext (etE c ++ (dtE c ++ (dtBlock b ++ dtElseifs elifs))) σ (elseifs (block (descE (eagerE σ c).open c) b) elifs) := by
      have h3' : (dtBlock b ++ dtElseifs elifs).Nodup := by
        have := h3; rw [← List.append_assoc] at this; exact nodup_left this
      have h2' : (dtE c ++ (dtBlock b ++ dtElseifs elifs)).Nodup := by
        have := h2; rw [← List.append_assoc, ← List.append_assoc] at this
        have := nodup_left this; rwa [List.append_assoc] at this
      have h1' : (etE c ++ (dtE c ++ (dtBlock b ++ dtElseifs elifs))).Nodup := by
        have := h; rw [← List.append_assoc, ← List.append_assoc, ← List.append_assoc] at this
        have := nodup_left this; rwa [List.append_assoc, List.append_assoc] at this
      exact Ext.seq a (Ext.seq (descE_ext c _ (nodup_left h2)) (Ext.seq (block_ext b _ (nodup_left h3)) (elseifs_ext elifs _ (nodup_left h4)) h3') h2') h1'
    cases els with
    | none =>
      simp only [dtOptBlock, List.append_nil] at *
      exact Ext.right upto (tokLog_close _)
    | some eb =>
      simp only [dtOptBlock] at *
      have hb : Ext (dtBlock eb) (elseifs (block (descE (eagerE σ c).open c) b) elifs) (block (elseifs (block (descE (eagerE σ c).open c) b) elifs).close.open eb).close :=
        Ext.right (Ext.left (block_ext eb _ (nodup_right h4)) (by simp)) (tokLog_close _)
      have := Ext.seq' upto hb (by
        intro t h1 h2'
        have hn := h
        rw [← List.append_assoc, ← List.append_assoc, ← List.append_assoc] at hn
        rw [← List.append_assoc, ← List.append_assoc] at h1
        exact (List.nodup_append.mp hn).2.2 t h1 t h2' rfl)
      simpa [List.append_assoc] using this
  | .numFor sp v cm start stop step b, σ, h => by
    rw [numFor_eq]
    simp only [dtStmt] at *
    have hE := nodup_left h
    have hD := nodup_right h
    have hD1 := nodup_left hD
    -- eager part
    have e1 : Ext (etE start ++ (etE stop ++ optE etE step)) σ (stepOE eagerE (eagerE (eagerE σ start) stop) step) := by
      have hE2 := nodup_right hE
      refine Ext.seq (eagerE_ext start σ (nodup_left hE)) (Ext.seq (eagerE_ext stop _ (nodup_left hE2)) ?_ hE2) hE
      cases step with
      | some e => exact eagerE_ext e _ (nodup_right hE2)
      | none => exact Ext.refl _ _
    -- descent of the control expressions
    have d1 : Ext (dtE start ++ (dtE stop ++ dtOE step)) (stepOE eagerE (eagerE (eagerE σ start) stop) step)
        (stepOE descE (descE (descE (stepOE eagerE (eagerE (eagerE σ start) stop) step).open start) stop) step) := by
      have hD2 := nodup_right hD1
      refine Ext.left (Ext.seq (descE_ext start _ (nodup_left hD1)) (Ext.seq (descE_ext stop _ (nodup_left hD2)) ?_ hD2) hD1) (tokLog_open _).symm
      cases step with
      | some e => exact descE_ext e _ (nodup_right hD2)
      | none => exact Ext.refl _ _
    have b1 : Ext (dtBlock b) (stepOE descE (descE (descE (stepOE eagerE (eagerE (eagerE σ start) stop) step).open start) stop) step)
        (block ((stepOE descE (descE (descE (stepOE eagerE (eagerE (eagerE σ start) stop) step).open start) stop) step).local_ v).open b).close.close :=
      Ext.right (Ext.nil_then (Ext.right (local_ext [] _ v) (tokLog_open _)) (block_ext b _ (nodup_right hD))) (by simp)
    exact Ext.seq e1 (Ext.seq d1 b1 hD) h
  | .genFor _ names es b, σ, h => by
    simp only [stmt, dtStmt] at *
    have h2 := nodup_right h
    have d : Ext (dtEs es) (eagerEs σ es) (defineAll (descEs (eagerEs σ es).open es) names) :=
      Ext.then_nil (Ext.left (descEs_ext es _ (nodup_left h2)) (by simp)) (defineAll_ext [] names _)
    exact Ext.right (Ext.seq (eagerEs_ext es σ (nodup_left h)) (Ext.seq d (block_ext b _ (nodup_right h2)) h2) h) (tokLog_close _)
  | .func _ name body, σ, h => by
    simp only [stmt, dtStmt] at *
    cases hn : name.names with
    | nil => simp only [hn]; exact Ext.refl _ _
    | cons base more =>
      simp only [hn] at h ⊢
      have hb := nodup_right h
      by_cases hl : (!more.isEmpty || name.method.isSome) = true
      · simp only [hl, if_true]
        cases hm : name.method with
        | some m =>
          simp only
          have bd : Ext (dtBody body) (σ.read base true true) (body_ ((σ.read base true true).open.declare m "self") body).close :=
            Ext.right (Ext.nil_then (Ext.left (declare_ext [] _ m "self") (by simp)) (body_ext body _ hb)) (tokLog_close _)
          exact Ext.seq (read_ext σ base true true) bd h
        | none =>
          simp only
          exact Ext.seq (read_ext σ base true true) (body_ext body _ hb) h
      · simp only [hl]
        have hm : name.method = none := by
          cases hmm : name.method with
          | none => rfl
          | some m => simp [hmm] at hl
        simp only [hm]
        exact Ext.seq (read_hoist_ext σ base) (body_ext body _ hb) h
  | .localFunc _ name body, σ, h => by
    simp only [stmt, dtStmt] at *
    exact Ext.right (Ext.nil_then (Ext.right (local_ext [] σ name) (tokLog_open _)) (body_ext body _ h)) (tokLog_close _)
  | .unsupported _, σ, _ => by simp only [stmt, dtStmt]; exact Ext.refl _ _
end

end Selene.Scope.Core
