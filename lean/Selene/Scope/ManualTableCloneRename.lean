/-
The syntactic half of `manual_table_clone` under a consistent renaming of identifiers: which loops have the shape
the lint looks for depends on three spellings only — `pairs`, `ipairs`, `next`.  A renaming that is injective and
leaves those three alone maps shaped loops to shaped loops and nothing else to one.
-/
import Selene.Scope.ManualTableClone
import Selene.Lua.Rename
namespace Selene.Scope.ManualTableClone
open Selene.Lua

/-- a renaming the property speaks about: consistent (injective) and away from the names the lint treats specially -/
structure Respectful (ρ : String → String) : Prop where
  inj : ∀ a b, ρ a = ρ b → a = b
  pairs : ρ "pairs" = "pairs"
  ipairs : ρ "ipairs" = "ipairs"
  next : ρ "next" = "next"

theorem Respectful.eq_pairs {ρ} (h : Respectful ρ) (n : String) : ρ n = "pairs" ↔ n = "pairs" :=
  ⟨fun e => h.inj _ _ (e.trans h.pairs.symm), fun e => e ▸ h.pairs⟩
theorem Respectful.eq_ipairs {ρ} (h : Respectful ρ) (n : String) : ρ n = "ipairs" ↔ n = "ipairs" :=
  ⟨fun e => h.inj _ _ (e.trans h.ipairs.symm), fun e => e ▸ h.ipairs⟩
theorem Respectful.eq_next {ρ} (h : Respectful ρ) (n : String) : ρ n = "next" ↔ n = "next" :=
  ⟨fun e => h.inj _ _ (e.trans h.next.symm), fun e => e ▸ h.next⟩

theorem exprList_toList_ren (ρ : String → String) : (es : ExprList) → (es.ren ρ).toList = es.toList.map (Expr.ren ρ)
  | .nil => by simp [ExprList.ren, ExprList.toList]
  | .cons e rest => by simp [ExprList.ren, ExprList.toList, exprList_toList_ren ρ rest]
theorem suffixList_toList_ren (ρ : String → String) : (ss : SuffixList) → (ss.ren ρ).toList = ss.toList.map (Suffix.ren ρ)
  | .nil => by simp [SuffixList.ren, SuffixList.toList]
  | .cons s rest => by simp [SuffixList.ren, SuffixList.toList, suffixList_toList_ren ρ rest]
theorem varList_toList_ren (ρ : String → String) : (vs : VarList) → (vs.ren ρ).toList = vs.toList.map (Var.ren ρ)
  | .nil => by simp [VarList.ren, VarList.toList]
  | .cons v rest => by simp [VarList.ren, VarList.toList, varList_toList_ren ρ rest]
theorem stmtList_toList_ren (ρ : String → String) : (l : StmtList) → (l.ren ρ).toList = l.toList.map (Stmt.ren ρ)
  | .nil => by simp [StmtList.ren, StmtList.toList]
  | .cons s rest => by simp [StmtList.ren, StmtList.toList, stmtList_toList_ren ρ rest]

theorem exprToIdent_ren (ρ : String → String) (e : Expr) : exprToIdent (e.ren ρ) = (exprToIdent e).map (Tok.ren ρ) := by
  cases e with
  | var v => cases v <;> simp [Expr.ren, Var.ren, exprToIdent]
  | _ => simp [Expr.ren, exprToIdent]

theorem stripParens_ren (ρ : String → String) : (e : Expr) → stripParens (e.ren ρ) = (stripParens e).ren ρ
  | .paren _ e => by simp only [Expr.ren, stripParens]; exact stripParens_ren ρ e
  | .nil _ | .true_ _ | .false_ _ | .dots _ | .num _ | .str _ _ _ | .func _ _ _ | .un _ _ _ | .bin _ _ _ _ | .tbl _ _
  | .var _ | .call _ | .unsupported _ => by simp [Expr.ren, stripParens]

theorem fnToken_ren (ρ : String → String) (p : Prefix) : fnToken (p.ren ρ) = (fnToken p).map (Tok.ren ρ) := by
  cases p with
  | name t => simp [Prefix.ren, fnToken]
  | expr e => simp [Prefix.ren, fnToken, exprToIdent_ren]

theorem onlyArgument_ren (ρ : String → String) (ss : SuffixList) : onlyArgument (ss.ren ρ) = (onlyArgument ss).map (Expr.ren ρ) := by
  unfold onlyArgument
  rw [suffixList_toList_ren]
  match h : ss.toList with
  | [] => simp
  | [s] =>
    cases s with
    | args sp a =>
      cases a with
      | parens sp2 args =>
        simp only [List.map_cons, List.map_nil, Suffix.ren, Args.ren, exprList_toList_ren]
        match args.toList with
        | [] => simp
        | [a] => simp
        | _ :: _ :: _ => simp
      | str t q l => simp [Suffix.ren, Args.ren]
      | tbl sp2 fs => simp [Suffix.ren, Args.ren]
    | dot sp n => simp [Suffix.ren]
    | idx sp e => simp [Suffix.ren]
    | meth sp n a => simp [Suffix.ren]
    | unsupported sp => simp [Suffix.ren]
  | _ :: _ :: _ => simp

theorem loopOfExpr_ren {ρ : String → String} (h : Respectful ρ) (e : Expr) :
    loopOfExpr (e.ren ρ) = (loopOfExpr e).map fun p => (p.1, p.2.ren ρ) := by
  unfold loopOfExpr
  rw [stripParens_ren]
  cases hs : stripParens e with
  | call c =>
    cases c with
    | mk sp p ss =>
      simp only [Expr.ren, FCall.ren, fnToken_ren]
      cases hf : fnToken p with
      | none => simp
      | some ft =>
        simp only [Option.map_some, Tok.ren, h.eq_ipairs, h.eq_pairs, onlyArgument_ren]
        by_cases hc : ft.text = "ipairs" ∨ ft.text = "pairs"
        · simp only [hc, ↓reduceIte, Option.map_map]
          cases onlyArgument ss <;> simp
        · simp [hc]
  | nil _ | true_ _ | false_ _ | dots _ | num _ | str _ _ _ | func _ _ _ | un _ _ _ | bin _ _ _ _ | tbl _ _
  | var _ | paren _ _ | unsupported _ => simp [Expr.ren]

/-- **which loops are clone-shaped does not depend on script-chosen spellings** -/
theorem loopExpression_ren {ρ : String → String} (h : Respectful ρ) (es : ExprList) :
    loopExpression (es.ren ρ) = (loopExpression es).map fun p => (p.1, p.2.ren ρ) := by
  unfold loopExpression
  rw [exprList_toList_ren]
  match es.toList with
  | [] => simp
  | [e] => simpa using loopOfExpr_ren h e
  | [first, second] =>
    simp only [List.map_cons, List.map_nil, exprToIdent_ren]
    cases exprToIdent first with
    | none => simp
    | some t =>
      simp only [Option.map_some, Tok.ren, h.eq_next]
      by_cases hn : t.text = "next" <;> simp [hn]
  | _ :: _ :: _ :: _ => simp

theorem indexedBy_ren {ρ : String → String} (h : Respectful ρ) (key : String) (v : Var) :
    indexedBy (ρ key) (v.ren ρ) = (indexedBy key v).map (Tok.ren ρ) := by
  cases v with
  | name t => simp [Var.ren, indexedBy]
  | expr sp p ss =>
    simp only [Var.ren, indexedBy, fnToken_ren, suffixList_toList_ren]
    cases fnToken p with
    | none => simp
    | some name =>
      match ss.toList with
      | [] => simp
      | [s] =>
        cases s with
        | idx sp2 ie =>
          simp only [Option.map_some, List.map_cons, List.map_nil, Suffix.ren, exprToIdent_ren, Option.map_map]
          cases exprToIdent ie with
          | none => simp
          | some t =>
            simp only [Option.map_some, Function.comp_apply, Tok.ren, Option.some.injEq]
            by_cases hk : t.text = key
            · simp [hk, Tok.ren]
            · have : ρ t.text ≠ ρ key := fun e => hk (h.inj _ _ e)
              simp [hk, this]
        | dot _ _ => simp [Suffix.ren]
        | args _ _ => simp [Suffix.ren]
        | meth _ _ _ => simp [Suffix.ren]
        | unsupported _ => simp [Suffix.ren]
      | _ :: _ :: _ => simp

theorem text_eq_ren {ρ : String → String} (h : Respectful ρ) (o : Option Tok) (value : String) :
    (Option.map ((fun x => x.text) ∘ Tok.ren ρ) o = some (ρ value)) ↔ (Option.map (fun x => x.text) o = some value) := by
  cases o with
  | none => simp
  | some t => simp only [Option.map_some, Function.comp_apply, Tok.ren, Option.some.injEq]; exact ⟨h.inj _ _, fun e => e ▸ rfl⟩

/-- **… nor does which table the body fills** -/
theorem assigningInto_ren {ρ : String → String} (h : Respectful ρ) (key value : String) (b : Block) :
    assigningInto (ρ key) (ρ value) (b.ren ρ) = (assigningInto key value b).map (Tok.ren ρ) := by
  cases b with
  | mk sp stmts last =>
    simp only [Block.ren, assigningInto, stmtList_toList_ren]
    match stmts.toList with
    | [] => simp
    | [s] =>
      cases s with
      | assign sp2 vars es =>
        simp only [List.map_cons, List.map_nil, Stmt.ren, varList_toList_ren, exprList_toList_ren]
        match vars.toList with
        | [] => simp
        | [var] =>
          simp only [List.map_cons, List.map_nil, indexedBy_ren h]
          cases indexedBy key var with
          | none => simp
          | some name =>
            simp only [Option.map_some, List.head?_map, Option.bind_map, Function.comp_def, exprToIdent_ren]
            cases es.toList.head? with
            | none => simp
            | some e =>
              simp only [Option.bind_some, Option.map_map, text_eq_ren h]
              by_cases hv : Option.map (fun x => x.text) (exprToIdent e) = some value <;> simp [hv]
        | _ :: _ :: _ => simp
      | localAssign _ _ _ | call _ | do_ _ _ | while_ _ _ _ | repeat_ _ _ _ | if_ _ _ _ _ _ | numFor _ _ _ _ _ _ _
      | genFor _ _ _ _ | func _ _ _ | localFunc _ _ _ | unsupported _ => simp [Stmt.ren]
    | _ :: _ :: _ => simp

/-- **The syntactic half of the lint commutes with respectful renamings**: the renamed loop has the shape exactly when the
original has, with the same loop type, the renamed loop expression and the renamed table. -/
theorem shape_ren {ρ : String → String} (h : Respectful ρ) (names : List Tok) (es : ExprList) (b : Block) :
    shape (names.map (Tok.ren ρ)) (es.ren ρ) (b.ren ρ) =
      (shape names es b).map fun p => (p.1, p.2.1.ren ρ, p.2.2.ren ρ) := by
  unfold shape
  rw [loopExpression_ren h]
  cases loopExpression es with
  | none => simp
  | some p =>
    obtain ⟨lt, over⟩ := p
    match names with
    | [] => simp
    | [_] => simp
    | [k, v] =>
      simp only [Option.map_some, List.map_cons, List.map_nil, Tok.ren, assigningInto_ren h, Option.map_map]
      cases assigningInto k.text v.text b <;> simp [Tok.ren]
    | _ :: _ :: _ :: _ => simp

end Selene.Scope.ManualTableClone
