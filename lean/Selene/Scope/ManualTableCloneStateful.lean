/-
The visitor of `manual_table_clone.rs` hook by hook: `visit_stmt` records the statement's start in `inside_stmt_begins`,
`visit_stmt_end` moves it to `completed_stmt_begins`, `visit_generic_for` reads both.  `ManualTableClone.run` replaces the
two sets by their characterisation in terms of statement spans (inside = the statements that contain the loop, completed =
those that end before it starts); this file keeps the sets as state, so that the two can be compared on every program
(`Driver/Clone.lean` requires `runStateful = run` besides agreement with the implementation).
-/
import Selene.Scope.ManualTableClone
namespace Selene.Scope.ManualTableClone
open Selene.Lua Selene.Scope

inductive Event where
  | enter (sp : Span)                                              -- `visit_stmt`
  | loop (sp : Span) (names : List Tok) (es : ExprList) (b : Block)  -- `visit_generic_for`
  | exit (sp : Span)                                               -- `visit_stmt_end`

mutual
def evExpr : Expr → List Event
  | .func _ _ body => evBody body
  | .paren _ e => evExpr e
  | .un _ _ e => evExpr e
  | .bin _ l _ r => evExpr l ++ evExpr r
  | .tbl _ fs => evFields fs
  | .var v => evVar v
  | .call c => evFCall c
  | .nil _ | .true_ _ | .false_ _ | .dots _ | .num _ | .str _ _ _ | .unsupported _ => []
def evExprs : ExprList → List Event
  | .nil => []
  | .cons e rest => evExpr e ++ evExprs rest
def evVar : Var → List Event
  | .name _ => []
  | .expr _ p ss => evPrefix p ++ evSuffixes ss
def evVars : VarList → List Event
  | .nil => []
  | .cons v rest => evVar v ++ evVars rest
def evPrefix : Prefix → List Event
  | .name _ => []
  | .expr e => evExpr e
def evSuffix : Suffix → List Event
  | .dot _ _ => []
  | .idx _ e => evExpr e
  | .args _ a => evArgs a
  | .meth _ _ a => evArgs a
  | .unsupported _ => []
def evSuffixes : SuffixList → List Event
  | .nil => []
  | .cons s rest => evSuffix s ++ evSuffixes rest
def evArgs : Args → List Event
  | .parens _ es => evExprs es
  | .str _ _ _ => []
  | .tbl _ fs => evFields fs
def evFCall : FCall → List Event
  | .mk _ p ss => evPrefix p ++ evSuffixes ss
def evField : Field → List Event
  | .exprKey _ k v => evExpr k ++ evExpr v
  | .nameKey _ _ v => evExpr v
  | .noKey v => evExpr v
  | .unsupported _ => []
def evFields : FieldList → List Event
  | .nil => []
  | .cons f rest => evField f ++ evFields rest
def evBody : FuncBody → List Event
  | .mk _ _ b => evBlock b
/-- what lies below a statement -/
def evStmt : Stmt → List Event
  | .assign _ vs es => evVars vs ++ evExprs es
  | .localAssign _ _ es => evExprs es
  | .call c => evFCall c
  | .do_ _ b => evBlock b
  | .while_ _ c b => evExpr c ++ evBlock b
  | .repeat_ _ b c => evBlock b ++ evExpr c
  | .if_ _ c b elifs els => evExpr c ++ (evBlock b ++ (evElseIfs elifs ++ evOptBlock els))
  | .numFor _ _ _ a e st b => evExpr a ++ (evExpr e ++ (evOptExpr st ++ evBlock b))
  | .genFor sp names es b => .loop sp names es b :: (evExprs es ++ evBlock b)
  | .func _ _ body => evBody body
  | .localFunc _ _ body => evBody body
  | .unsupported _ => []
def evStmts : StmtList → List Event
  | .nil => []
  | .cons s rest => (.enter (Selene.LintsB.stmtSpan s) :: (evStmt s ++ [.exit (Selene.LintsB.stmtSpan s)])) ++ evStmts rest
def evElseIf : ElseIf → List Event
  | .mk _ c b => evExpr c ++ evBlock b
def evElseIfs : ElseIfList → List Event
  | .nil => []
  | .cons e rest => evElseIf e ++ evElseIfs rest
def evOptBlock : OptBlock → List Event
  | .none => []
  | .some b => evBlock b
def evOptExpr : OptExpr → List Event
  | .none => []
  | .some e => evExpr e
def evLast : LastStmt → List Event
  | .none => []
  | .ret _ es => evExprs es
  | .brk _ => []
def evBlock : Block → List Event
  | .mk _ ss l => evStmts ss ++ evLast l
end

structure VSt where
  inside : List Nat := []          -- `inside_stmt_begins` (a set)
  completed : List Nat := []       -- `completed_stmt_begins`, in completion order
  found : List Match := []

/-- `visit_generic_for` with the two sets as the visitor holds them -/
def visitLoop (σ : St) (comments : List String) (v : VSt) (sp : Span) (names : List Tok) (es : ExprList) (b : Block) : Option Match :=
  match shape names es b with
  | none => none
  | some (loopType, over, into) =>
    match (refAtTok σ into.idx).bind (σ.refs[·]?) with
    | none => none
    | some r =>
      match r.resolved.bind (σ.vars[·]?) with
      | none => none
      | some var =>
        if var.staticTable ≠ some false then none
        else
          let def_ := var.defSpan
          let tainted := var.references.any fun rid =>
            match σ.refs[rid]? with
            | some r' => decide (def_.last < r'.ident) && decide (r'.ident < into.idx)
            | none => false
          if tainted then none
          else
            -- `get_depth_at_byte`
            let depthAt := fun (pos : Nat) => (v.inside.filter fun s => decide (s < pos)).length
            if depthAt def_.first ≠ depthAt sp.first then none
            else
              -- `statement_in_way_of_definition`: the loop over the completed statements, with both of its exits
              let rec inWay : List Nat → Bool
                | [] => false
                | s :: rest => if def_.last < s then true else if sp.first < s then false else inWay rest
              let onlyLoop := inWay v.completed || hasFilterComment comments
              some { range := if onlyLoop then sp else ⟨def_.first, sp.last⟩,
                     assigningInto := into.text, loopingOver := over.span, loopType,
                     replacesDefinition := if onlyLoop then some def_ else none }

def vstep (σ : St) (lc : Nat → List String) (v : VSt) : Event → VSt
  | .enter sp => { v with inside := if v.inside.contains sp.first then v.inside else sp.first :: v.inside }
  | .exit sp => { v with completed := v.completed ++ [sp.first], inside := v.inside.filter (· != sp.first) }
  | .loop sp names es b =>
    match visitLoop σ (lc sp.first) v sp names es b with
    | some m => { v with found := v.found ++ [m] }
    | none => v

def runStateful (enabled : Bool) (σ : St) (lc : Nat → List String) (b : Block) : List Match :=
  if !enabled then [] else ((evBlock b).foldl (vstep σ lc) {}).found

end Selene.Scope.ManualTableClone
