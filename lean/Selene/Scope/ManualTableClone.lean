/-
`manual_table_clone.rs`: a `for k, v in pairs(x) do t[k] = v end` loop that fills a fresh empty local table.

The lint is a `Visitor` over statements with two pieces of state — the starts of the statements it is inside of
and the starts of the statements it has left — and it reads the scope tables (which variable the assigned table
is, how it was initialised, which references it has).  Both pieces of state are functions of the program alone:
when the loop `G` is visited, the statements the visitor is inside of are those that contain `G`, and the ones it
has left are those that end before `G` starts.  The model therefore takes the list of all statements (in visit
order) instead of threading the two sets.

The only thing the lint asks the library is whether `table.clone` exists (`enabled`); the only trivia it reads is
the comments in front of the loop (a filter comment naming the lint changes the shape of the report).
-/
import Selene.Scope.Model
import Selene.Lints.TraverseB
import Selene.Filter.Machine
namespace Selene.Scope.ManualTableClone
open Selene.Lua Selene.Scope

inductive LoopType where
  | ipairs | other
deriving DecidableEq, Repr, Inhabited

/-- `strip_parentheses` -/
def stripParens : Expr → Expr
  | .paren _ e => stripParens e
  | e => e

/-- `expression_to_ident`: a bare name, not parenthesised -/
def exprToIdent : Expr → Option Tok
  | .var (.name t) => some t
  | _ => none

/-- the name a call is made through: `f(…)`; a parenthesised prefix is no name -/
def fnToken : Prefix → Option Tok
  | .name t => some t
  | .expr e => exprToIdent e

/-- the one argument of a call written `(a)`: exactly one suffix, an anonymous call with parentheses and one argument -/
def onlyArgument (ss : SuffixList) : Option Expr :=
  match ss.toList with
  | [.args _ (.parens _ args)] =>
    match args.toList with
    | [a] => some a
    | _ => none
  | _ => none

/-- one loop expression: `pairs(x)` / `ipairs(x)` loop over `x`; anything else (Luau's generalised iteration) over itself -/
def loopOfExpr (e : Expr) : Option (LoopType × Expr) :=
  match stripParens e with
  | .call (.mk _ p ss) =>
    match fnToken p with
    | none => none
    | some ft =>
      if ft.text = "ipairs" ∨ ft.text = "pairs" then
        (onlyArgument ss).map fun a => (if ft.text = "ipairs" then .ipairs else .other, a)
      else some (.other, e)
  | _ => some (.other, e)

/-- `loop_expression`: what is looped over, and whether through `ipairs` -/
def loopExpression (es : ExprList) : Option (LoopType × Expr) :=
  match es.toList with
  | [e] => loopOfExpr e
  | [first, second] =>
    match exprToIdent first with
    | some t => if t.text = "next" then some (.other, second) else none
    | none => none
  | _ => none

/-- the table a variable indexes with one bracketed name: `into[key]` -/
def indexedBy (key : String) : Var → Option Tok
  | .expr _ p ss =>
    match fnToken p, ss.toList with
    | some name, [.idx _ ie] => if (exprToIdent ie).map (·.text) = some key then some name else none
    | _, _ => none
  | .name _ => none

/-- the body `into[key] = value` (one statement; a trailing `return` / `break` is not a statement): the token of `into` -/
def assigningInto (key value : String) (b : Block) : Option Tok :=
  match b with
  | .mk _ stmts _ =>
    match stmts.toList with
    | [.assign _ vars es] =>
      match vars.toList with
      | [var] =>
        match indexedBy key var with
        | some name => if (es.toList.head?.bind exprToIdent).map (·.text) = some value then some name else none
        | none => none
      | _ => none
    | _ => none

structure Match where
  range : Span
  assigningInto : String
  loopingOver : Span                 -- the text reported is the tokens of this span, glued
  loopType : LoopType
  replacesDefinition : Option Span
deriving DecidableEq, Repr, Inhabited

/-- `has_filter_comment`: a comment in front of the loop that parses as a filter naming this lint (whatever it says to do) -/
def hasFilterComment (comments : List String) : Bool :=
  comments.any fun c =>
    match Selene.Filter.parseComment c.trimAscii.toString.toList with
    | some cfgs => cfgs.any fun f => f.lint = "manual_table_clone"
    | none => false

/-- the syntactic half of `visit_generic_for`: two loop variables, a loop expression of the recognised form and a body that
assigns the second variable into a table at the first: (how it loops, over what, into which table) -/
def shape (names : List Tok) (es : ExprList) (b : Block) : Option (LoopType × Expr × Tok) :=
  match loopExpression es, names with
  | some (loopType, over), [k, v] => (assigningInto k.text v.text b).map fun into => (loopType, over, into)
  | _, _ => none

/-- the other half, which reads the scope tables and the statements around the loop -/
def judge (σ : St) (stmts : List Span) (comments : List String) (sp : Span) (loopType : LoopType) (over : Expr) (into : Tok) : Option Match :=
  match (refAtTok σ into.idx).bind (σ.refs[·]?) with
  | none => none
  | some r =>
    match r.resolved.bind (σ.vars[·]?) with
    | none => none
    | some var =>
      if var.staticTable ≠ some false then none
      else
        let def_ := var.defSpan
        -- "make sure we haven't potentially tainted this variable before"
        let tainted := var.references.any fun rid =>
          match σ.refs[rid]? with
          | some r' => decide (def_.last < r'.ident) && decide (r'.ident < into.idx)
          | none => false
        if tainted then none
        else
          -- `get_depth_at_byte`: among the statements the visitor is inside of, those that start before the position
          let inside := stmts.filter fun s => decide (s.first ≤ sp.first) && decide (sp.last ≤ s.last)
          let depthAt := fun (pos : Nat) => (inside.filter fun s => decide (s.first < pos)).length
          if depthAt def_.first ≠ depthAt sp.first then none
          else
            -- `statement_in_way_of_definition`: a statement the visitor has left that starts after the definition
            let completed := stmts.filter fun s => decide (s.last < sp.first)
            let inWay := completed.any fun s => decide (def_.last < s.first)
            let onlyLoop := inWay || hasFilterComment comments
            some { range := if onlyLoop then sp else ⟨def_.first, sp.last⟩,
                   assigningInto := into.text, loopingOver := over.span, loopType,
                   replacesDefinition := if onlyLoop then some def_ else none }

/-- `visit_generic_for` on the loop `for names in es do b end` of span `sp`.  `stmts`: the spans of all statements of the
program; `comments`: those in front of the `for` -/
def visitGenericFor (σ : St) (stmts : List Span) (comments : List String)
    (sp : Span) (names : List Tok) (es : ExprList) (b : Block) : Option Match :=
  match shape names es b with
  | some (loopType, over, into) => judge σ stmts comments sp loopType over into
  | none => none

/-- the spans of all statements, in visit order -/
def stmtSpans (b : Block) : List Span :=
  (Selene.LintsB.nBlock b).filterMap fun n => match n with
    | .stmt s => some (Selene.LintsB.stmtSpan s)
    | _ => none

/-- `pass`: nothing unless the library has `table.clone`; otherwise one match per generic `for`, in visit order -/
def run (enabled : Bool) (σ : St) (leadingComments : Nat → List String) (b : Block) : List Match :=
  if !enabled then []
  else
    let stmts := stmtSpans b
    (Selene.LintsB.nBlock b).filterMap fun n => match n with
      | .stmt (.genFor sp names es body) => visitGenericFor σ stmts (leadingComments sp.first) sp names es body
      | _ => none

/-- `into_diagnostic`: the notes -/
def Match.notes (toks : List String) (m : Match) : List String :=
  ["try `local " ++ m.assigningInto.trimAscii.toString ++ " = table.clone(" ++ (Selene.LintsB.glue toks m.loopingOver).trimAscii.toString ++ ")`"] ++
  (if m.loopType = .ipairs then
    ["if this is a mixed table, then table.clone is not equivalent, as ipairs only goes over the array portion.\n" ++
     "ignore this lint with `-- selene: allow(manual_table_clone)` if this is the case."] else [])

/-! ### what a report means -/

theorem shape_some {names : List Tok} {es : ExprList} {b : Block} {lt : LoopType} {over : Expr} {into : Tok}
    (h : shape names es b = some (lt, over, into)) :
    ∃ k v, names = [k, v] ∧ loopExpression es = some (lt, over) ∧ assigningInto k.text v.text b = some into := by
  unfold shape at h
  split at h
  · rename_i _ _ lt' over' k v hl
    cases ha : assigningInto k.text v.text b with
    | none => simp [ha] at h
    | some into' =>
      simp only [ha, Option.map_some, Option.some.injEq, Prod.mk.injEq] at h
      obtain ⟨rfl, rfl, rfl⟩ := h
      exact ⟨k, v, rfl, hl, ha⟩
  · simp at h

theorem judge_some {σ : St} {stmts : List Span} {comments : List String} {sp : Span} {lt : LoopType} {over : Expr} {into : Tok} {m : Match}
    (h : judge σ stmts comments sp lt over into = some m) :
    ∃ r var, (refAtTok σ into.idx).bind (σ.refs[·]?) = some r ∧ r.resolved.bind (σ.vars[·]?) = some var ∧
      var.staticTable = some false ∧ m.assigningInto = into.text ∧ m.loopType = lt ∧ m.loopingOver = over.span ∧
      m.range.last = sp.last ∧ (m.range.first = sp.first ∨ m.range.first = var.defSpan.first) ∧
      (m.replacesDefinition = none ∨ m.replacesDefinition = some var.defSpan) := by
  unfold judge at h
  split at h
  · simp at h
  · rename_i r hr
    split at h
    · simp at h
    · rename_i var hvar
      split at h
      · simp at h
      · rename_i hst
        dsimp only at h
        split at h
        · simp at h
        · split at h
          · simp at h
          · simp only [Option.some.injEq] at h
            refine ⟨r, var, hr, hvar, by simpa using hst, ?_, ?_, ?_, ?_, ?_, ?_⟩
            · rw [← h]
            · rw [← h]
            · rw [← h]
            · rw [← h]; simp only; split <;> rfl
            · rw [← h]; simp only; split
              · exact Or.inl rfl
              · exact Or.inr rfl
            · rw [← h]; simp only; split
              · exact Or.inr rfl
              · exact Or.inl rfl

/-- **Every report is about a loop of the documented shape.**  A match comes from a generic `for` statement of the
program with exactly two loop variables whose body's only statement assigns the second variable into a table at
the first, where the table is a script-declared local initialised with an empty table constructor, and the report's
range ends with the loop. -/
theorem run_sound (enabled : Bool) (σ : St) (lc : Nat → List String) (b : Block) (m : Match) (h : m ∈ run enabled σ lc b) :
    enabled = true ∧
    ∃ sp names es body k v over into r var,
      Selene.LintsB.Node.stmt (.genFor sp names es body) ∈ Selene.LintsB.nBlock b ∧
      names = [k, v] ∧ loopExpression es = some (m.loopType, over) ∧ assigningInto k.text v.text body = some into ∧
      (refAtTok σ into.idx).bind (σ.refs[·]?) = some r ∧ r.resolved.bind (σ.vars[·]?) = some var ∧
      var.staticTable = some false ∧
      m.assigningInto = into.text ∧ m.loopingOver = over.span ∧ m.range.last = sp.last ∧
      (m.range.first = sp.first ∨ m.range.first = var.defSpan.first) := by
  unfold run at h
  cases enabled with
  | false => simp at h
  | true =>
    refine ⟨rfl, ?_⟩
    simp only [Bool.not_true, Bool.false_eq_true, ↓reduceIte, List.mem_filterMap] at h
    obtain ⟨n, hn, hm⟩ := h
    match n, hn, hm with
    | .stmt (.genFor sp names es body), hn, hm =>
      simp only at hm
      unfold visitGenericFor at hm
      split at hm
      · rename_i lt over into hsh
        obtain ⟨k, v, hnames, hl, ha⟩ := shape_some hsh
        obtain ⟨r, var, hr, hvar, hst, h1, h2, h3, h4, h5, _⟩ := judge_some hm
        exact ⟨sp, names, es, body, k, v, over, into, r, var, hn, hnames, h2 ▸ hl, ha, hr, hvar, hst, h1, h3, h4, h5⟩
      · simp at hm

end Selene.Scope.ManualTableClone
