/-
Invariants of the scope-stack machine that concern *hoisting* (`try_hoist`): which reads end up
resolved to a global the file assigns.  They are carried through the traversal by `CoreProof`
(field `safe` of `Pure` / `Grow`) and used by `Props/C01.lean` for the two directions of the
`undefined_variable` property:

* `Inv.hoist` — while a hoisted entry for `n` is on the stack, no read of `n` in the log is unresolved;
* `Good n`    — once `n` has an entry on the stack and no read of `n` is unresolved, this stays so for as
                long as the entry's scope is open (so: for the rest of the file, for the outermost scope);
* `Inv.noh`   — a name none of whose plain-name writes met "no local" is never hoisted.
-/
import Selene.Scope.Core
namespace Selene.Scope.Safe
open Selene.Lua Selene.Scope.Core

/-- every entry without a variable is a `...` barrier -/
def BarrierOK (st : Stack) : Prop := ∀ s ∈ st, ∀ e ∈ s, e.info = none → e.name = "..."

def OnStack (n : String) (st : Stack) : Prop := ∃ s ∈ st, ∃ e ∈ s, e.name = n

def HoistOn (n : String) (st : Stack) : Prop := ∃ s ∈ st, ∃ e ∈ s, e.name = n ∧ ∃ d, e.info = some (d, true)

/-- no read of `n` is unresolved -/
def Resolved (n : String) (refs : List Ref) : Prop :=
  ∀ r ∈ refs, r.name = n → r.decl = false → r.write = false → r.resolved ≠ none

/-- the read `function f … end` makes of `f` is resolved -/
def UOK (refs : List Ref) : Prop :=
  ∀ r ∈ refs, r.decl = false → r.write = false → r.expr = false → r.resolved ≠ none

/-- `n` was never hoisted -/
def NoHoist (n : String) (σ : St) : Prop :=
  ¬ HoistOn n σ.stack ∧ ∀ r ∈ σ.refs, r.name = n → ∀ d, r.resolved ≠ some (d, true)

/-- every recorded plain-name write of `n` met a local declaration -/
def LocalWrites (n : String) (refs : List Ref) : Prop :=
  ∀ r ∈ refs, r.write = true → r.name = n → (localOf r.resolved).isSome = true

/-- how the flags of a log entry hang together: a read counts iff it is in an expression position; a
    write is no declaration and counts iff it met no local -/
def RefShape (refs : List Ref) : Prop :=
  ∀ r ∈ refs, (r.decl = false → r.write = false → r.counted = r.expr) ∧
              (r.write = true → r.decl = false ∧ r.counted = (localOf r.resolved).isNone)

structure Inv (σ : St) : Prop where
  bar : BarrierOK σ.stack
  hoist : ∀ n, n ≠ "..." → HoistOn n σ.stack → Resolved n σ.refs
  uok : UOK σ.refs
  noh : ∀ n, LocalWrites n σ.refs → NoHoist n σ
  shape : RefShape σ.refs

def Good (n : String) (σ : St) : Prop := OnStack n σ.stack ∧ Resolved n σ.refs

structure Step (σ σ' : St) : Prop where
  inv : Inv σ → Inv σ'
  good : ∀ n, n ≠ "..." → Inv σ → Good n σ → Good n σ'

theorem Step.refl (σ : St) : Step σ σ := ⟨id, fun _ _ _ g => g⟩

theorem Step.trans {σ₁ σ₂ σ₃ : St} (h₁ : Step σ₁ σ₂) (h₂ : Step σ₂ σ₃) : Step σ₁ σ₃ :=
  ⟨fun i => h₂.inv (h₁.inv i), fun n hn i g => h₂.good n hn (h₁.inv i) (h₁.good n hn i g)⟩

/-! ### lookups -/

theorem scopeFind_some {s : Scope} {n : String} {e : Entry} (h : scopeFind s n = some e) : e ∈ s ∧ e.name = n := by
  unfold scopeFind at h
  exact ⟨List.mem_of_find?_eq_some h, by simpa using List.find?_some h⟩

theorem scopeFind_none {s : Scope} {n : String} (h : scopeFind s n = none) : ∀ e ∈ s, e.name ≠ n := by
  unfold scopeFind at h
  intro e he
  have := List.find?_eq_none.mp h e he
  simpa using this

theorem stackFind_isSome (st : Stack) (n : String) (hb : BarrierOK st) (hn : n ≠ "...") (ho : OnStack n st) :
    stackFind st n ≠ none := by
  induction st with
  | nil => obtain ⟨s, hs, _⟩ := ho; cases hs
  | cons s rest ih =>
    unfold stackFind
    cases hf : scopeFind s n with
    | some e =>
      obtain ⟨he, hen⟩ := scopeFind_some hf
      intro hnone
      exact hn (hen ▸ hb s (by simp) e he hnone)
    | none =>
      simp only
      apply ih (fun s' hs' => hb s' (by simp [hs']))
      obtain ⟨s', hs', e, he, hen⟩ := ho
      rcases List.mem_cons.mp hs' with h | h
      · subst h; exact absurd hen (scopeFind_none hf e he)
      · exact ⟨s', h, e, he, hen⟩

theorem stackFind_hoisted (st : Stack) (n : String) (d : Nat) (h : stackFind st n = some (d, true)) : HoistOn n st := by
  induction st with
  | nil => simp [stackFind] at h
  | cons s rest ih =>
    unfold stackFind at h
    cases hf : scopeFind s n with
    | some e =>
      rw [hf] at h
      obtain ⟨he, hen⟩ := scopeFind_some hf
      exact ⟨s, by simp, e, he, hen, d, h⟩
    | none =>
      rw [hf] at h
      obtain ⟨s', hs', x⟩ := ih h
      exact ⟨s', by simp [hs'], x⟩

/-! ### stack edits -/

theorem barrierOK_cons_scope {s : Scope} {st : Stack} (h : BarrierOK (s :: st)) : BarrierOK st :=
  fun s' hs' => h s' (by simp [hs'])

theorem define_stack (σ : St) (e : Entry) (ne : σ.stack ≠ []) :
    ∃ hd tl, σ.stack = hd :: tl ∧ (σ.define e).stack = (e :: hd) :: tl ∧ (σ.define e).refs = σ.refs := by
  cases hs : σ.stack with
  | nil => exact absurd hs ne
  | cons hd tl => exact ⟨hd, tl, rfl, by simp [St.define, hs], by simp [St.define, hs]⟩

theorem onStack_define {n : String} {e : Entry} {hd : Scope} {tl : Stack} (h : OnStack n (hd :: tl)) :
    OnStack n ((e :: hd) :: tl) := by
  obtain ⟨s, hs, x, hx, hxn⟩ := h
  rcases List.mem_cons.mp hs with h1 | h1
  · subst h1; exact ⟨e :: s, by simp, x, by simp [hx], hxn⟩
  · exact ⟨s, by simp [h1], x, hx, hxn⟩

theorem hoistOn_define {n : String} {e : Entry} {hd : Scope} {tl : Stack}
    (he : ¬ (e.name = n ∧ ∃ d, e.info = some (d, true))) :
    HoistOn n ((e :: hd) :: tl) ↔ HoistOn n (hd :: tl) := by
  constructor
  · rintro ⟨s, hs, x, hx, hxn, hxi⟩
    rcases List.mem_cons.mp hs with h1 | h1
    · subst h1
      rcases List.mem_cons.mp hx with h2 | h2
      · subst h2; exact absurd ⟨hxn, hxi⟩ he
      · exact ⟨hd, by simp, x, h2, hxn, hxi⟩
    · exact ⟨s, by simp [h1], x, hx, hxn, hxi⟩
  · rintro ⟨s, hs, x, hx, hxn, hxi⟩
    rcases List.mem_cons.mp hs with h1 | h1
    · subst h1; exact ⟨e :: s, by simp, x, by simp [hx], hxn, hxi⟩
    · exact ⟨s, by simp [h1], x, hx, hxn, hxi⟩

/-- defining an entry that is not a hoisted global: a local, a parameter, `...`, or the barrier -/
theorem define_step (σ : St) (e : Entry) (ne : σ.stack ≠ [])
    (hbar : e.info = none → e.name = "...") (hnh : ∀ d, e.info ≠ some (d, true)) : Step σ (σ.define e) := by
  obtain ⟨hd, tl, e1, e2, e3⟩ := define_stack σ e ne
  have hho : ∀ n, HoistOn n (σ.define e).stack ↔ HoistOn n σ.stack := by
    intro n; rw [e2, e1]; exact hoistOn_define (fun ⟨_, d, hd'⟩ => hnh d hd')
  refine ⟨fun i => ⟨?_, ?_, ?_, ?_, ?_⟩, ?_⟩
  · rw [e2]
    intro s hs x hx hxi
    rcases List.mem_cons.mp hs with h1 | h1
    · subst h1
      rcases List.mem_cons.mp hx with h2 | h2
      · subst h2; exact hbar hxi
      · exact i.bar hd (by rw [e1]; simp) x h2 hxi
    · exact i.bar s (by rw [e1]; simp [h1]) x hx hxi
  · intro n hn hh; rw [e3]; exact i.hoist n hn ((hho n).mp hh)
  · rw [e3]; exact i.uok
  · intro n hl
    rw [e3] at hl
    obtain ⟨a, b⟩ := i.noh n hl
    exact ⟨fun hh => a ((hho n).mp hh), by rw [e3]; exact b⟩
  · rw [e3]; exact i.shape
  · intro n _ _ g
    exact ⟨by rw [e2]; exact onStack_define (e1 ▸ g.1), by rw [e3]; exact g.2⟩

theorem open_step (σ : St) : Step σ σ.open := by
  have hho : ∀ n, HoistOn n σ.open.stack ↔ HoistOn n σ.stack := by
    intro n
    constructor
    · rintro ⟨s, hs, x, hx, r⟩
      rcases List.mem_cons.mp hs with h1 | h1
      · subst h1; cases hx
      · exact ⟨s, h1, x, hx, r⟩
    · rintro ⟨s, hs, r⟩; exact ⟨s, by simp [St.open, hs], r⟩
  refine ⟨fun i => ⟨?_, ?_, i.uok, ?_, i.shape⟩, ?_⟩
  · intro s hs x hx hxi
    rcases List.mem_cons.mp hs with h1 | h1
    · subst h1; cases hx
    · exact i.bar s h1 x hx hxi
  · intro n hn hh; exact i.hoist n hn ((hho n).mp hh)
  · intro n hl
    obtain ⟨a, b⟩ := i.noh n hl
    exact ⟨fun hh => a ((hho n).mp hh), b⟩
  · rintro n _ _ ⟨⟨s, hs, r⟩, g2⟩
    exact ⟨⟨s, by simp [St.open, hs], r⟩, g2⟩

/-- closing a scope keeps the invariant (what is on the stack shrinks, the log is untouched) -/
theorem close_inv (σ : St) (i : Inv σ) : Inv σ.close := by
  have sub : ∀ s, s ∈ σ.close.stack → s ∈ σ.stack := fun s hs => List.mem_of_mem_tail hs
  have hho : ∀ n, HoistOn n σ.close.stack → HoistOn n σ.stack := by
    rintro n ⟨s, hs, r⟩; exact ⟨s, sub s hs, r⟩
  exact ⟨fun s hs => i.bar s (sub s hs), fun n hn hh => i.hoist n hn (hho n hh), i.uok,
    fun n hl => ⟨fun hh => (i.noh n hl).1 (hho n hh), (i.noh n hl).2⟩, i.shape⟩

/-- the depth counter is no part of the invariants -/
theorem fdepth_step (σ : St) (k : Nat) : Step σ { σ with fdepth := k } :=
  ⟨fun i => ⟨i.bar, i.hoist, i.uok, i.noh, i.shape⟩, fun _ _ _ g => g⟩

/-! ### log edits -/

theorem push_refs_inv (σ : St) (r : Ref) (i : Inv σ)
    (hres : r.decl = false → r.write = false → (r.expr = false ∨ ∃ n, n ≠ "..." ∧ r.name = n ∧ HoistOn n σ.stack) → r.resolved ≠ none)
    (hnoh : ∀ n, r.name = n → LocalWrites n (σ.refs ++ [r]) → ∀ d, r.resolved ≠ some (d, true))
    (hshape : (r.decl = false → r.write = false → r.counted = r.expr) ∧
              (r.write = true → r.decl = false ∧ r.counted = (localOf r.resolved).isNone)) :
    Inv { σ with refs := σ.refs ++ [r] } := by
  refine ⟨i.bar, ?_, ?_, ?_, ?_⟩
  rotate_left 3
  · intro x hx
    rcases List.mem_append.mp hx with h | h
    · exact i.shape x h
    · simp only [List.mem_singleton] at h; subst h; exact hshape
  · intro n hn hh x hx hxn hxd hxw
    rcases List.mem_append.mp hx with h | h
    · exact i.hoist n hn hh x h hxn hxd hxw
    · simp only [List.mem_singleton] at h; subst h
      exact hres hxd hxw (Or.inr ⟨n, hn, hxn, hh⟩)
  · intro x hx hxd hxw hxe
    rcases List.mem_append.mp hx with h | h
    · exact i.uok x h hxd hxw hxe
    · simp only [List.mem_singleton] at h; subst h
      exact hres hxd hxw (Or.inl hxe)
  · intro n hl
    have hl' : LocalWrites n σ.refs := fun x hx => hl x (by simp [hx])
    obtain ⟨a, b⟩ := i.noh n hl'
    refine ⟨a, ?_⟩
    intro x hx hxn d
    rcases List.mem_append.mp hx with h | h
    · exact b x h hxn d
    · simp only [List.mem_singleton] at h; subst h
      exact hnoh n hxn hl d

/-- a read in an expression position -/
theorem read_step (σ : St) (t : Tok) (root : Bool := false) : Step σ (σ.read t true root) := by
  unfold St.read
  split
  · exact Step.refl σ
  · refine ⟨fun i => push_refs_inv σ _ i ?_ ?_ ⟨fun _ _ => rfl, fun h => by simp at h⟩, ?_⟩
    · intro _ _ h
      rcases h with h | ⟨n, hn, hrn, hh⟩
      · simp at h
      · simp only at hrn
        obtain ⟨s, hs, e, he, hen, _⟩ := hh
        exact hrn ▸ stackFind_isSome σ.stack n i.bar hn ⟨s, hs, e, he, hen⟩
    · intro n hrn hl d hd
      simp only at hrn hd
      have hl' : LocalWrites n σ.refs := fun x hx => hl x (by simp [hx])
      exact (i.noh n hl').1 (hrn ▸ stackFind_hoisted σ.stack t.text d hd)
    · intro n hn i g
      refine ⟨g.1, ?_⟩
      intro x hx hxn hxd hxw
      rcases List.mem_append.mp hx with h | h
      · exact g.2 x h hxn hxd hxw
      · simp only [List.mem_singleton] at h; subst h
        simp only at hxn
        exact hxn ▸ stackFind_isSome σ.stack n i.bar hn g.1

/-- recording a declaration -/
theorem logDecl_step (σ : St) (t : Tok) (name : String) : Step σ (σ.logDecl t name) := by
  unfold St.logDecl
  refine ⟨fun i => push_refs_inv σ _ i (fun h => by simp at h) ?_ ⟨fun h => by simp at h, fun h => by simp at h⟩, ?_⟩
  · intro n hrn hl d hd
    simp only at hrn hd
    have hl' : LocalWrites n σ.refs := fun x hx => hl x (by simp [hx])
    exact (i.noh n hl').1 (hrn ▸ stackFind_hoisted σ.stack name d hd)
  · intro n _ _ g
    refine ⟨g.1, ?_⟩
    intro x hx hxn hxd hxw
    rcases List.mem_append.mp hx with h | h
    · exact g.2 x h hxn hxd hxw
    · simp only [List.mem_singleton] at h; subst h
      simp at hxd

theorem declare_step (σ : St) (t : Tok) (name : String) (ne : σ.stack ≠ []) : Step σ (σ.declare t name) :=
  (logDecl_step σ t name).trans
    (define_step _ _ (by simpa [St.logDecl] using ne) (by simp) (by simp))

/-! ### hoisting -/

theorem rewrite_name (name : String) (v : Nat × Bool) (r : Ref) : (rewrite name v r).name = r.name := by
  unfold rewrite; split <;> rfl
theorem rewrite_decl (name : String) (v : Nat × Bool) (r : Ref) : (rewrite name v r).decl = r.decl := by
  unfold rewrite; split <;> rfl
theorem rewrite_write (name : String) (v : Nat × Bool) (r : Ref) : (rewrite name v r).write = r.write := by
  unfold rewrite; split <;> rfl
theorem rewrite_expr (name : String) (v : Nat × Bool) (r : Ref) : (rewrite name v r).expr = r.expr := by
  unfold rewrite; split <;> rfl
theorem rewrite_other (name : String) (v : Nat × Bool) (r : Ref) (h : r.name ≠ name) : rewrite name v r = r := by
  unfold rewrite; simp [h]
theorem rewrite_writeRef (name : String) (v : Nat × Bool) (r : Ref) (h : r.write = true) : rewrite name v r = r := by
  unfold rewrite; simp [h]
theorem rewrite_resolved_ne (name : String) (v : Nat × Bool) (r : Ref) (h : r.resolved ≠ none) :
    (rewrite name v r).resolved ≠ none := by
  unfold rewrite; split
  · simp
  · exact h
theorem rewrite_resolves (name : String) (v : Nat × Bool) (r : Ref) (hn : r.name = name) (hd : r.decl = false)
    (hw : r.write = false) : (rewrite name v r).resolved ≠ none := by
  unfold rewrite
  by_cases h : r.resolved = none
  · simp [hn, h, hd, hw]
  · split
    · simp
    · exact h

/-- what `logWrite` does to the invariants -/
theorem logWrite_step (σ : St) (t : Tok) : Step σ (σ.logWrite t) := by
  unfold St.logWrite
  refine ⟨fun i => push_refs_inv σ _ i (fun _ h => by simp at h) ?_ ⟨fun _ h => by simp at h, fun _ => ⟨rfl, rfl⟩⟩, ?_⟩
  · intro n hrn hl d hd
    simp only at hrn hd
    have hl' : LocalWrites n σ.refs := fun x hx => hl x (by simp [hx])
    exact (i.noh n hl').1 (hrn ▸ stackFind_hoisted σ.stack t.text d hd)
  · intro n _ _ g
    refine ⟨g.1, ?_⟩
    intro x hx hxn hxd hxw
    rcases List.mem_append.mp hx with h | h
    · exact g.2 x h hxn hxd hxw
    · simp only [List.mem_singleton] at h; subst h
      simp at hxw

/-- the invariant, except that reads outside expression positions of the one name `m` may still be
    unresolved (the state between the read and the write of `function m … end`) -/
structure InvX (m : String) (σ : St) : Prop where
  bar : BarrierOK σ.stack
  hoist : ∀ n, n ≠ "..." → HoistOn n σ.stack → Resolved n σ.refs
  uokx : ∀ r ∈ σ.refs, r.decl = false → r.write = false → r.expr = false → r.resolved ≠ none ∨ r.name = m
  noh : ∀ n, LocalWrites n σ.refs → NoHoist n σ
  shape : RefShape σ.refs

theorem Inv.toX {σ : St} (i : Inv σ) (m : String) : InvX m σ :=
  ⟨i.bar, i.hoist, fun r hr a b c => Or.inl (i.uok r hr a b c), i.noh, i.shape⟩

section HoistDefine
variable (σ : St) (t : Tok) (ne : σ.stack ≠ [])

/-- the state after the hoisting branch: the name is found nowhere, a global is defined and every
    earlier unresolved read of the name is resolved to it -/
def hoisted : St :=
  let σ' := σ.define { name := t.text, info := some (t.idx, true) }
  { σ' with refs := σ'.refs.map (rewrite t.text (t.idx, true)) }

include ne in
theorem hoisted_facts :
    ∃ hd tl, σ.stack = hd :: tl ∧ (hoisted σ t).stack = ({ name := t.text, info := some (t.idx, true) } :: hd) :: tl ∧
      (hoisted σ t).refs = σ.refs.map (rewrite t.text (t.idx, true)) := by
  obtain ⟨hd, tl, e1, e2, e3⟩ := define_stack σ { name := t.text, info := some (t.idx, true) } ne
  exact ⟨hd, tl, e1, e2, by show List.map _ (σ.define _).refs = _; rw [e3]⟩

theorem hoisted_fdepth : (hoisted σ t).fdepth = σ.fdepth := by
  unfold hoisted St.define
  cases σ.stack <;> rfl

include ne in
theorem hoisted_resolved : Resolved t.text (hoisted σ t).refs := by
  obtain ⟨_, _, _, _, e3⟩ := hoisted_facts σ t ne
  rw [e3]
  intro x hx hxn hxd hxw
  obtain ⟨y, hy, rfl⟩ := List.mem_map.mp hx
  rw [rewrite_name] at hxn; rw [rewrite_decl] at hxd; rw [rewrite_write] at hxw
  exact rewrite_resolves _ _ y hxn hxd hxw

include ne in
theorem hoisted_other (n : String) (hn : n ≠ t.text) : ∀ x ∈ (hoisted σ t).refs, x.name = n → x ∈ σ.refs := by
  obtain ⟨_, _, _, _, e3⟩ := hoisted_facts σ t ne
  rw [e3]
  intro x hx hxn
  obtain ⟨y, hy, rfl⟩ := List.mem_map.mp hx
  rw [rewrite_name] at hxn
  rw [rewrite_other _ _ y (by rw [hxn]; exact hn)]
  exact hy

include ne in
theorem hoisted_hoistOn (n : String) (hn : n ≠ t.text) : HoistOn n (hoisted σ t).stack ↔ HoistOn n σ.stack := by
  obtain ⟨hd, tl, e1, e2, _⟩ := hoisted_facts σ t ne
  rw [e2, e1]; exact hoistOn_define (fun ⟨h, _⟩ => hn h.symm)

include ne in
theorem hoisted_onStack (n : String) (h : OnStack n σ.stack) : OnStack n (hoisted σ t).stack := by
  obtain ⟨hd, tl, e1, e2, _⟩ := hoisted_facts σ t ne
  rw [e2]; exact onStack_define (e1 ▸ h)

include ne in
theorem hoisted_goodSelf : Good t.text (hoisted σ t) := by
  obtain ⟨hd, tl, e1, e2, _⟩ := hoisted_facts σ t ne
  exact ⟨by rw [e2]; exact ⟨_, List.mem_cons_self .., { name := t.text, info := some (t.idx, true) }, List.mem_cons_self .., rfl⟩,
    hoisted_resolved σ t ne⟩

include ne in
theorem hoisted_good (n : String) (g : Good n σ) : Good n (hoisted σ t) := by
  refine ⟨hoisted_onStack σ t ne n g.1, ?_⟩
  by_cases hnt : n = t.text
  · subst hnt; exact hoisted_resolved σ t ne
  · intro x hx hxn hxd hxw
    exact g.2 x (hoisted_other σ t ne n hnt x hx hxn) hxn hxd hxw

include ne in
/-- `hw`: the write just recorded met no local -/
theorem hoisted_inv (hw : ∃ w ∈ σ.refs, w.write = true ∧ w.name = t.text ∧ localOf w.resolved = none)
    (i : InvX t.text σ) : Inv (hoisted σ t) := by
  obtain ⟨hd, tl, e1, e2, e3⟩ := hoisted_facts σ t ne
  refine ⟨?_, ?_, ?_, ?_, ?_⟩
  rotate_left 4
  · rw [e3]
    intro x hx
    obtain ⟨y, hy, rfl⟩ := List.mem_map.mp hx
    have hy' := i.shape y hy
    by_cases hyw : y.write = true
    · rw [rewrite_writeRef _ _ y hyw]; exact hy'
    · refine ⟨?_, fun h => absurd (by rw [rewrite_write] at h; exact h) hyw⟩
      intro hd' hw'
      rw [rewrite_decl] at hd'; rw [rewrite_write] at hw'
      have : (rewrite t.text (t.idx, true) y).counted = y.counted := by unfold rewrite; split <;> rfl
      rw [this, rewrite_expr]; exact hy'.1 hd' hw'
  · rw [e2]
    intro s hs x hx hxi
    rcases List.mem_cons.mp hs with h1 | h1
    · subst h1
      rcases List.mem_cons.mp hx with h2 | h2
      · subst h2; simp at hxi
      · exact i.bar hd (by rw [e1]; simp) x h2 hxi
    · exact i.bar s (by rw [e1]; simp [h1]) x hx hxi
  · intro n hn hh
    by_cases hnt : n = t.text
    · subst hnt; exact hoisted_resolved σ t ne
    · intro x hx hxn hxd hxw
      exact i.hoist n hn ((hoisted_hoistOn σ t ne n hnt).mp hh) x (hoisted_other σ t ne n hnt x hx hxn) hxn hxd hxw
  · rw [e3]
    intro x hx hxd hxw hxe
    obtain ⟨y, hy, rfl⟩ := List.mem_map.mp hx
    rw [rewrite_decl] at hxd; rw [rewrite_write] at hxw; rw [rewrite_expr] at hxe
    rcases i.uokx y hy hxd hxw hxe with h | h
    · exact rewrite_resolved_ne _ _ y h
    · exact rewrite_resolves _ _ y h hxd hxw
  · intro n hl
    rw [e3] at hl
    by_cases hnt : n = t.text
    · exfalso
      obtain ⟨w, hwm, hww, hwn, hwl⟩ := hw
      have hmem : rewrite t.text (t.idx, true) w ∈ σ.refs.map (rewrite t.text (t.idx, true)) :=
        List.mem_map.mpr ⟨w, hwm, rfl⟩
      rw [rewrite_writeRef _ _ w hww] at hmem
      have := hl w hmem hww (hnt ▸ hwn)
      rw [hwl] at this
      simp at this
    · have hl' : LocalWrites n σ.refs := by
        intro x hx hxw hxn
        have hmem : rewrite t.text (t.idx, true) x ∈ σ.refs.map (rewrite t.text (t.idx, true)) :=
          List.mem_map.mpr ⟨x, hx, rfl⟩
        rw [rewrite_writeRef _ _ x hxw] at hmem
        exact hl x hmem hxw hxn
      obtain ⟨a, b⟩ := i.noh n hl'
      exact ⟨fun hh => a ((hoisted_hoistOn σ t ne n hnt).mp hh),
        fun x hx hxn d => b x (hoisted_other σ t ne n hnt x hx hxn) hxn d⟩
end HoistDefine

theorem logWrite_stack (σ : St) (t : Tok) : (σ.logWrite t).stack = σ.stack := rfl

theorem hoist_eq (σ : St) (t : Tok) :
    σ.hoist t = match stackFind σ.stack t.text with
      | some _ => σ.logWrite t
      | none => hoisted (σ.logWrite t) t := rfl

theorem logWrite_witness (σ : St) (t : Tok) (hf : stackFind σ.stack t.text = none) :
    ∃ w ∈ (σ.logWrite t).refs, w.write = true ∧ w.name = t.text ∧ localOf w.resolved = none := by
  refine ⟨{ tok := t.idx, name := t.text, resolved := stackFind σ.stack t.text,
            counted := (localOf (stackFind σ.stack t.text)).isNone,
            write := true, expr := false }, by simp [St.logWrite], rfl, rfl, ?_⟩
  simp only
  rw [hf]; rfl

/-- `write_name` + `try_hoist` -/
theorem hoist_step (σ : St) (t : Tok) (ne : σ.stack ≠ []) : Step σ (σ.hoist t) := by
  rw [hoist_eq]
  cases hf : stackFind σ.stack t.text with
  | some v => exact logWrite_step σ t
  | none =>
    have ne' : (σ.logWrite t).stack ≠ [] := ne
    exact ⟨fun i => hoisted_inv _ t ne' (logWrite_witness σ t hf) (((logWrite_step σ t).inv i).toX _),
      fun n hn i g => hoisted_good _ t ne' n ((logWrite_step σ t).good n hn i g)⟩

/-- after a plain-name write that met no local, the name is on the stack and none of its reads is
    unresolved — whether the global was hoisted now or had been hoisted by an enclosing scope before -/
theorem hoist_good (σ : St) (t : Tok) (ne : σ.stack ≠ [])
    (hh : HoistOn t.text σ.stack → Resolved t.text σ.refs)
    (hl : localOf (stackFind σ.stack t.text) = none) : Good t.text (σ.hoist t) := by
  rw [hoist_eq]
  cases hf : stackFind σ.stack t.text with
  | some v =>
    obtain ⟨d, h⟩ := v
    cases h with
    | false => rw [hf] at hl; simp [localOf] at hl
    | true =>
      obtain ⟨s, hs, e, he, hen, hei⟩ := stackFind_hoisted σ.stack t.text d hf
      refine ⟨⟨s, hs, e, he, hen⟩, ?_⟩
      intro x hx hxn hxd hxw
      simp only [St.logWrite, List.mem_append, List.mem_singleton] at hx
      rcases hx with h | h
      · exact hh ⟨s, hs, e, he, hen, hei⟩ x h hxn hxd hxw
      · subst h; simp at hxw
  | none => exact hoisted_goodSelf _ t (show (σ.logWrite t).stack ≠ [] from ne)

/-- the same for `function f … end` -/
theorem readHoist_good (σ : St) (t : Tok) (ne : σ.stack ≠ []) (i : Inv σ) (hn : t.text ≠ "...")
    (hl : localOf (stackFind σ.stack t.text) = none) : Good t.text ((σ.read t false).hoist t) := by
  have hst : (σ.read t false).stack = σ.stack := by unfold St.read; split <;> rfl
  refine hoist_good (σ.read t false) t (by rw [hst]; exact ne) ?_ (by rw [hst]; exact hl)
  rw [hst]
  intro hh x hx hxn hxd hxw
  unfold St.read at hx
  split at hx
  · exact i.hoist t.text hn hh x hx hxn hxd hxw
  · simp only [List.mem_append, List.mem_singleton] at hx
    rcases hx with h | h
    · exact i.hoist t.text hn hh x h hxn hxd hxw
    · subst h
      obtain ⟨s, hs, e, he, hen, _⟩ := hh
      exact stackFind_isSome σ.stack t.text i.bar hn ⟨s, hs, e, he, hen⟩

/-- `function f … end`: the read of `f` (not an expression position, possibly unresolved for a moment)
    followed by the write, which finds the name or hoists it -/
theorem readHoist_step (σ : St) (t : Tok) (ne : σ.stack ≠ []) : Step σ ((σ.read t false).hoist t) := by
  unfold St.read
  split
  · exact hoist_step σ t ne
  · cases hf : stackFind σ.stack t.text with
    | some v =>
      -- the read is resolved at once: an ordinary step, then the write
      refine Step.trans ⟨fun i => push_refs_inv σ _ i (fun _ _ _ => by simp) ?_ ⟨fun _ _ => rfl, fun h => by simp at h⟩, ?_⟩ (hoist_step _ t ne)
      · intro n hrn hl d hd
        simp only at hrn hd
        have hl' : LocalWrites n σ.refs := fun x hx => hl x (by simp [hx])
        exact (i.noh n hl').1 (hrn ▸ stackFind_hoisted σ.stack t.text d (hf ▸ hd))
      · intro n _ _ g
        refine ⟨g.1, ?_⟩
        intro x hx hxn hxd hxw
        rcases List.mem_append.mp hx with h | h
        · exact g.2 x h hxn hxd hxw
        · simp only [List.mem_singleton] at h; subst h
          simp
    | none =>
      -- the read stays unresolved until the write hoists the name
      rw [hoist_eq]
      simp only [hf]
      let r : Ref := { tok := t.idx, name := t.text, resolved := none, counted := false, expr := false }
      let σr : St := { σ with refs := σ.refs ++ [r] }
      have ne' : (σr.logWrite t).stack ≠ [] := ne
      have hx : ∀ i : Inv σ, InvX t.text (σr.logWrite t) := by
        intro i
        have i1 := (logWrite_step σ t).inv i
        refine ⟨i.bar, ?_, ?_, ?_, ?_⟩
        rotate_left 3
        · intro x hx
          simp only [St.logWrite, σr, List.append_assoc, List.mem_append, List.mem_cons, List.not_mem_nil, or_false] at hx
          rcases hx with h | h | h
          · exact i.shape x h
          · subst h; exact ⟨fun _ _ => rfl, fun h => by simp at h⟩
          · subst h; exact ⟨fun _ h => by simp at h, fun _ => ⟨rfl, rfl⟩⟩
        · intro n hn hh x hx hxn hxd hxw
          simp only [St.logWrite, σr, List.append_assoc, List.mem_append, List.mem_cons, List.not_mem_nil, or_false] at hx
          rcases hx with h | h | h
          · exact i.hoist n hn hh x h hxn hxd hxw
          · subst h
            obtain ⟨s, hs, e, he, hen, _⟩ := hh
            have hxn' : t.text = n := hxn
            exact absurd hf (hxn' ▸ stackFind_isSome σ.stack n i.bar hn ⟨s, hs, e, he, hen⟩)
          · subst h; simp at hxw
        · intro x hx hxd hxw hxe
          simp only [St.logWrite, σr, List.append_assoc, List.mem_append, List.mem_cons, List.not_mem_nil, or_false] at hx
          rcases hx with h | h | h
          · exact Or.inl (i.uok x h hxd hxw hxe)
          · subst h; exact Or.inr rfl
          · subst h; simp at hxw
        · intro n hl
          have hl' : LocalWrites n σ.refs := fun x hx => hl x (by simp [St.logWrite, σr, hx])
          obtain ⟨a, b⟩ := i.noh n hl'
          refine ⟨a, ?_⟩
          intro x hx hxn d
          simp only [St.logWrite, σr, List.append_assoc, List.mem_append, List.mem_cons, List.not_mem_nil, or_false] at hx
          rcases hx with h | h | h
          · exact b x h hxn d
          · subst h; simp
          · subst h; simp [hf]
      have hw : ∃ w ∈ (σr.logWrite t).refs, w.write = true ∧ w.name = t.text ∧ localOf w.resolved = none :=
        logWrite_witness σr t hf
      refine ⟨fun i => hoisted_inv _ t ne' hw (hx i), fun n hn i g => hoisted_good _ t ne' n ⟨g.1, ?_⟩⟩
      intro x hx hxn hxd hxw
      simp only [St.logWrite, σr, List.append_assoc, List.mem_append, List.mem_cons, List.not_mem_nil, or_false] at hx
      rcases hx with h | h | h
      · exact g.2 x h hxn hxd hxw
      · subst h
        have hxn' : t.text = n := hxn
        exact absurd hf (hxn' ▸ stackFind_isSome σ.stack n i.bar hn g.1)
      · subst h; simp at hxw

end Selene.Scope.Safe
