/-
Two more lints that read nothing but the scope tables:
`global_usage.rs` (uses of `_G` — and `shared` under a Roblox library — that are not bound by the script)
and `unscoped_variables.rs` (plain-name assignments that create a global).
Both walk the reference arena once and de-duplicate by identifier with a set that is threaded through
the walk — differently: `global_usage` marks every identifier it has looked at, `unscoped_variables`
only those it reported.
-/
import Selene.Scope.Lints
namespace Selene.Scope
open Selene.Lua

/-- `is_global` -/
def isGlobalName (name : String) (roblox : Bool) : Bool := (roblox && name = "shared") || name = "_G"

/-- does the configured pattern match the first static index of the reference (`_G.name`)? -/
def matchesIgnoredIndex (ignore : Option (String → Bool)) (r : Ref) : Bool :=
  match ignore with
  | none => false
  | some p =>
    match r.indexing.bind List.head? with
    | some e => match e.staticName with
      | some n => p n
      | none => false
    | none => false

/-- `global_usage` -/
def globalUsage (roblox : Bool) (ignore : Option (String → Bool)) (σ : St) : List Diag :=
  let step := fun (acc : List Nat × List Diag) (r : Ref) =>
    if acc.1.contains r.ident then acc
    else
      let checked := r.ident :: acc.1
      if isGlobalName r.name roblox && !matchesIgnoredIndex ignore r && r.resolved.isNone then
        (checked, acc.2 ++ [{ code := "global_usage", primary := ⟨r.ident, r.ident⟩, detail := r.name }])
      else (checked, acc.2)
  (σ.refs.toList.foldl step ([], [])).2

/-- `unscoped_variables` -/
def unscopedVariables (ignore : String → Bool) (hasFields : String → Bool) (σ : St) : List Diag :=
  let step := fun (acc : List Nat × List Diag) (r : Ref) =>
    if r.resolved.isNone && r.write == some .assign && !acc.1.contains r.ident && !ignore r.name && !hasFields r.name then
      (r.ident :: acc.1, acc.2 ++ [{ code := "unscoped_variables", primary := ⟨r.ident, r.ident⟩, detail := r.name }])
    else acc
  (σ.refs.toList.foldl step ([], [])).2

/-! ### what a diagnostic of either lint means, for all scope tables -/

theorem unscoped_fold_sound (ignore hasFields : String → Bool) (rs : List Ref) :
    ∀ (acc : List Nat × List Diag) (P : Diag → Prop),
      (∀ g ∈ acc.2, P g) →
      (∀ r ∈ rs, r.resolved = none → r.write = some .assign → ignore r.name = false → hasFields r.name = false →
        P { code := "unscoped_variables", primary := ⟨r.ident, r.ident⟩, detail := r.name }) →
      ∀ g ∈ (rs.foldl (fun (acc : List Nat × List Diag) (r : Ref) =>
        if r.resolved.isNone && r.write == some .assign && !acc.1.contains r.ident && !ignore r.name && !hasFields r.name then
          (r.ident :: acc.1, acc.2 ++ [{ code := "unscoped_variables", primary := ⟨r.ident, r.ident⟩, detail := r.name }])
        else acc) acc).2, P g := by
  induction rs with
  | nil => intro acc P h _; simpa using h
  | cons r rest ih =>
    intro acc P hacc hr
    simp only [List.foldl_cons]
    apply ih
    · split
      · rename_i hc
        simp only [Bool.and_eq_true, Bool.not_eq_true', Option.isNone_iff_eq_none, beq_iff_eq] at hc
        obtain ⟨⟨⟨⟨h1, h2⟩, _⟩, h4⟩, h5⟩ := hc
        intro g hg
        rcases List.mem_append.mp hg with hg | hg
        · exact hacc g hg
        · simp only [List.mem_singleton] at hg
          subst hg
          exact hr r (by simp) h1 h2 h4 h5
      · exact hacc
    · intro r' hr'
      exact hr r' (by simp [hr'])

/-- **unscoped_variables, soundness over the tables.** Every diagnostic points at the identifier of a
reference that is unresolved, is a plain assignment (`x = …`, not `x.y = …`), whose name the ignore pattern
does not match and the library does not supply. -/
theorem unscoped_sound (ignore hasFields : String → Bool) (σ : St) (g : Diag)
    (h : g ∈ unscopedVariables ignore hasFields σ) :
    ∃ r ∈ σ.refs.toList, r.resolved = none ∧ r.write = some .assign ∧ ignore r.name = false ∧ hasFields r.name = false ∧
      g.primary = ⟨r.ident, r.ident⟩ ∧ g.detail = r.name := by
  unfold unscopedVariables at h
  exact unscoped_fold_sound ignore hasFields σ.refs.toList ([], [])
    (fun g => ∃ r ∈ σ.refs.toList, r.resolved = none ∧ r.write = some .assign ∧ ignore r.name = false ∧
      hasFields r.name = false ∧ g.primary = ⟨r.ident, r.ident⟩ ∧ g.detail = r.name)
    (by simp) (fun r hr h1 h2 h3 h4 => ⟨r, hr, h1, h2, h3, h4, rfl, rfl⟩) g h

theorem globalUsage_fold_sound (roblox : Bool) (ignore : Option (String → Bool)) (rs : List Ref) :
    ∀ (acc : List Nat × List Diag) (P : Diag → Prop),
      (∀ g ∈ acc.2, P g) →
      (∀ r ∈ rs, isGlobalName r.name roblox = true → matchesIgnoredIndex ignore r = false → r.resolved = none →
        P { code := "global_usage", primary := ⟨r.ident, r.ident⟩, detail := r.name }) →
      ∀ g ∈ (rs.foldl (fun (acc : List Nat × List Diag) (r : Ref) =>
        if acc.1.contains r.ident then acc
        else
          let checked := r.ident :: acc.1
          if isGlobalName r.name roblox && !matchesIgnoredIndex ignore r && r.resolved.isNone then
            (checked, acc.2 ++ [{ code := "global_usage", primary := ⟨r.ident, r.ident⟩, detail := r.name }])
          else (checked, acc.2)) acc).2, P g := by
  induction rs with
  | nil => intro acc P h _; simpa using h
  | cons r rest ih =>
    intro acc P hacc hr
    simp only [List.foldl_cons]
    apply ih
    · split
      · exact hacc
      · split
        · rename_i hc
          simp only [Bool.and_eq_true, Bool.not_eq_true', Option.isNone_iff_eq_none] at hc
          obtain ⟨⟨h1, h2⟩, h3⟩ := hc
          intro g hg
          rcases List.mem_append.mp hg with hg | hg
          · exact hacc g hg
          · simp only [List.mem_singleton] at hg
            subst hg
            exact hr r (by simp) h1 h2 h3
        · exact hacc
    · intro r' hr'
      exact hr r' (by simp [hr'])

/-- **global_usage, soundness over the tables.** Every diagnostic points at the identifier of an unresolved
reference named `_G` (or `shared` under Roblox) whose first static index the configured pattern does not match:
a `_G` the script itself binds is never reported. -/
theorem globalUsage_sound (roblox : Bool) (ignore : Option (String → Bool)) (σ : St) (g : Diag)
    (h : g ∈ globalUsage roblox ignore σ) :
    ∃ r ∈ σ.refs.toList, isGlobalName r.name roblox = true ∧ matchesIgnoredIndex ignore r = false ∧ r.resolved = none ∧
      g.primary = ⟨r.ident, r.ident⟩ := by
  unfold globalUsage at h
  exact globalUsage_fold_sound roblox ignore σ.refs.toList ([], [])
    (fun g => ∃ r ∈ σ.refs.toList, isGlobalName r.name roblox = true ∧ matchesIgnoredIndex ignore r = false ∧
      r.resolved = none ∧ g.primary = ⟨r.ident, r.ident⟩)
    (by simp) (fun r hr h1 h2 h3 => ⟨r, hr, h1, h2, h3, rfl⟩) g h

end Selene.Scope
