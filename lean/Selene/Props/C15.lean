/-
C15 — a derived standard library overrides its base; removals remove.
Only property theorems and non-vacuity examples live here; helper lemmas are in
`Selene/Std/ExtendLemmas.lean`.
-/
import Selene.Std.ExtendLemmas
namespace Selene.Props.C15
open Selene.Std

/-- What a `BTreeMap` guarantees and the model's association lists must be told. -/
def WF (l : Lib) : Prop := KeysNodup l.globals

/-! ## Specification (written from the property text, no reference to `extend`) -/

/-- One library's own verdict on a key: `none` = says nothing, `some none` = removed,
    `some (some f)` = defines it. -/
def verdict (l : Lib) (k : String) : Option (Option Field) :=
  match l.globals.get k with
  | none => none
  | some f => if f.isRemoved then some none else some (some f)

/-- derived-most first: the first library that mentions the key decides -/
def Spec.chainLookup : List Lib → String → Option Field
  | [], _ => none
  | l :: rest, k =>
    match verdict l k with
    | some r => r
    | none => Spec.chainLookup rest k

def Spec.versions : List Lib → List LuaVersion
  | [] => []
  | l :: rest => if l.luaVersions.isEmpty then Spec.versions rest else l.luaVersions

/-- right-nested application along a base chain: `d` based on `b₁` based on `b₂` … -/
def nest : Lib → List Lib → Lib
  | d, [] => d
  | d, b :: bs => extend d (nest b bs)

/-! ## Theorems -/

theorem extend_wf (d b : Lib) : WF (extend d b) := by
  unfold WF extend
  exact (KeysNodup.nil.extendKV _).extendKV _

/-- **C15 (pair).** Every key of the merged library is decided by the derived library if it
mentions it (a `removed` mark makes it absent), otherwise by the base (whose own `removed`
marks are likewise absent). -/
theorem C15_lookup (d b : Lib) (hd : WF d) (hb : WF b) (k : String) :
    (extend d b).globals.get k = Spec.chainLookup [d, b] k := by
  have hd' : KeysNodup d.globals := hd
  have hb' : KeysNodup b.globals := hb
  show getKV (extendKV (extendKV [] (b.globals.filter _)) (d.globals.filter _)) k = _
  rw [getKV_extendKV _ _ (hd'.filter _), getKV_filter _ hd',
      getKV_extendKV _ _ (hb'.filter _), getKV_filter _ hb']
  simp only [Spec.chainLookup, verdict, FieldMap.get, removedIn]
  change _ = match (match getKV d.globals k with
      | none => none
      | some f => if f.isRemoved then some none else some (some f)) with
    | some r => r
    | none => match (match getKV b.globals k with
        | none => none
        | some f => if f.isRemoved then some none else some (some f)) with
      | some r => r
      | none => none
  cases hdk : getKV d.globals k with
  | none =>
    cases hbk : getKV b.globals k with
    | none => simp
    | some fb =>
      simp only [getKV] at hdk
      by_cases hr : fb.isRemoved <;> simp [hr, hdk]
  | some fd =>
    by_cases hr : fd.isRemoved
    · simp only [hr]
      cases hbk : getKV b.globals k with
      | none => simp
      | some fb =>
        simp only [getKV] at hdk
        by_cases hrb : fb.isRemoved <;> simp [hrb, hdk, hr]
    · simp [hr]

/-- the merged library contains no `removed` markers at all -/
theorem C15_no_removed (d b : Lib) (hd : WF d) (hb : WF b) (k : String) (f : Field)
    (h : (extend d b).globals.get k = some f) : f.isRemoved = false := by
  rw [C15_lookup d b hd hb] at h
  simp only [Spec.chainLookup, verdict] at h
  cases hdk : d.globals.get k with
  | some fd =>
    rw [hdk] at h
    by_cases hr : fd.isRemoved
    · simp [hr] at h
    · simp [hr] at h; subst h; simpa using hr
  | none =>
    rw [hdk] at h
    cases hbk : b.globals.get k with
    | some fb =>
      rw [hbk] at h
      by_cases hr : fb.isRemoved
      · simp [hr] at h
      · simp [hr] at h; subst h; simpa using hr
    | none => rw [hbk] at h; simp at h

/-- **C15 (versions).** The derived library's `lua_versions`, when given, replace the base's. -/
theorem C15_versions (d b : Lib) :
    (extend d b).luaVersions = if d.luaVersions ≠ [] then d.luaVersions else b.luaVersions := by
  unfold extend
  cases h : d.luaVersions <;> simp

theorem chainLookup_cons (l : Lib) (rest : List Lib) (k : String) :
    Spec.chainLookup (l :: rest) k =
      match verdict l k with
      | some r => r
      | none => Spec.chainLookup rest k := rfl

theorem nest_wf (d : Lib) (bs : List Lib) (hd : WF d) : WF (nest d bs) := by
  cases bs with
  | nil => exact hd
  | cons b bs => exact extend_wf _ _

theorem chainLookup_not_removed (ls : List Lib) (k : String) (f : Field)
    (h : Spec.chainLookup ls k = some f) : f.isRemoved = false := by
  induction ls with
  | nil => simp [Spec.chainLookup] at h
  | cons l rest ih =>
    simp only [Spec.chainLookup, verdict] at h
    cases hl : l.globals.get k with
    | none => rw [hl] at h; exact ih h
    | some fl =>
      rw [hl] at h
      by_cases hr : fl.isRemoved
      · simp [hr] at h
      · simp [hr] at h; subst h; simpa using hr

/-- **C15 (transitive, base chains).** Along a base chain of any length ≥ 2 the first library
(derived-most first) that mentions a key decides it; in particular a removal in the derived
library hides the key in *every* ancestor. -/
theorem C15_base_chain (d b : Lib) (bs : List Lib) (hd : WF d) (hb : WF b)
    (hbs : ∀ l ∈ bs, WF l) (k : String) :
    (nest d (b :: bs)).globals.get k = Spec.chainLookup (d :: b :: bs) k := by
  induction bs generalizing d b with
  | nil => exact C15_lookup d b hd hb k
  | cons b' bs ih =>
    have hb' : WF b' := hbs b' (by simp)
    have hrest : ∀ l ∈ bs, WF l := fun l hl => hbs l (by simp [hl])
    have hih := ih b b' hb hb' hrest
    show (extend d (nest b (b' :: bs))).globals.get k = _
    rw [C15_lookup d _ hd (nest_wf b _ hb)]
    rw [chainLookup_cons d, chainLookup_cons d, chainLookup_cons (nest b (b' :: bs)) []]
    cases hv : verdict d k with
    | some r => rfl
    | none =>
      show (match verdict (nest b (b' :: bs)) k with
            | some r => r
            | none => Spec.chainLookup [] k) = Spec.chainLookup (b :: b' :: bs) k
      -- the nested base behaves as one library whose lookup is the chain lookup
      have : verdict (nest b (b' :: bs)) k =
          (Spec.chainLookup (b :: b' :: bs) k).map some := by
        unfold verdict
        rw [hih]
        cases hc : Spec.chainLookup (b :: b' :: bs) k with
        | none => rfl
        | some f => simp [chainLookup_not_removed _ _ _ hc]
      rw [this]
      generalize Spec.chainLookup (b :: b' :: bs) k = c
      cases c <;> rfl

/-- versions along a base chain: the first library that declares any wins -/
theorem C15_chain_versions (d : Lib) (bs : List Lib) :
    (nest d bs).luaVersions = Spec.versions (d :: bs) := by
  induction bs generalizing d with
  | nil =>
    simp only [nest, Spec.versions]
    cases h : d.luaVersions <;> simp
  | cons b bs ih =>
    show (extend d (nest b bs)).luaVersions = _
    rw [C15_versions, ih]
    simp only [Spec.versions]
    cases h : d.luaVersions <;> simp

/-- The built-in / file base recursion computes exactly the right-nested chain. -/
def chainOf (env : String → Option Lib) : Nat → String → Option (Lib × List Lib)
  | 0, _ => none
  | fuel + 1, name =>
    match env name with
    | none => none
    | some l =>
      match l.base with
      | none => some (l, [])
      | some b =>
        match chainOf env fuel b with
        | some (l', ls) => some (l, l' :: ls)
        | none => none

theorem C15_effective_is_nest (env : String → Option Lib) (fuel : Nat) (name : String) :
    effective env fuel name = (chainOf env fuel name).map fun c => nest c.1 c.2 := by
  induction fuel generalizing name with
  | zero => rfl
  | succ n ih =>
    simp only [effective, chainOf]
    cases env name with
    | none => rfl
    | some l =>
      simp only
      cases hb : l.base with
      | none => rfl
      | some b =>
        simp only [ih b]
        cases hc : chainOf env n b with
        | none => rfl
        | some c => rfl

/-- **C15 (`+` chains).** `a+b+c` is the left fold: the accumulated library plays "derived". -/
theorem C15_plus_chain (a : Lib) (rest : List Lib) :
    plusChain (a :: rest) = some (rest.foldl extend a) := rfl

theorem C15_plus_step (acc c : Lib) (hacc : WF acc) (hc : WF c) (k : String) :
    (extend acc c).globals.get k = Spec.chainLookup [acc, c] k := C15_lookup acc c hacc hc k

/-! ## Non-vacuity and regression witnesses -/

private def fProp : Field := { kind := .property .readOnly }
private def fAny : Field := { kind := .any }
private def fRem : Field := { kind := .removed }

private def dLib : Lib :=
  { globals := [("a", fAny), ("b", fRem)], luaVersions := [.lua53] }
private def bLib : Lib :=
  { globals := [("a", fProp), ("b", fProp), ("c", fProp), ("d", fRem)], luaVersions := [.lua52] }

example : WF dLib ∧ WF bLib := by
  constructor <;> simp [WF, KeysNodup, dLib, bLib]

example : (extend dLib bLib).globals.get "a" = some fAny := by decide
example : (extend dLib bLib).globals.get "b" = none := by decide
example : (extend dLib bLib).globals.get "c" = some fProp := by decide
example : (extend dLib bLib).globals.get "d" = none := by decide
/-- regression witness of the defect repaired in /repo (`fix: extend keeps derived lua_versions`):
    the pre-fix code returned the base's `[lua52]` here. -/
example : (extend dLib bLib).luaVersions = [.lua53] := by decide

end Selene.Props.C15
