/-
C01 — undefined_variable agrees with Lua's lexical scoping rules.

Full statement (DESIGN §4 C01): for every chunk `c` and every identifier occurrence `o` in an
expression position, the declaration the scope tables record for `o` is the one Lua's scoping
rules give (`Spec.resolve`), hence the lint reports exactly the unbound, non-library, never
assigned names.

Proved here:
* `C01_resolution` (all chunks, no hypothesis): the scope-stack machine of `Scope/Core.lean` — scope
  stack with `...` barriers, global reference log, hoisting with its rewrite of earlier unresolved
  reads, eager reads before closures are entered, the if/elseif scope juggling, deferred loop
  variables — records for every identifier read exactly the local declaration that `Spec.resolve`
  (Lua 5.1 §2.6, environment passing, source order) assigns to it: the two answer lists are
  permutations of each other.  `Core` is compared with the real `ScopeManager` on every program of the
  correspondence run (every recorded read with its binding).
* `C01_lint_sound`, `C01_once`: what `undefined_variable` reports given the scope tables, for all
  tables (over the full ScopeVisitor model of `Scope/Model.lean`, compared table-by-table with the
  implementation on every run).
NOT a Lean theorem: that the full model's tables and `Core`'s reference log coincide (both are tied
to the implementation by the correspondence run, not to each other by proof).
-/
import Selene.Scope.Coherent
import Selene.Scope.Lints
import Selene.Scope.Spec
import Selene.Scope.CoreProof
import Selene.Scope.SpecProof
import Selene.Scope.TopProof
namespace Selene.Props.C01
open Selene.Scope Selene.Lua

/-- **C01 (resolution).** For every chunk, the reads recorded by the scope-stack machine, each with
the local declaration it resolves to (hoisted globals and blocked `...` counting as none), are
exactly — as a multiset — the identifier occurrences in expression positions that Lua's scoping rules
give, each with the declaration visible there. -/
theorem C01_log [Core.NameFilter] (b : Block) :
    (Core.analyse b).log.Perm (SpecProof.log (Spec.resolve b)) := by
  rw [CoreProof.analyse_eq b]
  exact (SpecProof.resolve_perm b).symm

theorem C01_resolution [Core.NameFilter] (b : Block) :
    (Core.analyse b).answers.Perm (SpecProof.reads (Spec.resolve b)) := by
  rw [← CoreProof.log_answers, ← SpecProof.log_reads]
  exact (C01_log b).filterMap _

/-- the same, pointwise: an answer of the machine is an occurrence of the specification and vice versa -/
theorem C01_resolution_mem [Core.NameFilter] (b : Block) (t : Nat) (d : Option Nat) :
    (t, d) ∈ (Core.analyse b).answers ↔
      ∃ oc ∈ (Spec.resolve b).occs, SpecProof.counted oc = true ∧ Core.NameFilter.read oc.name = true ∧
        oc.tok = t ∧ oc.binding.map (·.1) = d := by
  rw [(C01_resolution b).mem_iff]
  simp only [SpecProof.reads, List.mem_map, List.mem_filter, Prod.mk.injEq, Bool.and_eq_true]
  constructor
  · rintro ⟨oc, ⟨h1, h2, h2'⟩, h3, h4⟩; exact ⟨oc, h1, h2, h2', h3, h4⟩
  · rintro ⟨oc, h1, h2, h2', h3, h4⟩; exact ⟨oc, ⟨h1, h2, h2'⟩, h3, h4⟩

/-- `local x = 1; local function f(...) local x = x; g = x; return ..., g, y end` — shadowing, the
    initialiser seeing the outer `x`, a hoisted global, a vararg, an unbound name -/
def witness : Block :=
  let t (i : Nat) (s : String) : Tok := ⟨i, s⟩
  .mk none
    (.cons (.localAssign ⟨0, 3⟩ [t 1 "x"] (.cons (.num (t 3 "1")) .nil))
      (.cons (.localFunc ⟨4, 30⟩ (t 6 "f")
        (.mk ⟨7, 30⟩ [.dots (t 8 "...")]
          (.mk none
            (.cons (.localAssign ⟨10, 13⟩ [t 11 "x"] (.cons (.var (.name (t 13 "x"))) .nil))
              (.cons (.assign ⟨14, 16⟩ (.cons (.name (t 14 "g")) .nil) (.cons (.var (.name (t 16 "x"))) .nil)) .nil))
            (.ret ⟨17, 22⟩ (.cons (.dots (t 18 "...")) (.cons (.var (.name (t 20 "g"))) (.cons (.var (.name (t 22 "y"))) .nil)))))))
        .nil))
    .none

example : @Core.St.answers Core.NameFilter.all (Core.analyse witness) = [(13, some 1), (16, some 11), (18, some 8), (20, none), (22, none)] := by decide
/-- … and its declarations: `f` (6) and the inner `x` (11) which re-uses the name of the outer `x` (1) -/
example : @Core.St.shadows Core.NameFilter.all (Core.analyse witness) = [(1, none), (6, none), (11, some 1)] := by decide

/-! ### the two directions of the property, for the lint over the machine's log -/

export Selene.Scope.Core (undefinedReports)

/-- the filter that looks at one name only -/
@[reducible] def oneName (n : String) : Core.NameFilter :=
  { keep := fun _ => false, read := fun m => m == n, assign := fun m => m == n }

theorem oneName_read (n m : String) : @Core.NameFilter.read (oneName n) m = (m == n) := rfl
theorem oneName_assign (n m : String) : @Core.NameFilter.assign (oneName n) m = (m == n) := rfl

theorem kept_read (n : String) (r : Core.Ref) (hd : r.decl = false) (hw : r.write = false) :
    @Core.Ref.kept (oneName n) r = (r.name == n) := by
  unfold Core.Ref.kept; simp [hd, hw, oneName_read]

theorem kept_write (n : String) (r : Core.Ref) (hd : r.decl = false) (hw : r.write = true) :
    @Core.Ref.kept (oneName n) r = (r.name == n) := by
  unfold Core.Ref.kept; simp [hd, hw, oneName_assign]

/-- **C01 (never reported when bound, supplied or assigned).** For every chunk and every library: a
reported token is an identifier occurrence in an expression position that Lua's scoping rules bind to no
local, parameter, loop variable or implicit `self`; its name is not supplied by the standard library; it
is not `...` of the main chunk; and it is not a global the file assigns (or defines with `function
name`) in its outermost block. -/
theorem C01_sound (hasFields : String → Bool) (b : Block) (t : Nat)
    (h : t ∈ undefinedReports hasFields (Core.analyse b)) :
    ∃ oc ∈ (Spec.resolve b).occs, oc.tok = t ∧ oc.kind ≠ .target ∧ oc.binding = none ∧
      hasFields oc.name = false ∧ ¬ (oc.name = "..." ∧ oc.inFunction = false) ∧
      oc.name ∉ TopProof.topGlobals b := by
  simp only [undefinedReports, List.mem_map, List.mem_filter, Bool.and_eq_true, Bool.not_eq_true',
    Option.isNone_iff_eq_none] at h
  obtain ⟨r, ⟨hr, ⟨⟨hd, hw⟩, hres⟩, hs⟩, ht⟩ := h
  have i := @TopProof.analyse_inv Core.NameFilter.all b
  have hexpr : r.expr = true := by
    cases he : r.expr with
    | true => rfl
    | false => exact absurd hres (i.uok r hr hd hw he)
  have hcount : r.counted = true := by rw [(i.shape r hr).1 hd hw]; exact hexpr
  have hkept : @Core.Ref.kept (oneName r.name) r = true := by rw [kept_read _ _ hd hw]; simp
  have hmem : (t, none) ∈ @Core.St.answers (oneName r.name) (Core.analyse b) :=
    (@CoreProof.mem_answers (oneName r.name) _ t none).mpr
      ⟨r, hr, hcount, hkept, hd, hw, ht, by simp [Core.localBinding, hres]⟩
  obtain ⟨oc, hoc, hc, hname, htok, hbind⟩ := (@C01_resolution_mem (oneName r.name) b t none).mp hmem
  have hname' : oc.name = r.name := by simpa [oneName_read] using hname
  have hc' : (oc.kind != .target) = true ∧ (!(oc.name == "..." && !oc.inFunction)) = true := by
    simpa [SpecProof.counted] using hc
  refine ⟨oc, hoc, htok, by simpa using hc'.1, by simpa using hbind, by rw [hname']; exact hs, ?_, ?_⟩
  · rintro ⟨h1, h2⟩
    have := hc'.2
    simp [h1, h2] at this
  · intro htop
    rw [hname'] at htop
    exact (@TopProof.analyse_good Core.NameFilter.all b r.name htop).2 r hr rfl hd hw hres

/-- **C01 (always reported otherwise).** For every chunk and every library: an identifier occurrence in
an expression position that Lua's scoping rules bind to nothing, whose name the standard library does
not supply and that no statement of the file assigns as a global (no plain-name target or `function
name` with that name where it denotes no local), is reported at that token. -/
theorem C01_complete (hasFields : String → Bool) (b : Block) (oc : Spec.Occ)
    (hoc : oc ∈ (Spec.resolve b).occs) (hc : SpecProof.counted oc = true) (hb : oc.binding = none)
    (hs : hasFields oc.name = false)
    (hna : ∀ oc' ∈ (Spec.resolve b).occs, SpecProof.assignsGlobal oc' = true → oc'.name ≠ oc.name) :
    oc.tok ∈ undefinedReports hasFields (Core.analyse b) := by
  have i := @TopProof.analyse_inv Core.NameFilter.all b
  -- the machine recorded no global assignment of this name …
  have hnone : ∀ t, t ∉ @Core.St.globalAssigns (oneName oc.name) (Core.analyse b) := by
    intro t ht
    have hp : (@Core.St.globalAssigns (oneName oc.name) (Core.analyse b)).Perm
        (@SpecProof.globalAssigns (oneName oc.name) (Spec.resolve b)) := by
      rw [← @CoreProof.log_globalAssigns (oneName oc.name), ← @SpecProof.log_globalAssigns (oneName oc.name)]
      exact (@C01_log (oneName oc.name) b).filterMap _
    obtain ⟨x, hx, ha, hk, _⟩ := (@SpecProof.mem_globalAssigns (oneName oc.name) _ t).mp (hp.mem_iff.mp ht)
    exact hna x hx ha (by simpa [oneName_assign] using hk)
  -- … so every plain-name write of it met a local, and it was never hoisted
  have hlw : Safe.LocalWrites oc.name (Core.analyse b).refs := by
    intro w hw hww hwn
    cases hl : (Core.localOf w.resolved) with
    | some _ => rfl
    | none =>
      exfalso
      obtain ⟨hwd, hwc⟩ := (i.shape w hw).2 hww
      refine hnone w.tok ((@CoreProof.mem_globalAssigns (oneName oc.name) _ w.tok).mpr ⟨w, hw, ?_, ?_, hwd, hww, rfl⟩)
      · rw [hwc, hl]; rfl
      · rw [kept_write _ _ hwd hww]; simp [hwn]
  obtain ⟨_, hnh⟩ := i.noh oc.name hlw
  -- the occurrence is among the machine's answers
  have hmem : (oc.tok, none) ∈ @Core.St.answers (oneName oc.name) (Core.analyse b) :=
    (@C01_resolution_mem (oneName oc.name) b oc.tok none).mpr ⟨oc, hoc, hc, by simp [oneName_read], rfl, by simp [hb]⟩
  obtain ⟨r, hr, _, hk, hd, hw, htok, hlb⟩ := (@CoreProof.mem_answers (oneName oc.name) _ oc.tok none).mp hmem
  have hname : r.name = oc.name := by
    rw [kept_read _ _ hd hw] at hk; simpa using hk
  have hres : r.resolved = none := by
    cases hr' : r.resolved with
    | none => rfl
    | some v =>
      obtain ⟨d, g⟩ := v
      cases g with
      | true => exact absurd hr' (hnh r hr hname d)
      | false => simp [Core.localBinding, hr'] at hlb
  simp only [undefinedReports, List.mem_map, List.mem_filter, Bool.and_eq_true, Bool.not_eq_true',
    Option.isNone_iff_eq_none]
  exact ⟨r, ⟨hr, ⟨⟨hd, hw⟩, hres⟩, by rw [hname]; exact hs⟩, htok⟩

/-- non-vacuity, on `witness`: the reads of `y` (token 22, never assigned) is reported; the read of `g`
    (token 20) is not — `g` is assigned inside the function, so the machine hoists it; -/
example : undefinedReports (fun _ => false) (Core.analyse witness) = [22] := by decide

/-- the fold step of `undefined_variable` -/
def step (hasFields : String → Bool) (acc : List Nat × List Diag) (r : Ref) : List Nat × List Diag :=
  if r.resolved.isNone && r.read && !acc.1.contains r.ident
      && !(r.scopeId = 0 && r.name = "...") && !hasFields r.name then
    (r.ident :: acc.1, acc.2 ++ [{ code := "undefined_variable", primary := ⟨r.ident, r.ident⟩, detail := r.name }])
  else acc

theorem undefinedVariable_eq (hasFields : String → Bool) (σ : St) :
    undefinedVariable hasFields σ = (σ.refs.toList.foldl (step hasFields) ([], [])).2 := rfl

theorem fold_sound (hasFields : String → Bool) (refs : List Ref) (acc : List Nat × List Diag)
    (P : Diag → Prop) (hacc : ∀ d ∈ acc.2, P d)
    (hstep : ∀ r ∈ refs, r.resolved = none → r.read = true → hasFields r.name = false →
      ¬ (r.scopeId = 0 ∧ r.name = "...") →
      P { code := "undefined_variable", primary := ⟨r.ident, r.ident⟩, detail := r.name }) :
    ∀ d ∈ (refs.foldl (step hasFields) acc).2, P d := by
  induction refs generalizing acc with
  | nil => simpa using hacc
  | cons r rest ih =>
    simp only [List.foldl_cons]
    apply ih
    · unfold step
      split
      · rename_i hc
        simp only [Bool.and_eq_true, Bool.not_eq_true', Option.isNone_iff_eq_none, decide_eq_true_eq] at hc
        intro d hd
        simp only [List.mem_append, List.mem_singleton] at hd
        rcases hd with hd | hd
        · exact hacc d hd
        · subst hd
          obtain ⟨⟨⟨⟨h1, h2⟩, _⟩, h4⟩, h5⟩ := hc
          apply hstep r (by simp) h1 h2 h5
          intro ⟨ha, hb⟩
          simp [ha, hb] at h4
      · exact hacc
    · intro r' hr'; exact hstep r' (by simp [hr'])

/-- **C01 (lint soundness over the tables).** Every `undefined_variable` diagnostic sits exactly on
an identifier that the scope tables record as a *read* with *no* resolved variable, whose name is
not a standard-library global and that is not a main-chunk-level `...`. -/
theorem C01_lint_sound (hasFields : String → Bool) (σ : St) (d : Diag)
    (h : d ∈ undefinedVariable hasFields σ) :
    ∃ r ∈ σ.refs.toList, r.read = true ∧ r.resolved = none ∧ hasFields r.name = false ∧
      ¬ (r.scopeId = 0 ∧ r.name = "...") ∧ d.primary = ⟨r.ident, r.ident⟩ ∧ d.code = "undefined_variable" := by
  rw [undefinedVariable_eq] at h
  exact fold_sound hasFields σ.refs.toList ([], [])
    (fun d => ∃ r ∈ σ.refs.toList, r.read = true ∧ r.resolved = none ∧ hasFields r.name = false ∧
      ¬ (r.scopeId = 0 ∧ r.name = "...") ∧ d.primary = ⟨r.ident, r.ident⟩ ∧ d.code = "undefined_variable")
    (by simp) (fun r hr h1 h2 h3 h4 => ⟨r, hr, h2, h1, h3, h4, rfl, rfl⟩) d h

theorem fold_seen (hasFields : String → Bool) (refs : List Ref) (acc : List Nat × List Diag)
    (hinv : acc.2.map (·.primary.first) = acc.1.reverse) :
    ((refs.foldl (step hasFields) acc).2.map (·.primary.first)) = (refs.foldl (step hasFields) acc).1.reverse ∧
    (acc.1.Nodup → (refs.foldl (step hasFields) acc).1.Nodup) := by
  induction refs generalizing acc with
  | nil => exact ⟨hinv, id⟩
  | cons r rest ih =>
    simp only [List.foldl_cons]
    have hstep : (step hasFields acc r).2.map (·.primary.first) = (step hasFields acc r).1.reverse ∧
        (acc.1.Nodup → (step hasFields acc r).1.Nodup) := by
      unfold step
      split
      · rename_i hc
        simp only [Bool.and_eq_true, Bool.not_eq_true', Option.isNone_iff_eq_none, decide_eq_true_eq] at hc
        refine ⟨by simp [hinv], ?_⟩
        intro hn
        have : r.ident ∉ acc.1 := by
          have := hc.1.1.2
          simpa using this
        exact List.nodup_cons.mpr ⟨this, hn⟩
      · exact ⟨hinv, id⟩
    obtain ⟨a, b⟩ := ih (step hasFields acc r) hstep.1
    exact ⟨a, fun hn => b (hstep.2 hn)⟩

/-- **C01 (at most once).** No identifier is reported twice. -/
theorem C01_once (hasFields : String → Bool) (σ : St) :
    ((undefinedVariable hasFields σ).map (·.primary.first)).Nodup := by
  rw [undefinedVariable_eq]
  obtain ⟨a, b⟩ := fold_seen hasFields σ.refs.toList ([], []) rfl
  rw [a]
  have hn := b List.nodup_nil
  unfold List.Nodup at hn ⊢
  rw [List.pairwise_reverse]
  exact hn.imp (fun h => fun e => h e.symm)

/-- **C01 (exactly once, for the machine).** For every chunk whose reference tokens carry pairwise distinct indices
(token indices are positions in source order) and every library predicate: `undefined_variable` over the machine's log
reports no token twice (`Scope/Coherent.lean`: a read is never preceded by a reference at its token).  With
`C01_complete` — the unbound, never-assigned name *is* reported at its token — it is reported exactly once. -/
theorem C01_once_tree (hasFields : String → Bool) (b : Selene.Lua.Block) (h : (Core.refTokens b).Nodup) :
    (Core.undefinedReports hasFields (Core.analyse b)).Nodup :=
  Core.undefinedReports_nodup hasFields b h

end Selene.Props.C01
