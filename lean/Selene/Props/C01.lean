/-
C01 — undefined_variable agrees with Lua's lexical scoping rules.

Full statement (DESIGN §4 C01): for every chunk `c` and every identifier occurrence `o` in an
expression position, the declaration the scope tables record for `o` is the one Lua's scoping
rules give (`Spec.resolve`), hence the lint reports exactly the unbound, non-library, never
assigned names.

Proved here:
* `C01_resolution` (all chunks, no hypothesis): the scope-stack machine of `Scope/Core.lean` — scope
  stack with `...` barriers, global reference log, hoisting with its rewrite of earlier unresolved
  reads, eager reads before closures are entered, the if/elseif scope juggling, deferred loop
  variables — records for every identifier read exactly the local declaration that `Spec.resolve`
  (Lua 5.1 §2.6, environment passing, source order) assigns to it: the two answer lists are
  permutations of each other.  `Core` is compared with the real `ScopeManager` on every program of the
  correspondence run (every recorded read with its binding).
* `C01_lint_sound`, `C01_once`: what `undefined_variable` reports given the scope tables, for all
  tables (over the full ScopeVisitor model of `Scope/Model.lean`, compared table-by-table with the
  implementation on every run).
NOT a Lean theorem: that the full model's tables and `Core`'s reference log coincide (both are tied
to the implementation by the correspondence run, not to each other by proof).
-/
import Selene.Scope.Lints
import Selene.Scope.Spec
import Selene.Scope.CoreProof
import Selene.Scope.SpecProof
namespace Selene.Props.C01
open Selene.Scope Selene.Lua

/-- **C01 (resolution).** For every chunk, the reads recorded by the scope-stack machine, each with
the local declaration it resolves to (hoisted globals and blocked `...` counting as none), are
exactly — as a multiset — the identifier occurrences in expression positions that Lua's scoping rules
give, each with the declaration visible there. -/
theorem C01_log [Core.NameFilter] (b : Block) :
    (Core.analyse b).log.Perm (SpecProof.log (Spec.resolve b)) := by
  rw [CoreProof.analyse_eq b]
  exact (SpecProof.resolve_perm b).symm

theorem C01_resolution [Core.NameFilter] (b : Block) :
    (Core.analyse b).answers.Perm (SpecProof.reads (Spec.resolve b)) := by
  rw [← CoreProof.log_answers, ← SpecProof.log_reads]
  exact (C01_log b).filterMap _

/-- the same, pointwise: an answer of the machine is an occurrence of the specification and vice versa -/
theorem C01_resolution_mem [Core.NameFilter] (b : Block) (t : Nat) (d : Option Nat) :
    (t, d) ∈ (Core.analyse b).answers ↔
      ∃ oc ∈ (Spec.resolve b).occs, SpecProof.counted oc = true ∧ oc.tok = t ∧ oc.binding.map (·.1) = d := by
  rw [(C01_resolution b).mem_iff]
  simp only [SpecProof.reads, List.mem_map, List.mem_filter, Prod.mk.injEq]
  constructor
  · rintro ⟨oc, ⟨h1, h2⟩, h3, h4⟩; exact ⟨oc, h1, h2, h3, h4⟩
  · rintro ⟨oc, h1, h2, h3, h4⟩; exact ⟨oc, ⟨h1, h2⟩, h3, h4⟩

/-- `local x = 1; local function f(...) local x = x; g = x; return ..., g, y end` — shadowing, the
    initialiser seeing the outer `x`, a hoisted global, a vararg, an unbound name -/
def witness : Block :=
  let t (i : Nat) (s : String) : Tok := ⟨i, s⟩
  .mk none
    (.cons (.localAssign ⟨0, 3⟩ [t 1 "x"] (.cons (.num (t 3 "1")) .nil))
      (.cons (.localFunc ⟨4, 30⟩ (t 6 "f")
        (.mk ⟨7, 30⟩ [.dots (t 8 "...")]
          (.mk none
            (.cons (.localAssign ⟨10, 13⟩ [t 11 "x"] (.cons (.var (.name (t 13 "x"))) .nil))
              (.cons (.assign ⟨14, 16⟩ (.cons (.name (t 14 "g")) .nil) (.cons (.var (.name (t 16 "x"))) .nil)) .nil))
            (.ret ⟨17, 22⟩ (.cons (.dots (t 18 "...")) (.cons (.var (.name (t 20 "g"))) (.cons (.var (.name (t 22 "y"))) .nil)))))))
        .nil))
    .none

example : (@Core.analyse ⟨fun _ => true⟩ witness).answers = [(13, some 1), (16, some 11), (18, some 8), (20, none), (22, none)] := by decide
/-- … and its declarations: `f` (6) and the inner `x` (11) which re-uses the name of the outer `x` (1) -/
example : (@Core.analyse ⟨fun _ => true⟩ witness).shadows = [(1, none), (6, none), (11, some 1)] := by decide

/-- the fold step of `undefined_variable` -/
def step (hasFields : String → Bool) (acc : List Nat × List Diag) (r : Ref) : List Nat × List Diag :=
  if r.resolved.isNone && r.read && !acc.1.contains r.ident
      && !(r.scopeId = 0 && r.name = "...") && !hasFields r.name then
    (r.ident :: acc.1, acc.2 ++ [{ code := "undefined_variable", primary := ⟨r.ident, r.ident⟩, detail := r.name }])
  else acc

theorem undefinedVariable_eq (hasFields : String → Bool) (σ : St) :
    undefinedVariable hasFields σ = (σ.refs.toList.foldl (step hasFields) ([], [])).2 := rfl

theorem fold_sound (hasFields : String → Bool) (refs : List Ref) (acc : List Nat × List Diag)
    (P : Diag → Prop) (hacc : ∀ d ∈ acc.2, P d)
    (hstep : ∀ r ∈ refs, r.resolved = none → r.read = true → hasFields r.name = false →
      ¬ (r.scopeId = 0 ∧ r.name = "...") →
      P { code := "undefined_variable", primary := ⟨r.ident, r.ident⟩, detail := r.name }) :
    ∀ d ∈ (refs.foldl (step hasFields) acc).2, P d := by
  induction refs generalizing acc with
  | nil => simpa using hacc
  | cons r rest ih =>
    simp only [List.foldl_cons]
    apply ih
    · unfold step
      split
      · rename_i hc
        simp only [Bool.and_eq_true, Bool.not_eq_true', Option.isNone_iff_eq_none, decide_eq_true_eq] at hc
        intro d hd
        simp only [List.mem_append, List.mem_singleton] at hd
        rcases hd with hd | hd
        · exact hacc d hd
        · subst hd
          obtain ⟨⟨⟨⟨h1, h2⟩, _⟩, h4⟩, h5⟩ := hc
          apply hstep r (by simp) h1 h2 h5
          intro ⟨ha, hb⟩
          simp [ha, hb] at h4
      · exact hacc
    · intro r' hr'; exact hstep r' (by simp [hr'])

/-- **C01 (lint soundness over the tables).** Every `undefined_variable` diagnostic sits exactly on
an identifier that the scope tables record as a *read* with *no* resolved variable, whose name is
not a standard-library global and that is not a main-chunk-level `...`. -/
theorem C01_lint_sound (hasFields : String → Bool) (σ : St) (d : Diag)
    (h : d ∈ undefinedVariable hasFields σ) :
    ∃ r ∈ σ.refs.toList, r.read = true ∧ r.resolved = none ∧ hasFields r.name = false ∧
      ¬ (r.scopeId = 0 ∧ r.name = "...") ∧ d.primary = ⟨r.ident, r.ident⟩ ∧ d.code = "undefined_variable" := by
  rw [undefinedVariable_eq] at h
  exact fold_sound hasFields σ.refs.toList ([], [])
    (fun d => ∃ r ∈ σ.refs.toList, r.read = true ∧ r.resolved = none ∧ hasFields r.name = false ∧
      ¬ (r.scopeId = 0 ∧ r.name = "...") ∧ d.primary = ⟨r.ident, r.ident⟩ ∧ d.code = "undefined_variable")
    (by simp) (fun r hr h1 h2 h3 h4 => ⟨r, hr, h2, h1, h3, h4, rfl, rfl⟩) d h

theorem fold_seen (hasFields : String → Bool) (refs : List Ref) (acc : List Nat × List Diag)
    (hinv : acc.2.map (·.primary.first) = acc.1.reverse) :
    ((refs.foldl (step hasFields) acc).2.map (·.primary.first)) = (refs.foldl (step hasFields) acc).1.reverse ∧
    (acc.1.Nodup → (refs.foldl (step hasFields) acc).1.Nodup) := by
  induction refs generalizing acc with
  | nil => exact ⟨hinv, id⟩
  | cons r rest ih =>
    simp only [List.foldl_cons]
    have hstep : (step hasFields acc r).2.map (·.primary.first) = (step hasFields acc r).1.reverse ∧
        (acc.1.Nodup → (step hasFields acc r).1.Nodup) := by
      unfold step
      split
      · rename_i hc
        simp only [Bool.and_eq_true, Bool.not_eq_true', Option.isNone_iff_eq_none, decide_eq_true_eq] at hc
        refine ⟨by simp [hinv], ?_⟩
        intro hn
        have : r.ident ∉ acc.1 := by
          have := hc.1.1.2
          simpa using this
        exact List.nodup_cons.mpr ⟨this, hn⟩
      · exact ⟨hinv, id⟩
    obtain ⟨a, b⟩ := ih (step hasFields acc r) hstep.1
    exact ⟨a, fun hn => b (hstep.2 hn)⟩

/-- **C01 (at most once).** No identifier is reported twice. -/
theorem C01_once (hasFields : String → Bool) (σ : St) :
    ((undefinedVariable hasFields σ).map (·.primary.first)).Nodup := by
  rw [undefinedVariable_eq]
  obtain ⟨a, b⟩ := fold_seen hasFields σ.refs.toList ([], []) rfl
  rw [a]
  have hn := b List.nodup_nil
  unfold List.Nodup at hn ⊢
  rw [List.pairwise_reverse]
  exact hn.imp (fun h => fun e => h e.symm)

end Selene.Props.C01
