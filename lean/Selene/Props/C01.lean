/-
C01 — undefined_variable agrees with Lua's lexical scoping rules.

Full statement (DESIGN §4 C01): for every chunk `c` and every identifier occurrence `o` in an
expression position, the declaration the scope tables record for `o` is the one Lua's scoping
rules give (`Spec.resolve`), hence the lint reports exactly the unbound, non-library, never
assigned names.  STATUS: the resolution equivalence `analyse = Spec.resolve` is NOT yet a Lean
theorem for this model; it is checked three-way (implementation tables / this model / `Spec.resolve`)
on every fixture and generated program by the correspondence run, which is how the defects fixed in
/repo (see known_findings.txt) were found.  Proved here, for all scope tables: what the lint
reports given the tables.
-/
import Selene.Scope.Lints
import Selene.Scope.Spec
namespace Selene.Props.C01
open Selene.Scope Selene.Lua

/-- the fold step of `undefined_variable` -/
def step (hasFields : String → Bool) (acc : List Nat × List Diag) (r : Ref) : List Nat × List Diag :=
  if r.resolved.isNone && r.read && !acc.1.contains r.ident
      && !(r.scopeId = 0 && r.name = "...") && !hasFields r.name then
    (r.ident :: acc.1, acc.2 ++ [{ code := "undefined_variable", primary := ⟨r.ident, r.ident⟩, detail := r.name }])
  else acc

theorem undefinedVariable_eq (hasFields : String → Bool) (σ : St) :
    undefinedVariable hasFields σ = (σ.refs.toList.foldl (step hasFields) ([], [])).2 := rfl

theorem fold_sound (hasFields : String → Bool) (refs : List Ref) (acc : List Nat × List Diag)
    (P : Diag → Prop) (hacc : ∀ d ∈ acc.2, P d)
    (hstep : ∀ r ∈ refs, r.resolved = none → r.read = true → hasFields r.name = false →
      ¬ (r.scopeId = 0 ∧ r.name = "...") →
      P { code := "undefined_variable", primary := ⟨r.ident, r.ident⟩, detail := r.name }) :
    ∀ d ∈ (refs.foldl (step hasFields) acc).2, P d := by
  induction refs generalizing acc with
  | nil => simpa using hacc
  | cons r rest ih =>
    simp only [List.foldl_cons]
    apply ih
    · unfold step
      split
      · rename_i hc
        simp only [Bool.and_eq_true, Bool.not_eq_true', Option.isNone_iff_eq_none, decide_eq_true_eq] at hc
        intro d hd
        simp only [List.mem_append, List.mem_singleton] at hd
        rcases hd with hd | hd
        · exact hacc d hd
        · subst hd
          obtain ⟨⟨⟨⟨h1, h2⟩, _⟩, h4⟩, h5⟩ := hc
          apply hstep r (by simp) h1 h2 h5
          intro ⟨ha, hb⟩
          simp [ha, hb] at h4
      · exact hacc
    · intro r' hr'; exact hstep r' (by simp [hr'])

/-- **C01 (lint soundness over the tables).** Every `undefined_variable` diagnostic sits exactly on
an identifier that the scope tables record as a *read* with *no* resolved variable, whose name is
not a standard-library global and that is not a main-chunk-level `...`. -/
theorem C01_lint_sound (hasFields : String → Bool) (σ : St) (d : Diag)
    (h : d ∈ undefinedVariable hasFields σ) :
    ∃ r ∈ σ.refs.toList, r.read = true ∧ r.resolved = none ∧ hasFields r.name = false ∧
      ¬ (r.scopeId = 0 ∧ r.name = "...") ∧ d.primary = ⟨r.ident, r.ident⟩ ∧ d.code = "undefined_variable" := by
  rw [undefinedVariable_eq] at h
  exact fold_sound hasFields σ.refs.toList ([], [])
    (fun d => ∃ r ∈ σ.refs.toList, r.read = true ∧ r.resolved = none ∧ hasFields r.name = false ∧
      ¬ (r.scopeId = 0 ∧ r.name = "...") ∧ d.primary = ⟨r.ident, r.ident⟩ ∧ d.code = "undefined_variable")
    (by simp) (fun r hr h1 h2 h3 h4 => ⟨r, hr, h2, h1, h3, h4, rfl, rfl⟩) d h

theorem fold_seen (hasFields : String → Bool) (refs : List Ref) (acc : List Nat × List Diag)
    (hinv : acc.2.map (·.primary.first) = acc.1.reverse) :
    ((refs.foldl (step hasFields) acc).2.map (·.primary.first)) = (refs.foldl (step hasFields) acc).1.reverse ∧
    (acc.1.Nodup → (refs.foldl (step hasFields) acc).1.Nodup) := by
  induction refs generalizing acc with
  | nil => exact ⟨hinv, id⟩
  | cons r rest ih =>
    simp only [List.foldl_cons]
    have hstep : (step hasFields acc r).2.map (·.primary.first) = (step hasFields acc r).1.reverse ∧
        (acc.1.Nodup → (step hasFields acc r).1.Nodup) := by
      unfold step
      split
      · rename_i hc
        simp only [Bool.and_eq_true, Bool.not_eq_true', Option.isNone_iff_eq_none, decide_eq_true_eq] at hc
        refine ⟨by simp [hinv], ?_⟩
        intro hn
        have : r.ident ∉ acc.1 := by
          have := hc.1.1.2
          simpa using this
        exact List.nodup_cons.mpr ⟨this, hn⟩
      · exact ⟨hinv, id⟩
    obtain ⟨a, b⟩ := ih (step hasFields acc r) hstep.1
    exact ⟨a, fun hn => b (hstep.2 hn)⟩

/-- **C01 (at most once).** No identifier is reported twice. -/
theorem C01_once (hasFields : String → Bool) (σ : St) :
    ((undefinedVariable hasFields σ).map (·.primary.first)).Nodup := by
  rw [undefinedVariable_eq]
  obtain ⟨a, b⟩ := fold_seen hasFields σ.refs.toList ([], []) rfl
  rw [a]
  have hn := b List.nodup_nil
  unfold List.Nodup at hn ⊢
  rw [List.pairwise_reverse]
  exact hn.imp (fun h => fun e => h e.symm)

end Selene.Props.C01
