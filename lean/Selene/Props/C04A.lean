/-
C04 (half A) — the expression-level closed-form lints fire exactly on their documented condition.

For each lint `L` (model `L.lint`, the transcription of the Rust visitor; specification `Doc.L`,
`Canon.L` written from docs/src/lints/L.md with literals judged by value):

* `L_sound`  — every diagnostic of the model is justified by a node of the program that satisfies
               the documented condition.  Where the code as it is violates this, the theorem carries
               the hypothesis that excludes the defect and `L_defect` is a concrete program on which
               the model (= the code, by the correspondence run) reports an unjustified diagnostic.
* `L_canon`  — the documented canonical pattern is reported in EVERY context: for every node `n`
               that requires a diagnostic, every statement `s` containing `n` and every one-hole
               context `ctx` (any block position at any nesting depth), `L.lint (ctx.plug s)` contains
               the diagnostic.
-/
import Selene.Lints.ExamplesA
namespace Selene.Props.C04A
open Selene.Lua Selene.Lints

/-- plugging a statement into any context keeps every visited node of the statement -/
theorem context_preserves_nodes (ctx : BCtx) (s : Stmt) (n : Node) (h : n ∈ nodesS s) : n ∈ nodesB (ctx.plug s) :=
  nodes_plug ctx s n h

example : Ex.deepCtx.depth = 3 := by decide

/-! ### divide_by_zero -/

theorem divide_by_zero_sound (b : Block) (g : Diag) (h : g ∈ DivideByZero.lint b)
    (hplain : (nodesB b).all plainZeroDividend = true) : ∃ n ∈ nodesB b, Doc.divideByZero n g = true :=
  sound_lift DivideByZero.hook_sound h hplain

set_option exponentiation.threshold 1100 in
example : (nodesB (Ex.prog Ex.divCanon)).all plainZeroDividend = true ∧ DivideByZero.lint (Ex.prog Ex.divCanon) ≠ [] := by decide

set_option exponentiation.threshold 1100 in
/-- `x = 0.0 / 0` is reported although `0/0` is documented as allowed: only the spelling `0` is recognised -/
theorem divide_by_zero_defect :
    ∃ g ∈ DivideByZero.lint (Ex.prog Ex.divDefect), ∀ n ∈ nodesB (Ex.prog Ex.divDefect), Doc.divideByZero n g = false := by
  decide

theorem divide_by_zero_canon (n : Node) (x : Expect) (hx : x ∈ Canon.divideByZero n) (s : Stmt) (hn : n ∈ nodesS s)
    (ctx : BCtx) : ∃ g ∈ DivideByZero.lint (ctx.plug s), x.matches g = true :=
  canon_lift DivideByZero.hook_canon hx hn ctx

set_option exponentiation.threshold 1100 in
example : Canon.divideByZero (.expr (Ex.divBy0 "1")) ≠ [] ∧ Node.expr (Ex.divBy0 "1") ∈ nodesS Ex.divCanon := by
  refine ⟨by decide, ?_⟩
  simp [Ex.divCanon, Ex.assignTo, nodesS, nodesEL, nodesE, Ex.divBy0]

/-! ### compare_nan -/

theorem compare_nan_sound (b : Block) (g : Diag) (h : g ∈ CompareNan.lint b) : ∃ n ∈ nodesB b, Doc.compareNan n g = true :=
  sound_lift (ok := fun _ => true) (fun n g hg _ => CompareNan.hook_sound n g hg) h (by simp)

theorem compare_nan_canon (n : Node) (x : Expect) (hx : x ∈ Canon.compareNan n) (s : Stmt) (hn : n ∈ nodesS s)
    (ctx : BCtx) : ∃ g ∈ CompareNan.lint (ctx.plug s), x.matches g = true :=
  canon_lift CompareNan.hook_canon hx hn ctx

example : Canon.compareNan (.expr Ex.nanExpr) ≠ [] ∧ CompareNan.lint (Ex.deepCtx.plug Ex.nanCanon) ≠ [] := by decide

/-! ### suspicious_reverse_loop -/

theorem suspicious_reverse_loop_sound (b : Block) (g : Diag) (h : g ∈ SuspiciousReverseLoop.lint b)
    (hplain : (nodesB b).all plainBound = true) : ∃ n ∈ nodesB b, Doc.suspiciousReverseLoop n g = true :=
  sound_lift SuspiciousReverseLoop.hook_sound h hplain

example : (nodesB (Ex.prog (Ex.loop "1"))).all plainBound = true ∧ SuspiciousReverseLoop.lint (Ex.prog (Ex.loop "1")) ≠ [] := by decide

/-- `for i = #t, 0x10 do end` is reported: `str::parse::<f32>("0x10")` fails and `None <= Some(1.0)` -/
theorem suspicious_reverse_loop_defect_hex :
    ∃ g ∈ SuspiciousReverseLoop.lint (Ex.prog (Ex.loop "0x10")),
      ∀ n ∈ nodesB (Ex.prog (Ex.loop "0x10")), Doc.suspiciousReverseLoop n g = false := by
  decide

/-- `for i = #t, 1.00000001 do end` is reported: the bound is rounded to single precision first -/
theorem suspicious_reverse_loop_defect_rounding :
    ∃ g ∈ SuspiciousReverseLoop.lint (Ex.prog (Ex.loop "1.00000001")),
      ∀ n ∈ nodesB (Ex.prog (Ex.loop "1.00000001")), Doc.suspiciousReverseLoop n g = false := by
  decide

theorem suspicious_reverse_loop_canon (n : Node) (x : Expect) (hx : x ∈ Canon.suspiciousReverseLoop n) (s : Stmt)
    (hn : n ∈ nodesS s) (ctx : BCtx) : ∃ g ∈ SuspiciousReverseLoop.lint (ctx.plug s), x.matches g = true :=
  canon_lift SuspiciousReverseLoop.hook_canon hx hn ctx

example : Canon.suspiciousReverseLoop (.stmt (Ex.loop "1")) ≠ [] ∧ Node.stmt (Ex.loop "1") ∈ nodesS (Ex.loop "1") := by
  refine ⟨by decide, ?_⟩
  simp [Ex.loop, nodesS]

/-! ### mixed_table -/

theorem mixed_table_sound (b : Block) (g : Diag) (h : g ∈ MixedTable.lint b) : ∃ n ∈ nodesB b, Doc.mixedTable n g = true :=
  sound_lift (ok := fun _ => true) (fun n g hg _ => MixedTable.hook_sound n g hg) h (by simp)

theorem mixed_table_canon (n : Node) (x : Expect) (hx : x ∈ Canon.mixedTable n) (s : Stmt) (hn : n ∈ nodesS s)
    (ctx : BCtx) : ∃ g ∈ MixedTable.lint (ctx.plug s), x.matches g = true :=
  canon_lift MixedTable.hook_canon hx hn ctx

example : MixedTable.lint (Ex.deepCtx.plug Ex.mixedCanon) ≠ [] := by decide

/-! ### constant_table_comparison -/

theorem constant_table_comparison_sound (b : Block) (g : Diag) (h : g ∈ ConstantTableComparison.lint b) :
    ∃ n ∈ nodesB b, Doc.constantTableComparison n g = true :=
  sound_lift (ok := fun _ => true) (fun n g hg _ => ConstantTableComparison.hook_sound n g hg) h (by simp)

theorem constant_table_comparison_canon (n : Node) (x : Expect) (hx : x ∈ Canon.constantTableComparison n) (s : Stmt)
    (hn : n ∈ nodesS s) (ctx : BCtx) : ∃ g ∈ ConstantTableComparison.lint (ctx.plug s), x.matches g = true :=
  canon_lift ConstantTableComparison.hook_canon hx hn ctx

example : Canon.constantTableComparison (.expr Ex.ctcExpr) ≠ [] ∧ ConstantTableComparison.lint (Ex.deepCtx.plug Ex.ctcCanon) ≠ [] := by decide

/-! ### type_check_inside_call -/

theorem type_check_inside_call_sound (roblox : Bool) (b : Block) (g : Diag) (h : g ∈ TypeCheckInsideCall.lint roblox b) :
    ∃ n ∈ nodesB b, Doc.typeCheckInsideCall roblox n g = true :=
  sound_lift (ok := fun _ => true) (fun n g hg _ => TypeCheckInsideCall.hook_sound roblox n g hg) h (by simp)

theorem type_check_inside_call_canon (roblox : Bool) (n : Node) (x : Expect) (hx : x ∈ Canon.typeCheckInsideCall roblox n)
    (s : Stmt) (hn : n ∈ nodesS s) (ctx : BCtx) : ∃ g ∈ TypeCheckInsideCall.lint roblox (ctx.plug s), x.matches g = true :=
  canon_lift (TypeCheckInsideCall.hook_canon roblox) hx hn ctx

example : Canon.typeCheckInsideCall false (.call Ex.typeCall) ≠ [] ∧ TypeCheckInsideCall.lint false (Ex.deepCtx.plug Ex.typeCanon) ≠ [] := by decide

/-! ### parenthese_conditions -/

theorem parenthese_conditions_sound (b : Block) (g : Diag) (h : g ∈ ParentheseConditions.lint b) :
    ∃ n ∈ nodesB b, Doc.parentheseConditions n g = true :=
  sound_lift (ok := fun _ => true) (fun n g hg _ => ParentheseConditions.hook_sound n g hg) h (by simp)

theorem parenthese_conditions_canon (n : Node) (x : Expect) (hx : x ∈ Canon.parentheseConditions n) (s : Stmt)
    (hn : n ∈ nodesS s) (ctx : BCtx) : ∃ g ∈ ParentheseConditions.lint (ctx.plug s), x.matches g = true :=
  canon_lift ParentheseConditions.hook_canon hx hn ctx

example : Canon.parentheseConditions (.stmt Ex.whileParen) ≠ [] ∧ ParentheseConditions.lint (Ex.deepCtx.plug Ex.whileParen) ≠ [] := by decide

/-! ### duplicate_keys -/

theorem duplicate_keys_sound (b : Block) (g : Diag) (h : g ∈ DuplicateKeys.lint b)
    (hplain : (nodesB b).all plainKeys = true) : ∃ n ∈ nodesB b, Doc.duplicateKeys n g = true :=
  sound_lift DuplicateKeys.hook_sound h hplain

example : (nodesB (Ex.prog Ex.dupCanon)).all plainKeys = true ∧ DuplicateKeys.lint (Ex.prog Ex.dupCanon) ≠ [] := by decide

/-- `{ ["\n"] = 1, [ [[\n]] ] = 2 }` (a line feed; a backslash and an `n`) is reported as a duplicate:
the raw text between the delimiters is compared whatever the quote kind -/
theorem duplicate_keys_defect :
    ∃ g ∈ DuplicateKeys.lint (Ex.prog Ex.dupDefect), ∀ n ∈ nodesB (Ex.prog Ex.dupDefect), Doc.duplicateKeys n g = false := by
  decide

/- Full statement (not proved; it needs the converse invariant of `DuplicateKeys.fields_sound`: every
   earlier canonical key is in `declared`):
     theorem duplicate_keys_canon (n : Node) (x : Expect) (hx : x ∈ Canon.duplicateKeys n) (s : Stmt)
       (hn : n ∈ nodesS s) (ctx : BCtx) : ∃ g ∈ DuplicateKeys.lint (ctx.plug s), x.matches g = true
   Proved instead: the documented example is reported in every context; the general statement is
   checked on every generated table by the correspondence run (`missed-canonical` clauses). -/
theorem duplicate_keys_canon_partial (ctx : BCtx) :
    ∃ g ∈ DuplicateKeys.lint (ctx.plug Ex.dupCanon), g.primary = ⟨7, 11⟩ ∧ g.secondary = [⟨3, 5⟩] := by
  refine ⟨{ code := "duplicate_keys", primary := ⟨7, 11⟩, msg := DuplicateKeys.message "a", secondary := [⟨3, 5⟩] }, ?_, rfl, rfl⟩
  refine runLint_plug _ ctx _ _ ⟨.table ⟨2, 12⟩ (match Ex.dupCanonTbl with | .tbl _ fs => fs | _ => .nil), ?_, by decide⟩
  simp [Ex.dupCanon, Ex.assignTo, Ex.dupCanonTbl, nodesS, nodesEL, nodesE]

example : Canon.duplicateKeys (.table ⟨2, 12⟩ (match Ex.dupCanonTbl with | .tbl _ fs => fs | _ => .nil)) = [{ primary := ⟨7, 11⟩ }] := by decide

/-! ### bad_string_escape -/

/-- `"\3a0"` (the escape `\3` followed by `a0`) is reported "decimal escape is too high": the regular
expression swallows hexadecimal digits and the check adds the hundreds to the third character -/
theorem bad_string_escape_defect_hex_digits :
    ∃ g ∈ BadStringEscape.lint false (Ex.prog (Ex.strAssign "\\3a0")),
      ∀ n ∈ nodesB (Ex.prog (Ex.strAssign "\\3a0")), Doc.badStringEscape false n g = false := by
  decide

/-- (Roblox) `"\x414"` is reported malformed although `\x41` has its two digits -/
theorem bad_string_escape_defect_x_digits :
    ∃ g ∈ BadStringEscape.lint true (Ex.prog (Ex.strAssign "\\x414")),
      ∀ n ∈ nodesB (Ex.prog (Ex.strAssign "\\x414")), Doc.badStringEscape true n g = false := by
  decide

/-- a backslash before CR LF (a line continuation in a CRLF file) is reported as a non-existent escape -/
theorem bad_string_escape_defect_crlf :
    ∃ g ∈ BadStringEscape.lint false (Ex.prog (Ex.strAssign "a\\\r\nb")),
      ∀ n ∈ nodesB (Ex.prog (Ex.strAssign "a\\\r\nb")), Doc.badStringEscape false n g = false := by
  decide

/-- `"\256"` is not reported (by-value miss: the tens digit is never read) -/
theorem bad_string_escape_miss_256 :
    BadStringEscape.lint false (Ex.prog (Ex.strAssign "\\256")) = [] ∧
      ByValue.badStringEscape false (.expr (.str ⟨2, "\"\\256\""⟩ .double "\\256")) ≠ [] := by
  decide

/- Full statements (not proved: they need "the regular expression's matches start exactly at the
   backslashes where a Lua lexer starts an escape", an induction over both scanners):
     theorem bad_string_escape_sound (roblox) (b) (g) (h : g ∈ BadStringEscape.lint roblox b)
       (hplain : no decimal / `\x` escape of b is followed by a hexadecimal digit, no CR after a backslash) :
       ∃ n ∈ nodesB b, Doc.badStringEscape roblox n g = true
     theorem bad_string_escape_canon (roblox) (n) (x) (hx : x ∈ Canon.badStringEscape roblox n) (s) (hn : n ∈ nodesS s) (ctx) :
       ∃ g ∈ BadStringEscape.lint roblox (ctx.plug s), x.matches g = true
   Proved instead: the three documented examples are reported in every context; both statements are
   evaluated on every generated string by the correspondence run. -/
theorem bad_string_escape_canon_partial (ctx : BCtx) :
    (∃ g ∈ BadStringEscape.lint false (ctx.plug (Ex.strAssign "\\m")), g.sub = some (1, 3) ∧ g.msg = BadStringEscape.msgInvalid) ∧
    (∃ g ∈ BadStringEscape.lint false (ctx.plug (Ex.strAssign "don\\'t")), g.sub = some (4, 6) ∧ g.msg = BadStringEscape.msgSingleInDouble) ∧
    (∃ g ∈ BadStringEscape.lint true (ctx.plug (Ex.strAssign "\\u{110000}")), g.sub = some (1, 11) ∧ g.msg = BadStringEscape.msgCodepoint) := by
  refine ⟨?_, ?_, ?_⟩
  · refine ⟨{ code := "bad_string_escape", primary := ⟨2, 2⟩, msg := BadStringEscape.msgInvalid, sub := some (1, 3) }, ?_, rfl, rfl⟩
    exact runLint_plug _ ctx _ _ ⟨.expr (.str ⟨2, "\"\\m\""⟩ .double "\\m"), by simp [Ex.strAssign, Ex.assignTo, nodesS, nodesEL, nodesE], by decide⟩
  · refine ⟨{ code := "bad_string_escape", primary := ⟨2, 2⟩, msg := BadStringEscape.msgSingleInDouble, sub := some (4, 6) }, ?_, rfl, rfl⟩
    exact runLint_plug _ ctx _ _ ⟨.expr (.str ⟨2, "\"don\\'t\""⟩ .double "don\\'t"), by simp [Ex.strAssign, Ex.assignTo, nodesS, nodesEL, nodesE], by decide⟩
  · refine ⟨{ code := "bad_string_escape", primary := ⟨2, 2⟩, msg := BadStringEscape.msgCodepoint, sub := some (1, 11) }, ?_, rfl, rfl⟩
    exact runLint_plug _ ctx _ _ ⟨.expr (.str ⟨2, "\"\\u{110000}\""⟩ .double "\\u{110000}"), by simp [Ex.strAssign, Ex.assignTo, nodesS, nodesEL, nodesE], by decide⟩


end Selene.Props.C04A
