/-
C04 (half A) — the expression-level closed-form lints fire exactly on their documented condition.

For each lint `L` (model `L.lint`, the transcription of the Rust visitor; specification `Doc.L`,
`Canon.L` written from docs/src/lints/L.md with literals judged by value):

* `L_sound`  — every diagnostic of the model is justified by a node of the program that satisfies
               the documented condition.  Where the code as it is violates this, the theorem carries
               the hypothesis that excludes the defect and `L_defect` is a concrete program on which
               the model (= the code, by the correspondence run) reports an unjustified diagnostic.
               (After the /repo fixes 9a12c1a, fe466a6, 1da8247, 13926c7, ca6ead7, e3c77cd only duplicate_keys
               still needs such a hypothesis; the former witnesses are now `…_fixed_…` theorems.)
* `L_by_value` — where the code now judges literals by value: the pattern is reported in every context
               however its literals are spelled.
* `L_canon`  — the documented canonical pattern is reported in EVERY context: for every node `n`
               that requires a diagnostic, every statement `s` containing `n` and every one-hole
               context `ctx` (any block position at any nesting depth), `L.lint (ctx.plug s)` contains
               the diagnostic.
-/
import Selene.Lints.ExamplesA
import Selene.Lints.EscapeProof
import Selene.Lints.DupKeysComplete
namespace Selene.Props.C04A
open Selene.Lua Selene.Lints

/-- plugging a statement into any context keeps every visited node of the statement -/
theorem context_preserves_nodes (ctx : BCtx) (s : Stmt) (n : Node) (h : n ∈ nodesS s) : n ∈ nodesB (ctx.plug s) :=
  nodes_plug ctx s n h

example : Ex.deepCtx.depth = 3 := by decide

/-! ### divide_by_zero -/

theorem divide_by_zero_sound (b : Block) (g : Diag) (h : g ∈ DivideByZero.lint b) :
    ∃ n ∈ nodesB b, Doc.divideByZero n g = true :=
  sound_lift (ok := fun _ => true) (fun n g hg _ => DivideByZero.hook_sound n g hg) h (by simp)

/-- the lint's zero test is the by-value test (`ast_util::number_is_zero`, /repo 1da8247) -/
theorem number_is_zero_by_value (text : String) : numberIsZero text = zeroText text := numberIsZero_eq text

set_option exponentiation.threshold 1100 in
/-- formerly `divide_by_zero_defect`: `x = 0.0 / 0` is no longer reported (`0/0` is documented as allowed) -/
theorem divide_by_zero_fixed_zero_dividend : DivideByZero.lint (Ex.prog Ex.divDefect) = [] := by decide

theorem divide_by_zero_canon (n : Node) (x : Expect) (hx : x ∈ Canon.divideByZero n) (s : Stmt) (hn : n ∈ nodesS s)
    (ctx : BCtx) : ∃ g ∈ DivideByZero.lint (ctx.plug s), x.matches g = true :=
  canon_lift DivideByZero.hook_canon hx hn ctx

/-- `n / <zero>` is reported in every context however the zero is spelled -/
theorem divide_by_zero_by_value (n : Node) (x : Expect) (hx : x ∈ ByValue.divideByZero n) (s : Stmt) (hn : n ∈ nodesS s)
    (ctx : BCtx) : ∃ g ∈ DivideByZero.lint (ctx.plug s), x.matches g = true :=
  canon_lift DivideByZero.hook_byValue hx hn ctx

set_option exponentiation.threshold 1100 in
example : Canon.divideByZero (.expr (Ex.divBy0 "1")) ≠ [] ∧ Node.expr (Ex.divBy0 "1") ∈ nodesS Ex.divCanon := by
  refine ⟨by decide, ?_⟩
  simp [Ex.divCanon, Ex.assignTo, nodesS, nodesEL, nodesE, Ex.divBy0]

set_option exponentiation.threshold 1100 in
example : ByValue.divideByZero (.expr (.bin ⟨2, 4⟩ (.num ⟨2, "1"⟩) ⟨3, "/"⟩ (.num ⟨4, "0x00"⟩))) ≠ [] := by decide

/-! ### compare_nan -/

theorem compare_nan_sound (b : Block) (g : Diag) (h : g ∈ CompareNan.lint b) : ∃ n ∈ nodesB b, Doc.compareNan n g = true :=
  sound_lift (ok := fun _ => true) (fun n g hg _ => CompareNan.hook_sound n g hg) h (by simp)

theorem compare_nan_canon (n : Node) (x : Expect) (hx : x ∈ Canon.compareNan n) (s : Stmt) (hn : n ∈ nodesS s)
    (ctx : BCtx) : ∃ g ∈ CompareNan.lint (ctx.plug s), x.matches g = true :=
  canon_lift CompareNan.hook_canon hx hn ctx

/-- `x == <zero>/<zero>` is reported in every context however the zeros are spelled -/
theorem compare_nan_by_value (n : Node) (x : Expect) (hx : x ∈ ByValue.compareNan n) (s : Stmt) (hn : n ∈ nodesS s)
    (ctx : BCtx) : ∃ g ∈ CompareNan.lint (ctx.plug s), x.matches g = true :=
  canon_lift CompareNan.hook_byValue hx hn ctx

set_option exponentiation.threshold 1100 in
example : Canon.compareNan (.expr Ex.nanExpr) ≠ [] ∧ CompareNan.lint (Ex.deepCtx.plug Ex.nanCanon) ≠ [] := by decide

/-! ### suspicious_reverse_loop -/

theorem suspicious_reverse_loop_sound (b : Block) (g : Diag) (h : g ∈ SuspiciousReverseLoop.lint b) :
    ∃ n ∈ nodesB b, Doc.suspiciousReverseLoop n g = true :=
  sound_lift (ok := fun _ => true) (fun n g hg _ => SuspiciousReverseLoop.hook_sound n g hg) h (by simp)

example : SuspiciousReverseLoop.lint (Ex.prog (Ex.loop "1")) ≠ [] := by decide

/-- formerly `suspicious_reverse_loop_defect_hex`: `for i = #t, 0x10 do end` is no longer reported -/
theorem suspicious_reverse_loop_fixed_hex : SuspiciousReverseLoop.lint (Ex.prog (Ex.loop "0x10")) = [] := by decide

/-- formerly `suspicious_reverse_loop_defect_rounding`: `for i = #t, 1.00000001 do end` is no longer reported -/
theorem suspicious_reverse_loop_fixed_rounding : SuspiciousReverseLoop.lint (Ex.prog (Ex.loop "1.00000001")) = [] := by decide

theorem suspicious_reverse_loop_canon (n : Node) (x : Expect) (hx : x ∈ Canon.suspiciousReverseLoop n) (s : Stmt)
    (hn : n ∈ nodesS s) (ctx : BCtx) : ∃ g ∈ SuspiciousReverseLoop.lint (ctx.plug s), x.matches g = true :=
  canon_lift SuspiciousReverseLoop.hook_canon hx hn ctx

example : Canon.suspiciousReverseLoop (.stmt (Ex.loop "1")) ≠ [] ∧ Node.stmt (Ex.loop "1") ∈ nodesS (Ex.loop "1") := by
  refine ⟨by decide, ?_⟩
  simp [Ex.loop, nodesS]

/-- the lint's bound test is the by-value test for every spelling (`number_value`, /repo fe466a6) -/
theorem bound_test_by_value (text : String) : numberValueLeOne text = leOneText text := numberValueLeOne_eq text

/-- a bound denoting a value `≤ 1`, spelled in any form (`1.0`, `1e0`, `10e-1`, `0.5`, `0x1`, `0X00`, …), is
reported in every context -/
theorem suspicious_reverse_loop_by_value (n : Node) (x : Expect) (hx : x ∈ ByValue.suspiciousReverseLoop n) (s : Stmt)
    (hn : n ∈ nodesS s) (ctx : BCtx) : ∃ g ∈ SuspiciousReverseLoop.lint (ctx.plug s), x.matches g = true :=
  canon_lift SuspiciousReverseLoop.hook_byValue hx hn ctx

example : ByValue.suspiciousReverseLoop (.stmt (Ex.loop "10e-1")) ≠ [] ∧ ByValue.suspiciousReverseLoop (.stmt (Ex.loop "0x1")) ≠ [] := by decide

/-- formerly `suspicious_reverse_loop_miss_hex_one`: `for i = #t, 0x1 do end` is reported, in any context -/
theorem suspicious_reverse_loop_fixed_hex_one (ctx : BCtx) :
    ∃ g ∈ SuspiciousReverseLoop.lint (ctx.plug (Ex.loop "0x1")), g.primary = ⟨3, 6⟩ := by
  refine ⟨{ code := "suspicious_reverse_loop", primary := ⟨3, 6⟩, msg := SuspiciousReverseLoop.message }, ?_, rfl⟩
  exact runLint_plug _ ctx _ _ ⟨.stmt (Ex.loop "0x1"), by simp [Ex.loop, nodesS], by decide⟩

/-! ### mixed_table -/

theorem mixed_table_sound (b : Block) (g : Diag) (h : g ∈ MixedTable.lint b) : ∃ n ∈ nodesB b, Doc.mixedTable n g = true :=
  sound_lift (ok := fun _ => true) (fun n g hg _ => MixedTable.hook_sound n g hg) h (by simp)

theorem mixed_table_canon (n : Node) (x : Expect) (hx : x ∈ Canon.mixedTable n) (s : Stmt) (hn : n ∈ nodesS s)
    (ctx : BCtx) : ∃ g ∈ MixedTable.lint (ctx.plug s), x.matches g = true :=
  canon_lift MixedTable.hook_canon hx hn ctx

example : MixedTable.lint (Ex.deepCtx.plug Ex.mixedCanon) ≠ [] := by decide

/-! ### constant_table_comparison -/

theorem constant_table_comparison_sound (b : Block) (g : Diag) (h : g ∈ ConstantTableComparison.lint b) :
    ∃ n ∈ nodesB b, Doc.constantTableComparison n g = true :=
  sound_lift (ok := fun _ => true) (fun n g hg _ => ConstantTableComparison.hook_sound n g hg) h (by simp)

theorem constant_table_comparison_canon (n : Node) (x : Expect) (hx : x ∈ Canon.constantTableComparison n) (s : Stmt)
    (hn : n ∈ nodesS s) (ctx : BCtx) : ∃ g ∈ ConstantTableComparison.lint (ctx.plug s), x.matches g = true :=
  canon_lift ConstantTableComparison.hook_canon hx hn ctx

example : Canon.constantTableComparison (.expr Ex.ctcExpr) ≠ [] ∧ ConstantTableComparison.lint (Ex.deepCtx.plug Ex.ctcCanon) ≠ [] := by decide

/-! ### type_check_inside_call -/

theorem type_check_inside_call_sound (roblox : Bool) (b : Block) (g : Diag) (h : g ∈ TypeCheckInsideCall.lint roblox b) :
    ∃ n ∈ nodesB b, Doc.typeCheckInsideCall roblox n g = true :=
  sound_lift (ok := fun _ => true) (fun n g hg _ => TypeCheckInsideCall.hook_sound roblox n g hg) h (by simp)

theorem type_check_inside_call_canon (roblox : Bool) (n : Node) (x : Expect) (hx : x ∈ Canon.typeCheckInsideCall roblox n)
    (s : Stmt) (hn : n ∈ nodesS s) (ctx : BCtx) : ∃ g ∈ TypeCheckInsideCall.lint roblox (ctx.plug s), x.matches g = true :=
  canon_lift (TypeCheckInsideCall.hook_canon roblox) hx hn ctx

example : Canon.typeCheckInsideCall false (.call Ex.typeCall) ≠ [] ∧ TypeCheckInsideCall.lint false (Ex.deepCtx.plug Ex.typeCanon) ≠ [] := by decide

/-! ### parenthese_conditions -/

theorem parenthese_conditions_sound (b : Block) (g : Diag) (h : g ∈ ParentheseConditions.lint b) :
    ∃ n ∈ nodesB b, Doc.parentheseConditions n g = true :=
  sound_lift (ok := fun _ => true) (fun n g hg _ => ParentheseConditions.hook_sound n g hg) h (by simp)

theorem parenthese_conditions_canon (n : Node) (x : Expect) (hx : x ∈ Canon.parentheseConditions n) (s : Stmt)
    (hn : n ∈ nodesS s) (ctx : BCtx) : ∃ g ∈ ParentheseConditions.lint (ctx.plug s), x.matches g = true :=
  canon_lift ParentheseConditions.hook_canon hx hn ctx

example : Canon.parentheseConditions (.stmt Ex.whileParen) ≠ [] ∧ ParentheseConditions.lint (Ex.deepCtx.plug Ex.whileParen) ≠ [] := by decide

/-! ### duplicate_keys -/

theorem duplicate_keys_sound (b : Block) (g : Diag) (h : g ∈ DuplicateKeys.lint b)
    (hplain : (nodesB b).all plainKeys = true) : ∃ n ∈ nodesB b, Doc.duplicateKeys n g = true :=
  sound_lift DuplicateKeys.hook_sound h hplain

example : (nodesB (Ex.prog Ex.dupCanon)).all plainKeys = true ∧ DuplicateKeys.lint (Ex.prog Ex.dupCanon) ≠ [] := by decide

/-- `{ ["\n"] = 1, [ [[\n]] ] = 2 }` (a line feed; a backslash and an `n`) is reported as a duplicate:
the raw text between the delimiters is compared whatever the quote kind -/
theorem duplicate_keys_defect :
    ∃ g ∈ DuplicateKeys.lint (Ex.prog Ex.dupDefect), ∀ n ∈ nodesB (Ex.prog Ex.dupDefect), Doc.duplicateKeys n g = false := by
  decide

/-- **duplicate_keys, completeness in every context.** A field whose key — spelled as the documentation
spells keys: a name, a quoted string without escapes, a plain decimal integer, an array item — was already
declared by an earlier field of the same table is reported, wherever the table stands
(`DupKeysComplete.lean`: every earlier canonical key is in `declared`; UTF-8 is injective). -/
theorem duplicate_keys_canon (n : Node) (x : Expect) (hx : x ∈ Canon.duplicateKeys n) (s : Stmt)
    (hn : n ∈ nodesS s) (ctx : BCtx) : ∃ g ∈ DuplicateKeys.lint (ctx.plug s), x.matches g = true :=
  canon_lift DuplicateKeys.hook_canon hx hn ctx

theorem duplicate_keys_canon_partial (ctx : BCtx) :
    ∃ g ∈ DuplicateKeys.lint (ctx.plug Ex.dupCanon), g.primary = ⟨7, 11⟩ ∧ g.secondary = [⟨3, 5⟩] := by
  refine ⟨{ code := "duplicate_keys", primary := ⟨7, 11⟩, msg := DuplicateKeys.message "a", secondary := [⟨3, 5⟩] }, ?_, rfl, rfl⟩
  refine runLint_plug _ ctx _ _ ⟨.table ⟨2, 12⟩ (match Ex.dupCanonTbl with | .tbl _ fs => fs | _ => .nil), ?_, by decide⟩
  simp [Ex.dupCanon, Ex.assignTo, Ex.dupCanonTbl, nodesS, nodesEL, nodesE]

example : Canon.duplicateKeys (.table ⟨2, 12⟩ (match Ex.dupCanonTbl with | .tbl _ fs => fs | _ => .nil)) = [{ primary := ⟨7, 11⟩ }] := by decide

/-! ### bad_string_escape -/

/-- formerly `bad_string_escape_defect_hex_digits`: `"\3a0"` (the escape `\3` followed by `a0`) is no longer
reported (/repo e3c77cd) -/
theorem bad_string_escape_fixed_hex_digits : BadStringEscape.lint false (Ex.prog (Ex.strAssign "\\3a0")) = [] := by decide

/-- formerly `bad_string_escape_defect_x_digits`: (Roblox) `"\x414"` is no longer reported (/repo 13926c7) -/
theorem bad_string_escape_fixed_x_digits : BadStringEscape.lint true (Ex.prog (Ex.strAssign "\\x414")) = [] := by decide

/-- formerly `bad_string_escape_defect_crlf`: a backslash before CR LF is no longer reported (/repo ca6ead7) -/
theorem bad_string_escape_fixed_crlf : BadStringEscape.lint false (Ex.prog (Ex.strAssign "a\\\r\nb")) = [] := by decide

/-- formerly `bad_string_escape_miss_256`: `"\256"` is now reported, and the report is justified (/repo e3c77cd) -/
theorem bad_string_escape_fixed_256 :
    ∃ g ∈ BadStringEscape.lint false (Ex.prog (Ex.strAssign "\\256")),
      g.sub = some (1, 5) ∧ g.msg = BadStringEscape.msgDecimal ∧
      Doc.badStringEscape false (.expr (.str ⟨2, "\"\\256\""⟩ .double "\\256")) g = true := by
  decide

/-- **bad_string_escape is sound for every program** (proved in `Lints/EscapeProof.lean`: the
regular-expression scanner of the lint and the Lua lexer of the specification find their escapes at
the same backslashes — whatever either skips after an escape contains no backslash — and agree on what
is wrong with each).  The converse (`…_canon`, every documented pattern is reported in every context)
is proved for the three documented examples below and evaluated on every generated string by the
correspondence run. -/
theorem bad_string_escape_sound (roblox : Bool) (b : Block) (g : Diag) (h : g ∈ BadStringEscape.lint roblox b) :
    ∃ n ∈ nodesB b, Doc.badStringEscape roblox n g = true :=
  EscapeProof.bad_string_escape_sound roblox b g h

theorem bad_string_escape_canon_partial (ctx : BCtx) :
    (∃ g ∈ BadStringEscape.lint false (ctx.plug (Ex.strAssign "\\m")), g.sub = some (1, 3) ∧ g.msg = BadStringEscape.msgInvalid) ∧
    (∃ g ∈ BadStringEscape.lint false (ctx.plug (Ex.strAssign "don\\'t")), g.sub = some (4, 6) ∧ g.msg = BadStringEscape.msgSingleInDouble) ∧
    (∃ g ∈ BadStringEscape.lint true (ctx.plug (Ex.strAssign "\\u{110000}")), g.sub = some (1, 11) ∧ g.msg = BadStringEscape.msgCodepoint) := by
  refine ⟨?_, ?_, ?_⟩
  · refine ⟨{ code := "bad_string_escape", primary := ⟨2, 2⟩, msg := BadStringEscape.msgInvalid, sub := some (1, 3) }, ?_, rfl, rfl⟩
    exact runLint_plug _ ctx _ _ ⟨.expr (.str ⟨2, "\"\\m\""⟩ .double "\\m"), by simp [Ex.strAssign, Ex.assignTo, nodesS, nodesEL, nodesE], by decide⟩
  · refine ⟨{ code := "bad_string_escape", primary := ⟨2, 2⟩, msg := BadStringEscape.msgSingleInDouble, sub := some (4, 6) }, ?_, rfl, rfl⟩
    exact runLint_plug _ ctx _ _ ⟨.expr (.str ⟨2, "\"don\\'t\""⟩ .double "don\\'t"), by simp [Ex.strAssign, Ex.assignTo, nodesS, nodesEL, nodesE], by decide⟩
  · refine ⟨{ code := "bad_string_escape", primary := ⟨2, 2⟩, msg := BadStringEscape.msgCodepoint, sub := some (1, 11) }, ?_, rfl, rfl⟩
    exact runLint_plug _ ctx _ _ ⟨.expr (.str ⟨2, "\"\\u{110000}\""⟩ .double "\\u{110000}"), by simp [Ex.strAssign, Ex.assignTo, nodesS, nodesEL, nodesE], by decide⟩


end Selene.Props.C04A
