/-
C04 (half B): the statement-level closed-form lints fire exactly on their documented condition.

Per lint: `<lint>_sound` (a reported diagnostic implies the documented condition, `Doc.*`, written from
docs/src/lints/<lint>.md) and `<lint>_canon*` (the documented canonical pattern, standing *anywhere* in the
program — `Within (.block P) …`, any block position at any nesting depth, through function bodies in expressions
too — is reported).  Where the code still departs from the documentation (mismatched_arg_count's definition map,
multiple_statements inside a closure in an `if` condition) the theorem says what the code does and a witness shows
the departure on the model; the driver reports the same departure on the real code (`[C04] … false-positive /
missed-canonical`).  Former departures repaired in /repo (626a695, 7d0e4db, 820d472, 7450b57) are now positive theorems.
-/
import Selene.Lints.TraverseBLemmas
import Selene.Lints.UnbalancedAssignments
import Selene.Lints.EmptyIf
import Selene.Lints.EmptyLoop
import Selene.Lints.IfSameThenElse
import Selene.Lints.IfsSameCond
import Selene.Lints.AlmostSwapped
import Selene.Lints.MismatchedArgCount
import Selene.Lints.MultipleStatements
namespace Selene.Props.C04B
open Selene.Lua Selene.LintsB

/-- search for a position in a concrete tree (non-vacuity examples) -/
syntax "find_within" : tactic
macro_rules
  | `(tactic| find_within) =>
    `(tactic| first
      | exact Within.refl _
      | (refine Within.step (List.Mem.head _) ?_; find_within)
      | (refine Within.step (List.Mem.tail _ (List.Mem.head _)) ?_; find_within)
      | (refine Within.step (List.Mem.tail _ (List.Mem.tail _ (List.Mem.head _))) ?_; find_within)
      | (refine Within.step (List.Mem.tail _ (List.Mem.tail _ (List.Mem.tail _ (List.Mem.head _)))) ?_; find_within))

/-- stateless lints: a diagnostic of any visited node is a diagnostic of the run -/
theorem mem_flatMap_of_within {P : Block} {x : Any} {n : Node} {g : Diag} (collect : Node → List Diag)
    (h : Within (.block P) x) (hn : n ∈ x.nodes) (hg : g ∈ collect n) : g ∈ (nBlock P).flatMap collect :=
  List.mem_flatMap.mpr ⟨n, mem_of_infix (within_nodes_infix h) hn, hg⟩

theorem mem_run_of_within_stmt {P : Block} {s : Stmt} {g : Diag} (collect : Node → List Diag)
    (h : Within (.block P) (.stmt s)) (hg : g ∈ collect (.stmt s)) : g ∈ (nBlock P).flatMap collect :=
  mem_flatMap_of_within collect h (n := .stmt s) (by simp [Any.nodes]) hg

/-! ## unbalanced_assignments -/
section Unbalanced
open UnbalancedAssignments

/-- `expression_is_nil` is the documented "denotes nil" (parentheses looked through) -/
theorem exprIsNil_eq : ∀ e : Expr, exprIsNil e = Doc.denotesNil e
  | .paren _ e => by simp [exprIsNil, Doc.denotesNil, exprIsNil_eq e]
  | .nil _ => by simp [exprIsNil, Doc.denotesNil]
  | .true_ _ => by simp [exprIsNil, Doc.denotesNil]
  | .false_ _ => by simp [exprIsNil, Doc.denotesNil]
  | .dots _ => by simp [exprIsNil, Doc.denotesNil]
  | .num _ => by simp [exprIsNil, Doc.denotesNil]
  | .str _ _ _ => by simp [exprIsNil, Doc.denotesNil]
  | .func _ _ _ => by simp [exprIsNil, Doc.denotesNil]
  | .un _ _ _ => by simp [exprIsNil, Doc.denotesNil]
  | .bin _ _ _ _ => by simp [exprIsNil, Doc.denotesNil]
  | .tbl _ _ => by simp [exprIsNil, Doc.denotesNil]
  | .var _ => by simp [exprIsNil, Doc.denotesNil]
  | .call _ => by simp [exprIsNil, Doc.denotesNil]
  | .unsupported _ => by simp [exprIsNil, Doc.denotesNil]

theorem lintAssignment_sound {lhs : Nat} {rhs : List Expr} {g : Diag} (h : g ∈ lintAssignment lhs rhs) :
    Doc.unbalanced lhs rhs := by
  unfold lintAssignment at h
  cases hl : rhs.getLast? with
  | none => simp [hl] at h
  | some last =>
    cases hf : rhs.head? with
    | none => simp [hl, hf] at h
    | some first =>
      simp only [hl, hf] at h
      by_cases hm : rhs.length > lhs
      · exact ⟨last, hl, Or.inl hm⟩
      · simp only [hm, if_false] at h
        by_cases hc : (rhs.length < lhs && !exprIsEllipsis last && !exprIsCall last && !exprIsNil last) = true
        · simp only [Bool.and_eq_true, Bool.not_eq_true', decide_eq_true_eq] at hc
          obtain ⟨⟨⟨hlt, he⟩, hcall⟩, hnil⟩ := hc
          have hmv : Doc.multiValued last = false := by
            cases last <;> simp_all [Doc.multiValued, exprIsEllipsis, exprIsCall]
          exact ⟨last, hl, Or.inr ⟨hlt, hmv, by rw [← exprIsNil_eq]; exact hnil⟩⟩
        · simp [hc] at h

/-- soundness: a report comes from an assignment statement that is unbalanced in the documented sense -/
theorem unbalanced_assignments_sound {P : Block} {g : Diag} (h : g ∈ run P) :
    ∃ s lhs rhs, Node.stmt s ∈ nBlock P ∧ assignShape s = some (lhs, rhs) ∧ Doc.unbalanced lhs rhs := by
  obtain ⟨n, hn, hg⟩ := List.mem_flatMap.mp h
  cases n with
  | stmt s =>
    simp only [collect] at hg
    cases hs : assignShape s with
    | none => simp [hs] at hg
    | some p =>
      obtain ⟨lhs, rhs⟩ := p
      simp only [hs] at hg
      exact ⟨s, lhs, rhs, hn, hs, lintAssignment_sound hg⟩
  | block b => simp [collect] at hg
  | last l => simp [collect] at hg
  | call c => simp [collect] at hg

/-- model = documented condition, for every assignment whose last value is not a *parenthesised call* (which the
    code, more lenient than the documentation, treats like a call) -/
theorem lintAssignment_iff {lhs : Nat} {rhs : List Expr}
    (hp : ∀ last, rhs.getLast? = some last → parenthesisedCall last = false) :
    lintAssignment lhs rhs ≠ [] ↔ Doc.unbalanced lhs rhs := by
  constructor
  · intro h
    cases hd : lintAssignment lhs rhs with
    | nil => exact (h hd).elim
    | cons g _ => exact lintAssignment_sound (g := g) (by rw [hd]; simp)
  · rintro ⟨last, hl, hcase⟩
    have hne : rhs ≠ [] := by intro h; subst h; simp at hl
    obtain ⟨first, hf⟩ : ∃ first, rhs.head? = some first := ⟨rhs.head hne, List.head?_eq_some_head hne⟩
    rcases hcase with hm | ⟨hlt, hmv, hnil⟩
    · have hlt : lhs < rhs.length := hm
      simp [lintAssignment, hl, hf, hm, hlt]
    · have h1 : ¬ rhs.length > lhs := by omega
      have hpc := hp last hl
      have h2 : exprIsEllipsis last = false ∧ exprIsCall last = false := by
        cases last <;> simp_all [Doc.multiValued, exprIsEllipsis, exprIsCall, parenthesisedCall]
      have h3 : exprIsNil last = false := by rw [exprIsNil_eq]; exact hnil
      simp [lintAssignment, hl, hf, h1, hlt, h2.1, h2.2, h3]

/-- `a, b = (nil)` (formerly reported): a parenthesised nil is a nil -/
def parenNilProgram : Block :=
  .mk (some ⟨0, 6⟩) (.cons (.assign ⟨0, 6⟩ (.cons (.name ⟨0, "a"⟩) (.cons (.name ⟨2, "b"⟩) .nil))
    (.cons (.paren ⟨4, 6⟩ (.nil ⟨5, "nil"⟩)) .nil)) .nil) .none

theorem unbalanced_paren_nil_not_reported : run parenNilProgram = [] := by decide

/-- a value that is certainly one non-nil value, spelled without parentheses -/
def plainValue : Expr → Bool
  | .num _ | .str _ _ _ | .true_ _ | .false_ _ | .tbl _ _ | .func _ _ _ | .bin _ _ _ _ | .un _ _ _ | .var _ => true
  | _ => false

/-- canonical pattern `a = 1, 2` (more values than targets), anywhere in the program -/
theorem unbalanced_assignments_canon_more {P : Block} {s : Stmt} {lhs : Nat} {rhs : List Expr}
    (hw : Within (.block P) (.stmt s)) (hs : assignShape s = some (lhs, rhs)) (hm : rhs.length > lhs) :
    ∃ g ∈ run P, ∃ e last, rhs[lhs]? = some e ∧ rhs.getLast? = some last ∧
      g.primary = ⟨e.span.first, last.span.last⟩ ∧ g.msg = msgMore := by
  have hne : rhs ≠ [] := by intro h; subst h; simp at hm
  obtain ⟨last, hl⟩ : ∃ last, rhs.getLast? = some last := ⟨rhs.getLast hne, List.getLast?_eq_some_getLast hne⟩
  obtain ⟨first, hf⟩ : ∃ first, rhs.head? = some first := ⟨rhs.head hne, List.head?_eq_some_head hne⟩
  have hlt : lhs < rhs.length := hm
  refine ⟨{ code := "unbalanced_assignments", primary := ⟨rhs[lhs].span.first, last.span.last⟩, msg := msgMore }, ?_,
    rhs[lhs], last, by simp [hlt], hl, rfl, rfl⟩
  refine mem_flatMap_of_within collect hw (n := .stmt s) (by simp [Any.nodes]) ?_
  simp [collect, hs, lintAssignment, hl, hf, hm]

/-- canonical pattern `a, b, c = 1` (values missing, the last one a plain single value), anywhere in the program -/
theorem unbalanced_assignments_canon_fewer {P : Block} {s : Stmt} {lhs : Nat} {rhs : List Expr} {first last : Expr}
    (hw : Within (.block P) (.stmt s)) (hs : assignShape s = some (lhs, rhs))
    (hf : rhs.head? = some first) (hl : rhs.getLast? = some last) (hm : rhs.length < lhs) (hp : plainValue last = true) :
    ∃ g ∈ run P, g.primary = ⟨first.span.first, last.span.last⟩ ∧ g.msg = msgLess := by
  refine ⟨{ code := "unbalanced_assignments", primary := ⟨first.span.first, last.span.last⟩, msg := msgLess,
            secondary := ((rhs.find? exprIsCall).map Expr.span).toList }, ?_, rfl, rfl⟩
  refine mem_flatMap_of_within collect hw (n := .stmt s) (by simp [Any.nodes]) ?_
  have h1 : ¬ rhs.length > lhs := by omega
  have h2 : exprIsEllipsis last = false ∧ exprIsCall last = false ∧ exprIsNil last = false := by
    cases last <;> simp_all [plainValue, exprIsEllipsis, exprIsCall, exprIsNil]
  simp [collect, hs, lintAssignment, hl, hf, h1, hm, h2.1, h2.2.1, h2.2.2]

/-- `do h(function() a, b, c = 1 end) end`: the canonical statement as the body of a function expression inside
    a call inside a `do` block -/
def exNested : Stmt × Block :=
  let s : Stmt := .assign ⟨7, 13⟩ (.cons (.name ⟨7, "a"⟩) (.cons (.name ⟨9, "b"⟩) (.cons (.name ⟨11, "c"⟩) .nil))) (.cons (.num ⟨13, "1"⟩) .nil)
  let inner : Block := .mk (some ⟨7, 13⟩) (.cons s .nil) .none
  let call : Stmt := .call (.mk ⟨1, 15⟩ (.name ⟨1, "h"⟩) (.cons (.args ⟨2, 15⟩ (.parens ⟨2, 15⟩ (.cons (.func ⟨3, 14⟩ ⟨3, "function"⟩ (.mk ⟨4, 14⟩ [] inner)) .nil))) .nil))
  (s, .mk (some ⟨0, 16⟩) (.cons (.do_ ⟨0, 16⟩ (.mk (some ⟨1, 15⟩) (.cons call .nil) .none)) .nil) .none)

example : Within (.block exNested.2) (.stmt exNested.1) ∧ assignShape exNested.1 = some (3, [Expr.num ⟨13, "1"⟩]) := by
  refine ⟨?_, rfl⟩
  find_within

end Unbalanced

/-! ## empty_if -/
section EmptyIf
open EmptyIf

theorem blockIsEmpty_iff (b : Block) : blockIsEmpty b = true ↔ Doc.noStatements b := by
  cases b with
  | mk sp ss l => cases ss <;> cases l <;> simp [blockIsEmpty, Doc.noStatements, blockStmts, blockLast]

theorem emptyElseIfs_sound {sp : Span} {els : OptBlock} {g : Diag} : ∀ {l : List ElseIf}, g ∈ emptyElseIfs sp els l →
    g.msg = msgElseIf ∧ ∃ e ∈ l, Doc.noStatements (elifBlock e) ∧ g.primary.first = (elifSpan e).first
  | [], h => by simp [emptyElseIfs] at h
  | (.mk esp c b) :: rest, h => by
    simp only [emptyElseIfs, List.mem_append] at h
    rcases h with h | h
    · by_cases hb : blockIsEmpty b = true
      · simp [hb] at h
        subst h
        exact ⟨rfl, .mk esp c b, by simp, (blockIsEmpty_iff b).mp hb, rfl⟩
      · simp [hb] at h
    · obtain ⟨h1, e, he, h2⟩ := emptyElseIfs_sound h
      exact ⟨h1, e, by simp [he], h2⟩

/-- soundness: every report designates a branch of an `if` statement that contains no statement at all -/
theorem empty_if_sound {P : Block} {g : Diag} (h : g ∈ run P) :
    ∃ sp c b elifs els, Node.stmt (.if_ sp c b elifs els) ∈ nBlock P ∧
      ((g.msg = msgIf ∧ g.primary = sp ∧ Doc.noStatements b) ∨
       (g.msg = msgElseIf ∧ ∃ e ∈ elifs.toList, Doc.noStatements (elifBlock e) ∧ g.primary.first = (elifSpan e).first) ∨
       (g.msg = msgElse ∧ ∃ eb, els = .some eb ∧ Doc.noStatements eb ∧ g.primary.last = sp.last)) := by
  obtain ⟨n, hn, hg⟩ := List.mem_flatMap.mp h
  cases n with
  | stmt s =>
    cases s <;> simp only [collect, List.not_mem_nil] at hg
    case if_ sp c b elifs els =>
      refine ⟨sp, c, b, elifs, els, hn, ?_⟩
      simp only [List.mem_append] at hg
      rcases hg with hg | hg | hg
      · by_cases hb : blockIsEmpty b = true
        · simp [hb] at hg; subst hg; exact Or.inl ⟨rfl, rfl, (blockIsEmpty_iff b).mp hb⟩
        · simp [hb] at hg
      · exact Or.inr (Or.inl (emptyElseIfs_sound hg))
      · cases els with
        | none => simp [emptyElse] at hg
        | some eb =>
          by_cases hb : blockIsEmpty eb = true
          · simp [emptyElse, hb] at hg; subst hg
            exact Or.inr (Or.inr ⟨rfl, eb, rfl, (blockIsEmpty_iff eb).mp hb, rfl⟩)
          · simp [emptyElse, hb] at hg
  | block b => simp [collect] at hg
  | last l => simp [collect] at hg
  | call c => simp [collect] at hg

/-- canonical `if a then end`, anywhere -/
theorem empty_if_canon_then {P : Block} {sp : Span} {c : Expr} {b : Block} {elifs : ElseIfList} {els : OptBlock}
    (hw : Within (.block P) (.stmt (.if_ sp c b elifs els))) (hb : Doc.noStatements b) :
    ∃ g ∈ run P, g.primary = sp ∧ g.msg = msgIf := by
  refine ⟨{ code := "empty_if", primary := sp, msg := msgIf }, ?_, rfl, rfl⟩
  refine mem_run_of_within_stmt collect hw ?_
  simp [collect, (blockIsEmpty_iff b).mpr hb]

theorem emptyElseIfs_complete {sp : Span} {els : OptBlock} {e : ElseIf} : ∀ {l : List ElseIf}, e ∈ l → Doc.noStatements (elifBlock e) →
    ∃ g ∈ emptyElseIfs sp els l, g.primary.first = (elifSpan e).first ∧ g.msg = msgElseIf
  | [], h, _ => by simp at h
  | (.mk esp c b) :: rest, h, hb => by
    rcases List.mem_cons.mp h with h | h
    · subst h
      have : blockIsEmpty b = true := (blockIsEmpty_iff b).mpr hb
      simp only [emptyElseIfs, this, if_true]
      exact ⟨_, List.mem_append_left _ (List.mem_singleton.mpr rfl), rfl, rfl⟩
    · obtain ⟨g, hg, h1, h2⟩ := emptyElseIfs_complete (sp := sp) (els := els) h hb
      exact ⟨g, by simp only [emptyElseIfs]; exact List.mem_append_right _ hg, h1, h2⟩

/-- canonical empty `elseif b then`, anywhere -/
theorem empty_if_canon_elseif {P : Block} {sp : Span} {c : Expr} {b : Block} {elifs : ElseIfList} {els : OptBlock} {e : ElseIf}
    (hw : Within (.block P) (.stmt (.if_ sp c b elifs els))) (he : e ∈ elifs.toList) (hb : Doc.noStatements (elifBlock e)) :
    ∃ g ∈ run P, g.primary.first = (elifSpan e).first ∧ g.msg = msgElseIf := by
  obtain ⟨g, hg, h1, h2⟩ := emptyElseIfs_complete (sp := sp) (els := els) he hb
  refine ⟨g, ?_, h1, h2⟩
  refine mem_run_of_within_stmt collect hw ?_
  simp only [collect, List.mem_append]
  exact Or.inr (Or.inl hg)

/-- canonical empty `else`, anywhere -/
theorem empty_if_canon_else {P : Block} {sp : Span} {c : Expr} {b eb : Block} {elifs : ElseIfList}
    (hw : Within (.block P) (.stmt (.if_ sp c b elifs (.some eb)))) (hb : Doc.noStatements eb) :
    ∃ g ∈ run P, g.primary.last = sp.last ∧ g.msg = msgElse := by
  refine ⟨{ code := "empty_if", primary := ⟨elseTok sp (.some eb), sp.last⟩, msg := msgElse }, ?_, rfl, rfl⟩
  refine mem_run_of_within_stmt collect hw ?_
  simp only [collect, List.mem_append]
  exact Or.inr (Or.inr (by simp [emptyElse, (blockIsEmpty_iff eb).mpr hb]))

example : Doc.noStatements (.mk none .nil .none) := ⟨rfl, rfl⟩

end EmptyIf

/-! ## empty_loop -/
section EmptyLoop
open EmptyLoop

theorem loop_blockIsEmpty_iff (b : Block) : EmptyLoop.blockIsEmpty b = true ↔ EmptyLoop.Doc.noStatements b := by
  cases b with
  | mk sp ss l => cases ss <;> cases l <;> simp [EmptyLoop.blockIsEmpty, EmptyLoop.Doc.noStatements, blockStmts, blockLast]

/-- soundness: every report is a loop statement whose body contains no statement -/
theorem empty_loop_sound {P : Block} {g : Diag} (h : g ∈ EmptyLoop.run P) :
    ∃ s b, Node.stmt s ∈ nBlock P ∧ loopBody s = some b ∧ EmptyLoop.Doc.noStatements b ∧ g.primary = stmtSpan s := by
  obtain ⟨n, hn, hg⟩ := List.mem_flatMap.mp h
  cases n with
  | stmt s =>
    simp only [EmptyLoop.collect] at hg
    cases hl : loopBody s with
    | none => simp [hl] at hg
    | some b =>
      simp only [hl] at hg
      by_cases hb : EmptyLoop.blockIsEmpty b = true
      · simp [hb] at hg; subst hg
        exact ⟨s, b, hn, hl, (loop_blockIsEmpty_iff b).mp hb, rfl⟩
      · simp [hb] at hg
  | block b => simp [EmptyLoop.collect] at hg
  | last l => simp [EmptyLoop.collect] at hg
  | call c => simp [EmptyLoop.collect] at hg

/-- canonical `for _ in {} do end` (any of the four loop forms), anywhere -/
theorem empty_loop_canon {P : Block} {s : Stmt} {b : Block}
    (hw : Within (.block P) (.stmt s)) (hl : loopBody s = some b) (hb : EmptyLoop.Doc.noStatements b) :
    ∃ g ∈ EmptyLoop.run P, g.primary = stmtSpan s := by
  refine ⟨{ code := "empty_loop", primary := stmtSpan s, msg := EmptyLoop.msg }, ?_, rfl⟩
  refine mem_flatMap_of_within EmptyLoop.collect hw (n := .stmt s) (by simp [Any.nodes]) ?_
  simp [EmptyLoop.collect, hl, (loop_blockIsEmpty_iff b).mpr hb]

example : loopBody (.while_ ⟨0, 3⟩ (.true_ ⟨1, "true"⟩) (.mk none .nil .none)) = some (.mk none .nil .none) := rfl

end EmptyLoop

/-! ## if_same_then_else -/
section IfSameThenElse
open IfSameThenElse

theorem scan_sound {toks : List String} {seps : List Nat} {g : Diag} : ∀ {rest seen : List Block}, g ∈ scan toks seps seen rest →
    ∃ x y, x ∈ seen ++ rest ∧ y ∈ rest ∧ hasNoStmts y = false ∧ blockToks toks seps x = blockToks toks seps y ∧
      g.primary = (blockSpan y).getD ⟨0, 0⟩ ∧ g.secondary = [(blockSpan x).getD ⟨0, 0⟩]
  | [], seen, h => by simp [scan] at h
  | b :: rest, seen, h => by
    unfold scan at h
    by_cases hb : hasNoStmts b = true
    · simp only [hb, if_true] at h
      obtain ⟨x, y, hx, hy, r⟩ := scan_sound h
      refine ⟨x, y, ?_, by simp [hy], r⟩
      simp only [List.mem_append, List.mem_cons] at hx ⊢
      rcases hx with hx | hx
      · exact Or.inl hx
      · exact Or.inr (Or.inr hx)
    · simp only [hb] at h
      cases hf : seen.find? (fun o => similar toks seps o b) with
      | some o =>
        simp only [hf] at h
        rcases List.mem_cons.mp h with h | h
        · subst h
          have hmem := List.mem_of_find?_eq_some hf
          have hsim := List.find?_some hf
          refine ⟨o, b, by simp [hmem], by simp, by simpa using hb, ?_, rfl, rfl⟩
          simpa [similar] using hsim
        · obtain ⟨x, y, hx, hy, r⟩ := scan_sound h
          refine ⟨x, y, ?_, by simp [hy], r⟩
          simp only [List.mem_append, List.mem_cons] at hx ⊢
          rcases hx with hx | hx
          · exact Or.inl hx
          · exact Or.inr (Or.inr hx)
      | none =>
        simp only [hf] at h
        obtain ⟨x, y, hx, hy, r⟩ := scan_sound h
        refine ⟨x, y, ?_, by simp [hy], r⟩
        simp only [List.mem_append, List.mem_cons, List.not_mem_nil, or_false] at hx ⊢
        rcases hx with (hx | hx) | hx
        · exact Or.inl hx
        · exact Or.inr (Or.inl hx)
        · exact Or.inr (Or.inr hx)

/-- soundness: a reported block has statements and is, token for token (trivia and table-field separators aside),
    another branch of the same `if` -/
theorem if_same_then_else_sound {toks : List String} {seps : List Nat} {P : Block} {g : Diag} (h : g ∈ run toks seps P) :
    ∃ sp c b elifs els x y, Node.stmt (.if_ sp c b elifs els) ∈ nBlock P ∧
      x ∈ b :: laterBlocks elifs els ∧ y ∈ laterBlocks elifs els ∧ hasNoStmts y = false ∧
      blockToks toks seps x = blockToks toks seps y ∧ g.primary = (blockSpan y).getD ⟨0, 0⟩ ∧ g.secondary = [(blockSpan x).getD ⟨0, 0⟩] := by
  obtain ⟨n, hn, hg⟩ := List.mem_flatMap.mp h
  cases n with
  | stmt s =>
    cases s <;> simp only [collect, List.not_mem_nil] at hg
    case if_ sp c b elifs els =>
      obtain ⟨x, y, hx, hy, r⟩ := scan_sound hg
      exact ⟨sp, c, b, elifs, els, x, y, hn, by simpa using hx, hy, r⟩
  | block b => simp [collect] at hg
  | last l => simp [collect] at hg
  | call c => simp [collect] at hg

/-- canonical `if foo then B else B end` (B with at least one statement), anywhere -/
theorem if_same_then_else_canon {toks : List String} {seps : List Nat} {P : Block} {sp : Span} {c : Expr} {b eb : Block}
    (hw : Within (.block P) (.stmt (.if_ sp c b .nil (.some eb)))) (hs : hasNoStmts eb = false)
    (heq : blockToks toks seps b = blockToks toks seps eb) :
    ∃ g ∈ run toks seps P, g.primary = (blockSpan eb).getD ⟨0, 0⟩ ∧ g.secondary = [(blockSpan b).getD ⟨0, 0⟩] := by
  refine ⟨{ code := "if_same_then_else", primary := (blockSpan eb).getD ⟨0, 0⟩, msg := IfSameThenElse.msg,
            secondary := [(blockSpan b).getD ⟨0, 0⟩] }, ?_, rfl, rfl⟩
  refine mem_run_of_within_stmt (collect toks seps) hw ?_
  simp [collect, laterBlocks, ElseIfList.toList, scan, hs, similar, heq]

end IfSameThenElse

/-! ## ifs_same_cond -/
section IfsSameCond
open IfsSameCond SideEffects

mutual
/-- `side_effects.rs` is exactly the documented "evaluating it performs a call" test -/
theorem exprSE_eq : ∀ e : Expr, exprSE e = Doc.calls true e
  | .bin _ l _ r => by simp [exprSE, Doc.calls, exprSE_eq l, exprSE_eq r]
  | .paren _ e => by simp [exprSE, Doc.calls, exprSE_eq e]
  | .un _ _ e => by simp [exprSE, Doc.calls, exprSE_eq e]
  | .call _ => by simp [exprSE, Doc.calls]
  | .tbl _ fs => by simp [exprSE, Doc.calls, fieldsSE_eq fs]
  | .var v => by simp [exprSE, Doc.calls, varSE_eq v]
  | .unsupported _ => by simp [exprSE, Doc.calls]
  | .func _ _ _ => by simp [exprSE, Doc.calls]
  | .num _ => by simp [exprSE, Doc.calls]
  | .str _ _ _ => by simp [exprSE, Doc.calls]
  | .nil _ => by simp [exprSE, Doc.calls]
  | .true_ _ => by simp [exprSE, Doc.calls]
  | .false_ _ => by simp [exprSE, Doc.calls]
  | .dots _ => by simp [exprSE, Doc.calls]
theorem fieldsSE_eq : ∀ fs : FieldList, fieldsSE fs = Doc.callsFs true fs
  | .nil => by simp [fieldsSE, Doc.callsFs]
  | .cons f rest => by simp [fieldsSE, Doc.callsFs, fieldSE_eq f, fieldsSE_eq rest]
theorem fieldSE_eq : ∀ f : Field, fieldSE f = Doc.callsF true f
  | .exprKey _ k v => by simp [fieldSE, Doc.callsF, exprSE_eq k, exprSE_eq v]
  | .nameKey _ _ v => by simp [fieldSE, Doc.callsF, exprSE_eq v]
  | .noKey v => by simp [fieldSE, Doc.callsF, exprSE_eq v]
  | .unsupported _ => by simp [fieldSE, Doc.callsF]
theorem varSE_eq : ∀ v : Var, varSE v = Doc.callsV true v
  | .name _ => by simp [varSE, Doc.callsV]
  | .expr _ p ss => by simp [varSE, Doc.callsV, prefixSE_eq p, suffixesSE_eq ss]
theorem prefixSE_eq : ∀ p : Prefix, prefixSE p = Doc.callsP true p
  | .expr e => by simp [prefixSE, Doc.callsP, exprSE_eq e]
  | .name _ => by simp [prefixSE, Doc.callsP]
theorem suffixesSE_eq : ∀ ss : SuffixList, suffixesSE ss = Doc.callsSs true ss
  | .nil => by simp [suffixesSE, Doc.callsSs]
  | .cons s rest => by simp [suffixesSE, Doc.callsSs, suffixSE_eq s, suffixesSE_eq rest]
theorem suffixSE_eq : ∀ s : Suffix, suffixSE s = Doc.callsS true s
  | .args _ _ => by simp [suffixSE, Doc.callsS]
  | .meth _ _ _ => by simp [suffixSE, Doc.callsS]
  | .dot _ _ => by simp [suffixSE, Doc.callsS]
  | .idx _ e => by simp [suffixSE, Doc.callsS, exprSE_eq e]
  | .unsupported _ => by simp [suffixSE, Doc.callsS]
end

theorem exprSE_eq_doc (e : Expr) : exprSE e = Doc.callsE e := exprSE_eq e

theorem cond_scan_sound {toks : List String} {seps : List Nat} {g : Diag} : ∀ {rest seen : List Expr},
    (∀ o ∈ seen, exprSE o = false) → g ∈ scan toks seps seen rest →
    ∃ x y, x ∈ seen ++ rest ∧ y ∈ rest ∧ exprSE x = false ∧ exprSE y = false ∧
      simToks toks seps x.span = simToks toks seps y.span ∧ g.primary = y.span ∧ g.secondary = [x.span]
  | [], seen, _, h => by simp [scan] at h
  | c :: rest, seen, hseen, h => by
    unfold scan at h
    have lift : (∃ x y, x ∈ seen ++ rest ∧ y ∈ rest ∧ exprSE x = false ∧ exprSE y = false ∧
        simToks toks seps x.span = simToks toks seps y.span ∧ g.primary = y.span ∧ g.secondary = [x.span]) →
        ∃ x y, x ∈ seen ++ c :: rest ∧ y ∈ c :: rest ∧ exprSE x = false ∧ exprSE y = false ∧
        simToks toks seps x.span = simToks toks seps y.span ∧ g.primary = y.span ∧ g.secondary = [x.span] := by
      rintro ⟨x, y, hx, hy, r⟩
      refine ⟨x, y, ?_, by simp [hy], r⟩
      simp only [List.mem_append, List.mem_cons] at hx ⊢
      rcases hx with hx | hx
      · exact Or.inl hx
      · exact Or.inr (Or.inr hx)
    by_cases hc : exprSE c = true
    · simp only [hc, if_true] at h
      exact lift (cond_scan_sound hseen h)
    · simp only [hc] at h
      have hc' : exprSE c = false := by simpa using hc
      cases hf : seen.find? (fun o => similar toks seps o c) with
      | some o =>
        simp only [hf] at h
        rcases List.mem_cons.mp h with h | h
        · subst h
          have hmem := List.mem_of_find?_eq_some hf
          have hsim := List.find?_some hf
          refine ⟨o, c, by simp [hmem], by simp, hseen o hmem, hc', ?_, rfl, rfl⟩
          simpa [similar] using hsim
        · exact lift (cond_scan_sound hseen h)
      | none =>
        simp only [hf] at h
        have hseen' : ∀ o ∈ seen ++ [c], exprSE o = false := by
          intro o ho
          simp only [List.mem_append, List.mem_cons, List.not_mem_nil, or_false] at ho
          rcases ho with ho | ho
          · exact hseen o ho
          · subst ho; exact hc'
        obtain ⟨x, y, hx, hy, r⟩ := cond_scan_sound hseen' h
        refine ⟨x, y, ?_, by simp [hy], r⟩
        simp only [List.mem_append, List.mem_cons, List.not_mem_nil, or_false] at hx ⊢
        rcases hx with (hx | hx) | hx
        · exact Or.inl hx
        · exact Or.inr (Or.inl hx)
        · exact Or.inr (Or.inr hx)

/-- soundness: a reported condition repeats, token for token, another condition of the same `if`, and neither
    performs a function call anywhere (the documented exclusion) -/
theorem ifs_same_cond_sound {toks : List String} {seps : List Nat} {P : Block} {g : Diag} (h : g ∈ run toks seps P) :
    ∃ sp c b elifs els x y, Node.stmt (.if_ sp c b elifs els) ∈ nBlock P ∧
      x ∈ c :: elifs.toList.map elifCond ∧ y ∈ elifs.toList.map elifCond ∧
      simToks toks seps x.span = simToks toks seps y.span ∧ g.primary = y.span ∧ g.secondary = [x.span] ∧
      Doc.callsE x = false ∧ Doc.callsE y = false := by
  obtain ⟨n, hn, hg⟩ := List.mem_flatMap.mp h
  cases n with
  | stmt s =>
    cases s <;> simp only [collect, List.not_mem_nil] at hg
    case if_ sp c b elifs els =>
      have hseen : ∀ o ∈ (if exprSE c = true then [] else [c]), exprSE o = false := by
        intro o ho
        by_cases hc : exprSE c = true
        · simp [hc] at ho
        · simp [hc] at ho; subst ho; simpa using hc
      obtain ⟨x, y, hx, hy, h1, h2, h3, h4, h5⟩ := cond_scan_sound hseen hg
      refine ⟨sp, c, b, elifs, els, x, y, hn, ?_, hy, h3, h4, h5, by rw [← exprSE_eq_doc]; exact h1, by rw [← exprSE_eq_doc]; exact h2⟩
      simp only [List.mem_append, List.mem_cons] at hx ⊢
      rcases hx with hx | hx
      · by_cases hc : exprSE c = true
        · simp [hc] at hx
        · simp [hc] at hx; exact Or.inl hx
      · exact Or.inr hx
  | block b => simp [collect] at hg
  | last l => simp [collect] at hg
  | call c => simp [collect] at hg

/-- `if a[f()] then elseif a[f()] then end`, tokens `if a [ f ( ) ] then elseif a [ f ( ) ] then end` -/
def indexCallCond (i : Nat) : Expr :=
  .var (.expr ⟨i, i + 4⟩ (.name ⟨i, "a"⟩) (.cons (.idx ⟨i + 1, i + 4⟩
    (.call (.mk ⟨i + 2, i + 4⟩ (.name ⟨i + 2, "f"⟩) (.cons (.args ⟨i + 3, i + 4⟩ (.parens ⟨i + 3, i + 4⟩ .nil)) .nil)))) .nil))

def indexCallProgram : Block :=
  .mk (some ⟨0, 16⟩) (.cons (.if_ ⟨0, 16⟩ (indexCallCond 1) (.mk none .nil .none)
    (.cons (.mk ⟨8, 15⟩ (indexCallCond 9) (.mk none .nil .none)) .nil) .none) .nil) .none

def indexCallToks : List String :=
  ["if", "a", "[", "f", "(", ")", "]", "then", "elseif", "a", "[", "f", "(", ")", "]", "then", "end"]

/-- (formerly reported) a call inside a bracket index is a call: the repeated condition is not reported -/
theorem ifs_same_cond_index_not_reported :
    run indexCallToks [] indexCallProgram = [] ∧ Doc.callsE (indexCallCond 9) = true := by
  decide

mutual
theorem calls_mono : ∀ e : Expr, Doc.calls false e = true → Doc.calls true e = true
  | .bin _ l _ r => by
    simp only [Doc.calls, Bool.or_eq_true]
    rintro (h | h)
    · exact Or.inl (calls_mono l h)
    · exact Or.inr (calls_mono r h)
  | .paren _ e => by simp only [Doc.calls]; exact calls_mono e
  | .un _ _ e => by simp only [Doc.calls]; exact calls_mono e
  | .call _ => by simp [Doc.calls]
  | .tbl _ fs => by simp only [Doc.calls]; exact callsFs_mono fs
  | .var v => by simp only [Doc.calls]; exact callsV_mono v
  | .unsupported _ => by simp [Doc.calls]
  | .func _ _ _ => by simp [Doc.calls]
  | .num _ => by simp [Doc.calls]
  | .str _ _ _ => by simp [Doc.calls]
  | .nil _ => by simp [Doc.calls]
  | .true_ _ => by simp [Doc.calls]
  | .false_ _ => by simp [Doc.calls]
  | .dots _ => by simp [Doc.calls]
theorem callsFs_mono : ∀ fs : FieldList, Doc.callsFs false fs = true → Doc.callsFs true fs = true
  | .nil => by simp [Doc.callsFs]
  | .cons f rest => by
    simp only [Doc.callsFs, Bool.or_eq_true]
    rintro (h | h)
    · exact Or.inl (callsF_mono f h)
    · exact Or.inr (callsFs_mono rest h)
theorem callsF_mono : ∀ f : Field, Doc.callsF false f = true → Doc.callsF true f = true
  | .exprKey _ k v => by
    simp only [Doc.callsF, Bool.or_eq_true]
    rintro (h | h)
    · exact Or.inl (calls_mono k h)
    · exact Or.inr (calls_mono v h)
  | .nameKey _ _ v => by simp only [Doc.callsF]; exact calls_mono v
  | .noKey v => by simp only [Doc.callsF]; exact calls_mono v
  | .unsupported _ => by simp [Doc.callsF]
theorem callsV_mono : ∀ v : Var, Doc.callsV false v = true → Doc.callsV true v = true
  | .name _ => by simp [Doc.callsV]
  | .expr _ p ss => by
    simp only [Doc.callsV, Bool.or_eq_true]
    rintro (h | h)
    · exact Or.inl (callsP_mono p h)
    · exact Or.inr (callsSs_mono ss h)
theorem callsP_mono : ∀ p : Prefix, Doc.callsP false p = true → Doc.callsP true p = true
  | .expr e => by simp only [Doc.callsP]; exact calls_mono e
  | .name _ => by simp [Doc.callsP]
theorem callsSs_mono : ∀ ss : SuffixList, Doc.callsSs false ss = true → Doc.callsSs true ss = true
  | .nil => by simp [Doc.callsSs]
  | .cons s rest => by
    simp only [Doc.callsSs, Bool.or_eq_true]
    rintro (h | h)
    · exact Or.inl (callsS_mono s h)
    · exact Or.inr (callsSs_mono rest h)
theorem callsS_mono : ∀ s : Suffix, Doc.callsS false s = true → Doc.callsS true s = true
  | .args _ _ => by simp [Doc.callsS]
  | .meth _ _ _ => by simp [Doc.callsS]
  | .dot _ _ => by simp [Doc.callsS]
  | .idx _ _ => by simp [Doc.callsS]
  | .unsupported _ => by simp [Doc.callsS]
end

theorem exprSE_false_of_doc {e : Expr} (h : Doc.callsE e = false) : exprSE e = false := by
  rw [exprSE_eq_doc]; exact h

/-- canonical `if foo then … elseif foo then … end` (conditions that perform no call), anywhere -/
theorem ifs_same_cond_canon {toks : List String} {seps : List Nat} {P : Block} {sp esp : Span} {c c2 : Expr} {b b2 : Block}
    {rest : ElseIfList} {els : OptBlock}
    (hw : Within (.block P) (.stmt (.if_ sp c b (.cons (.mk esp c2 b2) rest) els)))
    (hc : Doc.callsE c = false) (hc2 : Doc.callsE c2 = false)
    (heq : simToks toks seps c.span = simToks toks seps c2.span) :
    ∃ g ∈ run toks seps P, g.primary = c2.span ∧ g.secondary = [c.span] := by
  have h1 : exprSE c = false := exprSE_false_of_doc hc
  have h2 : exprSE c2 = false := exprSE_false_of_doc hc2
  refine ⟨{ code := "ifs_same_cond", primary := c2.span, msg := IfsSameCond.msg, secondary := [c.span] }, ?_, rfl, rfl⟩
  refine mem_run_of_within_stmt (collect toks seps) hw ?_
  simp [collect, ElseIfList.toList, elifCond, scan, h1, h2, similar, heq]

example : Doc.callsE (.var (.name ⟨1, "foo"⟩)) = false := by decide

end IfsSameCond

/-! ## mismatched_arg_count -/
section Mismatched
open MismatchedArgCount

/-! ### the parameter-count lattice -/

theorem ov_vl (x : PCount) : overlap .variable x = .variable := by cases x <;> simp [overlap]
theorem ov_vr (x : PCount) : overlap x .variable = .variable := by cases x <;> simp [overlap]
theorem ov_ff (a b : Nat) : overlap (.fixed a) (.fixed b) = .fixed (max a b) := by
  by_cases h : a = b
  · subst h; simp [overlap]
  · simp [overlap, h]
theorem ov_fm (f m : Nat) : overlap (.fixed f) (.minimum m) = .minimum (min m f) := by simp [overlap]
theorem ov_mf (f m : Nat) : overlap (.minimum m) (.fixed f) = .minimum (min m f) := by simp [overlap]
theorem ov_mm (a b : Nat) : overlap (.minimum a) (.minimum b) = .minimum (min a b) := by simp [overlap]

theorem overlap_comm (a b : PCount) : overlap a b = overlap b a := by
  cases a <;> cases b <;> simp only [ov_vl, ov_vr, ov_ff, ov_fm, ov_mf, ov_mm] <;> congr 1 <;> omega

theorem overlap_idem (a : PCount) : overlap a a = a := by
  cases a <;> simp [overlap]

/-- the join's meaning: the overlap accepts a call iff one of the two definitions does -/
theorem accepts_overlap (a b : PCount) (p : Passed) : accepts (overlap a b) p = (accepts a p || accepts b p) := by
  cases a <;> cases b <;> cases p <;> simp only [ov_vl, ov_vr, ov_ff, ov_fm, ov_mf, ov_mm, accepts, Bool.or_true, Bool.true_or] <;>
    rw [Bool.eq_iff_iff] <;> simp <;> omega

/-- associativity holds for what the join is used for (which calls are accepted) … -/
theorem overlap_assoc_accepts (a b c : PCount) (p : Passed) :
    accepts (overlap (overlap a b) c) p = accepts (overlap a (overlap b c)) p := by
  simp only [accepts_overlap, Bool.or_assoc]

/-- … but not as an equation between counts: `f(a)`, `f(a, b, c)`, `f(a, b, c, d, e, ...)` join to `Minimum(3)` or
    `Minimum(1)` depending on the order (both accept every call, and a `Minimum` count is never printed) -/
theorem overlap_not_assoc :
    overlap (overlap (.fixed 1) (.fixed 3)) (.minimum 5) ≠ overlap (.fixed 1) (overlap (.fixed 3) (.minimum 5)) := by decide

/-! ### "flagged ⇒ every recorded definition rejects the call" -/

/-- the join of a non-empty list of counts, in the order `verify_assignment` folds them -/
def joinAll : List PCount → Option PCount
  | [] => none
  | c :: cs => some (cs.foldl (fun acc x => overlap x acc) c)

theorem accepts_foldl (p : Passed) : ∀ (cs : List PCount) (c : PCount),
    accepts (cs.foldl (fun acc x => overlap x acc) c) p = (accepts c p || cs.any (fun x => accepts x p))
  | [], c => by simp
  | x :: cs, c => by
    simp only [List.foldl_cons, List.any_cons]
    rw [accepts_foldl p cs (overlap x c), accepts_overlap]
    cases accepts x p <;> cases accepts c p <;> simp

theorem joinAll_accepts {l : List PCount} {pc : PCount} (h : joinAll l = some pc) (p : Passed) :
    accepts pc p = l.any (fun x => accepts x p) := by
  cases l with
  | nil => simp [joinAll] at h
  | cons c cs =>
    simp only [joinAll, Option.some.injEq] at h
    subst h
    rw [accepts_foldl]; simp

theorem joinAll_snoc (l : List PCount) (c : PCount) :
    joinAll (l ++ [c]) = some (match joinAll l with | some older => overlap c older | none => c) := by
  cases l with
  | nil => simp [joinAll]
  | cons a as => simp [joinAll, List.foldl_append]

/-- the map built by the first pass holds, for every variable, the join of the counts recorded for it -/
theorem build_eq_joinAll (v : Nat) : ∀ (evs : List Ev) (m : Defs) (acc : List PCount), m v = joinAll acc →
    (evs.foldl applyEv m) v =
      joinAll (evs.foldl (fun acc ev => if ev.var = v then (if ev.insert then [ev.count] else acc ++ [ev.count]) else acc) acc)
  | [], m, acc, h => by simpa using h
  | ev :: evs, m, acc, h => by
    simp only [List.foldl_cons]
    apply build_eq_joinAll v evs
    by_cases hv : ev.var = v
    · subst hv
      cases hi : ev.insert with
      | true => simp [applyEv, hi, Defs.set, joinAll]
      | false =>
        simp only [applyEv, hi, Bool.false_eq_true, if_false, if_true]
        rw [joinAll_snoc, ← h]
        cases hm : m ev.var <;> simp [Defs.set]
    · have hv' : ¬ v = ev.var := fun e => hv e.symm
      simp only [hv, if_false]
      rw [← h]
      unfold applyEv
      cases hi : ev.insert with
      | true => simp [Defs.set, hv']
      | false => cases hm : m ev.var <;> simp [Defs.set, hv']

theorem build_recorded (v : Nat) (evs : List Ev) : build evs v = joinAll (recorded v evs) :=
  build_eq_joinAll v evs (fun _ => none) [] rfl

theorem callee_defs {σ : Selene.Scope.St} {defs : Defs} {c : FCall} {v : Nat} {pc : PCount} {a : Args}
    (h : callee σ defs c = some (v, pc, a)) : defs v = some pc := by
  unfold callee at h
  split at h
  · split at h
    · rename_i v' _
      cases hd : defs v' with
      | none => simp [hd] at h
      | some pc' =>
        simp [hd] at h
        obtain ⟨h1, h2, _⟩ := h
        subst h1; subst h2; exact hd
    · simp at h
  · simp at h

/-- soundness: a reported call names a variable for which the first pass recorded at least one function definition,
    and **every** definition recorded for it (since its declaration) rejects the call -/
theorem mismatched_arg_count_sound {σ : Selene.Scope.St} {P : Block} {g : Diag} (h : g ∈ runWith σ P) :
    ∃ c v pc a, Node.call c ∈ nBlock P ∧ callee σ (build (events σ (nBlock P))) c = some (v, pc, a) ∧ g.primary = c.span ∧
      recorded v (events σ (nBlock P)) ≠ [] ∧
      ∀ d ∈ recorded v (events σ (nBlock P)), accepts d (passedOf a) = false := by
  obtain ⟨n, hn, hg⟩ := List.mem_flatMap.mp h
  cases n with
  | call c =>
    simp only [checkCall] at hg
    cases hc : callee σ (build (events σ (nBlock P))) c with
    | none => simp [hc] at hg
    | some t =>
      obtain ⟨v, pc, a⟩ := t
      simp only [hc] at hg
      by_cases hacc : accepts pc (passedOf a) = true
      · simp [hacc] at hg
      · simp [hacc] at hg
        subst hg
        have hdef : build (events σ (nBlock P)) v = some pc := callee_defs hc
        rw [build_recorded] at hdef
        have hall := joinAll_accepts hdef (passedOf a)
        refine ⟨c, v, pc, a, hn, hc, rfl, ?_, ?_⟩
        · intro he; rw [he] at hdef; simp [joinAll] at hdef
        · intro d hd
          have : (recorded v (events σ (nBlock P))).any (fun x => accepts x (passedOf a)) = false := by
            rw [← hall]; simpa using hacc
          rw [List.any_eq_false] at this
          simpa using this d hd
  | block b => simp [checkCall] at hg
  | last l => simp [checkCall] at hg
  | stmt s => simp [checkCall] at hg

/-- canonical `local function foo(a, b) end … foo(1, 2, 3)`: a call, anywhere in the program, whose name resolves
    to a variable with a recorded fixed count smaller than the number of arguments is reported -/
theorem mismatched_arg_count_canon {σ : Selene.Scope.St} {P : Block} {c : FCall} {v r : Nat} {a : Args}
    (hw : Within (.block P) (.fcall c))
    (hc : callee σ (build (events σ (nBlock P))) c = some (v, .fixed r, a))
    (hmany : accepts (.fixed r) (passedOf a) = false) :
    ∃ g ∈ runWith σ P, g.primary = c.span := by
  refine ⟨{ code := "mismatched_arg_count", primary := c.span, msg := toMessage (.fixed r) (passedOf a),
            secondary := definitionRanges σ (nBlock P) v }, ?_, rfl⟩
  refine List.mem_flatMap.mpr ⟨.call c, within_fcall_mem hw, ?_⟩
  simp [checkCall, hc, hmany]

/-- three arguments for two parameters are rejected; a trailing call or `...` counts as at least one -/
example : accepts (.fixed 2) (passedOf (.parens ⟨0, 6⟩ (.cons (.num ⟨1, "1"⟩) (.cons (.num ⟨3, "0x2"⟩) (.cons (.num ⟨5, "3.0"⟩) .nil))))) = false := by
  decide

end Mismatched

/-! ## almost_swapped -/
section AlmostSwapped
open AlmostSwapped SideEffects

theorem candidate_shape {s : Stmt} {v : Var} {e : Expr} (h : candidate s = some (v, e)) :
    ∃ sp, s = .assign sp (.cons v .nil) (.cons e .nil) := by
  cases s <;> simp only [candidate] at h <;> try (cases h)
  case assign sp vs es =>
    cases vs with
    | nil => simp [candidate] at h
    | cons v' vr =>
      cases vr with
      | cons _ _ => simp [candidate] at h
      | nil =>
        cases es with
        | nil => simp [candidate] at h
        | cons e' er =>
          cases er with
          | cons _ _ => simp [candidate] at h
          | nil =>
            simp only [candidate] at h
            by_cases hv : varSE v' = true
            · simp [hv] at h
            · simp [hv] at h
              obtain ⟨rfl, rfl⟩ := h
              exact ⟨sp, rfl⟩

theorem swap_scan_sound (toks : List String) (g : Diag) : ∀ (l : List Stmt) (st : Option Swap) (pre : List Stmt),
    (∀ sw, st = some sw → ∃ pre' s0 v0 e0, pre = pre' ++ [s0] ∧ candidate s0 = some (v0, e0) ∧ sw = remember toks s0 v0 e0) →
    g ∈ scan toks st l →
    ∃ p s1 s2 q v1 e1 v2 e2, pre ++ l = p ++ s1 :: s2 :: q ∧ candidate s1 = some (v1, e1) ∧ candidate s2 = some (v2, e2) ∧
      nodeToks toks e2.span = nodeToks toks v1.span ∧ nodeToks toks v2.span = nodeToks toks e1.span ∧
      g.primary = ⟨(stmtSpan s1).first, e2.span.last⟩
  | [], st, pre, _, h => by simp [scan] at h
  | s :: rest, st, pre, hst, h => by
    have shift : pre ++ s :: rest = (pre ++ [s]) ++ rest := by simp
    have remembered : ∀ v e, candidate s = some (v, e) → ∀ sw, some (remember toks s v e) = some sw →
        ∃ pre' s0 v0 e0, pre ++ [s] = pre' ++ [s0] ∧ candidate s0 = some (v0, e0) ∧ sw = remember toks s0 v0 e0 := by
      intro v e hc sw hsw
      cases hsw
      exact ⟨pre, s, v, e, rfl, hc, rfl⟩
    unfold scan at h
    cases hc : candidate s with
    | none =>
      simp only [hc] at h
      rw [shift]
      exact swap_scan_sound toks g rest none (pre ++ [s]) (by intro sw hsw; cases hsw) h
    | some ve =>
      obtain ⟨v, e⟩ := ve
      simp only [hc] at h
      cases st with
      | none =>
        simp only at h
        rw [shift]
        exact swap_scan_sound toks g rest _ (pre ++ [s]) (remembered v e hc) h
      | some ls =>
        simp only at h
        by_cases hm : completes toks ls v e = true
        · simp only [hm, if_true] at h
          rcases List.mem_cons.mp h with h | h
          · obtain ⟨pre', s0, v0, e0, hpre, hc0, hls⟩ := hst ls rfl
            subst h
            subst hls
            simp only [completes, remember, Bool.and_eq_true, beq_iff_eq] at hm
            exact ⟨pre', s0, s, rest, v0, e0, v, e, by simp [hpre], hc0, hc, hm.1.symm, hm.2.symm, rfl⟩
          · rw [shift]
            exact swap_scan_sound toks g rest none (pre ++ [s]) (by intro sw hsw; cases hsw) h
        · simp only [hm] at h
          rw [shift]
          exact swap_scan_sound toks g rest _ (pre ++ [s]) (remembered v e hc) h

/-- soundness = the documented condition: a report covers two adjacent statements of one block that are a
    `foo = bar` `bar = foo` sequence, token for token -/
theorem almost_swapped_sound {toks : List String} {P : Block} {g : Diag} (h : g ∈ run toks P) :
    ∃ b p s1 s2 q, Node.block b ∈ nBlock P ∧ (blockStmts b).toList = p ++ s1 :: s2 :: q ∧ Doc.swapPair toks s1 s2 ∧
      g.primary.first = (stmtSpan s1).first := by
  obtain ⟨n, hn, hg⟩ := List.mem_flatMap.mp h
  cases n with
  | block b =>
    simp only [collect] at hg
    obtain ⟨p, s1, s2, q, v1, e1, v2, e2, h0, hc1, hc2, ht1, ht2, hp⟩ :=
      swap_scan_sound toks g (blockStmts b).toList none [] (by intro sw hsw; cases hsw) hg
    obtain ⟨sp1, rfl⟩ := candidate_shape hc1
    obtain ⟨sp2, rfl⟩ := candidate_shape hc2
    exact ⟨b, p, _, _, q, hn, by simpa using h0, ⟨v1, e1, v2, e2, sp1, sp2, rfl, rfl, ht1, ht2⟩, by rw [hp]⟩
  | stmt s => simp [collect] at hg
  | last l => simp [collect] at hg
  | call c => simp [collect] at hg

theorem swap_scan_append (toks : List String) : ∀ (bs : List Stmt) (st : Option Swap),
    ∃ d st', ∀ l, scan toks st (bs ++ l) = d ++ scan toks st' l
  | [], st => ⟨[], st, fun l => by simp⟩
  | s :: bs, st => by
    cases hc : candidate s with
    | none =>
      obtain ⟨d, st', h⟩ := swap_scan_append toks bs none
      exact ⟨d, st', fun l => by simp [scan, hc, h l]⟩
    | some ve =>
      obtain ⟨v, e⟩ := ve
      cases st with
      | none =>
        obtain ⟨d, st', h⟩ := swap_scan_append toks bs (some (remember toks s v e))
        exact ⟨d, st', fun l => by simp [scan, hc, h l]⟩
      | some ls =>
        by_cases hm : completes toks ls v e = true
        · obtain ⟨d, st', h⟩ := swap_scan_append toks bs none
          exact ⟨{ code := "almost_swapped", primary := ⟨ls.start, e.span.last⟩, msg := AlmostSwapped.msg ls.names } :: d, st',
            fun l => by simp [scan, hc, hm, h l]⟩
        · obtain ⟨d, st', h⟩ := swap_scan_append toks bs (some (remember toks s v e))
          exact ⟨d, st', fun l => by simp [scan, hc, hm, h l]⟩

/-- canonical `a = b` `b = a` in any block anywhere in the program, whatever precedes it: the pair is reported — or
    its first statement already closes a reported swap with the statement before it (`b = a` `a = b` `b = a`) -/
theorem almost_swapped_canon {toks : List String} {P b : Block} {before after : List Stmt} {s1 s2 : Stmt} {v1 v2 : Var} {e1 e2 : Expr}
    (hw : Within (.block P) (.block b)) (hb : (blockStmts b).toList = before ++ s1 :: s2 :: after)
    (h1 : candidate s1 = some (v1, e1)) (h2 : candidate s2 = some (v2, e2))
    (ht1 : nodeToks toks e2.span = nodeToks toks v1.span) (ht2 : nodeToks toks v2.span = nodeToks toks e1.span) :
    ∃ g ∈ run toks P, g.primary = ⟨(stmtSpan s1).first, e2.span.last⟩ ∨ g.primary.last = e1.span.last := by
  obtain ⟨d, st', hd⟩ := swap_scan_append toks before none
  have hrun : ∀ g, g ∈ scan toks st' (s1 :: s2 :: after) → g ∈ run toks P := by
    intro g hg
    refine List.mem_flatMap.mpr ⟨.block b, within_block_mem hw, ?_⟩
    simp only [collect, hb, hd, List.mem_append]
    exact Or.inr hg
  have hcomp : completes toks (remember toks s1 v1 e1) v2 e2 = true := by
    simp [completes, remember, ht1, ht2]
  have fresh : scan toks st' (s1 :: s2 :: after) = scan toks (some (remember toks s1 v1 e1)) (s2 :: after) →
      ∃ g ∈ run toks P, g.primary = ⟨(stmtSpan s1).first, e2.span.last⟩ ∨ g.primary.last = e1.span.last := by
    intro hst
    refine ⟨{ code := "almost_swapped", primary := ⟨(stmtSpan s1).first, e2.span.last⟩,
              msg := AlmostSwapped.msg (remember toks s1 v1 e1).names }, hrun _ ?_, Or.inl rfl⟩
    rw [hst]
    simp only [scan, h2, hcomp, if_true]
    exact List.Mem.head _
  cases st' with
  | none => exact fresh (by simp [scan, h1])
  | some ls =>
    by_cases hm : completes toks ls v1 e1 = true
    · refine ⟨{ code := "almost_swapped", primary := ⟨ls.start, e1.span.last⟩, msg := AlmostSwapped.msg ls.names }, hrun _ ?_, Or.inr rfl⟩
      simp [scan, h1, hm]
    · exact fresh (by simp [scan, h1, hm])

/-- at the start of a block, or after a statement that is not a single assignment, it is the pair itself -/
theorem almost_swapped_canon_fresh {toks : List String} {P b : Block} {before after : List Stmt} {s1 s2 : Stmt} {v1 v2 : Var} {e1 e2 : Expr}
    (hw : Within (.block P) (.block b)) (hb : (blockStmts b).toList = before ++ s1 :: s2 :: after)
    (h1 : candidate s1 = some (v1, e1)) (h2 : candidate s2 = some (v2, e2))
    (ht1 : nodeToks toks e2.span = nodeToks toks v1.span) (ht2 : nodeToks toks v2.span = nodeToks toks e1.span)
    (hpre : before = [] ∨ ∃ bs x, before = bs ++ [x] ∧ candidate x = none) :
    ∃ g ∈ run toks P, g.primary = ⟨(stmtSpan s1).first, e2.span.last⟩ := by
  have key : ∃ d, scan toks none (before ++ s1 :: s2 :: after) = d ++ scan toks none (s1 :: s2 :: after) := by
    rcases hpre with rfl | ⟨bs, x, rfl, hx⟩
    · exact ⟨[], by simp⟩
    · obtain ⟨d, st', h⟩ := swap_scan_append toks bs none
      refine ⟨d, ?_⟩
      have := h (x :: s1 :: s2 :: after)
      simp only [List.append_assoc, List.singleton_append]
      rw [this]
      simp [scan, hx]
  obtain ⟨d, hd⟩ := key
  refine ⟨{ code := "almost_swapped", primary := ⟨(stmtSpan s1).first, e2.span.last⟩,
            msg := AlmostSwapped.msg (remember toks s1 v1 e1).names }, ?_, rfl⟩
  refine List.mem_flatMap.mpr ⟨.block b, within_block_mem hw, ?_⟩
  simp only [collect, hb, hd, List.mem_append]
  right
  simp [scan, h1, h2, completes, remember, ht1, ht2]

/-- `x = y` `a = b` `b = a` (tokens 0‥8) — formerly missed: `a = b`, not completing a swap with `x = y`, is remembered -/
def missProgram : Block :=
  let asg (i : Nat) (a b : String) : Stmt := .assign ⟨i, i + 2⟩ (.cons (.name ⟨i, a⟩) .nil) (.cons (.var (.name ⟨i + 2, b⟩)) .nil)
  .mk (some ⟨0, 8⟩) (.cons (asg 0 "x" "y") (.cons (asg 3 "a" "b") (.cons (asg 6 "b" "a") .nil))) .none

theorem almost_swapped_after_assignment_reported :
    (run ["x", "=", "y", "a", "=", "b", "b", "=", "a"] missProgram).map (·.primary) = [⟨3, 8⟩] := by
  decide

/-- `aandb = x` `x = a and b` — formerly reported: the comparison is token by token now -/
def glueProgram : Block :=
  .mk (some ⟨0, 7⟩) (.cons (.assign ⟨0, 2⟩ (.cons (.name ⟨0, "aandb"⟩) .nil) (.cons (.var (.name ⟨2, "x"⟩)) .nil))
    (.cons (.assign ⟨3, 7⟩ (.cons (.name ⟨3, "x"⟩) .nil)
      (.cons (.bin ⟨5, 7⟩ (.var (.name ⟨5, "a"⟩)) ⟨6, "and"⟩ (.var (.name ⟨7, "b"⟩))) .nil)) .nil)) .none

theorem almost_swapped_glued_not_reported :
    run ["aandb", "=", "x", "x", "=", "a", "and", "b"] glueProgram = [] := by
  decide

end AlmostSwapped

/-! ## multiple_statements -/
section MultipleStatements
open MultipleStatements

/-- a statement or last-statement node (the two hooks of the lint) -/
def stmtish : Node → Prop
  | .stmt _ | .last _ => True
  | _ => False

def nodeSpan : Node → Span
  | .stmt s => stmtSpan s
  | .last l => lastSpan l
  | _ => ⟨0, 0⟩

theorem lintStmt_lines_diags (layout : Layout) (σ : St) (sp : Span) :
    let L := endLine layout sp.last
    (L ∈ σ.lines ∧ (lintStmt layout σ sp).lines = σ.lines ∧
        (lintStmt layout σ sp).diags = σ.diags ++ [{ code := "multiple_statements", primary := sp, msg := MultipleStatements.msg }]) ∨
    (L ∉ σ.lines ∧ L ∈ σ.ifLines ∧ (lintStmt layout σ sp).lines = σ.lines ∧ (lintStmt layout σ sp).diags = σ.diags ∧
        L ∉ (lintStmt layout σ sp).ifLines) ∨
    (L ∉ σ.lines ∧ L ∉ σ.ifLines ∧ (lintStmt layout σ sp).lines = L :: σ.lines ∧ (lintStmt layout σ sp).diags = σ.diags ∧
        (lintStmt layout σ sp).ifLines = σ.ifLines) := by
  intro L
  by_cases h1 : σ.lines.contains (endLine layout sp.last) = true
  · have e : lintStmt layout σ sp = { σ with diags := σ.diags ++ [{ code := "multiple_statements", primary := sp, msg := MultipleStatements.msg }] } := by
      unfold lintStmt; simp only [h1, if_true]
    left; rw [e]; exact ⟨by simpa using h1, rfl, rfl⟩
  · by_cases h2 : σ.ifLines.contains (endLine layout sp.last) = true
    · have e : lintStmt layout σ sp = { σ with ifLines := σ.ifLines.filter (· != endLine layout sp.last) } := by
        unfold lintStmt; simp only [h1, h2, if_true]; rfl
      right; left; rw [e]
      refine ⟨by simpa using h1, by simpa using h2, rfl, rfl, ?_⟩
      simp [L]
    · have e : lintStmt layout σ sp = { σ with lines := endLine layout sp.last :: σ.lines } := by
        unfold lintStmt; simp only [h1, h2]; rfl
      right; right; rw [e]
      exact ⟨by simpa using h1, by simpa using h2, rfl, rfl, rfl⟩

theorem prepareIf_same (layout : Layout) (σ : St) (c : Expr) (b : Block) :
    (prepareIf layout σ c b).lines = σ.lines ∧ (prepareIf layout σ c b).diags = σ.diags := by
  unfold prepareIf
  split <;> simp

/-- what a step does to `lines` / `diags`, for a statement-like node: it is `lintStmt` on a state with the same two fields -/
theorem step_stmtish (layout : Layout) (σ : St) (n : Node) (hn : stmtish n) :
    ∃ σ0 : St, σ0.lines = σ.lines ∧ σ0.diags = σ.diags ∧ step layout σ n = lintStmt layout σ0 (nodeSpan n) := by
  cases n with
  | stmt s =>
    cases s
    case if_ sp c b e1 e2 =>
      exact ⟨prepareIf layout σ c b, (prepareIf_same layout σ c b).1, (prepareIf_same layout σ c b).2, by simp [step, nodeSpan]⟩
    all_goals exact ⟨σ, rfl, rfl, by simp [step, nodeSpan]⟩
  | last l => exact ⟨σ, rfl, rfl, by simp [step, nodeSpan]⟩
  | block b => exact hn.elim
  | call c => exact hn.elim

theorem step_plain (layout : Layout) (σ : St) (n : Node) (hn : ¬ stmtish n) : step layout σ n = σ := by
  cases n with
  | stmt s => exact (hn trivial).elim
  | last l => exact (hn trivial).elim
  | block b => simp [step]
  | call c => simp [step]

/-- invariant of the fold: every recorded line is the end line of a statement seen so far; every diagnostic is a
    statement seen so far, preceded by a statement that ends on the same line -/
def Inv (layout : Layout) (pre : List Node) (σ : St) : Prop :=
  (∀ L ∈ σ.lines, ∃ m ∈ pre, stmtish m ∧ endLine layout (nodeSpan m).last = L) ∧
  (∀ d ∈ σ.diags, ∃ p n q, pre = p ++ n :: q ∧ stmtish n ∧ d.primary = nodeSpan n ∧
      ∃ m ∈ p, stmtish m ∧ endLine layout (nodeSpan m).last = endLine layout d.primary.last)

theorem Inv.extend {layout : Layout} {pre : List Node} {σ : St} (h : Inv layout pre σ) (n : Node) : Inv layout (pre ++ [n]) σ := by
  refine ⟨fun L hL => ?_, fun d hd => ?_⟩
  · obtain ⟨m, hm, r⟩ := h.1 L hL
    exact ⟨m, by simp [hm], r⟩
  · obtain ⟨p, n', q, hp, r⟩ := h.2 d hd
    exact ⟨p, n', q ++ [n], by simp [hp], r⟩

theorem Inv.step {layout : Layout} {pre : List Node} {σ : St} (h : Inv layout pre σ) (n : Node) :
    Inv layout (pre ++ [n]) (step layout σ n) := by
  by_cases hn : stmtish n
  · obtain ⟨σ0, hl, hd, hs⟩ := step_stmtish layout σ n hn
    rw [hs]
    have h0 : Inv layout (pre ++ [n]) σ0 := by
      have := h.extend n
      exact ⟨by rw [hl]; exact this.1, by rw [hd]; exact this.2⟩
    rcases lintStmt_lines_diags layout σ0 (nodeSpan n) with ⟨hin, e1, e2⟩ | ⟨_, _, e1, e2, _⟩ | ⟨_, _, e1, e2, _⟩
    · refine ⟨by rw [e1]; exact h0.1, ?_⟩
      rw [e2]
      intro d hd'
      rcases List.mem_append.mp hd' with hd' | hd'
      · exact h0.2 d hd'
      · simp only [List.mem_singleton] at hd'
        subst hd'
        obtain ⟨m, hm, hms, hml⟩ := h.1 _ (by rw [← hl]; exact hin)
        refine ⟨pre, n, [], rfl, hn, ?_, m, hm, hms, ?_⟩
        · rfl
        · exact hml
    · exact ⟨by rw [e1]; exact h0.1, by rw [e2]; exact h0.2⟩
    · refine ⟨?_, by rw [e2]; exact h0.2⟩
      rw [e1]
      intro L hL
      rcases List.mem_cons.mp hL with hL | hL
      · exact ⟨n, by simp, hn, hL.symm⟩
      · exact h0.1 L hL
  · rw [step_plain layout σ n hn]
    exact h.extend n

theorem Inv.foldl {layout : Layout} : ∀ (l pre : List Node) (σ : St), Inv layout pre σ →
    Inv layout (pre ++ l) (l.foldl (MultipleStatements.step layout) σ)
  | [], pre, σ, h => by simpa using h
  | n :: l, pre, σ, h => by
    have := Inv.foldl l (pre ++ [n]) _ (h.step n)
    simpa using this

/-- soundness: a reported range is a statement (or last statement) of the program, and a statement visited before it
    ends on the same line -/
theorem multiple_statements_sound {layout : Layout} {P : Block} {g : Diag} (h : g ∈ run layout P) :
    ∃ p n q, nBlock P = p ++ n :: q ∧ stmtish n ∧ g.primary = nodeSpan n ∧
      ∃ m ∈ p, stmtish m ∧ endLine layout (nodeSpan m).last = endLine layout g.primary.last := by
  have inv : Inv layout ([] ++ nBlock P) ((nBlock P).foldl (MultipleStatements.step layout) {}) :=
    Inv.foldl (nBlock P) [] {} ⟨by intro L hL; simp at hL, by intro d hd; simp at hd⟩
  simpa using inv.2 g h

theorem diags_mono (layout : Layout) : ∀ (l : List Node) (σ : St) (d : Diag), d ∈ σ.diags →
    d ∈ (l.foldl (MultipleStatements.step layout) σ).diags
  | [], σ, d, h => by simpa using h
  | n :: l, σ, d, h => by
    simp only [List.foldl_cons]
    apply diags_mono layout l
    by_cases hn : stmtish n
    · obtain ⟨σ0, _, hd, hs⟩ := step_stmtish layout σ n hn
      rw [hs]
      rcases lintStmt_lines_diags layout σ0 (nodeSpan n) with ⟨_, _, e2⟩ | ⟨_, _, _, e2, _⟩ | ⟨_, _, _, e2, _⟩ <;>
        rw [e2] <;> simp [hd, h]
    · rw [step_plain layout σ n hn]; exact h

theorem foldl_plain (layout : Layout) : ∀ (l : List Node) (σ : St), (∀ n ∈ l, ¬ stmtish n) →
    l.foldl (MultipleStatements.step layout) σ = σ
  | [], σ, _ => rfl
  | n :: l, σ, h => by
    simp only [List.foldl_cons]
    rw [step_plain layout σ n (h n (by simp))]
    exact foldl_plain layout l σ (fun m hm => h m (by simp [hm]))

def notIf : Stmt → Prop
  | .if_ _ _ _ _ _ => False
  | _ => True

theorem step_notIf (layout : Layout) (σ : St) (s : Stmt) (h : notIf s) :
    MultipleStatements.step layout σ (.stmt s) = lintStmt layout σ (stmtSpan s) := by
  cases s <;> first | exact h.elim | simp [MultipleStatements.step]

/-- canonical `foo() bar() baz()`: three consecutive statements of one statement list, anywhere in the program, each
    without nested statements, ending on the same line — the **third** is always reported.  (The second is reported
    too unless a one-line `if … then` of that very line is still pending, see `multiple_statements_miss_witness`.) -/
theorem multiple_statements_canon_third {layout : Layout} {P : Block} {s1 s2 s3 : Stmt} {rest : StmtList}
    (hw : Within (.block P) (.stmts (.cons s1 (.cons s2 (.cons s3 rest)))))
    (hq1 : ∀ n ∈ nStmt s1, ¬ stmtish n) (hq2 : ∀ n ∈ nStmt s2, ¬ stmtish n)
    (hn2 : notIf s2) (hn3 : notIf s3)
    (hl12 : endLine layout (stmtSpan s1).last = endLine layout (stmtSpan s2).last)
    (hl23 : endLine layout (stmtSpan s2).last = endLine layout (stmtSpan s3).last) :
    ∃ g ∈ run layout P, g.primary = stmtSpan s3 := by
  obtain ⟨pre, post, hsplit⟩ := within_nodes_infix hw
  simp only [Any.nodes, nStmts] at hsplit
  refine ⟨{ code := "multiple_statements", primary := stmtSpan s3, msg := MultipleStatements.msg }, ?_, rfl⟩
  unfold run
  rw [← hsplit]
  simp only [List.foldl_append, List.foldl_cons]
  generalize pre.foldl (MultipleStatements.step layout) {} = σ
  -- first statement
  obtain ⟨σ0, _, _, hs1⟩ := step_stmtish layout σ (.stmt s1) trivial
  rw [hs1, foldl_plain layout (nStmt s1) _ hq1]
  have a1 : endLine layout (stmtSpan s1).last ∈ (lintStmt layout σ0 (nodeSpan (.stmt s1))).lines ∨
      endLine layout (stmtSpan s1).last ∉ (lintStmt layout σ0 (nodeSpan (.stmt s1))).ifLines := by
    rcases lintStmt_lines_diags layout σ0 (nodeSpan (.stmt s1)) with ⟨hin, e1, _⟩ | ⟨_, _, _, _, e3⟩ | ⟨_, _, e1, _, _⟩
    · left; rw [e1]; exact hin
    · right; exact e3
    · left; rw [e1]; simp [nodeSpan]
  generalize lintStmt layout σ0 (nodeSpan (.stmt s1)) = σ1 at a1
  -- second statement
  rw [step_notIf layout σ1 s2 hn2, foldl_plain layout (nStmt s2) _ hq2]
  have a2 : endLine layout (stmtSpan s2).last ∈ (lintStmt layout σ1 (stmtSpan s2)).lines := by
    rcases lintStmt_lines_diags layout σ1 (stmtSpan s2) with ⟨hin, e1, _⟩ | ⟨hnl, hil, _, _, _⟩ | ⟨_, _, e1, _, _⟩
    · rw [e1]; exact hin
    · rw [← hl12] at hnl hil
      rcases a1 with a1 | a1
      · exact (hnl a1).elim
      · exact (a1 hil).elim
    · rw [e1]; simp
  generalize lintStmt layout σ1 (stmtSpan s2) = σ2 at a2
  -- third statement
  rw [step_notIf layout σ2 s3 hn3]
  apply diags_mono
  apply diags_mono
  apply diags_mono
  rcases lintStmt_lines_diags layout σ2 (stmtSpan s3) with ⟨_, _, e2⟩ | ⟨hnl, _, _, _, _⟩ | ⟨hnl, _, _, _, _⟩
  · rw [e2]; simp
  · rw [← hl23] at hnl; exact (hnl a2).elim
  · rw [← hl23] at hnl; exact (hnl a2).elim

/-- a call statement `name()` at tokens `i … i+2` -/
def callStmt (i : Nat) (name : String) : Stmt :=
  .call (.mk ⟨i, i + 2⟩ (.name ⟨i, name⟩) (.cons (.args ⟨i + 1, i + 2⟩ (.parens ⟨i + 1, i + 2⟩ .nil)) .nil))

/-- `if (function() foo() bar() end)() then⏎ return⏎ end` — 18 tokens, `then` is token 15 and ends line 1 -/
def missIfProgram : Block :=
  let inner : Block := .mk (some ⟨5, 10⟩) (.cons (callStmt 5 "foo") (.cons (callStmt 8 "bar") .nil)) .none
  let cond : Expr := .call (.mk ⟨1, 14⟩ (.expr (.paren ⟨1, 12⟩ (.func ⟨2, 11⟩ ⟨2, "function"⟩ (.mk ⟨3, 11⟩ [] inner))))
    (.cons (.args ⟨13, 14⟩ (.parens ⟨13, 14⟩ .nil)) .nil))
  .mk (some ⟨0, 17⟩) (.cons (.if_ ⟨0, 17⟩ cond (.mk (some ⟨16, 16⟩) .nil (.ret ⟨16, 16⟩ .nil)) .nil .none) .nil) .none

def missIfLayout : Layout :=
  (List.replicate 16 (⟨0, 0, 1, 1⟩ : TokLayout) ++ [(⟨0, 0, 2, 2⟩ : TokLayout), (⟨0, 0, 3, 3⟩ : TokLayout)]).toArray

/-- the departure: `foo() bar()` on one line inside a function in the condition of a return-only `if` whose `then`
    is on that line — `foo()` uses up the pending one-line-if allowance, `bar()` is then the "first" statement -/
theorem multiple_statements_miss_witness : run missIfLayout missIfProgram = [] := by rfl

/-- non-vacuity of `multiple_statements_canon_third`: `foo() bar() baz()` on line 1 -/
example : (∀ n ∈ nStmt (callStmt 0 "foo"), ¬ stmtish n) ∧ notIf (callStmt 3 "bar") ∧
    endLine (List.replicate 9 (⟨0, 0, 1, 1⟩ : TokLayout)).toArray (stmtSpan (callStmt 0 "foo")).last =
    endLine (List.replicate 9 (⟨0, 0, 1, 1⟩ : TokLayout)).toArray (stmtSpan (callStmt 6 "baz")).last := by
  refine ⟨?_, trivial, by decide⟩
  intro n hn
  simp [callStmt, nStmt, nFCall, nPrefix, nSuffixes, nSuffix, nArgs, nExprs] at hn
  subst hn
  exact fun h => h

end MultipleStatements

end Selene.Props.C04B
