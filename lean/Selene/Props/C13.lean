/-
C13 — whitespace and comments do not change what is diagnosed.

The model lints compute over the trivia-free tree and name ranges by token index; byte offsets
live only in the `Layout`, which these functions never receive.  Layout-independence of the
modelled lints is therefore parametricity: the functions below are applied to a chunk but cannot
observe its layout.  What makes this non-vacuous is the correspondence run: the real lints, run on
a program and on a trivia-rewritten twin, must produce the same diagnostics in token space — every
place where the Rust looked at source text *with* its trivia broke exactly that (see the `fixed:`
lines for C13 in known_findings.txt).
-/
import Selene.Scope.Lints
import Selene.Scope.MoreLints
import Selene.Scope.RefAt
import Selene.Std.Access
import Selene.Std.Prog
import Selene.Lints.DivideByZero
import Selene.Lints.CompareNan
import Selene.Lints.SuspiciousReverseLoop
import Selene.Lints.DuplicateKeys
import Selene.Lints.MixedTable
import Selene.Lints.ConstantTableComparison
import Selene.Lints.TypeCheckInsideCall
import Selene.Lints.BadStringEscape
import Selene.Lints.ParentheseConditions
import Selene.Lints.Cyclomatic
import Selene.Lints.Roblox
import Selene.Lints.UnbalancedAssignments
import Selene.Lints.EmptyIf
import Selene.Lints.EmptyLoop
import Selene.Lints.IfSameThenElse
import Selene.Lints.IfsSameCond
import Selene.Lints.AlmostSwapped
import Selene.Lints.MismatchedArgCount
import Selene.Lints.MultipleStatements
import Selene.Scope.ManualTableClone
import Selene.Lints.Roact
namespace Selene.Props.C13
open Selene.Scope Selene.Lua

/-- all diagnostics of the modelled scope lints for a chunk, in token space -/
def scopeDiags (hasFields : String → Bool) (argObserves : List String → Nat → Option Bool)
    (ignore : String → Bool) (aus : Bool) (c : Chunk) : List Diag :=
  let σ := analyse c.block
  undefinedVariable hasFields σ ++ unusedVariable hasFields argObserves ignore aus σ ++ shadowing ignore σ

/-- **C13 (layout-free).** Two chunks with the same tree and different layouts (any whitespace,
any comments, any byte positions) get the same diagnostics in token space. -/
theorem C13_layout_free (hasFields : String → Bool) (argObserves : List String → Nat → Option Bool)
    (ignore : String → Bool) (aus : Bool) (b : Block) (L₁ L₂ : Layout) :
    scopeDiags hasFields argObserves ignore aus { block := b, layout := L₁ } =
    scopeDiags hasFields argObserves ignore aus { block := b, layout := L₂ } := rfl

/-- the scope tables themselves are layout-free -/
theorem C13_tables_layout_free (b : Block) (L₁ L₂ : Layout) :
    (analyse ({ block := b, layout := L₁ } : Chunk).block).refs = (analyse ({ block := b, layout := L₂ } : Chunk).block).refs := rfl

/-- byte ranges are obtained from token ranges through the layout only at the very end: the induced
shift of positions is exactly the change of the layout -/
def toBytes (L : Layout) (s : Span) : Option (Nat × Nat) :=
  match L[s.first]?, L[s.last]? with
  | some a, some b => some (a.start, b.stop)
  | _, _ => none

theorem C13_shift (hasFields : String → Bool) (argObserves : List String → Nat → Option Bool)
    (ignore : String → Bool) (aus : Bool) (b : Block) (L₁ L₂ : Layout) :
    (scopeDiags hasFields argObserves ignore aus { block := b, layout := L₁ }).map (fun d => (d.code, d.primary, d.secondary)) =
    (scopeDiags hasFields argObserves ignore aus { block := b, layout := L₂ }).map (fun d => (d.code, d.primary, d.secondary)) := rfl

/-! ## Every modelled lint

`toks` (the text of every token) and `seps` (which tokens are separators) are what `purge_trivia` leaves of
the source; the library, the configuration and the tree are the other inputs.  None of the functions below
receives the layout — except `multiple_statements`, which is documented to look at lines and is treated
separately (`C13_multiple_statements_lines_only`). -/

structure AllDiags where
  scope : List Diag
  more : List Diag
  exprLints : List Selene.Lints.Diag
  stmtLints : List Selene.LintsB.Diag
  library : List Selene.Std.Prog.PDiag
  clone : List Selene.Scope.ManualTableClone.Match
  roact : List Selene.Lints.Roact.Diag
deriving DecidableEq

open Selene.Lints Selene.LintsB in
/-- the diagnostics of the modelled lints for a chunk, in token space: with `multiple_statements` (treated separately below) and
    `invalid_lint_filter` (the filter machine of C08 / C09) every lint of selene's 32.  `hasClone`: does the library
    define `table.clone`; `filterComments`: the comments in front of each token (read for filter comments only) -/
def allDiags (hasFields : String → Bool) (argObserves : List String → Nat → Option Bool)
    (ignore : String → Bool) (aus roblox : Bool) (maxComplexity : Nat) (lib : Selene.Std.SegLib) (allow : List (List String))
    (toks : List String) (seps : List Nat) (hasClone : Bool) (filterComments : Nat → List String)
    (roactEnabled : Bool) (classes : Selene.Std.Roblox.Classes) (c : Chunk) : AllDiags :=
  let σ := analyse c.block
  let R := (Core.analyse c.block).resolvedAt
  { scope := undefinedVariable hasFields σ ++ unusedVariable hasFields argObserves ignore aus σ ++ shadowing ignore σ,
    more := globalUsage roblox none σ ++ unscopedVariables ignore hasFields σ,
    exprLints := DivideByZero.lint c.block ++ CompareNan.lint c.block ++ SuspiciousReverseLoop.lint c.block ++
      DuplicateKeys.lint c.block ++ MixedTable.lint c.block ++ ConstantTableComparison.lint c.block ++
      TypeCheckInsideCall.lint roblox c.block ++ BadStringEscape.lint roblox c.block ++ ParentheseConditions.lint c.block ++
      Cyclomatic.lint maxComplexity c.block ++ (if roblox then Selene.Lints.Roblox.lint c.block else []),
    stmtLints := UnbalancedAssignments.run c.block ++ EmptyIf.run c.block ++ EmptyLoop.run c.block ++
      IfSameThenElse.run toks seps c.block ++ IfsSameCond.run toks seps c.block ++ AlmostSwapped.run toks c.block ++
      MismatchedArgCount.run c.block,
    library := Selene.Std.Prog.stdLint lib R c.block ++ Selene.Std.Prog.deprecatedLint lib R allow c.block ++
      Selene.Std.Prog.mustUseLint lib R c.block,
    clone := Selene.Scope.ManualTableClone.run hasClone σ filterComments c.block,
    roact := Selene.Lints.Roact.run roactEnabled toks classes c.block }

/-- **C13 (all modelled lints are layout-free).** Same tree, same token texts, any two layouts: the same
diagnostics in token space, for every library and configuration. -/
theorem C13_all_layout_free (hasFields : String → Bool) (argObserves : List String → Nat → Option Bool)
    (ignore : String → Bool) (aus roblox : Bool) (maxComplexity : Nat) (lib : Selene.Std.SegLib) (allow : List (List String))
    (toks : List String) (seps : List Nat) (hasClone : Bool) (filterComments : Nat → List String)
    (roactEnabled : Bool) (classes : Selene.Std.Roblox.Classes) (b : Block) (L₁ L₂ : Layout) :
    allDiags hasFields argObserves ignore aus roblox maxComplexity lib allow toks seps hasClone filterComments roactEnabled classes { block := b, layout := L₁ } =
    allDiags hasFields argObserves ignore aus roblox maxComplexity lib allow toks seps hasClone filterComments roactEnabled classes { block := b, layout := L₂ } := rfl

open Selene.LintsB.MultipleStatements in
/-- **C13 (multiple_statements looks at lines only).** Two layouts that put the end of every token on the same
line — any change of blanks and comments that neither joins nor splits lines, up to blank lines *inside* the
file being kept — give the same reports: the lint sees the layout through `endLine` alone. -/
theorem C13_multiple_statements_lines_only (L₁ L₂ : Layout) (h : ∀ i, endLine L₁ i = endLine L₂ i) (b : Block) :
    run L₁ b = run L₂ b := by
  have hp : ∀ σ c blk, prepareIf L₁ σ c blk = prepareIf L₂ σ c blk := by
    intro σ c blk; unfold prepareIf; simp only [h]
  have hl : ∀ σ sp, lintStmt L₁ σ sp = lintStmt L₂ σ sp := by
    intro σ sp; unfold lintStmt; simp only [h]
  have hs : step L₁ = step L₂ := by
    funext σ n
    cases n with
    | stmt s => cases s <;> simp only [step, hp, hl]
    | last l => simp only [step, hl]
    | _ => rfl
  unfold run
  rw [hs]

/-! ### … and only at *which* tokens share a line: line numbers may be relabelled -/

open Selene.LintsB.MultipleStatements in
/-- the states of two runs whose line numbers differ by the relabelling `f` -/
def MsRel (f : Nat → Nat) (σ₁ σ₂ : Selene.LintsB.MultipleStatements.St) : Prop :=
  σ₂.ifLines = σ₁.ifLines.map f ∧ σ₂.lines = σ₁.lines.map f ∧ σ₂.diags = σ₁.diags

theorem contains_map_inj (f : Nat → Nat) (hf : ∀ a b, f a = f b → a = b) (l : List Nat) (x : Nat) :
    (l.map f).contains (f x) = l.contains x := by
  induction l with
  | nil => rfl
  | cons a rest ih =>
    simp only [List.map_cons, List.contains_cons, ih]
    by_cases hax : x = a
    · subst hax; simp
    · have : f x ≠ f a := fun h => hax (hf _ _ h)
      have e1 : (f x == f a) = false := by simpa using this
      have e2 : (x == a) = false := by simpa using hax
      rw [e1, e2]

theorem filter_map_inj (f : Nat → Nat) (hf : ∀ a b, f a = f b → a = b) (l : List Nat) (x : Nat) :
    (l.map f).filter (· != f x) = (l.filter (· != x)).map f := by
  induction l with
  | nil => rfl
  | cons a rest ih =>
    simp only [List.map_cons, List.filter_cons, ih]
    by_cases hax : a = x
    · subst hax; simp
    · have : f a ≠ f x := fun h => hax (hf _ _ h)
      simp [hax, this]

open Selene.LintsB.MultipleStatements in
/-- **C13 (multiple_statements under any change of blank lines and comments that neither joins nor splits
lines of code).** If the second layout's line numbers are the first's under an injective relabelling — blank
lines and comment lines added or removed anywhere shift the lines after them, tokens that shared a line still
do and no others — the reports are the same. -/
theorem C13_multiple_statements_relabel (L₁ L₂ : Layout) (f : Nat → Nat) (hf : ∀ a b, f a = f b → a = b)
    (h : ∀ i, endLine L₂ i = f (endLine L₁ i)) (b : Block) : run L₁ b = run L₂ b := by
  have hl : ∀ σ₁ σ₂ sp, MsRel f σ₁ σ₂ → MsRel f (lintStmt L₁ σ₁ sp) (lintStmt L₂ σ₂ sp) := by
    intro σ₁ σ₂ sp ⟨h1, h2, h3⟩
    unfold lintStmt
    simp only [h, h1, h2, h3, contains_map_inj f hf]
    split
    · exact ⟨rfl, rfl, rfl⟩
    · split
      · exact ⟨filter_map_inj f hf _ _, rfl, rfl⟩
      · exact ⟨rfl, by simp, rfl⟩
  have hp : ∀ σ₁ σ₂ c blk, MsRel f σ₁ σ₂ → MsRel f (prepareIf L₁ σ₁ c blk) (prepareIf L₂ σ₂ c blk) := by
    intro σ₁ σ₂ c blk ⟨h1, h2, h3⟩
    unfold prepareIf
    split
    · exact ⟨h1, h2, h3⟩
    · simp only [h, h1, contains_map_inj f hf]
      split
      · exact ⟨rfl, h2, h3⟩
      · exact ⟨by simp, h2, h3⟩
    · exact ⟨h1, h2, h3⟩
  have hs : ∀ σ₁ σ₂ n, MsRel f σ₁ σ₂ → MsRel f (step L₁ σ₁ n) (step L₂ σ₂ n) := by
    intro σ₁ σ₂ n hr
    cases n with
    | stmt s => cases s <;> simp only [step] <;> first | exact hl _ _ _ (hp _ _ _ _ hr) | exact hl _ _ _ hr
    | last l => simp only [step]; exact hl _ _ _ hr
    | block _ => exact hr
    | call _ => exact hr
  have hfold : ∀ (ns : List Selene.LintsB.Node) σ₁ σ₂, MsRel f σ₁ σ₂ →
      MsRel f (ns.foldl (step L₁) σ₁) (ns.foldl (step L₂) σ₂) := by
    intro ns
    induction ns with
    | nil => intro _ _ hr; exact hr
    | cons n rest ih => intro σ₁ σ₂ hr; exact ih _ _ (hs _ _ n hr)
  unfold run
  exact (hfold _ _ _ ⟨rfl, rfl, rfl⟩).2.2.symm

end Selene.Props.C13
