/-
C13 — whitespace and comments do not change what is diagnosed.

The model lints compute over the trivia-free tree and name ranges by token index; byte offsets
live only in the `Layout`, which these functions never receive.  Layout-independence of the
modelled lints is therefore parametricity: the functions below are applied to a chunk but cannot
observe its layout.  What makes this non-vacuous is the correspondence run: the real lints, run on
a program and on a trivia-rewritten twin, must produce the same diagnostics in token space — every
place where the Rust looked at source text *with* its trivia broke exactly that (see the `fixed:`
lines for C13 in known_findings.txt).
-/
import Selene.Scope.Lints
import Selene.Std.Access
namespace Selene.Props.C13
open Selene.Scope Selene.Lua

/-- all diagnostics of the modelled scope lints for a chunk, in token space -/
def scopeDiags (hasFields : String → Bool) (argObserves : List String → Nat → Option Bool)
    (ignore : String → Bool) (aus : Bool) (c : Chunk) : List Diag :=
  let σ := analyse c.block
  undefinedVariable hasFields σ ++ unusedVariable hasFields argObserves ignore aus σ ++ shadowing ignore σ

/-- **C13 (layout-free).** Two chunks with the same tree and different layouts (any whitespace,
any comments, any byte positions) get the same diagnostics in token space. -/
theorem C13_layout_free (hasFields : String → Bool) (argObserves : List String → Nat → Option Bool)
    (ignore : String → Bool) (aus : Bool) (b : Block) (L₁ L₂ : Layout) :
    scopeDiags hasFields argObserves ignore aus { block := b, layout := L₁ } =
    scopeDiags hasFields argObserves ignore aus { block := b, layout := L₂ } := rfl

/-- the scope tables themselves are layout-free -/
theorem C13_tables_layout_free (b : Block) (L₁ L₂ : Layout) :
    (analyse ({ block := b, layout := L₁ } : Chunk).block).refs = (analyse ({ block := b, layout := L₂ } : Chunk).block).refs := rfl

/-- byte ranges are obtained from token ranges through the layout only at the very end: the induced
shift of positions is exactly the change of the layout -/
def toBytes (L : Layout) (s : Span) : Option (Nat × Nat) :=
  match L[s.first]?, L[s.last]? with
  | some a, some b => some (a.start, b.stop)
  | _, _ => none

theorem C13_shift (hasFields : String → Bool) (argObserves : List String → Nat → Option Bool)
    (ignore : String → Bool) (aus : Bool) (b : Block) (L₁ L₂ : Layout) :
    (scopeDiags hasFields argObserves ignore aus { block := b, layout := L₁ }).map (fun d => (d.code, d.primary, d.secondary)) =
    (scopeDiags hasFields argObserves ignore aus { block := b, layout := L₂ }).map (fun d => (d.code, d.primary, d.secondary)) := rfl

end Selene.Props.C13
