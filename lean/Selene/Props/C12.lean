/-
C12 — checking a file is a deterministic pure function of (config, library, source).

A Lean function is deterministic by construction; what can break this in the Rust is hidden state
and hash iteration order.  Both are modelled so that they *could* break the theorem:
* the lazily initialised global tree (`OnceCell<GlobalTreeCache>`) is an explicit state threaded
  through every lookup;
* the one place where a hash map is *iterated* and reaches the output
  (`possible_standard_libraries`, sorted afterwards) takes the iteration order as an input.
Hash *lookups* elsewhere are finite-map lookups (order-free); that no other hash iteration reaches a
diagnostic is a source audit run by the check.  Thread interleavings at the memory level are Rust's
`Sync` guarantee, not modelled.
-/
import Selene.Std.Trie
import Selene.Props.C06
namespace Selene.Props.C12
open Selene.Std

/-! ### the lazily built tree never changes an answer -/

/-- `find_global` against an explicit tree (what `global_tree_cache()` returned) -/
def findGlobalWith (tree : Children) (l : SegLib) (names : Path) : Lookup :=
  match names with
  | [] => .panic "assert!(!names.is_empty())"
  | _ =>
    match l.globals.get names with
    | some f => .found f
    | none => walkTree l.structs l.globals tree names

/-- checker state: the `OnceCell` -/
abbrev Cache := Option Children

/-- one lookup through the cell: initialise on first use, reuse afterwards -/
def stepLookup (l : SegLib) (st : Cache) (names : Path) : Cache × Lookup :=
  let tree := match st with
    | some t => t
    | none => extractIntoTree l.globals
  (some tree, findGlobalWith tree l names)

def Inv (l : SegLib) (st : Cache) : Prop := st = none ∨ st = some (extractIntoTree l.globals)

theorem findGlobalWith_built (l : SegLib) (names : Path) :
    findGlobalWith (extractIntoTree l.globals) l names = findGlobal l names := by
  unfold findGlobalWith findGlobal; rfl

theorem step_inv (l : SegLib) (st : Cache) (names : Path) (h : Inv l st) :
    Inv l (stepLookup l st names).1 ∧ (stepLookup l st names).2 = findGlobal l names := by
  rcases h with h | h <;> subst h <;> simp [stepLookup, Inv, findGlobalWith_built]

/-- run a whole history of lookups through one shared checker -/
def runHistory (l : SegLib) : Cache → List Path → Cache × List Lookup
  | st, [] => (st, [])
  | st, q :: rest =>
    let (st', r) := stepLookup l st q
    let (st'', rs) := runHistory l st' rest
    (st'', r :: rs)

/-- **C12 (history).** Whatever was looked up before through the same checker instance, every
lookup answers exactly as a fresh, stateless lookup: the shared cache is unobservable. -/
theorem C12_history (l : SegLib) (hist : List Path) (st : Cache) (h : Inv l st) :
    (runHistory l st hist).2 = hist.map (findGlobal l) ∧ Inv l (runHistory l st hist).1 := by
  induction hist generalizing st with
  | nil => exact ⟨rfl, h⟩
  | cons q rest ih =>
    obtain ⟨hinv, hres⟩ := step_inv l st q h
    obtain ⟨ih1, ih2⟩ := ih (stepLookup l st q).1 hinv
    simp only [runHistory, List.map_cons]
    exact ⟨by rw [ih1, hres], ih2⟩

/-- two histories that contain the same query answer it identically, wherever it occurs -/
theorem C12_order_independent (l : SegLib) (h₁ h₂ : List Path) (q : Path) (i j : Nat)
    (hi : h₁[i]? = some q) (hj : h₂[j]? = some q) :
    (runHistory l none h₁).2[i]? = (runHistory l none h₂).2[j]? := by
  rw [(C12_history l h₁ none (Or.inl rfl)).1, (C12_history l h₂ none (Or.inl rfl)).1]
  simp [List.getElem?_map, hi, hj]

/-! ### the only hash iteration that reaches a diagnostic is sorted -/

/-- `possible_standard_libraries`: iterate the map of built-in libraries in *some* order, keep the
names (here: their ranks in a fixed enumeration) that define the path, sort -/
def possibleStd (iterationOrder : List (Nat × Bool)) : List Nat :=
  ((iterationOrder.filter (·.2)).map (·.1)).mergeSort (fun a b => decide (a ≤ b))

/-- **C12 (hash order).** The note listing the libraries that define a name does not depend on the
order in which the hash map of built-in libraries is iterated. -/
theorem C12_hash_order (o₁ o₂ : List (Nat × Bool)) (h : o₁.Perm o₂) : possibleStd o₁ = possibleStd o₂ := by
  unfold possibleStd
  have hp : ((o₁.filter (·.2)).map (·.1)).Perm ((o₂.filter (·.2)).map (·.1)) := (h.filter _).map _
  have le_trans : ∀ a b c : Nat, decide (a ≤ b) = true → decide (b ≤ c) = true → decide (a ≤ c) = true := by
    intro a b c h1 h2; simp at *; omega
  have le_total : ∀ a b : Nat, (decide (a ≤ b) || decide (b ≤ a)) = true := by
    intro a b; simp; omega
  apply List.Perm.eq_of_pairwise (le := fun a b => decide (a ≤ b) = true)
  · intro a b _ _ h1 h2; simp at h1 h2; omega
  · exact List.pairwise_mergeSort le_trans le_total _
  · exact List.pairwise_mergeSort le_trans le_total _
  · exact ((List.mergeSort_perm _ _).trans hp).trans (List.mergeSort_perm _ _).symm

/-! ### non-vacuity -/
private def lib : SegLib := { globals := [(["a", "b"], { kind := .any }), (["c"], { kind := .property .readOnly })], structs := [] }
example : (runHistory lib none [["a", "b", "z"], ["c"], ["a", "b", "z"]]).2 =
    [.found { kind := .any }, .found { kind := .property .readOnly }, .found { kind := .any }] := by decide
example : possibleStd [(3, true), (1, true), (2, false)] = possibleStd [(2, false), (1, true), (3, true)] :=
  C12_hash_order _ _ (by decide)

end Selene.Props.C12
