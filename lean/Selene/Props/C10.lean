/-
C10 — configured severities relabel diagnostics without changing what is found.
-/
import Selene.Lints.CyclomaticProof
import Selene.Filter.Lemmas
import Selene.Props.C08
import Selene.Props.C19
import Selene.Generated.Lints
namespace Selene.Props.C10
open Selene.Filter

/-- `get_lint_severity`: the configured variation if present, otherwise the lint's built-in default -/
def genSev : Selene.Generated.Sev → Sev
  | .allow => .allow | .error => .error | .warning => .warning | .unknown => .warning

def defaultSeverity (lint : String) : Option Sev :=
  (Selene.Generated.lints.find? (·.1 = lint)).map fun r => genSev r.2

def severityOf (cfg : List (String × Sev)) (lint : String) : Option Sev :=
  match cfg.find? (·.1 = lint) with
  | some (_, s) => some s
  | none => defaultSeverity lint

/-- a lint pass yields findings that carry no severity; `test_on` attaches it afterwards -/
structure Finding where
  code : String
  start : Nat
  tag : String
deriving DecidableEq, Repr

def attach (cfg : List (String × Sev)) (f : Finding) : Option Diag :=
  (severityOf cfg f.code).map fun s => { code := f.code, start := f.start, sev := s, tag := f.tag }

def erase (d : Diag) : Finding := { code := d.code, start := d.start, tag := d.tag }

/-- **C10 (same findings).** Whatever severities are configured, the unfiltered diagnostics are the
same findings: erasing the severity gives back exactly what the lints found. -/
theorem C10_same_findings (cfg₁ cfg₂ : List (String × Sev)) (fs : List Finding) :
    ((fs.filterMap (attach cfg₁)).map erase) = ((fs.filterMap (attach cfg₂)).map erase) ∨
    ∃ f ∈ fs, defaultSeverity f.code = none := by
  by_cases h : ∃ f ∈ fs, defaultSeverity f.code = none
  · exact Or.inr h
  · left
    have hall : ∀ f ∈ fs, ∀ cfg, ∃ s, severityOf cfg f.code = some s := by
      intro f hf cfg
      unfold severityOf
      cases hc : cfg.find? (·.1 = f.code) with
      | some p => exact ⟨p.2, rfl⟩
      | none =>
        cases hd : defaultSeverity f.code with
        | none => exact absurd ⟨f, hf, hd⟩ h
        | some s => exact ⟨s, by simp⟩
    have key : ∀ cfg, (fs.filterMap (attach cfg)).map erase = fs := by
      intro cfg
      induction fs with
      | nil => rfl
      | cons f rest ih =>
        obtain ⟨s, hs⟩ := hall f (by simp) cfg
        have hrest := ih (fun ⟨g, hg, hd⟩ => h ⟨g, by simp [hg], hd⟩) (fun g hg => hall g (by simp [hg]))
        simp [attach, hs, erase, hrest]
    rw [key cfg₁, key cfg₂]

/-- **C10 (inline wins, both directions).** When an inline (or global) filter for the lint is the
most recent on the stack, the result does not depend on the configured severity the diagnostic
arrived with: an inline `deny` resurrects a lint configured `allow`, an inline `allow` silences a
lint configured `deny`. -/
theorem C10_inline_wins (stack : List Config) (c : Config) (d : Diag) (s : Sev) (hc : c.lint = d.code) :
    decide1 (c :: stack) { d with sev := s } = (decide1 (c :: stack) d).map fun r => { r with sev := c.sev } := by
  simp [decide1, hc]
  split <;> simp

/-- with no filter for its lint, a diagnostic keeps the configured severity -/
theorem C10_config_kept (stack : List Config) (d : Diag) (h : ∀ c ∈ stack, c.lint ≠ d.code) :
    decide1 stack d = some d := decide1_unmatched stack d h

/-- **C10 (defaults).** A lint absent from the configuration keeps its built-in default — checked
against the table regenerated from `use_lints!{}` and every `const SEVERITY`. -/
theorem C10_defaults (cfg : List (String × Sev)) (lint : String) (h : cfg.find? (·.1 = lint) = none) :
    severityOf cfg lint = defaultSeverity lint := by
  simp [severityOf, h]

theorem C10_cyclomatic_silent_by_default : defaultSeverity "high_cyclomatic_complexity" = some .allow := by decide

/-- every registered lint has a known default (the generated table has no `unknown` entry) -/
theorem C10_table_complete : Selene.Generated.lints.all (fun r => r.2 ≠ .unknown) = true := by decide

/-- **C10 (allow silent).** Diagnostics carrying `allow` contribute nothing to counts or exit status
(from C19). -/
theorem C10_allow_silent (sevs : List Selene.Cli.Sev) :
    (Selene.Cli.FileOutcome.linted sevs).counts =
      (Selene.Cli.FileOutcome.linted (sevs.filter (· ≠ .allow))).counts :=
  Selene.Props.C19.C19_allow_silent sevs

/-! ### what `high_cyclomatic_complexity` measures once it is enabled -/

open Selene.Lints.Cyclomatic in
/-- **the complexity attributed to a function is one plus the number of decision points** (`if`, `elseif`,
`while`, `repeat`, `for`, `and`, `or`) its body's walk reaches — whatever the traversal order or the starting
value of the accumulator (`CyclomaticProof.lean`) -/
theorem C10_cyclomatic_is_count (sp : Selene.Lua.Span) (ps : List Selene.Lua.Param) (b : Selene.Lua.Block) :
    complexity (.mk sp ps b) = 1 + Doc.ptsB b := complexity_eq sp ps b

open Selene.Lints.Cyclomatic in
/-- a function is reported exactly when that count reaches the configured maximum: with the lint enabled at
`maximum_complexity = m`, a function with fewer than `m` decision points is silent -/
theorem C10_cyclomatic_reported_iff (max start : Nat) (sp : Selene.Lua.Span) (ps : List Selene.Lua.Param) (b : Selene.Lua.Block) :
    diagOf max start (.mk sp ps b) ≠ [] ↔ Doc.ptsB b ≥ max := reported_iff max start sp ps b

end Selene.Props.C10
