/-
C05 — standard-library call checking matches the library definition.
Only property theorems and non-vacuity examples live here.  Model: `Selene/Std/Call.lean`
(mirrors `visit_function_call` / `get_argument_type` / `PassedArgumentType`), specification:
`Selene/Std/CallSpec.lean` (written from docs/src/usage/std.md, the property text and the Lua
reference manual), helper lemmas: `Selene/Std/CallLemmas.lean`.

The property as worded is FALSE of the current code in three places; each theorem below is the
strongest statement that is true of the model, and next to it a concrete call (checked by
`decide`, and reproduced through the real lint by the correspondence run) shows that the
excluded case really is reported:

* `math.abs(1, f())`   — more syntactic arguments than parameters, last argument a call / `...`:
                          reported as a count problem (`Doc.overfullOpen`);
* `collectgarbage([[count]])` — `from_string` strips one character per side, so a long-bracket
                          literal never matches a constant list (`Doc.tame` excludes them);
* `math.abs(-"1")`     — unary minus / `+ - * /` give the *operand's* type, so arithmetic on
                          string-typed operands is called a string (`Doc.tame` excludes it).
-/
import Selene.Std.ProgCall
import Selene.Std.CallLemmas
namespace Selene.Props.C05
open Selene.Std Selene.Std.Doc

def hasCountProblem (ps : List Problem) : Bool := ps.any Problem.isCount
def hasStyleProblem (ps : List Problem) : Bool := ps.any Problem.isStyle

/-! ## witnesses used by the examples -/

/-- `math.abs`: one required number -/
def absF : FunctionBehavior := { args := [{ type := .number }] }
/-- `collectgarbage`: optional constant list, optional number -/
def gcF : FunctionBehavior :=
  { args := [{ required := .notRequired, type := .constant ["collect", "count", "step"] },
             { required := .notRequired, type := .number }] }
/-- `math.max`: a number and a required `...` -/
def maxF : FunctionBehavior :=
  { args := [{ type := .number }, { required := .required (some "more than one"), type := .vararg }] }
/-- a method -/
def methodF : FunctionBehavior := { args := [{ type := .number }], method := true }

def callP (args : List Expr) : Call := { isMethod := false, args := .parens args }

/-! ## `.` / `:` -/

/-- **C05 (style).** `.`/`:` misuse is reported exactly when the call style differs from the
definition. -/
theorem C05_style (f : FunctionBehavior) (c : Call) :
    hasStyleProblem (checkCall f c) = true ↔ f.method ≠ c.isMethod := by
  unfold hasStyleProblem checkCall
  by_cases h : f.method = c.isMethod
  · simp only [h, ne_eq, not_true_eq_false, if_false, iff_false, Bool.not_eq_true]
    rw [List.any_eq_false]
    intro x hx
    rcases List.mem_append.mp hx with hx | hx
    · have := countProblems_isCount _ _ _ x hx
      cases x <;> simp_all [Problem.isCount, Problem.isStyle]
    · simp [(typeProblems_not_count _ _ _ x hx).2]
  · simp [h, Problem.isStyle]

/-- a style problem is the only thing reported for such a call (the lint returns) -/
theorem C05_style_alone (f : FunctionBehavior) (c : Call) (h : f.method ≠ c.isMethod) :
    checkCall f c = [.style c.isMethod] := by
  simp [checkCall, h]

example : checkCall methodF (callP [.number "1"]) = [.style false] := by decide
example : hasStyleProblem (checkCall methodF { isMethod := true, args := .parens [.number "1"] }) = false := by
  decide

/-! ## count -/

/-- **C05 (count), as true of the code.** With the right call style, a count problem ("requires
N parameters" or "requires use of the vararg") is reported iff the number of syntactic arguments
lies outside the documented range — or the call is `overfullOpen` (more arguments than
parameters with a trailing call / `...`), which the property says must NOT be reported. -/
theorem C05_count (f : FunctionBehavior) (c : Call) (hs : f.method = c.isMethod) :
    hasCountProblem (checkCall f c) = true ↔
      (countOutside f c = true ∨ overfullOpen f c = true) := by
  unfold hasCountProblem checkCall
  simp only [hs, ne_eq, not_true_eq_false, if_false, List.any_append]
  have htp : (typeProblems c.args.types f.args 0).any Problem.isCount = false := by
    rw [List.any_eq_false]
    intro x hx
    simp [(typeProblems_not_count _ _ _ x hx).1]
  rw [htp, Bool.or_false, any_countProblems, countReported_spec, types_length, maybeMore_eq_isOpen]
  unfold countOutside overfullOpen
  cases isOpen c.args <;> simp

/-- **C05 (count), the property's wording**, for every call that is not `overfullOpen`. -/
theorem C05_count_exact (f : FunctionBehavior) (c : Call) (hs : f.method = c.isMethod)
    (hno : overfullOpen f c = false) :
    hasCountProblem (checkCall f c) = true ↔ countOutside f c = true := by
  rw [C05_count f c hs, hno]; simp

/-- in particular a call whose last argument is a call / `...` and that has no more arguments
than parameters is never a count problem -/
theorem C05_count_open (f : FunctionBehavior) (c : Call) (hs : f.method = c.isMethod)
    (ho : isOpen c.args = true) (hn : nArgs c.args ≤ f.args.length) :
    hasCountProblem (checkCall f c) = false := by
  have h1 : overfullOpen f c = false := by
    unfold overfullOpen
    simp only [ho, Bool.true_and, Bool.and_eq_false_iff, decide_eq_false_iff_not]
    right; omega
  have h2 : countOutside f c = false := by simp [countOutside, ho]
  cases h : hasCountProblem (checkCall f c) with
  | false => rfl
  | true => rw [(C05_count_exact f c hs h1).mp h] at h2; cases h2

-- non-vacuity: both directions occur, and the open case occurs
example : hasCountProblem (checkCall absF (callP [])) = true ∧ countOutside absF (callP []) = true := by decide
example : hasCountProblem (checkCall absF (callP [.number "1"])) = false := by decide
example : hasCountProblem (checkCall maxF (callP [.number "1"])) = true ∧ countOutside maxF (callP [.number "1"]) = true := by
  decide
example : isOpen (callP [.call]).args = true ∧ overfullOpen absF (callP [.call]) = false := by decide

/-- FINDING (count): the property's "iff" fails on the model — `math.abs(1, f())` is reported
although its last argument is a call.  The hypothesis of `C05_count_exact` is necessary. -/
example : ¬ ∀ (f : FunctionBehavior) (c : Call), f.method = c.isMethod →
    (hasCountProblem (checkCall f c) = true ↔ countOutside f c = true) := by
  intro h
  have := h absF (callP [.number "1", .call]) rfl
  revert this; decide

/-! ## types -/

/-- **C05 (types), soundness.** If no argument contains a long-bracket string literal or
arithmetic on string-typed operands (`tameArgs`), every reported type problem is a definite
mismatch: nothing the argument can evaluate to is acceptable for the declared type (for a
constant-list parameter: a string literal whose content is not listed). -/
theorem C05_types (f : FunctionBehavior) (c : Call) (ht : tameArgs c.args = true)
    (i : Nat) (t : ArgType) (p : Passed) (h : Problem.type i t p ∈ checkCall f c) :
    definitelyWrong f c i = true := by
  unfold checkCall at h
  split at h
  · simp at h
  · rcases List.mem_append.mp h with h | h
    · have := countProblems_isCount _ _ _ _ h; cases this
    · obtain ⟨k, po, a, p', hx, hk, ha, hf⟩ := mem_typeProblems _ _ _ _ h
      simp only [Nat.zero_add, Problem.type.injEq] at hx
      obtain ⟨hi, _, hp⟩ := hx
      subst hi hp
      obtain ⟨hpo, hv, hnil, hm⟩ := argFlagged_some hf
      subst hpo
      obtain ⟨st, hst, hsound⟩ := types_statics c.args ht i p hk
      unfold definitelyWrong
      rw [hst, ha]
      simp only [Bool.not_eq_eq_eq_not, Bool.not_true]
      apply not_fits p st a.type (isOptional a) hsound hv _ hm
      intro ⟨ho, hpn⟩
      exact hnil ⟨by simpa [isOptional] using ho, hpn⟩

-- non-vacuity: a tame call with a reported (and definite) mismatch; a constant-list mismatch
example : tameArgs (callP [.str .double "x"]).args = true ∧
    Problem.type 0 .number (.str "x") ∈ checkCall absF (callP [.str .double "x"]) := by decide
example : Problem.type 0 (.constant ["collect", "count", "step"]) (.str "whoops") ∈
    checkCall gcF (callP [.str .single "whoops"]) ∧
    definitelyWrong gcF (callP [.str .single "whoops"]) 0 = true := by decide
example : checkCall gcF (callP [.str .double "count"]) = [] := by decide

/-- **C05 (constant lists).** For a short-quoted string literal passed where a constant list is
declared, a type problem is reported exactly when the literal's content is not listed. -/
theorem C05_constant (f : FunctionBehavior) (c : Call) (hs : f.method = c.isMethod)
    (as : List Expr) (hc : c.args = .parens as) (i : Nat) (q : Quote) (s : String) (a : Argument)
    (cs : List String) (hq : q.isLong = false) (hi : as[i]? = some (.str q s))
    (ha : f.args[i]? = some a) (hcs : a.type = .constant cs) :
    (∃ p, Problem.type i (.constant cs) p ∈ checkCall f c) ↔ s ∉ cs := by
  have hty : c.args.types[i]? = some (some (.str s)) := by
    simp [hc, CallArgs.types, hi, getArgType, Passed.fromStringToken]
  constructor
  · rintro ⟨p, h⟩
    unfold checkCall at h
    simp only [hs, ne_eq, not_true_eq_false, if_false] at h
    rcases List.mem_append.mp h with h | h
    · have := countProblems_isCount _ _ _ _ h; cases this
    · obtain ⟨k, po, a', p', hx, hk, ha', hf⟩ := mem_typeProblems _ _ _ _ h
      simp only [Nat.zero_add, Problem.type.injEq] at hx
      obtain ⟨hik, _, _⟩ := hx
      subst hik
      rw [hty] at hk; rw [ha] at ha'
      simp only [Option.some.injEq] at hk ha'
      subst hk ha'
      obtain ⟨hpo, _, _, hm⟩ := argFlagged_some hf
      simp only [Option.some.injEq] at hpo
      subst hpo
      simpa [Passed.matches, hcs] using hm
  · intro hn
    refine ⟨.str s, ?_⟩
    unfold checkCall
    simp only [hs, ne_eq, not_true_eq_false, if_false]
    apply List.mem_append_right
    have hf : argFlagged (some (.str s)) a = some (.str s) := by
      simp [argFlagged, hcs, Passed.matches, hn]
    have := typeProblems_mem_of _ _ 0 i _ a _ hty ha hf
    simpa [hcs] using this

-- non-vacuity: the hypotheses are satisfiable and the right-hand side occurs
example : (∃ p, Problem.type 0 (.constant ["collect", "count", "step"]) p ∈
    checkCall gcF (callP [.str .double "whoops"])) := by
  exact (C05_constant gcF _ rfl _ rfl 0 .double "whoops" _ _ rfl rfl rfl rfl).mpr (by decide)
/-- regression witness of the defect repaired in /repo (`fix: long-bracket string literals are
compared by their contents`): `collectgarbage([[count]])` and `collectgarbage[[count]]` are accepted;
the pre-fix `from_string` turned the token `[[count]]` into `[count]`. -/
example : checkCall gcF (callP [.str (.long 0) "count"]) = [] ∧
    checkCall gcF { isMethod := false, args := .string (.long 0) "count" } = [] := by decide
example : Passed.fromString (tokenText (.long 0) "count") = .str "[count]" := by decide

/-- FINDING (string arithmetic): `math.abs(-"1")` is reported as "expected number, received
string" although `-"1"` is the number -1 in Lua. -/
example : Problem.type 0 .number (.str "1") ∈ checkCall absF (callP [.unop .minus (.str .double "1")]) ∧
    definitelyWrong absF (callP [.unop .minus (.str .double "1")]) 0 = false := by decide

/-! ## a call that satisfies the definition is never reported -/

/-- **C05 (clean).** Outside the two recorded deviations (`overfullOpen`, non-`tame` arguments),
a call that satisfies the definition yields no diagnostic at all. -/
theorem C05_clean (f : FunctionBehavior) (c : Call) (ht : tameArgs c.args = true)
    (hno : overfullOpen f c = false) (h : satisfies f c) : checkCall f c = [] := by
  obtain ⟨hstyle, hcount, htypes⟩ := h
  have hs : f.method = c.isMethod := by simpa [styleWrong] using hstyle
  apply List.eq_nil_iff_forall_not_mem.mpr
  intro x hx
  have hx' := hx
  unfold checkCall at hx'
  simp only [hs, ne_eq, not_true_eq_false, if_false] at hx'
  rcases List.mem_append.mp hx' with h1 | h1
  · have hc : hasCountProblem (checkCall f c) = true :=
      List.any_eq_true.mpr ⟨x, hx, countProblems_isCount _ _ _ _ h1⟩
    rw [(C05_count_exact f c hs hno).mp hc] at hcount
    cases hcount
  · obtain ⟨k, po, a, p, hxe, _⟩ := mem_typeProblems _ _ _ _ h1
    subst hxe
    have := C05_types f c ht _ _ _ hx
    rw [htypes] at this
    cases this

/-- a field of kind `any` accepts every call; a non-function field is "not a function" -/
theorem C05_any (c : Call) : checkField .any c = [] := rfl

theorem C05_not_function (k : FieldKind) (c : Call) (h1 : k ≠ .any) (h2 : ∀ f, k ≠ .function f) :
    checkField k c = [.notFunction] := by
  cases k <;> simp_all [checkField]

-- non-vacuity of C05_clean: satisfying calls exist (closed and open), and are reported clean
example : satisfies absF (callP [.number "1"]) := by
  refine ⟨by decide, by decide, ?_⟩
  intro i
  match i with
  | 0 => decide
  | n + 1 => simp [definitelyWrong, statics, callP]
example : checkCall absF (callP [.number "1"]) = [] := by decide
example : checkCall absF (callP [.call]) = [] ∧ checkCall maxF (callP [.vararg]) = [] := by decide
example : checkField (.property .readOnly) (callP []) = [.notFunction] := by decide

/-! ## The same, at every call site of every program

`Std/Prog.lean` is the lint as it walks a whole syntax tree (which nodes it visits, the gate on the root
identifier, how the name path and the call suffix are read off, ranges); `LibCall` says that a call node is
a call of the library function `fb` — root not bound by the script, path resolved by the lookup of C06 —
with call shape `c`.  At such a site the lint's diagnostics are exactly `checkCall fb c`
(`Prog.stdCall_kinds`), so the theorems above hold there. -/

open Selene.Std.Prog Selene.Lua in
/-- **C05 (count) at a call site.** In any program, at any call of a library function written in the
definition's call style, a count problem is reported iff the number of syntactic arguments lies outside the
documented range — or the call is over-full and open (the recorded finding). -/
theorem C05_prog_count (l : SegLib) (R : Nat → Bool) (sp : Span) (t : Tok) (ss : SuffixList) (path : List String)
    (fb : FunctionBehavior) (c : Call) (h : LibCall l R t ss path fb c) (hs : fb.method = c.isMethod) :
    (∃ g ∈ stdCall l R (.mk sp (.name t) ss), ∃ pr, g.kind = .call pr ∧ pr.isCount = true) ↔
      (countOutside fb c = true ∨ overfullOpen fb c = true) := by
  rw [← C05_count fb c hs]
  unfold hasCountProblem
  rw [List.any_eq_true]
  have hk := stdCall_kinds l R sp t ss path fb c h
  constructor
  · rintro ⟨g, hg, pr, hgk, hpr⟩
    have : g.kind ∈ (stdCall l R (.mk sp (.name t) ss)).map (·.kind) := List.mem_map.mpr ⟨g, hg, rfl⟩
    rw [hk, hgk] at this
    obtain ⟨pr', hpr', heq⟩ := List.mem_map.mp this
    injection heq with heq
    exact ⟨pr, heq ▸ hpr', hpr⟩
  · rintro ⟨pr, hpr, hc⟩
    have : Kind.call pr ∈ (stdCall l R (.mk sp (.name t) ss)).map (·.kind) := by
      rw [hk]; exact List.mem_map.mpr ⟨pr, hpr, rfl⟩
    obtain ⟨g, hg, hgk⟩ := List.mem_map.mp this
    exact ⟨g, hg, pr, hgk, hc⟩

open Selene.Std.Prog Selene.Lua in
/-- **C05 (style) at a call site.** `.`/`:` misuse is reported exactly when the call style differs from the
definition — and then it is the only thing reported. -/
theorem C05_prog_style (l : SegLib) (R : Nat → Bool) (sp : Span) (t : Tok) (ss : SuffixList) (path : List String)
    (fb : FunctionBehavior) (c : Call) (h : LibCall l R t ss path fb c) :
    (∃ g ∈ stdCall l R (.mk sp (.name t) ss), ∃ pr, g.kind = .call pr ∧ pr.isStyle = true) ↔ fb.method ≠ c.isMethod := by
  rw [← C05_style fb c]
  unfold hasStyleProblem
  rw [List.any_eq_true]
  have hk := stdCall_kinds l R sp t ss path fb c h
  constructor
  · rintro ⟨g, hg, pr, hgk, hpr⟩
    have : g.kind ∈ (stdCall l R (.mk sp (.name t) ss)).map (·.kind) := List.mem_map.mpr ⟨g, hg, rfl⟩
    rw [hk, hgk] at this
    obtain ⟨pr', hpr', heq⟩ := List.mem_map.mp this
    injection heq with heq
    exact ⟨pr, heq ▸ hpr', hpr⟩
  · rintro ⟨pr, hpr, hc⟩
    have : Kind.call pr ∈ (stdCall l R (.mk sp (.name t) ss)).map (·.kind) := by
      rw [hk]; exact List.mem_map.mpr ⟨pr, hpr, rfl⟩
    obtain ⟨g, hg, hgk⟩ := List.mem_map.mp this
    exact ⟨g, hg, pr, hgk, hc⟩

open Selene.Std.Prog Selene.Lua in
/-- **C05 (clean) at a call site.** In any program, a call of a library function that satisfies the definition
(outside the two recorded deviations) draws no diagnostic at all. -/
theorem C05_prog_clean (l : SegLib) (R : Nat → Bool) (sp : Span) (t : Tok) (ss : SuffixList) (path : List String)
    (fb : FunctionBehavior) (c : Call) (h : LibCall l R t ss path fb c) (ht : tameArgs c.args = true)
    (hno : overfullOpen fb c = false) (hsat : satisfies fb c) : stdCall l R (.mk sp (.name t) ss) = [] := by
  have hk := stdCall_kinds l R sp t ss path fb c h
  rw [C05_clean fb c ht hno hsat] at hk
  simpa using hk

open Selene.Std.Prog Selene.Lua in
/-- **C05 (types) at a call site.** Every type problem reported at a call of a library function whose arguments
are `tame` is a definite mismatch. -/
theorem C05_prog_types (l : SegLib) (R : Nat → Bool) (sp : Span) (t : Tok) (ss : SuffixList) (path : List String)
    (fb : FunctionBehavior) (c : Call) (h : LibCall l R t ss path fb c) (ht : tameArgs c.args = true)
    (g : PDiag) (hg : g ∈ stdCall l R (.mk sp (.name t) ss)) (i : Nat) (ty : ArgType) (p : Passed)
    (hk : g.kind = .call (.type i ty p)) : definitelyWrong fb c i = true := by
  have hks := stdCall_kinds l R sp t ss path fb c h
  have : g.kind ∈ (stdCall l R (.mk sp (.name t) ss)).map (·.kind) := List.mem_map.mpr ⟨g, hg, rfl⟩
  rw [hks, hk] at this
  obtain ⟨pr', hpr', heq⟩ := List.mem_map.mp this
  injection heq with heq
  exact C05_types fb c ht i ty p (heq ▸ hpr')

open Selene.Std.Prog Selene.Lua in
/-- non-vacuity: `math.floor()` as a statement of a program — a `LibCall`, reported "requires 1 parameters, 0 passed" -/
example :
    let lib : SegLib := { globals := [(["math", "floor"], { kind := .function { args := [{ type := .number }] } })], structs := [] }
    let ss : SuffixList := .cons (.dot ⟨1, 2⟩ ⟨2, "floor"⟩) (.cons (.args ⟨3, 4⟩ (.parens ⟨3, 4⟩ .nil)) .nil)
    LibCall lib (fun _ => false) ⟨0, "math"⟩ ss ["math", "floor"] { args := [{ type := .number }] } { isMethod := false, args := .parens [] } ∧
    (stdCall lib (fun _ => false) (.mk ⟨0, 4⟩ (.name ⟨0, "math"⟩) ss)).map (·.message.1) =
      ["standard library function `math.floor` requires 1 parameters, 0 passed"] := by
  intro lib ss
  refine ⟨⟨rfl, by decide, ⟨none, by decide⟩, ⟨.args ⟨3, 4⟩ (.parens ⟨3, 4⟩ .nil), rfl, rfl⟩⟩, by decide⟩

end Selene.Props.C05
