/-
C07 — a locally re-bound standard-library name is never linted as the library's.

Every library lint begins with the same gate: look up the reference at the first token of the use
and stop if it resolves to a script variable.  The models are structured so that a use reaches the
library only through that flag.  That the flag is exactly "Lua binds the identifier to a local" is
proved for every chunk (`C07_gate_inside`, `C07_gate_outside`, corollaries of C01's resolution theorem
over the machine of `Scope/Core.lean`); the gate itself is proved for every lint that has a model.

Whole programs: `Std/Prog.lean` models `incorrect_standard_library_use` and `deprecated` as they walk the
syntax tree (which nodes are visited, the gate, how the name path and the call are read off prefix and
suffixes, ranges, messages), on top of the lookup / call / access models of C05 and C06.  `C07_std_inside`
and `C07_std_outside` state the property for these two lints over every chunk and every library.
-/
import Selene.Scope.Lints
import Selene.Std.Access
import Selene.Props.C01
import Selene.Std.ProgLemmas
import Selene.Scope.RefAt
import Selene.Scope.MoreLints
import Selene.Scope.Coherent
namespace Selene.Props.C07
open Selene.Scope Selene.Std Selene.Lua

/-- **C07 (the gate is closed inside the binding's scope).** For every chunk: if Lua's scoping rules
bind an identifier occurrence in an expression position to a local, parameter, loop variable, local
function or `self` declared at `d`, the machine's reference for that token is resolved to `d` — so every
lint that first asks "does the use's first identifier resolve to a script variable" stops there, whatever
the library says about the name. -/
theorem C07_gate_inside (b : Block) (oc : Spec.Occ) (hoc : oc ∈ (Spec.resolve b).occs)
    (hc : SpecProof.counted oc = true) (d : Nat) (hb : oc.binding.map (·.1) = some d) :
    ∃ r ∈ (Core.analyse b).refs, r.tok = oc.tok ∧ r.decl = false ∧ r.write = false ∧ r.resolved = some (d, false) := by
  have hmem : (oc.tok, some d) ∈ @Core.St.answers Core.NameFilter.all (Core.analyse b) :=
    (@C01.C01_resolution_mem Core.NameFilter.all b oc.tok (some d)).mpr ⟨oc, hoc, hc, rfl, rfl, hb⟩
  obtain ⟨r, hr, _, _, hd, hw, htok, hlb⟩ := (@CoreProof.mem_answers Core.NameFilter.all _ oc.tok (some d)).mp hmem
  refine ⟨r, hr, htok, hd, hw, ?_⟩
  cases hres : r.resolved with
  | none => simp [Core.localBinding, hres] at hlb
  | some v =>
    obtain ⟨d', g⟩ := v
    cases g with
    | true => simp [Core.localBinding, hres] at hlb
    | false =>
      have : d' = d := by simpa [Core.localBinding, hres] using hlb
      rw [this]

/-- **C07 (the gate is open outside).** For every chunk: an occurrence Lua binds to nothing, of a name no
statement of the file assigns as a global, has an unresolved reference — the lints look the name up in
the library exactly as they would without any binding of that name elsewhere in the file. -/
theorem C07_gate_outside (b : Block) (oc : Spec.Occ) (hoc : oc ∈ (Spec.resolve b).occs)
    (hc : SpecProof.counted oc = true) (hb : oc.binding = none)
    (hna : ∀ oc' ∈ (Spec.resolve b).occs, SpecProof.assignsGlobal oc' = true → oc'.name ≠ oc.name) :
    ∃ r ∈ (Core.analyse b).refs, r.tok = oc.tok ∧ r.decl = false ∧ r.write = false ∧ r.resolved = none := by
  have h := C01.C01_complete (fun _ => false) b oc hoc hc hb rfl hna
  simp only [Core.undefinedReports, List.mem_map, List.mem_filter, Bool.and_eq_true, Bool.not_eq_true',
    Option.isNone_iff_eq_none] at h
  obtain ⟨r, ⟨hr, ⟨⟨hd, hw⟩, hres⟩, _⟩, ht⟩ := h
  exact ⟨r, hr, ht, hd, hw, hres⟩

/-- **C07 (inside, must_use).** A call statement whose called name resolves to a script variable
never yields a `must_use` diagnostic, whatever the library says about that name path. -/
theorem C07_must_use_inside (isMustUse : List String → Bool) (σ : St) (g : Diag)
    (h : g ∈ mustUse isMustUse σ) :
    ∃ c ∈ σ.calls.toList, ∃ r, σ.refs[c.initialRef]? = some r ∧ r.resolved = none ∧
      isMustUse c.namePath = true ∧ g.primary = c.prefixSpan := by
  unfold mustUse at h
  simp only [List.mem_filterMap] at h
  obtain ⟨c, hc, hsome⟩ := h
  refine ⟨c, hc, ?_⟩
  cases hr : σ.refs[c.initialRef]? with
  | none => simp [hr] at hsome
  | some r =>
    simp only [hr] at hsome
    by_cases hres : r.resolved.isSome = true
    · simp [hres] at hsome
    · simp only [hres] at hsome
      by_cases hm : isMustUse c.namePath = true
      · simp [hm] at hsome
        subst hsome
        refine ⟨r, rfl, ?_, hm, rfl⟩
        cases hrr : r.resolved with
        | none => rfl
        | some v => simp [hrr] at hres
      · simp [hm] at hsome

/-- **C07 (inside, field access and assignment).** A read, field access or assignment target whose
root name is locally bound produces no `incorrect_standard_library_use` problem, for every
library and every path. -/
theorem C07_access_inside (l : SegLib) (p : Path) (n : String) :
    targetProblems l (.path p true) = [] ∧ targetProblems l (.name n true) = [] := by
  simp [targetProblems]

/-- **C07 (outside).** With the root name unbound, what is reported depends on the library and the
path only — not on any other binding of the program: the function has no other input. -/
theorem C07_access_outside (l : SegLib) (t₁ t₂ : Target) (h : t₁ = t₂) :
    targetProblems l t₁ = targetProblems l t₂ := by rw [h]

/-- the library is consulted for a call statement only when its name is unbound: two scope tables
that agree on the call statements and on the resolved flag of their initial references give the
same `must_use` diagnostics -/
theorem C07_must_use_outside (isMustUse : List String → Bool) (σ₁ σ₂ : St)
    (hc : σ₁.calls = σ₂.calls)
    (hr : ∀ c ∈ σ₁.calls.toList, (σ₁.refs[c.initialRef]?).map (·.resolved.isSome) = (σ₂.refs[c.initialRef]?).map (·.resolved.isSome)) :
    mustUse isMustUse σ₁ = mustUse isMustUse σ₂ := by
  unfold mustUse
  rw [← hc]
  have key : ∀ (l : List CallStmt), (∀ c ∈ l, c ∈ σ₁.calls.toList) →
      l.filterMap (fun c => match σ₁.refs[c.initialRef]? with
        | none => none
        | some r => if r.resolved.isSome then none
          else if isMustUse c.namePath then some ({ code := "must_use", primary := c.prefixSpan, detail := ".".intercalate c.namePath } : Diag)
          else none) =
      l.filterMap (fun c => match σ₂.refs[c.initialRef]? with
        | none => none
        | some r => if r.resolved.isSome then none
          else if isMustUse c.namePath then some ({ code := "must_use", primary := c.prefixSpan, detail := ".".intercalate c.namePath } : Diag)
          else none) := by
    intro l
    induction l with
    | nil => intro _; rfl
    | cons c rest ih =>
      intro hmem
      have hthis := hr c (hmem c (by simp))
      have hrest := ih (fun x hx => hmem x (by simp [hx]))
      simp only [List.filterMap_cons]
      cases h1 : σ₁.refs[c.initialRef]? with
      | none =>
        cases h2 : σ₂.refs[c.initialRef]? with
        | none => simpa using hrest
        | some r2 => rw [h1, h2] at hthis; simp at hthis
      | some r1 =>
        cases h2 : σ₂.refs[c.initialRef]? with
        | none => rw [h1, h2] at hthis; simp at hthis
        | some r2 =>
          rw [h1, h2] at hthis
          simp only [Option.map_some, Option.some.injEq] at hthis
          simp only [hthis, hrest]
  exact key _ (fun c hc' => hc')

/-! ## The three library lints over whole programs -/

open Selene.Std.Prog in
/-- the library lints of a program, with the scope analysis of the machine as the gate -/
def libraryLints (l : SegLib) (allow : List (List String)) (b : Block) : List PDiag :=
  stdLint l (Core.analyse b).resolvedAt b ++ deprecatedLint l (Core.analyse b).resolvedAt allow b ++
    mustUseLint l (Core.analyse b).resolvedAt b

open Selene.Std.Prog in
/-- **C07 (whole programs: every diagnostic is about an unbound root).** For every chunk, library and
`deprecated.allow` list: each `incorrect_standard_library_use` / `deprecated` / `must_use` diagnostic is about a name
path whose first segment is the text of an identifier token at which the scope analysis recorded no
resolved reference. -/
theorem C07_std_rooted (l : SegLib) (allow : List (List String)) (b : Block) (g : PDiag)
    (h : g ∈ libraryLints l allow b) :
    ∃ t : Tok, g.root = t.idx ∧ g.path.head? = some t.text ∧ (Core.analyse b).resolvedAt t.idx = false := by
  rcases List.mem_append.mp h with h | h
  · rcases List.mem_append.mp h with h | h
    · exact stdLint_rooted l _ b g h
    · exact deprecatedLint_rooted l _ allow b g h
  · exact mustUseLint_rooted l _ b g h

/-- the first reference at the token of a resolved read is resolved (given that reads agree with the
first reference at their token — `firstRefCoherent`, evaluated on every program of the run) -/
theorem resolvedAt_of_read (σ : Core.St) (hco : σ.firstRefCoherent = true) (r : Core.Ref) (hr : r ∈ σ.refs)
    (hd : r.decl = false) (hw : r.write = false) : σ.resolvedAt r.tok = r.resolved.isSome := by
  have := (List.all_eq_true.mp hco) r hr
  simpa [hd, hw] using this

open Selene.Std.Prog in
/-- **C07 (inside, whole programs).** For every chunk, every library and every `deprecated.allow` list: if
Lua's scoping rules bind an identifier occurrence to a local, parameter, loop variable, local function or
`self`, then no `incorrect_standard_library_use`, `deprecated` or `must_use` diagnostic of the program is about a
use rooted at that occurrence — whatever the library says about the name. -/
theorem C07_std_inside (l : SegLib) (allow : List (List String)) (b : Block)
    (hco : (Core.analyse b).firstRefCoherent = true)
    (oc : Spec.Occ) (hoc : oc ∈ (Spec.resolve b).occs) (hc : SpecProof.counted oc = true)
    (d : Nat) (hb : oc.binding.map (·.1) = some d) :
    ∀ g ∈ libraryLints l allow b, g.root ≠ oc.tok := by
  intro g hg heq
  obtain ⟨t, ht, _, hR⟩ := C07_std_rooted l allow b g hg
  obtain ⟨r, hr, htok, hd, hw, hres⟩ := C07_gate_inside b oc hoc hc d hb
  have := resolvedAt_of_read _ hco r hr hd hw
  rw [htok, ← heq, ht, hR, hres] at this
  simp at this

open Selene.Std.Prog in
/-- **C07 (outside, whole programs).** An expression or call whose root occurrence Lua binds to nothing, the
name being one no statement of the file assigns as a global, is linted as a function of the library and of
the node alone: exactly as by the lint that knows no bindings at all (`fun _ => false`). -/
theorem C07_std_outside (l : SegLib) (allow : List (List String)) (b : Block)
    (hco : (Core.analyse b).firstRefCoherent = true)
    (oc : Spec.Occ) (hoc : oc ∈ (Spec.resolve b).occs) (hc : SpecProof.counted oc = true) (hb : oc.binding = none)
    (hna : ∀ oc' ∈ (Spec.resolve b).occs, SpecProof.assignsGlobal oc' = true → oc'.name ≠ oc.name) :
    (∀ e : Lua.Expr, exprStart e = oc.tok →
      stdExpr l (Core.analyse b).resolvedAt e = stdExpr l (fun _ => false) e ∧
      deprExpr l (Core.analyse b).resolvedAt allow e = deprExpr l (fun _ => false) allow e) ∧
    (∀ sp p ss, prefixStart p = oc.tok →
      stdCall l (Core.analyse b).resolvedAt (.mk sp p ss) = stdCall l (fun _ => false) (.mk sp p ss) ∧
      deprCall l (Core.analyse b).resolvedAt allow (.mk sp p ss) = deprCall l (fun _ => false) allow (.mk sp p ss) ∧
      mustUseStmt l (Core.analyse b).resolvedAt (.call (.mk sp p ss)) = mustUseStmt l (fun _ => false) (.call (.mk sp p ss))) := by
  obtain ⟨r, hr, htok, hd, hw, hres⟩ := C07_gate_outside b oc hoc hc hb hna
  have hR : (Core.analyse b).resolvedAt oc.tok = false := by
    have := resolvedAt_of_read _ hco r hr hd hw
    rw [htok, hres] at this
    simpa using this
  refine ⟨fun e he => ⟨?_, ?_⟩, fun sp p ss hp => ⟨?_, ?_, ?_⟩⟩
  · exact stdExpr_congr l _ _ e (by rw [he, hR])
  · exact deprExpr_congr l _ _ allow e (by rw [he, hR])
  · exact stdCall_congr l _ _ sp p ss (by rw [hp, hR])
  · exact deprCall_congr l _ _ allow sp p ss (by rw [hp, hR])
  · exact mustUseStmt_congr l _ _ sp p ss (by rw [hp, hR])

open Selene.Std.Prog in
/-- non-vacuity: `local math = {} ; print(math.nope)` — tokens 0…; the library knows `math.floor` and
`print`; Lua binds the `math` of `math.nope` to the local, the machine is coherent, and the lint is silent;
the twin without the `local` reports the missing field. -/
example :
    let lib : SegLib := { globals := [(["math", "floor"], { kind := .function { args := [] } }), (["print"], { kind := .any })], structs := [] }
    let use_ : Stmt := .call (.mk ⟨5, 10⟩ (.name ⟨5, "print"⟩) (.cons (.args ⟨6, 10⟩ (.parens ⟨6, 10⟩
        (.cons (.var (.expr ⟨7, 9⟩ (.name ⟨7, "math"⟩) (.cons (.dot ⟨8, 9⟩ ⟨9, "nope"⟩) .nil))) .nil))) .nil))
    let bound : Block := .mk none (.cons (.localAssign ⟨0, 4⟩ [⟨1, "math"⟩] (.cons (.tbl ⟨3, 4⟩ .nil) .nil)) (.cons use_ .nil)) .none
    let free : Block := .mk none (.cons use_ .nil) .none
    (Core.analyse bound).firstRefCoherent = true ∧ libraryLints lib [] bound = [] ∧
    (libraryLints lib [] free).map (·.message.1) = ["standard library global `math` does not contain the field `nope`"] := by
  decide

/-! ### … with the hypothesis on the syntax tree instead of on the machine's output

`Scope/Coherent.lean` proves `firstRefCoherent` for every chunk whose *reference tokens* — every identifier in an
expression position, every plain-name assignment target, the base name of every `function name…` statement,
every `...` — carry pairwise distinct token indices (`Core.refTokens`, a list read off the tree; token indices are
positions in source order, so a parsed file satisfies it; the driver evaluates it on every program as well). -/

open Selene.Std.Prog in
/-- **C07 (inside), for every chunk with pairwise distinct reference tokens, every library, every allow list.** -/
theorem C07_std_inside_tree (l : SegLib) (allow : List (List String)) (b : Block)
    (hn : (Core.refTokens b).Nodup)
    (oc : Spec.Occ) (hoc : oc ∈ (Spec.resolve b).occs) (hc : SpecProof.counted oc = true)
    (d : Nat) (hb : oc.binding.map (·.1) = some d) :
    ∀ g ∈ libraryLints l allow b, g.root ≠ oc.tok :=
  C07_std_inside l allow b (Core.analyse_firstRefCoherent b hn) oc hoc hc d hb

open Selene.Std.Prog in
/-- **C07 (outside), likewise.** -/
theorem C07_std_outside_tree (l : SegLib) (allow : List (List String)) (b : Block)
    (hn : (Core.refTokens b).Nodup)
    (oc : Spec.Occ) (hoc : oc ∈ (Spec.resolve b).occs) (hc : SpecProof.counted oc = true) (hb : oc.binding = none)
    (hna : ∀ oc' ∈ (Spec.resolve b).occs, SpecProof.assignsGlobal oc' = true → oc'.name ≠ oc.name) :
    (∀ e : Lua.Expr, exprStart e = oc.tok →
      stdExpr l (Core.analyse b).resolvedAt e = stdExpr l (fun _ => false) e ∧
      deprExpr l (Core.analyse b).resolvedAt allow e = deprExpr l (fun _ => false) allow e) ∧
    (∀ sp p ss, prefixStart p = oc.tok →
      stdCall l (Core.analyse b).resolvedAt (.mk sp p ss) = stdCall l (fun _ => false) (.mk sp p ss) ∧
      deprCall l (Core.analyse b).resolvedAt allow (.mk sp p ss) = deprCall l (fun _ => false) allow (.mk sp p ss) ∧
      mustUseStmt l (Core.analyse b).resolvedAt (.call (.mk sp p ss)) = mustUseStmt l (fun _ => false) (.call (.mk sp p ss))) :=
  C07_std_outside l allow b (Core.analyse_firstRefCoherent b hn) oc hoc hc hb hna

/-! ## The two remaining lints that treat a name specially: `global_usage` (`_G`) and `unscoped_variables` -/

/-- **C07 (`_G` re-bound).** For all scope tables: `global_usage` reports only references that are *unresolved* —
a `_G` (or, under Roblox, `shared`) that the script binds itself is never reported. -/
theorem C07_global_usage_gate (roblox : Bool) (ignore : Option (String → Bool)) (σ : St) (g : Diag)
    (h : g ∈ globalUsage roblox ignore σ) :
    ∃ r ∈ σ.refs.toList, isGlobalName r.name roblox = true ∧ r.resolved = none ∧ g.primary = ⟨r.ident, r.ident⟩ := by
  obtain ⟨r, hr, h1, _, h3, h4⟩ := globalUsage_sound roblox ignore σ g h
  exact ⟨r, hr, h1, h3, h4⟩

/-- **C07 (`unscoped_variables` and the library).** For all scope tables: an `unscoped_variables` diagnostic is
about a plain assignment to a name that nothing binds and that the library does not supply. -/
theorem C07_unscoped_gate (ignore hasFields : String → Bool) (σ : St) (g : Diag)
    (h : g ∈ unscopedVariables ignore hasFields σ) :
    ∃ r ∈ σ.refs.toList, r.resolved = none ∧ r.write = some .assign ∧ hasFields r.name = false ∧
      g.primary = ⟨r.ident, r.ident⟩ := by
  obtain ⟨r, hr, h1, h2, _, h4, h5, _⟩ := unscoped_sound ignore hasFields σ g h
  exact ⟨r, hr, h1, h2, h4, h5⟩

end Selene.Props.C07
