/-
C16 — the configured standard library decides exactly which syntax is accepted.
-/
import Selene.Std.Versions
import Selene.Std.Extend
import Selene.Props.C15
import Selene.Generated.StdChains
namespace Selene.Props.C16
open Selene.Std

/-! ## Specification -/

/-- dialect `φ` is on for a list of declared versions: some declared, known version includes it -/
def Spec.enabled (vs : List LuaVersion) (φ : Feature) : Prop :=
  ∃ v ∈ vs, ∃ d, v.dialects = some d ∧ d.has φ = true

/-! ## Theorems -/

theorem fold_has (vs : List LuaVersion) (acc : Dialects × List String) (φ : Feature) :
    (vs.foldl luaVersionStep acc).1.has φ = true
    ↔ acc.1.has φ = true ∨ Spec.enabled vs φ := by
  induction vs generalizing acc with
  | nil => simp [Spec.enabled]
  | cons v rest ih =>
    simp only [List.foldl_cons]
    rw [ih]
    unfold Spec.enabled luaVersionStep
    cases hv : v.dialects with
    | none =>
      simp only [List.mem_cons]
      constructor
      · rintro (h | ⟨w, hw, d, hd, hh⟩)
        · exact Or.inl h
        · exact Or.inr ⟨w, Or.inr hw, d, hd, hh⟩
      · rintro (h | ⟨w, hw, d, hd, hh⟩)
        · exact Or.inl h
        · rcases hw with hw | hw
          · subst hw; rw [hv] at hd; cases hd
          · exact Or.inr ⟨w, hw, d, hd, hh⟩
    | some d0 =>
      simp only [List.mem_cons]
      have hor : (acc.1.or d0).has φ = true ↔ acc.1.has φ = true ∨ d0.has φ = true := by
        cases φ <;> simp [Dialects.or, Dialects.has]
      constructor
      · rintro (h | ⟨w, hw, d, hd, hh⟩)
        · rcases hor.mp h with h | h
          · exact Or.inl h
          · exact Or.inr ⟨v, Or.inl rfl, d0, hv, h⟩
        · exact Or.inr ⟨w, Or.inr hw, d, hd, hh⟩
      · rintro (h | ⟨w, hw, d, hd, hh⟩)
        · exact Or.inl (hor.mpr (Or.inl h))
        · rcases hw with hw | hw
          · subst hw; rw [hv] at hd; cases hd
            exact Or.inl (hor.mpr (Or.inr hh))
          · exact Or.inr ⟨w, hw, d, hd, hh⟩

/-- **C16 (union).** The dialect set a file is parsed with is exactly the union of the declared
dialects (Lua 5.1, which enables no extra feature, when none is declared). -/
theorem C16_union (vs : List LuaVersion) (φ : Feature) :
    (luaVersion vs).1.has φ = true ↔ Spec.enabled vs φ := by
  unfold luaVersion
  rw [fold_has]
  constructor
  · rintro (h | h)
    · cases φ <;> simp [Dialects.lua51, Dialects.has] at h
    · exact h
  · exact Or.inr

/-- with no declared version the file is parsed as plain Lua 5.1 -/
theorem C16_default : (luaVersion []).1 = Dialects.lua51 := rfl

/-- a construct belonging only to undeclared dialects is rejected, one of a declared dialect accepted -/
theorem C16_accepts (vs : List LuaVersion) (c : Construct) (hc : c.enabledBy ≠ []) :
    accepts (luaVersion vs).1 c = true ↔ ∃ φ ∈ c.enabledBy, Spec.enabled vs φ := by
  unfold accepts
  have : c.enabledBy.isEmpty = false := by cases h : c.enabledBy <;> simp_all
  simp only [this, Bool.false_or, List.any_eq_true]
  constructor
  · rintro ⟨φ, hm, hh⟩; exact ⟨φ, hm, (C16_union vs φ).mp hh⟩
  · rintro ⟨φ, hm, hh⟩; exact ⟨φ, hm, (C16_union vs φ).mpr hh⟩

/-! ## The shipped libraries (table regenerated from /repo on every run) -/

def parseVersion : String → LuaVersion
  | "lua51" => .lua51 | "lua52" => .lua52 | "lua53" => .lua53 | "lua54" => .lua54
  | "luau" => .luau | "luajit" => .luajit | s => .unknown s

def fileHeader (stem : String) : Option (Option String × List LuaVersion) :=
  (Selene.Generated.stdFiles.find? (·.1 = stem)).map fun r => (r.2.1, r.2.2.map parseVersion)

/-- stems of a library and of everything it is based on (fuel = number of files) -/
def ancestry : Nat → String → List String
  | 0, _ => []
  | fuel + 1, stem =>
    match fileHeader stem with
    | none => []
    | some (none, _) => [stem]
    | some (some b, _) => stem :: ancestry fuel b

/-- versions of the effective library, by `C15_chain_versions`: first declaring library wins -/
def effectiveVersions (stem : String) : List LuaVersion :=
  let chain := ancestry Selene.Generated.stdFiles.length stem
  match chain.find? (fun s => match fileHeader s with | some (_, vs) => !vs.isEmpty | none => false) with
  | some s => match fileHeader s with | some (_, vs) => vs | none => []
  | none => []

/-- the language version a file is named after (roblox_base is named after none) -/
def namedAfter (stem : String) : Dialects :=
  match (parseVersion stem).dialects with
  | some d => d
  | none => {}

def Dialects.subset (a b : Dialects) : Bool :=
  (!a.luau || b.luau) && (!a.lua52 || b.lua52) && (!a.lua53 || b.lua53) && (!a.lua54 || b.lua54)
    && (!a.luajit || b.luajit)

def builtinOk (stem : String) : Bool :=
  (ancestry Selene.Generated.stdFiles.length stem).all fun a =>
    Dialects.subset (namedAfter a) (luaVersion (effectiveVersions stem)).1

/-- **C16 (built-ins).** Each shipped library accepts the syntax of the version it is named after
and of every version it is based on.  Re-checked by `decide` against the regenerated table. -/
theorem C16_builtin : ∀ r ∈ Selene.Generated.stdFiles, builtinOk r.1 = true := by decide

/-- every shipped base chain is complete (no dangling `base:`), and no version name is unknown -/
theorem C16_builtin_chains_closed :
    ∀ r ∈ Selene.Generated.stdFiles,
      (match r.2.1 with | none => true | some b => (fileHeader b).isSome) = true ∧
      (r.2.2.all fun v => (parseVersion v).dialects.isSome) = true := by decide

/-! ## Non-vacuity -/
example : Spec.enabled [.lua53] .lua52 := ⟨.lua53, by simp, _, rfl, rfl⟩
example : accepts (luaVersion [.lua53]).1 .intDiv = true := by decide
example : accepts (luaVersion [.lua52]).1 .intDiv = false := by decide
example : builtinOk "lua53" = true := by decide
/-- regression: with the pre-fix `extend`, lua53's effective versions were `[lua52]` -/
example : Dialects.subset (namedAfter "lua53") (luaVersion [.lua52]).1 = false := by decide

end Selene.Props.C16
