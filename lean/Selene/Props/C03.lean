/-
C03 — shadowing is reported exactly when a visible same-name variable exists.
Full statement needs the resolution equivalence of C01 (pending); proved here for all scope tables.
-/
import Selene.Scope.Lints
namespace Selene.Props.C03
open Selene.Scope Selene.Lua

/-- **C03 (lint soundness over the tables).** Every `shadowing` diagnostic names a variable whose
recorded `shadowed` entry is a *declared* variable (not a global the file assigns), points its
secondary label at that earlier declaration, and is neither ignored nor `...`. -/
theorem C03_lint_sound (ignore : String → Bool) (σ : St) (g : Diag) (h : g ∈ shadowing ignore σ) :
    ∃ v ∈ σ.vars.toList, ∃ s sv, v.shadowed = some s ∧ σ.vars[s]? = some sv ∧ sv.hoisted = false ∧
      ignore v.name = false ∧ v.name ≠ "..." ∧
      g.primary = ⟨v.ident, v.ident⟩ ∧ g.secondary = [⟨sv.ident, sv.ident⟩] := by
  unfold shadowing at h
  simp only [List.mem_filterMap] at h
  obtain ⟨v, hv, hsome⟩ := h
  refine ⟨v, hv, ?_⟩
  cases hs : v.shadowed with
  | none => simp [hs] at hsome
  | some s =>
    simp only [hs] at hsome
    cases hsv : σ.vars[s]? with
    | none => simp [hsv] at hsome
    | some sv =>
      simp only [hsv] at hsome
      by_cases hh : sv.hoisted = true
      · simp [hh] at hsome
      · simp only [hh] at hsome
        by_cases hi : (ignore v.name || decide (v.name = "...")) = true
        · simp [hi] at hsome
        · simp only [hi] at hsome
          simp at hsome
          subst hsome
          simp only [Bool.or_eq_true, decide_eq_true_eq, not_or] at hi
          exact ⟨s, sv, rfl, hsv, by simpa using hh, by simpa using hi.1, hi.2, rfl, rfl⟩

/-- **C03 (lint completeness over the tables).** Every variable whose `shadowed` entry is a declared
variable is reported, unless ignored or `...`. -/
theorem C03_lint_complete (ignore : String → Bool) (σ : St) (v : Variable) (hv : v ∈ σ.vars.toList)
    (s : Nat) (sv : Variable) (hs : v.shadowed = some s) (hsv : σ.vars[s]? = some sv)
    (hh : sv.hoisted = false) (hi : ignore v.name = false) (hd : v.name ≠ "...") :
    ∃ g ∈ shadowing ignore σ, g.primary = ⟨v.ident, v.ident⟩ ∧ g.secondary = [⟨sv.ident, sv.ident⟩] := by
  refine ⟨{ code := "shadowing", primary := ⟨v.ident, v.ident⟩, secondary := [⟨sv.ident, sv.ident⟩], detail := v.name }, ?_, rfl, rfl⟩
  unfold shadowing
  simp only [List.mem_filterMap]
  exact ⟨v, hv, by simp [hs, hsv, hh, hi, hd]⟩

end Selene.Props.C03
