/-
C03 — shadowing is reported exactly when a visible same-name variable exists.

Proved here, for every chunk:
* `C03_shadows` — the scope-stack machine of `Scope/Core.lean` records for every declaration (local,
  parameter, loop variable, local function, implicit `self`) as `shadowed` exactly the local declaration
  that Lua's scoping rules make visible under the same name at that point (`Spec.resolve`'s
  `visibleSameName`; a global the file assigns is not a declaration), as multisets;
* `C03_report_iff` — hence the lint over the machine's log reports (declaration, earlier declaration)
  iff the resolver finds a visible same-name local there and the name is neither matched by the ignore
  pattern nor `...` — for every ignore predicate.
The machine's declaration log is compared with the real `ScopeManager.variables[*].shadowed` on every
program of the correspondence run.  `C03_lint_sound` / `C03_lint_complete` (below) are the same
statement one level up: what `shadowing.rs` does with the tables, for all tables of the full model.
The same-statement corner (`local x, x = 1, 2`: the second `x` re-uses the name of the first, which Lua
does not yet consider in scope) is reported by selene; the specification records it the same way and
flags it `sameStatement`, the three-way check accepts either answer there.
-/
import Selene.Scope.Lints
import Selene.Props.C01
namespace Selene.Props.C03
open Selene.Scope Selene.Lua

/-- **C03 (shadowed = the visible same-name local).** For every chunk and every name filter, the
(declaration, shadowed declaration) pairs the machine records are — as a multiset — the declarations
Lua's scoping rules give, each with the local declaration visible under its name just before. -/
theorem C03_shadows [Core.NameFilter] (b : Block) :
    (Core.analyse b).shadows.Perm (SpecProof.shadows (Spec.resolve b)) := by
  rw [← CoreProof.log_shadows, ← SpecProof.log_shadows]
  exact (C01.C01_log b).filterMap _

/-- the `shadowing` lint over the machine's log: one report per kept declaration that shadows a local -/
def shadowingReports [Core.NameFilter] (σ : Core.St) : List (Nat × Nat) :=
  σ.shadows.filterMap fun p => p.2.map fun s => (p.1, s)

/-- the name filter of `shadowing.rs`: not matched by the ignore pattern, not `...` -/
def lintFilter (ignore : String → Bool) : Core.NameFilter := { keep := fun n => !ignore n && n != "..." }

/-- **C03 (reported exactly when a visible same-name local exists).** For every chunk and every ignore
predicate: `(t, s)` is reported — declaration token `t`, secondary label `s` — iff Lua's scoping rules
say that `t` declares a name under which the local declared at `s` is visible at that point, and the
name is neither ignored nor `...`. -/
theorem C03_report_iff (ignore : String → Bool) (b : Block) (t s : Nat) :
    (t, s) ∈ @shadowingReports (lintFilter ignore) (Core.analyse b) ↔
      ∃ d ∈ (Spec.resolve b).decls, d.tok = t ∧ d.visibleSameName.map (·.1) = some s ∧
        ignore d.name = false ∧ d.name ≠ "..." ∧ d.kind ≠ .varargParam := by
  letI := lintFilter ignore
  unfold shadowingReports
  simp only [List.mem_filterMap]
  constructor
  · rintro ⟨⟨t', o⟩, hmem, hsome⟩
    rw [(C03_shadows b).mem_iff] at hmem
    simp only [SpecProof.shadows, List.mem_map, List.mem_filter] at hmem
    obtain ⟨d, ⟨hd, hk⟩, heq⟩ := hmem
    simp only [Prod.mk.injEq] at heq
    obtain ⟨h1, h2⟩ := heq
    subst h1 h2
    cases hv : d.visibleSameName with
    | none => simp [hv] at hsome
    | some v =>
      simp only [hv, Option.map_some, Option.some.injEq, Prod.mk.injEq] at hsome
      have hk' : (d.kind != Spec.DeclKind.varargParam) = true ∧ (!ignore d.name && d.name != "...") = true := by
        have hkeep : (Core.NameFilter.keep d.name) = (!ignore d.name && d.name != "...") := rfl
        rw [hkeep] at hk
        simpa using hk
      refine ⟨d, hd, hsome.1, by rw [hv]; simp [hsome.2], ?_, ?_, ?_⟩
      · have := hk'.2; simp only [Bool.and_eq_true, Bool.not_eq_true', bne_iff_ne] at this; exact this.1
      · have := hk'.2; simp only [Bool.and_eq_true, Bool.not_eq_true', bne_iff_ne] at this; exact this.2
      · simpa using hk'.1
  · rintro ⟨d, hd, h1, h2, h3, h4, h5⟩
    refine ⟨(t, some s), ?_, by simp⟩
    rw [(C03_shadows b).mem_iff]
    simp only [SpecProof.shadows, List.mem_map, List.mem_filter]
    refine ⟨d, ⟨hd, ?_⟩, by simp [h1, h2]⟩
    have hkeep : (Core.NameFilter.keep d.name) = (!ignore d.name && d.name != "...") := rfl
    rw [hkeep]
    simp [h3, h4, h5]

/-- non-vacuity: `local x; do local x end` — the inner `x` (token 4) is reported with the outer one (1) -/
example :
    let t (i : Nat) (s : String) : Tok := ⟨i, s⟩
    let b : Block := .mk none
      (.cons (.localAssign ⟨0, 1⟩ [t 1 "x"] .nil)
        (.cons (.do_ ⟨2, 5⟩ (.mk none (.cons (.localAssign ⟨3, 4⟩ [t 4 "x"] .nil) .nil) .none)) .nil)) .none
    @shadowingReports (lintFilter fun _ => false) (Core.analyse b) = [(4, 1)] := by
  decide

/-- **C03 (lint soundness over the tables).** Every `shadowing` diagnostic names a variable whose
recorded `shadowed` entry is a *declared* variable (not a global the file assigns), points its
secondary label at that earlier declaration, and is neither ignored nor `...`. -/
theorem C03_lint_sound (ignore : String → Bool) (σ : St) (g : Diag) (h : g ∈ shadowing ignore σ) :
    ∃ v ∈ σ.vars.toList, ∃ s sv, v.shadowed = some s ∧ σ.vars[s]? = some sv ∧ sv.hoisted = false ∧
      ignore v.name = false ∧ v.name ≠ "..." ∧
      g.primary = ⟨v.ident, v.ident⟩ ∧ g.secondary = [⟨sv.ident, sv.ident⟩] := by
  unfold shadowing at h
  simp only [List.mem_filterMap] at h
  obtain ⟨v, hv, hsome⟩ := h
  refine ⟨v, hv, ?_⟩
  cases hs : v.shadowed with
  | none => simp [hs] at hsome
  | some s =>
    simp only [hs] at hsome
    cases hsv : σ.vars[s]? with
    | none => simp [hsv] at hsome
    | some sv =>
      simp only [hsv] at hsome
      by_cases hh : sv.hoisted = true
      · simp [hh] at hsome
      · simp only [hh] at hsome
        by_cases hi : (ignore v.name || decide (v.name = "...")) = true
        · simp [hi] at hsome
        · simp only [hi] at hsome
          simp at hsome
          subst hsome
          simp only [Bool.or_eq_true, decide_eq_true_eq, not_or] at hi
          exact ⟨s, sv, rfl, hsv, by simpa using hh, by simpa using hi.1, hi.2, rfl, rfl⟩

/-- **C03 (lint completeness over the tables).** Every variable whose `shadowed` entry is a declared
variable is reported, unless ignored or `...`. -/
theorem C03_lint_complete (ignore : String → Bool) (σ : St) (v : Variable) (hv : v ∈ σ.vars.toList)
    (s : Nat) (sv : Variable) (hs : v.shadowed = some s) (hsv : σ.vars[s]? = some sv)
    (hh : sv.hoisted = false) (hi : ignore v.name = false) (hd : v.name ≠ "...") :
    ∃ g ∈ shadowing ignore σ, g.primary = ⟨v.ident, v.ident⟩ ∧ g.secondary = [⟨sv.ident, sv.ident⟩] := by
  refine ⟨{ code := "shadowing", primary := ⟨v.ident, v.ident⟩, secondary := [⟨sv.ident, sv.ident⟩], detail := v.name }, ?_, rfl, rfl⟩
  unfold shadowing
  simp only [List.mem_filterMap]
  exact ⟨v, hv, by simp [hs, hsv, hh, hi, hd]⟩

end Selene.Props.C03
