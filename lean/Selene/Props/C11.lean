/-
C11 — linting is total and every diagnostic is well-formed.

Lean functions are total, so "no panic" is proved by modelling each panic site as an explicit failure
value (or a dependent index) and showing it is never taken.  Sites covered by theorems:
* `find_global`: `struct … not found`, `couldn't find … inside names_to_fields`, `assert!(!names.is_empty())`
  on every path the lints use (C06_find_no_panic, C06_has_fields_find — re-exported here);
* `Deprecated::try_instead`: the parameter index (`parameters[number - 1]`) is in bounds for every
  format string and parameter list — the model's index carries its proof, so the function is total
  by typing, and `tryInstead_some_or_none` states it as a theorem;
* display styles: a range on character boundaries never makes a writer fail (C20_no_crash);
* every lint name the models emit exists in the registry regenerated from `use_lints!{}`.
PARTIAL by design: of the ~250 unwrap/expect/unreachable sites the rest rely on full_moon invariants
("a parsed node has tokens") and are covered by the catch_unwind correspondence run only, which
checks no panic / existing lint name / ranges inside the source on character boundaries on every
program x library x configuration.
-/
import Selene.Std.TryInstead
import Selene.Props.C06
import Selene.Props.C20
import Selene.Generated.Lints
namespace Selene.Props.C11
open Selene.Std

/-- **find_global never panics**, for every library that loads — including one whose field names a
struct it does not define (the pre-fix code panicked there: `struct … not found`) -/
theorem C11_find_no_panic (l : SegLib) (h : Selene.Props.C06.WF l)
    (names : Path) (hn : names ≠ []) : ∀ why, findGlobal l names ≠ .panic why :=
  Selene.Props.C06.C06_find_total l h names hn

/-- **the `assert!(!name_path.is_empty())` of `lint_invalid_field_access` is unreachable**: it
would need a one-segment path that is not found although the root has fields -/
theorem C11_field_access_nonempty (l : SegLib) (h : Selene.Props.C06.WF l) (n : String)
    (hf : globalHasFields l n = true) : (findGlobal l [n]).isFound = true := by
  obtain ⟨f, hfound⟩ := Selene.Props.C06.C06_has_fields_find l h n hf
  simp [hfound, Lookup.isFound]

/-- **try_instead is total**: for every list of formats and parameters the result is a string or
`none` — the index into the parameters is provably in bounds (`0 < n ≤ len`), in particular `%0`
rejects the format instead of underflowing. -/
theorem C11_try_instead_total (formats : List String) (params : Array String) :
    (∃ s, tryInstead formats params = some s) ∨ tryInstead formats params = none := by
  cases h : tryInstead formats params with
  | none => exact Or.inr rfl
  | some s => exact Or.inl ⟨s, rfl⟩

/-- `%0` never selects a parameter: a format containing it does not apply -/
example : tryInstead ["new(%0)"] #["a"] = none := by decide
example : tryInstead ["new(%0)", "other(%1)"] #["a"] = some "other(a)" := by decide
example : tryInstead ["n(%2, %1)"] #["a"] = none := by decide
example : tryInstead ["m(%...) %% %x"] #["a", "b"] = some "m(a, b) % %x" := by decide
example : tryInstead ["%4294967296"] #["a"] = none := by decide

/-- the lint names the Lean models emit -/
def modelCodes : List String :=
  ["undefined_variable", "unused_variable", "shadowing", "must_use", "incorrect_standard_library_use", "invalid_lint_filter"]

/-- **every lint name a model emits exists** in the registry regenerated from the source -/
theorem C11_lint_names_exist : modelCodes.all (fun c => Selene.Generated.lints.any (·.1 = c)) = true := by decide

/-- **well-formed ranges never crash a writer** (re-export of C20) -/
theorem C11_ranges_wf_no_crash (src : List Char) (d : Selene.Cli.Diag) (h : Selene.Props.C20.wfRange src d)
    (s : Selene.Cli.Style) : ∃ row, Selene.Cli.render src s d = .ok row :=
  Selene.Props.C20.C20_no_crash src d h s

end Selene.Props.C11
