/-
C11 — linting is total and every diagnostic is well-formed.

Lean functions are total, so "no panic" is proved by modelling each panic site as an explicit failure
value (or a dependent index) and showing it is never taken.  Sites covered by theorems:
* `find_global`: `struct … not found`, `couldn't find … inside names_to_fields`, `assert!(!names.is_empty())`
  on every path the lints use (C06_find_no_panic, C06_has_fields_find — re-exported here);
* `Deprecated::try_instead`: the parameter index (`parameters[number - 1]`) is in bounds for every
  format string and parameter list — the model's index carries its proof, so the function is total
  by typing, and `tryInstead_some_or_none` states it as a theorem;
* `RobloxClass::has_property` / `has_event`: the superclass walk visits at most `len + 1` classes for every
  class table, cyclic ones included (C11_class_walk_bounded), and finds exactly the properties of the
  classes reachable within that many links (C11_has_property_iff) — before /repo 0720cb5 a cyclic table,
  which loads without error, overflowed the stack;
* display styles: a range on character boundaries never makes a writer fail (C20_no_crash);
* every lint name the models emit exists in the registry regenerated from `use_lints!{}`.
PARTIAL by design: of the ~250 unwrap/expect/unreachable sites the rest rely on full_moon invariants
("a parsed node has tokens") and are covered by the catch_unwind correspondence run only, which
checks no panic / existing lint name / ranges inside the source on character boundaries on every
program x library x configuration.
-/
import Selene.Std.TryInstead
import Selene.Props.C06
import Selene.Props.C20
import Selene.Generated.Lints
import Selene.Std.RobloxClass
namespace Selene.Props.C11
open Selene.Std

/-- **find_global never panics**, for every library that loads — including one whose field names a
struct it does not define (the pre-fix code panicked there: `struct … not found`) -/
theorem C11_find_no_panic (l : SegLib) (h : Selene.Props.C06.WF l)
    (names : Path) (hn : names ≠ []) : ∀ why, findGlobal l names ≠ .panic why :=
  Selene.Props.C06.C06_find_total l h names hn

/-- **the `assert!(!name_path.is_empty())` of `lint_invalid_field_access` is unreachable**: it
would need a one-segment path that is not found although the root has fields -/
theorem C11_field_access_nonempty (l : SegLib) (h : Selene.Props.C06.WF l) (n : String)
    (hf : globalHasFields l n = true) : (findGlobal l [n]).isFound = true := by
  obtain ⟨f, hfound⟩ := Selene.Props.C06.C06_has_fields_find l h n hf
  simp [hfound, Lookup.isFound]

/-- **try_instead is total**: for every list of formats and parameters the result is a string or
`none` — the index into the parameters is provably in bounds (`0 < n ≤ len`), in particular `%0`
rejects the format instead of underflowing. -/
theorem C11_try_instead_total (formats : List String) (params : Array String) :
    (∃ s, tryInstead formats params = some s) ∨ tryInstead formats params = none := by
  cases h : tryInstead formats params with
  | none => exact Or.inr rfl
  | some s => exact Or.inl ⟨s, rfl⟩

/-- `%0` never selects a parameter: a format containing it does not apply -/
example : tryInstead ["new(%0)"] #["a"] = none := by decide
example : tryInstead ["new(%0)", "other(%1)"] #["a"] = some "other(a)" := by decide
example : tryInstead ["n(%2, %1)"] #["a"] = none := by decide
example : tryInstead ["m(%...) %% %x"] #["a", "b"] = some "m(a, b) % %x" := by decide
example : tryInstead ["%4294967296"] #["a"] = none := by decide

/-- **the superclass walk is bounded** by the size of the class table, whatever the links look like -/
theorem C11_class_walk_bounded (cs : Roblox.Classes) (c : Roblox.Class) :
    (Roblox.ancestry cs (cs.length + 1) c).length ≤ cs.length + 1 :=
  Roblox.ancestry_length cs _ c

/-- **… and answers the documented question**: a class has a property iff the class itself or one of the
classes reached by following at most `len` superclass links lists it -/
theorem C11_has_property_iff (cs : Roblox.Classes) (c : Roblox.Class) (p : String) :
    Roblox.hasProperty cs c p = true ↔
      ∃ k x, k ≤ cs.length ∧ Roblox.nthSuper cs k c = some x ∧ p ∈ x.properties := by
  unfold Roblox.hasProperty
  simp only [List.any_eq_true, List.contains_iff_mem]
  constructor
  · rintro ⟨x, hx, hp⟩
    obtain ⟨k, hk, hn⟩ := (Roblox.mem_ancestry cs _ c x).mp hx
    exact ⟨k, x, Nat.lt_succ_iff.mp hk, hn, hp⟩
  · rintro ⟨k, x, hk, hn, hp⟩
    exact ⟨x, (Roblox.mem_ancestry cs _ c x).mpr ⟨k, Nat.lt_succ_iff.mpr hk, hn⟩, hp⟩

/-- a two-class cycle: the walk ends and still finds what the other class lists -/
example :
    let a : Roblox.Class := { superclass := "B", events := [], properties := [] }
    let b : Roblox.Class := { superclass := "A", events := [], properties := ["Size"] }
    Roblox.hasProperty [("A", a), ("B", b)] a "Size" = true ∧ Roblox.hasProperty [("A", a), ("B", b)] a "Foo" = false := by
  decide

/-- the lint names the Lean models emit -/
def modelCodes : List String :=
  ["undefined_variable", "unused_variable", "shadowing", "must_use", "incorrect_standard_library_use", "invalid_lint_filter"]

/-- **every lint name a model emits exists** in the registry regenerated from the source -/
theorem C11_lint_names_exist : modelCodes.all (fun c => Selene.Generated.lints.any (·.1 = c)) = true := by decide

/-- **well-formed ranges never crash a writer** (re-export of C20) -/
theorem C11_ranges_wf_no_crash (src : List Char) (d : Selene.Cli.Diag) (h : Selene.Props.C20.wfRange src d)
    (s : Selene.Cli.Style) : ∃ row, Selene.Cli.render src s d = .ok row :=
  Selene.Props.C20.C20_no_crash src d h s

end Selene.Props.C11
