/-
C09 — invalid lint filters are reported and suppress nothing.
-/
import Selene.Filter.Lemmas
import Selene.Props.C08
namespace Selene.Props.C09
open Selene.Filter Selene.Props.C08

/-- **C09 (unknown lint).** Every claimed filter naming a lint that does not exist is reported,
at its comment. -/
theorem C09_unknown (entries : List RangeEntry) (firstCode : Option Nat) (ds : List Diag) (out : Output)
    (h : filterDiagnostics entries firstCode ds = some out) (r : Nat × Nat) (l : String)
    (hr : RangeEntry.rejected r l ∈ entries) : Failure.unknownLint r l ∈ out.failures := by
  have hmem : Failure.unknownLint r l ∈ rejectedOf entries := by
    apply List.mem_filterMap.mpr
    exact ⟨_, hr, rfl⟩
  unfold filterDiagnostics at h
  simp only at h
  split at h
  · simp at h; subst h; exact hmem
  · split at h
    · simp at h
    · simp at h; subst h; exact List.mem_append_left _ hmem

/-- **C09 (inert, unknown lint).** A filter rejected for naming a missing lint has no effect on any
diagnostic: removing the rejected entries changes nothing but the failure list. -/
theorem C09_rejected_inert (entries : List RangeEntry) (firstCode : Option Nat) (ds : List Diag) :
    (filterDiagnostics entries firstCode ds).map (·.diags) =
      (filterDiagnostics ((filtersOf entries).map .ok) firstCode ds).map (·.diags) := by
  have hf : filtersOf ((filtersOf entries).map .ok) = filtersOf entries := by
    simp [filtersOf, List.filterMap_map, Function.comp_def, RangeEntry.filter?]
  unfold filterDiagnostics
  simp only [hf]
  split
  · simp
  · split <;> simp

/-- **C09 (inert, late global).** A global filter placed after code is reported and pushes
nothing: instruction list and global list are unchanged by it. -/
theorem C09_global_late_inert (firstCode : Option Nat) (st : BuildSt) (f : Filter)
    (hl : isLate firstCode f = true) :
    (buildStep firstCode st f).instrs = st.instrs ∧ (buildStep firstCode st f).globals = st.globals ∧
    (buildStep firstCode st f).failures = st.failures ++ [.globalLate f.commentRange] := by
  unfold buildStep; simp [hl]

/-- **C09 (conflict, inert).** A second filter for the same piece of code and lint sits below the
first one on the stack, so it never decides anything the first one would not. -/
theorem C09_conflict_inert (stack : List Config) (first second : Config) (d : Diag)
    (h : first.lint = second.lint) :
    decide1 (first :: second :: stack) d = decide1 (first :: stack) d := by
  unfold decide1
  by_cases h1 : first.lint = d.code
  · simp [h1]
  · have h2 : ¬ second.lint = d.code := by rw [← h]; exact h1
    simp [h1, h2]

/-! ### malformed comments are not filters at all -/
example : parseComment " selene: allow(".toList = none := by decide
example : parseComment " selene: alow(unused_variable)".toList = none := by decide
example : parseComment " selene allow(unused_variable)".toList = none := by decide
example : parseComment " selene: allow()".toList = none := by decide
example : parseComment " selene: allow(unused_variable, shadowing)".toList =
    some [{ global := false, lint := "unused_variable", sev := .allow },
          { global := false, lint := "shadowing", sev := .allow }] := by decide
example : parseComment "# selene: deny(x)".toList = some [{ global := true, lint := "x", sev := .error }] := by decide

end Selene.Props.C09
