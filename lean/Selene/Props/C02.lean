/-
C02 — unused_variable never flags a variable that is read.
Proved here: `C02_used_iff` (all chunks) — a declaration has a read recorded by the scope-stack machine
exactly when Lua's scoping rules bind some identifier occurrence in an expression position to it (a
corollary of `C01_resolution`), so "no recorded read" is "never read"; and, for all scope tables, what
the lint reports given the tables (`C02_lint_sound`, over the full ScopeVisitor model).  The documented `observes: write`
analysis is the one place where the property's first sentence is false by design (recorded finding).
-/
import Selene.Scope.Lints
import Selene.Props.C01
import Selene.Props.C03
namespace Selene.Props.C02
open Selene.Scope Selene.Lua

/-- **C02 (read ⇔ used).** For every chunk and declaration token `d`: the scope-stack machine records
some read that resolves to `d` iff the Lua resolver binds some identifier occurrence in an expression
position to `d`.  Hence a variable with no recorded read is one the script never reads, and a variable
the script reads always has a recorded read. -/
theorem C02_used_iff [Core.NameFilter] (b : Block) (d : Nat) :
    (∃ t, (t, some d) ∈ (Core.analyse b).answers) ↔
      ∃ oc ∈ (Spec.resolve b).occs, SpecProof.counted oc = true ∧ Core.NameFilter.read oc.name = true ∧
        oc.binding.map (·.1) = some d := by
  constructor
  · rintro ⟨t, h⟩
    obtain ⟨oc, h1, h2, h2', _, h4⟩ := (C01.C01_resolution_mem b t (some d)).mp h
    exact ⟨oc, h1, h2, h2', h4⟩
  · rintro ⟨oc, h1, h2, h2', h3⟩
    exact ⟨oc.tok, (C01.C01_resolution_mem b oc.tok (some d)).mpr ⟨oc, h1, h2, h2', rfl, h3⟩⟩

/-- **C02 (value used ⇔ value use recorded).** For every chunk and declaration token `d`: the machine
records a read of `d` that *uses its value* — any expression position except the root of an indexed
assignment target (`a` in `a.b = 1`, in `function a.b()`) — iff Lua's scoping rules bind to `d` an
occurrence of kind `value` (operand, argument, callee, indexed or returned value, condition, loop bound,
captured by a closure). -/
theorem C02_value_used_iff [Core.NameFilter] (b : Block) (d : Nat) :
    (∃ t, (t, some d) ∈ (Core.analyse b).valueUses) ↔
      ∃ oc ∈ (Spec.resolve b).occs, SpecProof.counted oc = true ∧ Core.NameFilter.read oc.name = true ∧
        oc.kind = .value ∧ oc.binding.map (·.1) = some d := by
  have hp : (Core.analyse b).valueUses.Perm (SpecProof.valueUses (Spec.resolve b)) := by
    rw [← CoreProof.log_valueUses, ← SpecProof.log_valueUses]
    exact (C01.C01_log b).filterMap _
  constructor
  · rintro ⟨t, h⟩
    have := hp.mem_iff.mp h
    simp only [SpecProof.valueUses, List.mem_map, List.mem_filter, Prod.mk.injEq, Bool.and_eq_true, beq_iff_eq] at this
    obtain ⟨oc, ⟨h1, ⟨h2, h3⟩, h4⟩, _, h6⟩ := this
    exact ⟨oc, h1, h2, h3, h4, h6⟩
  · rintro ⟨oc, h1, h2, h3, h4, h5⟩
    refine ⟨oc.tok, hp.mem_iff.mpr ?_⟩
    simp only [SpecProof.valueUses, List.mem_map, List.mem_filter, Prod.mk.injEq, Bool.and_eq_true, beq_iff_eq]
    exact ⟨oc, ⟨h1, ⟨h2, h3⟩, h4⟩, rfl, h5⟩

/-- the declarations `unused_variable` is about, over the machine's log: those none of whose recorded
reads uses the value -/
def neverUsed [Core.NameFilter] (σ : Core.St) : List Nat :=
  (σ.shadows.map (·.1)).filter fun t => !(σ.valueUses.any fun u => u.2 == some t)

/-- **C02 (both directions, for the machine).** For every chunk: a declaration is in `neverUsed` — the
only declarations the lint may report, and all of which it reports unless a further condition of the lint
(ignore pattern, implicit `self`, the documented write-only analysis) says otherwise — iff it is a
local, parameter, loop variable, local function or implicit `self` of the file to which Lua's scoping
rules bind no occurrence that uses its value.  In particular a variable some expression uses is never in
it, and a variable never mentioned again after its declaration always is. -/
theorem C02_neverUsed_iff (b : Block) (t : Nat) :
    t ∈ @neverUsed Core.NameFilter.all (Core.analyse b) ↔
      (∃ dc ∈ (Spec.resolve b).decls, dc.kind ≠ .varargParam ∧ dc.tok = t) ∧
      ¬ ∃ oc ∈ (Spec.resolve b).occs, SpecProof.counted oc = true ∧ oc.kind = .value ∧ oc.binding.map (·.1) = some t := by
  letI := Core.NameFilter.all
  unfold neverUsed
  simp only [List.mem_filter, List.mem_map, Bool.not_eq_true', List.any_eq_false, beq_iff_eq, Prod.exists, exists_and_right,
    exists_eq_right]
  constructor
  · rintro ⟨⟨s, hmem⟩, hno⟩
    refine ⟨?_, ?_⟩
    · have := (C03.C03_shadows b).mem_iff.mp hmem
      simp only [SpecProof.shadows, List.mem_map, List.mem_filter, Prod.mk.injEq, Bool.and_eq_true, bne_iff_ne] at this
      obtain ⟨dc, ⟨h1, h2, _⟩, h3, _⟩ := this
      exact ⟨dc, h1, h2, h3⟩
    · rintro ⟨oc, h1, h2, h3, h4⟩
      obtain ⟨u, hu⟩ := (C02_value_used_iff b t).mpr ⟨oc, h1, h2, rfl, h3, h4⟩
      exact hno (u, some t) hu rfl
  · rintro ⟨⟨dc, h1, h2, h3⟩, hno⟩
    refine ⟨⟨dc.visibleSameName.map (·.1), ?_⟩, ?_⟩
    · apply (C03.C03_shadows b).mem_iff.mpr
      simp only [SpecProof.shadows, List.mem_map, List.mem_filter, Prod.mk.injEq, Bool.and_eq_true, bne_iff_ne]
      exact ⟨dc, ⟨h1, h2, rfl⟩, h3, rfl⟩
    · rintro ⟨u, bnd⟩ hu hb
      simp only at hb
      subst hb
      obtain ⟨oc, h1, h2, _, h4, h5⟩ := (C02_value_used_iff b t).mp ⟨u, hu⟩
      exact hno ⟨oc, h1, h2, h4, h5⟩

def analyzedOf (σ : St) (argObserves : List String → Nat → Option Bool) (v : Variable) : List Analyzed :=
  v.references.filterMap fun id => (σ.refs[id]?).map (analyzeRef σ argObserves v)

/-- **C02 (lint soundness over the tables).** An `unused_variable` diagnostic names a variable
none of whose recorded references is analysed as a read, whose name the ignore pattern does not
match, and which is not an ignorable implicit `self`. -/
theorem C02_lint_sound (hasFields : String → Bool) (argObserves : List String → Nat → Option Bool)
    (ignore : String → Bool) (aus : Bool) (σ : St) (g : Diag)
    (h : g ∈ unusedVariable hasFields argObserves ignore aus σ) :
    ∃ v ∈ σ.vars.toList, g.primary = ⟨v.ident, v.ident⟩ ∧ ignore v.name = false ∧
      (∀ a ∈ analyzedOf σ argObserves v, a ≠ .read) ∧ ¬ (v.isSelf = true ∧ aus = true) := by
  unfold unusedVariable at h
  simp only [List.mem_filterMap] at h
  obtain ⟨v, hv, hsome⟩ := h
  refine ⟨v, hv, ?_⟩
  by_cases hi : ignore v.name = true
  · simp [hi] at hsome
  · simp only [hi] at hsome
    by_cases hf : (v.hoisted && hasFields v.name) = true
    · simp [hf] at hsome
    · simp only [hf] at hsome
      by_cases hr : (analyzedOf σ argObserves v).any (· == .read) = true
      · simp only [analyzedOf] at hr
        simp [hr] at hsome
      · simp only [analyzedOf] at hr
        simp only [hr] at hsome
        by_cases hs : (v.isSelf && aus) = true
        · simp [hs] at hsome
        · simp only [hs] at hsome
          simp at hsome
          subst hsome
          refine ⟨rfl, by simpa using hi, ?_, by simpa using hs⟩
          intro a ha hread
          apply hr
          simp only [List.any_eq_true]
          exact ⟨a, ha, by simp [hread]⟩

/-- **C02 (a read reference protects).** If some reference of a variable is analysed as a read, the
variable is not reported. -/
theorem C02_read_protects (hasFields : String → Bool) (argObserves : List String → Nat → Option Bool)
    (ignore : String → Bool) (aus : Bool) (σ : St) (g : Diag)
    (h : g ∈ unusedVariable hasFields argObserves ignore aus σ) (v : Variable)
    (hp : g.primary = ⟨v.ident, v.ident⟩)
    (hu : ∀ w ∈ σ.vars.toList, w.ident = v.ident → w = v) :
    ∀ a ∈ analyzedOf σ argObserves v, a ≠ .read := by
  obtain ⟨w, hw, hpw, _, hall, _⟩ := C02_lint_sound hasFields argObserves ignore aus σ g h
  have : w.ident = v.ident := by
    rw [hp] at hpw
    injection hpw with h1 _
    exact h1.symm
  rw [← hu w hw this]; exact hall

/-- a reference of a non-static-table variable that reads it is always analysed as a read -/
theorem C02_plain_read (σ : St) (argObserves : List String → Nat → Option Bool) (v : Variable) (r : Ref)
    (hs : v.staticTable = none) (hw : r.write = none) :
    analyzeRef σ argObserves v r = .read := by
  simp [analyzeRef, hs, hw]

end Selene.Props.C02
