/-
C08 — inline lint filters change exactly the diagnostics they cover.
Helper lemmas: Selene/Filter/Lemmas.lean.

`C08_machine` — the full statement — is proved: for every family of accepted filters whose inline
members are the pre-order of a well-formed forest of code pieces (ranges nested or strictly apart, a
nested piece starting after the enclosing one; any depth, any breadth, any number of filters per
piece, any global filters interleaved), the push/pop machine never pops an empty stack and its output
is `Spec.verdict` mapped over the diagnostics in order of position: innermost covering filter, else
the first accepted global filter, else unchanged.  `C08_visitor_forest` / `C08_visitor` derive that
hypothesis from the shape of the syntax tree (Filter/Visitor.lean, Filter/VisitorProof.lean): for every
tree whose spans nest and whose comments belong to one token each, `get_filter_ranges` yields the pre-order
of a well-formed forest, so visitor + machine = specification.  That the node sequence full_moon's visitor
reports is the pre-order of such a tree is checked on every program of the run (`synOf`,
`C08_visitor_checked`); the older check of the filter family itself (`forestOf`, `C08_machine_checked`) is kept.  Also proved, for all
inputs laminar or not: diagnostics of lints no filter names are untouched; a file without accepted
filters is returned unchanged; the decision for a covered diagnostic ignores its incoming severity.
Proof files: Filter/Exec.lean (lazy replay = independent prefix executions), Filter/Forest.lean
(prefix execution leaves the enclosing filters on the stack), Filter/Build.lean (ordered insertion of
a pre-order = the structural instruction list), Filter/SpecForest.lean (innermost covering = first
match on that stack), Filter/MachineProof.lean.
-/
import Selene.Filter.Lemmas
import Selene.Filter.MachineProof
import Selene.Filter.ForestOf
import Selene.Filter.SynOf
namespace Selene.Props.C08
open Selene.Filter

/-- **C08 (machine = specification).** -/
theorem C08_machine (entries : List RangeEntry) (fc : Option Nat) (ds : List Diag) (F : Forest) (hi : Nat)
    (hF : (filtersOf entries).filter (fun f => !f.cfg.global) = F.filters) (hwf : F.WF 0 hi)
    (hne : (filtersOf entries).isEmpty = false) :
    (filterDiagnostics entries fc ds).map (·.diags) =
      some ((sortDiags ds).filterMap (Spec.verdict (filtersOf entries) fc)) :=
  machine_eq_spec entries fc ds F hi hF hwf hne

/-- the same with the hypothesis in its executable form (what the driver evaluates on every program) -/
theorem C08_machine_checked (entries : List RangeEntry) (fc : Option Nat) (ds : List Diag) (F : Forest)
    (h : forestOf ((filtersOf entries).filter fun f => !f.cfg.global) = some F)
    (hne : (filtersOf entries).isEmpty = false) :
    (filterDiagnostics entries fc ds).map (·.diags) =
      some ((sortDiags ds).filterMap (Spec.verdict (filtersOf entries) fc)) := by
  unfold forestOf at h
  simp only at h
  split at h
  · rename_i hc
    simp only [Bool.and_eq_true, beq_iff_eq] at hc
    injection h with h
    subst h
    exact machine_eq_spec entries fc ds _ _ hc.2.symm (Forest.wfb_sound _ _ _ hc.1.2) hne
  · simp at h

/-- **C08 (the visitor yields forests).** For every syntax tree whose spans nest (children inside their
parent, in source order, a commented token strictly after what ends before it) and whose comments belong to
one token each, the accepted inline filters `get_filter_ranges` records are the pre-order of a well-formed
forest: the hypothesis of `C08_machine` follows from the shape of the tree. -/
theorem C08_visitor_forest (trivia : Nat → List Comment) (lintExists : String → Bool) (hok : TriviaOK trivia)
    (L : SynList) (hi : Nat) (h : L.wf trivia 0 false hi = true) :
    ∃ F : Forest, F.WF 0 hi ∧
      (filtersOf (claim lintExists (L.preorder trivia) [])).filter (fun f => !f.cfg.global) = F.filters := by
  refine ⟨L.forest trivia lintExists [], ?_, ?_⟩
  · exact SynList.forest_WF trivia lintExists L 0 false hi 0 [] h (fun a _ _ => Or.inl (Nat.zero_le a))
  · exact (SynList.claim_forest trivia lintExists hok L 0 false hi [] h).1

/-- **C08 (from the syntax tree to the verdicts).** `get_filter_ranges` followed by `filter_diagnostics`
over any such tree: no panic, and every diagnostic gets the verdict of the innermost covering filter, else
the first accepted global one, else stays as it was. -/
theorem C08_visitor (trivia : Nat → List Comment) (lintExists : String → Bool) (hok : TriviaOK trivia)
    (L : SynList) (hi : Nat) (h : L.wf trivia 0 false hi = true) (fc : Option Nat) (ds : List Diag)
    (hne : (filtersOf (claim lintExists (L.preorder trivia) [])).isEmpty = false) :
    (filterDiagnostics (claim lintExists (L.preorder trivia) []) fc ds).map (·.diags) =
      some ((sortDiags ds).filterMap (Spec.verdict (filtersOf (claim lintExists (L.preorder trivia) [])) fc)) := by
  obtain ⟨F, hwf, hF⟩ := C08_visitor_forest trivia lintExists hok L hi h
  exact machine_eq_spec _ fc ds F hi hF hwf hne

/-- the same for a node sequence as the real `NodeVisitor` reports it, with the hypothesis in the executable
form the driver evaluates on every program (`synOf`: the nodes that carry comments are the pre-order of a
well-formed tree) -/
theorem C08_visitor_checked (lintExists : String → Bool) (nodes : List NodeInfo) (L : SynList) (hi : Nat)
    (h : synOf nodes = some (L, hi)) (fc : Option Nat) (ds : List Diag)
    (hne : (filtersOf (claim lintExists nodes [])).isEmpty = false) :
    (filterDiagnostics (claim lintExists nodes []) fc ds).map (·.diags) =
      some ((sortDiags ds).filterMap (Spec.verdict (filtersOf (claim lintExists nodes [])) fc)) := by
  unfold synOf at h
  simp only at h
  split at h
  · rename_i hc
    simp only [Bool.and_eq_true, beq_iff_eq] at hc
    injection h with h
    injection h with h1 h2
    subst h1; subst h2
    obtain ⟨⟨⟨_, hwf⟩, hok⟩, hpre⟩ := hc
    have := C08_visitor (triviaOf (withComments nodes)) lintExists (triviaOKb_sound _ hok) _ _ hwf fc ds
    rw [hpre, claim_withComments] at this
    exact this hne
  · simp at h

/-! the premises of `C08_visitor` are satisfiable: `--[[ selene: allow(empty_if) ]] if … --[[ selene: deny(empty_if) ]] if … end end`
    as the visitor sees it (a Block, a statement, a nested Block and statement, the end-of-file token) -/
private def exTrivia (a : Nat) : List Comment :=
  if a = 30 then [{ start := 0, stop := 29, lines := [" selene: allow(empty_if)".toList] }]
  else if a = 70 then [{ start := 40, stop := 69, lines := [" selene: deny(empty_if)".toList] }] else []
private def exTree : SynList :=
  .cons (.node true 30 100 (.cons (.node false 30 100 (.cons (.node true 70 90 (.cons (.node false 70 90 .nil) .nil)) .nil)) .nil))
    (.cons (.node false 100 100 .nil) .nil)
example : exTree.wf exTrivia 0 false 100 = true := by decide
example : (filtersOf (claim (fun _ => true) (exTree.preorder exTrivia) [])).isEmpty = false := by decide
example : TriviaOK exTrivia := by
  constructor
  · intro a a' c c' hne hc hc'
    unfold exTrivia at hc hc'
    split at hc <;> split at hc' <;> (try split at hc) <;> (try split at hc') <;> simp_all [Comment.range] <;> omega
  · intro a
    unfold exTrivia
    split <;> (try split) <;> simp

/-- **C08 (others untouched).** A diagnostic of a lint that no filter comment of the file names —
inline or global, accepted, late or conflicting — is reported exactly as without the comments,
for every family of filter ranges whatsoever. -/
theorem C08_others_untouched (entries : List RangeEntry) (firstCode : Option Nat) (ds : List Diag)
    (out : Output) (h : filterDiagnostics entries firstCode ds = some out)
    (d : Diag) (hd : d ∈ ds) (hl : ∀ f ∈ filtersOf entries, f.cfg.lint ≠ d.code) : d ∈ out.diags := by
  unfold filterDiagnostics at h
  simp only at h
  split at h
  · simp at h; subst h; exact hd
  · cases hr : runDiags (sortDiags ds) (build firstCode (filtersOf entries)).instrs.reverse [] with
    | none => rw [hr] at h; simp at h
    | some o =>
      rw [hr] at h
      simp at h; subst h
      simp only
      apply runDiags_untouched _ _ _ _ hr d ((mem_sortDiags d ds).mpr hd) (by simp)
      intro c hc
      rw [pushed_reverse] at hc
      obtain ⟨f, hf, hcf⟩ := build_configs firstCode _ c hc
      subst hcf
      exact hl f hf

/-- **C08 (no filters).** Without accepted filters the diagnostics are returned as they came. -/
theorem C08_no_filters (entries : List RangeEntry) (firstCode : Option Nat) (ds : List Diag)
    (h : filtersOf entries = []) :
    (filterDiagnostics entries firstCode ds).map (·.diags) = some ds := by
  unfold filterDiagnostics
  simp [h]

/-- the decision for a diagnostic depends on the stack only through the first configuration of
its lint ("most recent wins") -/
theorem C08_most_recent_wins (stack : List Config) (c : Config) (d : Diag) (hc : c.lint = d.code) :
    decide1 (c :: stack) d = Spec.applySev c.sev d := by
  simp [decide1, hc, Spec.applySev]

/-- entries below the first matching configuration are irrelevant: an outer filter for the same
lint never overrides an inner one -/
theorem C08_inner_shadows_outer (inner outer : List Config) (c : Config) (d : Diag)
    (hc : c.lint = d.code) (hin : ∀ x ∈ inner, x.lint ≠ d.code) :
    decide1 (inner ++ c :: outer) d = Spec.applySev c.sev d := by
  unfold decide1
  have : (inner ++ c :: outer).find? (fun x => x.lint = d.code) = some c := by
    rw [List.find?_append]
    have h1 : inner.find? (fun x => decide (x.lint = d.code)) = none := by
      apply List.find?_eq_none.mpr; intro x hx; simpa using hin x hx
    simp [h1, hc]
  simp [this, Spec.applySev]

/-! ### the two shapes that would break an anonymous `Pop` (why laminarity is needed) -/
private def cfg (l : String) (s : Sev) : Config := { global := false, lint := l, sev := s }
private def flt (l : String) (s : Sev) (a b : Nat) : Filter :=
  { cfg := cfg l s, commentRange := (0, 0), range := (a, b) }

/-- overlapping (non-laminar) ranges: the machine's answer differs from `innermost covering wins` -/
example :
    let fs := [flt "x" .allow 0 10, flt "y" .allow 5 20]
    let d : Diag := { code := "y", start := 12, sev := .warning, tag := "" }
    (filterDiagnostics (fs.map .ok) none [d]).map (·.diags) ≠ some ((Spec.verdict fs none d).toList) := by
  decide

/-- nested ranges: machine = specification -/
example :
    let fs := [flt "x" .allow 0 20, flt "x" .error 5 10]
    let ds : List Diag := [{ code := "x", start := 7, sev := .warning, tag := "a" },
                           { code := "x", start := 12, sev := .warning, tag := "b" },
                           { code := "z", start := 6, sev := .warning, tag := "c" }]
    (filterDiagnostics (fs.map .ok) none ds).map (·.diags) =
      some ((sortDiags ds).filterMap (Spec.verdict fs none)) := by
  decide

/-- hypotheses of `C08_machine_checked` are met by a family with two filters on one piece, a nested piece,
    a sibling and a global filter -/
example :
    let g : Filter := { cfg := { global := true, lint := "x", sev := .warning }, commentRange := (0, 0), range := (0, 30) }
    let fs := [g, flt "x" .allow 0 20, flt "y" .error 0 20, flt "x" .error 5 10, flt "y" .allow 22 30]
    (forestOf ((filtersOf (fs.map .ok)).filter fun f => !f.cfg.global)).isSome = true ∧
      (filtersOf (fs.map RangeEntry.ok)).isEmpty = false := by
  decide

end Selene.Props.C08
