/-
C08 — inline lint filters change exactly the diagnostics they cover.
Helper lemmas: Selene/Filter/Lemmas.lean.

`C08_machine` — the full statement — is proved: for every family of accepted filters whose inline
members are the pre-order of a well-formed forest of code pieces (ranges nested or strictly apart, a
nested piece starting after the enclosing one; any depth, any breadth, any number of filters per
piece, any global filters interleaved), the push/pop machine never pops an empty stack and its output
is `Spec.verdict` mapped over the diagnostics in order of position: innermost covering filter, else
the first accepted global filter, else unchanged.  That the real `get_filter_ranges` only produces such
families is checked on every program of the run (`forestOf`, `wfb_sound`).  Also proved, for all
inputs laminar or not: diagnostics of lints no filter names are untouched; a file without accepted
filters is returned unchanged; the decision for a covered diagnostic ignores its incoming severity.
Proof files: Filter/Exec.lean (lazy replay = independent prefix executions), Filter/Forest.lean
(prefix execution leaves the enclosing filters on the stack), Filter/Build.lean (ordered insertion of
a pre-order = the structural instruction list), Filter/SpecForest.lean (innermost covering = first
match on that stack), Filter/MachineProof.lean.
-/
import Selene.Filter.Lemmas
import Selene.Filter.MachineProof
import Selene.Filter.ForestOf
namespace Selene.Props.C08
open Selene.Filter

/-- **C08 (machine = specification).** -/
theorem C08_machine (entries : List RangeEntry) (fc : Option Nat) (ds : List Diag) (F : Forest) (hi : Nat)
    (hF : (filtersOf entries).filter (fun f => !f.cfg.global) = F.filters) (hwf : F.WF 0 hi)
    (hne : (filtersOf entries).isEmpty = false) :
    (filterDiagnostics entries fc ds).map (·.diags) =
      some ((sortDiags ds).filterMap (Spec.verdict (filtersOf entries) fc)) :=
  machine_eq_spec entries fc ds F hi hF hwf hne

/-- the same with the hypothesis in its executable form (what the driver evaluates on every program) -/
theorem C08_machine_checked (entries : List RangeEntry) (fc : Option Nat) (ds : List Diag) (F : Forest)
    (h : forestOf ((filtersOf entries).filter fun f => !f.cfg.global) = some F)
    (hne : (filtersOf entries).isEmpty = false) :
    (filterDiagnostics entries fc ds).map (·.diags) =
      some ((sortDiags ds).filterMap (Spec.verdict (filtersOf entries) fc)) := by
  unfold forestOf at h
  simp only at h
  split at h
  · rename_i hc
    simp only [Bool.and_eq_true, beq_iff_eq] at hc
    injection h with h
    subst h
    exact machine_eq_spec entries fc ds _ _ hc.2.symm (Forest.wfb_sound _ _ _ hc.1.2) hne
  · simp at h

/-- **C08 (others untouched).** A diagnostic of a lint that no filter comment of the file names —
inline or global, accepted, late or conflicting — is reported exactly as without the comments,
for every family of filter ranges whatsoever. -/
theorem C08_others_untouched (entries : List RangeEntry) (firstCode : Option Nat) (ds : List Diag)
    (out : Output) (h : filterDiagnostics entries firstCode ds = some out)
    (d : Diag) (hd : d ∈ ds) (hl : ∀ f ∈ filtersOf entries, f.cfg.lint ≠ d.code) : d ∈ out.diags := by
  unfold filterDiagnostics at h
  simp only at h
  split at h
  · simp at h; subst h; exact hd
  · cases hr : runDiags (sortDiags ds) (build firstCode (filtersOf entries)).instrs.reverse [] with
    | none => rw [hr] at h; simp at h
    | some o =>
      rw [hr] at h
      simp at h; subst h
      simp only
      apply runDiags_untouched _ _ _ _ hr d ((mem_sortDiags d ds).mpr hd) (by simp)
      intro c hc
      rw [pushed_reverse] at hc
      obtain ⟨f, hf, hcf⟩ := build_configs firstCode _ c hc
      subst hcf
      exact hl f hf

/-- **C08 (no filters).** Without accepted filters the diagnostics are returned as they came. -/
theorem C08_no_filters (entries : List RangeEntry) (firstCode : Option Nat) (ds : List Diag)
    (h : filtersOf entries = []) :
    (filterDiagnostics entries firstCode ds).map (·.diags) = some ds := by
  unfold filterDiagnostics
  simp [h]

/-- the decision for a diagnostic depends on the stack only through the first configuration of
its lint ("most recent wins") -/
theorem C08_most_recent_wins (stack : List Config) (c : Config) (d : Diag) (hc : c.lint = d.code) :
    decide1 (c :: stack) d = Spec.applySev c.sev d := by
  simp [decide1, hc, Spec.applySev]

/-- entries below the first matching configuration are irrelevant: an outer filter for the same
lint never overrides an inner one -/
theorem C08_inner_shadows_outer (inner outer : List Config) (c : Config) (d : Diag)
    (hc : c.lint = d.code) (hin : ∀ x ∈ inner, x.lint ≠ d.code) :
    decide1 (inner ++ c :: outer) d = Spec.applySev c.sev d := by
  unfold decide1
  have : (inner ++ c :: outer).find? (fun x => x.lint = d.code) = some c := by
    rw [List.find?_append]
    have h1 : inner.find? (fun x => decide (x.lint = d.code)) = none := by
      apply List.find?_eq_none.mpr; intro x hx; simpa using hin x hx
    simp [h1, hc]
  simp [this, Spec.applySev]

/-! ### the two shapes that would break an anonymous `Pop` (why laminarity is needed) -/
private def cfg (l : String) (s : Sev) : Config := { global := false, lint := l, sev := s }
private def flt (l : String) (s : Sev) (a b : Nat) : Filter :=
  { cfg := cfg l s, commentRange := (0, 0), range := (a, b) }

/-- overlapping (non-laminar) ranges: the machine's answer differs from `innermost covering wins` -/
example :
    let fs := [flt "x" .allow 0 10, flt "y" .allow 5 20]
    let d : Diag := { code := "y", start := 12, sev := .warning, tag := "" }
    (filterDiagnostics (fs.map .ok) none [d]).map (·.diags) ≠ some ((Spec.verdict fs none d).toList) := by
  decide

/-- nested ranges: machine = specification -/
example :
    let fs := [flt "x" .allow 0 20, flt "x" .error 5 10]
    let ds : List Diag := [{ code := "x", start := 7, sev := .warning, tag := "a" },
                           { code := "x", start := 12, sev := .warning, tag := "b" },
                           { code := "z", start := 6, sev := .warning, tag := "c" }]
    (filterDiagnostics (fs.map .ok) none ds).map (·.diags) =
      some ((sortDiags ds).filterMap (Spec.verdict fs none)) := by
  decide

/-- hypotheses of `C08_machine_checked` are met by a family with two filters on one piece, a nested piece,
    a sibling and a global filter -/
example :
    let g : Filter := { cfg := { global := true, lint := "x", sev := .warning }, commentRange := (0, 0), range := (0, 30) }
    let fs := [g, flt "x" .allow 0 20, flt "y" .error 0 20, flt "x" .error 5 10, flt "y" .allow 22 30]
    (forestOf ((filtersOf (fs.map .ok)).filter fun f => !f.cfg.global)).isSome = true ∧
      (filtersOf (fs.map RangeEntry.ok)).isEmpty = false := by
  decide

end Selene.Props.C08
