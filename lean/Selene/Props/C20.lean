/-
C20 — every display style reports the same diagnostics, in parseable form.
-/
import Selene.Cli.Location
namespace Selene.Props.C20
open Selene.Cli

/-! ### specification of line / column, independent of the scan -/

/-- the characters that lie entirely before byte offset `b` -/
def prefixChars : List Char → Nat → List Char
  | [], _ => []
  | c :: rest, b => if utf8Width c ≤ b then c :: prefixChars rest (b - utf8Width c) else []

/-- `b` is a character boundary inside the source -/
def wfOffset (src : List Char) (b : Nat) : Prop := byteLen (prefixChars src b) = b

instance (src : List Char) (b : Nat) : Decidable (wfOffset src b) := by unfold wfOffset; infer_instance

def Spec.lineCol (src : List Char) (b : Nat) : Loc :=
  let p := prefixChars src b
  { line := p.count '\n', column := (p.reverse.takeWhile (· ≠ '\n')).length }

/-- position reached after reading `p` starting from `(line, col)` -/
def advance (p : List Char) (line col : Nat) : Nat × Nat :=
  p.foldl (fun lc c => if c = '\n' then (lc.1 + 1, 0) else (lc.1, lc.2 + 1)) (line, col)

theorem utf8Width_pos (c : Char) : 0 < utf8Width c := by
  unfold utf8Width
  split
  · omega
  · split
    · omega
    · split <;> omega

theorem scan_spec (src : List Char) (target offset line col : Nat) (hle : offset ≤ target)
    (hwf : byteLen (prefixChars src (target - offset)) = target - offset) :
    scan src target offset line col =
      .ok ⟨(advance (prefixChars src (target - offset)) line col).1,
           (advance (prefixChars src (target - offset)) line col).2⟩ := by
  induction src generalizing offset line col with
  | nil =>
    simp only [prefixChars, byteLen, List.map_nil, List.sum_nil] at hwf
    have : offset = target := by omega
    simp [scan, this, prefixChars, advance]
  | cons c rest ih =>
    simp only [scan]
    by_cases heq : offset = target
    · subst heq
      have hpos := utf8Width_pos c
      have hz : ¬ utf8Width c ≤ 0 := by omega
      simp [prefixChars, advance, Nat.sub_self, hz]
    · simp only [heq, if_false]
      have hlt : offset < target := by omega
      by_cases hw : utf8Width c ≤ target - offset
      · have hnot : ¬ (offset + utf8Width c > target) := by omega
        simp only [hnot, if_false]
        have hp : prefixChars (c :: rest) (target - offset) = c :: prefixChars rest (target - offset - utf8Width c) := by
          simp [prefixChars, hw]
        rw [hp] at hwf ⊢
        have hsub : target - offset - utf8Width c = target - (offset + utf8Width c) := by omega
        have hwf' : byteLen (prefixChars rest (target - (offset + utf8Width c))) = target - (offset + utf8Width c) := by
          simp only [byteLen, List.map_cons, List.sum_cons] at hwf
          rw [← hsub]; simp only [byteLen]; omega
        by_cases hnl : c = '\n'
        · simp only [hnl, if_true]
          rw [ih (offset + utf8Width '\n') (line + 1) 0 (by subst hnl; omega) (by subst hnl; exact hwf')]
          subst hnl
          simp [advance, hsub]
        · simp only [hnl, if_false]
          rw [ih (offset + utf8Width c) line (col + 1) (by omega) hwf']
          simp [advance, hnl, hsub]
      · -- the offset falls inside `c`: not well-formed
        have hp : prefixChars (c :: rest) (target - offset) = [] := by simp [prefixChars, hw]
        rw [hp] at hwf
        simp [byteLen] at hwf
        omega

def stepLC (lc : Nat × Nat) (c : Char) : Nat × Nat :=
  if c = '\n' then (lc.1 + 1, 0) else (lc.1, lc.2 + 1)

theorem advance_eq_foldl (p : List Char) (line col : Nat) : advance p line col = p.foldl stepLC (line, col) := rfl

theorem foldl_reverse_lc (q : List Char) (line col : Nat) :
    q.reverse.foldl stepLC (line, col) =
      (line + q.count '\n',
       if q.all (· ≠ '\n') then col + q.length else (q.takeWhile (· ≠ '\n')).length) := by
  induction q with
  | nil => simp
  | cons c q' ih =>
    rw [List.reverse_cons, List.foldl_append, ih]
    simp only [List.foldl_cons, List.foldl_nil, stepLC]
    by_cases h : c = '\n'
    · subst h
      simp [List.count_cons]; omega
    · simp [h]
      split <;> omega

theorem advance_reverse (q : List Char) (line col : Nat) :
    advance q.reverse line col =
      (line + q.count '\n',
       if q.all (· ≠ '\n') then col + q.length else (q.takeWhile (· ≠ '\n')).length) := by
  rw [advance_eq_foldl]; exact foldl_reverse_lc q line col

theorem takeWhile_of_all (q : List Char) (h : q.all (· ≠ '\n') = true) : q.takeWhile (· ≠ '\n') = q := by
  induction q with
  | nil => rfl
  | cons c rest ih =>
    simp only [List.all_cons, Bool.and_eq_true] at h
    have h1 : ¬ c = '\n' := by simpa using h.1
    have := ih h.2
    simp only [ne_eq] at this
    simp [List.takeWhile_cons, h1]
    simpa using this

/-- **C20 (location).** On every well-formed offset (a character boundary inside the source) the
scan returns the specified line and column and never fails. -/
theorem C20_location (src : List Char) (b : Nat) (h : wfOffset src b) :
    ofByte src b = .ok (Spec.lineCol src b) := by
  unfold ofByte
  rw [scan_spec src b 0 0 0 (Nat.zero_le _) (by rw [Nat.sub_zero]; exact h)]
  simp only [Nat.sub_zero, Spec.lineCol]
  have := advance_reverse (prefixChars src b).reverse 0 0
  rw [List.reverse_reverse] at this
  rw [this]
  simp only [Nat.zero_add, List.count_reverse, List.length_reverse, List.all_reverse]
  congr 1
  by_cases ha : (prefixChars src b).all (· ≠ '\n') = true
  · have hr : (prefixChars src b).reverse.all (· ≠ '\n') = true := by simpa using ha
    rw [if_pos ha, takeWhile_of_all _ hr]; simp
  · rw [if_neg ha]

/-- an offset that is not well-formed makes the location lookup fail (this is the panic site of
the json / luacheck writers: `files.location(..).unwrap()` / `.expect(..)`) -/
theorem C20_location_fails (src : List Char) (b : Nat) (l : Loc) (h : ofByte src b = .ok l) : wfOffset src b := by
  unfold ofByte at h
  unfold wfOffset
  have key : ∀ (src : List Char) (target offset line col : Nat), offset ≤ target →
      scan src target offset line col = .ok l →
      byteLen (prefixChars src (target - offset)) = target - offset := by
    intro src
    induction src with
    | nil =>
      intro target offset line col hle hs
      simp only [scan] at hs
      split at hs
      · rename_i he; subst he; simp [prefixChars, byteLen]
      · cases hs
    | cons c rest ih =>
      intro target offset line col hle hs
      simp only [scan] at hs
      split at hs
      · rename_i he; subst he
        have hp := utf8Width_pos c
        have hz : ¬ utf8Width c ≤ 0 := by omega
        simp [prefixChars, byteLen, hz]
      · split at hs
        · cases hs
        · rename_i hne hgt
          have hw : utf8Width c ≤ target - offset := by omega
          have hsub : target - offset - utf8Width c = target - (offset + utf8Width c) := by omega
          have hrec : byteLen (prefixChars rest (target - (offset + utf8Width c))) = target - (offset + utf8Width c) := by
            split at hs
            · exact ih target _ _ _ (by omega) hs
            · exact ih target _ _ _ (by omega) hs
          simp only [prefixChars, hw, if_true, byteLen, List.map_cons, List.sum_cons]
          rw [hsub]; simp only [byteLen] at hrec; omega
  simpa using key src b 0 0 0 (Nat.zero_le _) h

/-- every range a diagnostic may carry: start and end are character boundaries, start ≤ end -/
def wfRange (src : List Char) (d : Diag) : Prop := wfOffset src d.start ∧ wfOffset src d.stop ∧ d.start ≤ d.stop

/-- **C20 (same).** On a well-formed range all five styles show the same row. -/
theorem C20_same (src : List Char) (d : Diag) (h : wfRange src d) (s₁ s₂ : Style) :
    render src s₁ d = render src s₂ d := by
  have h1 := C20_location src d.start h.1
  have h2 := C20_location src d.stop h.2.1
  cases s₁ <;> cases s₂ <;> simp [render, h1, h2]

/-- **C20 (no crash).** On a well-formed range no style fails. -/
theorem C20_no_crash (src : List Char) (d : Diag) (h : wfRange src d) (s : Style) :
    ∃ row, render src s d = .ok row := by
  have h1 := C20_location src d.start h.1
  have h2 := C20_location src d.stop h.2.1
  cases s <;> simp [render, h1, h2]

/-- conversely, a range that ends inside a multi-byte character crashes exactly the styles that
look up the end position, while rich/quiet still print it -/
theorem C20_crash_split (src : List Char) (d : Diag) (h1 : wfOffset src d.start) (h2 : ¬ wfOffset src d.stop) :
    (∃ row, render src .quiet d = .ok row) ∧ (∀ row, render src .json d ≠ .ok row) := by
  have hs := C20_location src d.start h1
  refine ⟨by simp [render, hs], ?_⟩
  intro row hr
  simp only [render, hs] at hr
  cases hstop : ofByte src d.stop with
  | error e => rw [hstop] at hr; cases hr
  | ok l => exact h2 (C20_location_fails src d.stop l hstop)

/-! ### non-vacuity -/
deriving instance DecidableEq for Except

private def demoSrc : List Char := "a = 1\nprint(\"é\")\n".toList
example : wfOffset demoSrc 13 ∧ ¬ wfOffset demoSrc 14 ∧ wfOffset demoSrc 15 := by decide
example : ofByte demoSrc 13 = .ok ⟨1, 7⟩ := by decide
example : ofByte demoSrc 14 = .error .invalidCharBoundary := by decide
example : ofByte demoSrc 100 = .error .indexTooLarge := by decide

end Selene.Props.C20
