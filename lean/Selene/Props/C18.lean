/-
C18 — multi-threaded runs report the same results as a sequential run.
-/
import Selene.Cli.Pool
namespace Selene.Props.C18
open Selene.Cli

/-! ### totals: `fetch_add` commutes -/

theorem bump_comm (c : Counts) (a b : Ctr × Nat) :
    (c.bump a.1 a.2).bump b.1 b.2 = (c.bump b.1 b.2).bump a.1 a.2 := by
  obtain ⟨ca, na⟩ := a; obtain ⟨cb, nb⟩ := b
  cases ca <;> cases cb <;> simp [Counts.bump] <;> omega

theorem foldl_bump_perm {l₁ l₂ : List (Ctr × Nat)} (h : l₁.Perm l₂) (init : Counts) :
    l₁.foldl (fun acc cn => acc.bump cn.1 cn.2) init = l₂.foldl (fun acc cn => acc.bump cn.1 cn.2) init := by
  induction h generalizing init with
  | nil => rfl
  | cons x _ ih => exact ih _
  | swap x y l => simp only [List.foldl_cons]; rw [bump_comm]
  | trans _ _ ih1 ih2 => exact (ih1 init).trans (ih2 init)

/-- **C18 (totals).** Whatever order the workers' counter updates are interleaved in, the totals
are the same: any permutation of the additions (a superset of the schedules any thread count can
produce) yields the same counters — hence the same as the sequential run. -/
theorem C18_totals {l₁ l₂ : List (Ctr × Nat)} (h : l₁.Perm l₂) : sumAdds l₁ = sumAdds l₂ :=
  foldl_bump_perm h {}

theorem step_counts (st st' : PoolSt) (e : Ev) (h : step st e = .ok st') :
    (addsOf [e]).foldl (fun acc cn => acc.bump cn.1 cn.2) st.counts = st'.counts := by
  cases e with
  | add t c n => simp [step] at h; subst h; simp [addsOf]
  | jobStart t f => simp only [step] at h; split at h <;> simp at h; subst h; simp [addsOf]
  | jobEnd t =>
    simp only [step] at h
    split at h
    · simp at h
    · split at h <;> simp at h; subst h; simp [addsOf]
  | lock t =>
    simp only [step] at h
    split at h <;> simp at h; subst h; simp [addsOf]
  | unlock t => simp only [step] at h; split at h <;> simp at h; subst h; simp [addsOf]
  | emit t c p => simp only [step] at h; split at h <;> simp at h; subst h; simp [addsOf]
  | totals p e w =>
    simp only [step] at h
    split at h
    · simp at h
    · split at h
      · simp at h
      · split at h <;> simp at h; subst h; simp [addsOf]

theorem addsOf_cons (e : Ev) (rest : List Ev) : addsOf (e :: rest) = addsOf [e] ++ addsOf rest := by
  cases e <;> simp [addsOf]

/-- the counters of an accepted trace are the sum of its additions -/
theorem run_counts (evs : List Ev) (st st' : PoolSt) (h : run st evs = .ok st') :
    st'.counts = (addsOf evs).foldl (fun acc cn => acc.bump cn.1 cn.2) st.counts := by
  induction evs generalizing st with
  | nil => simp [run] at h; subst h; simp [addsOf]
  | cons e rest ih =>
    simp only [run] at h
    cases hs : step st e with
    | error m => rw [hs] at h; simp at h
    | ok st1 =>
      rw [hs] at h
      rw [ih st1 h, addsOf_cons, List.foldl_append, step_counts st st1 e hs]

/-- **C18 (summary).** In an accepted trace the summary line carries exactly the sum of all
additions made by all workers. -/
theorem C18_summary (evs : List Ev) (st' : PoolSt) (h : run {} evs = .ok st') :
    st'.counts = sumAdds (addsOf evs) := run_counts evs {} st' h

/-- **C18 (exit).** The exit status is a function of the totals only, hence identical for every
interleaving of the same jobs. -/
theorem C18_exit {l₁ l₂ : List (Ctr × Nat)} (h : l₁.Perm l₂) (panics : Nat) (aw : Bool) :
    exitCode (sumAdds l₁) 0 panics aw = exitCode (sumAdds l₂) 0 panics aw := by
  rw [C18_totals h]

/-! ### stdout: accepted traces are concatenations of single-thread blocks -/

def blockEmits (bs : List Block) : List Emit := bs.flatMap (·.emits)

theorem emitsOf_cons (e : Ev) (rest : List Ev) : emitsOf (e :: rest) = emitsOf [e] ++ emitsOf rest := by
  cases e <;> simp [emitsOf]

theorem step_output (st st' : PoolSt) (e : Ev) (h : step st e = .ok st') :
    blockEmits st'.blocks ++ st'.cur = blockEmits st.blocks ++ st.cur ++ emitsOf [e] := by
  cases e with
  | add t c n => simp [step] at h; subst h; simp [emitsOf]
  | jobStart t f => simp only [step] at h; split at h <;> simp at h; subst h; simp [emitsOf]
  | jobEnd t =>
    simp only [step] at h
    split at h
    · simp at h
    · split at h <;> simp at h; subst h; simp [emitsOf]
  | lock t => simp only [step] at h; split at h <;> simp at h; subst h; simp [emitsOf]
  | unlock t =>
    simp only [step] at h; split at h <;> simp at h; subst h
    simp [emitsOf, blockEmits]
  | emit t c p => simp only [step] at h; split at h <;> simp at h; subst h; simp [emitsOf]
  | totals p e w =>
    simp only [step] at h
    split at h
    · simp at h
    · split at h
      · simp at h
      · split at h <;> simp at h; subst h; simp [emitsOf]

/-- **C18 (blocks).** Everything an accepted run writes to stdout is the concatenation, in order,
of the closed lock spans (plus the span still open): no write falls outside a span, spans do not
overlap, and a span contains the writes of one thread only. -/
theorem C18_blocks (evs : List Ev) (st st' : PoolSt) (h : run st evs = .ok st') :
    blockEmits st'.blocks ++ st'.cur = blockEmits st.blocks ++ st.cur ++ emitsOf evs := by
  induction evs generalizing st with
  | nil => simp [run] at h; subst h; simp [emitsOf]
  | cons e rest ih =>
    simp only [run] at h
    cases hs : step st e with
    | error m => rw [hs] at h; simp at h
    | ok st1 =>
      rw [hs] at h
      rw [emitsOf_cons e rest, ih st1 h, step_output st st1 e hs]
      simp [List.append_assoc]

/-- every write of a span carries the span's thread -/
def spanPure (st : PoolSt) : Prop :=
  (∀ b ∈ st.blocks, ∀ e ∈ b.emits, e.tid = b.tid) ∧
  (∀ e ∈ st.cur, st.holder = some e.tid) ∧ (st.holder = none → st.cur = [])

theorem step_pure (st st' : PoolSt) (e : Ev) (h : step st e = .ok st') (hp : spanPure st) : spanPure st' := by
  obtain ⟨h1, h2, h3⟩ := hp
  cases e with
  | add t c n => simp [step] at h; subst h; exact ⟨h1, h2, h3⟩
  | jobStart t f => simp only [step] at h; split at h <;> simp at h; subst h; exact ⟨h1, h2, h3⟩
  | jobEnd t =>
    simp only [step] at h
    split at h
    · simp at h
    · split at h <;> simp at h; subst h; exact ⟨h1, h2, h3⟩
  | lock t =>
    simp only [step] at h
    split at h
    · simp at h
    · rename_i hn
      simp at h; subst h
      have hc := h3 hn
      refine ⟨h1, ?_, ?_⟩
      · intro e he; simp [hc] at he
      · intro hh; simp at hh
  | unlock t =>
    simp only [step] at h
    split at h
    · rename_i hh
      simp at h; subst h
      refine ⟨?_, by simp, by simp⟩
      intro b hb e he
      simp only [List.mem_append, List.mem_singleton] at hb
      rcases hb with hb | hb
      · exact h1 b hb e he
      · subst hb
        have := h2 e he
        rw [hh] at this; simpa using this.symm
    · simp at h
  | emit t c p =>
    simp only [step] at h
    split at h
    · rename_i hh
      simp at h; subst h
      refine ⟨h1, ?_, ?_⟩
      · intro e he
        simp only [List.mem_append, List.mem_singleton] at he
        rcases he with he | he
        · exact h2 e he
        · subst he; exact hh
      · intro hn; simp [hh] at hn
    · simp at h
  | totals p e w =>
    simp only [step] at h
    split at h
    · simp at h
    · split at h
      · simp at h
      · split at h <;> simp at h; subst h; exact ⟨h1, h2, h3⟩

theorem C18_span_single_thread (evs : List Ev) (st st' : PoolSt) (h : run st evs = .ok st')
    (hp : spanPure st) : spanPure st' := by
  induction evs generalizing st with
  | nil => simp [run] at h; subst h; exact hp
  | cons e rest ih =>
    simp only [run] at h
    cases hs : step st e with
    | error m => rw [hs] at h; simp at h
    | ok st1 => rw [hs] at h; exact ih st1 h (step_pure st st1 e hs hp)

/-! ### non-vacuity: a two-thread trace the model accepts, and two it rejects -/
private def good : List Ev :=
  [.jobStart "T1" "a.lua", .jobStart "T2" "b.lua", .add "T2" .warnings 1, .add "T1" .errors 2,
   .lock "T2", .emit "T2" "unused_variable" 6, .unlock "T2", .lock "T1", .emit "T1" "undefined_variable" 0,
   .emit "T1" "undefined_variable" 9, .unlock "T1", .jobEnd "T1", .jobEnd "T2", .totals 0 2 1]

example : (match run {} good with | .ok st => blocksOk st.blocks && st.totalsSeen | .error _ => false) = true := by
  decide
example : (match run {} [.jobStart "T1" "a.lua", .lock "T1", .jobStart "T2" "b.lua", .lock "T2"] with
    | .ok _ => true | .error _ => false) = false := by decide
example : (match run {} [.jobStart "T1" "a.lua", .emit "T1" "x" 0] with
    | .ok _ => true | .error _ => false) = false := by decide
/-- releasing the lock between two lint diagnostics of one file is caught structurally -/
example : (match run {} [.jobStart "T1" "a.lua", .lock "T1", .emit "T1" "x" 0, .unlock "T1", .lock "T1",
      .emit "T1" "y" 5, .unlock "T1", .jobEnd "T1"] with
    | .ok st => blocksOk st.blocks | .error _ => false) = false := by decide

end Selene.Props.C18
