/-
C14 — diagnostics do not depend on how script-chosen names are spelled.

Full statement (DESIGN §4 C14): for an injective renaming ρ of script-introduced names that keeps
ignore-pattern status and avoids library segments, special names and string literals,
`diags (rename ρ t) = (diags t).map (renameMsg ρ)` in token space.

Proved here: `C14_resolution_invariant` — for every chunk and every injective renaming ρ of identifiers
that fixes `...` and `self`, the scope-stack machine of `Scope/Core.lean` records for the renamed chunk
exactly the same (read token, declaration token) answers as for the original: which declaration a
read denotes never depends on how names are spelled (a fresh-name renaming of some locals is the
restriction of such a ρ — swap each old name with its unused new one).  The proof goes through the
ordered specification (`Scope/RenameProof.lean`: every environment lookup is an equality test on
names, which ρ preserves; 30 mutual lemmas) and `CoreProof.analyse_eq`.  What the lints add on top of
the resolution — library lookups by name, the ignore pattern, message texts — is where the
property's side conditions come from; that part is checked on the real code by the twin runs
(program vs renamed twin, including renamings to very long names).  The lemmas about the
source-order resolver (`lookup_rename` …) are kept below.
-/
import Selene.Scope.Spec
import Selene.Scope.RenameProof
import Selene.Scope.CoreProof
import Selene.Scope.ManualTableCloneRename
import Selene.Generated.SpecialNames
import Selene.Lints.RoactRename
namespace Selene.Props.C14
open Selene.Scope.Spec

/-- **C14 (resolution and shadowing are spelling-independent).** For every chunk, every name filter and
every injective renaming ρ of identifiers that fixes `...` and `self` and keeps every name on its side
of the filter (the property's "does not match an ignore pattern before or after"), the machine's whole
log — every read with the declaration it denotes, every kept declaration with the declaration it
shadows — is the same for the renamed chunk. -/
theorem C14_log_invariant [Selene.Scope.Core.NameFilter] (ρ : String → String)
    (hρ : Selene.Scope.RenameProof.Renaming ρ) (b : Selene.Lua.Block) :
    (Selene.Scope.Core.analyse (b.ren ρ)).log = (Selene.Scope.Core.analyse b).log := by
  rw [Selene.Scope.CoreProof.analyse_eq, Selene.Scope.CoreProof.analyse_eq, Selene.Scope.RenameProof.chunk_ren hρ]

theorem C14_resolution_invariant [Selene.Scope.Core.NameFilter] (ρ : String → String)
    (hρ : Selene.Scope.RenameProof.Renaming ρ) (b : Selene.Lua.Block) :
    (Selene.Scope.Core.analyse (b.ren ρ)).answers = (Selene.Scope.Core.analyse b).answers := by
  rw [← Selene.Scope.CoreProof.log_answers, ← Selene.Scope.CoreProof.log_answers, C14_log_invariant ρ hρ b]

theorem C14_shadowing_invariant [Selene.Scope.Core.NameFilter] (ρ : String → String)
    (hρ : Selene.Scope.RenameProof.Renaming ρ) (b : Selene.Lua.Block) :
    (Selene.Scope.Core.analyse (b.ren ρ)).shadows = (Selene.Scope.Core.analyse b).shadows := by
  rw [← Selene.Scope.CoreProof.log_shadows, ← Selene.Scope.CoreProof.log_shadows, C14_log_invariant ρ hρ b]

/-- hypotheses are satisfiable by a renaming that is not the identity: swap `x` and `fresh` (under a
    filter that drops `_` and `...`) -/
def underscoreFilter : Selene.Scope.Core.NameFilter := { keep := fun n => n != "_" && n != "..." }
example : @Selene.Scope.RenameProof.Renaming underscoreFilter
    (fun n => if n = "x" then "fresh" else if n = "fresh" then "x" else n) := by
  refine @Selene.Scope.RenameProof.Renaming.mk underscoreFilter _ ?_ (by decide) (by decide) ?_ (fun _ => rfl) (fun _ => rfl)
  · intro a b h
    by_cases ha : a = "x" <;> by_cases hb : b = "x" <;> by_cases ha' : a = "fresh" <;> by_cases hb' : b = "fresh" <;>
      simp_all
  · intro n
    show ((if n = "x" then "fresh" else if n = "fresh" then "x" else n) != "_" &&
        (if n = "x" then "fresh" else if n = "fresh" then "x" else n) != "...") = (n != "_" && n != "...")
    by_cases h1 : n = "x"
    · subst h1; decide
    · by_cases h2 : n = "fresh"
      · subst h2; decide
      · simp [h1, h2]

def renameEnv (ρ : String → String) (env : Env) : Env := env.map fun e => (ρ e.1, e.2)

/-- **lookup commutes with renaming.** If ρ is injective on the names bound in the environment
together with the queried name, looking the renamed name up in the renamed environment gives the
same declaration. -/
theorem lookup_rename (ρ : String → String) (env : Env) (n : String)
    (hinj : ∀ e ∈ env, ρ e.1 = ρ n → e.1 = n) :
    (renameEnv ρ env).lookup (ρ n) = env.lookup n := by
  unfold Env.lookup renameEnv
  induction env with
  | nil => rfl
  | cons e rest ih =>
    simp only [List.map_cons, List.find?_cons]
    by_cases h : e.1 = n
    · simp [h]
    · have h' : ¬ ρ e.1 = ρ n := fun he => h (hinj e (by simp) he)
      simp only [h, h', decide_false]
      exact ih (fun x hx => hinj x (by simp [hx]))

/-- a fresh name (not bound anywhere in the environment) is unbound after renaming as before -/
theorem lookup_rename_fresh (ρ : String → String) (env : Env) (n : String)
    (hinj : ∀ e ∈ env, ρ e.1 = ρ n → e.1 = n) (h : env.lookup n = none) :
    (renameEnv ρ env).lookup (ρ n) = none := by
  rw [lookup_rename ρ env n hinj]; exact h

/-! ### a lint whose trigger mentions names: manual_table_clone -/

open Selene.Scope.ManualTableClone in
/-- **C14 (manual_table_clone: only `pairs`, `ipairs`, `next` are special).** For every generic `for` loop and every
injective renaming that leaves these three spellings alone, the renamed loop has the shape the lint looks for exactly
when the original has — with the same loop type (which decides the `ipairs` note), the renamed loop expression (quoted in
the note) and the renamed table.  A name that merely *ends* in `pairs` is a script-chosen name like any other. -/
theorem C14_clone_shape_invariant {ρ : String → String} (h : Respectful ρ)
    (names : List Selene.Lua.Tok) (es : Selene.Lua.ExprList) (b : Selene.Lua.Block) :
    shape (names.map (Selene.Lua.Tok.ren ρ)) (es.ren ρ) (b.ren ρ) =
      (shape names es b).map fun p => (p.1, p.2.1.ren ρ, p.2.2.ren ρ) :=
  shape_ren h names es b

/-- the hypothesis is satisfiable by a renaming that is not the identity … -/
example : Selene.Scope.ManualTableClone.Respectful (fun n => if n = "spairs" then "walked" else if n = "walked" then "spairs" else n) := by
  refine ⟨?_, by decide, by decide, by decide⟩
  intro a b h
  by_cases ha : a = "spairs" <;> by_cases hb : b = "spairs" <;> by_cases ha' : a = "walked" <;> by_cases hb' : b = "walked" <;>
    simp_all

open Selene.Lua Selene.Scope.ManualTableClone in
/-- … and the loop of the seeded defect (`for name, score in spairs(scores, descending) do copy[name] = score end`) has the
shape — looping over the whole call, not through `pairs` — whatever the iterator is called -/
example :
    let loop := fun (f : String) =>
      shape [⟨1, "name"⟩, ⟨3, "score"⟩]
        (.cons (.call (.mk ⟨5, 10⟩ (.name ⟨5, f⟩) (.cons (.args ⟨6, 10⟩ (.parens ⟨6, 10⟩
          (.cons (.var (.name ⟨7, "scores"⟩)) (.cons (.var (.name ⟨9, "descending"⟩)) .nil)))) .nil))) .nil)
        (.mk (some ⟨12, 17⟩) (.cons (.assign ⟨12, 17⟩
          (.cons (.expr ⟨12, 15⟩ (.name ⟨12, "copy"⟩) (.cons (.idx ⟨13, 15⟩ (.var (.name ⟨14, "name"⟩))) .nil)) .nil)
          (.cons (.var (.name ⟨17, "score"⟩)) .nil)) .nil) .none)
    ((loop "spairs").map fun p => (p.1, p.2.2.text)) = some (.other, "copy") ∧
    ((loop "walked").map fun p => (p.1, p.2.2.text)) = some (.other, "copy") ∧
    (loop "pairs").isNone := by
  decide

/-! ### a lint that remembers variable names: roblox_incorrect_roact_usage -/

/-- **C14 (roblox_incorrect_roact_usage: only `Roact` and `React` are special).** For every chunk, every class table and every
injective renaming of variables that leaves these two spellings alone, the lint makes the same reports — same places, same
messages, same order — on the renamed chunk; the locals that stand for `createElement` (`local e = Roact.createElement`)
may be called anything.  (The note of the `Name` report quotes source text and so mentions the new names; the end of an
event report's range is found by bracket matching over the token texts, which renaming does not touch.) -/
theorem C14_roact_reports_invariant {ρ : String → String} (h : Selene.Lints.Roact.Respectful ρ) (enabled : Bool)
    (toks toks' : List String) (cs : Selene.Std.Roblox.Classes) (b : Selene.Lua.Block) :
    (Selene.Lints.Roact.run enabled toks' cs (b.ren ρ)).map Selene.Lints.Roact.Diag.core =
      (Selene.Lints.Roact.run enabled toks cs b).map Selene.Lints.Roact.Diag.core :=
  Selene.Lints.Roact.run_ren h enabled toks toks' cs b

example : Selene.Lints.Roact.Respectful (fun n => if n = "e" then "zq1v" else if n = "zq1v" then "e" else n) := by
  refine ⟨?_, by decide, by decide⟩
  intro a b h
  by_cases ha : a = "e" <;> by_cases hb : b = "e" <;> by_cases ha' : a = "zq1v" <;> by_cases hb' : b = "zq1v" <;> simp_all

/-! ### "the few names lints treat specially", read off the source on every run -/

/-- **C14 (the special spellings are these).** `tools/translate.py` collects, from every lint's source file and the helpers
lints share, the string literals that names are compared with (`== "x"`, match arms, `[..].contains`); the table is
regenerated on every run and must be this one.  A change that makes another spelling special — or special in another way than
by such a comparison — shows up here or in the twin runs.  Identifier spellings among them: `_G`, `shared` (global_usage);
`pairs`, `ipairs`, `next` (manual_table_clone: `C14_clone_shape_invariant`); `Roact`, `React`, `createElement`, `Event`, `Name`,
`ref`, `key`, `children` (roblox_incorrect_roact_usage: `Lints/Roact.lean`); `Color3`, `UDim2`, `new` (the Roblox constructor
lints); `type`, `typeof` (type_check_inside_call); `...` (shadowing); `game`, `plugin`, `script`, `workspace` (the
"found in the roblox standard library" note).  The rest are characters of escape sequences, `*` and `nil`. -/
theorem C14_special_spellings :
    Selene.Generated.specialNames = [
      ("lints/bad_string_escape.rs", ["", "'", "0", "1", "2", "3", "4", "5", "6", "7", "8", "9", "a", "b", "f", "n", "r", "t", "u{", "v", "x", "z"]),
      ("lints/deprecated.rs", ["*", "nil"]),
      ("lints/global_usage.rs", ["_G", "shared"]),
      ("lints/manual_table_clone.rs", ["ipairs", "manual_table_clone", "next", "pairs"]),
      ("lints/roblox_incorrect_color3_new_bounds.rs", ["Color3", "new"]),
      ("lints/roblox_incorrect_roact_usage.rs", ["Event", "Name", "React", "Roact", "children", "createElement", "key", "ref"]),
      ("lints/roblox_manual_fromscale_or_fromoffset.rs", ["UDim2", "new"]),
      ("lints/roblox_suspicious_udim2_new.rs", ["UDim2", "new"]),
      ("lints/shadowing.rs", ["..."]),
      ("ast_util/mod.rs", ["type", "typeof"]),
      ("possible_std.rs", ["game", "plugin", "script", "workspace"])] := rfl

/-- declaring under the renamed name is the renaming of declaring under the old one -/
theorem declare_rename (ρ : String → String) (env : Env) (t : Nat) (name : String) (k : DeclKind) :
    renameEnv ρ ((name, some (t, k)) :: env) = (ρ name, some (t, k)) :: renameEnv ρ env := rfl

/-! ### non-vacuity -/
example :
    let ρ : String → String := fun s => if s = "a" then "zq1_a_very_long_fresh_identifier_name_beyond_32" else s
    let env : Env := [("a", some (3, .local_)), ("b", some (1, .param))]
    (renameEnv ρ env).lookup (ρ "a") = some (3, .local_) ∧ (renameEnv ρ env).lookup (ρ "b") = some (1, .param) := by
  decide

end Selene.Props.C14
