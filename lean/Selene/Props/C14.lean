/-
C14 — diagnostics do not depend on how script-chosen names are spelled.

Full statement (DESIGN §4 C14): for an injective renaming ρ of script-introduced names that keeps
ignore-pattern status and avoids library segments, special names and string literals,
`diags (rename ρ t) = (diags t).map (renameMsg ρ)` in token space.  STATUS: the simulation proof over
the scope model is pending; proved here are the lemmas it rests on — every name-keyed operation of
the specification resolver is an equality test between variable names, which an injective renaming
preserves.  The correspondence run checks the full statement on the real code (program vs renamed
twin, including renamings to very long names).
-/
import Selene.Scope.Spec
namespace Selene.Props.C14
open Selene.Scope.Spec

def renameEnv (ρ : String → String) (env : Env) : Env := env.map fun e => (ρ e.1, e.2)

/-- **lookup commutes with renaming.** If ρ is injective on the names bound in the environment
together with the queried name, looking the renamed name up in the renamed environment gives the
same declaration. -/
theorem lookup_rename (ρ : String → String) (env : Env) (n : String)
    (hinj : ∀ e ∈ env, ρ e.1 = ρ n → e.1 = n) :
    (renameEnv ρ env).lookup (ρ n) = env.lookup n := by
  unfold Env.lookup renameEnv
  induction env with
  | nil => rfl
  | cons e rest ih =>
    simp only [List.map_cons, List.find?_cons]
    by_cases h : e.1 = n
    · simp [h]
    · have h' : ¬ ρ e.1 = ρ n := fun he => h (hinj e (by simp) he)
      simp only [h, h', decide_false]
      exact ih (fun x hx => hinj x (by simp [hx]))

/-- a fresh name (not bound anywhere in the environment) is unbound after renaming as before -/
theorem lookup_rename_fresh (ρ : String → String) (env : Env) (n : String)
    (hinj : ∀ e ∈ env, ρ e.1 = ρ n → e.1 = n) (h : env.lookup n = none) :
    (renameEnv ρ env).lookup (ρ n) = none := by
  rw [lookup_rename ρ env n hinj]; exact h

/-- declaring under the renamed name is the renaming of declaring under the old one -/
theorem declare_rename (ρ : String → String) (env : Env) (t : Nat) (name : String) (k : DeclKind) :
    renameEnv ρ ((name, some (t, k)) :: env) = (ρ name, some (t, k)) :: renameEnv ρ env := rfl

/-! ### non-vacuity -/
example :
    let ρ : String → String := fun s => if s = "a" then "zq1_a_very_long_fresh_identifier_name_beyond_32" else s
    let env : Env := [("a", some (3, .local_)), ("b", some (1, .param))]
    (renameEnv ρ env).lookup (ρ "a") = some (3, .local_) ∧ (renameEnv ρ env).lookup (ρ "b") = some (1, .param) := by
  decide

end Selene.Props.C14
