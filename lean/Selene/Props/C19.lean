/-
C19 — exit status is zero exactly when nothing was reported.
-/
import Selene.Cli.Exit
namespace Selene.Props.C19
open Selene.Cli

/-- **C19 (exit).** Exit status 0 iff no error, parse error, missing/unreadable file (counted as
errors), library error or crashed worker — and no warning unless `--allow-warnings`. -/
theorem C19_exit (c : Counts) (std panics : Nat) (aw : Bool) :
    exitCode c std panics aw = 0 ↔
      (c.errors = 0 ∧ c.parse = 0 ∧ std = 0 ∧ panics = 0) ∧ (c.warnings = 0 ∨ aw = true) := by
  unfold exitCode
  simp only
  by_cases h : c.parse + c.errors + c.warnings + std + panics > 0
  · simp only [h, if_true]
    by_cases h2 : c.parse + c.errors + c.warnings + std + panics ≠ c.warnings
    · have h2' : ¬ (c.parse + c.errors + c.warnings + std + panics = c.warnings) := h2
      simp only [ne_eq, h2', not_false_eq_true, decide_true, Bool.true_or, if_true]
      constructor
      · intro h0; cases h0
      · rintro ⟨⟨a, b, c', d⟩, _⟩; omega
    · have h2' : c.parse + c.errors + c.warnings + std + panics = c.warnings := by
        simpa using h2
      cases aw with
      | false =>
        simp only [ne_eq, h2', not_true_eq_false, decide_false, Bool.not_false, Bool.or_true, if_true]
        constructor
        · intro h0; cases h0
        · rintro ⟨_, hw | hw⟩
          · omega
          · cases hw
      | true =>
        simp only [ne_eq, h2', not_true_eq_false, decide_false, Bool.not_true, Bool.or_false]
        constructor
        · intro _; exact ⟨⟨by omega, by omega, by omega, by omega⟩, by simp⟩
        · intro _; simp
  · simp only [h, if_false]
    constructor
    · intro _; exact ⟨⟨by omega, by omega, by omega, by omega⟩, Or.inl (by omega)⟩
    · intro _; trivial

theorem exit_le_one (c : Counts) (std panics : Nat) (aw : Bool) : exitCode c std panics aw ≤ 1 := by
  unfold exitCode; simp only; split
  · split <;> omega
  · omega

/-! ### totals -/

theorem foldl_add_parse (fs : List FileOutcome) (acc : Counts) :
    (fs.foldl (fun acc f => acc.add f.counts) acc).parse = acc.parse + (fs.map (·.counts.parse)).sum ∧
    (fs.foldl (fun acc f => acc.add f.counts) acc).errors = acc.errors + (fs.map (·.counts.errors)).sum ∧
    (fs.foldl (fun acc f => acc.add f.counts) acc).warnings = acc.warnings + (fs.map (·.counts.warnings)).sum := by
  induction fs generalizing acc with
  | nil => simp
  | cons f rest ih =>
    simp only [List.foldl_cons, List.map_cons, List.sum_cons]
    obtain ⟨a, b, c⟩ := ih (acc.add f.counts)
    rw [a, b, c]
    simp only [Counts.add]
    exact ⟨by omega, by omega, by omega⟩

def isFailedToOpen : FileOutcome → Bool
  | .missing => true
  | .unreadable => true
  | _ => false

theorem countSev_printed (s : Sev) (hs : s ≠ .allow) (sevs : List Sev) :
    countSev s (sevs.filter (· ≠ .allow)) = countSev s sevs := by
  unfold countSev
  rw [List.filter_filter]
  congr 1
  apply List.filter_congr
  intro x _
  by_cases hx : x = s
  · subst hx; simp [hs]
  · simp [hx]

/-- **C19 (totals).** The printed totals equal the number of diagnostics printed with each
severity, plus one error per file that could not be opened / read; parse errors are the sum of
the per-file parse errors. -/
theorem C19_totals (fs : List FileOutcome) :
    (total fs).errors = (fs.map fun f => countSev .error f.printed + (if isFailedToOpen f then 1 else 0)).sum ∧
    (total fs).warnings = (fs.map fun f => countSev .warning f.printed).sum ∧
    (total fs).parse = (fs.map fun f => match f with | .parseErrors n => n | _ => 0).sum := by
  unfold total
  obtain ⟨hp, he, hw⟩ := foldl_add_parse fs {}
  rw [hp, he, hw]
  refine ⟨?_, ?_, ?_⟩
  · simp only [Nat.zero_add]
    congr 1; apply List.map_congr_left; intro f _
    cases f with
    | linted sevs =>
      simp only [FileOutcome.counts, FileOutcome.printed, isFailedToOpen]
      rw [countSev_printed _ (by decide)]; simp
    | _ => simp [FileOutcome.counts, FileOutcome.printed, isFailedToOpen, countSev]
  · simp only [Nat.zero_add]
    congr 1; apply List.map_congr_left; intro f _
    cases f with
    | linted sevs =>
      simp only [FileOutcome.counts, FileOutcome.printed]
      rw [countSev_printed _ (by decide)]
    | _ => simp [FileOutcome.counts, FileOutcome.printed, countSev]
  · simp only [Nat.zero_add]
    congr 1; apply List.map_congr_left; intro f _
    cases f <;> simp [FileOutcome.counts]

/-- a lint set to `allow` (all of its diagnostics carry `allow`) changes neither counts nor exit -/
theorem C19_allow_silent (sevs : List Sev) :
    (FileOutcome.linted sevs).counts = (FileOutcome.linted (sevs.filter (· ≠ .allow))).counts := by
  simp only [FileOutcome.counts]
  rw [countSev_printed _ (by decide), countSev_printed _ (by decide)]

/-- **C19 (exclude).** Files matched by `exclude` are not checked unless `--no-exclude`; files that
are not matched are always checked. -/
theorem C19_exclude (listed : List File) (noExclude : Bool) (f : File) (hf : f ∈ listed)
    (hm : f.outcome ≠ .missing) :
    f ∈ checked listed noExclude ↔ (noExclude = true ∨ f.excludedByPattern = false) := by
  unfold checked
  simp only [List.mem_filter, hf, true_and]
  cases ho : f.outcome with
  | missing => exact absurd ho hm
  | unreadable => simp
  | parseErrors n => simp
  | linted s => simp

theorem C19_no_exclude_checks_all (listed : List File) : checked listed true = listed := by
  unfold checked
  apply List.filter_eq_self.mpr
  intro f _; cases f.outcome <;> simp

/-! ### non-vacuity -/
example : exitCode { warnings := 2 } 0 0 true = 0 := by decide
example : exitCode { warnings := 2 } 0 0 false = 1 := by decide
example : exitCode { warnings := 2 } 0 1 true = 1 := by decide   -- a crashed worker is never excused
example : exitCode { warnings := 2, errors := 1 } 0 0 true = 1 := by decide
example : (runCli [{ path := "a", excludedByPattern := true, outcome := .linted [.error] },
                   { path := "b", excludedByPattern := false, outcome := .linted [.warning, .allow] }]
            { allowWarnings := true }).exit = 0 := by decide

end Selene.Props.C19
