/-
C06 — standard-library name lookup follows the documented resolution rules.
Helper lemmas: Selene/Std/TrieLemmas.lean, Selene/Std/FindSpec.lean.
-/
import Selene.Std.ProgCall
import Selene.Std.FindSpec
import Selene.Std.Access
namespace Selene.Props.C06
open Selene.Std

/-- keys come from `split('.')`, which never returns an empty list -/
def WF (l : SegLib) : Prop := KeysNonempty l.globals ∧ ∀ kv ∈ l.structs, KeysNonempty kv.2

/-- **C06 (lookup).** For every library and every query path, the tree-based `find_global`
returns exactly what the documented resolution rules (explicit entry; otherwise segment walk with
explicit-before-`*`, struct switch, `any` short-circuit, implicit read-only prefixes) prescribe. -/
theorem C06_find (l : SegLib) (h : WF l) (names : Path) : findGlobal l names = Doc.lookup l names := by
  unfold findGlobal Doc.lookup
  cases names with
  | nil => rfl
  | cons n rest =>
    simp only
    cases l.globals.get (n :: rest) with
    | some f => rfl
    | none => exact walkTree_eq l.structs h.2 (n :: rest) l.globals [] _ (Sub.root _) h.1

/-- `global_has_fields` holds exactly when some defined key starts with that root segment -/
theorem C06_has_fields (l : SegLib) (h : WF l) (n : String) :
    globalHasFields l n = hasPrefix l.globals [n] := by
  unfold globalHasFields
  have := getKV_spec l.globals [] (extractIntoTree l.globals) n (Sub.root _) h.1
  cases hg : getKV (extractIntoTree l.globals) n with
  | none => rw [hg] at this; simpa using this.symm
  | some nd => rw [hg] at this; simpa using this.1.symm

/-- a root that has fields is always found (so the `assert!(!name_path.is_empty())` in
`lint_invalid_field_access` is unreachable: a one-segment path never gets there) -/
theorem C06_has_fields_find (l : SegLib) (h : WF l) (n : String) (hf : globalHasFields l n = true) :
    ∃ f, findGlobal l [n] = .found f := by
  rw [C06_find l h]
  unfold Doc.lookup
  simp only
  cases hg : l.globals.get [n] with
  | some f => exact ⟨f, rfl⟩
  | none =>
    rw [C06_has_fields l h] at hf
    have : Doc.choose l.globals [] n = some n := by simp [Doc.choose, hf]
    refine ⟨Doc.fieldAtPath l.globals ([] ++ [n]), ?_⟩
    simp [Doc.walk, this]

def structRefOk (structs : List (String × SegMap)) (f : Field) : Bool :=
  match f.kind with
  | .struct s => (getKV structs s).isSome
  | _ => true

/-- every `struct:` field names a defined struct -/
def structsClosed (l : SegLib) : Prop :=
  (∀ kf ∈ l.globals, structRefOk l.structs kf.2 = true) ∧
  (∀ kv ∈ l.structs, ∀ kf ∈ kv.2, structRefOk l.structs kf.2 = true)

instance (l : SegLib) : Decidable (structsClosed l) := by unfold structsClosed; infer_instance
instance (m : SegMap) : Decidable (KeysNonempty m) := by unfold KeysNonempty; infer_instance
instance (l : SegLib) : Decidable (WF l) := by unfold WF; infer_instance

theorem get_mem {m : SegMap} {q : Path} {f : Field} (h : m.get q = some f) : (q, f) ∈ m := by
  unfold SegMap.get at h
  cases hf : m.find? (fun x => decide (x.1 = q)) with
  | none => rw [hf] at h; cases h
  | some kf =>
    rw [hf] at h
    have hm := List.mem_of_find?_eq_some hf
    have hk := List.find?_some hf
    simp at h hk
    subst h; rw [← hk]; exact hm

theorem walk_no_panic (structs : List (String × SegMap)) (names : Path) :
    ∀ (m : SegMap) (p : Path),
      (∀ kf ∈ m, structRefOk structs kf.2 = true) →
      (∀ kv ∈ structs, ∀ kf ∈ kv.2, structRefOk structs kf.2 = true) →
      ∀ why, Doc.walk structs m p names ≠ .panic why := by
  induction names with
  | nil => intro m p _ _ why h; cases h
  | cons name more ih =>
    intro m p hm hs why
    cases more with
    | nil =>
      simp only [Doc.walk]
      cases Doc.choose m p name <;> simp
    | cons r rest =>
      simp only [Doc.walk]
      cases hc : Doc.choose m p name with
      | none => simp
      | some s' =>
        simp only
        cases hk : (Doc.fieldAtPath m (p ++ [s'])).kind with
        | any => simp
        | function f => exact ih m _ hm hs why
        | property w => exact ih m _ hm hs why
        | removed => exact ih m _ hm hs why
        | struct sname =>
          simp only
          have hdef : (getKV structs sname).isSome := by
            unfold Doc.fieldAtPath at hk
            cases hg : m.get (p ++ [s']) with
            | none => rw [hg] at hk; simp [readOnlyField] at hk
            | some f =>
              rw [hg] at hk
              have := hm _ (get_mem hg)
              simpa [structRefOk, hk] using this
          cases hsg : getKV structs sname with
          | none => rw [hsg] at hdef; cases hdef
          | some strukt =>
            exact ih strukt [] (fun kf hkf => hs _ (getKV_mem hsg) kf hkf) hs why

/-- **no panic.** With every `struct:` reference defined, lookup of a non-empty path never panics
(neither `struct … not found` nor `couldn't find … inside names_to_fields`). -/
theorem C06_find_no_panic (l : SegLib) (h : WF l) (hc : structsClosed l) (names : Path)
    (hn : names ≠ []) : ∀ why, findGlobal l names ≠ .panic why := by
  intro why
  rw [C06_find l h]
  unfold Doc.lookup
  cases names with
  | nil => exact absurd rfl hn
  | cons n rest =>
    simp only
    cases l.globals.get (n :: rest) with
    | some f => simp
    | none => exact walk_no_panic l.structs (n :: rest) l.globals [] hc.1 hc.2 why

theorem walk_never_panics (structs : List (String × SegMap)) (names : Path) :
    ∀ (m : SegMap) (p : Path) (why : String), Doc.walk structs m p names ≠ .panic why := by
  induction names with
  | nil => intro m p why h; cases h
  | cons name more ih =>
    intro m p why
    cases more with
    | nil =>
      simp only [Doc.walk]
      cases Doc.choose m p name <;> simp
    | cons r rest =>
      simp only [Doc.walk]
      cases hc : Doc.choose m p name with
      | none => simp
      | some s' =>
        simp only
        cases hk : (Doc.fieldAtPath m (p ++ [s'])).kind with
        | any => simp
        | function f => exact ih m _ why
        | property w => exact ih m _ why
        | removed => exact ih m _ why
        | struct sname =>
          simp only
          cases hsg : getKV structs sname with
          | none => simp
          | some strukt => exact ih strukt [] why

/-- **no panic, unconditionally** (after the `fix:` that makes an undefined struct lead nowhere):
lookup of a non-empty path never panics, for every library — in particular one that names a missing
struct, which loads without error. -/
theorem C06_find_total (l : SegLib) (h : WF l) (names : Path) (hn : names ≠ []) :
    ∀ why, findGlobal l names ≠ .panic why := by
  intro why
  rw [C06_find l h]
  unfold Doc.lookup
  cases names with
  | nil => exact absurd rfl hn
  | cons n rest =>
    simp only
    cases l.globals.get (n :: rest) with
    | some f => simp
    | none => exact walk_never_panics l.structs (n :: rest) l.globals [] why

/-! ### reads and writes -/

/-- **C06 (positional).** Every target of a multiple assignment is judged independently of its
position: the problems of a target list are the concatenation of each target's own problems. -/
theorem C06_positional_one (l : SegLib) (targets : List Target) (i : Nat) (pr : AccessProblem) :
    (i, pr) ∈ assignmentProblems l targets ↔ ∃ t, targets[i]? = some t ∧ pr ∈ targetProblems l t := by
  unfold assignmentProblems
  simp only [List.mem_flatMap, List.mem_map, Prod.mk.injEq, Prod.exists, List.mem_zipIdx_iff_getElem?]
  constructor
  · rintro ⟨t, j, hj, pr', hpr, rfl, rfl⟩
    exact ⟨t, by simpa using hj, hpr⟩
  · rintro ⟨t, ht, hpr⟩
    exact ⟨t, i, by simpa using ht, pr, hpr, rfl, rfl⟩

/-- a write to an existing entry is reported exactly when its documented writability forbids
overriding it (read-only / new-fields properties, functions, structs) -/
theorem C06_write_existing (l : SegLib) (p : Path) (f : Field) (hf : findGlobal l p = .found f) :
    targetProblems l (.path p false) = if assignable f then [] else [.notWritable] := by
  simp [targetProblems, hf]

theorem C06_write_documented (w : Writability) :
    assignable { kind := .property w } = (w = .overrideFields ∨ w = .fullWrite) := by
  cases w <;> simp [assignable]

/-- a read (or write) of a path the library does not define is reported iff the root is a known
global and no ancestor on the way accepts new fields -/
theorem C06_read (l : SegLib) (root : String) (rest : Path) :
    invalidFieldAccess l (root :: rest) = [.noField] ↔
      (findGlobal l (root :: rest)).isFound = false ∧ globalHasFields l root = true ∧
      writableAncestor l (root :: rest).dropLast (root :: rest).dropLast.length 1 = false := by
  unfold invalidFieldAccess
  simp only
  by_cases h1 : (findGlobal l (root :: rest)).isFound = true
  · simp [h1]
  · by_cases h2 : globalHasFields l root = true
    · by_cases h3 : writableAncestor l (root :: rest).dropLast (root :: rest).dropLast.length 1 = true
      · simp [h1, h2]
      · simp [h1, h2]
    · simp [h1, h2]

/-- a locally bound root silences the target (the C07 gate), whatever the library says -/
theorem C06_resolved_silent (l : SegLib) (p : Path) (n : String) :
    targetProblems l (.path p true) = [] ∧ targetProblems l (.name n true) = [] := by
  simp [targetProblems]

/-! ### non-vacuity -/
private def demoLib : SegLib :=
  { globals := [(["a", "*", "c"], { kind := .any }), (["a", "b"], { kind := .struct "S" }),
                (["m", "pi"], { kind := .property .readOnly })],
    structs := [("S", [(["x"], { kind := .property .fullWrite }), (["*"], { kind := .function { args := [] } })])] }

example : WF demoLib ∧ structsClosed demoLib := by decide
-- explicit segment `b` beats `*`, then continues inside struct S
example : findGlobal demoLib ["a", "b", "x"] = .found { kind := .property .fullWrite } := by decide
-- `*` segment, then `any` accepts everything below
example : findGlobal demoLib ["a", "q", "c", "deep", "er"] = .found { kind := .any } := by decide
-- implicit read-only prefix
example : findGlobal demoLib ["m"] = .found readOnlyField := by decide
example : findGlobal demoLib ["m", "tau"] = .absent := by decide
example : invalidFieldAccess demoLib ["m", "tau"] = [.noField] := by decide
example : assignmentProblems demoLib [.name "L" true, .path ["m", "pi"] false] = [(1, .notWritable)] := by decide

/-! ## The same, at every read and assignment target of every program (`Std/Prog.lean`) -/

open Selene.Std.Prog Selene.Lua in
/-- **C06 (reads) in a program.** In any program, an expression `root.a.b…` whose root identifier is not bound by
the script is reported "does not contain the field" iff the path is absent from the library, the root is a known
global and no ancestor on the way accepts new fields — and nothing else is ever reported for it. -/
theorem C06_prog_read (l : SegLib) (R : Nat → Bool) (e : Lua.Expr) (root : String) (rest : Path)
    (hu : R (exprStart e) = false) (hp : namePathE e = some (root :: rest)) :
    ((stdExpr l R e).map (·.kind) = [.access .noField] ↔
      ((findGlobal l (root :: rest)).isFound = false ∧ globalHasFields l root = true ∧
       writableAncestor l (root :: rest).dropLast (root :: rest).dropLast.length 1 = false)) ∧
    ((stdExpr l R e).map (·.kind) = [.access .noField] ∨ stdExpr l R e = []) := by
  have hk := stdExpr_kinds l R e (root :: rest) hu hp
  constructor
  · rw [← C06_read, hk]
    constructor
    · intro h
      cases hi : invalidFieldAccess l (root :: rest) with
      | nil => simp [hi] at h
      | cons a as =>
        rw [hi] at h
        simp only [List.map_cons, List.cons.injEq, Kind.access.injEq, List.map_eq_nil_iff] at h
        rw [h.1, h.2]
    · intro h; rw [h]; rfl
  · have hcases : invalidFieldAccess l (root :: rest) = [] ∨ invalidFieldAccess l (root :: rest) = [.noField] := by
      unfold invalidFieldAccess
      simp only
      split
      · split
        · left; rfl
        · right; rfl
      · left; rfl
    rcases hcases with h | h
    · right
      have : (stdExpr l R e).map (·.kind) = [] := by rw [hk, h]; rfl
      simpa using this
    · left; rw [hk, h]; rfl

open Selene.Std.Prog Selene.Lua in
/-- **C06 (writes) in a program.** Every target of every assignment is judged on its own, by the table of
`C06_write_existing` / `C06_read`: what is reported for an assignment is the concatenation of what its targets
draw, and a target whose root the script binds draws nothing. -/
theorem C06_prog_write (l : SegLib) (R : Nat → Bool) (vs : VarList) :
    (stdTargets l R vs).map (·.kind) = vs.toList.flatMap fun v => (targetProblems l (targetOf R v)).map Kind.access :=
  stdTargets_kinds l R vs

end Selene.Props.C06
