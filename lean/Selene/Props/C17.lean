/-
C17 — standard libraries survive serialisation and the v1 → v2 upgrade unchanged.
Only property theorems and non-vacuity examples live here; the model is `Selene/Std/Serde.lean`,
helper lemmas are in `Selene/Std/SerdeLemmas.lean`.

The model is at serde's data-model level (`Val`): `ser` = `serde_yaml::to_value`, `de` =
`serde_yaml::from_value::<StandardLibrary>`.  YAML / TOML *text* is outside the model (stated
partial; the correspondence run performs the real text round trip on every generated library).
The specification is the property itself: the round trip is the identity.
-/
import Selene.Std.SerdeLemmas
namespace Selene.Props.C17
open Selene.Std Selene.Std.Serde

/-! ## Theorems -/

/-- **C17 (round trip).** Writing a well-formed library and reading it back yields an equal
library.  `WF` = every `BTreeMap` is key-sorted (always true in Rust), no `LuaVersion::Unknown(s)`
spells a known version name, `last_updated` fits an `i64` (always true in Rust). -/
theorem C17_roundtrip (l : FullLib) (h : WF l) : de (ser l) = .ok l := rt_lib l h

/-- **C17 (loaded libraries are well-formed).** Whatever document loads, loads to a well-formed
library. -/
theorem C17_loaded_wf (v : Val) (l : FullLib) (h : de v = .ok l) : WF l := loaded_wf v l h

/-- `WF` is exactly the hypothesis the round trip needs: a library that is not well-formed does
not come back equal. -/
theorem C17_roundtrip_iff (l : FullLib) : de (ser l) = .ok l ↔ WF l :=
  ⟨fun h => loaded_wf _ _ h, rt_lib l⟩

/-- **C17 (no accepted document re-serialises to something that fails to load).** -/
theorem C17_reload (v : Val) (l : FullLib) (h : de v = .ok l) : de (ser l) = .ok l :=
  rt_lib l (loaded_wf v l h)

/-- serialisation loses nothing: two well-formed libraries with the same document are equal -/
theorem C17_ser_injective (l₁ l₂ : FullLib) (h₁ : WF l₁) (h₂ : WF l₂) (h : ser l₁ = ser l₂) :
    l₁ = l₂ := by
  have e₁ := rt_lib l₁ h₁
  rw [h, rt_lib l₂ h₂] at e₁
  exact (Except.ok.inj e₁).symm

/-- **C17 (upgrade).** The library `From<v1::StandardLibrary>` builds is well-formed … -/
theorem C17_upgrade (v : V1Lib) : WF (upgrade v) := upgrade_wf v

/-- … hence the YAML document `selene upgrade-std` writes loads to exactly the library the TOML
file itself gives (both CLI paths then apply the same `extend(base)`), so every lookup and
therefore every diagnostic agrees. -/
theorem C17_upgrade_roundtrip (v : V1Lib) : de (ser (upgrade v)) = .ok (upgrade v) :=
  rt_lib _ (upgrade_wf v)

/-- lookups in the reloaded library answer as in the original, for every key -/
theorem C17_lookup_preserved (l : FullLib) (h : WF l) (k : String) :
    (de (ser l)).map (fun l' => l'.core.globals.get k) = .ok (l.core.globals.get k) := by
  rw [rt_lib l h]; rfl

/-! ## Non-vacuity -/

/-- a library with every field kind, argument type, required-with-message, observes, deprecated
    with replace patterns, a struct, wildcard / dotted keys and YAML-hostile strings -/
def shippedLikeLib : FullLib :=
  { core :=
    { base := some "lua51", name := some "true",
      globals :=
        [("*", { kind := .any }),
         ("a.*.c", { kind := .struct "S", deprecated := some { message := "~", replace := ["new(%1)", "n(%...)"] } }),
         ("f", { kind := .function { method := true, mustUse := true, args := [{ type := .constant ["count", "", "a: b", "1e3"] },
                       { required := .required (some "needs this"), type := .display "Instance", observes := .read },
                       { required := .notRequired, type := .vararg, observes := .write,
                         deprecated := some { message := "old", replace := [] } },
                       { type := .any }, { type := .bool }, { type := .function }, { type := .nil },
                       { type := .number }, { type := .string }, { type := .table }] } }),
         ("g", { kind := .function { args := [] } }),
         ("p", { kind := .property .fullWrite }),
         ("q", { kind := .property .readOnly, deprecated := some { message := "x\ny", replace := [] } }),
         ("r", { kind := .removed })],
      structs := [("S", [("*", { kind := .any }), ("x", { kind := .property .newFields })]), ("T", [])],
      luaVersions := [.lua51, .luau, .unknown "lua55"] },
    lastUpdated := some (-3), lastSeleneVersion := some "0.27.1",
    robloxClasses := [("Part", { superclass := "Instance", events := ["Touched"], properties := [] })] }

example : WF shippedLikeLib ∧ shippedLikeLib.core.globals ≠ [] := by decide
example : de (ser shippedLikeLib) = .ok shippedLikeLib := by decide
example : ∃ v l, de v = .ok l ∧ l.core.globals ≠ [] := ⟨ser shippedLikeLib, shippedLikeLib, by decide, by decide⟩

/-- the excluded points really break the round trip in the model (and in the code: the
    correspondence run executes them) -/
example : ¬ WF { core := { luaVersions := [.unknown "lua51"] } } := by decide
example : de (ser { core := { luaVersions := [.unknown "lua51"] } })
    = .ok { core := { luaVersions := [.lua51] } } := by decide
example : ¬ WF { core := { globals := [("b", { kind := .any }), ("a", { kind := .any })] } } := by decide

/-- the untagged variant order decides: `any` beats `args`, `args` beats `removed`/`property`/`struct`;
    `any: false` falls through to the next variant that fits; nothing fits ⇒ error -/
example : deKind [("args", .seq []), ("any", .bool true)] = .ok .any := by decide
example : deKind [("any", .bool false), ("args", .seq [])] = .ok (.function { args := [] }) := by decide
example : deKind [("struct", .str "S"), ("property", .str "read-only"), ("removed", .bool true)]
    = .ok .removed := by decide
example : (deKind [("removed", .bool false)]).isOk = false := by decide
example : (de (.map [("bogus", .null)])).isOk = false := by decide

def v1Sample : V1Lib :=
  { selene := some { base := some "lua51",
                     structs := some [("S", [("x", .property (some .full))])] },
    globals := [("a", .complex (some { args := [{ required := .required none, type := .number }], method := false })
                   [("b", .any), ("c", .complex none [("d", .struct "S")])]),
                ("z", .removed)] }

example : (upgrade v1Sample).core.globals.map (·.1) = ["a", "a.b", "a.c.d", "z"] := by decide
example : de (ser (upgrade v1Sample)) = .ok (upgrade v1Sample) := by decide

/-- a dotted child key collides with a nested path: the LIFO stack makes the *earlier* sibling
    (popped last) win -/
example : ((upgrade { globals := [("a", .complex none [("b", .complex none [("c", .any)]), ("b.c", .removed)])] }).core.globals)
    = [("a.b.c", { kind := .any })] := by decide

end Selene.Props.C17
