/-
Specification of "a call matches the library definition", written from
docs/src/usage/std.md ("Functions", "required", "Argument types"), the text of property C05 and
the Lua 5.1 reference manual §2.5 (result types of operators) — *not* from the Rust arithmetic.

* count: the number of syntactic arguments must lie in `[minArgs, total]`, unbounded above when
  the last parameter is `...`; never judged when the last argument is a call or `...`
  (it may expand to any number of values).  `required: false` parameters are optional; a
  trailing `...` that is required "will lint if no additional arguments are given", i.e. at
  least one argument beyond the parameters before it.
* type: an argument is *definitely wrong* when no value it can evaluate to is acceptable for the
  declared type.  What an expression can evaluate to is the static reading of the reference
  manual without metamethods (the caveat the lint's source states): literals have their type,
  arithmetic yields a number, `..` a string, comparisons and `not` a boolean, `#` a number,
  `and`/`or`, names, calls and `...` anything; an operator applied to an operand it cannot
  take (arithmetic on a table constructor, on a string that is no numeral, …) yields nothing.
  A string literal's value is the text between its delimiters (long brackets with their level
  stripped); escape sequences are NOT interpreted (stated assumption).
* style: `method: true` requires `:`; otherwise `.`.
-/
import Selene.Std.Call
namespace Selene.Std
namespace Doc

inductive LuaType where
  | nil | bool | number | string | table | function
deriving DecidableEq, Repr, Inhabited

/-- what is statically known about the value of an argument expression -/
inductive Static where
  | unknown                    -- any value
  | never                      -- evaluating it always raises an error
  | ty (t : LuaType)           -- a value of this type (if it evaluates at all)
  | lit (content : String)     -- exactly this string
deriving DecidableEq, Repr, Inhabited

def lower (c : Char) : Char := if 'A' ≤ c ∧ c ≤ 'Z' then Char.ofNat (c.toNat + 32) else c

def hasInfix (pat : List Char) : List Char → Bool
  | [] => pat.isEmpty
  | c :: cs => pat.isPrefixOf (c :: cs) || hasInfix pat cs

/-- could `tonumber` accept this string?  Over-approximation (every numeral contains a digit;
    C's `strtod` also reads `inf` / `nan`): only used to decide that arithmetic on a string
    literal *certainly* fails. -/
def maybeNumeral (s : String) : Bool :=
  let cs := s.toList.map lower
  cs.any Char.isDigit || hasInfix ['i', 'n', 'f'] cs || hasInfix ['n', 'a', 'n'] cs

/-- may this operand take part in arithmetic (§2.5.1: numbers and strings convertible to numbers)? -/
def Static.arithOk : Static → Bool
  | .unknown => true
  | .never => false
  | .ty .number => true
  | .ty .string => true
  | .ty _ => false
  | .lit s => maybeNumeral s

/-- §2.5.4: concatenation takes strings and numbers -/
def Static.concatOk : Static → Bool
  | .unknown => true
  | .never => false
  | .ty .number => true
  | .ty .string => true
  | .ty _ => false
  | .lit _ => true

/-- §2.5.5: the length operator takes strings and tables -/
def Static.lenOk : Static → Bool
  | .unknown => true
  | .never => false
  | .ty .string => true
  | .ty .table => true
  | .ty _ => false
  | .lit _ => true

/-- §2.5.2: order comparison takes two numbers or two strings.
    0 = cannot be compared, 1 = number, 2 = string, 3 = unknown -/
def Static.orderClass : Static → Nat
  | .unknown => 3
  | .never => 0
  | .ty .number => 1
  | .ty .string => 2
  | .ty _ => 0
  | .lit _ => 2

def orderOk (a b : Static) : Bool :=
  let x := a.orderClass
  let y := b.orderClass
  x != 0 && y != 0 && (x == 3 || y == 3 || x == y)

def Static.evaluates : Static → Bool
  | .never => false
  | _ => true

/-- values of script-defined types commonly overload `-`, `+`, `*`, `/` (e.g. vectors): applied to an operand
    about which nothing is known, these operators yield a value about which nothing is known -/
def Static.isUnknown : Static → Bool
  | .unknown => true
  | _ => false

def unopStatic (op : UnOp) (a : Static) : Static :=
  match op with
  | .minus => if a.isUnknown then .unknown else if a.arithOk then .ty .number else .never
  | .hash => if a.lenOk then .ty .number else .never
  | .not => if a.evaluates then .ty .bool else .never

def binopStatic (op : BinOp) (a b : Static) : Static :=
  match op with
  | .plus | .minus | .star | .slash =>
    if a.arithOk && b.arithOk then (if a.isUnknown || b.isUnknown then .unknown else .ty .number) else .never
  | .percent | .caret =>
    if a.arithOk && b.arithOk then .ty .number else .never
  | .concat => if a.concatOk && b.concatOk then .ty .string else .never
  | .lt | .le | .gt | .ge => if orderOk a b then .ty .bool else .never
  | .eq | .ne => if a.evaluates && b.evaluates then .ty .bool else .never
  | .and | .or => .unknown

def staticOf : Expr → Static
  | .nilLit => .ty .nil
  | .trueLit => .ty .bool
  | .falseLit => .ty .bool
  | .number _ => .ty .number
  | .str _ content => .lit content
  | .vararg => .unknown
  | .call => .unknown
  | .name _ => .unknown
  | .table => .ty .table
  | .function => .ty .function
  | .paren e => staticOf e
  | .unop op e => unopStatic op (staticOf e)
  | .binop op l r => binopStatic op (staticOf l) (staticOf r)

/-- is a value of Lua type `T` acceptable for the declared type?  ("Expects a value of the
    respective type"; `any` allows everything; a constant list is a string; for `display` "no
    constant could possibly be correct"; an optional parameter may be passed `nil`.) -/
def typeFits (declared : ArgType) (optional : Bool) (T : LuaType) : Bool :=
  (optional && decide (T = .nil)) ||
  match declared with
  | .any => true
  | .vararg => true
  | .bool => decide (T = .bool)
  | .function => decide (T = .function)
  | .nil => decide (T = .nil)
  | .number => decide (T = .number)
  | .string => decide (T = .string)
  | .table => decide (T = .table)
  | .constant _ => decide (T = .string)     -- a string whose content is not known may be listed
  | .display _ => false

/-- is the string `s` acceptable for the declared type? -/
def stringFits (declared : ArgType) (s : String) : Bool :=
  match declared with
  | .any => true
  | .vararg => true
  | .string => true
  | .constant cs => cs.contains s
  | _ => false

def fits (declared : ArgType) (optional : Bool) : Static → Bool
  | .unknown => true
  | .never => false            -- yields no value at all: nothing it yields is acceptable
  | .ty T => typeFits declared optional T
  | .lit s => stringFits declared s

/-- the syntactic arguments of a call, read statically -/
def statics : CallArgs → List Static
  | .parens as => as.map staticOf
  | .string _ content => [.lit content]
  | .table => [.ty .table]

def isOptional (a : Argument) : Bool := decide (a.required = .notRequired)

/-- argument `i` (0-based) exists, has a parameter, and nothing it can evaluate to is acceptable -/
def definitelyWrong (f : FunctionBehavior) (c : Call) (i : Nat) : Bool :=
  match (statics c.args)[i]?, f.args[i]? with
  | some st, some a => !fits a.type (isOptional a) st
  | _, _ => false

/-! ### count -/

def nArgs : CallArgs → Nat
  | .parens as => as.length
  | .string _ _ => 1
  | .table => 1

/-- the last syntactic argument is a function call or `...` -/
def isOpen : CallArgs → Bool
  | .parens as =>
    match as.reverse with
    | .call :: _ => true
    | .vararg :: _ => true
    | _ => false
  | _ => false

def lastParam (f : FunctionBehavior) : Option Argument := f.args.reverse.head?

/-- the last parameter is `...` -/
def variadic (f : FunctionBehavior) : Bool :=
  match lastParam f with
  | some a => decide (a.type = .vararg)
  | none => false

/-- the last parameter is `...` and it is not marked `required: false` -/
def requiresVararg (f : FunctionBehavior) : Bool :=
  match lastParam f with
  | some a => decide (a.type = .vararg) && !isOptional a
  | none => false

/-- number of parameters not marked `required: false` -/
def requiredCount (f : FunctionBehavior) : Nat :=
  (f.args.filter fun a => !isOptional a).length

/-- fewest arguments the definition allows -/
def minArgs (f : FunctionBehavior) : Nat :=
  if requiresVararg f then f.args.length else requiredCount f

def countOutside (f : FunctionBehavior) (c : Call) : Bool :=
  !isOpen c.args &&
    (decide (nArgs c.args < minArgs f) || (!variadic f && decide (nArgs c.args > f.args.length)))

def styleWrong (f : FunctionBehavior) (c : Call) : Bool := f.method != c.isMethod

/-- the call satisfies the definition -/
def satisfies (f : FunctionBehavior) (c : Call) : Prop :=
  styleWrong f c = false ∧ countOutside f c = false ∧ ∀ i, definitelyWrong f c i = false

/-! ### where the current code is known to leave the specification

Two hypotheses of the theorems in `Props/C05.lean`; each is shown necessary there by a concrete
call that the model (and the real lint) reports although it satisfies the definition. -/

/-- more syntactic arguments than parameters although the last one is a call / `...` -/
def overfullOpen (f : FunctionBehavior) (c : Call) : Bool :=
  isOpen c.args && !variadic f && decide (nArgs c.args > f.args.length)

/-- the expression is given a string type by reading it syntactically: a string literal, a
    concatenation, or either of those under parentheses / unary minus / same-type arithmetic -/
def stringy : Expr → Bool
  | .str _ _ => true
  | .paren e => stringy e
  | .unop .minus e => stringy e
  | .binop op l r => decide (op = .concat) || (op.isArith && stringy l && stringy r)
  | _ => false

/-- no long-bracket string literal and no arithmetic on string-typed operands along the part of
    the expression that determines its type -/
def tame : Expr → Bool
  | .str q _ => !q.isLong
  | .paren e => tame e
  | .unop .minus e => tame e && !stringy e
  | .binop op l r => if op.isArith then tame l && tame r && !(stringy l && stringy r) else true
  | _ => true

def tameArgs : CallArgs → Bool
  | .parens as => as.all tame
  | .string q _ => !q.isLong
  | .table => true

end Doc
end Selene.Std
