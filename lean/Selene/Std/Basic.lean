/-
Data model of a selene standard library (`selene-lib/src/standard_library/mod.rs`).
`BTreeMap<String, _>` is modelled as an association list; only lookups and key-wise
construction are used, so the iteration order of the Rust map is irrelevant.
-/
namespace Selene.Std

inductive Writability where
  | readOnly | newFields | overrideFields | fullWrite
deriving DecidableEq, Repr, Inhabited

inductive ArgType where
  | any | bool
  | constant (options : List String)
  | display (text : String)
  | function | nil | number | string | table | vararg
deriving DecidableEq, Repr, Inhabited

inductive Required where
  | notRequired
  | required (message : Option String)
deriving DecidableEq, Repr, Inhabited

inductive Observes where
  | readWrite | read | write
deriving DecidableEq, Repr, Inhabited

structure Deprecated where
  message : String
  replace : List String
deriving DecidableEq, Repr, Inhabited

structure Argument where
  required : Required := .required none
  type : ArgType
  observes : Observes := .readWrite
  deprecated : Option Deprecated := none
deriving DecidableEq, Repr, Inhabited

structure FunctionBehavior where
  args : List Argument
  method : Bool := false
  mustUse : Bool := false
deriving DecidableEq, Repr, Inhabited

inductive FieldKind where
  | any
  | function (f : FunctionBehavior)
  | property (w : Writability)
  | struct (name : String)
  | removed
deriving DecidableEq, Repr, Inhabited

structure Field where
  kind : FieldKind
  deprecated : Option Deprecated := none
deriving DecidableEq, Repr, Inhabited

/-- `Field::from_field_kind(FieldKind::Property(ReadOnly))` -/
def readOnlyField : Field := { kind := .property .readOnly }

inductive LuaVersion where
  | lua51 | lua52 | lua53 | lua54 | luau | luajit
  | unknown (s : String)
deriving DecidableEq, Repr, Inhabited

abbrev FieldMap := List (String × Field)

def FieldMap.get (m : FieldMap) (k : String) : Option Field :=
  (m.find? (·.1 = k)).map (·.2)

structure Lib where
  base : Option String := none
  name : Option String := none
  globals : FieldMap := []
  structs : List (String × FieldMap) := []
  luaVersions : List LuaVersion := []
deriving DecidableEq, Repr, Inhabited

def Lib.getStruct (l : Lib) (n : String) : Option FieldMap :=
  (l.structs.find? (·.1 = n)).map (·.2)

end Selene.Std
