/-
Reader / printer for libraries in the exchange format (driver glue, trusted).
-/
import Selene.Sexp
import Selene.Std.Basic
namespace Selene.Std
open Selene

def readDeprecated : Sexp → Option (Option Deprecated)
  | .atom "none" => some none
  | .list (.atom "deprecated" :: msg :: rest) => do
    let m ← msg.asString?
    let rs ← rest.mapM Sexp.asString?
    some (some { message := m, replace := rs })
  | _ => none

def readArgType : Sexp → Option ArgType
  | .atom "any" => some .any
  | .atom "bool" => some .bool
  | .atom "function" => some .function
  | .atom "nil" => some .nil
  | .atom "number" => some .number
  | .atom "string" => some .string
  | .atom "table" => some .table
  | .atom "vararg" => some .vararg
  | .list (.atom "constant" :: rest) => do some (.constant (← rest.mapM Sexp.asString?))
  | .list [.atom "display", s] => do some (.display (← s.asString?))
  | _ => none

def readRequired : Sexp → Option Required
  | .atom "not-required" => some .notRequired
  | .atom "required" => some (.required none)
  | .list [.atom "required", s] => do some (.required (some (← s.asString?)))
  | _ => none

def readObserves : Sexp → Option Observes
  | .atom "read-write" => some .readWrite
  | .atom "read" => some .read
  | .atom "write" => some .write
  | _ => none

def readArg : Sexp → Option Argument
  | .list [.atom "arg", r, t, o, d] => do
    some { required := ← readRequired r, type := ← readArgType t, observes := ← readObserves o,
           deprecated := ← readDeprecated d }
  | _ => none

def readWritability : Sexp → Option Writability
  | .atom "read-only" => some .readOnly
  | .atom "new-fields" => some .newFields
  | .atom "override-fields" => some .overrideFields
  | .atom "full-write" => some .fullWrite
  | _ => none

def readKind : Sexp → Option FieldKind
  | .atom "any" => some .any
  | .atom "removed" => some .removed
  | .list [.atom "property", w] => do some (.property (← readWritability w))
  | .list [.atom "struct", s] => do some (.struct (← s.asString?))
  | .list (.atom "function" :: m :: mu :: args) => do
    some (.function { method := ← m.asBool?, mustUse := ← mu.asBool?, args := ← args.mapM readArg })
  | _ => none

def readField : Sexp → Option Field
  | .list [.atom "field", k, d] => do some { kind := ← readKind k, deprecated := ← readDeprecated d }
  | _ => none

def readFieldMap (xs : List Sexp) : Option FieldMap :=
  xs.mapM fun
    | .list [k, f] => do some (← k.asString?, ← readField f)
    | _ => none

def readVersion (s : Sexp) : Option LuaVersion := do
  match ← s.asString? with
  | "lua51" => some .lua51
  | "lua52" => some .lua52
  | "lua53" => some .lua53
  | "lua54" => some .lua54
  | "luau" => some .luau
  | "luajit" => some .luajit
  | other => some (.unknown other)

def readOptStr : Sexp → Option (Option String)
  | .atom "none" => some none
  | .str s => some (some s)
  | _ => none

def readLib : Sexp → Option Lib
  | .list [.atom "lib", .list [.atom "base", b], .list (.atom "versions" :: vs),
           .list (.atom "globals" :: gs), .list (.atom "structs" :: ss)] => do
    let structs ← ss.mapM fun
      | .list (n :: fs) => do some (← n.asString?, ← readFieldMap fs)
      | _ => none
    some { base := ← readOptStr b, luaVersions := ← vs.mapM readVersion,
           globals := ← readFieldMap gs, structs }
  | _ => none

/-! printers (canonical: maps sorted by key) -/

def showDeprecated : Option Deprecated → Sexp
  | none => .atom "none"
  | some d => .list (.atom "deprecated" :: .str d.message :: d.replace.map .str)

def showArgType : ArgType → Sexp
  | .any => .atom "any" | .bool => .atom "bool" | .function => .atom "function"
  | .nil => .atom "nil" | .number => .atom "number" | .string => .atom "string"
  | .table => .atom "table" | .vararg => .atom "vararg"
  | .constant xs => .list (.atom "constant" :: xs.map .str)
  | .display s => .list [.atom "display", .str s]

def showRequired : Required → Sexp
  | .notRequired => .atom "not-required"
  | .required none => .atom "required"
  | .required (some m) => .list [.atom "required", .str m]

def showObserves : Observes → Sexp
  | .readWrite => .atom "read-write" | .read => .atom "read" | .write => .atom "write"

def showBool (b : Bool) : Sexp := .atom (if b then "true" else "false")

def showArg (a : Argument) : Sexp :=
  .list [.atom "arg", showRequired a.required, showArgType a.type, showObserves a.observes,
         showDeprecated a.deprecated]

def showWritability : Writability → Sexp
  | .readOnly => .atom "read-only" | .newFields => .atom "new-fields"
  | .overrideFields => .atom "override-fields" | .fullWrite => .atom "full-write"

def showKind : FieldKind → Sexp
  | .any => .atom "any"
  | .removed => .atom "removed"
  | .property w => .list [.atom "property", showWritability w]
  | .struct s => .list [.atom "struct", .str s]
  | .function f => .list (.atom "function" :: showBool f.method :: showBool f.mustUse :: f.args.map showArg)

def showField (f : Field) : Sexp := .list [.atom "field", showKind f.kind, showDeprecated f.deprecated]

def showOptField : Option Field → Sexp
  | none => .atom "none"
  | some f => showField f

def sortByKey {α} (m : List (String × α)) : List (String × α) :=
  (m.toArray.qsort (fun a b => a.1 < b.1)).toList

def showFieldMap (m : FieldMap) : List Sexp :=
  (sortByKey m).map fun (k, f) => .list [.str k, showField f]

def showVersion : LuaVersion → Sexp
  | .lua51 => .atom "lua51" | .lua52 => .atom "lua52" | .lua53 => .atom "lua53"
  | .lua54 => .atom "lua54" | .luau => .atom "luau" | .luajit => .atom "luajit"
  | .unknown s => .str s

def showLib (l : Lib) : Sexp :=
  .list [.atom "lib",
    .list [.atom "base", match l.base with | none => .atom "none" | some b => .str b],
    .list (.atom "versions" :: l.luaVersions.map showVersion),
    .list (.atom "globals" :: showFieldMap l.globals),
    .list (.atom "structs" :: (sortByKey l.structs).map fun (n, fs) => .list (.str n :: showFieldMap fs))]

end Selene.Std
