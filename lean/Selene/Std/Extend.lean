/-
Model of `StandardLibrary::extend` (`selene-lib/src/standard_library/mod.rs`), of the built-in
base recursion (`from_builtin_name`) and of the CLI's `+` fold (`selene/src/standard_library.rs`).

`self.extend(other)`: `self` is the *derived* library (or the accumulated left part of an
`a+b` chain), `other` the *base*.
-/
import Selene.Std.Basic
namespace Selene.Std

/-- `BTreeMap::insert` on an association list: replace the entry with that key, or add it. -/
def insertKV {α} (m : List (String × α)) (k : String) (v : α) : List (String × α) :=
  match m with
  | [] => [(k, v)]
  | (k', v') :: rest => if k' = k then (k, v) :: rest else (k', v') :: insertKV rest k v

/-- `BTreeMap::extend(iter)` : insert every pair in turn (later pairs win). -/
def extendKV {α} (m : List (String × α)) (xs : List (String × α)) : List (String × α) :=
  xs.foldl (fun acc kv => insertKV acc kv.1 kv.2) m

def getKV {α} (m : List (String × α)) (k : String) : Option α :=
  (m.find? (·.1 = k)).map (·.2)

def Field.isRemoved (f : Field) : Bool := f.kind = .removed

/-- the `matches!(self.globals.get(name), Some(Field { field_kind: Removed, .. }))` test -/
def removedIn (m : FieldMap) (k : String) : Bool :=
  match m.get k with
  | some f => f.isRemoved
  | none => false

/-- `derived.extend(base)` -/
def extend (d b : Lib) : Lib :=
  let structs := extendKV d.structs b.structs
  -- `other.globals.into_iter().filter(..).collect()`
  let fromBase : FieldMap :=
    extendKV [] (b.globals.filter fun kf => !kf.2.isRemoved && !removedIn d.globals kf.1)
  -- `globals.extend(self.globals.into_iter().filter_map(..))`
  let globals := extendKV fromBase (d.globals.filter fun kf => !kf.2.isRemoved)
  -- the derived library's own `lua_versions` win when it has any
  let versions := if d.luaVersions.isEmpty then b.luaVersions else d.luaVersions
  { d with structs := structs, globals := globals, luaVersions := versions }

/-- The environment of named libraries (built-ins, or files found on disk) with fuel for the
    base recursion (`from_builtin_name` / CLI `from_name`); `none` = unknown name or a cycle
    longer than the fuel. -/
def effective (env : String → Option Lib) : Nat → String → Option Lib
  | 0, _ => none
  | fuel + 1, name =>
    match env name with
    | none => none
    | some l =>
      match l.base with
      | none => some l
      | some b =>
        match effective env fuel b with
        | some base => some (extend l base)
        | none => none

/-- CLI `std = "a+b+c"` over already-collected segment libraries: `acc.extend(next)` -/
def plusChain : List Lib → Option Lib
  | [] => none
  | l :: rest => some (rest.foldl extend l)

end Selene.Std
