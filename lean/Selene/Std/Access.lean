/-
Model of the field-access and assignment checks of `incorrect_standard_library_use`
(selene-lib/src/lints/standard_library.rs:217-376): `lint_invalid_field_access` and
`visit_assignment`'s writability table.  A use site is abstracted to its name path and whether
its root identifier resolves to a script variable (the gate C07 is about).
-/
import Selene.Std.Trie
namespace Selene.Std

inductive AccessProblem where
  | noField        -- "standard library global `a.b` does not contain the field `c`"
  | notWritable    -- "standard library global `a.b` is not writable"
  | notOverridable -- "standard library global `x` is not overridable"
deriving DecidableEq, Repr, Inhabited

def Lookup.isFound : Lookup → Bool
  | .found _ => true
  | _ => false

/-- the `for bound in 1..=name_path.len()` loop: does some ancestor accept new fields?
    (`any`, or a property that is neither read-only nor override-fields); stops at the first
    ancestor that is absent -/
def writableAncestor (l : SegLib) (path : Path) : Nat → Nat → Bool
  | 0, _ => false
  | fuel + 1, bound =>
    if bound > path.length then false
    else
      match findGlobal l (path.take bound) with
      | .found f =>
        match f.kind with
        | .any => true
        | .property w =>
          if w ≠ .readOnly ∧ w ≠ .overrideFields then true
          else writableAncestor l path fuel (bound + 1)
        | _ => writableAncestor l path fuel (bound + 1)
      | _ => false

/-- `lint_invalid_field_access(name_path, ..)` -/
def invalidFieldAccess (l : SegLib) (path : Path) : List AccessProblem :=
  match path with
  | [] => []
  | root :: _ =>
    if !(findGlobal l path).isFound && globalHasFields l root then
      let parent := path.dropLast
      if writableAncestor l parent parent.length 1 then [] else [.noField]
    else []

/-- can a value of this kind be assigned to directly (`a.b = v` where `a.b` resolves to it)? -/
def assignable (f : Field) : Bool :=
  match f.kind with
  | .property w => w ≠ .readOnly ∧ w ≠ .newFields
  | .any => true
  | _ => false

inductive Target where
  | name (n : String) (resolved : Bool)            -- `x = …`
  | path (p : Path) (resolved : Bool)              -- `a.b.c = …`  (root `a`)
  | other                                           -- `a[1] = …`, `f().x = …` : not linted
deriving DecidableEq, Repr, Inhabited

/-- one target of `visit_assignment` -/
def targetProblems (l : SegLib) : Target → List AccessProblem
  | .other => []
  | .name n resolved =>
    if resolved then []
    else match findGlobal l [n] with
      | .found f => if assignable f then [] else [.notOverridable]
      | _ => []
  | .path p resolved =>
    if resolved then []
    else match findGlobal l p with
      | .found f => if assignable f then [] else [.notWritable]
      | _ => invalidFieldAccess l p

/-- `visit_assignment`: every target is judged on its own (`continue`, never `return`) -/
def assignmentProblems (l : SegLib) (targets : List Target) : List (Nat × AccessProblem) :=
  (targets.zipIdx).flatMap fun (t, i) => (targetProblems l t).map fun pr => (i, pr)

end Selene.Std

namespace Selene.Std
namespace Doc
/-! Documentation-level judgement of reads and writes (docs/src/usage/std.md, "property"):
read-only: no new fields, not overridable · new-fields: fields may be added, itself not
overridable · override-fields: no new fields, itself overridable · full-write: both. -/

def canOverride (f : Field) : Bool :=
  match f.kind with
  | .any => true
  | .property .overrideFields => true
  | .property .fullWrite => true
  | _ => false

def acceptsNewFields (f : Field) : Bool :=
  match f.kind with
  | .any => true
  | .property .newFields => true
  | .property .fullWrite => true
  | _ => false

end Doc
end Selene.Std
