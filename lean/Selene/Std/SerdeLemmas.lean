/-
Helper lemmas for C17: sorted association lists, `traverse`, field extraction from serialised
struct entries, and the per-type round trips `de… (ser… x) = ok x`.
-/
import Selene.Std.Serde
namespace Selene.Std.Serde
open Selene.Std

/-! ### `Except` -/

theorem bind_ok {α β} {x : R α} {f : α → R β} {b : β} :
    (x >>= f) = .ok b ↔ ∃ a, x = .ok a ∧ f a = .ok b := by
  cases x <;> simp [bind, Except.bind]

theorem map_ok {α β} {x : R α} {f : α → β} {b : β} :
    x.map f = .ok b ↔ ∃ a, x = .ok a ∧ f a = b := by
  cases x <;> simp [Except.map]

/-! ### sorted association lists (`BTreeMap`) -/

theorem sorted_nil {α} : Sorted ([] : List (String × α)) := by simp [Sorted]

theorem bInsert_append_of_lt {α} (m : List (String × α)) (k : String) (v : α)
    (h : ∀ x ∈ m, x.1 < k) : bInsert m k v = m ++ [(k, v)] := by
  induction m with
  | nil => rfl
  | cons x xs ih =>
    obtain ⟨k', v'⟩ := x
    have hx : k' < k := h (k', v') (List.mem_cons_self ..)
    have h1 : ¬ k < k' := String.lt_asymm hx
    have h2 : ¬ k = k' := fun e => String.lt_irrefl k (by rw [e] at hx ⊢; exact hx)
    simp only [bInsert, h1, h2, if_false]
    rw [ih (fun y hy => h y (List.mem_cons_of_mem _ hy))]
    rfl

theorem extendB_cons {α} (acc : List (String × α)) (x : String × α) (xs : List (String × α)) :
    extendB acc (x :: xs) = extendB (bInsert acc x.1 x.2) xs := rfl

theorem extendB_nil {α} (acc : List (String × α)) : extendB acc [] = acc := rfl

/-- inserting the entries of a key-sorted list in order rebuilds exactly that list -/
theorem extendB_append {α} (acc m : List (String × α)) (h : Sorted (acc ++ m)) :
    extendB acc m = acc ++ m := by
  induction m generalizing acc with
  | nil => simp [extendB_nil]
  | cons x xs ih =>
    have hs := h
    unfold Sorted at hs
    rw [List.map_append, List.pairwise_append] at hs
    obtain ⟨_, _, hlt⟩ := hs
    have h1 : bInsert acc x.1 x.2 = acc ++ [x] := by
      rw [bInsert_append_of_lt]
      intro y hy
      exact hlt y.1 (List.mem_map_of_mem hy) x.1 (by simp)
    rw [extendB_cons, h1, ih (acc ++ [x]) (by simpa [List.append_assoc] using h)]
    simp

theorem fromList_of_sorted {α} (m : List (String × α)) (h : Sorted m) : fromList m = m := by
  have := extendB_append [] m (by simpa using h)
  simpa [fromList] using this

theorem mem_bInsert {α} (m : List (String × α)) (k : String) (v : α) (x : String × α)
    (h : x ∈ bInsert m k v) : x = (k, v) ∨ x ∈ m := by
  induction m with
  | nil => simp [bInsert] at h; exact Or.inl h
  | cons y ys ih =>
    obtain ⟨k', v'⟩ := y
    simp only [bInsert] at h
    split at h
    · simp only [List.mem_cons] at h ⊢
      rcases h with h | h | h
      · exact Or.inl h
      · exact Or.inr (Or.inl h)
      · exact Or.inr (Or.inr h)
    · split at h
      · simp only [List.mem_cons] at h ⊢
        rcases h with h | h
        · exact Or.inl h
        · exact Or.inr (Or.inr h)
      · simp only [List.mem_cons] at h ⊢
        rcases h with h | h
        · exact Or.inr (Or.inl h)
        · rcases ih h with h | h
          · exact Or.inl h
          · exact Or.inr (Or.inr h)

theorem sorted_cons {α} (x : String × α) (m : List (String × α)) :
    Sorted (x :: m) ↔ (∀ y ∈ m, x.1 < y.1) ∧ Sorted m := by
  unfold Sorted
  simp only [List.map_cons, List.pairwise_cons, List.mem_map]
  constructor
  · rintro ⟨h1, h2⟩
    exact ⟨fun y hy => h1 y.1 ⟨y, hy, rfl⟩, h2⟩
  · rintro ⟨h1, h2⟩
    refine ⟨?_, h2⟩
    rintro a ⟨y, hy, rfl⟩
    exact h1 y hy

theorem Sorted.bInsert {α} {m : List (String × α)} (h : Sorted m) (k : String) (v : α) :
    Sorted (bInsert m k v) := by
  induction m with
  | nil => simp [Serde.bInsert, Sorted]
  | cons y ys ih =>
    obtain ⟨k', v'⟩ := y
    rw [sorted_cons] at h
    obtain ⟨hlt, hys⟩ := h
    simp only [Serde.bInsert]
    split
    · rename_i hk
      rw [sorted_cons]
      refine ⟨?_, (sorted_cons _ _).2 ⟨hlt, hys⟩⟩
      intro z hz
      simp only [List.mem_cons] at hz
      rcases hz with hz | hz
      · subst hz; exact hk
      · exact String.lt_trans hk (hlt z hz)
    · split
      · rename_i _ hk
        subst hk
        exact (sorted_cons _ _).2 ⟨hlt, hys⟩
      · rename_i h1 h2
        have hk : k' < k := by
          rcases Std.lt_trichotomy k k' with h | h | h
          · exact absurd h h1
          · exact absurd h h2
          · exact h
        rw [sorted_cons]
        refine ⟨?_, ih hys⟩
        intro z hz
        rcases mem_bInsert _ _ _ _ hz with hz | hz
        · subst hz; exact hk
        · exact hlt z hz

theorem Sorted.extendB {α} {m : List (String × α)} (h : Sorted m) (xs : List (String × α)) :
    Sorted (extendB m xs) := by
  induction xs generalizing m with
  | nil => exact h
  | cons x xs ih => rw [extendB_cons]; exact ih (h.bInsert _ _)

theorem sorted_fromList {α} (xs : List (String × α)) : Sorted (fromList xs) :=
  sorted_nil.extendB xs

theorem mem_extendB {α} (m xs : List (String × α)) (x : String × α) (h : x ∈ extendB m xs) :
    x ∈ m ∨ x ∈ xs := by
  induction xs generalizing m with
  | nil => exact Or.inl h
  | cons y ys ih =>
    rw [extendB_cons] at h
    rcases ih _ h with h | h
    · rcases mem_bInsert _ _ _ _ h with h | h
      · exact Or.inr (by rw [h]; exact List.mem_cons_self ..)
      · exact Or.inl h
    · exact Or.inr (List.mem_cons_of_mem _ h)

theorem mem_fromList {α} (xs : List (String × α)) (x : String × α) (h : x ∈ fromList xs) :
    x ∈ xs := by
  rcases mem_extendB [] xs x h with h | h
  · simp at h
  · exact h

/-! ### `traverse` -/

theorem traverse_map_ok {α β} (f : α → β) (g : β → R α) (xs : List α)
    (h : ∀ x ∈ xs, g (f x) = .ok x) : traverse g (xs.map f) = .ok xs := by
  induction xs with
  | nil => rfl
  | cons x xs ih =>
    simp only [List.map_cons, traverse, h x (List.mem_cons_self ..),
      ih (fun y hy => h y (List.mem_cons_of_mem _ hy))]

theorem traverse_forall {α β} {f : α → R β} {P : β → Prop} (hf : ∀ x y, f x = .ok y → P y) :
    ∀ (xs : List α) (ys : List β), traverse f xs = .ok ys → ∀ y ∈ ys, P y := by
  intro xs
  induction xs with
  | nil => intro ys h; simp [traverse] at h; subst h; simp
  | cons x xs ih =>
    intro ys h
    simp only [traverse] at h
    split at h
    · simp at h
    · rename_i y hy
      split at h
      · simp at h
      · rename_i ys' hys
        simp only [Except.ok.injEq] at h
        subst h
        intro z hz
        simp only [List.mem_cons] at hz
        rcases hz with hz | hz
        · subst hz; exact hf x _ hy
        · exact ih ys' hys z hz

/-! ### loaded maps are sorted, and their values come from the decoder -/

theorem deMapV_sorted {α} {dec : Val → R α} {v : Val} {m : List (String × α)}
    (h : deMapV dec v = .ok m) : Sorted m := by
  unfold deMapV at h
  split at h
  · simp at h
  · rw [map_ok] at h
    obtain ⟨es, _, rfl⟩ := h
    exact sorted_fromList es

theorem deMapV_values {α} {dec : Val → R α} {P : α → Prop} (hd : ∀ v x, dec v = .ok x → P x)
    {v : Val} {m : List (String × α)} (h : deMapV dec v = .ok m) : ∀ kv ∈ m, P kv.2 := by
  unfold deMapV at h
  split at h
  · simp at h
  · rw [map_ok] at h
    obtain ⟨es, hes, rfl⟩ := h
    intro kv hkv
    have hmem := mem_fromList es kv hkv
    refine traverse_forall (P := fun (e : String × α) => P e.2) ?_ _ es hes kv hmem
    intro x y hxy
    unfold decEntry at hxy
    rw [map_ok] at hxy
    obtain ⟨a, ha, rfl⟩ := hxy
    exact hd _ _ ha

theorem deMapV_roundtrip {α} (dec : Val → R α) (s : α → Val) (m : List (String × α))
    (hs : Sorted m) (h : ∀ kv ∈ m, dec (s kv.2) = .ok kv.2) :
    deMapV dec (.map (m.map fun kv => (kv.1, s kv.2))) = .ok m := by
  unfold deMapV
  simp only [entriesV]
  rw [traverse_map_ok]
  · simp [Except.map, fromList_of_sorted m hs]
  · intro kv hkv
    simp [decEntry, h kv hkv, Except.map]

/-! ### field extraction from serialised entries, per-type round trips -/

theorem filter_optE (k k' : String) (o : Option Val) :
    (optE k' o).filter (fun kv => kv.1 = k) = if k' = k then optE k' o else [] := by
  cases o <;> simp [optE, List.filter]
  split <;> simp_all

theorem pick_optE (k k' : String) (o : Option Val) : pick k (optE k' o) = .ok o := by
  cases o <;> rfl

theorem pick_nil (k : String) : pick k [] = .ok none := rfl

theorem rt_strs (xs : List String) : traverse deStr (xs.map Val.str) = .ok xs :=
  traverse_map_ok _ _ _ (fun _ _ => rfl)

theorem rt_deprecatedFields (strs : Val → R (List String)) (d : Deprecated)
    (h : strs (serStrs d.replace) = .ok d.replace) :
    deDeprecatedFields strs (optE "message" (some (.str d.message)) ++ optE "replace" (some (serStrs d.replace))) = .ok d := by
  simp [deDeprecatedFields, fieldOf, List.filter_append, filter_optE, pick_optE, need, optOr, deStr, h, bind, Except.bind]


theorem rt_deprecatedV (d : Deprecated) : deOptDeprecatedV (serDeprecated d) = .ok (some d) := by
  simp [deOptDeprecatedV, serDeprecated, deDeprecatedV, Except.map,
    rt_deprecatedFields (deSeqV deStr) d (by simp [deSeqV, serStrs, rt_strs])]

theorem rt_deprecatedC (d : Deprecated) : deOptDeprecatedC (serDeprecated d) = .ok (some d) := by
  simp [deOptDeprecatedC, serDeprecated, deDeprecatedC, Except.map,
    rt_deprecatedFields (deSeqC deStr) d (by simp [deSeqC, serStrs, rt_strs])]

theorem rt_required (r : Required) : deRequired (serRequired r) = .ok r := by
  cases r with
  | notRequired => rfl
  | required m => cases m <;> rfl

theorem rt_argType (t : ArgType) : deArgType (serArgType t) = .ok t := by
  cases t with
  | constant xs => simp [serArgType, serStrs, deArgType, rt_strs, Except.map]
  | display s => simp [serArgType, deArgType, traverse, decEntry, deStr, Except.map, lastDisplay]
  | _ => rfl

theorem rt_observes (o : Observes) : deObserves (.str (observesName o)) = .ok o := by
  cases o <;> rfl

theorem rt_writability (w : Writability) : deWritability (.str (writabilityName w)) = .ok w := by
  cases w <;> rfl

theorem optOr_required (r : Required) :
    optOr (if r = .required none then none else some (serRequired r)) (.required none) deRequired = .ok r := by
  by_cases h : r = .required none
  · simp [h, optOr]
  · simp [h, optOr, rt_required]

theorem optOr_observes (o : Observes) :
    optOr (if o = .readWrite then none else some (.str (observesName o))) .readWrite deObserves = .ok o := by
  by_cases h : o = .readWrite
  · simp [h, optOr]
  · simp [h, optOr, rt_observes]

theorem optOr_deprecatedC (d : Option Deprecated) :
    optOr (d.map serDeprecated) none deOptDeprecatedC = .ok d := by
  cases d <;> simp [optOr, rt_deprecatedC]

theorem optOr_deprecatedV (d : Option Deprecated) :
    optOr (d.map serDeprecated) none deOptDeprecatedV = .ok d := by
  cases d <;> simp [optOr, rt_deprecatedV]

theorem optOr_trueIf (b : Bool) : optOr (trueIf b) false deBool = .ok b := by
  cases b <;> rfl

theorem rt_arg (a : Argument) : deArg (serArg a) = .ok a := by
  simp [deArg, serArg, serArgEntries, deArgFields, fieldOf, List.filter_append, filter_optE, pick_optE, need,
    optOr_required, optOr_observes, optOr_deprecatedC, rt_argType, bind, Except.bind]

theorem rt_function (f : FunctionBehavior) : tryFunction (serFunctionEntries f) = .ok f := by
  simp [tryFunction, serFunctionEntries, fieldOf, List.filter_append, filter_optE, pick_optE, need,
    optOr_trueIf, deSeqC, traverse_map_ok serArg deArg f.args (fun a _ => rt_arg a), bind, Except.bind]

theorem rt_kind (k : FieldKind) : deKind (serKindEntries k) = .ok k := by
  cases k with
  | function f =>
    have h1 : tryTrue (serFunctionEntries f) "any" = .error "missing field `any`" := by
      simp [tryTrue, serFunctionEntries, fieldOf, List.filter_append, filter_optE, pick_nil, need, bind, Except.bind]
    simp [deKind, serKindEntries, h1, rt_function]
  | any => simp [deKind, serKindEntries, tryTrue, fieldOf, filter_optE, pick_optE, need, deTrueOnly, bind, Except.bind]
  | removed =>
    simp [deKind, serKindEntries, tryTrue, tryFunction, fieldOf, filter_optE, pick_optE, pick_nil, need, deTrueOnly, bind, Except.bind]
  | property w =>
    simp [deKind, serKindEntries, tryTrue, tryFunction, tryProperty, fieldOf, filter_optE, pick_optE, pick_nil, need, rt_writability, bind, Except.bind]
  | struct s =>
    simp [deKind, serKindEntries, tryTrue, tryFunction, tryProperty, tryStruct, fieldOf, filter_optE, pick_optE, pick_nil, need, deStr, bind, Except.bind]

theorem filter_notDep_optE (k' : String) (o : Option Val) :
    (optE k' o).filter notDeprecatedKey = if k' = "deprecated" then [] else optE k' o := by
  cases o <;> simp [optE, List.filter, notDeprecatedKey]
  split <;> simp_all

theorem kind_no_deprecated (k : FieldKind) :
    (serKindEntries k).filter (fun kv => kv.1 = "deprecated") = [] := by
  cases k <;> simp [serKindEntries, serFunctionEntries, List.filter_append, filter_optE]

theorem kind_filter_notDep (k : FieldKind) :
    (serKindEntries k).filter notDeprecatedKey = serKindEntries k := by
  cases k <;> simp [serKindEntries, serFunctionEntries, List.filter_append, filter_notDep_optE]

theorem rt_field (f : Field) : deField (serField f) = .ok f := by
  simp [deField, serField, entriesV, fieldOf, List.filter_append, kind_no_deprecated, kind_filter_notDep,
    filter_optE, filter_notDep_optE, pick_optE, optOr_deprecatedV, rt_kind, bind, Except.bind]

theorem rt_fieldMap (m : FieldMap) (h : Sorted m) : deMapV deField (serFieldMap m) = .ok m :=
  deMapV_roundtrip deField serField m h (fun kv _ => rt_field kv.2)

theorem rt_structs (ss : List (String × FieldMap)) (h : Sorted ss) (hf : ∀ s ∈ ss, Sorted s.2) :
    deMapV (deMapV deField) (.map (ss.map serStructEntry)) = .ok ss :=
  deMapV_roundtrip (deMapV deField) serFieldMap ss h (fun kv hkv => rt_fieldMap kv.2 (hf kv hkv))

theorem rt_class (c : RobloxClass) : deClass (serClass c) = .ok c := by
  simp [deClass, serClass, entriesV, fieldOf, List.filter_append, filter_optE, pick_optE, need, deStr,
    deSeqV, serStrs, rt_strs, bind, Except.bind]

theorem rt_classes (cs : List (String × RobloxClass)) (h : Sorted cs) :
    deMapV deClass (.map (cs.map serClassEntry)) = .ok cs :=
  deMapV_roundtrip deClass serClass cs h (fun kv _ => rt_class kv.2)

theorem versionOfName_name (v : LuaVersion) (h : VersionOk v) : versionOfName (versionName v) = v := by
  cases v with
  | unknown s =>
    simp only [VersionOk, knownVersionNames, List.mem_cons, List.not_mem_nil, or_false, not_or] at h
    simp [versionName, versionOfName, h]
  | _ => rfl

theorem rt_versions (vs : List LuaVersion) (h : ∀ v ∈ vs, VersionOk v) :
    deSeqV deVersion (.seq (vs.map serVersion)) = .ok vs := by
  simp only [deSeqV]
  apply traverse_map_ok
  intro v hv
  simp [deVersion, serVersion, deStr, Except.map, versionOfName_name v (h v hv)]

theorem optOr_optStr (o : Option String) : optOr (o.map Val.str) none deOptStrV = .ok o := by
  cases o <;> simp [optOr, deOptStrV, deStr, Except.map]

theorem optOr_i64 (o : Option Int) (h : I64Ok o) : optOr (o.map Val.int) none deOptI64V = .ok o := by
  cases o with
  | none => rfl
  | some n => simp [I64Ok] at h; simp [optOr, deOptI64V, h]

theorem optOr_nonEmpty {α} (m : List α) (v : Val) (dec : Val → R (List α)) (h : dec v = .ok m) :
    optOr (nonEmpty m v) [] dec = .ok m := by
  cases m <;> simp [nonEmpty, optOr, h]

theorem optOr_some {α} (v : Val) (d : α) (dec : Val → R α) : optOr (some v) d dec = dec v := rfl

theorem libKeys_ok (l : FullLib) : (serLibEntries l).all knownLibKey = true := by
  have h : ∀ k o, k ∈ libKeys → (optE k o).all knownLibKey = true := by
    intro k o hk; cases o <;> simp [optE, knownLibKey, hk]
  simp only [serLibEntries, List.all_append, Bool.and_eq_true]
  refine ⟨⟨⟨⟨⟨⟨⟨?_, ?_⟩, ?_⟩, ?_⟩, ?_⟩, ?_⟩, ?_⟩, ?_⟩ <;> exact h _ _ (by decide)

theorem rt_lib (l : FullLib) (h : WF l) : de (ser l) = .ok l := by
  have hk := libKeys_ok l
  simp only [de, ser, entriesV, bind, Except.bind, hk, if_true]
  simp [serLibEntries, fieldOf, List.filter_append, filter_optE, pick_optE, optOr_optStr,
    optOr_i64 _ h.lastUpdated,
    optOr_nonEmpty _ _ _ (rt_fieldMap _ h.globals),
    optOr_nonEmpty _ _ _ (rt_structs _ h.structs h.structFields),
    optOr_nonEmpty _ _ _ (rt_classes _ h.classes),
    optOr_some, rt_versions _ h.versions]

/-! ### every loaded library is well-formed; so is every upgraded v1 library -/

theorem versionOk_ofName (s : String) : VersionOk (versionOfName s) := by
  unfold versionOfName
  repeat' split
  all_goals simp_all [VersionOk, knownVersionNames]

theorem optOr_elim {α} {o : Option Val} {d : α} {dec : Val → R α} {x : α} {P : α → Prop}
    (h : optOr o d dec = .ok x) (hd : P d) (hdec : ∀ v, dec v = .ok x → P x) : P x := by
  cases o with
  | none => simp [optOr] at h; subst h; exact hd
  | some v => exact hdec v h

theorem deOptI64V_ok {v : Val} {o : Option Int} (h : deOptI64V v = .ok o) : I64Ok o := by
  unfold deOptI64V at h
  split at h
  · simp at h; subst h; trivial
  · split at h
    · simp at h; subst h; assumption
    · simp at h
  · simp at h

theorem deSeqV_forall {α} {dec : Val → R α} {P : α → Prop} (hd : ∀ v x, dec v = .ok x → P x)
    {v : Val} {xs : List α} (h : deSeqV dec v = .ok xs) : ∀ x ∈ xs, P x := by
  unfold deSeqV at h
  split at h
  · exact traverse_forall hd _ _ h
  · simp at h; subst h; simp
  · simp at h

theorem loaded_wf (v : Val) (l : FullLib) (h : de v = .ok l) : WF l := by
  unfold de at h
  rw [bind_ok] at h
  obtain ⟨kvs, _, h⟩ := h
  split at h
  · simp only [bind_ok] at h
    obtain ⟨b, _, n, _, g, _, s, _, lv, _, lu, _, ls, _, rc, _, base, _, name, _, globals, hg,
      structs, hs, luaVersions, hlv, lastUpdated, hlu, lsv, _, classes, hc, h⟩ := h
    simp only [Except.ok.injEq] at h
    subst h
    exact {
      globals := optOr_elim hg sorted_nil (fun _ hv => deMapV_sorted hv)
      structs := optOr_elim hs sorted_nil (fun _ hv => deMapV_sorted hv)
      structFields := optOr_elim (P := fun m => ∀ s ∈ m, Sorted s.2) hs (by simp)
        (fun _ hv => deMapV_values (P := fun m => Sorted m) (fun _ _ hx => deMapV_sorted hx) hv)
      versions := optOr_elim (P := fun m => ∀ x ∈ m, VersionOk x) hlv (by simp)
        (fun _ hv => deSeqV_forall (fun w x hx => by
          unfold deVersion at hx; rw [map_ok] at hx; obtain ⟨a, _, rfl⟩ := hx
          exact versionOk_ofName a) hv)
      lastUpdated := optOr_elim hlu trivial (fun _ hv => deOptI64V_ok hv)
      classes := optOr_elim hc sorted_nil (fun _ hv => deMapV_sorted hv) }
  · simp at h

theorem sorted_foldl_addUnpacked (m : List (String × V1Field)) (acc : FieldMap) (h : Sorted acc) :
    Sorted (m.foldl addUnpacked acc) := by
  induction m generalizing acc with
  | nil => exact h
  | cons x xs ih => exact ih _ (h.extendB _)

theorem sorted_upgradeFields (m : List (String × V1Field)) : Sorted (upgradeFields m) :=
  sorted_foldl_addUnpacked m [] sorted_nil

theorem foldl_addStruct_wf (ss : List (String × List (String × V1Field)))
    (acc : List (String × FieldMap)) (h : Sorted acc) (hv : ∀ s ∈ acc, Sorted s.2) :
    Sorted (ss.foldl addStruct acc) ∧ ∀ s ∈ ss.foldl addStruct acc, Sorted s.2 := by
  induction ss generalizing acc with
  | nil => exact ⟨h, hv⟩
  | cons x xs ih =>
    refine ih _ (h.bInsert _ _) ?_
    intro s hs
    rcases mem_bInsert _ _ _ _ hs with hs | hs
    · subst hs; exact sorted_upgradeFields _
    · exact hv s hs

theorem upgradeStructs_wf (o : Option (List (String × List (String × V1Field)))) :
    Sorted (upgradeStructs o) ∧ ∀ s ∈ upgradeStructs o, Sorted s.2 := by
  cases o with
  | none => exact ⟨sorted_nil, by simp [upgradeStructs]⟩
  | some ss => exact foldl_addStruct_wf ss [] sorted_nil (by simp)

theorem upgrade_wf (v : V1Lib) : WF (upgrade v) := by
  unfold upgrade
  split
  · exact { globals := sorted_upgradeFields _, structs := sorted_nil, structFields := by simp,
            versions := by simp, lastUpdated := trivial, classes := sorted_nil }
  · rename_i m _
    exact { globals := sorted_upgradeFields _, structs := (upgradeStructs_wf m.structs).1,
            structFields := (upgradeStructs_wf m.structs).2,
            versions := by simp, lastUpdated := trivial, classes := sorted_nil }

theorem wfB_iff (l : FullLib) : wfB l = true ↔ WF l := by
  constructor
  · intro h
    simp only [wfB, Bool.and_eq_true, decide_eq_true_eq, List.all_eq_true] at h
    obtain ⟨⟨⟨⟨⟨h1, h2⟩, h3⟩, h4⟩, h5⟩, h6⟩ := h
    exact ⟨h1, h2, h3, h4, h5, h6⟩
  · intro h
    simp only [wfB, Bool.and_eq_true, decide_eq_true_eq, List.all_eq_true]
    exact ⟨⟨⟨⟨⟨h.globals, h.structs⟩, h.structFields⟩, h.versions⟩, h.lastUpdated⟩, h.classes⟩

instance (l : FullLib) : Decidable (WF l) := decidable_of_iff _ (wfB_iff l)


end Selene.Std.Serde
