import Selene.Std.Trie
import Selene.Std.ExtendLemmas
namespace Selene.Std

/-- node reached by following a non-empty path of exact segment names -/
def nodeAt : Children → Path → Option Node
  | _, [] => none
  | ch, [s] => getKV ch s
  | ch, s :: r :: rest =>
    match getKV ch s with
    | some n => nodeAt n.children (r :: rest)
    | none => none

@[simp] theorem Node.field_mk (f : TreeField) (c : Children) : (Node.mk f c).field = f := rfl
@[simp] theorem Node.children_mk (f : TreeField) (c : Children) : (Node.mk f c).children = c := rfl

def fieldAt (ch : Children) (q : Path) : Option TreeField := (nodeAt ch q).map Node.field

theorem nodeAt_nil_children (q : Path) : nodeAt [] q = none := by
  cases q with
  | nil => rfl
  | cons s rest => cases rest <;> simp [nodeAt]

theorem nodeAt_cons (ch : Children) (s : String) (rest : Path) (h : rest ≠ []) :
    nodeAt ch (s :: rest) = nodeAt (childCh ch s) rest := by
  cases rest with
  | nil => exact absurd rfl h
  | cons r rest =>
    simp only [nodeAt, childCh]
    cases getKV ch s with
    | none => simp [nodeAt_nil_children]
    | some n => rfl

theorem fieldAt_single (ch : Children) (s : String) :
    fieldAt ch [s] = (getKV ch s).map Node.field := rfl

theorem fieldAt_cons (ch : Children) (s : String) (rest : Path) (h : rest ≠ []) :
    fieldAt ch (s :: rest) = fieldAt (childCh ch s) rest := by
  unfold fieldAt; rw [nodeAt_cons ch s rest h]

theorem childField_eq (ch : Children) (s : String) :
    childField ch s = (fieldAt ch [s]).getD .readOnly := by
  unfold childField; rw [fieldAt_single]
  cases getKV ch s <;> rfl

/-- **Lemma A.** Effect of one key insertion on every observable node field. -/
theorem fieldAt_insertSegs (segs key : Path) (ch : Children) (q : Path)
    (hs : segs ≠ []) (hq : q ≠ []) :
    fieldAt (insertSegs segs key ch) q =
      if q = segs then some (.key key)
      else if q.isPrefixOf segs then some ((fieldAt ch q).getD .readOnly)
      else fieldAt ch q := by
  induction segs generalizing ch q with
  | nil => exact absurd rfl hs
  | cons seg more ih =>
    cases q with
    | nil => exact absurd rfl hq
    | cons s qrest =>
      cases more with
      | nil =>
        -- segs = [seg]
        simp only [insertSegs]
        cases qrest with
        | nil =>
          rw [fieldAt_single, getKV_insertKV, fieldAt_single]
          by_cases h : seg = s
          · subst h; simp
          · have h' : ¬ s = seg := fun e => h e.symm
            simp [h, h', List.isPrefixOf]
        | cons r' qr =>
          rw [fieldAt_cons (insertKV _ _ _) s (r' :: qr) (by simp), fieldAt_cons ch s (r' :: qr) (by simp)]
          have hne : ¬ (s :: r' :: qr) = [seg] := by simp
          by_cases h : seg = s
          · subst h
            have : childCh (insertKV ch seg (Node.mk (TreeField.key key) (childCh ch seg))) seg
                = childCh ch seg := by
              simp [childCh, getKV_insertKV, Node.children]
            rw [this]
            simp [List.isPrefixOf]
          · have h' : ¬ s = seg := fun e => h e.symm
            have : childCh (insertKV ch seg (Node.mk (TreeField.key key) (childCh ch seg))) s
                = childCh ch s := by
              simp [childCh, getKV_insertKV, h]
            rw [this]
            simp [List.isPrefixOf, h']
      | cons r rest =>
        simp only [insertSegs]
        cases qrest with
        | nil =>
          rw [fieldAt_single, getKV_insertKV, fieldAt_single]
          by_cases h : seg = s
          · subst h
            have := childField_eq ch seg
            rw [fieldAt_single] at this
            simp [this, Node.field, List.isPrefixOf]
          · have h' : ¬ s = seg := fun e => h e.symm
            simp [h, h', List.isPrefixOf]
        | cons r' qr =>
          rw [fieldAt_cons (insertKV _ _ _) s (r' :: qr) (by simp), fieldAt_cons ch s (r' :: qr) (by simp)]
          by_cases h : seg = s
          · subst h
            have : childCh (insertKV ch seg (Node.mk (childField ch seg)
                (insertSegs (r :: rest) key (childCh ch seg)))) seg
                = insertSegs (r :: rest) key (childCh ch seg) := by
              simp [childCh, getKV_insertKV, Node.children]
            rw [this, ih (childCh ch seg) (r' :: qr) (by simp) (by simp)]
            simp [List.isPrefixOf]
          · have h' : ¬ s = seg := fun e => h e.symm
            have : childCh (insertKV ch seg (Node.mk (childField ch seg)
                (insertSegs (r :: rest) key (childCh ch seg)))) s = childCh ch s := by
              simp [childCh, getKV_insertKV, h]
            rw [this]
            simp [List.isPrefixOf, h']

def hasKey (m : SegMap) (q : Path) : Bool := m.any (·.1 = q)
def hasPrefix (m : SegMap) (q : Path) : Bool := m.any (q.isPrefixOf ·.1)

def KeysNonempty (m : SegMap) : Prop := ∀ kf ∈ m, kf.1 ≠ []

theorem isPrefixOf_refl (q : Path) : q.isPrefixOf q = true := by
  induction q with
  | nil => rfl
  | cons a as ih => simp [List.isPrefixOf, ih]

theorem hasPrefix_of_hasKey {m : SegMap} {q : Path} (h : hasKey m q = true) : hasPrefix m q = true := by
  unfold hasKey at h; unfold hasPrefix
  rw [List.any_eq_true] at h ⊢
  obtain ⟨kf, hm, he⟩ := h
  refine ⟨kf, hm, ?_⟩
  have : kf.1 = q := by simpa using he
  rw [this]; exact isPrefixOf_refl q

/-- **Lemma B (generalised over the accumulator).** -/
theorem fieldAt_fold (m : SegMap) (acc : Children) (q : Path) (hne : KeysNonempty m) (hq : q ≠ []) :
    fieldAt (m.foldl (fun acc kf => insertSegs kf.1 kf.1 acc) acc) q =
      if hasKey m q then some (.key q)
      else if hasPrefix m q then some ((fieldAt acc q).getD .readOnly)
      else fieldAt acc q := by
  induction m generalizing acc with
  | nil => simp [hasKey, hasPrefix]
  | cons kf rest ih =>
    have hk : kf.1 ≠ [] := hne kf (by simp)
    have hrest : KeysNonempty rest := fun x hx => hne x (by simp [hx])
    simp only [List.foldl_cons]
    rw [ih _ hrest, fieldAt_insertSegs _ _ _ _ hk hq]
    simp only [hasKey, hasPrefix, List.any_cons]
    by_cases h1 : rest.any (fun x => decide (x.1 = q)) = true
    · simp [h1]
    · simp only [h1]
      by_cases h0 : q = kf.1
      · subst h0
        simp only [decide_true, Bool.true_or, if_true]
        by_cases h2 : rest.any (fun x => kf.1.isPrefixOf x.1) = true <;> simp [h2]
      · have h0' : ¬ kf.1 = q := fun e => h0 e.symm
        simp only [h0, h0', decide_false, Bool.false_or, if_false]
        by_cases h2 : rest.any (fun x => q.isPrefixOf x.1) = true
        · simp only [h2, if_true, Bool.or_true]
          by_cases h3 : q.isPrefixOf kf.1 = true <;> simp [h3]
        · simp only [h2]
          by_cases h3 : q.isPrefixOf kf.1 = true <;> simp [h3]

theorem fieldAt_extract (m : SegMap) (q : Path) (hne : KeysNonempty m) (hq : q ≠ []) :
    fieldAt (extractIntoTree m) q =
      if hasKey m q then some (.key q)
      else if hasPrefix m q then some .readOnly
      else none := by
  unfold extractIntoTree
  rw [fieldAt_fold m [] q hne hq]
  simp [fieldAt, nodeAt_nil_children]

end Selene.Std
