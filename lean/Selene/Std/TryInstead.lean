/-
Model of `Deprecated::try_instead` (selene-lib/src/standard_library/mod.rs:478-520): the first
replacement format all of whose `%<number>` placeholders are in range, with `%%` ↦ `%`,
`%...` ↦ the parameters joined by ", ".  The regex `%(%|([0-9]+)|(\.\.\.))` is modelled by a
left-to-right scanner; `parse::<u32>` fails above 2³²−1.  The index into `parameters` carries its
bounds proof: that the function type-checks IS the absence of the out-of-bounds / underflow panic.
-/
namespace Selene.Std

def digitsToNat (ds : List Char) : Nat := ds.foldl (fun acc c => acc * 10 + (c.toNat - '0'.toNat)) 0

/-- longest prefix of ASCII digits -/
def takeDigits : List Char → List Char × List Char
  | [] => ([], [])
  | c :: rest => if c.isDigit then let (d, r) := takeDigits rest; (c :: d, r) else ([], c :: rest)

theorem takeDigits_length (l : List Char) : (takeDigits l).2.length ≤ l.length := by
  induction l with
  | nil => simp [takeDigits]
  | cons c rest ih =>
    simp only [takeDigits]
    split
    · simp only [List.length_cons]; omega
    · simp

/-- expand one format; `none` = the format does not apply (`success = false`) -/
def expand (params : Array String) : (fuel : Nat) → List Char → Option (List Char)
  | 0, _ => some []
  | _, [] => some []
  | fuel + 1, c :: rest =>
    if c = '%' then
      match rest with
      | '%' :: r => (expand params fuel r).map fun t => '%' :: t
      | '.' :: '.' :: '.' :: r => (expand params fuel r).map fun t => (", ".intercalate params.toList).toList ++ t
      | d :: r =>
        if d.isDigit then
          let (ds, after) := takeDigits (d :: r)
          let n := digitsToNat ds
          -- `parse::<u32>()` fails on overflow; `number > len || number == 0` rejects the format
          if h : n < 4294967296 ∧ 0 < n ∧ n ≤ params.size then
            (expand params fuel after).map fun t => (params[n - 1]'(by omega)).toList ++ t
          else none
        else (expand params fuel (d :: r)).map fun t => '%' :: t      -- a lone `%`: not a placeholder
      | [] => some ['%']
    else (expand params fuel rest).map fun t => c :: t

/-- `try_instead`: the first format that applies -/
def tryInstead (formats : List String) (params : Array String) : Option String :=
  match formats.findSome? (fun f => expand params (f.length + 1) f.toList) with
  | some cs => some (String.ofList cs)
  | none => none

end Selene.Std
