/-
Model of the (de)serialisation of a standard library at serde's *data-model* level, of the v1
(TOML-era) library tree and of its upgrade to the current library.

Code modelled
* `selene-lib/src/standard_library/mod.rs`: derived `Serialize`/`Deserialize` of `StandardLibrary`
  (`deny_unknown_fields`, `skip_serializing_if`, defaults), `Field` (`#[serde(flatten)]` + the
  untagged `FieldKindSerde` whose variant order Any, Function, Removed, Property, Struct decides),
  `FunctionBehavior`, `Argument`, the hand-written visitors of `ArgumentType` and `Required`,
  `TrueOnly`, `Deprecated` (kebab-case), `Observes`, `PropertyWritability`, `RobloxClass`;
  `lua_versions.rs`: `LuaVersion` (`Unknown(String)` fall-back).
* `selene-lib/src/standard_library/v1.rs` (the value tree only) and `v1_upgrade.rs`
  (`From<v1::StandardLibrary>`, `unpack_v1_field` with its explicit LIFO stack).

`Val` is what `serde_yaml::Value` / serde's private `Content` buffer hold.  Two families of decoders
are needed because the two deserialisers that selene's types meet behave differently:
* `…V` — the value is handed to the type directly by `serde_yaml::Value`'s deserialiser
  (`null` is accepted for a sequence / mapping and means "empty"; a struct must be a mapping);
* `…C` — the value has been buffered into `Content` first, which happens for everything below a
  `Field` because of `#[serde(flatten)]` + `#[serde(untagged)]` (`null` is *not* an empty
  sequence; a struct may also be given as a sequence of its fields; a unit enum variant may be
  given as a one-entry map `{variant: null}`).

What is *not* modelled: YAML / TOML text (emission, quoting, parsing — `serde_yaml`, `toml`), error
*messages* and which of several errors is reported first (only ok / error and the loaded value),
YAML tags, non-string map keys, floating point scalars (every decoder below rejects them exactly as
it rejects an integer).  A derived struct visitor walks the entries in order and fails on a repeated
known key; `fieldOf` gives the same ok / error outcome without the walk.
-/
import Selene.Std.Basic
namespace Selene.Std.Serde
open Selene.Std

deriving instance DecidableEq for Except

/-- serde data-model values as they occur in a YAML document -/
inductive Val where
  | null
  | bool (b : Bool)
  | int (n : Int)
  | str (s : String)
  | seq (xs : List Val)
  | map (kvs : List (String × Val))
deriving Inhabited, Repr

abbrev R := Except String
abbrev Entries := List (String × Val)

structure RobloxClass where
  superclass : String
  events : List String
  properties : List String
deriving DecidableEq, Repr, Inhabited

/-- `StandardLibrary` with the fields `Selene.Std.Lib` leaves out (`global_tree_cache` is
    `#[serde(skip)]` and not part of the value). -/
structure FullLib where
  core : Lib := {}
  lastUpdated : Option Int := none
  lastSeleneVersion : Option String := none
  robloxClasses : List (String × RobloxClass) := []
deriving DecidableEq, Repr, Inhabited

/-! ## `BTreeMap<String, _>` as a key-sorted association list -/

/-- `BTreeMap::insert` -/
def bInsert {α} : List (String × α) → String → α → List (String × α)
  | [], k, v => [(k, v)]
  | (k', v') :: rest, k, v =>
    if k < k' then (k, v) :: (k', v') :: rest
    else if k = k' then (k, v) :: rest
    else (k', v') :: bInsert rest k v

/-- `BTreeMap::extend(iter)` / `FromIterator`: insert every pair in turn (later pairs win) -/
def extendB {α} (m : List (String × α)) (xs : List (String × α)) : List (String × α) :=
  xs.foldl (fun acc kv => bInsert acc kv.1 kv.2) m

def fromList {α} (xs : List (String × α)) : List (String × α) := extendB [] xs

/-- apply a fallible decoder to every element, failing at the first error (`Vec<T>` / map visitors) -/
def traverse {α β} (f : α → R β) : List α → R (List β)
  | [] => .ok []
  | x :: xs =>
    match f x with
    | .error e => .error e
    | .ok y =>
      match traverse f xs with
      | .error e => .error e
      | .ok ys => .ok (y :: ys)

/-! ## names -/

def knownVersionNames : List String := ["lua51", "lua52", "lua53", "lua54", "luau", "luajit"]

/-- `LuaVersion::to_str` -/
def versionName : LuaVersion → String
  | .lua51 => "lua51" | .lua52 => "lua52" | .lua53 => "lua53" | .lua54 => "lua54"
  | .luau => "luau" | .luajit => "luajit" | .unknown s => s

/-- `LuaVersion::from_str` with the `Unknown` fall-back of its `Deserialize` -/
def versionOfName (s : String) : LuaVersion :=
  if s = "lua51" then .lua51 else if s = "lua52" then .lua52 else if s = "lua53" then .lua53
  else if s = "lua54" then .lua54 else if s = "luau" then .luau else if s = "luajit" then .luajit
  else .unknown s

def observesName : Observes → String
  | .readWrite => "read-write" | .read => "read" | .write => "write"

def observesOfName (s : String) : Option Observes :=
  if s = "read-write" then some .readWrite else if s = "read" then some .read
  else if s = "write" then some .write else none

def writabilityName : Writability → String
  | .readOnly => "read-only" | .newFields => "new-fields"
  | .overrideFields => "override-fields" | .fullWrite => "full-write"

def writabilityOfName (s : String) : Option Writability :=
  if s = "read-only" then some .readOnly else if s = "new-fields" then some .newFields
  else if s = "override-fields" then some .overrideFields
  else if s = "full-write" then some .fullWrite else none

/-- `ArgumentTypeVisitor::visit_str` -/
def argTypeOfName (s : String) : Option ArgType :=
  if s = "any" then some .any else if s = "bool" then some .bool
  else if s = "function" then some .function else if s = "nil" then some .nil
  else if s = "number" then some .number else if s = "string" then some .string
  else if s = "table" then some .table else if s = "..." then some .vararg else none

/-! ## Serialisation (`serde_yaml::to_value`) -/

/-- one struct field that may be skipped (`skip_serializing_if`) -/
def optE (k : String) : Option Val → Entries
  | none => []
  | some v => [(k, v)]

/-- a `BTreeMap` field with `skip_serializing_if = "BTreeMap::is_empty"` -/
def nonEmpty {α} (m : List α) (v : Val) : Option Val :=
  match m with
  | [] => none
  | _ :: _ => some v

def serStrs (xs : List String) : Val := .seq (xs.map .str)

def serDeprecated (d : Deprecated) : Val :=
  .map (optE "message" (some (.str d.message)) ++ optE "replace" (some (serStrs d.replace)))

def serArgType : ArgType → Val
  | .any => .str "any" | .bool => .str "bool" | .function => .str "function"
  | .nil => .str "nil" | .number => .str "number" | .string => .str "string"
  | .table => .str "table" | .vararg => .str "..."
  | .constant xs => serStrs xs
  | .display s => .map [("display", .str s)]

def serRequired : Required → Val
  | .notRequired => .bool false
  | .required none => .bool true
  | .required (some m) => .str m

def trueIf (b : Bool) : Option Val := if b then some (.bool true) else none

def serArgEntries (a : Argument) : Entries :=
  optE "required" (if a.required = .required none then none else some (serRequired a.required))
  ++ optE "type" (some (serArgType a.type))
  ++ optE "observes" (if a.observes = .readWrite then none else some (.str (observesName a.observes)))
  ++ optE "deprecated" (a.deprecated.map serDeprecated)

def serArg (a : Argument) : Val := .map (serArgEntries a)

def serFunctionEntries (f : FunctionBehavior) : Entries :=
  optE "args" (some (.seq (f.args.map serArg)))
  ++ optE "method" (trueIf f.method)
  ++ optE "must_use" (trueIf f.mustUse)

/-- `FieldKind::serialize` through `FieldKindSerde`, flattened into the field's map -/
def serKindEntries : FieldKind → Entries
  | .any => optE "any" (some (.bool true))
  | .function f => serFunctionEntries f
  | .removed => optE "removed" (some (.bool true))
  | .property w => optE "property" (some (.str (writabilityName w)))
  | .struct s => optE "struct" (some (.str s))

def serField (f : Field) : Val :=
  .map (serKindEntries f.kind ++ optE "deprecated" (f.deprecated.map serDeprecated))

def serFieldEntry (kf : String × Field) : String × Val := (kf.1, serField kf.2)

/-- `BTreeMap<String, Field>`: entries in iteration (= key) order; the model's list is in that
    order when it is `Sorted`, which is what `WF` demands -/
def serFieldMap (m : FieldMap) : Val := .map (m.map serFieldEntry)

def serStructEntry (s : String × FieldMap) : String × Val := (s.1, serFieldMap s.2)

def serClass (c : RobloxClass) : Val :=
  .map (optE "superclass" (some (.str c.superclass)) ++ optE "events" (some (serStrs c.events))
        ++ optE "properties" (some (serStrs c.properties)))

def serClassEntry (c : String × RobloxClass) : String × Val := (c.1, serClass c.2)

def serVersion (v : LuaVersion) : Val := .str (versionName v)

def serLibEntries (l : FullLib) : Entries :=
  optE "base" (l.core.base.map .str)
  ++ optE "name" (l.core.name.map .str)
  ++ optE "globals" (nonEmpty l.core.globals (serFieldMap l.core.globals))
  ++ optE "structs" (nonEmpty l.core.structs (.map (l.core.structs.map serStructEntry)))
  ++ optE "lua_versions" (some (.seq (l.core.luaVersions.map serVersion)))
  ++ optE "last_updated" (l.lastUpdated.map .int)
  ++ optE "last_selene_version" (l.lastSeleneVersion.map .str)
  ++ optE "roblox_classes" (nonEmpty l.robloxClasses (.map (l.robloxClasses.map serClassEntry)))

/-- `serde_yaml::to_value(&standard_library)` -/
def ser (l : FullLib) : Val := .map (serLibEntries l)

/-! ## Deserialisation (`serde_yaml::from_value::<StandardLibrary>`) -/

def pick (k : String) : Entries → R (Option Val)
  | [] => .ok none
  | [kv] => .ok (some kv.2)
  | _ :: _ :: _ => .error ("duplicate field `" ++ k ++ "`")

/-- what a derived struct visitor ends up holding for field `k` -/
def fieldOf (kvs : Entries) (k : String) : R (Option Val) :=
  pick k (kvs.filter fun kv => kv.1 = k)

/-- `#[serde(default)]` field -/
def optOr {α} (o : Option Val) (dflt : α) (dec : Val → R α) : R α :=
  match o with
  | none => .ok dflt
  | some v => dec v

/-- field without a default (`missing_field`; none of the required fields here is an `Option`) -/
def need {α} (k : String) (o : Option Val) (dec : Val → R α) : R α :=
  match o with
  | none => .error ("missing field `" ++ k ++ "`")
  | some v => dec v

def deStr : Val → R String
  | .str s => .ok s
  | _ => .error "invalid type: expected a string"

def deBool : Val → R Bool
  | .bool b => .ok b
  | _ => .error "invalid type: expected a boolean"

/-- `Option<String>` straight from `serde_yaml::Value` -/
def deOptStrV : Val → R (Option String)
  | .null => .ok none
  | v => (deStr v).map some

def inI64 (n : Int) : Prop := -2^63 ≤ n ∧ n < 2^63
instance (n : Int) : Decidable (inI64 n) := by unfold inI64; infer_instance

/-- `Option<i64>` straight from `serde_yaml::Value` -/
def deOptI64V : Val → R (Option Int)
  | .null => .ok none
  | .int n => if inI64 n then .ok (some n) else .error "invalid value: integer out of range for i64"
  | _ => .error "invalid type: expected i64"

/-- `Value::deserialize_seq`: a sequence, or `null` for the empty one -/
def deSeqV {α} (dec : Val → R α) : Val → R (List α)
  | .seq xs => traverse dec xs
  | .null => .ok []
  | _ => .error "invalid type: expected a sequence"

/-- `ContentRefDeserializer::deserialize_seq`: a sequence only -/
def deSeqC {α} (dec : Val → R α) : Val → R (List α)
  | .seq xs => traverse dec xs
  | _ => .error "invalid type: expected a sequence"

/-- `Value::deserialize_map` / `deserialize_struct`: a mapping, or `null` for the empty one -/
def entriesV : Val → R Entries
  | .map kvs => .ok kvs
  | .null => .ok []
  | _ => .error "invalid type: expected a mapping"

def decEntry {α} (dec : Val → R α) (kv : String × Val) : R (String × α) :=
  (dec kv.2).map fun x => (kv.1, x)

/-- `BTreeMap<String, T>` straight from `serde_yaml::Value` -/
def deMapV {α} (dec : Val → R α) (v : Val) : R (List (String × α)) :=
  match entriesV v with
  | .error e => .error e
  | .ok kvs => (traverse (decEntry dec) kvs).map fromList

/-- `Deprecated` from the entries of a map (`message` required, `replace` defaulted; other keys ignored) -/
def deDeprecatedFields (strs : Val → R (List String)) (kvs : Entries) : R Deprecated := do
  let m ← fieldOf kvs "message"
  let r ← fieldOf kvs "replace"
  let message ← need "message" m deStr
  let replace ← optOr r [] strs
  .ok { message, replace }

/-- `Field::deprecated` — read directly from the `serde_yaml` mapping -/
def deDeprecatedV : Val → R Deprecated
  | .map kvs => deDeprecatedFields (deSeqV deStr) kvs
  | _ => .error "invalid type: expected struct Deprecated"

def deOptDeprecatedV : Val → R (Option Deprecated)
  | .null => .ok none
  | v => (deDeprecatedV v).map some

/-- `Argument::deprecated` — read from buffered `Content`: a map, or the fields in order -/
def deDeprecatedC : Val → R Deprecated
  | .map kvs => deDeprecatedFields (deSeqC deStr) kvs
  | .seq [m] => do
    let message ← deStr m
    .ok { message, replace := [] }
  | .seq [m, r] => do
    let message ← deStr m
    let replace ← deSeqC deStr r
    .ok { message, replace }
  | _ => .error "invalid type / length: expected struct Deprecated"

def deOptDeprecatedC : Val → R (Option Deprecated)
  | .null => .ok none
  | v => (deDeprecatedC v).map some

/-- `RequiredVisitor` -/
def deRequired : Val → R Required
  | .bool true => .ok (.required none)
  | .bool false => .ok .notRequired
  | .str s => .ok (.required (some s))
  | _ => .error "invalid type: expected a boolean or a string message (when required)"

def lastDisplay : List (String × String) → Option String
  | [] => none
  | (k, v) :: rest =>
    match lastDisplay rest with
    | some d => some d
    | none => if k = "display" then some v else none

/-- `ArgumentTypeVisitor` -/
def deArgType : Val → R ArgType
  | .str s =>
    match argTypeOfName s with
    | some t => .ok t
    | none => .error ("unknown type " ++ s)
  | .seq xs => (traverse deStr xs).map .constant
  | .map kvs =>
    -- `HashMap<String, String>`: every value must be a string, a repeated key keeps the last
    match traverse (decEntry deStr) kvs with
    | .error e => .error e
    | .ok es =>
      match lastDisplay es with
      | some d => .ok (.display d)
      | none => .error "map value must have a `display` property"
  | _ => .error "invalid type: expected an argument type or an array of constant strings"

/-- a fieldless enum read from `Content`: the variant name, or `{name: null}` -/
def deUnitEnumC {α} (ofName : String → Option α) : Val → R α
  | .str s =>
    match ofName s with
    | some x => .ok x
    | none => .error ("unknown variant " ++ s)
  | .map [(k, .null)] =>
    match ofName k with
    | some x => .ok x
    | none => .error ("unknown variant " ++ k)
  | _ => .error "invalid type: expected string or map with a single key"

def deObserves : Val → R Observes := deUnitEnumC observesOfName
def deWritability : Val → R Writability := deUnitEnumC writabilityOfName

def deArgFields (kvs : Entries) : R Argument := do
  let r ← fieldOf kvs "required"
  let t ← fieldOf kvs "type"
  let o ← fieldOf kvs "observes"
  let d ← fieldOf kvs "deprecated"
  let required ← optOr r (.required none) deRequired
  let type ← need "type" t deArgType
  let observes ← optOr o .readWrite deObserves
  let deprecated ← optOr d none deOptDeprecatedC
  .ok { required, type, observes, deprecated }

/-- `Argument` from buffered `Content`: a map, or the fields in declaration order -/
def deArg : Val → R Argument
  | .map kvs => deArgFields kvs
  | .seq [r, t] => do
    let required ← deRequired r
    let type ← deArgType t
    .ok { required, type }
  | .seq [r, t, o] => do
    let required ← deRequired r
    let type ← deArgType t
    let observes ← deObserves o
    .ok { required, type, observes }
  | .seq [r, t, o, d] => do
    let required ← deRequired r
    let type ← deArgType t
    let observes ← deObserves o
    let deprecated ← deOptDeprecatedC d
    .ok { required, type, observes, deprecated }
  | _ => .error "invalid type / length: expected struct Argument"

/-- untagged variant `Function(FunctionBehavior)` -/
def tryFunction (kvs : Entries) : R FunctionBehavior := do
  let a ← fieldOf kvs "args"
  let m ← fieldOf kvs "method"
  let u ← fieldOf kvs "must_use"
  let args ← need "args" a (deSeqC deArg)
  let method ← optOr m false deBool
  let mustUse ← optOr u false deBool
  .ok { args, method, mustUse }

/-- `TrueOnly` -/
def deTrueOnly : Val → R Unit
  | .bool true => .ok ()
  | _ => .error "expected `true`"

/-- untagged variants `Any { any: TrueOnly }` / `Removed { removed: TrueOnly }` -/
def tryTrue (kvs : Entries) (k : String) : R Unit := do
  let o ← fieldOf kvs k
  need k o deTrueOnly

def tryProperty (kvs : Entries) : R Writability := do
  let o ← fieldOf kvs "property"
  need "property" o deWritability

def tryStruct (kvs : Entries) : R String := do
  let o ← fieldOf kvs "struct"
  need "struct" o deStr

/-- `FieldKindSerde` (untagged): the first variant, in declaration order, that deserialises -/
def deKind (kvs : Entries) : R FieldKind :=
  match tryTrue kvs "any" with
  | .ok _ => .ok .any
  | .error _ =>
    match tryFunction kvs with
    | .ok f => .ok (.function f)
    | .error _ =>
      match tryTrue kvs "removed" with
      | .ok _ => .ok .removed
      | .error _ =>
        match tryProperty kvs with
        | .ok w => .ok (.property w)
        | .error _ =>
          match tryStruct kvs with
          | .ok s => .ok (.struct s)
          | .error _ => .error "data did not match any variant of untagged enum FieldKindSerde"

def notDeprecatedKey (kv : String × Val) : Bool := kv.1 != "deprecated"

/-- `Field` (flatten): `deprecated` is taken by name, everything else is buffered and offered to
    the untagged kind; what the kind does not use is ignored -/
def deField (v : Val) : R Field := do
  let kvs ← entriesV v
  let d ← fieldOf kvs "deprecated"
  let deprecated ← optOr d none deOptDeprecatedV
  let kind ← deKind (kvs.filter notDeprecatedKey)
  .ok { kind, deprecated }

def deVersion (v : Val) : R LuaVersion := (deStr v).map versionOfName

def deClass (v : Val) : R RobloxClass := do
  let kvs ← entriesV v
  let s ← fieldOf kvs "superclass"
  let e ← fieldOf kvs "events"
  let p ← fieldOf kvs "properties"
  let superclass ← need "superclass" s deStr
  let events ← need "events" e (deSeqV deStr)
  let properties ← need "properties" p (deSeqV deStr)
  .ok { superclass, events, properties }

def libKeys : List String :=
  ["base", "name", "globals", "structs", "lua_versions", "last_updated", "last_selene_version",
   "roblox_classes"]

def knownLibKey (kv : String × Val) : Bool := libKeys.contains kv.1

/-- `serde_yaml::from_value::<StandardLibrary>` -/
def de (v : Val) : R FullLib := do
  let kvs ← entriesV v
  if kvs.all knownLibKey then
    let b ← fieldOf kvs "base"
    let n ← fieldOf kvs "name"
    let g ← fieldOf kvs "globals"
    let s ← fieldOf kvs "structs"
    let lv ← fieldOf kvs "lua_versions"
    let lu ← fieldOf kvs "last_updated"
    let ls ← fieldOf kvs "last_selene_version"
    let rc ← fieldOf kvs "roblox_classes"
    let base ← optOr b none deOptStrV
    let name ← optOr n none deOptStrV
    let globals ← optOr g [] (deMapV deField)
    let structs ← optOr s [] (deMapV (deMapV deField))
    let luaVersions ← optOr lv [] (deSeqV deVersion)
    let lastUpdated ← optOr lu none deOptI64V
    let lastSeleneVersion ← optOr ls none deOptStrV
    let robloxClasses ← optOr rc [] (deMapV deClass)
    .ok { core := { base, name, globals, structs, luaVersions },
          lastUpdated, lastSeleneVersion, robloxClasses }
  else .error "unknown field"

/-! ## Well-formedness: what the round trip needs and every loaded library has -/

def Sorted {α} (m : List (String × α)) : Prop := (m.map (·.1)).Pairwise (· < ·)

instance {α} (m : List (String × α)) : Decidable (Sorted m) := by unfold Sorted; infer_instance

/-- `LuaVersion::Unknown(s)` must not spell a known version (it would load as that version) -/
def VersionOk : LuaVersion → Prop
  | .unknown s => s ∉ knownVersionNames
  | _ => True

instance (v : LuaVersion) : Decidable (VersionOk v) := by
  cases v <;> (unfold VersionOk; infer_instance)

def I64Ok : Option Int → Prop
  | none => True
  | some n => inI64 n

instance (o : Option Int) : Decidable (I64Ok o) := by cases o <;> (unfold I64Ok; infer_instance)

structure WF (l : FullLib) : Prop where
  globals : Sorted l.core.globals
  structs : Sorted l.core.structs
  structFields : ∀ s ∈ l.core.structs, Sorted s.2
  versions : ∀ v ∈ l.core.luaVersions, VersionOk v
  lastUpdated : I64Ok l.lastUpdated
  classes : Sorted l.robloxClasses

def wfB (l : FullLib) : Bool :=
  decide (Sorted l.core.globals) && decide (Sorted l.core.structs)
  && l.core.structs.all (fun s => decide (Sorted s.2))
  && l.core.luaVersions.all (fun v => decide (VersionOk v))
  && decide (I64Ok l.lastUpdated) && decide (Sorted l.robloxClasses)

/-! ## v1 (TOML) libraries and their upgrade -/

structure V1Arg where
  required : Required
  type : ArgType
deriving DecidableEq, Repr, Inhabited

structure V1Fn where
  args : List V1Arg
  method : Bool
deriving DecidableEq, Repr, Inhabited

inductive V1Writable where
  | newFields | overridden | full
deriving DecidableEq, Repr, Inhabited

inductive V1Field where
  | any
  | complex (fn : Option V1Fn) (table : List (String × V1Field))
  | property (w : Option V1Writable)
  | struct (name : String)
  | removed
deriving Repr, Inhabited

structure V1Meta where
  base : Option String := none
  name : Option String := none
  structs : Option (List (String × List (String × V1Field))) := none
deriving Repr, Inhabited

structure V1Lib where
  selene : Option V1Meta := none   -- `meta`, serde name `selene`
  globals : List (String × V1Field) := []
deriving Repr, Inhabited

/-- `From<v1::Argument> for Argument` -/
def upArg (a : V1Arg) : Argument :=
  { required := a.required, type := a.type, observes := .readWrite, deprecated := none }

/-- `From<Option<v1::Writable>> for PropertyWritability` -/
def upWritable : Option V1Writable → Writability
  | some .full => .fullWrite
  | some .newFields => .newFields
  | some .overridden => .overrideFields
  | none => .readOnly

def upFn (f : V1Fn) : Field :=
  { kind := .function { args := f.args.map upArg, method := f.method, mustUse := false } }

def ownFn (name : String) : Option V1Fn → List (String × Field)
  | none => []
  | some f => [(name, upFn f)]

/- `unpack_v1_field`: the sequence of `upgraded_fields.insert` calls.  The loop pops the LIFO
   stack: a complex field first pushes its children (in key order) and then inserts its own
   function, so the next field handled is its *last* child, whose whole subtree is finished
   before the previous sibling is popped. -/
mutual
def unpackSeq (name : String) : V1Field → List (String × Field)
  | .any => [(name, { kind := .any })]
  | .complex fn table => ownFn name fn ++ unpackChildren name table
  | .property w => [(name, { kind := .property (upWritable w) })]
  | .struct s => [(name, { kind := .struct s })]
  | .removed => [(name, { kind := .removed })]
def unpackChildren (name : String) : List (String × V1Field) → List (String × Field)
  | [] => []
  | (c, cf) :: rest => unpackChildren name rest ++ unpackSeq (name ++ "." ++ c) cf
end

/-- `unpack_v1_field(name, field)` as a `BTreeMap` -/
def unpack (name : String) (f : V1Field) : FieldMap := fromList (unpackSeq name f)

def addUnpacked (acc : FieldMap) (nf : String × V1Field) : FieldMap :=
  extendB acc (unpack nf.1 nf.2)

/-- `for (name, f) in fields { map.extend(unpack_v1_field(name, f)) }` -/
def upgradeFields (m : List (String × V1Field)) : FieldMap := m.foldl addUnpacked []

def addStruct (acc : List (String × FieldMap)) (s : String × List (String × V1Field)) :
    List (String × FieldMap) :=
  bInsert acc s.1 (upgradeFields s.2)

def upgradeStructs : Option (List (String × List (String × V1Field))) → List (String × FieldMap)
  | none => []
  | some ss => ss.foldl addStruct []

/-- `From<v1::StandardLibrary> for StandardLibrary` -/
def upgrade (v : V1Lib) : FullLib :=
  match v.selene with
  | none => { core := { globals := upgradeFields v.globals } }
  | some m =>
    { core := { base := m.base, name := m.name, structs := upgradeStructs m.structs,
                globals := upgradeFields v.globals } }

end Selene.Std.Serde
