/-
Lemmas about the whole-program library lints of `Std/Prog.lean`: every diagnostic is about a use whose
name path starts with the text of an identifier token, and the gate found no resolved reference at that
token; the hooks depend on the scope analysis only through the gate.
-/
import Selene.Std.Prog
namespace Selene.Std.Prog
open Selene.Lua Selene.Lints

/-- a diagnostic about a name path rooted at identifier token `t`, whose gate was open -/
def Rooted (R : Nat → Bool) (g : PDiag) : Prop :=
  ∃ t : Tok, g.root = t.idx ∧ g.path.head? = some t.text ∧ R t.idx = false

theorem namePathPS_root {p : Prefix} {ss : List Suffix} {path : List String}
    (h : namePathPS p ss = some path) : ∃ t : Tok, p = .name t ∧ path.head? = some t.text := by
  cases p with
  | name t =>
    refine ⟨t, rfl, ?_⟩
    simp only [namePathPS] at h
    cases hp : pathOfSuffixes (takeToCall ss) with
    | none => simp [hp] at h
    | some r => simp [hp] at h; subst h; rfl
  | expr e => simp [namePathPS] at h

theorem namePathE_root {e : Lua.Expr} {path : List String} (h : namePathE e = some path) :
    ∃ t : Tok, exprStart e = t.idx ∧ path.head? = some t.text := by
  cases e with
  | var v =>
    cases v with
    | name t => simp [namePathE] at h; subst h; exact ⟨t, rfl, rfl⟩
    | expr sp p ss =>
      simp only [namePathE] at h
      obtain ⟨t, hp, hh⟩ := namePathPS_root h
      subst hp
      exact ⟨t, rfl, hh⟩
  | _ => simp [namePathE] at h

variable (l : SegLib) (R : Nat → Bool)

theorem stdExpr_rooted (e : Lua.Expr) (g : PDiag) (h : g ∈ stdExpr l R e) : Rooted R g := by
  unfold stdExpr at h
  by_cases hr : R (exprStart e) = true
  · simp [hr] at h
  · simp only [hr] at h
    cases hp : namePathE e with
    | none => simp [hp] at h
    | some path =>
      simp only [hp] at h
      obtain ⟨pr, _, rfl⟩ := List.mem_map.mp h
      obtain ⟨t, ht, hh⟩ := namePathE_root hp
      exact ⟨t, ht, hh, by rw [← ht]; simpa using hr⟩

theorem stdCall_rooted (c : FCall) (g : PDiag) (h : g ∈ stdCall l R c) : Rooted R g := by
  obtain ⟨sp, p, ss⟩ := c
  unfold stdCall at h
  by_cases hr : R (prefixStart p) = true
  · simp [hr] at h
  · simp only [hr] at h
    cases hp : namePathPS p (takeToCall ss.toList) with
    | none => simp [hp] at h
    | some path =>
      obtain ⟨t, hpt, hh⟩ := namePathPS_root hp
      subst hpt
      have hroot : ∀ (span : Span) (kind : Kind),
          Rooted R ({ code := "incorrect_standard_library_use", span, kind, path, root := prefixStart (.name t) } : PDiag) :=
        fun _ _ => ⟨t, rfl, hh, by simpa [prefixStart] using hr⟩
      simp only [hp] at h
      cases hl : (takeToCall ss.toList).getLast? with
      | none => simp [hl] at h
      | some cs =>
        simp only [hl] at h
        cases hf : found? (findGlobal l path) with
        | none =>
          simp only [hf] at h
          obtain ⟨pr, _, rfl⟩ := List.mem_map.mp h
          exact hroot _ _
        | some f =>
          simp only [hf] at h
          cases cs with
          | args asp a =>
            obtain ⟨pr, _, rfl⟩ := List.mem_map.mp h
            exact hroot _ _
          | meth msp n a =>
            obtain ⟨pr, _, rfl⟩ := List.mem_map.mp h
            exact hroot _ _
          | dot _ _ => simp at h
          | idx _ _ => simp at h
          | unsupported _ => simp at h

theorem stdTarget_rooted (v : Var) (pr : AccessProblem) (hpr : pr ∈ targetProblems l (targetOf R v)) :
    Rooted R ({ code := "incorrect_standard_library_use", span := v.span, kind := .access pr,
                path := targetPath (targetOf R v), root := varStart v } : PDiag) := by
  cases v with
  | name t =>
    by_cases hr : R t.idx = true
    · simp [targetOf, hr, targetProblems] at hpr
    · exact ⟨t, rfl, by simp [targetOf, targetPath], by simpa using hr⟩
  | expr sp p ss =>
    by_cases hr : R (prefixStart p) = true
    · simp [targetOf, hr, targetProblems] at hpr
    · by_cases hlen : (takeToCall ss.toList).length ≠ ss.toList.length
      · simp [targetOf, hr, hlen, targetProblems] at hpr
      · cases hp : namePathPS p ss.toList with
        | none => simp [targetOf, hr, hlen, hp, targetProblems] at hpr
        | some path =>
          obtain ⟨t, hpt, hh⟩ := namePathPS_root hp
          subst hpt
          refine ⟨t, rfl, ?_, by simpa [prefixStart] using hr⟩
          simp [targetOf, hr, hlen, hp, targetPath, hh]

theorem stdTargets_rooted : (vs : VarList) → (g : PDiag) → g ∈ stdTargets l R vs → Rooted R g
  | .nil, g, h => by simp [stdTargets] at h
  | .cons v rest, g, h => by
    simp only [stdTargets, List.mem_append] at h
    rcases h with h | h
    · obtain ⟨pr, hpr, rfl⟩ := List.mem_map.mp h
      exact stdTarget_rooted l R v pr hpr
    · exact stdTargets_rooted rest g h

/-- **every `incorrect_standard_library_use` diagnostic of a program is rooted at an identifier whose
first reference the gate found unresolved** -/
theorem stdLint_rooted (b : Block) (g : PDiag) (h : g ∈ stdLint l R b) : Rooted R g := by
  unfold stdLint at h
  simp only [List.mem_flatMap] at h
  obtain ⟨n, _, hg⟩ := h
  cases n with
  | expr e => exact stdExpr_rooted l R e g hg
  | call c => exact stdCall_rooted l R c g hg
  | stmt s =>
    cases s with
    | assign _ vs _ => exact stdTargets_rooted l R vs g hg
    | _ => simp [stdHook] at hg
  | table _ _ => simp [stdHook] at hg

theorem checkNamePath_root (allow : List (List String)) (span : Span) (root : Nat) (what : String)
    (path : List String) (args : List (Bool × Span)) (g : PDiag)
    (h : g ∈ checkNamePath l allow span root what path args) : g.root = root ∧ g.path = path := by
  unfold checkNamePath at h
  by_cases ha : allowed allow path = true
  · simp [ha] at h
  · simp only [ha] at h
    rcases List.mem_append.mp h with h | h
    · obtain ⟨_, _, rfl⟩ := List.mem_map.mp h
      exact ⟨rfl, rfl⟩
    · split at h
      · obtain ⟨⟨i, sp⟩, _, rfl⟩ := List.mem_map.mp h
        exact ⟨rfl, rfl⟩
      · simp at h

theorem deprExpr_rooted (allow : List (List String)) (e : Lua.Expr) (g : PDiag)
    (h : g ∈ deprExpr l R allow e) : Rooted R g := by
  unfold deprExpr at h
  by_cases hr : R (exprStart e) = true
  · simp [hr] at h
  · simp only [hr] at h
    cases hp : namePathE e with
    | none => simp [hp] at h
    | some path =>
      simp only [hp] at h
      obtain ⟨h1, h2⟩ := checkNamePath_root l allow _ _ _ _ _ g h
      obtain ⟨t, ht, hh⟩ := namePathE_root hp
      exact ⟨t, by rw [h1, ht], by rw [h2, hh], by rw [← ht]; simpa using hr⟩

theorem deprCall_rooted (allow : List (List String)) (c : FCall) (g : PDiag)
    (h : g ∈ deprCall l R allow c) : Rooted R g := by
  obtain ⟨sp, p, ss⟩ := c
  unfold deprCall at h
  by_cases hr : R (prefixStart p) = true
  · simp [hr] at h
  · simp only [hr] at h
    cases hp : namePathPS p (takeToCall ss.toList) with
    | none => simp [hp] at h
    | some path =>
      obtain ⟨t, hpt, hh⟩ := namePathPS_root hp
      subst hpt
      simp only [hp] at h
      have fin : ∀ args, g ∈ checkNamePath l allow sp (prefixStart (.name t)) "function" path args → Rooted R g := by
        intro args hg
        obtain ⟨h1, h2⟩ := checkNamePath_root l allow _ _ _ _ _ g hg
        exact ⟨t, by rw [h1]; rfl, by rw [h2, hh], by simpa [prefixStart] using hr⟩
      cases hl : (takeToCall ss.toList).getLast? with
      | none => simp [hl] at h
      | some cs =>
        simp only [hl] at h
        cases cs with
        | args _ a => exact fin _ h
        | meth _ _ a => exact fin _ h
        | dot _ _ => simp at h
        | idx _ _ => simp at h
        | unsupported _ => simp at h

/-- the same for `deprecated` -/
theorem deprecatedLint_rooted (allow : List (List String)) (b : Block) (g : PDiag)
    (h : g ∈ deprecatedLint l R allow b) : Rooted R g := by
  unfold deprecatedLint at h
  simp only [List.mem_flatMap] at h
  obtain ⟨n, _, hg⟩ := h
  cases n with
  | expr e => exact deprExpr_rooted l R allow e g hg
  | call c => exact deprCall_rooted l R allow c g hg
  | stmt _ => simp [deprHook] at hg
  | table _ _ => simp [deprHook] at hg

theorem callStmtPathGo_head : (ss : List Suffix) → (acc path : List String) →
    callStmtPathGo ss acc = some path → acc ≠ [] → path.head? = acc.head?
  | [], acc, path, h, _ => by simp [callStmtPathGo] at h; subst h; rfl
  | .dot _ n :: rest, acc, path, h, hne => by
    simp only [callStmtPathGo] at h
    rw [callStmtPathGo_head rest _ path h (by simp)]
    cases acc with
    | nil => exact absurd rfl hne
    | cons a as => rfl
  | .idx _ _ :: _, _, _, h, _ => by simp [callStmtPathGo] at h
  | .args _ _ :: rest, acc, path, h, _ => by
    simp only [callStmtPathGo] at h
    split at h
    · simp at h; subst h; rfl
    · simp at h
  | .meth _ _ _ :: rest, acc, path, h, _ => by
    simp only [callStmtPathGo] at h
    split at h
    · simp at h; subst h; rfl
    · simp at h
  | .unsupported _ :: rest, acc, path, h, hne => by
    simp only [callStmtPathGo] at h
    exact callStmtPathGo_head rest acc path h hne

/-- the same for `must_use` -/
theorem mustUseLint_rooted (b : Block) (g : PDiag) (h : g ∈ mustUseLint l R b) : Rooted R g := by
  unfold mustUseLint at h
  simp only [List.mem_flatMap] at h
  obtain ⟨n, _, hg⟩ := h
  cases n with
  | stmt s =>
    cases s with
    | call c =>
      obtain ⟨sp, p, ss⟩ := c
      simp only [mustUseHook, mustUseStmt] at hg
      cases hp : callStmtPath (.mk sp p ss) with
      | none => simp [hp] at hg
      | some path =>
        simp only [hp] at hg
        by_cases hr : R (prefixStart p) = true
        · simp [hr] at hg
        · simp only [hr] at hg
          cases p with
          | expr e => simp [callStmtPath] at hp
          | name t =>
            simp only [callStmtPath] at hp
            have hh := callStmtPathGo_head ss.toList [t.text] path hp (by simp)
            split at hg
            all_goals (try split at hg)
            all_goals first
              | (simp only [List.mem_singleton] at hg
                 subst hg
                 exact ⟨t, rfl, by simpa using hh, by simpa [prefixStart] using hr⟩)
              | (simp at hg; done)
              | (simp at hg
                 obtain ⟨_, rfl⟩ := hg
                 exact ⟨t, rfl, by simpa using hh, by simpa [prefixStart] using hr⟩)
    | _ => simp [mustUseHook, mustUseStmt] at hg
  | expr _ => simp [mustUseHook] at hg
  | call _ => simp [mustUseHook] at hg
  | table _ _ => simp [mustUseHook] at hg

theorem mustUseStmt_congr (R' : Nat → Bool) (sp : Span) (p : Prefix) (ss : SuffixList)
    (h : R (prefixStart p) = R' (prefixStart p)) :
    mustUseStmt l R (.call (.mk sp p ss)) = mustUseStmt l R' (.call (.mk sp p ss)) := by
  simp only [mustUseStmt, h]

/-! ### the hooks see the scope analysis only through the gate -/

theorem stdExpr_congr (R' : Nat → Bool) (e : Lua.Expr) (h : R (exprStart e) = R' (exprStart e)) :
    stdExpr l R e = stdExpr l R' e := by
  unfold stdExpr; rw [h]

theorem stdCall_congr (R' : Nat → Bool) (sp : Span) (p : Prefix) (ss : SuffixList)
    (h : R (prefixStart p) = R' (prefixStart p)) :
    stdCall l R (.mk sp p ss) = stdCall l R' (.mk sp p ss) := by
  simp only [stdCall, h]

theorem deprExpr_congr (R' : Nat → Bool) (allow : List (List String)) (e : Lua.Expr)
    (h : R (exprStart e) = R' (exprStart e)) : deprExpr l R allow e = deprExpr l R' allow e := by
  unfold deprExpr; rw [h]

theorem deprCall_congr (R' : Nat → Bool) (allow : List (List String)) (sp : Span) (p : Prefix) (ss : SuffixList)
    (h : R (prefixStart p) = R' (prefixStart p)) :
    deprCall l R allow (.mk sp p ss) = deprCall l R' allow (.mk sp p ss) := by
  simp only [deprCall, h]

end Selene.Std.Prog
