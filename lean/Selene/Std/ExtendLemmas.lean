import Selene.Std.Extend
namespace Selene.Std

def KeysNodup {α} (m : List (String × α)) : Prop := (m.map (·.1)).Nodup

theorem KeysNodup.tail {α} {kv : String × α} {m : List (String × α)} (h : KeysNodup (kv :: m)) :
    KeysNodup m := by
  unfold KeysNodup at *; simp only [List.map_cons, List.nodup_cons] at h; exact h.2

theorem KeysNodup.head_notin {α} {kv : String × α} {m : List (String × α)} (h : KeysNodup (kv :: m)) :
    ∀ v, (kv.1, v) ∉ m := by
  unfold KeysNodup at h; simp only [List.map_cons, List.nodup_cons, List.mem_map] at h
  intro v hv; exact h.1 ⟨(kv.1, v), hv, rfl⟩

@[simp] theorem getKV_nil {α} (k : String) : getKV ([] : List (String × α)) k = none := rfl

theorem getKV_cons {α} (k' : String) (v' : α) (m : List (String × α)) (k : String) :
    getKV ((k', v') :: m) k = if k' = k then some v' else getKV m k := by
  unfold getKV; simp only [List.find?_cons]
  by_cases h : k' = k <;> simp [h]

theorem getKV_eq_none {α} {m : List (String × α)} {k : String} :
    getKV m k = none ↔ ∀ v, (k, v) ∉ m := by
  induction m with
  | nil => simp
  | cons kv rest ih =>
    obtain ⟨k', v'⟩ := kv
    rw [getKV_cons]
    by_cases h : k' = k
    · subst h; simp only [if_true]
      constructor
      · intro h; cases h
      · intro h; exact absurd (List.mem_cons_self) (h v')
    · simp only [h, if_false, ih, List.mem_cons, Prod.mk.injEq, not_or]
      constructor
      · intro hr v; exact ⟨fun ⟨e, _⟩ => h e.symm, hr v⟩
      · intro hr v; exact (hr v).2

theorem getKV_none_of_head {α} {k : String} {v : α} {m : List (String × α)}
    (h : KeysNodup ((k, v) :: m)) : getKV m k = none :=
  getKV_eq_none.mpr (h.head_notin)

theorem getKV_mem {α} {m : List (String × α)} {k : String} {v : α} (h : getKV m k = some v) :
    (k, v) ∈ m := by
  induction m with
  | nil => simp at h
  | cons kv rest ih =>
    obtain ⟨k', v'⟩ := kv
    rw [getKV_cons] at h
    by_cases hk : k' = k
    · subst hk; simp only [if_true, Option.some.injEq] at h; subst h; exact List.mem_cons_self
    · simp only [hk, if_false] at h; exact List.mem_cons_of_mem _ (ih h)

theorem getKV_of_mem {α} {m : List (String × α)} (hn : KeysNodup m) {k : String} {v : α}
    (h : (k, v) ∈ m) : getKV m k = some v := by
  induction m with
  | nil => simp at h
  | cons kv rest ih =>
    obtain ⟨k', v'⟩ := kv
    rw [getKV_cons]
    rcases List.mem_cons.mp h with h | h
    · injection h with h1 h2; subst h1 h2; simp
    · have : k' ≠ k := by
        intro e; subst e; exact hn.head_notin v h
      simp only [this, if_false]; exact ih hn.tail h

theorem getKV_insertKV {α} (m : List (String × α)) (k : String) (v : α) (k' : String) :
    getKV (insertKV m k v) k' = if k = k' then some v else getKV m k' := by
  induction m with
  | nil => simp [insertKV, getKV_cons]
  | cons kv rest ih =>
    obtain ⟨k0, v0⟩ := kv
    simp only [insertKV]
    by_cases h0 : k0 = k
    · subst h0; simp only [if_true, getKV_cons]
      by_cases h1 : k0 = k' <;> simp [h1]
    · simp only [h0, if_false, getKV_cons, ih]
      by_cases h1 : k0 = k'
      · subst h1
        have : ¬ k = k0 := fun e => h0 e.symm
        simp [this]
      · simp [h1]

theorem getKV_extendKV {α} (m xs : List (String × α)) (hx : KeysNodup xs) (k : String) :
    getKV (extendKV m xs) k = match getKV xs k with
      | some v => some v
      | none => getKV m k := by
  induction xs generalizing m with
  | nil => simp [extendKV]
  | cons kv rest ih =>
    obtain ⟨k0, v0⟩ := kv
    have hrest := hx.tail
    show getKV (extendKV (insertKV m k0 v0) rest) k = _
    rw [ih _ hrest, getKV_insertKV, getKV_cons]
    by_cases h : k0 = k
    · subst h
      have : getKV rest k0 = none := getKV_none_of_head hx
      simp [this]
    · simp [h]

theorem keys_insertKV {α} (m : List (String × α)) (k : String) (v : α) (k' : String) :
    k' ∈ (insertKV m k v).map (·.1) ↔ k' = k ∨ k' ∈ m.map (·.1) := by
  induction m with
  | nil => simp [insertKV]
  | cons kv rest ih =>
    obtain ⟨k0, v0⟩ := kv
    simp only [insertKV]
    by_cases h0 : k0 = k
    · subst h0; simp
    · simp only [h0, if_false, List.map_cons, List.mem_cons, ih]
      constructor
      · rintro (h | h | h)
        · exact Or.inr (Or.inl h)
        · exact Or.inl h
        · exact Or.inr (Or.inr h)
      · rintro (h | h | h)
        · exact Or.inr (Or.inl h)
        · exact Or.inl h
        · exact Or.inr (Or.inr h)

theorem KeysNodup.insertKV {α} {m : List (String × α)} (h : KeysNodup m) (k : String) (v : α) :
    KeysNodup (insertKV m k v) := by
  induction m with
  | nil => simp [Std.insertKV, KeysNodup]
  | cons kv rest ih =>
    obtain ⟨k0, v0⟩ := kv
    simp only [Std.insertKV]
    by_cases h0 : k0 = k
    · subst h0; simpa [KeysNodup] using h
    · simp only [h0, if_false]
      unfold KeysNodup at *
      simp only [List.map_cons, List.nodup_cons] at h ⊢
      refine ⟨?_, ih h.2⟩
      intro hm
      rcases (keys_insertKV rest k v k0).mp hm with e | e
      · exact h0 e
      · exact h.1 e

theorem KeysNodup.extendKV {α} {m : List (String × α)} (h : KeysNodup m) (xs : List (String × α)) :
    KeysNodup (extendKV m xs) := by
  induction xs generalizing m with
  | nil => simpa [Std.extendKV] using h
  | cons kv rest ih => exact ih (h.insertKV kv.1 kv.2)

theorem KeysNodup.nil {α} : KeysNodup ([] : List (String × α)) := by simp [KeysNodup]

theorem KeysNodup.filter {α} {m : List (String × α)} (h : KeysNodup m) (p : String × α → Bool) :
    KeysNodup (m.filter p) := by
  unfold KeysNodup at *
  exact h.sublist ((List.filter_sublist).map _)

theorem getKV_filter {α} (m : List (String × α)) (hn : KeysNodup m) (p : String × α → Bool) (k : String) :
    getKV (m.filter p) k = match getKV m k with
      | some v => if p (k, v) then some v else none
      | none => none := by
  induction m with
  | nil => simp
  | cons kv rest ih =>
    obtain ⟨k0, v0⟩ := kv
    have hrest := hn.tail
    rw [getKV_cons]
    by_cases h0 : k0 = k
    · subst h0
      have hnone : getKV rest k0 = none := getKV_none_of_head hn
      simp only [if_true, List.filter_cons]
      by_cases hp : p (k0, v0)
      · simp [hp, getKV_cons]
      · simp only [hp, Bool.false_eq_true, if_false]
        rw [ih hrest, hnone]
    · simp only [h0, if_false, List.filter_cons]
      by_cases hp : p (k0, v0)
      · simp only [hp, if_true, getKV_cons, h0, if_false]; exact ih hrest
      · simp only [hp, Bool.false_eq_true, if_false]; exact ih hrest

end Selene.Std
