/-
Model of the global tree (`extract_into_tree`, `GlobalTreeNode`) and of
`StandardLibrary::find_global` / `global_has_fields`
(selene-lib/src/standard_library/mod.rs:29-102, 230-290).

Keys are kept as *segment lists* (`"a.b.c"` ↦ `["a","b","c"]`, what `name.split('.')` yields);
the driver splits the dotted keys it receives.  Assumption recorded in the evidence: no queried
name contains a `.` (they are Lua identifiers), so `names.join(".")` used by the explicit lookup
identifies the same key as the segment list.
-/
import Selene.Std.Basic
import Selene.Std.Extend
namespace Selene.Std

abbrev Path := List String
abbrev SegMap := List (Path × Field)

def SegMap.get (m : SegMap) (p : Path) : Option Field := (m.find? (·.1 = p)).map (·.2)

/-- `GlobalTreeField` -/
inductive TreeField where
  | key (k : Path)
  | readOnly
deriving DecidableEq, Repr, Inhabited

/-- `GlobalTreeNode` -/
inductive Node where
  | mk (field : TreeField) (children : List (String × Node))
deriving Inhabited

abbrev Children := List (String × Node)

def Node.field : Node → TreeField
  | .mk f _ => f
def Node.children : Node → Children
  | .mk _ c => c

def childField (ch : Children) (s : String) : TreeField :=
  match getKV ch s with
  | some n => n.field
  | none => .readOnly

def childCh (ch : Children) (s : String) : Children :=
  match getKV ch s with
  | some n => n.children
  | none => []

/-- one iteration of the `for name in names_to_fields.keys()` loop: walk / create the
intermediate segments (`entry(..).or_insert_with(ReadOnlyField)`), then set or create the final one -/
def insertSegs : Path → Path → Children → Children
  | [], _, ch => ch
  | [final], key, ch => insertKV ch final (.mk (.key key) (childCh ch final))
  | seg :: r :: rest, key, ch =>
    insertKV ch seg (.mk (childField ch seg) (insertSegs (r :: rest) key (childCh ch seg)))

/-- `extract_into_tree` -/
def extractIntoTree (m : SegMap) : Children :=
  m.foldl (fun acc kf => insertSegs kf.1 kf.1 acc) []

/-- three-valued result: the Rust returns `Option<&Field>` or panics -/
inductive Lookup where
  | found (f : Field)
  | absent
  | panic (why : String)
deriving DecidableEq, Repr, Inhabited

/-- `GlobalTreeNode::field(names_to_fields)` (`none` = the `couldn't find … inside names_to_fields` panic) -/
def nodeFieldOf (m : SegMap) : TreeField → Option Field
  | .key k => m.get k
  | .readOnly => some readOnlyField

/-- `current.get(name).or_else(|| current.get("*"))` -/
def stepGet (current : Children) (name : String) : Option Node :=
  match getKV current name with
  | some n => some n
  | none => getKV current "*"

/-- the segment walk of `find_global` after the explicit lookup failed -/
def walkTree (structs : List (String × SegMap)) (m : SegMap) (current : Children) : Path → Lookup
  | [] => .absent
  | [last] =>
    match stepGet current last with
    | none => .absent
    | some n =>
      match nodeFieldOf m n.field with
      | some f => .found f
      | none => .panic "couldn't find key inside names_to_fields"
  | name :: r :: rest =>
    match stepGet current name with
    | none => .absent
    | some n =>
      match nodeFieldOf m n.field with
      | none => .panic "couldn't find key inside names_to_fields"
      | some f =>
        match f.kind with
        | .any => .found f
        | .struct sname =>
          match getKV structs sname with
          | none => .absent          -- `self.structs.get(struct_name)?`: an undefined struct leads nowhere
          | some strukt => walkTree structs strukt (extractIntoTree strukt) (r :: rest)
        | _ => walkTree structs m n.children (r :: rest)

structure SegLib where
  globals : SegMap
  structs : List (String × SegMap)

/-- `find_global` -/
def findGlobal (l : SegLib) (names : Path) : Lookup :=
  match names with
  | [] => .panic "assert!(!names.is_empty())"
  | _ =>
    match l.globals.get names with
    | some f => .found f
    | none => walkTree l.structs l.globals (extractIntoTree l.globals) names

/-- `global_has_fields` -/
def globalHasFields (l : SegLib) (name : String) : Bool :=
  (getKV (extractIntoTree l.globals) name).isSome

end Selene.Std
