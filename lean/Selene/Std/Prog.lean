/-
Whole-program model of the two standard-library lints that walk the syntax tree themselves:
`incorrect_standard_library_use` (selene-lib/src/lints/standard_library.rs: `visit_assignment`,
`visit_expression`, `visit_function_call`) and `deprecated` (lints/deprecated.rs), with
`ast_util/name_paths.rs` (`take_while_keep_going`, `name_path_from_prefix_suffix`, `name_path`).

What the earlier files model from "the field has been found" onwards (`Std/Call.lean`: the call
check; `Std/Access.lean`: field access and writability; `Std/Trie.lean`: `find_global`) is here
placed inside the traversal of the tree: which nodes are visited, the gate every hook starts with
(`scope_manager.reference_at_byte(node.start_position())` resolved ⇒ stop), how the name path is
read off prefix and suffixes, which suffix is *the* call, which range each diagnostic gets.

The scope analysis enters as a function `R : Nat → Bool` — "the first reference recorded at this
token is resolved" — which `Props/C07.lean` instantiates with the machine of `Scope/Core.lean`.
Ranges are token spans.  Imports nothing outside core Lean (linked into the driver).
-/
import Selene.Lints.TraverseA
import Selene.Std.Access
import Selene.Std.Call
namespace Selene.Std.Prog
open Selene.Lua Selene.Lints

/-! ### name paths -/

/-- `suffixes.take_while(|s| take_while_keep_going(s, &mut keep_going))`: the suffixes up to and
including the first call -/
def takeToCall : List Suffix → List Suffix
  | [] => []
  | s :: rest => if s.isCall then [s] else s :: takeToCall rest

/-- the loop of `name_path_from_prefix_suffix` over suffixes already cut by `takeToCall` -/
def pathOfSuffixes : List Suffix → Option (List String)
  | [] => some []
  | .dot _ n :: rest => (pathOfSuffixes rest).map (n.text :: ·)
  | .meth _ n _ :: rest => (pathOfSuffixes rest).map (n.text :: ·)
  | .args _ _ :: rest => pathOfSuffixes rest
  | _ :: _ => none

/-- `name_path_from_prefix_suffix` -/
def namePathPS (p : Prefix) (ss : List Suffix) : Option (List String) :=
  match p with
  | .name t => (pathOfSuffixes (takeToCall ss)).map (t.text :: ·)
  | .expr _ => none

/-- `name_path(expression)` -/
def namePathE : Lua.Expr → Option (List String)
  | .var (.expr _ p ss) => namePathPS p ss.toList
  | .var (.name t) => some [t.text]
  | _ => none

/-! ### the first token of a node (`start_position()`) -/

def prefixStart : Prefix → Nat
  | .name t => t.idx
  | .expr e => e.span.first

def prefixEnd : Prefix → Nat
  | .name t => t.idx
  | .expr e => e.span.last

def exprStart : Lua.Expr → Nat
  | .var (.name t) => t.idx
  | .var (.expr _ p _) => prefixStart p
  | .call (.mk _ p _) => prefixStart p
  | e => e.span.first

def varStart : Var → Nat
  | .name t => t.idx
  | .expr _ p _ => prefixStart p

/-! ### argument expressions as `get_argument_type` sees them -/

def quoteOf : QuoteKind → Quote
  | .single => .single
  | .double => .double
  | _ => .long 0

def unOpOf (s : String) : Option UnOp :=
  if s = "-" then some .minus else if s = "not" then some .not else if s = "#" then some .hash else none

def binOpOf (s : String) : Option BinOp :=
  if s = "^" then some .caret else if s = ">" then some .gt else if s = ">=" then some .ge
  else if s = "<" then some .lt else if s = "<=" then some .le else if s = "==" then some .eq
  else if s = "~=" then some .ne else if s = "+" then some .plus else if s = "-" then some .minus
  else if s = "*" then some .star else if s = "/" then some .slash else if s = "%" then some .percent
  else if s = ".." then some .concat else if s = "and" then some .and else if s = "or" then some .or
  else none

/-- the part of an argument expression `get_argument_type` and `maybe_more_arguments` look at;
    anything they have no arm for is an opaque value of unknown type (`.name`) -/
def argExpr : Lua.Expr → Std.Expr
  | .nil _ => .nilLit
  | .true_ _ => .trueLit
  | .false_ _ => .falseLit
  | .dots _ => .vararg
  | .num t => .number t.text
  | .str _ q lit => .str (quoteOf q) lit
  | .func _ _ _ => .function
  | .paren _ e => .paren (argExpr e)
  | .un _ op e =>
    match unOpOf op.text with
    | some o => .unop o (argExpr e)
    | none => .name "?"
  | .bin _ l op r =>
    match binOpOf op.text with
    | some o => .binop o (argExpr l) (argExpr r)
    | none => .name "?"
  | .tbl _ _ => .table
  | .var _ => .name "?"
  | .call _ => .call
  | .unsupported _ => .name "?"

def argExprs : ExprList → List Std.Expr
  | .nil => []
  | .cons e rest => argExpr e :: argExprs rest

def argSpans : ExprList → List Span
  | .nil => []
  | .cons e rest => e.span :: argSpans rest

/-- `ast::FunctionArgs` → the call shape of `Std/Call.lean`, with the range of every argument -/
def callArgsOf : Args → CallArgs × List Span
  | .parens _ es => (.parens (argExprs es), argSpans es)
  | .str t q lit => (.string (quoteOf q) lit, [⟨t.idx, t.idx⟩])
  | .tbl sp _ => (.table, [sp])

/-! ### diagnostics -/

inductive Kind where
  | access (p : AccessProblem)
  | call (p : Problem)
  | deprecated (what : String) (bound : Nat)     -- "standard library {what} `path` is deprecated", the prefix of length `bound`
  | deprecatedParam (index : Nat)                -- "this parameter is deprecated"
  | mustUse                                      -- "unused return value of `path` must be used"
deriving DecidableEq, Repr, Inhabited

structure PDiag where
  code : String
  span : Span
  kind : Kind
  path : List String      -- the name path the hook computed
  root : Nat              -- the token the hook's gate looked at
deriving DecidableEq, Repr, Inhabited

/-- the range `visit_function_call` gives to "does not contain the field" for a call:
    prefix start … method name | end of the last suffix before the call | prefix end -/
def missingFieldSpan (p : Prefix) (before : List Suffix) (cs : Suffix) : Span :=
  let last := match cs with
    | .meth _ n _ => n.idx
    | _ => match before.getLast? with
      | some s => s.span.last
      | none => prefixEnd p
  ⟨prefixStart p, last⟩

def callProblemSpan (callSpan : Span) (argSpans : List Span) : Problem → Span
  | .type i _ _ => argSpans.getD i callSpan
  | _ => callSpan

def found? : Lookup → Option Field
  | .found f => some f
  | _ => none

variable (l : SegLib) (R : Nat → Bool)

/-! ### `incorrect_standard_library_use` -/

/-- `visit_expression` -/
def stdExpr (e : Lua.Expr) : List PDiag :=
  if R (exprStart e) then []
  else match namePathE e with
    | none => []
    | some path =>
      (invalidFieldAccess l path).map fun pr =>
        { code := "incorrect_standard_library_use", span := e.span, kind := .access pr, path, root := exprStart e }

/-- `visit_function_call` -/
def stdCall : FCall → List PDiag
  | .mk sp p ss =>
    if R (prefixStart p) then []
    else
      let taken := takeToCall ss.toList
      match namePathPS p taken with
      | none => []
      | some path =>
        match taken.getLast? with
        | none => []                      -- a call has a call suffix
        | some cs =>
          let mk (span : Span) (kind : Kind) : PDiag :=
            { code := "incorrect_standard_library_use", span, kind, path, root := prefixStart p }
          match found? (findGlobal l path) with
          | none =>
            (invalidFieldAccess l path).map fun pr => mk (missingFieldSpan p taken.dropLast cs) (.access pr)
          | some f =>
            let shape : Option (Bool × Args) := match cs with
              | .args _ a => some (false, a)
              | .meth _ _ a => some (true, a)
              | _ => none
            match shape with
            | none => []
            | some (isMethod, a) =>
              let (cargs, spans) := callArgsOf a
              (checkField f.kind { isMethod, args := cargs }).map fun pr => mk (callProblemSpan sp spans pr) (.call pr)

/-- what `visit_assignment` makes of one target -/
def targetOf : Var → Target
  | .name t => .name t.text (R t.idx)
  | .expr _ p ss =>
    if R (prefixStart p) then .path [] true
    else if (takeToCall ss.toList).length ≠ ss.toList.length then .other     -- "modifying the return value"
    else match namePathPS p ss.toList with
      | some path => .path path false
      | none => .other

def targetPath : Target → List String
  | .name n _ => [n]
  | .path p _ => p
  | .other => []

/-- `visit_assignment`: every target on its own -/
def stdTargets : VarList → List PDiag
  | .nil => []
  | .cons v rest =>
    let t := targetOf R v
    ((targetProblems l t).map fun pr =>
      ({ code := "incorrect_standard_library_use", span := v.span, kind := .access pr, path := targetPath t,
         root := varStart v } : PDiag)) ++ stdTargets rest

def stdHook : Lints.Node → List PDiag
  | .expr e => stdExpr l R e
  | .call c => stdCall l R c
  | .stmt (.assign _ vs _) => stdTargets l R vs
  | _ => []

/-- the lint over a whole program -/
def stdLint (b : Block) : List PDiag := (nodesB b).flatMap (stdHook l R)

/-! ### `deprecated` -/

/-- `DeprecatedVisitor::allowed` for one configured path -/
def allowMatches : List String → List String → Bool
  | [], _ => true
  | _ :: _, [] => false
  | a :: as, n :: ns => (a = "*" || a = n) && allowMatches as ns

def allowed (allow : List (List String)) (path : List String) : Bool :=
  allow.any fun a => allowMatches a path

/-- the bounds `1..=name_path.len()` whose prefix is a deprecated field -/
def deprecatedBounds (path : List String) : Nat → Nat → List Nat
  | 0, _ => []
  | fuel + 1, bound =>
    if bound > path.length then []
    else
      let here := match found? (findGlobal l (path.take bound)) with
        | some f => if f.deprecated.isSome then [bound] else []
        | none => []
      here ++ deprecatedBounds path fuel (bound + 1)

/-- is the argument's text exactly `nil`? (`arg.display != "nil"`) -/
def displaysNil : Lua.Expr → Bool
  | .nil _ => true
  | _ => false

/-- arguments paired with parameters; the deprecated parameters that received something other than `nil` -/
def deprecatedParams : List (Bool × Span) → List Argument → Nat → List (Nat × Span)
  | [], _, _ => []
  | _, [], _ => []
  | (isNil, sp) :: as, p :: ps, i =>
    (if !isNil && p.deprecated.isSome then [(i, sp)] else []) ++ deprecatedParams as ps (i + 1)

/-- `check_name_path` -/
def checkNamePath (allow : List (List String)) (span : Span) (root : Nat) (what : String)
    (path : List String) (args : List (Bool × Span)) : List PDiag :=
  if allowed allow path then []
  else
    ((deprecatedBounds l path path.length 1).map fun b =>
      ({ code := "deprecated", span, kind := .deprecated what b, path, root } : PDiag)) ++
    (match found? (findGlobal l path) with
     | some { kind := .function f, .. } =>
       (deprecatedParams args f.args 0).map fun (i, sp) =>
         ({ code := "deprecated", span := sp, kind := .deprecatedParam i, path, root } : PDiag)
     | _ => [])

def argNilSpans : ExprList → List (Bool × Span)
  | .nil => []
  | .cons e rest => (displaysNil e, e.span) :: argNilSpans rest

def deprArgs : Args → List (Bool × Span)
  | .parens _ es => argNilSpans es
  | .str t _ _ => [(false, ⟨t.idx, t.idx⟩)]
  | .tbl sp _ => [(false, sp)]

def deprExpr (allow : List (List String)) (e : Lua.Expr) : List PDiag :=
  if R (exprStart e) then []
  else match namePathE e with
    | none => []
    | some path => checkNamePath l allow e.span (exprStart e) "expression" path []

def deprCall (allow : List (List String)) : FCall → List PDiag
  | .mk sp p ss =>
    if R (prefixStart p) then []
    else
      let taken := takeToCall ss.toList
      match namePathPS p taken with
      | none => []
      | some path =>
        match taken.getLast? with
        | some (.args _ a) => checkNamePath l allow sp (prefixStart p) "function" path (deprArgs a)
        | some (.meth _ _ a) => checkNamePath l allow sp (prefixStart p) "function" path (deprArgs a)
        | _ => []

def deprHook (allow : List (List String)) : Lints.Node → List PDiag
  | .expr e => deprExpr l R allow e
  | .call c => deprCall l R allow c
  | _ => []

def deprecatedLint (allow : List (List String)) (b : Block) : List PDiag :=
  (nodesB b).flatMap (deprHook l R allow)

/-! ### `must_use` (lints/must_use.rs over the call-statement table that `ScopeVisitor::process_function_call_finish`
fills at the end of every call *statement*: `get_name_path_from_call`, `initial_reference`, `call_prefix_range`) -/

/-- the loop of `get_name_path_from_call`: dots extend the path, a bracket index gives up, only the
last suffix may be a call (a method call's name is not part of the path) -/
def callStmtPathGo : List Suffix → List String → Option (List String)
  | [], path => some path
  | .dot _ n :: rest, path => callStmtPathGo rest (path ++ [n.text])
  | .idx _ _ :: _, _ => none
  | .args _ _ :: rest, path => if rest.isEmpty then some path else none
  | .meth _ _ _ :: rest, path => if rest.isEmpty then some path else none
  | .unsupported _ :: rest, path => callStmtPathGo rest path

def callStmtPath : FCall → Option (List String)
  | .mk _ (.name t) ss => callStmtPathGo ss.toList [t.text]
  | .mk _ (.expr _) _ => none

/-- `call_prefix_range`: prefix start … end of the last suffix before the final one -/
def callPrefixSpan (p : Prefix) (ss : List Suffix) : Span :=
  match ss.dropLast.getLast? with
  | some s => ⟨prefixStart p, s.span.last⟩
  | none => ⟨prefixStart p, prefixEnd p⟩

def mustUseStmt : Stmt → List PDiag
  | .call (.mk sp p ss) =>
    match callStmtPath (.mk sp p ss) with
    | none => []
    | some path =>
      if R (prefixStart p) then []
      else match found? (findGlobal l path) with
        | some { kind := .function f, .. } =>
          if f.mustUse then
            [{ code := "must_use", span := callPrefixSpan p ss.toList, kind := .mustUse, path, root := prefixStart p }]
          else []
        | _ => []
  | _ => []

def mustUseHook : Lints.Node → List PDiag
  | .stmt s => mustUseStmt l R s
  | _ => []

def mustUseLint (b : Block) : List PDiag := (nodesB b).flatMap (mustUseHook l R)

/-! ### messages (what the user reads; the correspondence run compares them with the real ones) -/

def dotted (p : List String) : String := ".".intercalate p

/-- the diagnostic's message and the message of its primary label -/
def PDiag.message (g : PDiag) : String × String :=
  match g.kind with
  | .access .noField =>
    (s!"standard library global `{dotted g.path.dropLast}` does not contain the field `{g.path.getLast?.getD ""}`", "")
  | .access .notWritable => (s!"standard library global `{dotted g.path}` is not writable", "")
  | .access .notOverridable => (s!"standard library global `{dotted g.path}` is not overridable", "")
  | .call .notFunction => (s!"standard library field `{dotted g.path}` is not a function", "")
  | .call (.style m) =>
    (s!"standard library function `{dotted g.path.dropLast}{if m then ":" else "."}{g.path.getLast?.getD ""}` {if m then "is not a method" else "is a method"}", "")
  | .call (.needsVararg _) => (s!"standard library function `{dotted g.path}` requires use of the vararg", "")
  | .call (.count e n _) => (s!"standard library function `{dotted g.path}` requires {e} parameters, {n} passed", "")
  | .call (.type _ t p) =>
    (s!"use of standard_library function `{dotted g.path}` is incorrect", s!"expected `{t.render}`, received `{p.typeName}`")
  | .deprecated what _ => (s!"standard library {what} `{dotted g.path}` is deprecated", "")
  | .deprecatedParam _ => ("this parameter is deprecated", "")
  | .mustUse => (s!"unused return value of `{dotted g.path}` must be used", "")

end Selene.Std.Prog
